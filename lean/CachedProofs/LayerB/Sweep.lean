/-
  C10 at ACTION granularity: "The sweeper removes exactly the expired keys and reclaims their weight",
  for every interleaving of the sweeper's actions with the worker, the clients and the consumer.

  One tick of the sweeper is `sweep.begin` (read the clock, take the lock of shard `secsOf now % shards`, list the
  shard's entries), then one `sweep.entry` action per listed entry (a due entry is taken out of the index and evicted
  by the three actions `kw.remove`, `wu.sub`, `store.remove` — unless `kw.remove` finds no charge, or finds that the
  value stored under the key id has not itself expired, and moves on; the others are left alone), then `sweep.end`.

  Layout (section 3 comes before section 2 in the file, which uses `SweepInv`)
    0  what the other threads do to the clock and to the expiry index (`swB_other_step`, `swB_TtlOther`), the
       sweeper's actions as equations (`swB_*_spec`)
    1  the sweep's clock: `C10_layerB_clock_monotone`, `SPc.now?`, `C10_layerB_sweep_clock`
    2  exactly the due entries: `C10_layerB_visit_decision`, `C10_layerB_kwRemove_only_if_due`,
       `C10_layerB_sub_only_after_kwRemove`, `C10_layerB_store_only_after_sub`, `C10_layerB_evict_due`,
       `C10_layerB_never_removes_live_partial`, `C10_layerB_never_removes_live` (the full statement, with the id: it
       was FALSE while the ticker's delete hook was `store.delete(&key)`; the hook is now
       `delete_if_key_id_matches` — `applyEvictId` — and the former counterexample run keeps the new incarnation:
       `C10_layerB_race_keeps_new_incarnation`)
    4b the check at `kw.remove` (fix 36c87dc: `key_weights.remove_if` re-validates against the store):
       `C10_layerB_kwRemove_only_if_store_expired` (the charge goes only if the value stored under the key id has
       expired by its OWN deadline), `C10_layerB_skip_harmless` (section 4), the record of the check along histories
       (`swB_Checked`, `swB_ChkInv`), `C10_layerB_removes_only_expired_at_check`,
       `C10_layerB_removes_unexpired_only_after_upsert`, `C10_layerB_never_removes_live_own_deadline`
    3  nothing due is left behind: `SweepInv`, `C10_layerB_locked_shard_frozen`, `C10_layerB_sweepInv_step`,
       `C10_layerB_sweepInv`, `C10_layerB_shard_clean_at_end`
    4  the weight is reclaimed: `C10_layerB_kwRemove_found`, `C10_layerB_sub`, `C10_layerB_storeRemove`,
       `C10_layerB_reclaims`, `C10_layerB_stale_harmless`
    5  concrete runs (non-vacuity; the race that used to remove a new incarnation; the second race — an upsert that
       extends the deadline before the check now keeps the key, `C10_layerB_second_race_fixed`; after the check it still
       loses it, `C10_layerB_upsert_after_check_loses_key`, known finding D3)
-/
import CachedProofs.LayerB.Theorems
import CachedProofs.LayerB.BijectionLemmas   -- Entries (`C03_layerB_only_these_alter`, `C07_layerB_only_worker_creates`), `ctrans_occ`

namespace Cached
namespace B

/-! ## 0  frames -/

/-- The ways a thread OTHER than the sweeper changes the expiry index in one action, `owner` being the shard whose
    lock the sweeper holds: not at all; `ttl.put` / `ttl.delete` of an entry of a shard that is NOT locked
    (`ttlFree` is the enabling condition of all of them); `shutdown.ttl_clear`, enabled only while NO shard is locked. -/
def swB_TtlOther (owner : Option Nat) (t t' : AMap (Nat × Nat) Nat) : Prop :=
  t' = t ∨ (∃ sh id e, owner ≠ some sh ∧ t' = t.set (sh, id) e) ∨ (∃ sh id, owner ≠ some sh ∧ t' = t.del (sh, id)) ∨
  (owner = none ∧ t' = [])

theorem swB_ttlFree {b : BState} {sh : Nat} (h : ttlFree b sh = true) : b.ttlOwner ≠ some sh := by
  simpa [ttlFree] using h

theorem swB_wtrans_ttl {b b' : BState} (h : WTrans b b') :
    b'.sw = b.sw ∧ b'.ttlOwner = b.ttlOwner ∧ b'.g.now = b.g.now ∧ swB_TtlOther b.ttlOwner b.g.ttl b'.g.ttl := by
  cases h
  case ttlPut c e hw hf => exact ⟨rfl, rfl, rfl, Or.inr (Or.inl ⟨_, _, _, swB_ttlFree hf, rfl⟩)⟩
  case delTtl id e hh hw hf => exact ⟨rfl, rfl, rfl, Or.inr (Or.inr (Or.inl ⟨_, _, swB_ttlFree hf, rfl⟩))⟩
  all_goals exact ⟨rfl, rfl, by first | rfl | simp, Or.inl (by first | rfl | simp)⟩

theorem swB_upAfterIndex_g (b : BState) (i id : Nat) (uw : Option Int) :
    (upAfterIndex b i id uw).g.ttl = b.g.ttl ∧ (upAfterIndex b i id uw).g.now = b.g.now := by
  rcases upAfterIndex_spec b i id uw with ⟨_, h⟩ | ⟨_, _, h⟩ | h <;> rw [h] <;> simp [finishCall, setClient, spotFinish]

theorem swB_ctrans_ttl {b b' : BState} {i : Nat} (h : CTrans b i b') :
    b'.sw = b.sw ∧ b'.ttlOwner = b.ttlOwner ∧ b'.g.now = b.g.now ∧ swB_TtlOther b.ttlOwner b.g.ttl b'.g.ttl := by
  have hf := ctrans_frame h
  refine ⟨hf.2.1, hf.2.2.2.1, ?_⟩
  cases h
  case getPool hp => rw [poolAdd_frame hp]; exact ⟨rfl, Or.inl rfl⟩
  case refPool hp => rw [poolAdd_frame hp]; exact ⟨rfl, Or.inl rfl⟩
  case shutLocal hg => rw [hg]; exact ⟨rfl, Or.inl rfl⟩
  case mgetStep hg => rw [hg]; exact ⟨rfl, Or.inl rfl⟩
  case mgetFin hg => rw [hg]; exact ⟨rfl, Or.inl rfl⟩
  case upAfterSame => exact ⟨(swB_upAfterIndex_g _ _ _ _).2, Or.inl (swB_upAfterIndex_g _ _ _ _).1⟩
  case upAfterPut pc id e uw hpc hu hfree =>
    refine ⟨(swB_upAfterIndex_g _ _ _ _).2, Or.inr (Or.inl ⟨_, id, e, swB_ttlFree hfree, ?_⟩)⟩
    rw [(swB_upAfterIndex_g _ _ _ _).1]; rfl
  case upAfterDelete id e uw hpc hfree =>
    refine ⟨(swB_upAfterIndex_g _ _ _ _).2, Or.inr (Or.inr (Or.inl ⟨_, id, swB_ttlFree hfree, ?_⟩))⟩
    rw [(swB_upAfterIndex_g _ _ _ _).1]; rfl
  case upTtlRemove id old new uw hpc hfree => exact ⟨rfl, Or.inr (Or.inr (Or.inl ⟨_, id, swB_ttlFree hfree, rfl⟩))⟩
  case shutTtlClear hpc ho => exact ⟨rfl, Or.inr (Or.inr (Or.inr ⟨ho, rfl⟩))⟩
  all_goals exact ⟨rfl, Or.inl rfl⟩

/-- **What an action of any thread but the sweeper does to the sweeper's world**: the sweeper stays where it is and
    keeps its shard lock, the clock does not go back, and the index changes only as `swB_TtlOther` says. -/
theorem swB_other_step {b b' : BState} {a : Act} {o o' : Oracle} (h : stepB b a o = .ok (b', o'))
    (ha : ∀ v, a ≠ .sweeper v) :
    b'.sw = b.sw ∧ b'.ttlOwner = b.ttlOwner ∧ b.g.now ≤ b'.g.now ∧ swB_TtlOther b.ttlOwner b.g.ttl b'.g.ttl := by
  cases a with
  | issue i r =>
    simp only [stepB] at h
    split at h
    · rename_i b1 hi
      simp only [Except.ok.injEq, Prod.mk.injEq] at h; obtain ⟨rfl, rfl⟩ := h
      unfold issue at hi
      split at hi
      · simp only [Except.ok.injEq] at hi; subst hi
        exact ⟨rfl, rfl, Nat.le_refl _, Or.inl rfl⟩
      · cases hi
    · cases h
  | client i =>
    obtain ⟨h1, h2, h3, h4⟩ := swB_ctrans_ttl (clientAct_trans h)
    exact ⟨h1, h2, Nat.le_of_eq h3.symm, h4⟩
  | worker =>
    obtain ⟨h1, h2, h3, h4⟩ := swB_wtrans_ttl (workerAct_trans h)
    exact ⟨h1, h2, Nat.le_of_eq h3.symm, h4⟩
  | sweeper v => exact absurd rfl (ha v)
  | consumer =>
    simp only [stepB] at h
    split at h
    · rename_i g' out o1 hc
      simp only [Except.ok.injEq, Prod.mk.injEq] at h; obtain ⟨rfl, rfl⟩ := h
      refine ⟨rfl, rfl, ?_, ?_⟩
      · show b.g.now ≤ g'.now
        rw [consumerStep_frame hc]; exact Nat.le_refl _
      · show swB_TtlOther b.ttlOwner b.g.ttl g'.ttl
        rw [consumerStep_frame hc]; exact Or.inl rfl
    · cases h
  | advance d =>
    simp only [stepB, Except.ok.injEq, Prod.mk.injEq] at h; obtain ⟨rfl, rfl⟩ := h
    exact ⟨rfl, rfl, Nat.le_add_right _ _, Or.inl rfl⟩

/-- no thread but the sweeper moves the sweeper -/
theorem C10_layerB_others_keep_sweeper {b b' : BState} {a : Act} {o o' : Oracle} (h : stepB b a o = .ok (b', o'))
    (ha : ∀ v, a ≠ .sweeper v) : b'.sw = b.sw ∧ b'.ttlOwner = b.ttlOwner :=
  ⟨(swB_other_step h ha).1, (swB_other_step h ha).2.1⟩

theorem swB_sweeper_step {b b' : BState} {v : Option Nat} {o o' : Oracle} (h : stepB b (.sweeper v) o = .ok (b', o')) :
    sweeperAct b v = .ok b' := by
  simp only [stepB] at h
  split at h
  · rename_i b1 hs
    simp only [Except.ok.injEq, Prod.mk.injEq] at h
    rw [← h.1]; exact hs
  · cases h

/-- a sweeper action leaves the clock alone -/
theorem swB_strans_now {b b' : BState} (h : STrans b b') : b'.g.now = b.g.now := by
  cases h
  all_goals (try unfold sweepNext)
  all_goals (try split)
  all_goals simp

/-! ### the sweeper's actions, as equations -/

theorem swB_begin_spec {b b' : BState} {v : Option Nat} (hs : b.sw = .begin) (h : sweeperAct b v = .ok b') :
    b.g.sweeperAlive = true ∧
    b' = sweepNext { b with ttlOwner := some (secsOf b.g.now % b.g.cfg.shards) } b.g.now (secsOf b.g.now % b.g.cfg.shards)
      ((b.g.ttl.filter (fun p => p.1.1 == secsOf b.g.now % b.g.cfg.shards)).map (fun p => (p.1.2, p.2))) := by
  cases sweeperAct_trans h
  case begin ha _ => exact ⟨ha, rfl⟩
  all_goals simp_all

/-- `sweep.entry`: the visited id is an unvisited entry `(id, e)` of the shard; the deadline `e` is compared with the
    time `now` read at `sweep.begin`; a due entry leaves the index and the eviction starts, any other is skipped. -/
theorem swB_entry_spec {b b' : BState} {v : Option Nat} {now sh : Nat} {rest : List (Nat × Nat)}
    (hs : b.sw = .entry now sh rest) (h : sweeperAct b v = .ok b') :
    ∃ id e, v = some id ∧ rest.find? (fun p => p.1 == id) = some (id, e) ∧
      ((now > e ∧ b' = { b with g := { b.g with ttl := b.g.ttl.del (sh, id) },
                                sw := .kwRemove now sh (rest.filter (fun p => p.1 != id)) id }) ∨
       (¬ now > e ∧ b' = sweepNext b now sh (rest.filter (fun p => p.1 != id)))) := by
  simp only [sweeperAct, hs] at h
  split at h
  · cases h
  · rename_i id
    split at h
    · cases h
    · rename_i x e hf
      have hx : x = id := by simpa using List.find?_some hf
      subst hx
      split at h
      all_goals simp only [Except.ok.injEq] at h; subst h
      · exact ⟨_, e, rfl, hf, Or.inl ⟨by assumption, rfl⟩⟩
      · exact ⟨_, e, rfl, hf, Or.inr ⟨by assumption, rfl⟩⟩

/-- what "the value stored under key `k` with id `id` has not itself expired" (`unexpiredWithId`, the condition of the
    ticker's `remove_if` since fix 36c87dc) says when it FAILS: every entry the store holds under `k` with this very id
    carries a deadline, and the clock has passed it -/
theorem unexpiredWithId_eq_false_iff (g : State) (k id : Nat) :
    unexpiredWithId g k id = false ↔
      ∀ e, g.store.get? k = some e → e.id = id → ∃ t, e.expiry = some t ∧ g.now > t := by
  unfold unexpiredWithId
  cases hg : g.store.get? k with
  | none => simp
  | some e =>
    cases he : e.expiry with
    | none => simp [he]
    | some t => simp [he]

/-- … and when it HOLDS: the store holds under `k` an entry with this id that has no deadline or whose deadline is
    still ahead -/
theorem unexpiredWithId_eq_true_iff (g : State) (k id : Nat) :
    unexpiredWithId g k id = true ↔
      ∃ e, g.store.get? k = some e ∧ e.id = id ∧ ∀ t, e.expiry = some t → ¬ g.now > t := by
  unfold unexpiredWithId
  cases hg : g.store.get? k with
  | none => simp
  | some e =>
    cases he : e.expiry with
    | none => simp [he]
    | some t => simp [he]

/-- `kw.remove` (`key_weights.remove_if`): the charge `wk` of the id is found AND the value stored under `wk.key` with
    this id has expired by its own deadline (or there is no such value): the charge goes and `wu.sub` is next;
    otherwise — no charge, or (fix 36c87dc) the stored value has not itself expired — nothing changes but the position.
    (Adapted: the first disjunct gained `unexpiredWithId … = false`, the second the skip branch.) -/
theorem swB_kwRemove_spec {b b' : BState} {v : Option Nat} {now sh : Nat} {rest : List (Nat × Nat)} {id : Nat}
    (hs : b.sw = .kwRemove now sh rest id) (h : sweeperAct b v = .ok b') :
    (∃ wk, (b.g.adm.kw.get? id = some wk ∧ unexpiredWithId b.g wk.key id = false) ∧
      b' = { b with g := { b.g with adm := { b.g.adm with kw := b.g.adm.kw.del id } }, sw := .sub now sh rest id wk }) ∨
    ((b.g.adm.kw.get? id = none ∨ ∃ wk, b.g.adm.kw.get? id = some wk ∧ unexpiredWithId b.g wk.key id = true) ∧
      b' = sweepNext b now sh rest) := by
  cases sweeperAct_trans h
  case kwRemoveSome n s r i wk hg hs' hu =>
    rw [hs] at hs'; cases hs'
    exact Or.inl ⟨wk, ⟨hg, hu⟩, rfl⟩
  case kwRemoveSkip n s r i wk hg hs' hu =>
    rw [hs] at hs'; cases hs'
    exact Or.inr ⟨Or.inr ⟨wk, hg, hu⟩, rfl⟩
  case kwRemoveNone n s r i hg hs' =>
    rw [hs] at hs'; cases hs'
    exact Or.inr ⟨Or.inl hg, rfl⟩
  all_goals simp_all

theorem swB_sub_spec {b b' : BState} {v : Option Nat} {now sh : Nat} {rest : List (Nat × Nat)} {id : Nat} {wk : WKey}
    (hs : b.sw = .sub now sh rest id wk) (h : sweeperAct b v = .ok b') :
    wuFree b .sweeper = true ∧
    b' = { b with g := { b.g with adm := { b.g.adm with used := b.g.adm.used - wk.weight } }, wuOwner := some .sweeper,
                  sw := .store now sh rest id wk } := by
  cases sweeperAct_trans h
  case sub n s r i w hf hs' =>
    rw [hs] at hs'; cases hs'
    exact ⟨hf, rfl⟩
  all_goals simp_all

theorem swB_store_spec {b b' : BState} {v : Option Nat} {now sh : Nat} {rest : List (Nat × Nat)} {id : Nat} {wk : WKey}
    (hs : b.sw = .store now sh rest id wk) (h : sweeperAct b v = .ok b') :
    storeWritable b wk.key none = true ∧
    b' = sweepNext { b with g := applyEvictId b.g (id, wk.key, wk.weight), wuOwner := none } now sh rest := by
  cases sweeperAct_trans h
  case store n s r i w hs' hw =>
    rw [hs] at hs'; cases hs'
    exact ⟨hw, rfl⟩
  all_goals simp_all

theorem swB_fin_spec {b b' : BState} {v : Option Nat} (hs : b.sw = .fin) (h : sweeperAct b v = .ok b') :
    b' = { b with sw := .begin, g := { b.g with sweeperAlive := b.g.sweeperKeep } } := by
  cases sweeperAct_trans h
  case fin => rfl
  all_goals simp_all

/-! ## 1  the sweep's clock -/

/-- **The clock never goes back**, whatever thread acts. -/
theorem C10_layerB_clock_monotone {b b' : BState} {a : Act} {o o' : Oracle} (h : stepB b a o = .ok (b', o')) :
    b.g.now ≤ b'.g.now := by
  cases a
  case sweeper v => exact Nat.le_of_eq (swB_strans_now (sweeperAct_trans (swB_sweeper_step h))).symm
  all_goals exact (swB_other_step h (fun v hv => by cases hv)).2.2.1

/-- the time the sweeper read at `sweep.begin` and compares every deadline of this sweep with -/
def SPc.now? : SPc → Option Nat
  | .entry n _ _ | .kwRemove n _ _ _ | .sub n _ _ _ _ | .store n _ _ _ _ => some n
  | _ => none

theorem swB_sweepNext_now? (b : BState) (n sh : Nat) (r : List (Nat × Nat)) (t : Nat)
    (h : (sweepNext b n sh r).sw.now? = some t) : t = n := by
  unfold sweepNext at h
  split at h
  · simp [SPc.now?] at h
  · simpa [SPc.now?] using h.symm

theorem swB_clock_step {b b' : BState} {a : Act} {o o' : Oracle} (hi : ∀ t, b.sw.now? = some t → t ≤ b.g.now)
    (h : stepB b a o = .ok (b', o')) : ∀ t, b'.sw.now? = some t → t ≤ b'.g.now := by
  intro t ht
  by_cases ha : ∀ v, a ≠ .sweeper v
  · obtain ⟨h1, _, h3, _⟩ := swB_other_step h ha
    rw [h1] at ht
    exact Nat.le_trans (hi t ht) h3
  · have ha' : ∃ v, a = .sweeper v := by
      cases a <;> simp at ha ⊢
    obtain ⟨v, rfl⟩ := ha'
    have hst := sweeperAct_trans (swB_sweeper_step h)
    rw [swB_strans_now hst]
    cases hst
    case begin => exact Nat.le_of_eq (swB_sweepNext_now? _ _ _ _ _ ht)
    case fin => simp [SPc.now?] at ht
    case entryExpired now shard rest id p hf hs =>
      simp only [SPc.now?, Option.some.injEq] at ht
      exact hi t (by rw [hs, ← ht]; rfl)
    case entryKeep now shard rest id p hf hs =>
      rw [swB_sweepNext_now? _ _ _ _ _ ht]
      exact hi now (by rw [hs]; rfl)
    case kwRemoveSome now shard rest id wk hg hs hu =>
      simp only [SPc.now?, Option.some.injEq] at ht
      exact hi t (by rw [hs, ← ht]; rfl)
    case kwRemoveSkip now shard rest id wk hg hs hu =>
      rw [swB_sweepNext_now? _ _ _ _ _ ht]
      exact hi now (by rw [hs]; rfl)
    case kwRemoveNone now shard rest id hg hs =>
      rw [swB_sweepNext_now? _ _ _ _ _ ht]
      exact hi now (by rw [hs]; rfl)
    case sub now shard rest id wk hf hs =>
      simp only [SPc.now?, Option.some.injEq] at ht
      exact hi t (by rw [hs, ← ht]; rfl)
    case store now shard rest id wk hs hw =>
      rw [swB_sweepNext_now? _ _ _ _ _ ht]
      exact hi now (by rw [hs]; rfl)

/-- **The sweeper compares deadlines with a time that is never ahead of the clock**: in every reachable state the
    time read at `sweep.begin` is at most the current time. -/
theorem C10_layerB_sweep_clock {cfg : Cfg} {now0 : Nat} {seeds : List Nat} {clients : Nat} {b : BState}
    (hr : Reach cfg now0 seeds clients b) : ∀ t, b.sw.now? = some t → t ≤ b.g.now := by
  induction hr with
  | init _ => intro t ht; simp [BState.init, SPc.now?] at ht
  | step _ hs ih => exact swB_clock_step ih hs

/-! ## 3  nothing due is left behind (`SweepInv`) — stated before section 2, which uses it -/

/-- time read at `sweep.begin`, the locked shard, the listed entries `(id, expiry)` not yet visited -/
def SPc.view? : SPc → Option (Nat × Nat × List (Nat × Nat))
  | .entry n sh r | .kwRemove n sh r _ | .sub n sh r _ _ | .store n sh r _ _ => some (n, sh, r)
  | _ => none

/-- the id whose eviction the sweeper is carrying out (its index entry is already removed) -/
def SPc.cur? : SPc → Option Nat
  | .kwRemove _ _ _ id | .sub _ _ _ id _ | .store _ _ _ id _ => some id
  | _ => none

theorem swB_view_now {sw : SPc} {n sh : Nat} {r : List (Nat × Nat)} (h : sw.view? = some (n, sh, r)) :
    sw.now? = some n ∧ sw.shard? = some sh := by
  cases sw <;> simp_all [SPc.view?, SPc.now?, SPc.shard?]

/-- The invariant of a sweep in progress.  While the sweeper holds shard `sh`, having read the time `now`, with
    `rest` the listed entries it has not visited yet:
    * `nodup`   the index has one entry per key `(shard, id)` at most (always);
    * `due`     every index entry `(sh, id) ↦ e` that is due (`now > e`) is still to be visited;
    * `listed`  every entry `(id, e)` still to be visited IS the index entry `(sh, id) ↦ e`: no other thread can
                change the locked shard (`C10_layerB_locked_shard_frozen`), so the list taken at `sweep.begin` stays
                accurate — in particular the deadline compared at `sweep.entry` is the entry's deadline at that moment;
    * `gone`    the index entry of the id being evicted (`kw.remove`, `wu.sub`, `store.remove`) is gone, and stays
                gone until the shard lock is dropped. -/
structure SweepInv (b : BState) : Prop where
  nodup : AMap.NoDup b.g.ttl
  due : ∀ now sh rest, b.sw.view? = some (now, sh, rest) →
    ∀ id e, b.g.ttl.get? (sh, id) = some e → now > e → id ∈ rest.map (·.1)
  listed : ∀ now sh rest, b.sw.view? = some (now, sh, rest) →
    ∀ id e, (id, e) ∈ rest → b.g.ttl.get? (sh, id) = some e
  gone : ∀ now sh rest id, b.sw.view? = some (now, sh, rest) → b.sw.cur? = some id → b.g.ttl.get? (sh, id) = none

/-- `due` and `listed` for an index `t`, a time, a shard and a list of unvisited entries -/
def swB_Good (t : AMap (Nat × Nat) Nat) (now sh : Nat) (rest : List (Nat × Nat)) : Prop :=
  (∀ id e, t.get? (sh, id) = some e → now > e → id ∈ rest.map (·.1)) ∧
  (∀ id e, (id, e) ∈ rest → t.get? (sh, id) = some e)

theorem SweepInv.good {b : BState} (hi : SweepInv b) {now sh : Nat} {rest : List (Nat × Nat)}
    (hv : b.sw.view? = some (now, sh, rest)) : swB_Good b.g.ttl now sh rest :=
  ⟨hi.due now sh rest hv, hi.listed now sh rest hv⟩

/-- the membership forms (an index entry is a member of the association list) -/
theorem SweepInv.due_mem {b : BState} (hi : SweepInv b) {now sh : Nat} {rest : List (Nat × Nat)}
    (hv : b.sw.view? = some (now, sh, rest)) {id e : Nat} (hm : ((sh, id), e) ∈ b.g.ttl) (hd : now > e) :
    id ∈ rest.map (·.1) :=
  hi.due now sh rest hv id e (AMap.get?_of_mem hi.nodup hm) hd

theorem SweepInv.listed_mem {b : BState} (hi : SweepInv b) {now sh : Nat} {rest : List (Nat × Nat)}
    (hv : b.sw.view? = some (now, sh, rest)) {id e : Nat} (hm : (id, e) ∈ rest) : ((sh, id), e) ∈ b.g.ttl :=
  AMap.mem_of_get? (hi.listed now sh rest hv id e hm)

/-- a listed id has ONE listed deadline -/
theorem SweepInv.listed_unique {b : BState} (hi : SweepInv b) {now sh : Nat} {rest : List (Nat × Nat)}
    (hv : b.sw.view? = some (now, sh, rest)) {id e e' : Nat} (hm : (id, e) ∈ rest) (hm' : (id, e') ∈ rest) : e = e' := by
  have h1 := hi.listed now sh rest hv id e hm
  have h2 := hi.listed now sh rest hv id e' hm'
  rw [h1] at h2
  exact Option.some.inj h2

/-! ### the locked shard is frozen for everybody else -/

theorem swB_ttlOther_get? {sh : Nat} {t t' : AMap (Nat × Nat) Nat} (h : swB_TtlOther (some sh) t t') (id : Nat) :
    t'.get? (sh, id) = t.get? (sh, id) := by
  rcases h with rfl | ⟨sh', id', e, hne, rfl⟩ | ⟨sh', id', hne, rfl⟩ | ⟨hn, _⟩
  · rfl
  · have : (sh', id') ≠ (sh, id) := by
      intro heq; cases heq; exact hne rfl
    exact AMap.get?_set_other t e this
  · have : (sh', id') ≠ (sh, id) := by
      intro heq; cases heq; exact hne rfl
    exact AMap.get?_del_other t this
  · cases hn

theorem swB_ttlOther_nodup {ow : Option Nat} {t t' : AMap (Nat × Nat) Nat} (h : swB_TtlOther ow t t')
    (hn : AMap.NoDup t) : AMap.NoDup t' := by
  rcases h with rfl | ⟨sh', id', e, _, rfl⟩ | ⟨sh', id', _, rfl⟩ | ⟨_, rfl⟩
  · exact hn
  · exact AMap.noDup_set hn _ _
  · exact AMap.noDup_del hn _
  · exact AMap.noDup_nil

/-- the lock conjunct of `BInv`, as an equation -/
theorem swB_owner {b : BState} (hb : BInv b) : b.ttlOwner = b.sw.shard? := (LockF.of hb.wuWorker hb.wuSweeper hb.wuClients hb.ttlSweeper hb.sweepEntry).ttl

/-- **While the sweeper holds the lock of shard `sh`, no action of any other thread changes an entry of that shard**
    (`ttl.put`, `ttl.delete` of the worker and of `put_or_update` wait for the lock, `shutdown.ttl_clear` waits for
    every shard lock). -/
theorem C10_layerB_locked_shard_frozen {b b' : BState} {a : Act} {o o' : Oracle} {sh : Nat}
    (h : stepB b a o = .ok (b', o')) (ha : ∀ v, a ≠ .sweeper v) (hown : b.ttlOwner = some sh) (id : Nat) :
    b'.g.ttl.get? (sh, id) = b.g.ttl.get? (sh, id) := by
  have := (swB_other_step h ha).2.2.2
  rw [hown] at this
  exact swB_ttlOther_get? this id

/-! ### preservation -/

theorem swB_sweepInv_other {b b' : BState} {a : Act} {o o' : Oracle} (hb : BInv b) (hi : SweepInv b)
    (h : stepB b a o = .ok (b', o')) (ha : ∀ v, a ≠ .sweeper v) : SweepInv b' := by
  obtain ⟨h1, _, _, h4⟩ := swB_other_step h ha
  have hfrozen : ∀ now sh rest, b.sw.view? = some (now, sh, rest) → ∀ id, b'.g.ttl.get? (sh, id) = b.g.ttl.get? (sh, id) := by
    intro now sh rest hv id
    have hown : b.ttlOwner = some sh := by rw [swB_owner hb]; exact (swB_view_now hv).2
    rw [hown] at h4
    exact swB_ttlOther_get? h4 id
  refine ⟨swB_ttlOther_nodup h4 hi.nodup, ?_, ?_, ?_⟩
  · intro now sh rest hv id e hg
    rw [h1] at hv
    rw [hfrozen now sh rest hv id] at hg
    exact hi.due now sh rest hv id e hg
  · intro now sh rest hv id e hm
    rw [h1] at hv
    rw [hfrozen now sh rest hv id]
    exact hi.listed now sh rest hv id e hm
  · intro now sh rest id hv hc
    rw [h1] at hv hc
    rw [hfrozen now sh rest hv id]
    exact hi.gone now sh rest id hv hc

/-- where `sweepNext` leaves the sweeper -/
theorem swB_sweepNext_sw (b : BState) (n sh : Nat) (r : List (Nat × Nat)) :
    ((sweepNext b n sh r).sw = .entry n sh r ∧ r ≠ []) ∨ ((sweepNext b n sh r).sw = .fin ∧ r = []) := by
  unfold sweepNext
  split
  · exact Or.inr ⟨rfl, rfl⟩
  · rename_i hne
    exact Or.inl ⟨rfl, fun h => hne h⟩

/-- the list taken at `sweep.begin` -/
theorem swB_good_begin {t : AMap (Nat × Nat) Nat} (hn : AMap.NoDup t) (now sh : Nat) :
    swB_Good t now sh ((t.filter (fun p => p.1.1 == sh)).map (fun p => (p.1.2, p.2))) := by
  constructor
  · intro id e hg _
    have hm := AMap.mem_of_get? hg
    simp only [List.map_map, List.mem_map, List.mem_filter, Function.comp]
    exact ⟨((sh, id), e), ⟨hm, by simp⟩, rfl⟩
  · intro id e hm
    simp only [List.mem_map, List.mem_filter, Prod.mk.injEq] at hm
    obtain ⟨⟨⟨s, i⟩, x⟩, ⟨hm, hs⟩, rfl, rfl⟩ := hm
    simp only [beq_iff_eq] at hs
    subst hs
    exact AMap.get?_of_mem hn hm

/-- skipping an entry that is not due -/
theorem swB_good_keep {t : AMap (Nat × Nat) Nat} {now sh id e : Nat} {rest : List (Nat × Nat)}
    (hg : swB_Good t now sh rest) (hf : rest.find? (fun p => p.1 == id) = some (id, e)) (hnd : ¬ now > e) :
    swB_Good t now sh (rest.filter (fun p => p.1 != id)) := by
  have hmem := List.mem_of_find?_eq_some hf
  constructor
  · intro id' e' hg' hd
    have h1 := hg.1 id' e' hg' hd
    have hne : id' ≠ id := by
      intro heq; subst heq
      have := hg.2 id' e hmem
      rw [hg'] at this
      cases this
      exact hnd hd
    simp only [List.mem_map, List.mem_filter] at h1 ⊢
    obtain ⟨p, hp, rfl⟩ := h1
    exact ⟨p, ⟨hp, by simpa using hne⟩, rfl⟩
  · intro id' e' hm
    exact hg.2 id' e' (List.mem_filter.mp hm).1

/-- taking a due entry out of the index -/
theorem swB_good_expired {t : AMap (Nat × Nat) Nat} {now sh id : Nat} {rest : List (Nat × Nat)}
    (hg : swB_Good t now sh rest) : swB_Good (t.del (sh, id)) now sh (rest.filter (fun p => p.1 != id)) := by
  constructor
  · intro id' e' hg' hd
    rw [AMap.get?_del] at hg'
    split at hg'
    · cases hg'
    · rename_i hne
      have h1 := hg.1 id' e' hg' hd
      simp only [List.mem_map, List.mem_filter] at h1 ⊢
      obtain ⟨p, hp, rfl⟩ := h1
      refine ⟨p, ⟨hp, ?_⟩, rfl⟩
      have : p.1 ≠ id := fun heq => hne (by rw [heq])
      simpa using this
  · intro id' e' hm
    obtain ⟨hm, hne⟩ := List.mem_filter.mp hm
    have hne' : id' ≠ id := by simpa using hne
    rw [AMap.get?_del_other t (by intro heq; cases heq; exact hne' rfl)]
    exact hg.2 id' e' hm

/-- the time and the shard of the sweep a sweeper action belongs to: read at `sweep.begin`, carried afterwards -/
def swB_tick (b : BState) : Option (Nat × Nat) :=
  match b.sw with
  | .begin => some (b.g.now, secsOf b.g.now % b.g.cfg.shards)
  | .entry n sh _ | .kwRemove n sh _ _ | .sub n sh _ _ _ | .store n sh _ _ _ => some (n, sh)
  | .fin => none

/-- One sweeper action of a sweep `(now, sh)`: afterwards either the sweeper still holds the shard, with a list that
    is `swB_Good`, or it stands at `sweep.end` and NO due entry of the shard is left. -/
theorem swB_sweeper_good {b b' : BState} {v : Option Nat} {now sh : Nat} (hi : SweepInv b)
    (ht : swB_tick b = some (now, sh)) (h : sweeperAct b v = .ok b') :
    AMap.NoDup b'.g.ttl ∧ ∃ rest', swB_Good b'.g.ttl now sh rest' ∧
      ((b'.sw.view? = some (now, sh, rest') ∧ ∀ id, b'.sw.cur? = some id → b'.g.ttl.get? (sh, id) = none) ∨
       (b'.sw = .fin ∧ rest' = [])) := by
  have hnext : ∀ (b0 : BState) (r : List (Nat × Nat)), AMap.NoDup b0.g.ttl → swB_Good b0.g.ttl now sh r →
      AMap.NoDup (sweepNext b0 now sh r).g.ttl ∧ ∃ rest', swB_Good (sweepNext b0 now sh r).g.ttl now sh rest' ∧
      (((sweepNext b0 now sh r).sw.view? = some (now, sh, rest') ∧
          ∀ id, (sweepNext b0 now sh r).sw.cur? = some id → (sweepNext b0 now sh r).g.ttl.get? (sh, id) = none) ∨
       ((sweepNext b0 now sh r).sw = .fin ∧ rest' = [])) := by
    intro b0 r hn hg
    refine ⟨by simpa using hn, r, by simpa using hg, ?_⟩
    rcases swB_sweepNext_sw b0 now sh r with ⟨hs, _⟩ | ⟨hs, hr⟩
    · exact Or.inl ⟨by rw [hs]; rfl, by rw [hs]; intro id hc; cases hc⟩
    · exact Or.inr ⟨hs, hr⟩
  cases hsw : b.sw with
  | begin =>
    simp only [swB_tick, hsw, Option.some.injEq, Prod.mk.injEq] at ht
    obtain ⟨rfl, rfl⟩ := ht
    obtain ⟨_, rfl⟩ := swB_begin_spec hsw h
    exact hnext _ _ hi.nodup (swB_good_begin hi.nodup _ _)
  | fin => simp [swB_tick, hsw] at ht
  | entry n s rest =>
    simp only [swB_tick, hsw, Option.some.injEq, Prod.mk.injEq] at ht
    obtain ⟨rfl, rfl⟩ := ht
    have hg := hi.good (b := b) (now := n) (sh := s) (rest := rest) (by rw [hsw]; rfl)
    obtain ⟨id, e, _, hf, ⟨hd, rfl⟩ | ⟨hnd, rfl⟩⟩ := swB_entry_spec hsw h
    · refine ⟨AMap.noDup_del hi.nodup _, _, swB_good_expired hg, Or.inl ⟨rfl, ?_⟩⟩
      intro id' hc
      simp only [SPc.cur?, Option.some.injEq] at hc
      subst hc
      exact AMap.get?_del_same _ _
    · exact hnext _ _ hi.nodup (swB_good_keep hg hf hnd)
  | kwRemove n s rest id =>
    simp only [swB_tick, hsw, Option.some.injEq, Prod.mk.injEq] at ht
    obtain ⟨rfl, rfl⟩ := ht
    have hg := hi.good (b := b) (now := n) (sh := s) (rest := rest) (by rw [hsw]; rfl)
    have hgone := hi.gone n s rest id (by rw [hsw]; rfl) (by rw [hsw]; rfl)
    rcases swB_kwRemove_spec hsw h with ⟨wk, _, rfl⟩ | ⟨_, rfl⟩
    · refine ⟨hi.nodup, rest, hg, Or.inl ⟨rfl, ?_⟩⟩
      intro id' hc
      simp only [SPc.cur?, Option.some.injEq] at hc
      subst hc
      exact hgone
    · exact hnext _ _ hi.nodup hg
  | sub n s rest id wk =>
    simp only [swB_tick, hsw, Option.some.injEq, Prod.mk.injEq] at ht
    obtain ⟨rfl, rfl⟩ := ht
    have hg := hi.good (b := b) (now := n) (sh := s) (rest := rest) (by rw [hsw]; rfl)
    have hgone := hi.gone n s rest id (by rw [hsw]; rfl) (by rw [hsw]; rfl)
    obtain ⟨_, rfl⟩ := swB_sub_spec hsw h
    refine ⟨hi.nodup, rest, hg, Or.inl ⟨rfl, ?_⟩⟩
    intro id' hc
    simp only [SPc.cur?, Option.some.injEq] at hc
    subst hc
    exact hgone
  | store n s rest id wk =>
    simp only [swB_tick, hsw, Option.some.injEq, Prod.mk.injEq] at ht
    obtain ⟨rfl, rfl⟩ := ht
    have hg := hi.good (b := b) (now := n) (sh := s) (rest := rest) (by rw [hsw]; rfl)
    obtain ⟨_, rfl⟩ := swB_store_spec hsw h
    exact hnext _ _ (by simpa using hi.nodup) (by simpa using hg)

theorem swB_sweepInv_sweeper {b b' : BState} {v : Option Nat} (hi : SweepInv b) (h : sweeperAct b v = .ok b') :
    SweepInv b' := by
  cases ht : swB_tick b with
  | none =>
    have hsw : b.sw = .fin := by
      unfold swB_tick at ht
      split at ht <;> first | assumption | cases ht
    rw [swB_fin_spec hsw h]
    refine ⟨hi.nodup, ?_, ?_, ?_⟩
    all_goals intros
    all_goals simp_all [SPc.view?]
  | some p =>
    obtain ⟨now, sh⟩ := p
    obtain ⟨hn, rest', hg, ⟨hv, hc⟩ | ⟨hs, _⟩⟩ := swB_sweeper_good hi ht h
    · refine ⟨hn, ?_, ?_, ?_⟩
      · intro n s r hv'
        rw [hv] at hv'
        simp only [Option.some.injEq, Prod.mk.injEq] at hv'
        obtain ⟨rfl, rfl, rfl⟩ := hv'
        exact hg.1
      · intro n s r hv'
        rw [hv] at hv'
        simp only [Option.some.injEq, Prod.mk.injEq] at hv'
        obtain ⟨rfl, rfl, rfl⟩ := hv'
        exact hg.2
      · intro n s r id hv' hc'
        rw [hv] at hv'
        simp only [Option.some.injEq, Prod.mk.injEq] at hv'
        obtain ⟨rfl, rfl, rfl⟩ := hv'
        exact hc id hc'
    · refine ⟨hn, ?_, ?_, ?_⟩
      all_goals intros
      all_goals simp_all [SPc.view?]

/-- **`SweepInv` is preserved by every action of every thread.** -/
theorem C10_layerB_sweepInv_step {b b' : BState} {a : Act} {o o' : Oracle} (hb : BInv b) (hi : SweepInv b)
    (h : stepB b a o = .ok (b', o')) : SweepInv b' := by
  by_cases ha : ∀ v, a ≠ .sweeper v
  · exact swB_sweepInv_other hb hi h ha
  · have ha' : ∃ v, a = .sweeper v := by
      cases a <;> simp at ha ⊢
    obtain ⟨v, rfl⟩ := ha'
    exact swB_sweepInv_sweeper hi (swB_sweeper_step h)

theorem swB_sweepInv_init (cfg : Cfg) (now : Nat) (seeds : List Nat) (clients : Nat) (sm : List (Nat × Nat)) :
    SweepInv { BState.init cfg now seeds clients with storeShard := sm } := by
  refine ⟨AMap.noDup_nil, ?_, ?_, ?_⟩
  all_goals intros
  all_goals simp_all [BState.init, SPc.view?]

/-- **`SweepInv` holds in every reachable state of every interleaving.** -/
theorem C10_layerB_sweepInv {cfg : Cfg} {now0 : Nat} {seeds : List Nat} {clients : Nat} {b : BState}
    (hr : Reach cfg now0 seeds clients b) : SweepInv b := by
  induction hr with
  | init sm => exact swB_sweepInv_init cfg now0 seeds clients sm
  | step hr' hs ih => exact C10_layerB_sweepInv_step (binv_reach hr') ih hs

/-- **After the sweep of a shard, every entry of that shard that was due when the sweep began is gone from the
    index**: when a sweeper action of the sweep `(now, sh)` — `now` the time read at `sweep.begin`, `sh` the shard
    locked then — arrives at `sweep.end`, the index has no entry `(sh, id) ↦ e` with `now > e`. -/
theorem C10_layerB_shard_clean_at_end {cfg : Cfg} {now0 : Nat} {seeds : List Nat} {clients : Nat} {b b' : BState}
    {v : Option Nat} {o o' : Oracle} {now sh : Nat} (hr : Reach cfg now0 seeds clients b)
    (h : stepB b (.sweeper v) o = .ok (b', o')) (ht : swB_tick b = some (now, sh)) (hfin : b'.sw = .fin) :
    ∀ id e, ((sh, id), e) ∈ b'.g.ttl → ¬ now > e := by
  intro id e hm hd
  obtain ⟨hn, rest', hg, ⟨hv, _⟩ | ⟨_, rfl⟩⟩ := swB_sweeper_good (C10_layerB_sweepInv hr) ht (swB_sweeper_step h)
  · rw [hfin] at hv; cases hv
  · have := hg.1 id e (AMap.get?_of_mem hn hm) hd
    simp at this

/-- the same for the `get?` reading of the index -/
theorem C10_layerB_shard_clean_at_end' {cfg : Cfg} {now0 : Nat} {seeds : List Nat} {clients : Nat} {b b' : BState}
    {v : Option Nat} {o o' : Oracle} {now sh : Nat} (hr : Reach cfg now0 seeds clients b)
    (h : stepB b (.sweeper v) o = .ok (b', o')) (ht : swB_tick b = some (now, sh)) (hfin : b'.sw = .fin) :
    ∀ id e, b'.g.ttl.get? (sh, id) = some e → e ≥ now := by
  intro id e hg
  have := C10_layerB_shard_clean_at_end hr h ht hfin id e (AMap.mem_of_get? hg)
  omega

/-! ## 2  exactly the due entries -/

theorem swB_is_sweeper {a : Act} (ha : ¬ ∀ v, a ≠ .sweeper v) : ∃ v, a = .sweeper v := by
  cases a <;> simp at ha ⊢

theorem swB_sweepNext_cur (b : BState) (n sh : Nat) (r : List (Nat × Nat)) : (sweepNext b n sh r).sw.cur? = none := by
  rcases swB_sweepNext_sw b n sh r with ⟨h, _⟩ | ⟨h, _⟩ <;> rw [h] <;> rfl

@[simp] theorem swB_sweepNext_wuOwner (b : BState) (n sh : Nat) (r : List (Nat × Nat)) :
    (sweepNext b n sh r).wuOwner = b.wuOwner := by
  unfold sweepNext; split <;> rfl

/-- every listed id may be visited next (`retain` visits the entries in hash-map order: any order is possible) -/
theorem C10_layerB_visit_enabled {b : BState} {now sh id e : Nat} {rest : List (Nat × Nat)}
    (hs : b.sw = .entry now sh rest) (hm : (id, e) ∈ rest) : ∃ b', sweeperAct b (some id) = .ok b' := by
  cases hf : rest.find? (fun p => p.1 == id) with
  | none =>
    rw [List.find?_eq_none] at hf
    exact absurd (by simp) (hf _ hm)
  | some p =>
    obtain ⟨x, e'⟩ := p
    simp only [sweeperAct, hs, hf]
    split <;> exact ⟨_, rfl⟩

/-- **The decision at `sweep.entry`.**  The sweeper stands at `sweep.entry` with the time `now` read at `sweep.begin`
    and visits the listed entry `(id, e)`:
    * `now > e` (due): the action removes exactly the index entry `(sh, id) ↦ e` — nothing else of the shared state
      changes — and the eviction of `id` starts (`kw.remove` is next);
    * otherwise NOTHING of the shared state changes (store, charges, total, index all untouched) and the sweeper moves
      on: a key whose deadline had not passed when the sweep began is never touched by that sweep. -/
theorem C10_layerB_visit_decision {b b' : BState} {now sh id e : Nat} {rest : List (Nat × Nat)} (hi : SweepInv b)
    (hs : b.sw = .entry now sh rest) (hm : (id, e) ∈ rest) (h : sweeperAct b (some id) = .ok b') :
    (now > e →
      b' = { b with g := { b.g with ttl := b.g.ttl.del (sh, id) },
                    sw := .kwRemove now sh (rest.filter (fun p => p.1 != id)) id } ∧
      b.g.ttl.get? (sh, id) = some e ∧ b'.g.ttl.get? (sh, id) = none) ∧
    (¬ now > e → b' = sweepNext b now sh (rest.filter (fun p => p.1 != id)) ∧ b'.g = b.g) := by
  obtain ⟨id', e', hv, hf, hcase⟩ := swB_entry_spec hs h
  cases hv
  have he : e' = e := hi.listed_unique (b := b) (by rw [hs]; rfl) (List.mem_of_find?_eq_some hf) hm
  subst he
  have hidx := hi.listed now sh rest (by rw [hs]; rfl) id e' hm
  rcases hcase with ⟨hd, rfl⟩ | ⟨hnd, rfl⟩
  · exact ⟨fun _ => ⟨rfl, hidx, AMap.get?_del_same _ _⟩, fun hnd => absurd hd hnd⟩
  · exact ⟨fun hd => absurd hd hnd, fun _ => ⟨rfl, sweepNext_g _ _ _ _⟩⟩

/-- **The sweeper starts an eviction only for a due entry**: a state whose sweeper stands at `kw.remove` of `id` was
    entered — if the action entered it at all — by the sweeper's `sweep.entry` action visiting a listed entry
    `(id, e)` with `now > e`, which removed `(sh, id)` from the index and changed nothing else. -/
theorem C10_layerB_kwRemove_only_if_due {b b' : BState} {a : Act} {o o' : Oracle} {now sh id : Nat}
    {r : List (Nat × Nat)} (h : stepB b a o = .ok (b', o')) (hs' : b'.sw = .kwRemove now sh r id) :
    b.sw = .kwRemove now sh r id ∨
    (a = .sweeper (some id) ∧ ∃ rest e, b.sw = .entry now sh rest ∧ rest.find? (fun p => p.1 == id) = some (id, e) ∧
      now > e ∧ r = rest.filter (fun p => p.1 != id) ∧ b'.g = { b.g with ttl := b.g.ttl.del (sh, id) }) := by
  by_cases ha : ∀ v, a ≠ .sweeper v
  · exact Or.inl (by rw [← (swB_other_step h ha).1]; exact hs')
  · obtain ⟨v, rfl⟩ := swB_is_sweeper ha
    have hact := swB_sweeper_step h
    have hcur : b'.sw.cur? = some id := by rw [hs']; rfl
    right
    cases hsw : b.sw with
    | begin =>
      obtain ⟨_, rfl⟩ := swB_begin_spec hsw hact
      rw [swB_sweepNext_cur] at hcur; cases hcur
    | fin =>
      rw [swB_fin_spec hsw hact] at hcur; cases hcur
    | entry n s rest =>
      obtain ⟨id', e, rfl, hf, ⟨hd, rfl⟩ | ⟨_, rfl⟩⟩ := swB_entry_spec hsw hact
      · simp only [SPc.kwRemove.injEq] at hs'
        obtain ⟨rfl, rfl, rfl, rfl⟩ := hs'
        exact ⟨rfl, rest, e, rfl, hf, hd, rfl, rfl⟩
      · rw [swB_sweepNext_cur] at hcur; cases hcur
    | kwRemove n s rest i =>
      rcases swB_kwRemove_spec hsw hact with ⟨wk, _, rfl⟩ | ⟨_, rfl⟩
      · cases hs'
      · rw [swB_sweepNext_cur] at hcur; cases hcur
    | sub n s rest i wk =>
      obtain ⟨_, rfl⟩ := swB_sub_spec hsw hact
      cases hs'
    | store n s rest i wk =>
      obtain ⟨_, rfl⟩ := swB_store_spec hsw hact
      rw [swB_sweepNext_cur] at hcur; cases hcur

/-- `wu.sub` of `id` is reached only from `kw.remove` of the same id, which found the charge `wk` -/
theorem C10_layerB_sub_only_after_kwRemove {b b' : BState} {a : Act} {o o' : Oracle} {now sh id : Nat}
    {r : List (Nat × Nat)} {wk : WKey} (h : stepB b a o = .ok (b', o')) (hs' : b'.sw = .sub now sh r id wk) :
    b.sw = .sub now sh r id wk ∨
    ((∃ v, a = .sweeper v) ∧ b.sw = .kwRemove now sh r id ∧ b.g.adm.kw.get? id = some wk ∧
      unexpiredWithId b.g wk.key id = false) := by
  by_cases ha : ∀ v, a ≠ .sweeper v
  · exact Or.inl (by rw [← (swB_other_step h ha).1]; exact hs')
  · obtain ⟨v, rfl⟩ := swB_is_sweeper ha
    have hact := swB_sweeper_step h
    have hcur : b'.sw.cur? = some id := by rw [hs']; rfl
    right
    cases hsw : b.sw with
    | begin =>
      obtain ⟨_, rfl⟩ := swB_begin_spec hsw hact
      rw [swB_sweepNext_cur] at hcur; cases hcur
    | fin =>
      rw [swB_fin_spec hsw hact] at hcur; cases hcur
    | entry n s rest =>
      obtain ⟨id', e, rfl, hf, ⟨hd, rfl⟩ | ⟨_, rfl⟩⟩ := swB_entry_spec hsw hact
      · cases hs'
      · rw [swB_sweepNext_cur] at hcur; cases hcur
    | kwRemove n s rest i =>
      rcases swB_kwRemove_spec hsw hact with ⟨wk', ⟨hk, hu⟩, rfl⟩ | ⟨_, rfl⟩
      · simp only [SPc.sub.injEq] at hs'
        obtain ⟨rfl, rfl, rfl, rfl, rfl⟩ := hs'
        exact ⟨⟨v, rfl⟩, rfl, hk, hu⟩
      · rw [swB_sweepNext_cur] at hcur; cases hcur
    | sub n s rest i wk' =>
      obtain ⟨_, rfl⟩ := swB_sub_spec hsw hact
      cases hs'
    | store n s rest i wk' =>
      obtain ⟨_, rfl⟩ := swB_store_spec hsw hact
      rw [swB_sweepNext_cur] at hcur; cases hcur

/-- `store.remove` for `id` is reached only from `wu.sub` of the same id and charge -/
theorem C10_layerB_store_only_after_sub {b b' : BState} {a : Act} {o o' : Oracle} {now sh id : Nat}
    {r : List (Nat × Nat)} {wk : WKey} (h : stepB b a o = .ok (b', o')) (hs' : b'.sw = .store now sh r id wk) :
    b.sw = .store now sh r id wk ∨ ((∃ v, a = .sweeper v) ∧ b.sw = .sub now sh r id wk) := by
  by_cases ha : ∀ v, a ≠ .sweeper v
  · exact Or.inl (by rw [← (swB_other_step h ha).1]; exact hs')
  · obtain ⟨v, rfl⟩ := swB_is_sweeper ha
    have hact := swB_sweeper_step h
    have hcur : b'.sw.cur? = some id := by rw [hs']; rfl
    right
    cases hsw : b.sw with
    | begin =>
      obtain ⟨_, rfl⟩ := swB_begin_spec hsw hact
      rw [swB_sweepNext_cur] at hcur; cases hcur
    | fin =>
      rw [swB_fin_spec hsw hact] at hcur; cases hcur
    | entry n s rest =>
      obtain ⟨id', e, rfl, hf, ⟨hd, rfl⟩ | ⟨_, rfl⟩⟩ := swB_entry_spec hsw hact
      · cases hs'
      · rw [swB_sweepNext_cur] at hcur; cases hcur
    | kwRemove n s rest i =>
      rcases swB_kwRemove_spec hsw hact with ⟨wk', hk, rfl⟩ | ⟨_, rfl⟩
      · cases hs'
      · rw [swB_sweepNext_cur] at hcur; cases hcur
    | sub n s rest i wk' =>
      obtain ⟨_, rfl⟩ := swB_sub_spec hsw hact
      simp only [SPc.store.injEq] at hs'
      obtain ⟨rfl, rfl, rfl, rfl, rfl⟩ := hs'
      exact ⟨⟨v, rfl⟩, rfl⟩
    | store n s rest i wk' =>
      obtain ⟨_, rfl⟩ := swB_store_spec hsw hact
      rw [swB_sweepNext_cur] at hcur; cases hcur

/-- **An eviction by the sweeper is always the eviction of an entry whose deadline had really passed**: in a reachable
    state, the action that starts the eviction of `id` (enters `kw.remove`) removes the index entry `(sh, id) ↦ e`
    with `e < now ≤` the current time — `now` being the time read at `sweep.begin` (sections 1 and 3 combined). -/
theorem C10_layerB_evict_due {cfg : Cfg} {now0 : Nat} {seeds : List Nat} {clients : Nat} {b b' : BState} {a : Act}
    {o o' : Oracle} {now sh id : Nat} {r : List (Nat × Nat)} (hr : Reach cfg now0 seeds clients b)
    (h : stepB b a o = .ok (b', o')) (hs' : b'.sw = .kwRemove now sh r id) (hne : b.sw ≠ b'.sw) :
    ∃ e, b.g.ttl.get? (sh, id) = some e ∧ e < now ∧ now ≤ b.g.now ∧ b'.g.ttl.get? (sh, id) = none ∧
      b'.g = { b.g with ttl := b.g.ttl.del (sh, id) } := by
  rcases C10_layerB_kwRemove_only_if_due h hs' with hsame | ⟨_, rest, e, hs, hf, hd, _, hg⟩
  · rw [hs', hsame] at hne; exact absurd rfl hne
  · refine ⟨e, ?_, hd, C10_layerB_sweep_clock hr now (by rw [hs]; rfl), ?_, hg⟩
    · exact (C10_layerB_sweepInv hr).listed now sh rest (by rw [hs]; rfl) id e (List.mem_of_find?_eq_some hf)
    · rw [hg]; exact AMap.get?_del_same _ _

/-- the variant without the id (kept from the time when the delete hook was `store.delete(&key)`, see below): a
    sweeper action changes the stored entry of `k` only at `store.remove` of a charge `wk` with `wk.key = k`, with a
    time `now` that is not ahead of the clock, after the index entry `(sh, id)` of the evicted id has been removed -/
theorem C10_layerB_never_removes_live_partial {cfg : Cfg} {now0 : Nat} {seeds : List Nat} {clients : Nat}
    {b b' : BState} {v : Option Nat} {o o' : Oracle} {k : Nat} {en : Entry} (hr : Reach cfg now0 seeds clients b)
    (h : stepB b (.sweeper v) o = .ok (b', o')) (hk : b.g.store.get? k = some en)
    (hne : b'.g.store.get? k ≠ some en) :
    ∃ now sh rest id wk, b.sw = .store now sh rest id wk ∧ wk.key = k ∧ now ≤ b.g.now ∧
      b.g.ttl.get? (sh, id) = none ∧ b'.g.store = b.g.store.del k ∧ b'.g.store.get? k = none := by
  have hst := sweeperAct_trans (swB_sweeper_step h)
  cases hst
  case store now sh rest id wk hs hw =>
    simp only [sweepNext_g] at hne ⊢
    by_cases hkey : wk.key = k
    · subst hkey
      rcases Cached.applyEvictId_store_cases b.g (id, wk.key, wk.weight) with ⟨_, hst⟩ | ⟨_, hst⟩
      · rw [hst]
        exact ⟨now, sh, rest, id, wk, hs, rfl, C10_layerB_sweep_clock hr now (by rw [hs]; rfl),
          (C10_layerB_sweepInv hr).gone now sh rest id (by rw [hs]; rfl) (by rw [hs]; rfl), rfl,
          AMap.get?_del_same _ _⟩
      · rw [hst] at hne
        exact absurd hk hne
    · rw [Cached.applyEvictId_get?_other b.g (id, wk.key, wk.weight) (k := k) (fun e => hkey e.symm)] at hne
      exact absurd hk hne
  all_goals first
    | exact absurd hk hne
    | (simp only [sweepNext_g] at hne; exact absurd hk hne)

/-- **The sweeper never removes a live key — FULL statement, with the id.**  If a sweeper action takes the entry with
    id `i` away from key `k` (afterwards `k` is absent or holds another id), then the sweeper stood at the
    `store.remove` of an eviction of this very id `i`, charged for this very key, with a time `now` not ahead of the
    clock.  (With the old delete hook `store.delete(&key)` — `applyEvict` — this was FALSE: the counterexample
    `C10_layerB_never_removes_live_counterexample` of the earlier version of this file ran `swB_raceRun` below; the
    ticker's hook is now `delete_if_key_id_matches`, `applyEvictId`, and on that run the new incarnation survives:
    `C10_layerB_race_keeps_new_incarnation`.) -/
theorem C10_layerB_never_removes_live {cfg : Cfg} {now0 : Nat} {seeds : List Nat} {clients : Nat}
    {b b' : BState} {v : Option Nat} {o o' : Oracle} {k i : Nat} {en : Entry} (hr : Reach cfg now0 seeds clients b)
    (h : stepB b (.sweeper v) o = .ok (b', o')) (hk : b.g.store.get? k = some en) (hid : en.id = i)
    (hne : ∀ en', b'.g.store.get? k = some en' → en'.id ≠ i) :
    ∃ now sh rest wk, b.sw = .store now sh rest i wk ∧ now ≤ b.g.now ∧ wk.key = k := by
  have hne' : b'.g.store.get? k ≠ some en := fun hh => hne en hh hid
  obtain ⟨now, sh, rest, id, wk, hs, hkey, hnow, _, _, _⟩ := C10_layerB_never_removes_live_partial hr h hk hne'
  have hst := sweeperAct_trans (swB_sweeper_step h)
  obtain ⟨_, hb'⟩ := swB_store_spec hs (swB_sweeper_step h)
  have hidEq : en.id = id := by
    apply Classical.byContradiction
    intro hidne
    have := Cached.applyEvictId_get?_of_id_ne b.g (id, wk.key, wk.weight) hk hidne
    rw [hb', sweepNext_g] at hne'
    exact hne' this
  rw [hid] at hidEq
  subst hidEq
  exact ⟨now, sh, rest, wk, hs, hnow, hkey⟩

/-! ## 4  the weight is reclaimed -/

/-- `kw.remove` of the evicted id, the charge `wk` found and the value stored under its key (same id) expired by its own
    deadline, `hu` — the hypothesis the fix 36c87dc adds; without it the sweeper skips, `C10_layerB_skip_harmless`:
    the charge leaves `key_weights`; total and store untouched -/
theorem C10_layerB_kwRemove_found {b b' : BState} {v : Option Nat} {now sh id : Nat} {rest : List (Nat × Nat)}
    {wk : WKey} (hs : b.sw = .kwRemove now sh rest id) (hk : b.g.adm.kw.get? id = some wk)
    (hu : unexpiredWithId b.g wk.key id = false) (h : sweeperAct b v = .ok b') :
    b' = { b with g := { b.g with adm := { b.g.adm with kw := b.g.adm.kw.del id } }, sw := .sub now sh rest id wk } ∧
    b'.g.adm.kw.get? id = none ∧ b'.g.adm.used = b.g.adm.used ∧ b'.g.store = b.g.store := by
  rcases swB_kwRemove_spec hs h with ⟨wk', ⟨hk', _⟩, rfl⟩ | ⟨hk' | ⟨wk', hk', hu'⟩, _⟩
  · rw [hk] at hk'; cases hk'
    exact ⟨rfl, AMap.get?_del_same _ _, rfl, rfl⟩
  · rw [hk] at hk'; cases hk'
  · rw [hk] at hk'; cases hk'
    rw [hu] at hu'; cases hu'

/-- `wu.sub`: exactly `wk.weight` is subtracted from the total, `weight_used` is now held by the sweeper -/
theorem C10_layerB_sub {b b' : BState} {v : Option Nat} {now sh id : Nat} {rest : List (Nat × Nat)} {wk : WKey}
    (hs : b.sw = .sub now sh rest id wk) (h : sweeperAct b v = .ok b') :
    b' = { b with g := { b.g with adm := { b.g.adm with used := b.g.adm.used - wk.weight } }, wuOwner := some .sweeper,
                  sw := .store now sh rest id wk } ∧
    b'.g.adm.used = b.g.adm.used - wk.weight ∧ b'.g.adm.kw = b.g.adm.kw ∧ b'.g.store = b.g.store := by
  obtain ⟨_, rfl⟩ := swB_sub_spec hs h
  exact ⟨rfl, rfl, rfl, rfl⟩

/-- `store.remove` (the ticker's delete hook `delete_if_key_id_matches`, `applyEvictId`): the stored entry of `wk.key`
    goes IF IT STILL CARRIES THE EVICTED ID (otherwise the store is left alone), `weight_used` is released, the
    sweeper moves on to the next listed entry or to `sweep.end`.
    (Before the hook checked the id the second conjunct read `b'.g.store = b.g.store.del wk.key`; that is no longer
    true of the model: on `swB_raceRun` the store is left alone, `C10_layerB_race_keeps_new_incarnation`.) -/
theorem C10_layerB_storeRemove {b b' : BState} {v : Option Nat} {now sh id : Nat} {rest : List (Nat × Nat)} {wk : WKey}
    (hs : b.sw = .store now sh rest id wk) (h : sweeperAct b v = .ok b') :
    b'.g = applyEvictId b.g (id, wk.key, wk.weight) ∧
    b'.g.store = (if (b.g.store.get? wk.key).map (·.id) = some id then b.g.store.del wk.key else b.g.store) ∧
    b'.g.adm = b.g.adm ∧
    b'.g.ttl = b.g.ttl ∧ b'.wuOwner = none ∧ b'.sw = (sweepNext b now sh rest).sw := by
  obtain ⟨_, rfl⟩ := swB_store_spec hs h
  refine ⟨sweepNext_g _ _ _ _, ?_, ?_, ?_, ?_, ?_⟩
  · rw [sweepNext_g]; exact Cached.applyEvictId_store _ _
  · rw [sweepNext_g]; exact applyEvictId_adm _ _
  · rw [sweepNext_g]; exact applyEvictId_ttl _ _
  · simp
  · unfold sweepNext; split <;> rfl

/-- the usual case: the key still holds the entry the evicted id was charged for — the entry goes -/
theorem C10_layerB_storeRemove_matching {b b' : BState} {v : Option Nat} {now sh id : Nat} {rest : List (Nat × Nat)}
    {wk : WKey} {en : Entry} (hs : b.sw = .store now sh rest id wk) (h : sweeperAct b v = .ok b')
    (hk : b.g.store.get? wk.key = some en) (hid : en.id = id) :
    b'.g.store = b.g.store.del wk.key ∧ b'.g.store.get? wk.key = none := by
  obtain ⟨_, h2, _⟩ := C10_layerB_storeRemove hs h
  have hm : (b.g.store.get? wk.key).map (·.id) = some id := by rw [hk]; simp [hid]
  rw [h2, if_pos hm]
  exact ⟨rfl, AMap.get?_del_same _ _⟩

/-- **The weight of an evicted key is reclaimed.**  The sweeper's three actions of one eviction — `kw.remove` of `id`
    (which finds the charge `wk` and, `hu`, the value stored under the key id expired by its own deadline), `wu.sub`, `store.remove` — in ANY interleaving: `b0 → b1`, `b2 → b3`, `b4 → b5` are
    the three sweeper actions, `b1 ⇝ b2` and `b3 ⇝ b4` are whatever the other threads do in between (they never move
    the sweeper, `C10_layerB_others_keep_sweeper`, which is all that is assumed of them).  The first removes the charge
    of `id` from `key_weights`, the second subtracts exactly `wk.weight` from the total and takes `weight_used`,
    the third removes the stored entry of `wk.key` if it still carries `id`, releases `weight_used` and moves on. -/
theorem C10_layerB_reclaims {b0 b1 b2 b3 b4 b5 : BState} {v0 v2 v4 : Option Nat} {now sh id : Nat}
    {rest : List (Nat × Nat)} {wk : WKey} (hs0 : b0.sw = .kwRemove now sh rest id)
    (hk : b0.g.adm.kw.get? id = some wk) (hu : unexpiredWithId b0.g wk.key id = false)
    (h01 : sweeperAct b0 v0 = .ok b1) (h12 : b2.sw = b1.sw)
    (h23 : sweeperAct b2 v2 = .ok b3) (h34 : b4.sw = b3.sw) (h45 : sweeperAct b4 v4 = .ok b5) :
    (b1.g = { b0.g with adm := { b0.g.adm with kw := b0.g.adm.kw.del id } } ∧ b1.g.adm.kw.get? id = none) ∧
    (b3.g = { b2.g with adm := { b2.g.adm with used := b2.g.adm.used - wk.weight } } ∧ b3.wuOwner = some .sweeper) ∧
    (b5.g = applyEvictId b4.g (id, wk.key, wk.weight) ∧
      b5.g.store = (if (b4.g.store.get? wk.key).map (·.id) = some id then b4.g.store.del wk.key else b4.g.store) ∧
      b5.g.adm = b4.g.adm ∧
      b5.wuOwner = none ∧ b5.sw = (sweepNext b4 now sh rest).sw) := by
  obtain ⟨e1, e2, _, _⟩ := C10_layerB_kwRemove_found hs0 hk hu h01
  have hs2 : b2.sw = .sub now sh rest id wk := by rw [h12, e1]
  obtain ⟨e3, _, _, _⟩ := C10_layerB_sub hs2 h23
  have hs4 : b4.sw = .store now sh rest id wk := by rw [h34, e3]
  obtain ⟨f1, f2, f3, _, f5, f6⟩ := C10_layerB_storeRemove hs4 h45
  refine ⟨⟨by rw [e1], e2⟩, ⟨by rw [e3], by rw [e3]⟩, f1, f2, f3, f5, f6⟩

/-- the weight given back is positive (`BInv.pendingPos`) -/
theorem C10_layerB_reclaimed_positive {b : BState} {now sh id : Nat} {rest : List (Nat × Nat)} {wk : WKey}
    (hb : BInv b) (hs : b.sw = .sub now sh rest id wk) : 0 < wk.weight :=
  hb.pendingPos.2.2.2 wk (by rw [hs]; rfl)

/-- **A stale id is harmless.**  If `kw.remove` finds no charge for the id (somebody else — an eviction by the worker,
    a delete — has released it already), nothing is subtracted, nothing of the shared state changes, and the sweeper
    moves on to the next listed entry or to `sweep.end`. -/
theorem C10_layerB_stale_harmless {b b' : BState} {v : Option Nat} {now sh id : Nat} {rest : List (Nat × Nat)}
    (hs : b.sw = .kwRemove now sh rest id) (hk : b.g.adm.kw.get? id = none) (h : sweeperAct b v = .ok b') :
    b' = sweepNext b now sh rest ∧ b'.g = b.g ∧ b'.wuOwner = b.wuOwner ∧
    ((b'.sw = .entry now sh rest ∧ rest ≠ []) ∨ (b'.sw = .fin ∧ rest = [])) := by
  rcases swB_kwRemove_spec hs h with ⟨wk', ⟨hk', _⟩, _⟩ | ⟨_, rfl⟩
  · rw [hk] at hk'; cases hk'
  · exact ⟨rfl, sweepNext_g _ _ _ _, swB_sweepNext_wuOwner _ _ _ _, swB_sweepNext_sw _ _ _ _⟩

/-- **A charged id whose stored value has not itself expired is left alone** (fix 36c87dc: the condition of
    `key_weights.remove_if` reads the store).  If `kw.remove` finds the charge `wk` of the id but the store holds under
    `wk.key` an entry with this id that has no deadline or whose deadline is still ahead, nothing is subtracted, nothing
    of the shared state changes — the key stays stored AND charged — and the sweeper moves on. -/
theorem C10_layerB_skip_harmless {b b' : BState} {v : Option Nat} {now sh id : Nat} {rest : List (Nat × Nat)}
    {wk : WKey} (hs : b.sw = .kwRemove now sh rest id) (hk : b.g.adm.kw.get? id = some wk)
    (hu : unexpiredWithId b.g wk.key id = true) (h : sweeperAct b v = .ok b') :
    b' = sweepNext b now sh rest ∧ b'.g = b.g ∧ b'.wuOwner = b.wuOwner ∧
    ((b'.sw = .entry now sh rest ∧ rest ≠ []) ∨ (b'.sw = .fin ∧ rest = [])) := by
  rcases swB_kwRemove_spec hs h with ⟨wk', ⟨hk', hu'⟩, _⟩ | ⟨_, rfl⟩
  · rw [hk] at hk'; cases hk'
    rw [hu] at hu'; cases hu'
  · exact ⟨rfl, sweepNext_g _ _ _ _, swB_sweepNext_wuOwner _ _ _ _, swB_sweepNext_sw _ _ _ _⟩

/-! ## 4b  the check at `kw.remove` (fix 36c87dc): the sweeper removes only what had expired by its OWN deadline -/

/-- **(1) `kw.remove` takes the charge out only if the stored value itself has expired.**  When the sweeper's
    `kw.remove` action for `id` takes the charge `wk` out of `key_weights` (it moves on to `wu.sub` holding `wk`), then
    IN THAT STATE the charge was there, and the store holds under `wk.key` no entry with id `id` whose own deadline is
    still ahead: every entry stored under that key with this id carries a deadline the clock has passed. -/
theorem C10_layerB_kwRemove_only_if_store_expired {b b' : BState} {v : Option Nat} {now sh id : Nat}
    {rest : List (Nat × Nat)} {wk : WKey} (hs : b.sw = .kwRemove now sh rest id) (h : sweeperAct b v = .ok b')
    (hs' : b'.sw = .sub now sh rest id wk) :
    b.g.adm.kw.get? id = some wk ∧ unexpiredWithId b.g wk.key id = false ∧
    (∀ e, b.g.store.get? wk.key = some e → e.id = id → ∃ t, e.expiry = some t ∧ b.g.now > t) := by
  rcases swB_kwRemove_spec hs h with ⟨wk', ⟨hk, hu⟩, rfl⟩ | ⟨_, rfl⟩
  · simp only [SPc.sub.injEq, true_and] at hs'
    subst hs'
    exact ⟨hk, hu, (unexpiredWithId_eq_false_iff _ _ _).mp hu⟩
  · have hcur : (sweepNext b now sh rest).sw.cur? = some id := by rw [hs']; rfl
    rw [swB_sweepNext_cur] at hcur; cases hcur

/-- the same for an action of ANY thread that brings the sweeper to `wu.sub` -/
theorem C10_layerB_sub_only_if_store_expired {b b' : BState} {a : Act} {o o' : Oracle} {now sh id : Nat}
    {r : List (Nat × Nat)} {wk : WKey} (h : stepB b a o = .ok (b', o')) (hs' : b'.sw = .sub now sh r id wk)
    (hne : b.sw ≠ b'.sw) :
    (∃ v, a = .sweeper v) ∧ b.sw = .kwRemove now sh r id ∧ b.g.adm.kw.get? id = some wk ∧
    ∀ e, b.g.store.get? wk.key = some e → e.id = id → ∃ t, e.expiry = some t ∧ b.g.now > t := by
  rcases C10_layerB_sub_only_after_kwRemove h hs' with hsame | ⟨ha, hs, hk, hu⟩
  · rw [hs', hsame] at hne; exact absurd rfl hne
  · exact ⟨ha, hs, hk, (unexpiredWithId_eq_false_iff _ _ _).mp hu⟩

/-- an id below the id counter never becomes anybody's fresh id again, and the counter only grows -/
theorem swB_step_occ {b b' : BState} {a : Act} {o o' : Oracle} (h : stepB b a o = .ok (b', o')) (f : Nat)
    (hf : f < b.g.nextId) : occ b' f ≤ occ b f ∧ b.g.nextId ≤ b'.g.nextId := by
  cases a with
  | issue i r =>
    simp only [stepB] at h
    split at h
    · rename_i b1 hi'
      simp only [Except.ok.injEq, Prod.mk.injEq] at h; obtain ⟨rfl, rfl⟩ := h
      refine ⟨issue_occ hi' f, ?_⟩
      unfold issue at hi'
      split at hi'
      · simp only [Except.ok.injEq] at hi'; subst hi'; exact Nat.le_refl _
      · cases hi'
    · cases h
  | client i => exact ⟨ctrans_occ (clientAct_trans h) f hf, ctrans_nextId (clientAct_trans h)⟩
  | worker => exact ⟨wtrans_occ (workerAct_trans h) f, Nat.le_of_eq (wtrans_nextId (workerAct_trans h)).symm⟩
  | sweeper v =>
    obtain ⟨h1, h2, h3, h4, _⟩ := strans_frame (sweeperAct_trans (swB_sweeper_step h))
    exact ⟨Nat.le_of_eq (occ_congr h3 h2 h1 f), Nat.le_of_eq h4.symm⟩
  | consumer =>
    simp only [stepB] at h
    split at h
    · rename_i g' out o1 hc
      simp only [Except.ok.injEq, Prod.mk.injEq] at h; obtain ⟨rfl, rfl⟩ := h
      have hfr := consumerStep_frame hc
      have hq : ({ b with g := g' } : BState).g.queue = b.g.queue := by show g'.queue = _; rw [hfr]
      exact ⟨Nat.le_of_eq (occ_congr hq rfl rfl f), by show b.g.nextId ≤ g'.nextId; rw [hfr]; exact Nat.le_refl _⟩
    · cases h
  | advance d =>
    simp only [stepB, Except.ok.injEq, Prod.mk.injEq] at h; obtain ⟨rfl, rfl⟩ := h
    exact ⟨Nat.le_refl _, Nat.le_refl _⟩

/-- **One action of any thread and the entry stored under `k` with an id that is nobody's fresh id** (in a state
    satisfying `WAbsent`: every reachable one).  If the store holds such an entry AFTER the action, it held one with
    the same id BEFORE it — nobody creates an entry under a used id — and value and deadline are the same unless the
    action is a client's `upsert.update` of a `put_or_update` of `k` (`C03_layerB_only_these_alter`). -/
theorem swB_entry_back {b b' : BState} {a : Act} {o o' : Oracle} (hi : WAbsent b) (h : stepB b a o = .ok (b', o'))
    {k id : Nat} (hocc : occ b id = 0) {e' : Entry} (hk' : b'.g.store.get? k = some e') (hid : e'.id = id) :
    ∃ e, b.g.store.get? k = some e ∧ e.id = id ∧
      ((e'.expiry = e.expiry ∧ e'.value = e.value) ∨
       ∃ i v w ttl rm, a = .client i ∧ b.cl[i]? = some (.upUpdate k v w ttl rm)) := by
  cases hk : b.g.store.get? k with
  | none =>
    obtain ⟨_, c, exp, hw, _, _, rfl⟩ := C07_layerB_only_worker_creates h hk hk'
    have hpos : 0 < occ b c.id := by simp [occ, hw, WPc.freshId?]
    simp only [] at hid
    rw [hid] at hpos; omega
  | some e =>
    by_cases hne : e' = e
    · subst hne; exact ⟨e', rfl, hid, Or.inl ⟨rfl, rfl⟩⟩
    · obtain ⟨hid', hcase⟩ := C03_layerB_only_these_alter hi h hk hk' hne
      refine ⟨e, rfl, by rw [← hid']; exact hid, ?_⟩
      rcases hcase with ⟨i, v, w, ttl, rm, exp, ha, hpc, _, _⟩ | ⟨i, _, _, rfl⟩
      · exact Or.inr ⟨i, v, w, ttl, rm, ha, hpc⟩
      · exact Or.inl ⟨rfl, rfl⟩

/-- the action is one of the sweeper's -/
def swB_isSweeper : Act → Bool
  | .sweeper _ => true
  | _ => false

/-- **The record of the check.**  The history `h` (latest first) of a run that stands in state `b` holds the
    sweeper's `kw.remove` action `p` of the eviction of `id` (charge `wk`): `h = h1 ++ p :: h2`, `h1` what happened
    since, with exactly `n` sweeper actions in it.  At `p`
    * the charge `wk` of `id` was in `key_weights`, and `unexpiredWithId` was false: no value stored under `wk.key`
      with id `id` had its own deadline ahead;
    * the clock of `p` is not ahead of the clock of `b`;
    * if `b` stores an entry `e` under `wk.key` with id `id`, the state of `p` stored one, `e0`, with the same id, and
      `e0` HAD EXPIRED BY ITS OWN DEADLINE at `p`; `e` has the value and the deadline of `e0` unless some
      `put_or_update(wk.key)` performed its `upsert.update` action in `h1`, i.e. after the check.
    And `id` is nobody's fresh id (no `store.put` will create an entry under it). -/
def swB_Checked (h : List (BState × Act)) (b : BState) (now sh : Nat) (rest : List (Nat × Nat)) (id : Nat) (wk : WKey)
    (n : Nat) : Prop :=
  occ b id = 0 ∧ id < b.g.nextId ∧
  ∃ h1 p h2, h = h1 ++ p :: h2 ∧ swB_isSweeper p.2 = true ∧ p.1.sw = .kwRemove now sh rest id ∧
    p.1.g.adm.kw.get? id = some wk ∧ unexpiredWithId p.1.g wk.key id = false ∧ p.1.g.now ≤ b.g.now ∧
    (h1.filter (fun q => swB_isSweeper q.2)).length = n ∧
    ∀ e, b.g.store.get? wk.key = some e → e.id = id →
      ∃ e0, p.1.g.store.get? wk.key = some e0 ∧ e0.id = id ∧ (∃ t, e0.expiry = some t ∧ p.1.g.now > t) ∧
        ((e.expiry = e0.expiry ∧ e.value = e0.value) ∨
         ∃ q ∈ h1, ∃ i v w ttl rm, q.2 = .client i ∧ q.1.cl[i]? = some (.upUpdate wk.key v w ttl rm))

/-- the record of the check survives every action of every thread -/
theorem swB_checked_step {h : List (BState × Act)} {b b' : BState} {a : Act} {o o' : Oracle} {now sh id n : Nat}
    {rest : List (Nat × Nat)} {wk : WKey} (hi : WAbsent b) (hc : swB_Checked h b now sh rest id wk n)
    (hs : stepB b a o = .ok (b', o')) :
    swB_Checked ((b, a) :: h) b' now sh rest id wk (n + (if swB_isSweeper a then 1 else 0)) := by
  obtain ⟨hocc, hlt, h1, p, h2, rfl, hp, hsw, hkw, hu, hnow, hn, hent⟩ := hc
  obtain ⟨ho, hnx⟩ := swB_step_occ hs id hlt
  refine ⟨by omega, by omega, (b, a) :: h1, p, h2, rfl, hp, hsw, hkw, hu,
    Nat.le_trans hnow (C10_layerB_clock_monotone hs), ?_, ?_⟩
  · simp only [List.filter_cons]
    split <;> simp_all
  · intro e' hk' hid'
    obtain ⟨e, hk, hid, hcase⟩ := swB_entry_back hi hs hocc hk' hid'
    obtain ⟨e0, hk0, hid0, hexp0, hcase0⟩ := hent e hk hid
    refine ⟨e0, hk0, hid0, hexp0, ?_⟩
    rcases hcase with ⟨h3, h4⟩ | ⟨i, v, w, ttl, rm, ha, hpc⟩
    · rcases hcase0 with ⟨h5, h6⟩ | ⟨q, hq, hrest⟩
      · exact Or.inl ⟨by rw [h3, h5], by rw [h4, h6]⟩
      · exact Or.inr ⟨q, List.mem_cons_of_mem _ hq, hrest⟩
    · exact Or.inr ⟨(b, a), List.mem_cons_self, i, v, w, ttl, rm, ha, hpc⟩

/-- while the sweeper carries an eviction on past `kw.remove`, the history holds the record of its check:
    no sweeper action since at `wu.sub`, exactly one (the `wu.sub`) at `store.remove` -/
def swB_ChkInv (h : List (BState × Act)) (b : BState) : Prop :=
  match b.sw with
  | .sub now sh rest id wk => swB_Checked h b now sh rest id wk 0
  | .store now sh rest id wk => swB_Checked h b now sh rest id wk 1
  | _ => True

theorem swB_chkInv_sweepNext (h : List (BState × Act)) (b : BState) (n sh : Nat) (r : List (Nat × Nat)) :
    swB_ChkInv h (sweepNext b n sh r) := by
  unfold swB_ChkInv
  rcases swB_sweepNext_sw b n sh r with ⟨hs, _⟩ | ⟨hs, _⟩ <;> rw [hs] <;> trivial

theorem swB_chkInv_step {cfg : Cfg} {now0 : Nat} {seeds : List Nat} {clients : Nat} {h : List (BState × Act)}
    {b b' : BState} {a : Act} {o o' : Oracle} (hr : Reach cfg now0 seeds clients b) (hi : swB_ChkInv h b)
    (hs : stepB b a o = .ok (b', o')) : swB_ChkInv ((b, a) :: h) b' := by
  have hwa := wabsent_reach hr
  by_cases ha : ∀ v, a ≠ .sweeper v
  · have hsw := (swB_other_step hs ha).1
    have hns : swB_isSweeper a = false := by
      cases a <;> first | rfl | exact absurd rfl (ha _)
    unfold swB_ChkInv at hi ⊢
    rw [hsw]
    cases hb : b.sw with
    | sub now sh rest id wk =>
      rw [hb] at hi
      have := swB_checked_step hwa hi hs
      simpa [hns] using this
    | store now sh rest id wk =>
      rw [hb] at hi
      have := swB_checked_step hwa hi hs
      simpa [hns] using this
    | _ => trivial
  · obtain ⟨v, rfl⟩ := swB_is_sweeper ha
    have hact := swB_sweeper_step hs
    cases hsw : b.sw with
    | begin =>
      obtain ⟨_, rfl⟩ := swB_begin_spec hsw hact
      exact swB_chkInv_sweepNext _ _ _ _ _
    | fin =>
      rw [swB_fin_spec hsw hact]; trivial
    | entry n s rest =>
      obtain ⟨id', e, rfl, hf, ⟨hd, rfl⟩ | ⟨_, rfl⟩⟩ := swB_entry_spec hsw hact
      · trivial
      · exact swB_chkInv_sweepNext _ _ _ _ _
    | kwRemove n s rest i =>
      rcases swB_kwRemove_spec hsw hact with ⟨wk, ⟨hk, hu⟩, rfl⟩ | ⟨_, rfl⟩
      · have hused : i ∈ usedIds b := by
          rw [mem_usedIds]; simp [hsw, SPc.ids]
        obtain ⟨hocc, hlt⟩ := (binv_reach hr).freshIds.2.2.2.2.1 i hused
        refine ⟨hocc, hlt, [], (b, .sweeper v), h, rfl, rfl, hsw, hk, hu, Nat.le_refl _, rfl, ?_⟩
        intro e hke hid
        exact ⟨e, hke, hid, (unexpiredWithId_eq_false_iff _ _ _).mp hu e hke hid, Or.inl ⟨rfl, rfl⟩⟩
      · exact swB_chkInv_sweepNext _ _ _ _ _
    | sub n s rest i wk =>
      obtain ⟨_, hb'⟩ := swB_sub_spec hsw hact
      unfold swB_ChkInv at hi
      rw [hsw] at hi
      have := swB_checked_step hwa hi hs
      unfold swB_ChkInv
      rw [hb']
      rw [hb'] at this
      simpa [swB_isSweeper] using this
    | store n s rest i wk =>
      obtain ⟨_, rfl⟩ := swB_store_spec hsw hact
      exact swB_chkInv_sweepNext _ _ _ _ _

theorem swB_reach_run {cfg : Cfg} {now : Nat} {seeds : List Nat} {clients : Nat} {b0 b : BState}
    {h : List (BState × Act)} (hr : Reach cfg now seeds clients b0) (hrun : RunH b0 h b) :
    Reach cfg now seeds clients b := by
  induction hrun with
  | nil => exact hr
  | step _ hs ih => exact .step ih hs

theorem swB_chkInv_run {cfg : Cfg} {now0 : Nat} {seeds : List Nat} {clients : Nat} {b0 b : BState}
    {h : List (BState × Act)} (hr : Reach cfg now0 seeds clients b0) (hrun : RunH b0 h b)
    (h0 : swB_ChkInv [] b0) : swB_ChkInv h b := by
  induction hrun with
  | nil => exact h0
  | step hrun1 hs ih => exact swB_chkInv_step (swB_reach_run hr hrun1) ih hs

/-- the starting condition of the runs below: the sweeper is not past the `kw.remove` of an eviction (e.g. the initial
    state, or any state in which the sweeper stands at `sweep.begin` / `sweep.entry` / `sweep.end`) -/
theorem swB_chkInv_start {b0 : BState} (h0 : b0.sw.victim? = none) : swB_ChkInv [] b0 := by
  unfold swB_ChkInv
  cases hsw : b0.sw <;> simp_all [SPc.victim?]

/-- **(2) The sweeper removes only an entry that had expired by its OWN stored deadline when the sweeper checked.**
    Along any run (history `h`, latest first) from a reachable state in which the sweeper is not in the middle of an
    eviction: whenever the sweeper's `store.remove` action for `id` finds the key `wk.key` stored under that id (entry
    `e`) — and so removes it — the history is `h1 ++ p :: h2` where `p` is the sweeper's OWN `kw.remove` action for this
    id, two sweeper actions earlier (`h1` holds exactly one sweeper action, the `wu.sub`), and IN THE STATE OF `p`
    * the charge `wk` was found, and the store held under `wk.key` an entry `e0` WITH THE SAME ID whose own deadline
      `t` the clock had passed (`unexpiredWithId = false`);
    * the entry `e` removed now has the value and the deadline of `e0` — then it is expired at the removal as well —
      unless some `put_or_update(wk.key)` performed its `upsert.update` action between the check and the removal. -/
theorem C10_layerB_removes_only_expired_at_check {cfg : Cfg} {now0 : Nat} {seeds : List Nat} {clients : Nat}
    {b0 b b' : BState} {h : List (BState × Act)} {v : Option Nat} {o o' : Oracle} {now sh id : Nat}
    {rest : List (Nat × Nat)} {wk : WKey} {e : Entry}
    (hr : Reach cfg now0 seeds clients b0) (hrun : RunH b0 h b) (h0 : b0.sw.victim? = none)
    (hs : stepB b (.sweeper v) o = .ok (b', o')) (hsw : b.sw = .store now sh rest id wk)
    (hk : b.g.store.get? wk.key = some e) (hid : e.id = id) :
    b'.g.store.get? wk.key = none ∧
    ∃ h1 p h2, h = h1 ++ p :: h2 ∧ (∃ v', p.2 = .sweeper v') ∧ p.1.sw = .kwRemove now sh rest id ∧
      (h1.filter (fun q => swB_isSweeper q.2)).length = 1 ∧
      p.1.g.adm.kw.get? id = some wk ∧ unexpiredWithId p.1.g wk.key id = false ∧ p.1.g.now ≤ b.g.now ∧
      ∃ e0 t, p.1.g.store.get? wk.key = some e0 ∧ e0.id = id ∧ e0.expiry = some t ∧ p.1.g.now > t ∧
        ((e.expiry = some t ∧ e.value = e0.value ∧ b.g.now > t) ∨
         ∃ q ∈ h1, ∃ i v w ttl rm, q.2 = .client i ∧ q.1.cl[i]? = some (.upUpdate wk.key v w ttl rm)) := by
  have hinv := swB_chkInv_run hr hrun (swB_chkInv_start h0)
  unfold swB_ChkInv at hinv
  rw [hsw] at hinv
  obtain ⟨_, _, h1, p, h2, rfl, hp, hpsw, hkw, hu, hnow, hn, hent⟩ := hinv
  obtain ⟨e0, hk0, hid0, ⟨t, ht, hgt⟩, hcase⟩ := hent e hk hid
  refine ⟨(C10_layerB_storeRemove_matching hsw (swB_sweeper_step hs) hk hid).2, h1, p, h2, rfl, ?_, hpsw, hn, hkw, hu,
    hnow, e0, t, hk0, hid0, ht, hgt, ?_⟩
  · cases hpa : p.2 <;> simp_all [swB_isSweeper]
  · rcases hcase with ⟨h5, h6⟩ | hq
    · exact Or.inl ⟨by rw [h5, ht], h6, by omega⟩
    · exact Or.inr hq

/-- **… hence an entry that is NOT expired when the sweeper removes it was rewritten in between**: if the entry the
    sweeper's `store.remove` takes away has no deadline, or a deadline the clock has not passed, then some
    `put_or_update` of that key performed its `upsert.update` action AFTER the sweeper's check (`kw.remove`) and before
    the removal — and the entry it rewrote had expired at the check (known finding D3: `put_or_update` revives an
    expired entry in place, under the same id, while its eviction is under way). -/
theorem C10_layerB_removes_unexpired_only_after_upsert {cfg : Cfg} {now0 : Nat} {seeds : List Nat} {clients : Nat}
    {b0 b b' : BState} {h : List (BState × Act)} {v : Option Nat} {o o' : Oracle} {now sh id : Nat}
    {rest : List (Nat × Nat)} {wk : WKey} {e : Entry}
    (hr : Reach cfg now0 seeds clients b0) (hrun : RunH b0 h b) (h0 : b0.sw.victim? = none)
    (hs : stepB b (.sweeper v) o = .ok (b', o')) (hsw : b.sw = .store now sh rest id wk)
    (hk : b.g.store.get? wk.key = some e) (hid : e.id = id) (hlive : ∀ t, e.expiry = some t → ¬ b.g.now > t) :
    ∃ h1 p h2, h = h1 ++ p :: h2 ∧ (∃ v', p.2 = .sweeper v') ∧ p.1.sw = .kwRemove now sh rest id ∧
      (∃ e0 t, p.1.g.store.get? wk.key = some e0 ∧ e0.id = id ∧ e0.expiry = some t ∧ p.1.g.now > t) ∧
      ∃ q ∈ h1, ∃ i v w ttl rm, q.2 = .client i ∧ q.1.cl[i]? = some (.upUpdate wk.key v w ttl rm) := by
  obtain ⟨_, h1, p, h2, rfl, hp, hpsw, _, _, _, _, e0, t, hk0, hid0, ht, hgt, hcase⟩ :=
    C10_layerB_removes_only_expired_at_check hr hrun h0 hs hsw hk hid
  refine ⟨h1, p, h2, rfl, hp, hpsw, ⟨e0, t, hk0, hid0, ht, hgt⟩, ?_⟩
  rcases hcase with ⟨h5, _, h7⟩ | hq
  · exact absurd h7 (hlive t h5)
  · exact hq

/-- **The sweeper never removes a live key — what is true now, with the entry's OWN deadline** (the statement of
    Layer A's `C10_never_removes_live`, at action granularity; `C10_layerB_never_removes_live` above is the part that
    needs no history).  Along any run from a reachable state in which the sweeper is not in the middle of an eviction:
    if a sweeper action takes the entry `en` away from key `k` (afterwards `k` is absent or holds another id), then
    * `en` has expired by its own deadline at that very moment, or
    * a `put_or_update(k)` performed its `upsert.update` action after the sweeper's `kw.remove` of this id and before
      this removal, and at that `kw.remove` the entry stored under `k` with this id had expired by its own deadline
      (the upsert revived an expired entry in place: known finding D3, `C10_layerB_upsert_after_check_loses_key`).
    Before fix 36c87dc only "the deadline THE INDEX held at the visit had passed" was true
    (`C10_layerB_evict_due`); the run that refuted the present statement then is now
    `C10_layerB_second_race_fixed`. -/
theorem C10_layerB_never_removes_live_own_deadline {cfg : Cfg} {now0 : Nat} {seeds : List Nat} {clients : Nat}
    {b0 b b' : BState} {h : List (BState × Act)} {v : Option Nat} {o o' : Oracle} {k : Nat} {en : Entry}
    (hr : Reach cfg now0 seeds clients b0) (hrun : RunH b0 h b) (h0 : b0.sw.victim? = none)
    (hs : stepB b (.sweeper v) o = .ok (b', o')) (hk : b.g.store.get? k = some en)
    (hne : ∀ en', b'.g.store.get? k = some en' → en'.id ≠ en.id) :
    (∃ t, en.expiry = some t ∧ b.g.now > t) ∨
    (∃ h1 p h2 now sh rest, h = h1 ++ p :: h2 ∧ (∃ v', p.2 = .sweeper v') ∧ p.1.sw = .kwRemove now sh rest en.id ∧
      (∃ e0 t, p.1.g.store.get? k = some e0 ∧ e0.id = en.id ∧ e0.expiry = some t ∧ p.1.g.now > t) ∧
      ∃ q ∈ h1, ∃ i v w ttl rm, q.2 = .client i ∧ q.1.cl[i]? = some (.upUpdate k v w ttl rm)) := by
  obtain ⟨now, sh, rest, wk, hsw, _, hkey⟩ :=
    C10_layerB_never_removes_live (swB_reach_run hr hrun) hs hk rfl hne
  subst hkey
  obtain ⟨_, h1, p, h2, rfl, hp, hpsw, _, _, _, _, e0, t, hk0, hid0, ht, hgt, hcase⟩ :=
    C10_layerB_removes_only_expired_at_check hr hrun h0 hs hsw hk rfl
  rcases hcase with ⟨h5, _, h7⟩ | hq
  · exact Or.inl ⟨t, h5, h7⟩
  · exact Or.inr ⟨h1, p, h2, now, sh, rest, rfl, hp, hpsw, ⟨e0, t, hk0, hid0, ht, hgt⟩, hq⟩

/-! ## 5  concrete interleavings: non-vacuity, and the counterexamples

  Configuration `cfgEx`: limit 10, ONE expiry shard (so both keys below lie in the swept shard), two clients. -/

/-- evaluates a predicate at the end of a run from the initial state -/
def swB_at (run : List (Act × Oracle)) (f : BState → Bool) : Bool :=
  match runB (BState.init cfgEx 0 [1, 2, 3, 4] 2) run with
  | .ok b => f b
  | .error _ => false

/-- key 1 (id 1, weight 3, deadline 5) and key 2 (id 2, weight 4, deadline 1000) are in; the clock moves to 10:
    key 1 is expired, key 2 is live, both are indexed in shard 0 -/
def swB_twoKeys : List (Act × Oracle) :=
  call 0 (.putW 1 100 3 (some 5)) 4 ++ workerN 7 ++ call 0 (.putW 2 200 4 (some 1000)) 4 ++ workerN 7 ++
  [(.advance 10, noO)]

example : swB_at swB_twoKeys (fun b =>
    decide (b.g.now = 10 ∧ b.g.store.get? 1 = some ⟨100, 1, some 5, false⟩ ∧ b.g.store.get? 2 = some ⟨200, 2, some 1000, false⟩ ∧
            b.g.adm.kw.get? 1 = some ⟨1, 1, 3⟩ ∧ b.g.adm.kw.get? 2 = some ⟨2, 2, 4⟩ ∧ b.g.adm.used = 7 ∧
            b.g.ttl = [((0, 2), 1000), ((0, 1), 5)] ∧ b.ttlOwner = none) &&
    (match b.sw with | .begin => true | _ => false)) = true := by decide

/-- `sweep.begin`: the time 10 is read, shard 0 is locked, both entries are listed.  These are the hypotheses of
    `C10_layerB_visit_decision` for the due entry `(1, 5)` and for the live entry `(2, 1000)`; either may be visited
    first (`C10_layerB_visit_enabled`). -/
example : swB_at (swB_twoKeys ++ [(.sweeper none, noO)]) (fun b =>
    (match b.sw with
     | .entry now sh rest => decide (now = 10 ∧ sh = 0 ∧ rest = [(2, 1000), (1, 5)] ∧ now > 5 ∧ ¬ now > 1000)
     | _ => false) &&
    decide (b.ttlOwner = some 0 ∧ swB_tick b = some (10, 0)) &&
    (match sweeperAct b (some 1), sweeperAct b (some 2) with | .ok _, .ok _ => true | _, _ => false)) = true := by decide

/-- visiting the LIVE entry first: nothing of the shared state changes, the due entry is still to be visited -/
example : swB_at (swB_twoKeys ++ [(.sweeper none, noO), (.sweeper (some 2), noO)]) (fun b =>
    (match b.sw with
     | .entry now sh rest => decide (now = 10 ∧ sh = 0 ∧ rest = [(1, 5)])
     | _ => false) &&
    decide (b.g.store.get? 2 = some ⟨200, 2, some 1000, false⟩ ∧ b.g.adm.kw.get? 2 = some ⟨2, 2, 4⟩ ∧ b.g.adm.used = 7 ∧
            b.g.ttl = [((0, 2), 1000), ((0, 1), 5)])) = true := by decide

/-- visiting the DUE entry: exactly its index entry goes (`C10_layerB_visit_decision`, and the step that
    `C10_layerB_kwRemove_only_if_due` / `C10_layerB_evict_due` talk about: the sweeper enters `kw.remove`) -/
example : swB_at (swB_twoKeys ++ [(.sweeper none, noO), (.sweeper (some 1), noO)]) (fun b =>
    (match b.sw with
     | .kwRemove now sh rest id => decide (now = 10 ∧ sh = 0 ∧ rest = [(2, 1000)] ∧ id = 1)
     | _ => false) &&
    decide (b.g.ttl = [((0, 2), 1000)] ∧ b.g.store.get? 1 = some ⟨100, 1, some 5, false⟩ ∧
            b.g.adm.kw.get? 1 = some ⟨1, 1, 3⟩ ∧ b.g.adm.used = 7)) = true := by decide

/-- **The whole sweep, interleaved with a client**: `begin`, visit 1 (due), `kw.remove`; client 1 reads
    `total_weight_used` (7: the charge is out of `kw`, not yet out of the total) and the clock moves on by 5;
    `wu.sub`, `store.remove`, visit 2 (live), which arrives at `sweep.end`.  The expired key is gone from the store,
    the charges and the index, its weight 3 is out of the total; the live key is untouched; the sweeper still
    compared with the time 10 it read at the beginning (`C10_layerB_sweep_clock`: 10 ≤ 15). -/
def swB_sweepRun : List (Act × Oracle) :=
  swB_twoKeys ++ [(.sweeper none, noO), (.sweeper (some 1), noO), (.sweeper none, noO)] ++ call 1 .weight 2 ++
  [(.advance 5, noO), (.sweeper none, noO), (.sweeper none, noO), (.sweeper (some 2), noO)]

example : swB_at swB_sweepRun (fun b =>
    (match b.sw with | .fin => true | _ => false) &&
    decide (b.g.store.get? 1 = none ∧ b.g.adm.kw.get? 1 = none ∧ b.g.ttl.get? (0, 1) = none ∧ b.g.adm.used = 4 ∧
            b.g.store.get? 2 = some ⟨200, 2, some 1000, false⟩ ∧ b.g.adm.kw.get? 2 = some ⟨2, 2, 4⟩ ∧
            b.g.ttl.get? (0, 2) = some 1000 ∧ b.g.ttl = [((0, 2), 1000)] ∧ b.g.now = 15 ∧
            b.ttlOwner = none ∧ b.wuOwner = none) &&
    (match b.res[1]? with | some [Out.weight w] => decide (w = 7) | _ => false)) = true := by decide

/-- in the middle of that run (after the clock has moved): the hypotheses of `C10_layerB_sweep_clock`
    (`now? = some 10`, clock 15), of `C10_layerB_sub` / `C10_layerB_reclaimed_positive` (the sweeper at `wu.sub`
    holding the charge of weight 3), and the three states of `C10_layerB_reclaims` -/
example : swB_at (swB_twoKeys ++ [(.sweeper none, noO), (.sweeper (some 1), noO), (.sweeper none, noO)] ++
      call 1 .weight 2 ++ [(.advance 5, noO)]) (fun b =>
    (match b.sw with
     | .sub now sh rest id wk => decide (now = 10 ∧ sh = 0 ∧ rest = [(2, 1000)] ∧ id = 1 ∧ wk = ⟨1, 1, 3⟩)
     | _ => false) &&
    decide (b.sw.now? = some 10 ∧ b.g.now = 15 ∧ b.g.adm.kw.get? 1 = none ∧ b.g.adm.used = 7) &&
    (match sweeperAct b none with
     | .ok b1 =>
       decide (b1.g.adm.used = 4 ∧ b1.wuOwner = some .sweeper ∧ b1.g.store.get? 1 = some ⟨100, 1, some 5, false⟩) &&
       (match sweeperAct b1 none with
        | .ok b2 => decide (b2.g.store.get? 1 = none ∧ b2.g.adm.used = 4 ∧ b2.wuOwner = none) &&
                    (match b2.sw with | .entry now sh rest => decide (now = 10 ∧ sh = 0 ∧ rest = [(2, 1000)]) | _ => false)
        | _ => false)
     | _ => false)) = true := by decide

/-- the hypotheses of `C10_layerB_shard_clean_at_end` on that run: the last action is a sweeper action of the
    sweep `(10, 0)` and arrives at `sweep.end`; the one entry left in shard 0 is not due -/
example : swB_at (swB_sweepRun.dropLast) (fun b =>
    decide (swB_tick b = some (10, 0)) &&
    (match stepB b (.sweeper (some 2)) noO with
     | .ok (b', _) => (match b'.sw with | .fin => true | _ => false) && decide (b'.g.ttl = [((0, 2), 1000)] ∧ ¬ 10 > 1000)
     | _ => false)) = true := by decide

/-- **While the shard is locked the other threads wait** (`C10_layerB_locked_shard_frozen`): with the sweeper inside
    the sweep of shard 0, a `put_or_update` that wants to take key 2's deadline out of the index is not enabled at
    its `ttl.delete`; neither is the worker's `ttl.put` for a new key with a time-to-live. -/
example : swB_at (swB_twoKeys ++ [(.sweeper none, noO)] ++ call 0 (.upsert 2 none (some 4) none true) 3 ++
      call 1 (.putW 3 300 1 (some 7)) 4 ++ workerN 6) (fun b =>
    decide (b.ttlOwner = some 0) &&
    (match b.cl[0]?, b.w with | some (CPc.upTtlDelete 2 1000 _), WPc.ttlPut _ _ => true | _, _ => false) &&
    (match clientAct b 0 noO with | .error m => m == "not enabled: the expiry shard is locked" | _ => false) &&
    (match workerAct b noO with | .error m => m == "not enabled: the expiry shard is locked" | _ => false) &&
    decide (b.g.ttl = [((0, 2), 1000), ((0, 1), 5)])) = true := by decide

/-- **A stale id** (hypotheses and conclusion of `C10_layerB_stale_harmless`): the sweeper has taken the due entry of
    id 1 out of the index; a `delete(1)` runs up to the worker's `kw.remove`, which takes the charge; the sweeper's
    `kw.remove` then finds nothing, subtracts nothing and arrives at `sweep.end` (the total is still 3 because the
    WORKER has not done its `wu.sub` yet — the weight is reclaimed once, by the thread that took the charge). -/
def swB_staleRun : List (Act × Oracle) :=
  call 0 (.putW 1 100 3 (some 5)) 4 ++ workerN 7 ++ [(.advance 10, noO), (.sweeper none, noO), (.sweeper (some 1), noO)] ++
  call 0 (.delete 1) 3 ++ workerN 3

example : swB_at swB_staleRun (fun b =>
    (match b.sw, b.w with
     | .kwRemove now sh rest id, .delSub i wk _ _ => decide (now = 10 ∧ sh = 0 ∧ rest = [] ∧ id = 1 ∧ i = 1 ∧ wk.weight = 3)
     | _, _ => false) &&
    decide (b.g.adm.kw.get? 1 = none ∧ b.g.adm.used = 3) &&
    (match sweeperAct b none with
     | .ok b' => (match b'.sw with | .fin => true | _ => false) &&
                 decide (b'.g.adm.used = 3 ∧ b'.g.adm.kw = b.g.adm.kw ∧ b'.g.store = b.g.store ∧ b'.g.ttl = b.g.ttl ∧
                         b'.ttlOwner = none)
     | _ => false)) = true := by decide

/-- the states of these runs are reachable, so `SweepInv` (and `BInv`) hold in them -/
example (b : BState) (h : runB (BState.init cfgEx 0 [1, 2, 3, 4] 2) swB_sweepRun = .ok b) : SweepInv b ∧ BInv b :=
  have hr : Reach cfgEx 0 [1, 2, 3, 4] 2 b := reach_runB _ (.init []) h
  ⟨C10_layerB_sweepInv hr, binv_reach hr⟩

/-! ### the race that used to be the counterexample to the full `C10_layerB_never_removes_live`

  Key 1 (id 1, deadline 5) expires; the sweeper takes its index entry out and its charge out of `key_weights` and
  stands before `wu.sub`.  Client 0 calls `put_or_update(1, remove_time_to_live)`: its first action takes the
  deadline out of the STORED value, its `ttl.delete` then waits for the shard lock.  Client 1 calls `delete(1)`: the
  worker removes the stored entry, finds no charge and — the stored value having no deadline any more — has no index
  entry to delete, so it is NOT held up by the shard lock and acknowledges.  Client 1 calls `put(1)` again: the worker
  takes it in under id 2, no time-to-live.  Now the sweeper finishes the eviction of id 1: `wu.sub`, then the delete
  hook.  With the OLD hook `store.delete(&key)` (`applyEvict`) this removed the NEW entry of key 1 (id 2): a key
  without deadline, put after an acknowledged delete, was gone, and its charge (id 2, weight 4) stayed in
  `key_weights` and in the total with no stored entry behind it (the former theorems
  `C10_layerB_never_removes_live_counterexample` / `_false`).  With the ticker's hook `delete_if_key_id_matches`
  (`applyEvictId`) the entry of key 1 carries id 2 ≠ 1 and STAYS. -/
def swB_raceRun : List (Act × Oracle) :=
  call 0 (.putW 1 100 3 (some 5)) 4 ++ workerN 7 ++
  [(.advance 10, noO), (.sweeper none, noO), (.sweeper (some 1), noO), (.sweeper none, noO)] ++
  call 0 (.upsert 1 none (some 3) none true) 3 ++ call 1 (.delete 1) 3 ++ workerN 3 ++
  call 1 (.putW 1 111 4 none) 4 ++ workerN 6 ++ [(.sweeper none, noO)]

/-- On the race run the new incarnation (id 2) survives the end of the eviction of id 1, and stays charged; the OLD
    hook, applied to the same state, would have removed it. -/
theorem C10_layerB_race_keeps_new_incarnation :
    ∃ b b', Reach cfgEx 0 [1, 2, 3, 4] 2 b ∧ stepB b (.sweeper none) noO = .ok (b', noO) ∧
      b.sw = .store 10 0 [] 1 ⟨1, 1, 3⟩ ∧                          -- the sweeper is evicting id 1 …
      b.g.store.get? 1 = some ⟨111, 2, none, false⟩ ∧              -- … key 1 is stored under id 2, without deadline
      b'.g.store.get? 1 = some ⟨111, 2, none, false⟩ ∧             -- … and stays
      b'.g.adm.kw.get? 2 = some ⟨1, 1, 4⟩ ∧ b'.g.adm.used = 4 ∧     -- charged as before
      b'.g.ttl = [] ∧
      (applyEvict b.g (1, 1, 3)).store.get? 1 = none := by         -- the old hook would have removed it
  have hrun : ∃ b, runB (BState.init cfgEx 0 [1, 2, 3, 4] 2) swB_raceRun = .ok b ∧
      ∃ b', stepB b (.sweeper none) noO = .ok (b', noO) ∧
      b.sw = .store 10 0 [] 1 ⟨1, 1, 3⟩ ∧ b.g.store.get? 1 = some ⟨111, 2, none, false⟩ ∧
      b'.g.store.get? 1 = some ⟨111, 2, none, false⟩ ∧ b'.g.adm.kw.get? 2 = some ⟨1, 1, 4⟩ ∧ b'.g.adm.used = 4 ∧
      b'.g.ttl = [] ∧ (applyEvict b.g (1, 1, 3)).store.get? 1 = none := by
    refine ⟨_, rfl, _, rfl, rfl, ?_⟩
    decide
  obtain ⟨b, hr, b', hs, hrest⟩ := hrun
  exact ⟨b, b', reach_runB _ (.init []) hr, hs, hrest⟩

/-- the hypotheses of `C10_layerB_never_removes_live` are satisfiable (the ordinary eviction of `swB_sweepRun`: the
    sweeper at `store.remove` of id 1, key 1 stored under id 1, gone afterwards) -/
example : swB_at (swB_twoKeys ++ [(.sweeper none, noO), (.sweeper (some 1), noO), (.sweeper none, noO),
      (.sweeper none, noO)]) (fun b =>
    (match b.sw with | .store now _ _ id wk => decide (now = 10 ∧ id = 1 ∧ wk.key = 1) | _ => false) &&
    decide (b.g.store.get? 1 = some ⟨100, 1, some 5, false⟩) &&
    (match sweeperAct b none with
     | .ok b' => decide (b'.g.store.get? 1 = none)
     | _ => false)) = true := by decide

/-! ### the second race, with the SAME id: `put_or_update` extends the deadline of a key the sweeper has found due

  Key 1 (id 1, deadline 5) expires; the sweeper visits it (`sweep.entry`: the index entry is due and goes).  A
  `put_or_update(1, ttl 1000)` extends the deadline in the STORED value (to 1010); its index update waits for the
  shard lock.  Before fix 36c87dc the sweeper carried the eviction through whenever the upsert came after the VISIT:
  it removed an entry whose own deadline lay in the future (the former `example` at this place; defects D12 / D13).
  Now `kw.remove` re-validates against the store:
    * upsert BEFORE the sweeper's `kw.remove` (the check): the sweeper skips, the key stays stored and charged, and the
      upsert then enters the new deadline into the index — `C10_layerB_second_race_fixed`;
    * upsert AFTER `kw.remove` (between the check and `store.remove`): the charge is already out, the eviction is
      carried through and the key is lost — `C10_layerB_upsert_after_check_loses_key`.  The entry HAD expired (deadline
      5, clock 10) when the upsert rewrote it: this is known finding D3 (`put_or_update` revives an expired entry in
      place), and it is exactly the exception of `C10_layerB_removes_only_expired_at_check`. -/

/-- the sweeper has found the index entry of key 1 due and stands at `kw.remove`; clock 10, deadline 5 -/
def swB_visited : List (Act × Oracle) :=
  call 0 (.putW 1 100 3 (some 5)) 4 ++ workerN 7 ++
  [(.advance 10, noO), (.sweeper none, noO), (.sweeper (some 1), noO)]

/-- non-vacuity of `C10_layerB_kwRemove_only_if_store_expired` / `C10_layerB_kwRemove_found`: at `kw.remove` the charge
    is there, the stored value (same id) has expired by its own deadline, the action takes the charge out -/
example : swB_at swB_visited (fun b =>
    (match b.sw with | .kwRemove now sh rest id => decide (now = 10 ∧ sh = 0 ∧ rest = [] ∧ id = 1) | _ => false) &&
    decide (b.g.adm.kw.get? 1 = some ⟨1, 1, 3⟩ ∧ unexpiredWithId b.g 1 1 = false ∧
            b.g.store.get? 1 = some ⟨100, 1, some 5, false⟩ ∧ b.g.now = 10) &&
    (match sweeperAct b none with
     | .ok b' => (match b'.sw with | .sub _ _ _ id wk => decide (id = 1 ∧ wk = ⟨1, 1, 3⟩) | _ => false) &&
                 decide (b'.g.adm.kw.get? 1 = none)
     | _ => false)) = true := by decide

/-- **The second race, fixed (D12 / D13).**  The upsert extends the deadline after the sweeper's VISIT but before its
    `kw.remove`: at `kw.remove` the charge is there but the stored value (same id) has its own deadline 1010 ahead —
    the hypotheses of `C10_layerB_skip_harmless` — the sweeper skips and arrives at `sweep.end`; the key is still
    stored, still charged, the total is untouched. -/
theorem C10_layerB_second_race_fixed :
    swB_at (swB_visited ++ call 0 (.upsert 1 none none (some 1000) false) 2) (fun b =>
      (match b.sw with | .kwRemove now _ _ id => decide (now = 10 ∧ id = 1) | _ => false) &&
      decide (b.g.adm.kw.get? 1 = some ⟨1, 1, 3⟩ ∧ unexpiredWithId b.g 1 1 = true ∧
              b.g.store.get? 1 = some ⟨100, 1, some 1010, false⟩) &&
      (match sweeperAct b none with
       | .ok b' => (match b'.sw with | .fin => true | _ => false) &&
                   decide (b'.g.store.get? 1 = some ⟨100, 1, some 1010, false⟩ ∧ b'.g.adm.kw.get? 1 = some ⟨1, 1, 3⟩ ∧
                           b'.g.adm.used = 3 ∧ b'.ttlOwner = none ∧ b'.wuOwner = none)
       | _ => false)) = true := by decide

/-- … and the run carried to its end: the sweeper finishes the sweep, the upsert finishes (its index update enters the
    new deadline, no weight update is due) and a second sweep at clock 20 leaves the key alone: stored, alive,
    charged, indexed under the new deadline. -/
theorem C10_layerB_second_race_fixed_end :
    swB_at (swB_visited ++ call 0 (.upsert 1 none none (some 1000) false) 2 ++ [(.sweeper none, noO), (.sweeper none, noO)] ++
        List.replicate 3 (.client 0, noO) ++
        [(.advance 10, noO), (.sweeper none, noO), (.sweeper (some 1), noO), (.sweeper none, noO)]) (fun b =>
      (match b.sw with | .begin => true | _ => false) &&
      (match b.g.store.get? 1 with
       | some en => decide (en = ⟨100, 1, some 1010, false⟩) && en.alive b.g.now
       | none => false) &&
      decide (b.g.adm.kw.get? 1 = some ⟨1, 1, 3⟩ ∧ b.g.adm.used = 3 ∧ b.g.ttl = [((0, 1), 1010)] ∧ b.g.now = 20 ∧
              b.ttlOwner = none ∧ b.wuOwner = none) &&
      (match b.cl[0]?, b.res[0]? with
       | some CPc.idle, some (Out.ack _ st :: _) => decide (st = .accepted)
       | _, _ => false)) = true := by decide

/-- **The upsert that comes after the check still loses the key (known finding D3).**  The sweeper's `kw.remove` has
    run (the stored value, deadline 5, had expired at clock 10: the charge is out); THEN the upsert extends the
    deadline of the expired entry in place (same id); the sweeper's `wu.sub` and `store.remove` carry the eviction
    through: an entry whose own deadline (1010) lies in the future is removed.  This is the exception clause of
    `C10_layerB_removes_only_expired_at_check`: an `upsert.update` of the key between the check and the removal, on an
    entry that was expired at the check. -/
theorem C10_layerB_upsert_after_check_loses_key :
    swB_at (swB_visited ++ [(.sweeper none, noO)] ++ call 0 (.upsert 1 none none (some 1000) false) 2 ++
        [(.sweeper none, noO)]) (fun b =>
      (match b.sw with | .store now _ _ id wk => decide (now = 10 ∧ id = 1 ∧ wk.key = 1) | _ => false) &&
      (match b.g.store.get? 1 with
       | some en => decide (en.id = 1 ∧ en.expiry = some 1010) && en.alive b.g.now
       | none => false) &&
      (match sweeperAct b none with
       | .ok b' => decide (b'.g.store.get? 1 = none ∧ b'.g.adm.kw.get? 1 = none ∧ b'.g.adm.used = 0)
       | _ => false)) = true := by decide

/-- the run of `C10_layerB_upsert_after_check_loses_key` as a history: the hypotheses of
    `C10_layerB_removes_only_expired_at_check` and of `C10_layerB_removes_unexpired_only_after_upsert` are satisfiable
    (the sweeper at `store.remove` of id 1, key 1 stored under id 1 with a deadline that has NOT passed), and so are
    those of the ordinary case (no upsert: `swB_visited ++ [kw.remove, wu.sub]`, the entry removed is expired) -/
theorem C10_layerB_removes_only_expired_at_check_witness :
    (∃ h b, RunH (BState.init cfgEx 0 [1, 2, 3, 4] 2) h b ∧ (BState.init cfgEx 0 [1, 2, 3, 4] 2).sw.victim? = none ∧
      b.sw = .store 10 0 [] 1 ⟨1, 1, 3⟩ ∧ b.g.store.get? 1 = some ⟨100, 1, some 1010, false⟩ ∧ b.g.now = 10 ∧
      ∃ b', stepB b (.sweeper none) noO = .ok (b', noO)) ∧
    (∃ h b, RunH (BState.init cfgEx 0 [1, 2, 3, 4] 2) h b ∧
      b.sw = .store 10 0 [] 1 ⟨1, 1, 3⟩ ∧ b.g.store.get? 1 = some ⟨100, 1, some 5, false⟩ ∧ b.g.now = 10 ∧
      ∃ b', stepB b (.sweeper none) noO = .ok (b', noO)) := by
  constructor
  · have hh : ∃ h b, histOf (BState.init cfgEx 0 [1, 2, 3, 4] 2)
        (swB_visited ++ [(.sweeper none, noO)] ++ call 0 (.upsert 1 none none (some 1000) false) 2 ++
          [(.sweeper none, noO)]) [] = .ok (h, b) ∧
        b.sw = .store 10 0 [] 1 ⟨1, 1, 3⟩ ∧ b.g.store.get? 1 = some ⟨100, 1, some 1010, false⟩ ∧ b.g.now = 10 ∧
        ∃ b', stepB b (.sweeper none) noO = .ok (b', noO) := ⟨_, _, rfl, rfl, by decide, by decide, _, rfl⟩
    obtain ⟨h, b, hrun, h1, h2, h3, h4⟩ := hh
    exact ⟨h, b, runH_histOf _ (.nil _) hrun, rfl, h1, h2, h3, h4⟩
  · have hh : ∃ h b, histOf (BState.init cfgEx 0 [1, 2, 3, 4] 2)
        (swB_visited ++ [(.sweeper none, noO), (.sweeper none, noO)]) [] = .ok (h, b) ∧
        b.sw = .store 10 0 [] 1 ⟨1, 1, 3⟩ ∧ b.g.store.get? 1 = some ⟨100, 1, some 5, false⟩ ∧ b.g.now = 10 ∧
        ∃ b', stepB b (.sweeper none) noO = .ok (b', noO) := ⟨_, _, rfl, rfl, by decide, by decide, _, rfl⟩
    obtain ⟨h, b, hrun, h1, h2, h3, h4⟩ := hh
    exact ⟨h, b, runH_histOf _ (.nil _) hrun, h1, h2, h3, h4⟩

/-! ### what the fix does NOT repair: an index left out of step is not put right by the skip

  Two overlapping `put_or_update`s of key 1 (A: ttl 1000, B: ttl 2000, both at clock 0) leave the index out of step
  with the store (the root of D13, untouched by fix 36c87dc): A's `upsert.update` runs first (stored deadline 1000, A
  will move the index entry 5 → 1000), B runs completely (stored deadline 2000, index 2000), then A's two index actions
  run (index 1000).  Store: deadline 2000; index: 1000; no call pending.  At clock 1500 the sweeper finds the index
  entry due, takes it out (`sweep.entry`), and at `kw.remove` finds the stored value unexpired: it SKIPS — the key is no
  longer lost (before the fix it was removed with 500 ns to live) — but the index entry is gone and nothing puts one
  back: the key is stored, charged and NOT INDEXED.  Once its deadline 2000 has passed (clock 2500) reads miss, yet no
  sweep ever visits it: the entry and its weight 3 stay until a delete, an upsert or an eviction under pressure
  ("every expired key is eventually removed by the sweeper" fails on this run). -/

def swB_outOfStep : List (Act × Oracle) :=
  call 0 (.putW 1 100 3 (some 5)) 4 ++ workerN 7 ++
  call 0 (.upsert 1 none none (some 1000) false) 3 ++ call 1 (.upsert 1 none none (some 2000) false) 5 ++
  List.replicate 2 (.client 0, noO)

example : swB_at swB_outOfStep (fun b =>
    decide (b.g.store.get? 1 = some ⟨100, 1, some 2000, false⟩ ∧ b.g.ttl = [((0, 1), 1000)] ∧
            b.g.adm.kw.get? 1 = some ⟨1, 1, 3⟩ ∧ b.g.now = 0) &&
    (match b.cl[0]?, b.cl[1]? with | some CPc.idle, some CPc.idle => true | _, _ => false)) = true := by decide

/-- the sweep at clock 1500 skips the key (it is kept: the fix) and leaves it without an index entry; at clock 2500
    the key has expired, a whole sweep of its shard visits nothing, and the key is still stored and charged -/
theorem C10_layerB_skip_leaves_key_unindexed :
    swB_at (swB_outOfStep ++ [(.advance 1500, noO), (.sweeper none, noO), (.sweeper (some 1), noO), (.sweeper none, noO),
        (.sweeper none, noO)]) (fun b =>
      (match b.sw with | .begin => true | _ => false) &&
      (match b.g.store.get? 1 with
       | some en => decide (en = ⟨100, 1, some 2000, false⟩) && en.alive b.g.now
       | none => false) &&
      decide (b.g.ttl = [] ∧ b.g.adm.kw.get? 1 = some ⟨1, 1, 3⟩ ∧ b.g.adm.used = 3)) = true ∧
    swB_at (swB_outOfStep ++ [(.advance 1500, noO), (.sweeper none, noO), (.sweeper (some 1), noO), (.sweeper none, noO),
        (.sweeper none, noO), (.advance 1000, noO), (.sweeper none, noO), (.sweeper none, noO)]) (fun b =>
      (match b.sw with | .begin => true | _ => false) &&
      (match b.g.store.get? 1 with
       | some en => decide (en = ⟨100, 1, some 2000, false⟩) && !en.alive b.g.now
       | none => false) &&
      decide (b.g.now = 2500 ∧ b.g.ttl = [] ∧ b.g.adm.kw.get? 1 = some ⟨1, 1, 3⟩ ∧ b.g.adm.used = 3 ∧
              b.ttlOwner = none)) = true := by
  constructor <;> decide

end B
end Cached
