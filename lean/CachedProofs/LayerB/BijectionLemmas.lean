/-
  Helper lemmas for LayerB/Bijection.lean (the store ↔ weight-ledger bijection at action granularity):
  what ONE client action does to the fresh-id count `occ`, to the id counter, to the ledger `kw` (nothing while the
  cache is running) and to the ids under which keys are stored (nothing, except `shutdown()`'s `store.clear`).
-/
import CachedProofs.LayerB.Entries

namespace Cached
namespace B

/-! ## the ids under which keys are stored -/

theorem idmap_fwd {s s' : AMap Nat Entry} {k : Nat} {e' : Entry}
    (hst : (s'.get? k).map (·.id) = (s.get? k).map (·.id)) (h : s'.get? k = some e') :
    ∃ e, s.get? k = some e ∧ e.id = e'.id := by
  rw [h] at hst
  cases hk : s.get? k with
  | none => rw [hk] at hst; cases hst
  | some e => rw [hk] at hst; simp only [Option.map_some, Option.some.injEq] at hst; exact ⟨e, rfl, hst.symm⟩

theorem idmap_bwd {s s' : AMap Nat Entry} {k : Nat} {e : Entry}
    (hst : (s'.get? k).map (·.id) = (s.get? k).map (·.id)) (h : s.get? k = some e) :
    ∃ e', s'.get? k = some e' ∧ e'.id = e.id :=
  idmap_fwd hst.symm h

/-- a client action other than `shutdown()`'s `store.clear` keeps, for every key, the id it is stored under
    (`delete.mark` and `upsert.update` modify the entry in place) -/
theorem storeEff_client_ids {b b' : BState} {i : Nat} (h : StoreEff b (.client i) b')
    (hno : b.cl[i]? ≠ some .shutStoreClear) (k : Nat) :
    (b'.g.store.get? k).map (·.id) = (b.g.store.get? k).map (·.id) := by
  cases h
  case same hs => rw [hs]
  case mark k' e hpc he hs =>
    rw [hs, AMap.get?_set]
    split
    · rename_i hkk; subst hkk; rw [hpc]; rfl
    · rfl
  case upsert k' v w ttl rm e exp hpc he hx hs =>
    rw [hs, AMap.get?_set]
    split
    · rename_i hkk; subst hkk; rw [hpc]; rfl
    · rfl
  case clear hpc hs => exact absurd hpc hno

/-! ## the ledger -/

/-- while the cache is running no client action touches the admission part (only `shutdown.kw_clear` and
    `shutdown.wu_zero` do, and they come after the flag is set) -/
theorem ctrans_adm_running {b b' : BState} {i : Nat} (hb : BInv b) (hs : b.g.shutting = false) (h : CTrans b i b') :
    b'.g.adm = b.g.adm := by
  rcases ctrans_adm h with hadm | ⟨pc, hpc, ha, _⟩
  · exact hadm
  · rw [hb.shutFlag i pc hpc ha] at hs; cases hs

/-! ## fresh ids -/

theorem occ_client_le {b b' : BState} {i : Nat} {pc pc' : CPc} (hpc : b.cl[i]? = some pc)
    (hcl : b'.cl = b.cl.set i pc') (hq : qIds b'.g.queue = qIds b.g.queue) (hw : b'.w = b.w)
    (hfresh : pc'.freshId? = none) (f : Nat) : occ b' f ≤ occ b f := by
  have := count_filterMap_set CPc.freshId? b.cl i pc pc' hpc f
  rw [hfresh] at this
  simp only [occ, cIds, hcl, hq, hw]
  simp at this
  omega

theorem occ_client_le' {b b' : BState} {i : Nat} {pc : CPc} (hpc : b.cl[i]? = some pc)
    (hcl : ∃ pc', b'.cl = b.cl.set i pc' ∧ pc'.freshId? = none) (hq : qIds b'.g.queue = qIds b.g.queue)
    (hw : b'.w = b.w) (f : Nat) : occ b' f ≤ occ b f := by
  obtain ⟨pc', h1, h2⟩ := hcl
  exact occ_client_le hpc h1 hq hw h2 f

theorem occ_idNext {b : BState} {i k v : Nat} {w : Int} {ttl : Option Nat}
    (hpc : b.cl[i]? = some (.idNext k v w ttl)) (cmd : Cmd) (hid : cmdId? cmd = some b.g.nextId) (f : Nat)
    (hf : f < b.g.nextId) :
    occ (setClient { b with g := { b.g with nextId := b.g.nextId + 1 } } i (.send cmd)) f ≤ occ b f := by
  have := count_filterMap_set CPc.freshId? b.cl i _ (.send cmd) hpc f
  simp only [CPc.freshId?, hid, Option.toList_some, Option.toList_none, List.count_nil] at this
  have hne : [b.g.nextId].count f = 0 := by
    have : ¬ b.g.nextId = f := by omega
    simp [this]
  simp only [occ, cIds, setClient]
  omega

theorem occ_upAfter_le {b b0 : BState} {i id : Nat} {uw : Option Int} {pc : CPc} (hpc : b.cl[i]? = some pc)
    (hq : b0.g.queue = b.g.queue) (hcl : b0.cl = b.cl) (hw : b0.w = b.w) (f : Nat) :
    occ (upAfterIndex b0 i id uw) f ≤ occ b f := by
  have hq' : qIds b0.g.queue = qIds b.g.queue := by rw [hq]
  rcases upAfterIndex_spec b0 i id uw with ⟨_, h⟩ | ⟨w, _, h⟩ | h <;> rw [h]
  · refine occ_client_le (i := i) (pc' := .idle) hpc ?_ ?_ ?_ rfl f
    · simp [finishCall, hcl]
    · exact hq'
    · exact hw
  · refine occ_client_le (i := i) (pc' := .send (.updateWeight id w)) hpc ?_ ?_ ?_ rfl f
    · simp [setClient, hcl]
    · exact hq'
    · exact hw
  · refine occ_client_le (i := i) (pc' := .idle) hpc ?_ ?_ ?_ rfl f
    · simp [spotFinish, finishCall, hcl]
    · simpa [spotFinish, finishCall] using hq'
    · exact hw

/-- A client action never makes an id that is already below the id counter fresh: the one action that creates a fresh
    id (`id.next`) draws the counter itself. -/
theorem ctrans_occ {b b' : BState} {i : Nat} (h : CTrans b i b') (f : Nat) (hf : f < b.g.nextId) :
    occ b' f ≤ occ b f := by
  cases h with
  | idNext k v w ttl hpc => exact occ_idNext hpc _ (by cases ttl <;> rfl) f hf
  | sendOk cmd hpc =>
    have hc := count_filterMap_set CPc.freshId? b.cl i _ .idle hpc f
    simp only [CPc.freshId?, Option.toList_none, List.count_nil] at hc
    have hq : (qIds (b.g.queue ++ [(cmd, some b.g.acks.length)])).count f
        = (qIds b.g.queue).count f + (cmdId? cmd).toList.count f := by
      simp [qIds_append, qIds_cons, List.count_append]
    simp only [occ, cIds, finishCall]
    omega
  | startPlain r pc' hpc hp =>
    refine occ_client_le' hpc ⟨pc', rfl, by cases pc' <;> first | rfl | cases hp⟩ ?_ ?_ f
    · rfl
    · rfl
  | upWeightOfTtl id uw old new pc' hpc hu hfr hp =>
    refine occ_client_le' hpc ⟨pc', rfl, hfr⟩ ?_ ?_ f
    · rfl
    · rfl
  | upAfterSame id uw old new hpc => exact occ_upAfter_le (b0 := b) hpc rfl rfl rfl f
  | upAfterPut pc id e uw hpc hu _ => exact occ_upAfter_le (b0 := { b with g := ttlPut b.g id e }) hpc rfl rfl rfl f
  | upAfterDelete id e uw hpc _ => exact occ_upAfter_le (b0 := { b with g := ttlDelete b.g id e }) hpc rfl rfl rfl f
  | getPool k v g1 o o' hpc hp =>
    have hf' := poolAdd_frame hp
    refine occ_client_le' hpc ⟨.idle, rfl, rfl⟩ ?_ ?_ f
    · show qIds g1.queue = _; rw [hf']
    · rfl
  | refPool k v g1 o o' hpc hp =>
    have hf' := poolAdd_frame hp
    refine occ_client_le' hpc ⟨.idle, rfl, rfl⟩ ?_ ?_ f
    · show qIds g1.queue = _; rw [hf']
    · rfl
  | shutSendCmd hpc _ =>
    refine occ_client_le' hpc ⟨.shutSendBuf, rfl, rfl⟩ ?_ ?_ f
    · simp [setClient, qIds_append, qIds_cons, cmdId?]
    · rfl
  | shutLocal pc pc' g' hpc _ h2 hg =>
    refine occ_client_le' hpc ⟨pc', rfl, by clear hg; cases pc' <;> simp_all [CPc.afterCas, CPc.freshId?]⟩ ?_ ?_ f
    · show qIds g'.queue = _; rw [hg]
    · rfl
  | mgetStep pc pc' g' hpc _ h2 hg =>
    refine occ_client_le' hpc ⟨pc', rfl, by clear hg; cases pc' <;> simp_all [CPc.isMget, CPc.freshId?]⟩ ?_ ?_ f
    · show qIds g'.queue = _; rw [hg]
    · rfl
  | mgetFin pc g' out hpc _ hg =>
    refine occ_client_le' hpc ⟨.idle, rfl, rfl⟩ ?_ ?_ f
    · show qIds g'.queue = _; rw [hg]
    · rfl
  | _ =>
    refine occ_client_le' (by assumption) ?_ ?_ ?_ f
    · exact ⟨_, rfl, rfl⟩
    · rfl
    · rfl

/-- the id counter only grows -/
theorem ctrans_nextId {b b' : BState} {i : Nat} (h : CTrans b i b') : b.g.nextId ≤ b'.g.nextId := by
  cases h
  case getPool hp => rw [poolAdd_frame hp]; simp [finishCall]
  case refPool hp => rw [poolAdd_frame hp]; simp [finishCall]
  case shutLocal hg => rw [hg]; simp [setClient]
  case mgetStep hg => rw [hg]; simp [setClient]
  case mgetFin hg => rw [hg]; simp [finishCall]
  case upAfterSame => rcases upAfterIndex_spec b i _ _ with ⟨_, h⟩ | ⟨_, _, h⟩ | h <;> rw [h] <;> simp [finishCall, setClient, spotFinish]
  case upAfterPut id e uw _ _ _ =>
    rcases upAfterIndex_spec { b with g := ttlPut b.g id e } i id uw with ⟨_, h⟩ | ⟨_, _, h⟩ | h <;> rw [h] <;>
      simp [finishCall, setClient, spotFinish, ttlPut]
  case upAfterDelete id e uw _ _ =>
    rcases upAfterIndex_spec { b with g := ttlDelete b.g id e } i id uw with ⟨_, h⟩ | ⟨_, _, h⟩ | h <;> rw [h] <;>
      simp [finishCall, setClient, spotFinish, ttlDelete]
  all_goals simp [finishCall, setClient, spotFinish, ttlDelete]

/-- issuing a request creates no fresh id -/
theorem issue_occ {b b' : BState} {i : Nat} {r : Req} (h : issue b i r = .ok b') (f : Nat) : occ b' f ≤ occ b f := by
  unfold issue at h
  split at h
  · rename_i hpc
    simp only [Except.ok.injEq] at h; subst h
    refine occ_client_le' hpc ⟨.start r, rfl, rfl⟩ ?_ ?_ f
    · rfl
    · rfl
  · cases h

/-- a store id is a used id -/
theorem store_id_used {b : BState} {k : Nat} {e : Entry} (h : b.g.store.get? k = some e) : e.id ∈ usedIds b := by
  rw [mem_usedIds]; exact Or.inl ⟨(k, e), AMap.mem_of_get? h, rfl⟩

/-- a used id is nobody's fresh id -/
theorem used_ne_fresh {b : BState} (hb : BInv b) {u f : Nat} (hu : u ∈ usedIds b) (hf : 0 < occ b f) : u ≠ f := by
  intro e; subst e
  have := (hb.freshIds.2.2.2.2.1 u hu).1
  omega

end B
end Cached
