/-
  C09 ("Expired values are never served") at ACTION granularity: the lookups `store.get` of `get`, `get_ref` and of
  every key of a multi-key read are single atomic actions of Layer B (CachedModel/LayerB.lean); everything else — the
  worker, the sweeper, the clock, other clients' `put_or_update`s — may run before and after them, in any order.

  Layout
    0  vocabulary: `expB_alive_iff`, `expB_lookup` (what a lookup of `k` answers in a given shared state)
    1  `C09_layerB_never_served` (+ `C09_layerB_expired_is_miss`, `C09_layerB_never_served_call`)
    2  `C09_layerB_not_hidden`
    3  `C09_layerB_deadline_moves_only_by_upsert_or_put` (+ `…_run`)
    4  `C09_layerB_no_ttl_never_expires` (+ `C09_layerB_advance_keeps_store`, `…_run`)
    5  `C09_layerB_sweep_irrelevant_for_reads` (the TRUE form), `C09_layerB_sweep_removes_only_visited_due` (with the
       history), and the two concrete runs that refute the naive form:
       `C09_layerB_sweep_removes_revived_key` (the "second race" of Sweep.lean) and
       `C09_layerB_extension_race_loses_key` — a key that was NEVER expired, whose time-to-live is being extended, is
       removed by the sweeper and reads as absent long before its deadline: a FINDING, see there.
    6  concrete runs (non-vacuity): a TTL key read at its deadline exactly and one nanosecond later, with the sweeper
       interleaved; an upsert extending / removing the deadline; the deadline of a new incarnation.
-/
import CachedProofs.LayerB.Upsert
import CachedProofs.LayerB.Sweep
import CachedProofs.Properties.C09

namespace Cached
namespace B

/-! ## 0  vocabulary -/

/-- `is_alive`, spelled out: not soft-deleted, and the clock has not passed the deadline (if there is one) -/
theorem expB_alive_iff (e : Entry) (now : Nat) :
    e.alive now = true ↔ e.soft = false ∧ ∀ t, e.expiry = some t → now ≤ t := by
  unfold Entry.alive
  cases hs : e.soft <;> cases he : e.expiry <;> simp

/-- what a lookup of `k` answers in the shared state `g`: the value of the entry of `k` if there is one and it is
    alive at the clock of `g` -/
def expB_lookup (g : State) (k : Nat) : Option Nat :=
  match g.store.get? k with
  | some e => if e.alive g.now then some e.value else none
  | none => none

theorem expB_lookup_some {g : State} {k v : Nat} :
    expB_lookup g k = some v ↔ ∃ e, g.store.get? k = some e ∧ e.alive g.now = true ∧ e.value = v := by
  unfold expB_lookup
  cases hk : g.store.get? k with
  | none => simp
  | some e =>
    by_cases ha : e.alive g.now = true
    · simp [ha]
    · simp [ha]

theorem expB_lookup_congr {g g' : State} {k : Nat} (hs : g'.store.get? k = g.store.get? k) (hn : g'.now = g.now) :
    expB_lookup g' k = expB_lookup g k := by
  unfold expB_lookup; rw [hs, hn]

theorem expB_reach_run {cfg : Cfg} {now : Nat} {seeds : List Nat} {clients : Nat} {b0 b : BState}
    {h : List (BState × Act)} (hr : Reach cfg now seeds clients b0) (hrun : RunH b0 h b) :
    Reach cfg now seeds clients b := by
  induction hrun with
  | nil => exact hr
  | step _ hs ih => exact .step ih hs

/-! ## 1  never served -/

/-- **C09 (6): never served.**  Every lookup action that FINDS a value — `store.get` of a `get`, of a `get_ref`, of a
    key of a multi-key read, moving on to the corresponding `pool.add` position carrying the value `v` — found, in the
    very state in which it ran, an entry of THAT key which is not soft-deleted, whose deadline (if it has one) the
    clock of that state had not passed (`now ≤ deadline`), and whose value is `v`.  Whether or not the sweeper has run,
    is running, or holds the shard's lock plays no role: the lookup looks at the stored deadline. -/
theorem C09_layerB_never_served {b b' : BState} {i : Nat} {o o' : Oracle} (h : stepB b (.client i) o = .ok (b', o')) :
    (∀ k k' v, b.cl[i]? = some (.getStore k) → b'.cl[i]? = some (.getPool k' v) →
      k' = k ∧ ∃ e, b.g.store.get? k = some e ∧ e.alive b.g.now = true ∧ e.value = v ∧ e.soft = false ∧
        ∀ t, e.expiry = some t → b.g.now ≤ t) ∧
    (∀ k k' v, b.cl[i]? = some (.refStore k) → b'.cl[i]? = some (.refPool k' v) →
      k' = k ∧ ∃ e, b.g.store.get? k = some e ∧ e.alive b.g.now = true ∧ e.value = v ∧ e.soft = false ∧
        ∀ t, e.expiry = some t → b.g.now ≤ t) ∧
    (∀ k ks acc iter k' v ks' acc' iter', b.cl[i]? = some (.mgetStore k ks acc iter) →
      b'.cl[i]? = some (.mgetPool k' v ks' acc' iter') →
      k' = k ∧ ks' = ks ∧ acc' = acc ∧ iter' = iter ∧
      ∃ e, b.g.store.get? k = some e ∧ e.alive b.g.now = true ∧ e.value = v ∧ e.soft = false ∧
        ∀ t, e.expiry = some t → b.g.now ≤ t) := by
  rw [upsB_stepB_client] at h
  refine ⟨?_, ?_, ?_⟩
  · intro k k' v hpc hpc'
    have hlt := upsB_lt hpc
    rcases (C02_layerB_get_store hpc h).1 with ⟨e, he, ha, hcl, _⟩ | ⟨_, hcl, _⟩
    · rw [hcl, List.getElem?_set_self hlt] at hpc'
      cases hpc'
      exact ⟨rfl, e, he, ha, rfl, ((expB_alive_iff e _).mp ha).1, ((expB_alive_iff e _).mp ha).2⟩
    · rw [hcl, List.getElem?_set_self hlt] at hpc'; cases hpc'
  · intro k k' v hpc hpc'
    have hlt := upsB_lt hpc
    rcases (C02_layerB_ref_store hpc h).1 with ⟨e, he, ha, hcl, _⟩ | ⟨_, hcl, _⟩
    · rw [hcl, List.getElem?_set_self hlt] at hpc'
      cases hpc'
      exact ⟨rfl, e, he, ha, rfl, ((expB_alive_iff e _).mp ha).1, ((expB_alive_iff e _).mp ha).2⟩
    · rw [hcl, List.getElem?_set_self hlt] at hpc'; cases hpc'
  · intro k ks acc iter k' v ks' acc' iter' hpc hpc'
    have hlt := upsB_lt hpc
    rcases (C02_layerB_mget_store hpc h).1 with ⟨e, he, ha, hcl, _⟩ | ⟨_, rfl⟩
    · rw [hcl, List.getElem?_set_self hlt] at hpc'
      cases hpc'
      exact ⟨rfl, rfl, rfl, rfl, e, he, ha, rfl, ((expB_alive_iff e _).mp ha).1, ((expB_alive_iff e _).mp ha).2⟩
    · exfalso
      rcases mgetNext_spec { b with g := { b.g with stats := { b.g.stats with misses := b.g.stats.misses + 1 } } } i ks
        (acc ++ [none]) iter with ⟨out, e⟩ | ⟨k2, rest, _, _, e⟩
      · rw [e] at hpc'
        simp only [finishCall, List.getElem?_set_self hlt] at hpc'
        cases hpc'
      · rw [e] at hpc'
        simp only [setClient, List.getElem?_set_self hlt] at hpc'
        cases hpc'

/-- … hence: **once the clock is past the stored deadline every lookup action of the key is a miss** — the `get` /
    `get_ref` returns `None` in that very action, the multi-key read records `None` for the key — although the entry
    is still physically present (the sweeper has not removed it). -/
theorem C09_layerB_expired_is_miss {b b' : BState} {i k : Nat} {o o' : Oracle} {e : Entry} {t : Nat}
    (hk : b.g.store.get? k = some e) (he : e.expiry = some t) (hnow : b.g.now > t)
    (h : stepB b (.client i) o = .ok (b', o')) :
    (b.cl[i]? = some (.getStore k) →
      b'.cl = b.cl.set i .idle ∧ b'.res = b.res.set i (.value none :: b.res.getD i []) ∧ b'.g.store = b.g.store) ∧
    (b.cl[i]? = some (.refStore k) →
      b'.cl = b.cl.set i .idle ∧ b'.res = b.res.set i (.value none :: b.res.getD i []) ∧ b'.g.store = b.g.store) ∧
    (∀ ks acc iter, b.cl[i]? = some (.mgetStore k ks acc iter) →
      b' = mgetNext { b with g := { b.g with stats := { b.g.stats with misses := b.g.stats.misses + 1 } } } i ks
             (acc ++ [none]) iter ∧ b'.g.store = b.g.store) := by
  rw [upsB_stepB_client] at h
  have hdead : e.alive b.g.now = false := by
    cases hd : e.alive b.g.now with
    | false => rfl
    | true => have := ((expB_alive_iff e _).mp hd).2 t he; omega
  refine ⟨?_, ?_, ?_⟩
  · intro hpc
    obtain ⟨hc, hst, _⟩ := C02_layerB_get_store hpc h
    rcases hc with ⟨e', he', ha, _⟩ | ⟨_, h1, h2⟩
    · rw [hk] at he'; cases he'; rw [hdead] at ha; cases ha
    · exact ⟨h1, h2, hst⟩
  · intro hpc
    obtain ⟨hc, hst, _⟩ := C02_layerB_ref_store hpc h
    rcases hc with ⟨e', he', ha, _⟩ | ⟨_, h1, h2, _⟩
    · rw [hk] at he'; cases he'; rw [hdead] at ha; cases ha
    · exact ⟨h1, h2, hst⟩
  · intro ks acc iter hpc
    obtain ⟨hc, hst, _⟩ := C02_layerB_mget_store hpc h
    rcases hc with ⟨e', he', ha, _⟩ | ⟨_, h1⟩
    · rw [hk] at he'; cases he'; rw [hdead] at ha; cases ha
    · exact ⟨h1, hst⟩

/-- … and for the whole `get(k)` call, whatever the other threads do between its two actions
    (`C02_layerB_read_current`): the value finally returned is the value of an entry of `k` that was not deleted and
    whose deadline had not passed AT THE LOOKUP. -/
theorem C09_layerB_never_served_call {b0 b1 b2 b3 : BState} {i k : Nat} {o0 o1 o2 o3 : Oracle}
    (hpc : b0.cl[i]? = some (.getStore k)) (hget : stepB b0 (.client i) o0 = .ok (b1, o1))
    (hsame : b2.cl[i]? = b1.cl[i]?) (hpool : stepB b2 (.client i) o2 = .ok (b3, o3))
    (hbusy : b1.cl[i]? ≠ some .idle) :
    ∃ e, b0.g.store.get? k = some e ∧ e.soft = false ∧ (∀ t, e.expiry = some t → b0.g.now ≤ t) ∧
      b3.res = b2.res.set i (.value (some e.value) :: b2.res.getD i []) := by
  obtain ⟨e, he, ha, hres⟩ := C02_layerB_read_current hpc hget hsame hpool hbusy
  exact ⟨e, he, ((expB_alive_iff e _).mp ha).1, ((expB_alive_iff e _).mp ha).2, hres⟩

/-- … and for one key of a multi-key read (`C02_layerB_mread_current`): the value recorded for `k` is the value of an
    entry of `k` that was not deleted and whose deadline had not passed at THAT KEY's lookup action. -/
theorem C09_layerB_never_served_mget_call {b0 b1 b2 b3 : BState} {i k : Nat} {ks : List Nat}
    {acc : List (Option Nat)} {iter : Bool} {o0 o1 o2 o3 : Oracle}
    (hpc : b0.cl[i]? = some (.mgetStore k ks acc iter)) (hget : stepB b0 (.client i) o0 = .ok (b1, o1))
    (hsame : b2.cl[i]? = b1.cl[i]?) (hpool : stepB b2 (.client i) o2 = .ok (b3, o3))
    (hhit : ∃ v, b1.cl[i]? = some (.mgetPool k v ks acc iter)) :
    ∃ e g1, b0.g.store.get? k = some e ∧ e.soft = false ∧ (∀ t, e.expiry = some t → b0.g.now ≤ t) ∧
      b3 = mgetNext { b2 with g := g1 } i ks (acc ++ [some e.value]) iter := by
  obtain ⟨e, g1, he, ha, _, _, hb3⟩ := C02_layerB_mread_current hpc hget hsame hpool hhit
  exact ⟨e, g1, he, ((expB_alive_iff e _).mp ha).1, ((expB_alive_iff e _).mp ha).2, hb3⟩

/-! ## 2  not hidden -/

/-- **C09 (7): not hidden.**  If, in the state in which a lookup action of `k` runs, the entry of `k` is physically
    present, not soft-deleted, and has no deadline or one the clock has not passed (`now ≤ deadline`: the deadline
    itself still counts), then the lookup is enabled and FINDS the entry's value — never a miss — whether or not the
    sweeper is in the middle of a sweep (even of this key's shard, even of this very entry). -/
theorem C09_layerB_not_hidden {b : BState} {i k : Nat} {e : Entry} (o : Oracle) (hk : b.g.store.get? k = some e)
    (hs : e.soft = false) (hlive : e.expiry = none ∨ ∃ t, e.expiry = some t ∧ b.g.now ≤ t) :
    (b.cl[i]? = some (.getStore k) →
      ∃ b', stepB b (.client i) o = .ok (b', o) ∧ b'.cl[i]? = some (.getPool k e.value) ∧ b'.g.store = b.g.store) ∧
    (b.cl[i]? = some (.refStore k) →
      ∃ b', stepB b (.client i) o = .ok (b', o) ∧ b'.cl[i]? = some (.refPool k e.value) ∧ b'.g.store = b.g.store) ∧
    (∀ ks acc iter, b.cl[i]? = some (.mgetStore k ks acc iter) →
      ∃ b', stepB b (.client i) o = .ok (b', o) ∧ b'.cl[i]? = some (.mgetPool k e.value ks acc iter) ∧
        b'.g.store = b.g.store) := by
  have halive : e.alive b.g.now = true := by
    rw [expB_alive_iff]
    refine ⟨hs, fun t ht => ?_⟩
    rcases hlive with h | ⟨t', h, hle⟩
    · rw [h] at ht; cases ht
    · rw [h] at ht; cases ht; exact hle
  refine ⟨?_, ?_, ?_⟩
  · intro hpc
    have hlt := upsB_lt hpc
    refine ⟨setClient { b with g := { b.g with stats := { b.g.stats with hits := b.g.stats.hits + 1 } } } i
      (.getPool k e.value), ?_, ?_, rfl⟩
    · simp only [stepB, clientAct, hpc, hk, halive, if_true]
    · simp only [setClient, List.getElem?_set_self hlt]
  · intro hpc
    have hlt := upsB_lt hpc
    refine ⟨setClient { b with g := { b.g with stats := { b.g.stats with hits := b.g.stats.hits + 1 } },
                               storeReaders := (i, storeShardOf b k) :: b.storeReaders } i
      (.refPool k e.value), ?_, ?_, rfl⟩
    · simp only [stepB, clientAct, hpc, hk, halive, if_true]
    · simp only [setClient, List.getElem?_set_self hlt]
  · intro ks acc iter hpc
    have hlt := upsB_lt hpc
    refine ⟨setClient { b with g := { b.g with stats := { b.g.stats with hits := b.g.stats.hits + 1 } } } i
      (.mgetPool k e.value ks acc iter), ?_, ?_, rfl⟩
    · simp only [stepB, clientAct, hpc, hk, halive, if_true]
    · simp only [setClient, List.getElem?_set_self hlt]

/-- both directions in one: a lookup action of `k` moves on to `pool.add` with `v` iff `expB_lookup` of the state it
    ran in is `some v` (stated for `get`) -/
theorem C09_layerB_lookup_iff {b b' : BState} {i k v : Nat} {o o' : Oracle} (hpc : b.cl[i]? = some (.getStore k))
    (h : stepB b (.client i) o = .ok (b', o')) :
    b'.cl[i]? = some (.getPool k v) ↔ expB_lookup b.g k = some v := by
  constructor
  · intro hpc'
    obtain ⟨_, e, he, ha, hv, _⟩ := (C09_layerB_never_served h).1 k k v hpc hpc'
    exact expB_lookup_some.mpr ⟨e, he, ha, hv⟩
  · intro hl
    obtain ⟨e, he, ha, rfl⟩ := expB_lookup_some.mp hl
    obtain ⟨hs, hx⟩ := (expB_alive_iff e _).mp ha
    have hlive : e.expiry = none ∨ ∃ t, e.expiry = some t ∧ b.g.now ≤ t := by
      cases hx' : e.expiry with
      | none => exact Or.inl rfl
      | some t => exact Or.inr ⟨t, rfl, hx t hx'⟩
    obtain ⟨b1, hb1, hpc1, _⟩ := (C09_layerB_not_hidden o he hs hlive).1 hpc
    rw [hb1] at h
    simp only [Except.ok.injEq, Prod.mk.injEq] at h
    rw [← h.1]; exact hpc1

/-! ## 3  the deadline moves only by `upsert.update`; a new incarnation gets it at `store.put` -/

/-- **C09 (8).**  For ANY action of ANY thread, in a state satisfying `WAbsent` (every reachable state does), with `e'`
    the entry `k` holds AFTER the action:
    * if `k` held an entry `e` before, `e'` is the same incarnation (same id), and its deadline differs from `e`'s only
      if the action is the `upsert.update` action of a `put_or_update` of `k`, and then it is exactly the requested
      one: none (`remove_time_to_live`), or `now + ttl` with `now` the clock OF THAT ACTION (not of the call's start,
      not of the later index update), or the old one;
    * if `k` held nothing before, the action is the worker's `store.put` of a put of `k`, and the new incarnation's
      deadline is `now + ttl` with `now` the clock of THAT `store.put` ACTION — the model (as `CommandExecutor::put_with_ttl`)
      computes it there: not when the client called, not when the worker received the command — or none for a put
      without time-to-live.
    No other action (sweeper, clock, worker's other actions, index actions, reads) moves a stored deadline. -/
theorem C09_layerB_deadline_moves_only_by_upsert_or_put {b b' : BState} {a : Act} {o o' : Oracle} {k : Nat}
    {e' : Entry} (hi : WAbsent b) (h : stepB b a o = .ok (b', o')) (hk' : b'.g.store.get? k = some e') :
    (∀ e, b.g.store.get? k = some e →
      e'.id = e.id ∧
      (e'.expiry ≠ e.expiry →
        ∃ i v w ttl rm, a = .client i ∧ b.cl[i]? = some (.upUpdate k v w ttl rm) ∧
          e'.expiry = upsB_deadline b.g.now ttl rm e.expiry ∧
          (∀ t, ttl = some t → rm = false → addTime b.g.now t = some (b.g.now + t)))) ∧
    (b.g.store.get? k = none →
      a = .worker ∧ ∃ c, b.w = .storePut c ∧ c.k = k ∧ e'.id = c.id ∧ e'.value = c.v ∧ e'.soft = false ∧
        e'.expiry = c.ttl.map (fun t => b.g.now + t) ∧
        (∀ t, c.ttl = some t → addTime b.g.now t = some (b.g.now + t))) := by
  constructor
  · intro e hk
    refine ⟨C07_layerB_id_never_replaced hi h hk hk', fun hne => ?_⟩
    obtain ⟨_, _, i, v, w, ttl, rm, ha, hpc, _, hx, hov⟩ :=
      C08_layerB_only_upsert_changes_value_or_expiry hi h hk hk' (Or.inr hne)
    exact ⟨i, v, w, ttl, rm, ha, hpc, hx, hov⟩
  · intro hk
    obtain ⟨ha, c, exp, hw, hck, hx, rfl⟩ := C07_layerB_only_worker_creates h hk hk'
    refine ⟨ha, c, hw, hck, rfl, rfl, rfl, ?_⟩
    cases ht : c.ttl with
    | none =>
      rw [ht] at hx
      simp only [putExpiry, Option.some.injEq] at hx
      exact ⟨by simp [← hx], fun t h => by cases h⟩
    | some t =>
      rw [ht] at hx
      simp only [putExpiry] at hx
      cases hadd : addTime b.g.now t with
      | none => rw [hadd] at hx; cases hx
      | some x =>
        rw [hadd] at hx
        simp only [Option.map_some, Option.some.injEq] at hx
        have hx' := addTime_eq_some hadd
        subst hx'
        refine ⟨by simp [← hx], fun t' h => ?_⟩
        cases h; exact hadd

/-- … along runs: between two states of any run from a reachable state, the deadline stored for the same (key, id)
    differs only if some client performed the `upsert.update` of a `put_or_update` of that key in between. -/
theorem C09_layerB_deadline_moves_only_by_upsert_run {cfg : Cfg} {now : Nat} {seeds : List Nat} {clients : Nat}
    {b0 b : BState} {h : List (BState × Act)} (hr : Reach cfg now seeds clients b0) (hrun : RunH b0 h b) {k : Nat}
    {e0 e : Entry} (hk0 : b0.g.store.get? k = some e0) (hk : b.g.store.get? k = some e) (hid : e.id = e0.id)
    (hne : e.expiry ≠ e0.expiry) :
    ∃ p ∈ h, ∃ i v w ttl rm e1, p.2 = .client i ∧ p.1.cl[i]? = some (.upUpdate k v w ttl rm) ∧
      p.1.g.store.get? k = some e1 :=
  C08_layerB_only_upsert_changes_value_or_expiry_run hr hrun hk0 hk hid (Or.inr hne)

/-! ## 4  keys without a time-to-live never expire; the clock never touches the store -/

/-- the clock action, exactly: only `now` moves -/
theorem C09_layerB_advance_keeps_store {b b' : BState} {d : Nat} {o o' : Oracle}
    (h : stepB b (.advance d) o = .ok (b', o')) :
    b' = { b with g := { b.g with now := b.g.now + d } } ∧ o' = o ∧ b'.g.store = b.g.store ∧ b'.g.ttl = b.g.ttl ∧
    b'.g.adm = b.g.adm ∧ b'.g.now = b.g.now + d := by
  simp only [stepB, Except.ok.injEq, Prod.mk.injEq] at h
  obtain ⟨rfl, rfl⟩ := h
  exact ⟨rfl, rfl, rfl, rfl, rfl, rfl⟩

/-- **C09 (9).**  An entry without deadline that is not soft-deleted is alive at EVERY clock value; so in whatever
    state it is stored — however far the clock has moved — every lookup action of its key finds its value. -/
theorem C09_layerB_no_ttl_never_expires {b : BState} {i k : Nat} {e : Entry} (o : Oracle)
    (hk : b.g.store.get? k = some e) (he : e.expiry = none) (hs : e.soft = false) :
    (∀ now, e.alive now = true) ∧
    (∀ d, expB_lookup { b.g with now := b.g.now + d } k = some e.value) ∧
    (b.cl[i]? = some (.getStore k) →
      ∃ b', stepB b (.client i) o = .ok (b', o) ∧ b'.cl[i]? = some (.getPool k e.value)) := by
  have hal : ∀ now, e.alive now = true := fun now => C09_no_ttl_never_expires e he hs now
  refine ⟨hal, fun d => ?_, fun hpc => ?_⟩
  · exact expB_lookup_some.mpr ⟨e, hk, hal _, rfl⟩
  · obtain ⟨b', h1, h2, _⟩ := (C09_layerB_not_hidden (i := i) o hk hs (Or.inl he)).1 hpc
    exact ⟨b', h1, h2⟩

/-- … along runs: a key stored without deadline under id `id`, still stored under that id and not soft-deleted at the
    end of ANY run (any number of clock moves, sweeps, other threads' actions) in which no `put_or_update` of the key
    did its `upsert.update`, still has no deadline, is alive, and is found by a lookup — whatever the clock shows. -/
theorem C09_layerB_no_ttl_never_expires_run {cfg : Cfg} {now : Nat} {seeds : List Nat} {clients : Nat}
    {b0 b : BState} {h : List (BState × Act)} (hr : Reach cfg now seeds clients b0) (hrun : RunH b0 h b) {k : Nat}
    {e0 e : Entry} (hk0 : b0.g.store.get? k = some e0) (he0 : e0.expiry = none) (hk : b.g.store.get? k = some e)
    (hid : e.id = e0.id) (hs : e.soft = false)
    (hno : ¬ ∃ p ∈ h, ∃ i v w ttl rm e1, p.2 = .client i ∧ p.1.cl[i]? = some (.upUpdate k v w ttl rm) ∧
      p.1.g.store.get? k = some e1) :
    e.expiry = none ∧ e.alive b.g.now = true ∧ expB_lookup b.g k = some e.value := by
  have he : e.expiry = none := by
    apply Classical.byContradiction
    intro hne
    exact hno (C09_layerB_deadline_moves_only_by_upsert_run hr hrun hk0 hk hid (by rw [he0]; exact hne))
  have hal := C09_no_ttl_never_expires e he hs b.g.now
  exact ⟨he, hal, expB_lookup_some.mpr ⟨e, hk, hal, rfl⟩⟩

/-! ## 5  the sweeper and the reads -/

/-- **C09 (10): what a sweeper action can do to the outcome of a lookup — the TRUE form.**  A sweeper action never
    moves the clock, and for every key `k` it leaves the answer of a lookup of `k` (`expB_lookup`) as it is, with ONE
    exception: the `store.remove` that ends the eviction of the id of `k`'s entry (an eviction the sweeper started when
    it visited that id and found the deadline THE INDEX held for it passed) removes the entry although it is alive
    now.  Then the sweeper stood at `store.remove` of exactly this id, charged for exactly this key; the time it
    compared with is not ahead of the clock; the id's index entry is gone; afterwards the key is absent.
    So: a sweeper action never turns a miss into a hit, never changes the value found, never hides a key whose id it is
    not evicting — but it is NOT true that it never hides an alive key: `C09_layerB_sweep_removes_revived_key` and
    `C09_layerB_extension_race_loses_key` below are reachable states in which the exception happens. -/
theorem C09_layerB_sweep_irrelevant_for_reads {cfg : Cfg} {now0 : Nat} {seeds : List Nat} {clients : Nat}
    {b b' : BState} {v : Option Nat} {o o' : Oracle} (hr : Reach cfg now0 seeds clients b)
    (h : stepB b (.sweeper v) o = .ok (b', o')) (k : Nat) :
    b'.g.now = b.g.now ∧
    (expB_lookup b'.g k = expB_lookup b.g k ∨
     ∃ now sh rest e wk, b.sw = .store now sh rest e.id wk ∧ wk.key = k ∧ now ≤ b.g.now ∧
       b.g.store.get? k = some e ∧ e.alive b.g.now = true ∧ b.g.ttl.get? (sh, e.id) = none ∧
       b'.g.store.get? k = none ∧ expB_lookup b.g k = some e.value ∧ expB_lookup b'.g k = none) := by
  have hnow : b'.g.now = b.g.now := swB_strans_now (sweeperAct_trans (swB_sweeper_step h))
  refine ⟨hnow, ?_⟩
  by_cases hst : b'.g.store.get? k = b.g.store.get? k
  · exact Or.inl (expB_lookup_congr hst hnow)
  · cases hk : b.g.store.get? k with
    | none =>
      exfalso
      cases hk' : b'.g.store.get? k with
      | none => rw [hk, hk'] at hst; exact hst rfl
      | some e' =>
        obtain ⟨ha, _⟩ := C07_layerB_only_worker_creates h hk hk'
        cases ha
    | some e =>
      have hne : b'.g.store.get? k ≠ some e := by rw [hk] at hst; exact hst
      obtain ⟨now, sh, rest, id, wk, hs, hkey, hle, hgone, _, hnone⟩ :=
        C10_layerB_never_removes_live_partial hr h hk hne
      obtain ⟨now', sh', rest', wk', hs', _, _⟩ :=
        C10_layerB_never_removes_live hr h hk rfl (fun en' hen' => by rw [hnone] at hen'; cases hen')
      rw [hs] at hs'
      simp only [SPc.store.injEq] at hs'
      obtain ⟨_, _, _, hid, _⟩ := hs'
      subst hid
      have hl' : expB_lookup b'.g k = none := by simp [expB_lookup, hnone]
      cases ha : e.alive b.g.now with
      | false =>
        left
        rw [hl']
        simp [expB_lookup, hk, ha]
      | true =>
        right
        exact ⟨now, sh, rest, e, wk, hs, hkey, hle, rfl, ha, hgone, hnone,
          expB_lookup_some.mpr ⟨e, hk, ha, rfl⟩, hl'⟩

/-- … in particular: a sweeper action never turns a miss into a hit and never changes the value a lookup finds -/
theorem C09_layerB_sweep_never_unhides {cfg : Cfg} {now0 : Nat} {seeds : List Nat} {clients : Nat}
    {b b' : BState} {v : Option Nat} {o o' : Oracle} (hr : Reach cfg now0 seeds clients b)
    (h : stepB b (.sweeper v) o = .ok (b', o')) (k x : Nat) (hl : expB_lookup b'.g k = some x) :
    expB_lookup b.g k = some x := by
  rcases (C09_layerB_sweep_irrelevant_for_reads hr h k).2 with heq | ⟨_, _, _, _, _, _, _, _, _, _, _, _, _, hn⟩
  · rw [← heq]; exact hl
  · rw [hn] at hl; cases hl

/-- … and a key whose entry's id the sweeper is NOT just removing keeps its answer -/
theorem C09_layerB_sweep_other_ids {cfg : Cfg} {now0 : Nat} {seeds : List Nat} {clients : Nat}
    {b b' : BState} {v : Option Nat} {o o' : Oracle} (hr : Reach cfg now0 seeds clients b)
    (h : stepB b (.sweeper v) o = .ok (b', o')) (k : Nat)
    (hother : ∀ now sh rest id wk e, b.sw = .store now sh rest id wk → b.g.store.get? k = some e → e.id ≠ id) :
    expB_lookup b'.g k = expB_lookup b.g k := by
  rcases (C09_layerB_sweep_irrelevant_for_reads hr h k).2 with heq | ⟨now, sh, rest, e, wk, hs, _, _, hk, _⟩
  · exact heq
  · exact absurd rfl (hother now sh rest e.id wk e hs hk)

/-- the history holds the sweeper's visit of id `id` in the sweep of shard `sh` that read the time `now`: at that
    action the INDEX held the deadline `e` for `(sh, id)`, and `e < now ≤` the clock of that action -/
def expB_VisitedDue (h : List (BState × Act)) (now sh id : Nat) : Prop :=
  ∃ p ∈ h, ∃ rest e, p.2 = .sweeper (some id) ∧ p.1.sw = .entry now sh rest ∧ p.1.g.ttl.get? (sh, id) = some e ∧
    e < now ∧ now ≤ p.1.g.now

theorem expB_VisitedDue.mono {h : List (BState × Act)} {now sh id : Nat} (x : BState × Act)
    (hh : expB_VisitedDue h now sh id) : expB_VisitedDue (x :: h) now sh id := by
  obtain ⟨p, hp, rest⟩ := hh
  exact ⟨p, List.mem_cons_of_mem _ hp, rest⟩

/-- while the sweeper carries out an eviction, the history holds the visit that started it -/
def expB_SwInv (h : List (BState × Act)) : SPc → Prop
  | .kwRemove now sh _ id | .sub now sh _ id _ | .store now sh _ id _ => expB_VisitedDue h now sh id
  | _ => True

theorem expB_swInv_step {cfg : Cfg} {now0 : Nat} {seeds : List Nat} {clients : Nat} {H : List (BState × Act)}
    {b b' : BState} {a : Act} {o o' : Oracle} (hr : Reach cfg now0 seeds clients b) (hi : expB_SwInv H b.sw)
    (hs : stepB b a o = .ok (b', o')) : expB_SwInv ((b, a) :: H) b'.sw := by
  cases hsw' : b'.sw with
  | kwRemove now sh r id =>
    rcases C10_layerB_kwRemove_only_if_due hs hsw' with hsame | ⟨ha, rest, e, hsw, hf, hd, _, _⟩
    · rw [hsame] at hi; exact hi.mono _
    · refine ⟨(b, a), List.mem_cons_self, rest, e, ha, hsw, ?_, hd, ?_⟩
      · exact (C10_layerB_sweepInv hr).listed now sh rest (by rw [hsw]; rfl) id e (List.mem_of_find?_eq_some hf)
      · exact C10_layerB_sweep_clock hr now (by rw [hsw]; rfl)
  | sub now sh r id wk =>
    rcases C10_layerB_sub_only_after_kwRemove hs hsw' with hsame | ⟨_, hsw, _⟩
    · rw [hsame] at hi; exact hi.mono _
    · rw [hsw] at hi; exact hi.mono _
  | store now sh r id wk =>
    rcases C10_layerB_store_only_after_sub hs hsw' with hsame | ⟨_, hsw⟩
    · rw [hsame] at hi; exact hi.mono _
    · rw [hsw] at hi; exact hi.mono _
  | _ => trivial

theorem expB_swInv_run {cfg : Cfg} {now0 : Nat} {seeds : List Nat} {clients : Nat} {b0 b : BState}
    {h : List (BState × Act)} (hr : Reach cfg now0 seeds clients b0) (hrun : RunH b0 h b)
    (h0 : expB_SwInv [] b0.sw) : expB_SwInv h b.sw := by
  induction hrun with
  | nil => exact h0
  | step hrun1 hs ih => exact expB_swInv_step (expB_reach_run hr hrun1) ih hs

/-- **C09 (10), with the history.**  Along any run from a reachable state in which the sweeper is not in the middle of
    an eviction (e.g. the initial state): if a sweeper action changes the answer of a lookup of `k`, it is the
    `store.remove` of the eviction of the id of `k`'s (alive) entry, and the history holds the sweeper's VISIT of that
    id, at which the index held for it a deadline `e` that had passed: `e < now ≤ clock`.  The sweeper hides a key only
    if the deadline THE INDEX held for its id was due at the visit — the deadline the STORED entry carries now may be
    another one (moved by a `put_or_update` whose index update had not run yet, or ran later). -/
theorem C09_layerB_sweep_removes_only_visited_due {cfg : Cfg} {now0 : Nat} {seeds : List Nat} {clients : Nat}
    {b0 b b' : BState} {h : List (BState × Act)} {v : Option Nat} {o o' : Oracle}
    (hr : Reach cfg now0 seeds clients b0) (hrun : RunH b0 h b) (h0 : expB_SwInv [] b0.sw)
    (hs : stepB b (.sweeper v) o = .ok (b', o')) {k : Nat} (hch : expB_lookup b'.g k ≠ expB_lookup b.g k) :
    ∃ now sh rest e wk, b.sw = .store now sh rest e.id wk ∧ wk.key = k ∧ b.g.store.get? k = some e ∧
      e.alive b.g.now = true ∧ b'.g.store.get? k = none ∧ expB_VisitedDue h now sh e.id := by
  rcases (C09_layerB_sweep_irrelevant_for_reads (expB_reach_run hr hrun) hs k).2 with heq |
    ⟨now, sh, rest, e, wk, hsw, hkey, _, hk, ha, _, hnone, _, _⟩
  · exact absurd heq hch
  · have hinv := expB_swInv_run hr hrun h0
    rw [hsw] at hinv
    exact ⟨now, sh, rest, e, wk, hsw, hkey, hk, ha, hnone, hinv⟩

/-! ## 6  concrete interleavings: non-vacuity, and the runs that refute the naive form of (10)

  Configuration `cfgEx` (Theorems.lean): weight limit 10, ONE expiry shard, two clients; `swB_at` (Sweep.lean) evaluates
  a predicate at the end of a run from the initial state. -/

/-- key 1 (value 100, id 1, weight 3) is put with time-to-live 5 at clock 0: deadline 5 -/
def expB_setup : List (Act × Oracle) := call 0 (.putW 1 100 3 (some 5)) 4 ++ workerN 7

theorem expB_reach_run' {l : List (Act × Oracle)} {b : BState} (h : runB (BState.init cfgEx 0 [1, 2, 3, 4] 2) l = .ok b) :
    Reach cfgEx 0 [1, 2, 3, 4] 2 b :=
  reach_runB (b := { BState.init cfgEx 0 [1, 2, 3, 4] 2 with storeShard := [] }) l (.init []) h

/-- **Read at the deadline exactly** (clock 5 = deadline 5), with the sweeper in the middle of the sweep of the key's
    shard (it holds the shard lock and has listed the entry): hypotheses of `C09_layerB_not_hidden` and of
    `C09_layerB_never_served`; the lookup is a hit. -/
example : swB_at (expB_setup ++ [(.advance 5, noO), (.sweeper none, noO)] ++ call 1 (.get 1) 1) (fun b =>
    (match b.cl[1]?, b.sw with
     | some (CPc.getStore k), .entry now sh rest => decide (k = 1 ∧ now = 5 ∧ sh = 0 ∧ rest = [(1, 5)])
     | _, _ => false) &&
    decide (b.g.now = 5 ∧ b.g.store.get? 1 = some ⟨100, 1, some 5, false⟩ ∧ b.ttlOwner = some 0 ∧
            expB_lookup b.g 1 = some 100) &&
    (match stepB b (.client 1) noO with
     | .ok (b', _) => (match b'.cl[1]? with | some (CPc.getPool k v) => decide (k = 1 ∧ v = 100) | _ => false)
     | _ => false)) = true := by decide

/-- **One nanosecond later** (clock 6 > deadline 5) the lookup is a miss although the entry is still physically
    present, still indexed and still charged — the sweeper has visited it at clock 5 and found it not due:
    hypotheses and conclusion of `C09_layerB_expired_is_miss`. -/
example : swB_at (expB_setup ++ [(.advance 5, noO), (.sweeper none, noO), (.sweeper (some 1), noO), (.advance 1, noO)] ++
      call 1 (.get 1) 1) (fun b =>
    (match b.cl[1]? with | some (CPc.getStore k) => decide (k = 1) | _ => false) &&
    decide (b.g.now = 6 ∧ b.g.store.get? 1 = some ⟨100, 1, some 5, false⟩ ∧ b.g.ttl = [((0, 1), 5)] ∧
            b.g.adm.kw.get? 1 = some ⟨1, 1, 3⟩ ∧ expB_lookup b.g 1 = none) &&
    (match stepB b (.client 1) noO with
     | .ok (b', _) =>
       (match b'.cl[1]?, b'.res[1]? with
        | some CPc.idle, some [Out.value r] => decide (r = none)
        | _, _ => false) && decide (b'.g.store.get? 1 = some ⟨100, 1, some 5, false⟩)
     | _ => false)) = true := by decide

/-- … and with the sweeper in the middle of the EVICTION of that entry (index entry and charge gone, the stored entry
    not yet removed): still a miss. -/
example : swB_at (expB_setup ++ [(.advance 6, noO), (.sweeper none, noO), (.sweeper (some 1), noO), (.sweeper none, noO)] ++
      call 1 (.get 1) 2) (fun b =>
    (match b.sw with | .sub now _ _ id _ => decide (now = 6 ∧ id = 1) | _ => false) &&
    decide (b.g.store.get? 1 = some ⟨100, 1, some 5, false⟩ ∧ b.g.ttl = [] ∧ b.g.adm.kw = []) &&
    (match b.res[1]? with | some [Out.value r] => decide (r = none) | _ => false)) = true := by decide

/-- **An upsert extending the deadline** (`C09_layerB_deadline_moves_only_by_upsert_or_put`, first clause): the clock
    moves between the call's first action and its `upsert.update`; the new deadline is `now + ttl` with the clock OF
    `upsert.update` (6 + 1000), the id is kept, the index still holds the old deadline. -/
example : swB_at (expB_setup ++ [(.advance 4, noO)] ++ call 0 (.upsert 1 none none (some 1000) false) 1 ++
      [(.advance 2, noO)]) (fun b =>
    (match b.cl[0]? with
     | some (CPc.upUpdate k v w ttl rm) => decide (k = 1 ∧ v = none ∧ w = none ∧ ttl = some 1000 ∧ rm = false)
     | _ => false) &&
    decide (b.g.now = 6 ∧ b.g.store.get? 1 = some ⟨100, 1, some 5, false⟩) &&
    (match stepB b (.client 0) noO with
     | .ok (b', _) => decide (b'.g.store.get? 1 = some ⟨100, 1, some 1006, false⟩ ∧ b'.g.ttl = [((0, 1), 5)])
     | _ => false)) = true := by decide

/-- … the whole extending call, then the clock far past the OLD deadline, a complete sweep of the shard, and a `get`:
    the key is found (value 100) at clock 104; the sweeper has compared with the NEW deadline 1004 -/
example : swB_at (expB_setup ++ [(.advance 4, noO)] ++ call 0 (.upsert 1 none none (some 1000) false) 5 ++
      [(.advance 100, noO), (.sweeper none, noO), (.sweeper (some 1), noO)] ++ call 1 (.get 1) 2 ++
      [(.client 1, { pool := [0] })]) (fun b =>
    decide (b.g.now = 104 ∧ b.g.store.get? 1 = some ⟨100, 1, some 1004, false⟩ ∧ b.g.ttl = [((0, 1), 1004)] ∧
            b.g.acks = [.accepted, .accepted]) &&
    (match b.sw, b.res[1]? with
     | .fin, some [Out.value r] => decide (r = some 100)
     | _, _ => false)) = true := by decide

/-- **An upsert removing the deadline** (with an explicit weight), then the clock a million units on, a sweep, and a
    lookup: the key has no deadline, no index entry, and is found: hypotheses of `C09_layerB_no_ttl_never_expires`. -/
example : swB_at (expB_setup ++ call 0 (.upsert 1 none (some 3) none true) 5 ++ workerN 2 ++
      [(.advance 1000000, noO), (.sweeper none, noO)] ++ call 1 (.get 1) 1) (fun b =>
    decide (b.g.now = 1000000 ∧ b.g.store.get? 1 = some ⟨100, 1, none, false⟩ ∧ b.g.ttl = [] ∧
            b.g.acks = [.accepted, .accepted] ∧ expB_lookup b.g 1 = some 100) &&
    (match b.cl[1]? with | some (CPc.getStore k) => decide (k = 1) | _ => false) &&
    (match stepB b (.client 1) noO with
     | .ok (b', _) => (match b'.cl[1]? with | some (CPc.getPool k v) => decide (k = 1 ∧ v = 100) | _ => false)
     | _ => false)) = true := by decide

/-- an executable check: the history holds no `upsert.update` action on key `k` -/
def expB_noUpdate (k : Nat) (h : List (BState × Act)) : Bool :=
  h.all (fun p => match p.2 with
    | .client i => (match p.1.cl[i]? with | some (.upUpdate k' _ _ _ _) => k' != k | _ => true)
    | _ => true)

theorem expB_noUpdate_spec {k : Nat} {h : List (BState × Act)} (hn : expB_noUpdate k h = true) :
    ¬ ∃ p ∈ h, ∃ i v w ttl rm e1, p.2 = .client i ∧ p.1.cl[i]? = some (.upUpdate k v w ttl rm) ∧
      p.1.g.store.get? k = some e1 := by
  rintro ⟨p, hp, i, v, w, ttl, rm, e1, ha, hpc, _⟩
  have := List.all_eq_true.mp hn p hp
  simp only [ha, hpc] at this
  simp at this

/-- key 1 (value 100, id 1, weight 3) stored WITHOUT time-to-live -/
def expB_b0 : BState :=
  match runB (BState.init cfgEx 0 [1, 2, 3, 4] 2) (call 0 (.putW 1 100 3 none) 4 ++ workerN 6) with
  | .ok b => b
  | .error _ => BState.init cfgEx 0 [] 0

/-- **Non-vacuity of `C09_layerB_no_ttl_never_expires_run`**: a run with a clock move of a million units, a sweep and
    a read — and no `put_or_update` — from a reachable state in which key 1 is stored without deadline. -/
theorem C09_layerB_no_ttl_run_witness :
    ∃ h b e0 e, Reach cfgEx 0 [1, 2, 3, 4] 2 expB_b0 ∧ RunH expB_b0 h b ∧ expB_b0.g.store.get? 1 = some e0 ∧
      e0.expiry = none ∧ b.g.store.get? 1 = some e ∧ e.id = e0.id ∧ e.soft = false ∧ b.g.now = 1000000 ∧
      ¬ ∃ p ∈ h, ∃ i v w ttl rm e1, p.2 = .client i ∧ p.1.cl[i]? = some (.upUpdate 1 v w ttl rm) ∧
        p.1.g.store.get? 1 = some e1 := by
  have hh : ∃ h b, histOf expB_b0 ([(.advance 1000000, noO), (.sweeper none, noO), (.sweeper none, noO)] ++
        call 1 (.get 1) 2) [] = .ok (h, b) ∧
      b.g.store.get? 1 = some ⟨100, 1, none, false⟩ ∧ b.g.now = 1000000 ∧ expB_noUpdate 1 h = true :=
    ⟨_, _, rfl, by decide, by decide, by decide⟩
  obtain ⟨h, b, hrun, hk, hnow, hno⟩ := hh
  exact ⟨h, b, ⟨100, 1, none, false⟩, _, expB_reach_run' (l := call 0 (.putW 1 100 3 none) 4 ++ workerN 6) rfl,
    runH_histOf _ (.nil _) hrun, by decide, rfl, hk, rfl, rfl, hnow, expB_noUpdate_spec hno⟩

/-- **The deadline of a new incarnation** (`C09_layerB_deadline_moves_only_by_upsert_or_put`, second clause):
    `put_with_weight_and_ttl(1, ttl 5)` is called at clock 0; the clock moves to 10 before the worker receives the
    command and to 30 before its `store.put`; the stored deadline is 30 + 5 — the clock of the `store.put` action. -/
example : swB_at (call 0 (.putW 1 100 3 (some 5)) 4 ++ [(.advance 10, noO)] ++ workerN 5 ++ [(.advance 20, noO)]) (fun b =>
    (match b.w with | .storePut c => decide (c.k = 1 ∧ c.ttl = some 5 ∧ c.id = 1) | _ => false) &&
    decide (b.g.now = 30 ∧ b.g.store.get? 1 = none) &&
    (match stepB b .worker noO with
     | .ok (b', _) => decide (b'.g.store.get? 1 = some ⟨100, 1, some 35, false⟩)
     | _ => false)) = true := by decide

/-! ### the naive form of (10) is FALSE: two reachable states in which a sweeper action hides an ALIVE key -/

/-- **The "second race" of Sweep.lean, as a statement about reads.**  Key 1 (deadline 5) EXPIRES (clock 10); the
    sweeper visits it, finds it due and starts the eviction; `put_or_update(1, ttl 1000)` — which updates the dead entry
    in place instead of acting as a put, `Cached.C08_counterexample_expired` — moves the stored deadline to 1010: the
    key reads as present again; the sweeper's `store.remove` then removes it (the id matches).  Before that sweeper
    action a lookup finds 100, after it nothing. -/
theorem C09_layerB_sweep_removes_revived_key :
    ∃ b b', Reach cfgEx 0 [1, 2, 3, 4] 2 b ∧ stepB b (.sweeper none) noO = .ok (b', noO) ∧
      b.g.store.get? 1 = some ⟨100, 1, some 1010, false⟩ ∧ b.g.now = 10 ∧
      expB_lookup b.g 1 = some 100 ∧ expB_lookup b'.g 1 = none ∧ b'.g.store.get? 1 = none := by
  have hrun : ∃ b, runB (BState.init cfgEx 0 [1, 2, 3, 4] 2) (expB_setup ++
        [(.advance 10, noO), (.sweeper none, noO), (.sweeper (some 1), noO)] ++
        call 0 (.upsert 1 none none (some 1000) false) 2 ++ [(.sweeper none, noO), (.sweeper none, noO)]) = .ok b ∧
      ∃ b', stepB b (.sweeper none) noO = .ok (b', noO) ∧
      b.g.store.get? 1 = some ⟨100, 1, some 1010, false⟩ ∧ b.g.now = 10 ∧
      expB_lookup b.g 1 = some 100 ∧ expB_lookup b'.g 1 = none ∧ b'.g.store.get? 1 = none := by
    refine ⟨_, rfl, _, rfl, ?_⟩
    decide
  obtain ⟨b, hr, b', hs, hrest⟩ := hrun
  exact ⟨b, b', expB_reach_run' hr, hs, hrest⟩

/-- the run of the finding below, up to the sweeper's `store.remove` -/
def expB_extensionRace : List (Act × Oracle) :=
  expB_setup ++ [(.advance 4, noO)] ++
  call 0 (.upsert 1 none none (some 1000) false) 2 ++     -- `upsert.update` at clock 4: stored deadline 5 → 1004
  [(.advance 6, noO),                                     -- the clock passes the OLD deadline: clock 10
   (.sweeper none, noO), (.sweeper (some 1), noO),        -- `sweep.begin`, visit of id 1: the INDEX still says 5: due
   (.sweeper none, noO), (.sweeper none, noO)]            -- `kw.remove`, `wu.sub`

/-- **FINDING — extending a time-to-live shortly before the old deadline can lose the key.**
    Key 1 has deadline 5.  At clock 4 — the key is alive — client 0 calls `put_or_update(1, time_to_live 1000)`; its
    `upsert.update` action writes the new deadline 1004 into the stored entry; the expiry index is brought up to date
    only by later actions of the same call (`ttl.update.remove`, `ttl.update.insert`).  Before they run the clock
    passes the OLD deadline (clock 10) and the sweeper sweeps the shard: at its visit the index still holds
    `(0, 1) ↦ 5`, which is due, so it evicts id 1 — index entry, charge, and (the id matches) the stored entry.
    The entry was alive AT EVERY MOMENT (stored deadline 5 until clock 4, 1004 from then on; `expB_lookup = some 100`
    right before the sweeper's `store.remove`), and after that action the key is physically gone: every read reports
    absent at clock 10, long before the deadline 1004 the caller asked for.  The call itself then completes its index
    update against the removed id and returns an Accepted acknowledgement; the index is left with an entry
    `(0, 1) ↦ 1004` for an id that no longer exists.
    This refutes, for interleavings, C09's "changing the time-to-live moves that deadline accordingly / a key is never
    hidden while the clock is before its deadline" (and the naive `sweep_irrelevant_for_reads`): the ticker trusts the
    deadline in its index and `delete_if_key_id_matches` checks the id only, not the stored value's current deadline.
    What remains true is `C09_layerB_sweep_removes_only_visited_due`. -/
theorem C09_layerB_extension_race_loses_key :
    ∃ b b', Reach cfgEx 0 [1, 2, 3, 4] 2 b ∧ stepB b (.sweeper none) noO = .ok (b', noO) ∧
      b.g.now = 10 ∧ b.g.store.get? 1 = some ⟨100, 1, some 1004, false⟩ ∧      -- alive: 10 ≤ 1004
      expB_lookup b.g 1 = some 100 ∧                                            -- a lookup finds it …
      b'.g.store.get? 1 = none ∧ expB_lookup b'.g 1 = none ∧ b'.g.now = 10 ∧    -- … and after the sweeper's action does not
      -- the rest of the two calls: the extension is acknowledged Accepted, a `get` returns `None`
      (match runB b' ([(.sweeper none, noO), (.client 0, noO), (.client 0, noO), (.client 0, noO)] ++ call 1 (.get 1) 2) with
       | .ok b2 =>
         decide (b2.g.now = 10 ∧ b2.g.store.get? 1 = none ∧ b2.g.acks = [.accepted, .accepted] ∧
                 b2.g.ttl = [((0, 1), 1004)] ∧ b2.g.adm.kw = [] ∧ b2.g.adm.used = 0) &&
         (match b2.res[0]?, b2.res[1]? with
          | some (Out.ack h st :: _), some [Out.value r] => decide (h = 1 ∧ st = .accepted ∧ r = none)
          | _, _ => false)
       | .error _ => false) = true := by
  have hrun : ∃ b, runB (BState.init cfgEx 0 [1, 2, 3, 4] 2) expB_extensionRace = .ok b ∧
      ∃ b', stepB b (.sweeper none) noO = .ok (b', noO) ∧
      b.g.now = 10 ∧ b.g.store.get? 1 = some ⟨100, 1, some 1004, false⟩ ∧ expB_lookup b.g 1 = some 100 ∧
      b'.g.store.get? 1 = none ∧ expB_lookup b'.g 1 = none ∧ b'.g.now = 10 ∧
      (match runB b' ([(.sweeper none, noO), (.client 0, noO), (.client 0, noO), (.client 0, noO)] ++ call 1 (.get 1) 2) with
       | .ok b2 =>
         decide (b2.g.now = 10 ∧ b2.g.store.get? 1 = none ∧ b2.g.acks = [.accepted, .accepted] ∧
                 b2.g.ttl = [((0, 1), 1004)] ∧ b2.g.adm.kw = [] ∧ b2.g.adm.used = 0) &&
         (match b2.res[0]?, b2.res[1]? with
          | some (Out.ack h st :: _), some [Out.value r] => decide (h = 1 ∧ st = .accepted ∧ r = none)
          | _, _ => false)
       | .error _ => false) = true := by
    refine ⟨_, rfl, _, rfl, ?_⟩
    decide
  obtain ⟨b, hr, b', hs, hrest⟩ := hrun
  exact ⟨b, b', expB_reach_run' hr, hs, hrest⟩

/-- the entry was alive at every state of that run in which it was stored: at no point did a lookup miss it before the
    sweeper's `store.remove` (checked after every prefix of the run from the moment the key is in) -/
example : (List.range (expB_extensionRace.length - expB_setup.length + 1)).all (fun n =>
    swB_at (expB_extensionRace.take (expB_setup.length + n)) (fun b => decide (expB_lookup b.g 1 = some 100))) = true := by
  decide

/-- **Non-vacuity of `C09_layerB_sweep_irrelevant_for_reads` (second disjunct) and of
    `C09_layerB_sweep_removes_only_visited_due`**: that run, as a history from the initial state; the last sweeper
    action changes the answer of a lookup of key 1. -/
theorem C09_layerB_sweep_visited_due_witness :
    ∃ h b b', RunH (BState.init cfgEx 0 [1, 2, 3, 4] 2) h b ∧
      Reach cfgEx 0 [1, 2, 3, 4] 2 (BState.init cfgEx 0 [1, 2, 3, 4] 2) ∧
      expB_SwInv [] (BState.init cfgEx 0 [1, 2, 3, 4] 2).sw ∧
      stepB b (.sweeper none) noO = .ok (b', noO) ∧ expB_lookup b'.g 1 ≠ expB_lookup b.g 1 := by
  have hh : ∃ h b, histOf (BState.init cfgEx 0 [1, 2, 3, 4] 2) expB_extensionRace [] = .ok (h, b) ∧
      ∃ b', stepB b (.sweeper none) noO = .ok (b', noO) ∧ expB_lookup b.g 1 = some 100 ∧ expB_lookup b'.g 1 = none :=
    ⟨_, _, rfl, _, rfl, by decide, by decide⟩
  obtain ⟨h, b, hrun, b', hs, h1, h2⟩ := hh
  refine ⟨h, b, b', runH_histOf _ (.nil _) hrun, expB_reach_run' (l := []) rfl, trivial, hs, ?_⟩
  rw [h1, h2]; exact fun e => by cases e

end B
end Cached
