/-
  C09 ("Expired values are never served") at ACTION granularity: the lookups `store.get` of `get`, `get_ref` and of
  every key of a multi-key read are single atomic actions of Layer B (CachedModel/LayerB.lean); everything else — the
  worker, the sweeper, the clock, other clients' `put_or_update`s — may run before and after them, in any order.

  Layout
    0  vocabulary: `expB_alive_iff`, `expB_lookup` (what a lookup of `k` answers in a given shared state)
    1  `C09_layerB_never_served` (+ `C09_layerB_expired_is_miss`, `C09_layerB_never_served_call`)
    2  `C09_layerB_not_hidden`
    3  `C09_layerB_deadline_moves_only_by_upsert_or_put` (+ `…_run`)
    4  `C09_layerB_no_ttl_never_expires` (+ `C09_layerB_advance_keeps_store`, `…_run`)
    5  `C09_layerB_sweep_irrelevant_for_reads` (one action, no history), `C09_layerB_sweep_removes_only_visited_due`
       (with the history: the index was due at the visit), and — what fix 36c87dc (the ticker re-validates against the
       store at `kw.remove`) buys —
         `C09_layerB_sweeper_never_hides_unexpired`   (the check: an entry that carries the id and has not expired by its
                                                       OWN deadline is left alone, the sweeper moves on),
         `C09_layerB_eviction_passed_check`           (an eviction under way has passed that check, any interleaving),
         `C09_layerB_sweep_hides_only_revived`        (the FULL form of (10): a sweeper action changes the answer of a
                                                       lookup only by removing an entry that HAD expired by its own
                                                       deadline at the check and was rewritten by a `put_or_update`
                                                       between the check and the removal — known finding D3),
         `C09_layerB_sweep_irrelevant_without_upsert` (hence the naive form, for a key nobody upserts).
    6  concrete runs (non-vacuity): a TTL key read at its deadline exactly and one nanosecond later, with the sweeper
       interleaved; an upsert extending / removing the deadline; the deadline of a new incarnation; and the runs of the
       two former races: `C09_layerB_sweep_keeps_revived_key` (revival BEFORE the check: kept),
       `C09_layerB_sweep_removes_revived_key` (revival between the check and `store.remove`: still lost, D3),
       `C09_layerB_extension_race_keeps_key` (D13 REPAIRED: the run of the former finding
       `C09_layerB_extension_race_loses_key` — a key that was never expired, whose time-to-live is being extended —
       now keeps the key).
-/
import CachedProofs.LayerB.Upsert
import CachedProofs.LayerB.Sweep
import CachedProofs.Properties.C09

namespace Cached
namespace B

/-! ## 0  vocabulary -/

/-- `is_alive`, spelled out: not soft-deleted, and the clock has not passed the deadline (if there is one) -/
theorem expB_alive_iff (e : Entry) (now : Nat) :
    e.alive now = true ↔ e.soft = false ∧ ∀ t, e.expiry = some t → now ≤ t := by
  unfold Entry.alive
  cases hs : e.soft <;> cases he : e.expiry <;> simp

/-- what a lookup of `k` answers in the shared state `g`: the value of the entry of `k` if there is one and it is
    alive at the clock of `g` -/
def expB_lookup (g : State) (k : Nat) : Option Nat :=
  match g.store.get? k with
  | some e => if e.alive g.now then some e.value else none
  | none => none

theorem expB_lookup_some {g : State} {k v : Nat} :
    expB_lookup g k = some v ↔ ∃ e, g.store.get? k = some e ∧ e.alive g.now = true ∧ e.value = v := by
  unfold expB_lookup
  cases hk : g.store.get? k with
  | none => simp
  | some e =>
    by_cases ha : e.alive g.now = true
    · simp [ha]
    · simp [ha]

theorem expB_lookup_congr {g g' : State} {k : Nat} (hs : g'.store.get? k = g.store.get? k) (hn : g'.now = g.now) :
    expB_lookup g' k = expB_lookup g k := by
  unfold expB_lookup; rw [hs, hn]

theorem expB_reach_run {cfg : Cfg} {now : Nat} {seeds : List Nat} {clients : Nat} {b0 b : BState}
    {h : List (BState × Act)} (hr : Reach cfg now seeds clients b0) (hrun : RunH b0 h b) :
    Reach cfg now seeds clients b := by
  induction hrun with
  | nil => exact hr
  | step _ hs ih => exact .step ih hs

/-! ## 1  never served -/

/-- **C09 (6): never served.**  Every lookup action that FINDS a value — `store.get` of a `get`, of a `get_ref`, of a
    key of a multi-key read, moving on to the corresponding `pool.add` position carrying the value `v` — found, in the
    very state in which it ran, an entry of THAT key which is not soft-deleted, whose deadline (if it has one) the
    clock of that state had not passed (`now ≤ deadline`), and whose value is `v`.  Whether or not the sweeper has run,
    is running, or holds the shard's lock plays no role: the lookup looks at the stored deadline. -/
theorem C09_layerB_never_served {b b' : BState} {i : Nat} {o o' : Oracle} (h : stepB b (.client i) o = .ok (b', o')) :
    (∀ k k' v, b.cl[i]? = some (.getStore k) → b'.cl[i]? = some (.getPool k' v) →
      k' = k ∧ ∃ e, b.g.store.get? k = some e ∧ e.alive b.g.now = true ∧ e.value = v ∧ e.soft = false ∧
        ∀ t, e.expiry = some t → b.g.now ≤ t) ∧
    (∀ k k' v, b.cl[i]? = some (.refStore k) → b'.cl[i]? = some (.refPool k' v) →
      k' = k ∧ ∃ e, b.g.store.get? k = some e ∧ e.alive b.g.now = true ∧ e.value = v ∧ e.soft = false ∧
        ∀ t, e.expiry = some t → b.g.now ≤ t) ∧
    (∀ k ks acc iter k' v ks' acc' iter', b.cl[i]? = some (.mgetStore k ks acc iter) →
      b'.cl[i]? = some (.mgetPool k' v ks' acc' iter') →
      k' = k ∧ ks' = ks ∧ acc' = acc ∧ iter' = iter ∧
      ∃ e, b.g.store.get? k = some e ∧ e.alive b.g.now = true ∧ e.value = v ∧ e.soft = false ∧
        ∀ t, e.expiry = some t → b.g.now ≤ t) := by
  rw [upsB_stepB_client] at h
  refine ⟨?_, ?_, ?_⟩
  · intro k k' v hpc hpc'
    have hlt := upsB_lt hpc
    rcases (C02_layerB_get_store hpc h).1 with ⟨e, he, ha, hcl, _⟩ | ⟨_, hcl, _⟩
    · rw [hcl, List.getElem?_set_self hlt] at hpc'
      cases hpc'
      exact ⟨rfl, e, he, ha, rfl, ((expB_alive_iff e _).mp ha).1, ((expB_alive_iff e _).mp ha).2⟩
    · rw [hcl, List.getElem?_set_self hlt] at hpc'; cases hpc'
  · intro k k' v hpc hpc'
    have hlt := upsB_lt hpc
    rcases (C02_layerB_ref_store hpc h).1 with ⟨e, he, ha, hcl, _⟩ | ⟨_, hcl, _⟩
    · rw [hcl, List.getElem?_set_self hlt] at hpc'
      cases hpc'
      exact ⟨rfl, e, he, ha, rfl, ((expB_alive_iff e _).mp ha).1, ((expB_alive_iff e _).mp ha).2⟩
    · rw [hcl, List.getElem?_set_self hlt] at hpc'; cases hpc'
  · intro k ks acc iter k' v ks' acc' iter' hpc hpc'
    have hlt := upsB_lt hpc
    rcases (C02_layerB_mget_store hpc h).1 with ⟨e, he, ha, hcl, _⟩ | ⟨_, rfl⟩
    · rw [hcl, List.getElem?_set_self hlt] at hpc'
      cases hpc'
      exact ⟨rfl, rfl, rfl, rfl, e, he, ha, rfl, ((expB_alive_iff e _).mp ha).1, ((expB_alive_iff e _).mp ha).2⟩
    · exfalso
      rcases mgetNext_spec { b with g := { b.g with stats := { b.g.stats with misses := b.g.stats.misses + 1 } } } i ks
        (acc ++ [none]) iter with ⟨out, e⟩ | ⟨k2, rest, _, e⟩
      · rw [e] at hpc'
        simp only [finishCall, List.getElem?_set_self hlt] at hpc'
        cases hpc'
      · rw [e] at hpc'
        simp only [setClient, List.getElem?_set_self hlt] at hpc'
        cases hpc'

/-- … hence: **once the clock is past the stored deadline every lookup action of the key is a miss** — the `get` /
    `get_ref` returns `None` in that very action, the multi-key read records `None` for the key — although the entry
    is still physically present (the sweeper has not removed it). -/
theorem C09_layerB_expired_is_miss {b b' : BState} {i k : Nat} {o o' : Oracle} {e : Entry} {t : Nat}
    (hk : b.g.store.get? k = some e) (he : e.expiry = some t) (hnow : b.g.now > t)
    (h : stepB b (.client i) o = .ok (b', o')) :
    (b.cl[i]? = some (.getStore k) →
      b'.cl = b.cl.set i .idle ∧ b'.res = b.res.set i (.value none :: b.res.getD i []) ∧ b'.g.store = b.g.store) ∧
    (b.cl[i]? = some (.refStore k) →
      b'.cl = b.cl.set i .idle ∧ b'.res = b.res.set i (.value none :: b.res.getD i []) ∧ b'.g.store = b.g.store) ∧
    (∀ ks acc iter, b.cl[i]? = some (.mgetStore k ks acc iter) →
      b' = mgetNext { b with g := { b.g with stats := { b.g.stats with misses := b.g.stats.misses + 1 } } } i ks
             (acc ++ [none]) iter ∧ b'.g.store = b.g.store) := by
  rw [upsB_stepB_client] at h
  have hdead : e.alive b.g.now = false := by
    cases hd : e.alive b.g.now with
    | false => rfl
    | true => have := ((expB_alive_iff e _).mp hd).2 t he; omega
  refine ⟨?_, ?_, ?_⟩
  · intro hpc
    obtain ⟨hc, hst, _⟩ := C02_layerB_get_store hpc h
    rcases hc with ⟨e', he', ha, _⟩ | ⟨_, h1, h2⟩
    · rw [hk] at he'; cases he'; rw [hdead] at ha; cases ha
    · exact ⟨h1, h2, hst⟩
  · intro hpc
    obtain ⟨hc, hst, _⟩ := C02_layerB_ref_store hpc h
    rcases hc with ⟨e', he', ha, _⟩ | ⟨_, h1, h2, _⟩
    · rw [hk] at he'; cases he'; rw [hdead] at ha; cases ha
    · exact ⟨h1, h2, hst⟩
  · intro ks acc iter hpc
    obtain ⟨hc, hst, _⟩ := C02_layerB_mget_store hpc h
    rcases hc with ⟨e', he', ha, _⟩ | ⟨_, h1⟩
    · rw [hk] at he'; cases he'; rw [hdead] at ha; cases ha
    · exact ⟨h1, hst⟩

/-- … and for the whole `get(k)` call, whatever the other threads do between its two actions
    (`C02_layerB_read_current`): the value finally returned is the value of an entry of `k` that was not deleted and
    whose deadline had not passed AT THE LOOKUP. -/
theorem C09_layerB_never_served_call {b0 b1 b2 b3 : BState} {i k : Nat} {o0 o1 o2 o3 : Oracle}
    (hpc : b0.cl[i]? = some (.getStore k)) (hget : stepB b0 (.client i) o0 = .ok (b1, o1))
    (hsame : b2.cl[i]? = b1.cl[i]?) (hpool : stepB b2 (.client i) o2 = .ok (b3, o3))
    (hbusy : b1.cl[i]? ≠ some .idle) :
    ∃ e, b0.g.store.get? k = some e ∧ e.soft = false ∧ (∀ t, e.expiry = some t → b0.g.now ≤ t) ∧
      b3.res = b2.res.set i (.value (some e.value) :: b2.res.getD i []) := by
  obtain ⟨e, he, ha, hres⟩ := C02_layerB_read_current hpc hget hsame hpool hbusy
  exact ⟨e, he, ((expB_alive_iff e _).mp ha).1, ((expB_alive_iff e _).mp ha).2, hres⟩

/-- … and for one key of a multi-key read (`C02_layerB_mread_current`): the value recorded for `k` is the value of an
    entry of `k` that was not deleted and whose deadline had not passed at THAT KEY's lookup action. -/
theorem C09_layerB_never_served_mget_call {b0 b1 b2 b3 : BState} {i k : Nat} {ks : List Nat}
    {acc : List (Option Nat)} {iter : Bool} {o0 o1 o2 o3 : Oracle}
    (hpc : b0.cl[i]? = some (.mgetStore k ks acc iter)) (hget : stepB b0 (.client i) o0 = .ok (b1, o1))
    (hsame : b2.cl[i]? = b1.cl[i]?) (hpool : stepB b2 (.client i) o2 = .ok (b3, o3))
    (hhit : ∃ v, b1.cl[i]? = some (.mgetPool k v ks acc iter)) :
    ∃ e g1, b0.g.store.get? k = some e ∧ e.soft = false ∧ (∀ t, e.expiry = some t → b0.g.now ≤ t) ∧
      b3 = mgetNext { b2 with g := g1 } i ks (acc ++ [some e.value]) iter := by
  obtain ⟨e, g1, he, ha, _, _, hb3⟩ := C02_layerB_mread_current hpc hget hsame hpool hhit
  exact ⟨e, g1, he, ((expB_alive_iff e _).mp ha).1, ((expB_alive_iff e _).mp ha).2, hb3⟩

/-! ## 2  not hidden -/

/-- **C09 (7): not hidden.**  If, in the state in which a lookup action of `k` runs, the entry of `k` is physically
    present, not soft-deleted, and has no deadline or one the clock has not passed (`now ≤ deadline`: the deadline
    itself still counts), then the lookup is enabled and FINDS the entry's value — never a miss — whether or not the
    sweeper is in the middle of a sweep (even of this key's shard, even of this very entry). -/
theorem C09_layerB_not_hidden {b : BState} {i k : Nat} {e : Entry} (o : Oracle) (hk : b.g.store.get? k = some e)
    (hs : e.soft = false) (hlive : e.expiry = none ∨ ∃ t, e.expiry = some t ∧ b.g.now ≤ t) :
    (b.cl[i]? = some (.getStore k) →
      ∃ b', stepB b (.client i) o = .ok (b', o) ∧ b'.cl[i]? = some (.getPool k e.value) ∧ b'.g.store = b.g.store) ∧
    (b.cl[i]? = some (.refStore k) →
      ∃ b', stepB b (.client i) o = .ok (b', o) ∧ b'.cl[i]? = some (.refPool k e.value) ∧ b'.g.store = b.g.store) ∧
    (∀ ks acc iter, b.cl[i]? = some (.mgetStore k ks acc iter) →
      ∃ b', stepB b (.client i) o = .ok (b', o) ∧ b'.cl[i]? = some (.mgetPool k e.value ks acc iter) ∧
        b'.g.store = b.g.store) := by
  have halive : e.alive b.g.now = true := by
    rw [expB_alive_iff]
    refine ⟨hs, fun t ht => ?_⟩
    rcases hlive with h | ⟨t', h, hle⟩
    · rw [h] at ht; cases ht
    · rw [h] at ht; cases ht; exact hle
  refine ⟨?_, ?_, ?_⟩
  · intro hpc
    have hlt := upsB_lt hpc
    refine ⟨setClient { b with g := { b.g with stats := { b.g.stats with hits := b.g.stats.hits + 1 } } } i
      (.getPool k e.value), ?_, ?_, rfl⟩
    · simp only [stepB, clientAct, hpc, hk, halive, if_true]
    · simp only [setClient, List.getElem?_set_self hlt]
  · intro hpc
    have hlt := upsB_lt hpc
    refine ⟨setClient { b with g := { b.g with stats := { b.g.stats with hits := b.g.stats.hits + 1 } },
                               storeReaders := (i, storeShardOf b k) :: b.storeReaders } i
      (.refPool k e.value), ?_, ?_, rfl⟩
    · simp only [stepB, clientAct, hpc, hk, halive, if_true]
    · simp only [setClient, List.getElem?_set_self hlt]
  · intro ks acc iter hpc
    have hlt := upsB_lt hpc
    refine ⟨setClient { b with g := { b.g with stats := { b.g.stats with hits := b.g.stats.hits + 1 } } } i
      (.mgetPool k e.value ks acc iter), ?_, ?_, rfl⟩
    · simp only [stepB, clientAct, hpc, hk, halive, if_true]
    · simp only [setClient, List.getElem?_set_self hlt]

/-- both directions in one: a lookup action of `k` moves on to `pool.add` with `v` iff `expB_lookup` of the state it
    ran in is `some v` (stated for `get`) -/
theorem C09_layerB_lookup_iff {b b' : BState} {i k v : Nat} {o o' : Oracle} (hpc : b.cl[i]? = some (.getStore k))
    (h : stepB b (.client i) o = .ok (b', o')) :
    b'.cl[i]? = some (.getPool k v) ↔ expB_lookup b.g k = some v := by
  constructor
  · intro hpc'
    obtain ⟨_, e, he, ha, hv, _⟩ := (C09_layerB_never_served h).1 k k v hpc hpc'
    exact expB_lookup_some.mpr ⟨e, he, ha, hv⟩
  · intro hl
    obtain ⟨e, he, ha, rfl⟩ := expB_lookup_some.mp hl
    obtain ⟨hs, hx⟩ := (expB_alive_iff e _).mp ha
    have hlive : e.expiry = none ∨ ∃ t, e.expiry = some t ∧ b.g.now ≤ t := by
      cases hx' : e.expiry with
      | none => exact Or.inl rfl
      | some t => exact Or.inr ⟨t, rfl, hx t hx'⟩
    obtain ⟨b1, hb1, hpc1, _⟩ := (C09_layerB_not_hidden o he hs hlive).1 hpc
    rw [hb1] at h
    simp only [Except.ok.injEq, Prod.mk.injEq] at h
    rw [← h.1]; exact hpc1

/-! ## 3  the deadline moves only by `upsert.update`; a new incarnation gets it at `store.put` -/

/-- **C09 (8).**  For ANY action of ANY thread, in a state satisfying `WAbsent` (every reachable state does), with `e'`
    the entry `k` holds AFTER the action:
    * if `k` held an entry `e` before, `e'` is the same incarnation (same id), and its deadline differs from `e`'s only
      if the action is the `upsert.update` action of a `put_or_update` of `k`, and then it is exactly the requested
      one: none (`remove_time_to_live`), or `now + ttl` with `now` the clock OF THAT ACTION (not of the call's start,
      not of the later index update), or the old one;
    * if `k` held nothing before, the action is the worker's `store.put` of a put of `k`, and the new incarnation's
      deadline is `now + ttl` with `now` the clock of THAT `store.put` ACTION — the model (as `CommandExecutor::put_with_ttl`)
      computes it there: not when the client called, not when the worker received the command — or none for a put
      without time-to-live.
    No other action (sweeper, clock, worker's other actions, index actions, reads) moves a stored deadline. -/
theorem C09_layerB_deadline_moves_only_by_upsert_or_put {b b' : BState} {a : Act} {o o' : Oracle} {k : Nat}
    {e' : Entry} (hi : WAbsent b) (h : stepB b a o = .ok (b', o')) (hk' : b'.g.store.get? k = some e') :
    (∀ e, b.g.store.get? k = some e →
      e'.id = e.id ∧
      (e'.expiry ≠ e.expiry →
        ∃ i v w ttl rm, a = .client i ∧ b.cl[i]? = some (.upUpdate k v w ttl rm) ∧
          e'.expiry = upsB_deadline b.g.now ttl rm e.expiry ∧
          (∀ t, ttl = some t → rm = false → addTime b.g.now t = some (b.g.now + t)))) ∧
    (b.g.store.get? k = none →
      a = .worker ∧ ∃ c, b.w = .storePut c ∧ c.k = k ∧ e'.id = c.id ∧ e'.value = c.v ∧ e'.soft = false ∧
        e'.expiry = c.ttl.map (fun t => b.g.now + t) ∧
        (∀ t, c.ttl = some t → addTime b.g.now t = some (b.g.now + t))) := by
  constructor
  · intro e hk
    refine ⟨C07_layerB_id_never_replaced hi h hk hk', fun hne => ?_⟩
    obtain ⟨_, _, i, v, w, ttl, rm, ha, hpc, _, hx, hov⟩ :=
      C08_layerB_only_upsert_changes_value_or_expiry hi h hk hk' (Or.inr hne)
    exact ⟨i, v, w, ttl, rm, ha, hpc, hx, hov⟩
  · intro hk
    obtain ⟨ha, c, exp, hw, hck, hx, rfl⟩ := C07_layerB_only_worker_creates h hk hk'
    refine ⟨ha, c, hw, hck, rfl, rfl, rfl, ?_⟩
    cases ht : c.ttl with
    | none =>
      rw [ht] at hx
      simp only [putExpiry, Option.some.injEq] at hx
      exact ⟨by simp [← hx], fun t h => by cases h⟩
    | some t =>
      rw [ht] at hx
      simp only [putExpiry] at hx
      cases hadd : addTime b.g.now t with
      | none => rw [hadd] at hx; cases hx
      | some x =>
        rw [hadd] at hx
        simp only [Option.map_some, Option.some.injEq] at hx
        have hx' := addTime_eq_some hadd
        subst hx'
        refine ⟨by simp [← hx], fun t' h => ?_⟩
        cases h; exact hadd

/-- … along runs: between two states of any run from a reachable state, the deadline stored for the same (key, id)
    differs only if some client performed the `upsert.update` of a `put_or_update` of that key in between. -/
theorem C09_layerB_deadline_moves_only_by_upsert_run {cfg : Cfg} {now : Nat} {seeds : List Nat} {clients : Nat}
    {b0 b : BState} {h : List (BState × Act)} (hr : Reach cfg now seeds clients b0) (hrun : RunH b0 h b) {k : Nat}
    {e0 e : Entry} (hk0 : b0.g.store.get? k = some e0) (hk : b.g.store.get? k = some e) (hid : e.id = e0.id)
    (hne : e.expiry ≠ e0.expiry) :
    ∃ p ∈ h, ∃ i v w ttl rm e1, p.2 = .client i ∧ p.1.cl[i]? = some (.upUpdate k v w ttl rm) ∧
      p.1.g.store.get? k = some e1 :=
  C08_layerB_only_upsert_changes_value_or_expiry_run hr hrun hk0 hk hid (Or.inr hne)

/-! ## 4  keys without a time-to-live never expire; the clock never touches the store -/

/-- the clock action, exactly: only `now` moves -/
theorem C09_layerB_advance_keeps_store {b b' : BState} {d : Nat} {o o' : Oracle}
    (h : stepB b (.advance d) o = .ok (b', o')) :
    b' = { b with g := { b.g with now := b.g.now + d } } ∧ o' = o ∧ b'.g.store = b.g.store ∧ b'.g.ttl = b.g.ttl ∧
    b'.g.adm = b.g.adm ∧ b'.g.now = b.g.now + d := by
  simp only [stepB, Except.ok.injEq, Prod.mk.injEq] at h
  obtain ⟨rfl, rfl⟩ := h
  exact ⟨rfl, rfl, rfl, rfl, rfl, rfl⟩

/-- **C09 (9).**  An entry without deadline that is not soft-deleted is alive at EVERY clock value; so in whatever
    state it is stored — however far the clock has moved — every lookup action of its key finds its value. -/
theorem C09_layerB_no_ttl_never_expires {b : BState} {i k : Nat} {e : Entry} (o : Oracle)
    (hk : b.g.store.get? k = some e) (he : e.expiry = none) (hs : e.soft = false) :
    (∀ now, e.alive now = true) ∧
    (∀ d, expB_lookup { b.g with now := b.g.now + d } k = some e.value) ∧
    (b.cl[i]? = some (.getStore k) →
      ∃ b', stepB b (.client i) o = .ok (b', o) ∧ b'.cl[i]? = some (.getPool k e.value)) := by
  have hal : ∀ now, e.alive now = true := fun now => C09_no_ttl_never_expires e he hs now
  refine ⟨hal, fun d => ?_, fun hpc => ?_⟩
  · exact expB_lookup_some.mpr ⟨e, hk, hal _, rfl⟩
  · obtain ⟨b', h1, h2, _⟩ := (C09_layerB_not_hidden (i := i) o hk hs (Or.inl he)).1 hpc
    exact ⟨b', h1, h2⟩

/-- … along runs: a key stored without deadline under id `id`, still stored under that id and not soft-deleted at the
    end of ANY run (any number of clock moves, sweeps, other threads' actions) in which no `put_or_update` of the key
    did its `upsert.update`, still has no deadline, is alive, and is found by a lookup — whatever the clock shows. -/
theorem C09_layerB_no_ttl_never_expires_run {cfg : Cfg} {now : Nat} {seeds : List Nat} {clients : Nat}
    {b0 b : BState} {h : List (BState × Act)} (hr : Reach cfg now seeds clients b0) (hrun : RunH b0 h b) {k : Nat}
    {e0 e : Entry} (hk0 : b0.g.store.get? k = some e0) (he0 : e0.expiry = none) (hk : b.g.store.get? k = some e)
    (hid : e.id = e0.id) (hs : e.soft = false)
    (hno : ¬ ∃ p ∈ h, ∃ i v w ttl rm e1, p.2 = .client i ∧ p.1.cl[i]? = some (.upUpdate k v w ttl rm) ∧
      p.1.g.store.get? k = some e1) :
    e.expiry = none ∧ e.alive b.g.now = true ∧ expB_lookup b.g k = some e.value := by
  have he : e.expiry = none := by
    apply Classical.byContradiction
    intro hne
    exact hno (C09_layerB_deadline_moves_only_by_upsert_run hr hrun hk0 hk hid (by rw [he0]; exact hne))
  have hal := C09_no_ttl_never_expires e he hs b.g.now
  exact ⟨he, hal, expB_lookup_some.mpr ⟨e, hk, hal, rfl⟩⟩

/-! ## 5  the sweeper and the reads -/

/-- **C09 (10): what ONE sweeper action can do to the outcome of a lookup (no history).**  A sweeper action never
    moves the clock, and for every key `k` it leaves the answer of a lookup of `k` (`expB_lookup`) as it is, with ONE
    exception: the `store.remove` that ends the eviction of the id of `k`'s entry removes the entry although it is alive
    now.  Then the sweeper stood at `store.remove` of exactly this id, charged for exactly this key; the time it
    compared with is not ahead of the clock; the id's index entry is gone; afterwards the key is absent.
    So: a sweeper action never turns a miss into a hit, never changes the value found, never hides a key whose id it is
    not evicting.  WHEN the exception can happen is said by the history (`C09_layerB_sweep_hides_only_revived` below):
    since fix 36c87dc only if the entry had expired by its OWN stored deadline when the sweeper's `kw.remove` action
    (the check) ran, and a `put_or_update` rewrote it between that action and this removal (known finding D3: an upsert
    of an expired-but-unswept entry revives it in place) — `C09_layerB_sweep_removes_revived_key` is such a run.  The
    other run that used to reach the exception, the extension race D13, no longer does:
    `C09_layerB_extension_race_keeps_key`. -/
theorem C09_layerB_sweep_irrelevant_for_reads {cfg : Cfg} {now0 : Nat} {seeds : List Nat} {clients : Nat}
    {b b' : BState} {v : Option Nat} {o o' : Oracle} (hr : Reach cfg now0 seeds clients b)
    (h : stepB b (.sweeper v) o = .ok (b', o')) (k : Nat) :
    b'.g.now = b.g.now ∧
    (expB_lookup b'.g k = expB_lookup b.g k ∨
     ∃ now sh rest e wk, b.sw = .store now sh rest e.id wk ∧ wk.key = k ∧ now ≤ b.g.now ∧
       b.g.store.get? k = some e ∧ e.alive b.g.now = true ∧ b.g.ttl.get? (sh, e.id) = none ∧
       b'.g.store.get? k = none ∧ expB_lookup b.g k = some e.value ∧ expB_lookup b'.g k = none) := by
  have hnow : b'.g.now = b.g.now := swB_strans_now (sweeperAct_trans (swB_sweeper_step h))
  refine ⟨hnow, ?_⟩
  by_cases hst : b'.g.store.get? k = b.g.store.get? k
  · exact Or.inl (expB_lookup_congr hst hnow)
  · cases hk : b.g.store.get? k with
    | none =>
      exfalso
      cases hk' : b'.g.store.get? k with
      | none => rw [hk, hk'] at hst; exact hst rfl
      | some e' =>
        obtain ⟨ha, _⟩ := C07_layerB_only_worker_creates h hk hk'
        cases ha
    | some e =>
      have hne : b'.g.store.get? k ≠ some e := by rw [hk] at hst; exact hst
      obtain ⟨now, sh, rest, id, wk, hs, hkey, hle, hgone, _, hnone⟩ :=
        C10_layerB_never_removes_live_partial hr h hk hne
      obtain ⟨now', sh', rest', wk', hs', _, _⟩ :=
        C10_layerB_never_removes_live hr h hk rfl (fun en' hen' => by rw [hnone] at hen'; cases hen')
      rw [hs] at hs'
      simp only [SPc.store.injEq] at hs'
      obtain ⟨_, _, _, hid, _⟩ := hs'
      subst hid
      have hl' : expB_lookup b'.g k = none := by simp [expB_lookup, hnone]
      cases ha : e.alive b.g.now with
      | false =>
        left
        rw [hl']
        simp [expB_lookup, hk, ha]
      | true =>
        right
        exact ⟨now, sh, rest, e, wk, hs, hkey, hle, rfl, ha, hgone, hnone,
          expB_lookup_some.mpr ⟨e, hk, ha, rfl⟩, hl'⟩

/-- … in particular: a sweeper action never turns a miss into a hit and never changes the value a lookup finds -/
theorem C09_layerB_sweep_never_unhides {cfg : Cfg} {now0 : Nat} {seeds : List Nat} {clients : Nat}
    {b b' : BState} {v : Option Nat} {o o' : Oracle} (hr : Reach cfg now0 seeds clients b)
    (h : stepB b (.sweeper v) o = .ok (b', o')) (k x : Nat) (hl : expB_lookup b'.g k = some x) :
    expB_lookup b.g k = some x := by
  rcases (C09_layerB_sweep_irrelevant_for_reads hr h k).2 with heq | ⟨_, _, _, _, _, _, _, _, _, _, _, _, _, hn⟩
  · rw [← heq]; exact hl
  · rw [hn] at hl; cases hl

/-- … and a key whose entry's id the sweeper is NOT just removing keeps its answer -/
theorem C09_layerB_sweep_other_ids {cfg : Cfg} {now0 : Nat} {seeds : List Nat} {clients : Nat}
    {b b' : BState} {v : Option Nat} {o o' : Oracle} (hr : Reach cfg now0 seeds clients b)
    (h : stepB b (.sweeper v) o = .ok (b', o')) (k : Nat)
    (hother : ∀ now sh rest id wk e, b.sw = .store now sh rest id wk → b.g.store.get? k = some e → e.id ≠ id) :
    expB_lookup b'.g k = expB_lookup b.g k := by
  rcases (C09_layerB_sweep_irrelevant_for_reads hr h k).2 with heq | ⟨now, sh, rest, e, wk, hs, _, _, hk, _⟩
  · exact heq
  · exact absurd rfl (hother now sh rest e.id wk e hs hk)

/-- the history holds the sweeper's visit of id `id` in the sweep of shard `sh` that read the time `now`: at that
    action the INDEX held the deadline `e` for `(sh, id)`, and `e < now ≤` the clock of that action -/
def expB_VisitedDue (h : List (BState × Act)) (now sh id : Nat) : Prop :=
  ∃ p ∈ h, ∃ rest e, p.2 = .sweeper (some id) ∧ p.1.sw = .entry now sh rest ∧ p.1.g.ttl.get? (sh, id) = some e ∧
    e < now ∧ now ≤ p.1.g.now

theorem expB_VisitedDue.mono {h : List (BState × Act)} {now sh id : Nat} (x : BState × Act)
    (hh : expB_VisitedDue h now sh id) : expB_VisitedDue (x :: h) now sh id := by
  obtain ⟨p, hp, rest⟩ := hh
  exact ⟨p, List.mem_cons_of_mem _ hp, rest⟩

/-- while the sweeper carries out an eviction, the history holds the visit that started it -/
def expB_SwInv (h : List (BState × Act)) : SPc → Prop
  | .kwRemove now sh _ id | .sub now sh _ id _ | .store now sh _ id _ => expB_VisitedDue h now sh id
  | _ => True

theorem expB_swInv_step {cfg : Cfg} {now0 : Nat} {seeds : List Nat} {clients : Nat} {H : List (BState × Act)}
    {b b' : BState} {a : Act} {o o' : Oracle} (hr : Reach cfg now0 seeds clients b) (hi : expB_SwInv H b.sw)
    (hs : stepB b a o = .ok (b', o')) : expB_SwInv ((b, a) :: H) b'.sw := by
  cases hsw' : b'.sw with
  | kwRemove now sh r id =>
    rcases C10_layerB_kwRemove_only_if_due hs hsw' with hsame | ⟨ha, rest, e, hsw, hf, hd, _, _⟩
    · rw [hsame] at hi; exact hi.mono _
    · refine ⟨(b, a), List.mem_cons_self, rest, e, ha, hsw, ?_, hd, ?_⟩
      · exact (C10_layerB_sweepInv hr).listed now sh rest (by rw [hsw]; rfl) id e (List.mem_of_find?_eq_some hf)
      · exact C10_layerB_sweep_clock hr now (by rw [hsw]; rfl)
  | sub now sh r id wk =>
    rcases C10_layerB_sub_only_after_kwRemove hs hsw' with hsame | ⟨_, hsw, _⟩
    · rw [hsame] at hi; exact hi.mono _
    · rw [hsw] at hi; exact hi.mono _
  | store now sh r id wk =>
    rcases C10_layerB_store_only_after_sub hs hsw' with hsame | ⟨_, hsw⟩
    · rw [hsame] at hi; exact hi.mono _
    · rw [hsw] at hi; exact hi.mono _
  | _ => trivial

theorem expB_swInv_run {cfg : Cfg} {now0 : Nat} {seeds : List Nat} {clients : Nat} {b0 b : BState}
    {h : List (BState × Act)} (hr : Reach cfg now0 seeds clients b0) (hrun : RunH b0 h b)
    (h0 : expB_SwInv [] b0.sw) : expB_SwInv h b.sw := by
  induction hrun with
  | nil => exact h0
  | step hrun1 hs ih => exact expB_swInv_step (expB_reach_run hr hrun1) ih hs

/-- **C09 (10), with the history.**  Along any run from a reachable state in which the sweeper is not in the middle of
    an eviction (e.g. the initial state): if a sweeper action changes the answer of a lookup of `k`, it is the
    `store.remove` of the eviction of the id of `k`'s (alive) entry, and the history holds the sweeper's VISIT of that
    id, at which the index held for it a deadline `e` that had passed: `e < now ≤ clock`.  The sweeper hides a key only
    if the deadline THE INDEX held for its id was due at the visit.  (This is the part that was true before fix 36c87dc
    as well; about the deadline the STORED entry carried see `C09_layerB_sweep_hides_only_revived`.) -/
theorem C09_layerB_sweep_removes_only_visited_due {cfg : Cfg} {now0 : Nat} {seeds : List Nat} {clients : Nat}
    {b0 b b' : BState} {h : List (BState × Act)} {v : Option Nat} {o o' : Oracle}
    (hr : Reach cfg now0 seeds clients b0) (hrun : RunH b0 h b) (h0 : expB_SwInv [] b0.sw)
    (hs : stepB b (.sweeper v) o = .ok (b', o')) {k : Nat} (hch : expB_lookup b'.g k ≠ expB_lookup b.g k) :
    ∃ now sh rest e wk, b.sw = .store now sh rest e.id wk ∧ wk.key = k ∧ b.g.store.get? k = some e ∧
      e.alive b.g.now = true ∧ b'.g.store.get? k = none ∧ expB_VisitedDue h now sh e.id := by
  rcases (C09_layerB_sweep_irrelevant_for_reads (expB_reach_run hr hrun) hs k).2 with heq |
    ⟨now, sh, rest, e, wk, hsw, hkey, _, hk, ha, _, hnone, _, _⟩
  · exact absurd heq hch
  · have hinv := expB_swInv_run hr hrun h0
    rw [hsw] at hinv
    exact ⟨now, sh, rest, e, wk, hsw, hkey, hk, ha, hnone, hinv⟩

/-! ### what fix 36c87dc buys: the sweeper re-validates against the store at `kw.remove` -/

/-- **C09 (11): the sweeper never hides a key that has not expired by its own deadline — the check.**  The sweeper
    stands at `kw.remove` of the eviction of `id` (it found the deadline THE INDEX held for `id` passed); `id` is
    charged for key `wk.key`.  If IN THIS STATE the entry stored under that key carries `id` and has NOT expired by its
    own deadline (it has none, or `now ≤ deadline` — whatever the index said, whoever moved the stored deadline, whether
    or not that `put_or_update` has brought the index up to date), then this sweeper action — whatever the other
    threads did before it, the statement is about ANY state — abandons the eviction: the sweeper moves on to the next
    listed entry or to `sweep.end`, NOTHING of the shared state changes: the entry stays stored, the id stays charged,
    the total is untouched, every lookup of every key answers as before.  (No `wu.sub`, no `store.remove` of this
    eviction ever runs: `C09_layerB_eviction_passed_check`.) -/
theorem C09_layerB_sweeper_never_hides_unexpired {b b' : BState} {v : Option Nat} {o o' : Oracle} {now sh id : Nat}
    {rest : List (Nat × Nat)} {wk : WKey} {e : Entry}
    (hs : b.sw = .kwRemove now sh rest id) (hkw : b.g.adm.kw.get? id = some wk)
    (hk : b.g.store.get? wk.key = some e) (hid : e.id = id)
    (hlive : e.expiry = none ∨ ∃ t, e.expiry = some t ∧ b.g.now ≤ t)
    (h : stepB b (.sweeper v) o = .ok (b', o')) :
    b' = sweepNext b now sh rest ∧ b'.g = b.g ∧
    ((b'.sw = .entry now sh rest ∧ rest ≠ []) ∨ (b'.sw = .fin ∧ rest = [])) ∧
    b'.g.store.get? wk.key = some e ∧ b'.g.adm.kw.get? id = some wk ∧ b'.g.adm.used = b.g.adm.used ∧
    b'.wuOwner = b.wuOwner ∧ ∀ k, expB_lookup b'.g k = expB_lookup b.g k := by
  have hu : unexpiredWithId b.g wk.key id = true := by
    rw [unexpiredWithId_eq_true_iff]
    refine ⟨e, hk, hid, fun t ht hgt => ?_⟩
    rcases hlive with h0 | ⟨t', h1, hle⟩
    · rw [h0] at ht; cases ht
    · rw [h1] at ht; cases ht; omega
  obtain ⟨hb', hg, hwu, hsw⟩ := C10_layerB_skip_harmless hs hkw hu (swB_sweeper_step h)
  exact ⟨hb', hg, hsw, by rw [hg]; exact hk, by rw [hg]; exact hkw, by rw [hg], hwu, fun k => by rw [hg]⟩

/-- … and when the id is not charged at all the sweeper moves on as well (`C10_layerB_stale_harmless`): so whenever the
    sweeper's `kw.remove` action does NOT move on, the id was charged and NO entry stored under the charge's key with
    this id was unexpired — every such entry carried a deadline the clock had passed. -/
theorem C09_layerB_kwRemove_goes_on_only_if_expired {b b' : BState} {v : Option Nat} {o o' : Oracle} {now sh id : Nat}
    {rest : List (Nat × Nat)} (hs : b.sw = .kwRemove now sh rest id) (h : stepB b (.sweeper v) o = .ok (b', o'))
    (hne : b' ≠ sweepNext b now sh rest) :
    ∃ wk, b.g.adm.kw.get? id = some wk ∧ b'.sw = .sub now sh rest id wk ∧
      ∀ e, b.g.store.get? wk.key = some e → e.id = id → ∃ t, e.expiry = some t ∧ b.g.now > t := by
  rcases swB_kwRemove_spec hs (swB_sweeper_step h) with ⟨wk, ⟨hk, hu⟩, rfl⟩ | ⟨_, hb'⟩
  · exact ⟨wk, hk, rfl, (unexpiredWithId_eq_false_iff _ _ _).mp hu⟩
  · exact absurd hb' hne

/-- **C09 (11), for all interleavings: an eviction under way has passed the check.**  Along any run (history `h`,
    latest first) from a reachable state in which the sweeper is not in the middle of an eviction (e.g. the initial
    state): whenever the sweeper stands at `wu.sub` or at `store.remove` of the eviction of `id` with the charge `wk`,
    the history holds the sweeper's OWN `kw.remove` action `p` of this eviction, and IN THE STATE OF `p` the charge `wk`
    was there and every entry stored under `wk.key` with id `id` had expired by its own deadline.  Contrapositive: an
    entry that carries the id and is unexpired by its own deadline when the sweeper's `kw.remove … id` runs is never
    reached by that eviction's `wu.sub` / `store.remove` — in no interleaving. -/
theorem C09_layerB_eviction_passed_check {cfg : Cfg} {now0 : Nat} {seeds : List Nat} {clients : Nat}
    {b0 b : BState} {h : List (BState × Act)} (hr : Reach cfg now0 seeds clients b0) (hrun : RunH b0 h b)
    (h0 : b0.sw.victim? = none) {now sh id : Nat} {rest : List (Nat × Nat)} {wk : WKey}
    (hsw : b.sw = .sub now sh rest id wk ∨ b.sw = .store now sh rest id wk) :
    ∃ h1 p h2, h = h1 ++ p :: h2 ∧ (∃ v, p.2 = .sweeper v) ∧ p.1.sw = .kwRemove now sh rest id ∧
      p.1.g.adm.kw.get? id = some wk ∧ unexpiredWithId p.1.g wk.key id = false ∧ p.1.g.now ≤ b.g.now ∧
      ∀ e, p.1.g.store.get? wk.key = some e → e.id = id → ∃ t, e.expiry = some t ∧ p.1.g.now > t := by
  have hinv := swB_chkInv_run hr hrun (swB_chkInv_start h0)
  unfold swB_ChkInv at hinv
  have key : ∀ n, swB_Checked h b now sh rest id wk n →
      ∃ h1 p h2, h = h1 ++ p :: h2 ∧ (∃ v, p.2 = .sweeper v) ∧ p.1.sw = .kwRemove now sh rest id ∧
        p.1.g.adm.kw.get? id = some wk ∧ unexpiredWithId p.1.g wk.key id = false ∧ p.1.g.now ≤ b.g.now ∧
        ∀ e, p.1.g.store.get? wk.key = some e → e.id = id → ∃ t, e.expiry = some t ∧ p.1.g.now > t := by
    rintro n ⟨_, _, h1, p, h2, rfl, hp, hpsw, hkw, hu, hnow, _, _⟩
    refine ⟨h1, p, h2, rfl, ?_, hpsw, hkw, hu, hnow, (unexpiredWithId_eq_false_iff _ _ _).mp hu⟩
    cases hpa : p.2 <;> simp_all [swB_isSweeper]
  rcases hsw with hsw | hsw
  · rw [hsw] at hinv; exact key 0 hinv
  · rw [hsw] at hinv; exact key 1 hinv

/-- **C09 (10), the FULL form (with the history, after fix 36c87dc).**  Along any run from a reachable state in which
    the sweeper is not in the middle of an eviction: if a sweeper action changes the answer of a lookup of `k`, then
    * it is the `store.remove` of the eviction of the id of `k`'s entry `e`, which is alive now and is removed (the
      lookup found `e.value` before, finds nothing after), and
    * the history is `h1 ++ p :: h2` with `p` the sweeper's own `kw.remove` action of this eviction, and IN THE STATE OF
      `p` the store held under `k` an entry `e0` with the same id that HAD EXPIRED BY ITS OWN STORED DEADLINE (`t < now`
      of `p`: a lookup at `p` missed it), and
    * some `put_or_update(k)` performed its `upsert.update` action in `h1`, i.e. BETWEEN that check and this removal:
      it rewrote the expired-but-unswept entry in place, under the same id (known finding D3).
    Nothing else lets the sweeper hide a key.  In particular the deadline in the index plays no role any more: an
    entry whose own deadline was ahead at the check is left alone (`C09_layerB_sweeper_never_hides_unexpired`). -/
theorem C09_layerB_sweep_hides_only_revived {cfg : Cfg} {now0 : Nat} {seeds : List Nat} {clients : Nat}
    {b0 b b' : BState} {h : List (BState × Act)} {v : Option Nat} {o o' : Oracle}
    (hr : Reach cfg now0 seeds clients b0) (hrun : RunH b0 h b) (h0 : b0.sw.victim? = none)
    (hs : stepB b (.sweeper v) o = .ok (b', o')) {k : Nat} (hch : expB_lookup b'.g k ≠ expB_lookup b.g k) :
    ∃ now sh rest e wk, b.sw = .store now sh rest e.id wk ∧ wk.key = k ∧ b.g.store.get? k = some e ∧
      e.alive b.g.now = true ∧ b'.g.store.get? k = none ∧ expB_lookup b.g k = some e.value ∧
      expB_lookup b'.g k = none ∧
      ∃ h1 p h2, h = h1 ++ p :: h2 ∧ (∃ v', p.2 = .sweeper v') ∧ p.1.sw = .kwRemove now sh rest e.id ∧
        (∃ e0 t, p.1.g.store.get? k = some e0 ∧ e0.id = e.id ∧ e0.expiry = some t ∧ p.1.g.now > t) ∧
        expB_lookup p.1.g k = none ∧
        ∃ q ∈ h1, ∃ i v w ttl rm, q.2 = .client i ∧ q.1.cl[i]? = some (.upUpdate k v w ttl rm) := by
  rcases (C09_layerB_sweep_irrelevant_for_reads (expB_reach_run hr hrun) hs k).2 with heq |
    ⟨now, sh, rest, e, wk, hsw, hkey, _, hk, ha, _, hnone, hl, hl'⟩
  · exact absurd heq hch
  · subst hkey
    have hlive : ∀ t, e.expiry = some t → ¬ b.g.now > t := fun t ht hgt => by
      have := ((expB_alive_iff e _).mp ha).2 t ht; omega
    obtain ⟨h1, p, h2, hh, hp, hpsw, ⟨e0, t, hk0, hid0, ht, hgt⟩, hq⟩ :=
      C10_layerB_removes_unexpired_only_after_upsert hr hrun h0 hs hsw hk rfl hlive
    refine ⟨now, sh, rest, e, wk, hsw, rfl, hk, ha, hnone, hl, hl', h1, p, h2, hh, hp, hpsw,
      ⟨e0, t, hk0, hid0, ht, hgt⟩, ?_, hq⟩
    have hdead : e0.alive p.1.g.now = false := by
      cases hd : e0.alive p.1.g.now with
      | false => rfl
      | true => have := ((expB_alive_iff e0 _).mp hd).2 t ht; omega
    simp [expB_lookup, hk0, hdead]

/-- **… hence the naive form of (10) for a key nobody upserts**: along any run from a reachable state in which the
    sweeper is not in the middle of an eviction and in which no `put_or_update` of `k` performed its `upsert.update`
    action, NO sweeper action changes the answer of a lookup of `k` — the sweeper is irrelevant for the reads of `k`:
    what it removes is what the lookups already miss. -/
theorem C09_layerB_sweep_irrelevant_without_upsert {cfg : Cfg} {now0 : Nat} {seeds : List Nat} {clients : Nat}
    {b0 b b' : BState} {h : List (BState × Act)} {v : Option Nat} {o o' : Oracle}
    (hr : Reach cfg now0 seeds clients b0) (hrun : RunH b0 h b) (h0 : b0.sw.victim? = none)
    (hs : stepB b (.sweeper v) o = .ok (b', o')) (k : Nat)
    (hno : ¬ ∃ q ∈ h, ∃ i v w ttl rm, q.2 = .client i ∧ q.1.cl[i]? = some (.upUpdate k v w ttl rm)) :
    expB_lookup b'.g k = expB_lookup b.g k := by
  apply Classical.byContradiction
  intro hch
  obtain ⟨_, _, _, _, _, _, _, _, _, _, _, _, h1, p, h2, rfl, _, _, _, _, q, hq, hrest⟩ :=
    C09_layerB_sweep_hides_only_revived hr hrun h0 hs hch
  exact hno ⟨q, List.mem_append_left _ hq, hrest⟩

/-! ## 6  concrete interleavings: non-vacuity, and the runs that refute the naive form of (10)

  Configuration `cfgEx` (Theorems.lean): weight limit 10, ONE expiry shard, two clients; `swB_at` (Sweep.lean) evaluates
  a predicate at the end of a run from the initial state. -/

/-- key 1 (value 100, id 1, weight 3) is put with time-to-live 5 at clock 0: deadline 5 -/
def expB_setup : List (Act × Oracle) := call 0 (.putW 1 100 3 (some 5)) 4 ++ workerN 7

theorem expB_reach_run' {l : List (Act × Oracle)} {b : BState} (h : runB (BState.init cfgEx 0 [1, 2, 3, 4] 2) l = .ok b) :
    Reach cfgEx 0 [1, 2, 3, 4] 2 b :=
  reach_runB (b := { BState.init cfgEx 0 [1, 2, 3, 4] 2 with storeShard := [] }) l (.init []) h

/-- **Read at the deadline exactly** (clock 5 = deadline 5), with the sweeper in the middle of the sweep of the key's
    shard (it holds the shard lock and has listed the entry): hypotheses of `C09_layerB_not_hidden` and of
    `C09_layerB_never_served`; the lookup is a hit. -/
example : swB_at (expB_setup ++ [(.advance 5, noO), (.sweeper none, noO)] ++ call 1 (.get 1) 1) (fun b =>
    (match b.cl[1]?, b.sw with
     | some (CPc.getStore k), .entry now sh rest => decide (k = 1 ∧ now = 5 ∧ sh = 0 ∧ rest = [(1, 5)])
     | _, _ => false) &&
    decide (b.g.now = 5 ∧ b.g.store.get? 1 = some ⟨100, 1, some 5, false⟩ ∧ b.ttlOwner = some 0 ∧
            expB_lookup b.g 1 = some 100) &&
    (match stepB b (.client 1) noO with
     | .ok (b', _) => (match b'.cl[1]? with | some (CPc.getPool k v) => decide (k = 1 ∧ v = 100) | _ => false)
     | _ => false)) = true := by decide

/-- **One nanosecond later** (clock 6 > deadline 5) the lookup is a miss although the entry is still physically
    present, still indexed and still charged — the sweeper has visited it at clock 5 and found it not due:
    hypotheses and conclusion of `C09_layerB_expired_is_miss`. -/
example : swB_at (expB_setup ++ [(.advance 5, noO), (.sweeper none, noO), (.sweeper (some 1), noO), (.advance 1, noO)] ++
      call 1 (.get 1) 1) (fun b =>
    (match b.cl[1]? with | some (CPc.getStore k) => decide (k = 1) | _ => false) &&
    decide (b.g.now = 6 ∧ b.g.store.get? 1 = some ⟨100, 1, some 5, false⟩ ∧ b.g.ttl = [((0, 1), 5)] ∧
            b.g.adm.kw.get? 1 = some ⟨1, 1, 3⟩ ∧ expB_lookup b.g 1 = none) &&
    (match stepB b (.client 1) noO with
     | .ok (b', _) =>
       (match b'.cl[1]?, b'.res[1]? with
        | some CPc.idle, some [Out.value r] => decide (r = none)
        | _, _ => false) && decide (b'.g.store.get? 1 = some ⟨100, 1, some 5, false⟩)
     | _ => false)) = true := by decide

/-- … and with the sweeper in the middle of the EVICTION of that entry (index entry and charge gone, the stored entry
    not yet removed): still a miss. -/
example : swB_at (expB_setup ++ [(.advance 6, noO), (.sweeper none, noO), (.sweeper (some 1), noO), (.sweeper none, noO)] ++
      call 1 (.get 1) 2) (fun b =>
    (match b.sw with | .sub now _ _ id _ => decide (now = 6 ∧ id = 1) | _ => false) &&
    decide (b.g.store.get? 1 = some ⟨100, 1, some 5, false⟩ ∧ b.g.ttl = [] ∧ b.g.adm.kw = []) &&
    (match b.res[1]? with | some [Out.value r] => decide (r = none) | _ => false)) = true := by decide

/-- **An upsert extending the deadline** (`C09_layerB_deadline_moves_only_by_upsert_or_put`, first clause): the clock
    moves between the call's first action and its `upsert.update`; the new deadline is `now + ttl` with the clock OF
    `upsert.update` (6 + 1000), the id is kept, the index still holds the old deadline. -/
example : swB_at (expB_setup ++ [(.advance 4, noO)] ++ call 0 (.upsert 1 none none (some 1000) false) 1 ++
      [(.advance 2, noO)]) (fun b =>
    (match b.cl[0]? with
     | some (CPc.upUpdate k v w ttl rm) => decide (k = 1 ∧ v = none ∧ w = none ∧ ttl = some 1000 ∧ rm = false)
     | _ => false) &&
    decide (b.g.now = 6 ∧ b.g.store.get? 1 = some ⟨100, 1, some 5, false⟩) &&
    (match stepB b (.client 0) noO with
     | .ok (b', _) => decide (b'.g.store.get? 1 = some ⟨100, 1, some 1006, false⟩ ∧ b'.g.ttl = [((0, 1), 5)])
     | _ => false)) = true := by decide

/-- … the whole extending call, then the clock far past the OLD deadline, a complete sweep of the shard, and a `get`:
    the key is found (value 100) at clock 104; the sweeper has compared with the NEW deadline 1004 -/
example : swB_at (expB_setup ++ [(.advance 4, noO)] ++ call 0 (.upsert 1 none none (some 1000) false) 5 ++
      [(.advance 100, noO), (.sweeper none, noO), (.sweeper (some 1), noO)] ++ call 1 (.get 1) 2 ++
      [(.client 1, { pool := [0] })]) (fun b =>
    decide (b.g.now = 104 ∧ b.g.store.get? 1 = some ⟨100, 1, some 1004, false⟩ ∧ b.g.ttl = [((0, 1), 1004)] ∧
            b.g.acks = [.accepted, .accepted]) &&
    (match b.sw, b.res[1]? with
     | .fin, some [Out.value r] => decide (r = some 100)
     | _, _ => false)) = true := by decide

/-- **An upsert removing the deadline** (with an explicit weight), then the clock a million units on, a sweep, and a
    lookup: the key has no deadline, no index entry, and is found: hypotheses of `C09_layerB_no_ttl_never_expires`. -/
example : swB_at (expB_setup ++ call 0 (.upsert 1 none (some 3) none true) 5 ++ workerN 2 ++
      [(.advance 1000000, noO), (.sweeper none, noO)] ++ call 1 (.get 1) 1) (fun b =>
    decide (b.g.now = 1000000 ∧ b.g.store.get? 1 = some ⟨100, 1, none, false⟩ ∧ b.g.ttl = [] ∧
            b.g.acks = [.accepted, .accepted] ∧ expB_lookup b.g 1 = some 100) &&
    (match b.cl[1]? with | some (CPc.getStore k) => decide (k = 1) | _ => false) &&
    (match stepB b (.client 1) noO with
     | .ok (b', _) => (match b'.cl[1]? with | some (CPc.getPool k v) => decide (k = 1 ∧ v = 100) | _ => false)
     | _ => false)) = true := by decide

/-- an executable check: the history holds no `upsert.update` action on key `k` -/
def expB_noUpdate (k : Nat) (h : List (BState × Act)) : Bool :=
  h.all (fun p => match p.2 with
    | .client i => (match p.1.cl[i]? with | some (.upUpdate k' _ _ _ _) => k' != k | _ => true)
    | _ => true)

theorem expB_noUpdate_spec {k : Nat} {h : List (BState × Act)} (hn : expB_noUpdate k h = true) :
    ¬ ∃ p ∈ h, ∃ i v w ttl rm e1, p.2 = .client i ∧ p.1.cl[i]? = some (.upUpdate k v w ttl rm) ∧
      p.1.g.store.get? k = some e1 := by
  rintro ⟨p, hp, i, v, w, ttl, rm, e1, ha, hpc, _⟩
  have := List.all_eq_true.mp hn p hp
  simp only [ha, hpc] at this
  simp at this

/-- key 1 (value 100, id 1, weight 3) stored WITHOUT time-to-live -/
def expB_b0 : BState :=
  match runB (BState.init cfgEx 0 [1, 2, 3, 4] 2) (call 0 (.putW 1 100 3 none) 4 ++ workerN 6) with
  | .ok b => b
  | .error _ => BState.init cfgEx 0 [] 0

/-- **Non-vacuity of `C09_layerB_no_ttl_never_expires_run`**: a run with a clock move of a million units, a sweep and
    a read — and no `put_or_update` — from a reachable state in which key 1 is stored without deadline. -/
theorem C09_layerB_no_ttl_run_witness :
    ∃ h b e0 e, Reach cfgEx 0 [1, 2, 3, 4] 2 expB_b0 ∧ RunH expB_b0 h b ∧ expB_b0.g.store.get? 1 = some e0 ∧
      e0.expiry = none ∧ b.g.store.get? 1 = some e ∧ e.id = e0.id ∧ e.soft = false ∧ b.g.now = 1000000 ∧
      ¬ ∃ p ∈ h, ∃ i v w ttl rm e1, p.2 = .client i ∧ p.1.cl[i]? = some (.upUpdate 1 v w ttl rm) ∧
        p.1.g.store.get? 1 = some e1 := by
  have hh : ∃ h b, histOf expB_b0 ([(.advance 1000000, noO), (.sweeper none, noO), (.sweeper none, noO)] ++
        call 1 (.get 1) 2) [] = .ok (h, b) ∧
      b.g.store.get? 1 = some ⟨100, 1, none, false⟩ ∧ b.g.now = 1000000 ∧ expB_noUpdate 1 h = true :=
    ⟨_, _, rfl, by decide, by decide, by decide⟩
  obtain ⟨h, b, hrun, hk, hnow, hno⟩ := hh
  exact ⟨h, b, ⟨100, 1, none, false⟩, _, expB_reach_run' (l := call 0 (.putW 1 100 3 none) 4 ++ workerN 6) rfl,
    runH_histOf _ (.nil _) hrun, by decide, rfl, hk, rfl, rfl, hnow, expB_noUpdate_spec hno⟩

/-- **The deadline of a new incarnation** (`C09_layerB_deadline_moves_only_by_upsert_or_put`, second clause):
    `put_with_weight_and_ttl(1, ttl 5)` is called at clock 0; the clock moves to 10 before the worker receives the
    command and to 30 before its `store.put`; the stored deadline is 30 + 5 — the clock of the `store.put` action. -/
example : swB_at (call 0 (.putW 1 100 3 (some 5)) 4 ++ [(.advance 10, noO)] ++ workerN 5 ++ [(.advance 20, noO)]) (fun b =>
    (match b.w with | .storePut c => decide (c.k = 1 ∧ c.ttl = some 5 ∧ c.id = 1) | _ => false) &&
    decide (b.g.now = 30 ∧ b.g.store.get? 1 = none) &&
    (match stepB b .worker noO with
     | .ok (b', _) => decide (b'.g.store.get? 1 = some ⟨100, 1, some 35, false⟩)
     | _ => false)) = true := by decide

/-! ### the sweeper and a `put_or_update` of the same key: the three races, after fix 36c87dc

  The naive form of (10) — "a sweeper action never hides an alive key" — is still FALSE, but only in the way
  `C09_layerB_sweep_hides_only_revived` says: `C09_layerB_sweep_removes_revived_key`.  The two other runs that used to
  refute it no longer do: `C09_layerB_sweep_keeps_revived_key`, `C09_layerB_extension_race_keeps_key`. -/

/-- key 1 (deadline 5) EXPIRES (clock 10); the sweeper visits it, finds the index entry due and stands at `kw.remove`;
    THEN `put_or_update(1, ttl 1000)` does its `upsert.update`: stored deadline 1010 (the revival BEFORE the check) -/
def expB_revivedBeforeCheck : List (Act × Oracle) :=
  expB_setup ++ [(.advance 10, noO), (.sweeper none, noO), (.sweeper (some 1), noO)] ++
  call 0 (.upsert 1 none none (some 1000) false) 2

/-- **Non-vacuity of `C09_layerB_sweeper_never_hides_unexpired`, and the revival BEFORE the check.**  At the end of
    `expB_revivedBeforeCheck` the sweeper stands at `kw.remove` of id 1, id 1 is charged for key 1, the entry stored
    under key 1 carries id 1 and its own deadline 1010 is ahead of the clock 10 (the index entry `(0, 1) ↦ 5` is gone,
    the upsert has not yet brought the index up to date): the hypotheses of the theorem.  The sweeper action moves on
    to `sweep.end`; shared state unchanged. -/
example : swB_at expB_revivedBeforeCheck (fun b =>
    (match b.sw with | .kwRemove now sh rest id => decide (now = 10 ∧ sh = 0 ∧ rest = [] ∧ id = 1) | _ => false) &&
    decide (b.g.now = 10 ∧ b.g.adm.kw.get? 1 = some ⟨1, 1, 3⟩ ∧ b.g.store.get? 1 = some ⟨100, 1, some 1010, false⟩ ∧
            b.g.ttl = [] ∧ unexpiredWithId b.g 1 1 = true ∧ expB_lookup b.g 1 = some 100) &&
    (match stepB b (.sweeper none) noO with
     | .ok (b', _) =>
       (match b'.sw with | .fin => true | _ => false) &&
       decide (b'.g.store.get? 1 = some ⟨100, 1, some 1010, false⟩ ∧ b'.g.adm.kw.get? 1 = some ⟨1, 1, 3⟩ ∧
               b'.g.adm.used = 3 ∧ b'.ttlOwner = none ∧ b'.wuOwner = none ∧ expB_lookup b'.g 1 = some 100)
     | _ => false)) = true := by decide

/-- **The "second race" of Sweep.lean with the revival BEFORE the check: the key is KEPT** (this is the run of the
    former counterexample `C09_layerB_sweep_removes_revived_key`, on which the key was lost before fix 36c87dc).
    Key 1 (deadline 5) expires (clock 10); the sweeper visits it and finds the index entry due; `put_or_update(1, ttl
    1000)` — which updates the dead entry in place instead of acting as a put, `Cached.C08_counterexample_expired` —
    moves the stored deadline to 1010: the key reads as present again; the sweeper's `kw.remove` re-validates against
    the store, finds the stored value unexpired and SKIPS.  Before and after every later sweeper action (here: the
    `sweep.begin` of the next sweep, two sweeper actions after the skip) a lookup finds 100; the key is stored and
    charged.  The call then ends Accepted and the index holds `(0, 1) ↦ 1010`; a `get` returns 100. -/
theorem C09_layerB_sweep_keeps_revived_key :
    ∃ b b', Reach cfgEx 0 [1, 2, 3, 4] 2 b ∧ stepB b (.sweeper none) noO = .ok (b', noO) ∧
      b.g.store.get? 1 = some ⟨100, 1, some 1010, false⟩ ∧ b.g.now = 10 ∧
      expB_lookup b.g 1 = some 100 ∧ expB_lookup b'.g 1 = some 100 ∧
      b'.g.store.get? 1 = some ⟨100, 1, some 1010, false⟩ ∧ b'.g.adm.kw.get? 1 = some ⟨1, 1, 3⟩ ∧ b'.g.adm.used = 3 ∧
      (match runB b' ([(.sweeper none, noO), (.client 0, noO), (.client 0, noO), (.client 0, noO)] ++ call 1 (.get 1) 2 ++
                      [(.client 1, { pool := [0] })]) with
       | .ok b2 =>
         decide (b2.g.now = 10 ∧ b2.g.store.get? 1 = some ⟨100, 1, some 1010, false⟩ ∧
                 b2.g.acks = [.accepted, .accepted] ∧ b2.g.ttl = [((0, 1), 1010)] ∧
                 b2.g.adm.kw.get? 1 = some ⟨1, 1, 3⟩ ∧ b2.g.adm.used = 3) &&
         (match b2.res[0]?, b2.res[1]? with
          | some (Out.ack h st :: _), some [Out.value r] => decide (h = 1 ∧ st = .accepted ∧ r = some 100)
          | _, _ => false)
       | .error _ => false) = true := by
  have hrun : ∃ b, runB (BState.init cfgEx 0 [1, 2, 3, 4] 2) (expB_revivedBeforeCheck ++
        [(.sweeper none, noO), (.sweeper none, noO)]) = .ok b ∧
      ∃ b', stepB b (.sweeper none) noO = .ok (b', noO) ∧
      b.g.store.get? 1 = some ⟨100, 1, some 1010, false⟩ ∧ b.g.now = 10 ∧
      expB_lookup b.g 1 = some 100 ∧ expB_lookup b'.g 1 = some 100 ∧
      b'.g.store.get? 1 = some ⟨100, 1, some 1010, false⟩ ∧ b'.g.adm.kw.get? 1 = some ⟨1, 1, 3⟩ ∧ b'.g.adm.used = 3 ∧
      (match runB b' ([(.sweeper none, noO), (.client 0, noO), (.client 0, noO), (.client 0, noO)] ++ call 1 (.get 1) 2 ++
                      [(.client 1, { pool := [0] })]) with
       | .ok b2 =>
         decide (b2.g.now = 10 ∧ b2.g.store.get? 1 = some ⟨100, 1, some 1010, false⟩ ∧
                 b2.g.acks = [.accepted, .accepted] ∧ b2.g.ttl = [((0, 1), 1010)] ∧
                 b2.g.adm.kw.get? 1 = some ⟨1, 1, 3⟩ ∧ b2.g.adm.used = 3) &&
         (match b2.res[0]?, b2.res[1]? with
          | some (Out.ack h st :: _), some [Out.value r] => decide (h = 1 ∧ st = .accepted ∧ r = some 100)
          | _, _ => false)
       | .error _ => false) = true := by
    refine ⟨_, rfl, _, rfl, ?_⟩
    decide
  obtain ⟨b, hr, b', hs, hrest⟩ := hrun
  exact ⟨b, b', expB_reach_run' hr, hs, hrest⟩

/-- the revival BETWEEN the check and the removal: key 1 (deadline 5) expires (clock 10); the sweeper visits it, and its
    `kw.remove` finds the stored value expired by its own deadline (5 < 10): the charge goes; THEN `put_or_update(1, ttl
    1000)` does its `upsert.update` (stored deadline 1010); the sweeper's `wu.sub` -/
def expB_revivedAfterCheck : List (Act × Oracle) :=
  expB_setup ++ [(.advance 10, noO), (.sweeper none, noO), (.sweeper (some 1), noO),
    (.sweeper none, noO)] ++                                   -- `kw.remove`: the check, at which the entry IS expired
  call 0 (.upsert 1 none none (some 1000) false) 2 ++          -- `upsert.update` at clock 10: stored deadline 5 → 1010
  [(.sweeper none, noO)]                                        -- `wu.sub`

/-- **The revival between the check and the removal still loses the key (known finding D3), as a statement about
    reads.**  Key 1 (deadline 5) EXPIRES (clock 10); the sweeper visits it, finds it due, and its `kw.remove` takes the
    charge out — the stored value HAD expired by its own deadline; `put_or_update(1, ttl 1000)` — which updates the dead
    entry in place instead of acting as a put, `Cached.C08_counterexample_expired` — moves the stored deadline to 1010:
    the key reads as present again; the sweeper's `store.remove` then removes it (the id matches).  Before that sweeper
    action a lookup finds 100, after it nothing.  This is the one exception `C09_layerB_sweep_hides_only_revived`
    leaves.  (The statement is the one this theorem had before fix 36c87dc; its former witness — the revival before
    the check — is now `C09_layerB_sweep_keeps_revived_key`.) -/
theorem C09_layerB_sweep_removes_revived_key :
    ∃ b b', Reach cfgEx 0 [1, 2, 3, 4] 2 b ∧ stepB b (.sweeper none) noO = .ok (b', noO) ∧
      b.g.store.get? 1 = some ⟨100, 1, some 1010, false⟩ ∧ b.g.now = 10 ∧
      expB_lookup b.g 1 = some 100 ∧ expB_lookup b'.g 1 = none ∧ b'.g.store.get? 1 = none := by
  have hrun : ∃ b, runB (BState.init cfgEx 0 [1, 2, 3, 4] 2) expB_revivedAfterCheck = .ok b ∧
      ∃ b', stepB b (.sweeper none) noO = .ok (b', noO) ∧
      b.g.store.get? 1 = some ⟨100, 1, some 1010, false⟩ ∧ b.g.now = 10 ∧
      expB_lookup b.g 1 = some 100 ∧ expB_lookup b'.g 1 = none ∧ b'.g.store.get? 1 = none := by
    refine ⟨_, rfl, _, rfl, ?_⟩
    decide
  obtain ⟨b, hr, b', hs, hrest⟩ := hrun
  exact ⟨b, b', expB_reach_run' hr, hs, hrest⟩

/-- … on that run the entry WAS expired by its own deadline at the check (a lookup missed it), as
    `C09_layerB_sweep_hides_only_revived` says: the state in which the sweeper's `kw.remove` ran -/
example : swB_at (expB_setup ++ [(.advance 10, noO), (.sweeper none, noO), (.sweeper (some 1), noO)]) (fun b =>
    (match b.sw with | .kwRemove now _ _ id => decide (now = 10 ∧ id = 1) | _ => false) &&
    decide (b.g.store.get? 1 = some ⟨100, 1, some 5, false⟩ ∧ b.g.now = 10 ∧ unexpiredWithId b.g 1 1 = false ∧
            expB_lookup b.g 1 = none)) = true := by decide

/-- the run of the former finding D13, up to where the sweeper's `store.remove` stood before fix 36c87dc (the run is
    UNCHANGED; what its last two sweeper actions are has changed) -/
def expB_extensionRace : List (Act × Oracle) :=
  expB_setup ++ [(.advance 4, noO)] ++
  call 0 (.upsert 1 none none (some 1000) false) 2 ++     -- `upsert.update` at clock 4: stored deadline 5 → 1004
  [(.advance 6, noO),                                     -- the clock passes the OLD deadline: clock 10
   (.sweeper none, noO), (.sweeper (some 1), noO),        -- `sweep.begin`, visit of id 1: the INDEX still says 5: due
   (.sweeper none, noO), (.sweeper none, noO)]            -- `kw.remove`: the stored deadline 1004 is ahead: SKIP, on to
                                                          -- `sweep.end` (was: charge out, `wu.sub`); `sweep.end`

/-- **D13 REPAIRED — extending a time-to-live shortly before the old deadline no longer loses the key**
    (replaces the finding `C09_layerB_extension_race_loses_key`; the run is the same).
    Key 1 has deadline 5.  At clock 4 — the key is alive — client 0 calls `put_or_update(1, time_to_live 1000)`; its
    `upsert.update` action writes the new deadline 1004 into the stored entry; the expiry index is brought up to date
    only by later actions of the same call (`ttl.update.remove`, `ttl.update.insert`).  Before they run the clock
    passes the OLD deadline (clock 10) and the sweeper sweeps the shard: at its visit the index still holds
    `(0, 1) ↦ 5`, which is due, so it takes the index entry out and goes on to `kw.remove` of id 1.  There the ticker
    now re-validates against the store (fix 36c87dc): the value stored under key 1 carries id 1 and its own deadline
    1004 is ahead — `C09_layerB_sweeper_never_hides_unexpired` — so it leaves the key alone and ends the sweep.
    After the run, and after one more sweeper action (`b → b'`: the `sweep.begin` of the next sweep, where before the
    fix the `store.remove` stood): the key is still stored with deadline 1004, still charged (weight 3, total 3), a
    lookup still finds 100.  The rest of the two calls: the extension completes its index update and is acknowledged
    Accepted, the index ends with `(0, 1) ↦ 1004` — now for an id that EXISTS —, and a `get(1)` returns 100. -/
theorem C09_layerB_extension_race_keeps_key :
    ∃ b b', Reach cfgEx 0 [1, 2, 3, 4] 2 b ∧ stepB b (.sweeper none) noO = .ok (b', noO) ∧
      b.g.now = 10 ∧ b.g.store.get? 1 = some ⟨100, 1, some 1004, false⟩ ∧      -- alive: 10 ≤ 1004
      expB_lookup b.g 1 = some 100 ∧                                            -- a lookup finds it …
      b'.g.store.get? 1 = some ⟨100, 1, some 1004, false⟩ ∧                     -- … and still does after the sweeper's action
      expB_lookup b'.g 1 = some 100 ∧ b'.g.now = 10 ∧
      b'.g.adm.kw.get? 1 = some ⟨1, 1, 3⟩ ∧ b'.g.adm.used = 3 ∧                 -- still charged
      -- the rest of the two calls: the extension is acknowledged Accepted, a `get` returns the value
      (match runB b' ([(.sweeper none, noO), (.client 0, noO), (.client 0, noO), (.client 0, noO)] ++ call 1 (.get 1) 2 ++
                      [(.client 1, { pool := [0] })]) with
       | .ok b2 =>
         decide (b2.g.now = 10 ∧ b2.g.store.get? 1 = some ⟨100, 1, some 1004, false⟩ ∧
                 b2.g.acks = [.accepted, .accepted] ∧ b2.g.ttl = [((0, 1), 1004)] ∧
                 b2.g.adm.kw.get? 1 = some ⟨1, 1, 3⟩ ∧ b2.g.adm.used = 3 ∧ expB_lookup b2.g 1 = some 100) &&
         (match b2.cl[0]?, b2.res[0]?, b2.res[1]? with
          | some CPc.idle, some (Out.ack h st :: _), some [Out.value r] => decide (h = 1 ∧ st = .accepted ∧ r = some 100)
          | _, _, _ => false)
       | .error _ => false) = true := by
  have hrun : ∃ b, runB (BState.init cfgEx 0 [1, 2, 3, 4] 2) expB_extensionRace = .ok b ∧
      ∃ b', stepB b (.sweeper none) noO = .ok (b', noO) ∧
      b.g.now = 10 ∧ b.g.store.get? 1 = some ⟨100, 1, some 1004, false⟩ ∧ expB_lookup b.g 1 = some 100 ∧
      b'.g.store.get? 1 = some ⟨100, 1, some 1004, false⟩ ∧ expB_lookup b'.g 1 = some 100 ∧ b'.g.now = 10 ∧
      b'.g.adm.kw.get? 1 = some ⟨1, 1, 3⟩ ∧ b'.g.adm.used = 3 ∧
      (match runB b' ([(.sweeper none, noO), (.client 0, noO), (.client 0, noO), (.client 0, noO)] ++ call 1 (.get 1) 2 ++
                      [(.client 1, { pool := [0] })]) with
       | .ok b2 =>
         decide (b2.g.now = 10 ∧ b2.g.store.get? 1 = some ⟨100, 1, some 1004, false⟩ ∧
                 b2.g.acks = [.accepted, .accepted] ∧ b2.g.ttl = [((0, 1), 1004)] ∧
                 b2.g.adm.kw.get? 1 = some ⟨1, 1, 3⟩ ∧ b2.g.adm.used = 3 ∧ expB_lookup b2.g 1 = some 100) &&
         (match b2.cl[0]?, b2.res[0]?, b2.res[1]? with
          | some CPc.idle, some (Out.ack h st :: _), some [Out.value r] => decide (h = 1 ∧ st = .accepted ∧ r = some 100)
          | _, _, _ => false)
       | .error _ => false) = true := by
    refine ⟨_, rfl, _, rfl, ?_⟩
    decide
  obtain ⟨b, hr, b', hs, hrest⟩ := hrun
  exact ⟨b, b', expB_reach_run' hr, hs, hrest⟩

/-- the state of that run in which the sweeper's `kw.remove` action runs: the hypotheses of
    `C09_layerB_sweeper_never_hides_unexpired` (the sweeper at `kw.remove` of id 1, id 1 charged for key 1, the entry
    stored under key 1 carries id 1 and the deadline 1004 ≥ clock 10) — the index entry `(0, 1) ↦ 5` has just been
    taken out, client 0 stands before its index update — and its conclusion: on to `sweep.end`, nothing else changes -/
example : swB_at (expB_extensionRace.take (expB_extensionRace.length - 2)) (fun b =>
    (match b.sw, b.cl[0]? with
     | .kwRemove now sh rest id, some (CPc.upWeightOf cid uw old new) =>
       decide (now = 10 ∧ sh = 0 ∧ rest = [] ∧ id = 1 ∧ cid = 1 ∧ uw = none ∧ old = some 5 ∧ new = some 1004)
     | _, _ => false) &&
    decide (b.g.now = 10 ∧ b.g.adm.kw.get? 1 = some ⟨1, 1, 3⟩ ∧ b.g.store.get? 1 = some ⟨100, 1, some 1004, false⟩ ∧
            b.g.ttl = [] ∧ unexpiredWithId b.g 1 1 = true) &&
    (match stepB b (.sweeper none) noO with
     | .ok (b', _) =>
       (match b'.sw with | .fin => true | _ => false) &&
       decide (b'.g.store = b.g.store ∧ b'.g.adm.kw = b.g.adm.kw ∧ b'.g.adm.used = b.g.adm.used ∧ b'.g.ttl = b.g.ttl ∧
               b'.ttlOwner = none ∧ b'.wuOwner = none)
     | _ => false)) = true := by decide

/-- the entry is alive at every state of that run in which it is stored, and to the end of the two calls: at no point
    does a lookup miss it (checked after every prefix of the run from the moment the key is in) -/
example : (List.range (expB_extensionRace.length - expB_setup.length + 1)).all (fun n =>
    swB_at (expB_extensionRace.take (expB_setup.length + n)) (fun b => decide (expB_lookup b.g 1 = some 100))) = true := by
  decide

example : (List.range 6).all (fun n =>
    swB_at (expB_extensionRace ++ ([(.sweeper none, noO), (.sweeper none, noO), (.client 0, noO), (.client 0, noO),
        (.client 0, noO)]).take n) (fun b => decide (expB_lookup b.g 1 = some 100))) = true := by
  decide

/-- **Non-vacuity of `C09_layerB_sweep_irrelevant_for_reads` (second disjunct), of
    `C09_layerB_sweep_removes_only_visited_due` and of `C09_layerB_sweep_hides_only_revived`**: the run
    `expB_revivedAfterCheck`, as a history from the initial state; the last sweeper action changes the answer of a
    lookup of key 1. -/
theorem C09_layerB_sweep_visited_due_witness :
    ∃ h b b', RunH (BState.init cfgEx 0 [1, 2, 3, 4] 2) h b ∧
      Reach cfgEx 0 [1, 2, 3, 4] 2 (BState.init cfgEx 0 [1, 2, 3, 4] 2) ∧
      expB_SwInv [] (BState.init cfgEx 0 [1, 2, 3, 4] 2).sw ∧
      (BState.init cfgEx 0 [1, 2, 3, 4] 2).sw.victim? = none ∧
      stepB b (.sweeper none) noO = .ok (b', noO) ∧ expB_lookup b'.g 1 ≠ expB_lookup b.g 1 := by
  have hh : ∃ h b, histOf (BState.init cfgEx 0 [1, 2, 3, 4] 2) expB_revivedAfterCheck [] = .ok (h, b) ∧
      ∃ b', stepB b (.sweeper none) noO = .ok (b', noO) ∧ expB_lookup b.g 1 = some 100 ∧ expB_lookup b'.g 1 = none :=
    ⟨_, _, rfl, _, rfl, by decide, by decide⟩
  obtain ⟨h, b, hrun, b', hs, h1, h2⟩ := hh
  refine ⟨h, b, b', runH_histOf _ (.nil _) hrun, expB_reach_run' (l := []) rfl, trivial, rfl, hs, ?_⟩
  rw [h1, h2]; exact fun e => by cases e

/-- the variant of `expB_noUpdate_spec` without the stored entry -/
theorem expB_noUpdate_spec' {k : Nat} {h : List (BState × Act)} (hn : expB_noUpdate k h = true) :
    ¬ ∃ q ∈ h, ∃ i v w ttl rm, q.2 = .client i ∧ q.1.cl[i]? = some (.upUpdate k v w ttl rm) := by
  rintro ⟨p, hp, i, v, w, ttl, rm, ha, hpc⟩
  have := List.all_eq_true.mp hn p hp
  simp only [ha, hpc] at this
  simp at this

/-- **Non-vacuity of `C09_layerB_eviction_passed_check` and `C09_layerB_sweep_irrelevant_without_upsert`**: the ordinary
    eviction of the expired key 1 (no `put_or_update` anywhere in the run), as a history from the initial state: the
    sweeper stands at `store.remove` of id 1, a lookup misses the key before and after the removal. -/
theorem C09_layerB_sweep_without_upsert_witness :
    ∃ h b b', RunH (BState.init cfgEx 0 [1, 2, 3, 4] 2) h b ∧
      Reach cfgEx 0 [1, 2, 3, 4] 2 (BState.init cfgEx 0 [1, 2, 3, 4] 2) ∧
      (BState.init cfgEx 0 [1, 2, 3, 4] 2).sw.victim? = none ∧
      b.sw = .store 10 0 [] 1 ⟨1, 1, 3⟩ ∧ b.g.store.get? 1 = some ⟨100, 1, some 5, false⟩ ∧
      stepB b (.sweeper none) noO = .ok (b', noO) ∧ b'.g.store.get? 1 = none ∧
      ¬ ∃ q ∈ h, ∃ i v w ttl rm, q.2 = .client i ∧ q.1.cl[i]? = some (.upUpdate 1 v w ttl rm) := by
  have hh : ∃ h b, histOf (BState.init cfgEx 0 [1, 2, 3, 4] 2) (expB_setup ++ [(.advance 10, noO), (.sweeper none, noO),
        (.sweeper (some 1), noO), (.sweeper none, noO), (.sweeper none, noO)]) [] = .ok (h, b) ∧
      b.sw = .store 10 0 [] 1 ⟨1, 1, 3⟩ ∧ b.g.store.get? 1 = some ⟨100, 1, some 5, false⟩ ∧
      (∃ b', stepB b (.sweeper none) noO = .ok (b', noO) ∧ b'.g.store.get? 1 = none) ∧ expB_noUpdate 1 h = true :=
    ⟨_, _, rfl, rfl, by decide, ⟨_, rfl, by decide⟩, by decide⟩
  obtain ⟨h, b, hrun, h1, h2, ⟨b', hs, h3⟩, hno⟩ := hh
  exact ⟨h, b, b', runH_histOf _ (.nil _) hrun, expB_reach_run' (l := []) rfl, rfl, h1, h2, hs, h3,
    expB_noUpdate_spec' hno⟩

end B
end Cached
