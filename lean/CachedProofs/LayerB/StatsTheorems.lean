/-
  C16  "Statistics are exact at quiescence" — at ACTION granularity (Layer B), for EVERY interleaving of any number
  of client threads with the command worker, the TTL sweeper and the access-count consumer.

      hits + misses                = key lookups performed                        (`gh.lookups`)
      keysAdded − keysDeleted      = keys held                                    (`store.length`)
      weightAdded − weightRemoved  ≡ weight used                  (mod 2^64)      (`adm.used`)
      keysRejected                 = puts refused by ADMISSION                    (`gh.refused`)

  `ReachGB` is Layer B reachability with the two ghost counters of `CachedProofs/LayerB/Stats.lean`:
  `gh.lookups` moves at the `store.get` actions of `get` / `get_ref` / each key of a multi-key read, `gh.refused` at the
  worker actions that end the admission phase of a put without accepting it.  Quantifiers: every configuration, start time,
  seed list, number of clients, map of keys to store shards, every interleaving and every oracle.

  What the model says (and what is proved):
    * THREE of the four identities hold at EVERY instant at which the cache is running, with no correction for work in
      flight (`C16_layerB_lookups_any_time`): every one of these counters moves in the very action that does the thing
      it counts.
    * The WEIGHT identity does not: an eviction (by the worker or by the sweeper) subtracts the victim's weight from
      `weight_used` at `wu.sub` and counts it in `weightRemoved` one action later, at `store.remove` (inside the delete
      hook, `applyEvict`).  In between (`WPc.evStore` / `SPc.store`, the thread owns the `weight_used` lock)
      `weightAdded − weightRemoved − used` is off by exactly that weight: `C16_layerB_weight_any_time` (with the
      correction `removedInFlight`), `C16_layerB_weight_correction_needed` (a reachable running state where the
      uncorrected identity is false).  A `stats()` call made at such an instant sees it.
    * At rest — no eviction in flight is enough — all four are exact: `C16_layerB_at_rest`, `C16_layerB_exact`.
    * `C16_layerB_refused_counts_admission_only`: the ghost `refused` moves exactly at the worker actions that answer
      `rejected tooHeavy` / `rejected noSpace`, never at a `KeyAlreadyExists` answer (caller-side or worker-side).

  Scope: `b.g.shutting = false` (as for `BInv.acct` and `RecInv`): `shutdown()` clears the store, `key_weights`,
  `weight_used` and the statistics in four separate actions.  Nothing in the model looked wrong; no identity is false
  at rest.
-/
import CachedProofs.LayerB.Stats

namespace Cached
namespace B

/-! ## 1  the identities -/

def CPc.isIdle : CPc → Bool
  | .idle => true
  | _ => false

def SPc.isBegin : SPc → Bool
  | .begin => true
  | _ => false

/-- nothing is in flight: every client is idle, the worker is at `worker.recv`, the sweeper at `sweep.begin`
    (the command queue and the access buffers may hold anything) -/
def AllIdle (b : BState) : Prop := b.cl.all CPc.isIdle = true ∧ b.w.isRecv = true ∧ b.sw.isBegin = true

instance (b : BState) : Decidable (AllIdle b) := by unfold AllIdle; infer_instance

theorem quiet_iff {b : BState} :
    AllIdle b ↔ (∀ (i : Nat) (pc : CPc), b.cl[i]? = some pc → pc = .idle) ∧ b.w = .recv ∧ b.sw = .begin := by
  unfold AllIdle
  constructor
  · rintro ⟨h1, h2, h3⟩
    refine ⟨?_, ?_, ?_⟩
    · intro i pc hi
      have := List.all_eq_true.mp h1 pc (List.mem_of_getElem? hi)
      cases pc <;> simp_all [CPc.isIdle]
    · cases hw : b.w <;> simp_all [WPc.isRecv]
    · cases hs : b.sw <;> simp_all [SPc.isBegin]
  · rintro ⟨h1, h2, h3⟩
    refine ⟨?_, by rw [h2]; rfl, by rw [h3]; rfl⟩
    rw [List.all_eq_true]
    intro pc hpc
    obtain ⟨i, hi⟩ := List.getElem?_of_mem hpc
    rw [h1 i pc hi]; rfl

/-- at rest no eviction is in flight -/
theorem AllIdle.noEviction {b : BState} (h : AllIdle b) : removedInFlight b = 0 := by
  obtain ⟨_, h2, h3⟩ := h
  unfold removedInFlight
  cases hw : b.w <;> simp_all [WPc.isRecv, WPc.heldW]
  cases hs : b.sw <;> simp_all [SPc.isBegin, SPc.heldW]

/-- no eviction in flight, in terms of the positions: the worker is not at the `store.remove` of an eviction and the
    sweeper is not at its `store.remove` -/
theorem removedInFlight_eq_zero {b : BState} (hw : b.w.isEvStore = false) (hs : b.sw.isStore = false) :
    removedInFlight b = 0 := by
  unfold removedInFlight
  cases h1 : b.w <;> cases h2 : b.sw <;> simp_all [WPc.isEvStore, SPc.isStore, WPc.heldW, SPc.heldW]

/-- **C16 at every instant** (running): the three identities that need no correction, and the weight identity with the
    weight of the evictions in flight. -/
theorem C16_layerB_any_time {cfg : Cfg} {now : Nat} {seeds : List Nat} {clients : Nat} {b : BState} {gh : GhostB}
    (hr : ReachGB cfg now seeds clients b gh) (hrun : b.g.shutting = false) :
    b.g.stats.hits + b.g.stats.misses = gh.lookups ∧
    b.g.stats.keysAdded = b.g.stats.keysDeleted + b.g.store.length ∧
    ((b.g.stats.weightAdded : Int) - b.g.stats.weightRemoved - b.g.adm.used - removedInFlight b) % (u64Mod : Int) = 0 ∧
    b.g.stats.keysRejected = gh.refused := by
  have h := statB_reach hr hrun
  exact ⟨h.lookups, h.keys, h.weight, h.refused⟩

/-- **`hits + misses = lookups` at EVERY instant** of every interleaving (running) — the counter moves in the same
    action as the lookup; and likewise the two other identities that need no in-flight correction:
    `keysAdded = keysDeleted + keys held` (`store.put` inserts and counts in one action, each `store.remove` removes
    and counts in one action) and `keysRejected = refusals by admission`. -/
theorem C16_layerB_lookups_any_time {cfg : Cfg} {now : Nat} {seeds : List Nat} {clients : Nat} {b : BState}
    {gh : GhostB} (hr : ReachGB cfg now seeds clients b gh) (hrun : b.g.shutting = false) :
    b.g.stats.hits + b.g.stats.misses = gh.lookups ∧
    b.g.stats.keysAdded = b.g.stats.keysDeleted + b.g.store.length ∧
    b.g.stats.keysRejected = gh.refused := by
  have h := statB_reach hr hrun
  exact ⟨h.lookups, h.keys, h.refused⟩

/-- the weight identity at every instant: off by exactly the weight of the evictions between `wu.sub` and
    `store.remove` -/
theorem C16_layerB_weight_any_time {cfg : Cfg} {now : Nat} {seeds : List Nat} {clients : Nat} {b : BState}
    {gh : GhostB} (hr : ReachGB cfg now seeds clients b gh) (hrun : b.g.shutting = false) :
    ((b.g.stats.weightAdded : Int) - b.g.stats.weightRemoved - (b.g.adm.used + removedInFlight b)) % (u64Mod : Int) = 0 := by
  have h := (statB_reach hr hrun).weight
  simp only [u64Mod] at h ⊢
  omega

/-- **C16, exact**: whenever no eviction is in flight — whatever else the threads are doing — all four identities
    hold as stated. -/
theorem C16_layerB_exact {cfg : Cfg} {now : Nat} {seeds : List Nat} {clients : Nat} {b : BState} {gh : GhostB}
    (hr : ReachGB cfg now seeds clients b gh) (hrun : b.g.shutting = false) (hq : removedInFlight b = 0) :
    b.g.stats.hits + b.g.stats.misses = gh.lookups ∧
    b.g.stats.keysAdded = b.g.stats.keysDeleted + b.g.store.length ∧
    ((b.g.stats.weightAdded : Int) - b.g.stats.weightRemoved - b.g.adm.used) % (u64Mod : Int) = 0 ∧
    b.g.stats.keysRejected = gh.refused := by
  obtain ⟨h1, h2, h3, h4⟩ := C16_layerB_any_time hr hrun
  refine ⟨h1, h2, ?_, h4⟩
  rw [hq] at h3
  simpa using h3

/-- **C16 at rest**: in every reachable running state in which nothing is in flight (every client idle, the worker at
    `worker.recv`, the sweeper at `sweep.begin`) the statistics are exact. -/
theorem C16_layerB_at_rest {cfg : Cfg} {now : Nat} {seeds : List Nat} {clients : Nat} {b : BState} {gh : GhostB}
    (hr : ReachGB cfg now seeds clients b gh) (hrun : b.g.shutting = false) (hq : AllIdle b) :
    b.g.stats.hits + b.g.stats.misses = gh.lookups ∧
    b.g.stats.keysAdded = b.g.stats.keysDeleted + b.g.store.length ∧
    ((b.g.stats.weightAdded : Int) - b.g.stats.weightRemoved - b.g.adm.used) % (u64Mod : Int) = 0 ∧
    b.g.stats.keysRejected = gh.refused :=
  C16_layerB_exact hr hrun hq.noEviction

/-- the same for a state given by plain reachability: the ghosts exist -/
theorem C16_layerB_at_rest' {cfg : Cfg} {now : Nat} {seeds : List Nat} {clients : Nat} {b : BState}
    (hr : Reach cfg now seeds clients b) (hrun : b.g.shutting = false) (hq : removedInFlight b = 0) :
    ∃ gh, ReachGB cfg now seeds clients b gh ∧
      b.g.stats.hits + b.g.stats.misses = gh.lookups ∧
      b.g.stats.keysAdded = b.g.stats.keysDeleted + b.g.store.length ∧
      ((b.g.stats.weightAdded : Int) - b.g.stats.weightRemoved - b.g.adm.used) % (u64Mod : Int) = 0 ∧
      b.g.stats.keysRejected = gh.refused := by
  obtain ⟨gh, hg⟩ := hr.ghost
  exact ⟨gh, hg, C16_layerB_exact hg hrun hq⟩

/-- What makes `store.length` "the number of keys held" and the subtractions meaningful: no key is stored twice,
    deletions never outnumber additions, every charged weight is positive, and the key of a put in progress is not in
    the store before its `store.put`. -/
theorem C16_layerB_side {cfg : Cfg} {now : Nat} {seeds : List Nat} {clients : Nat} {b : BState} {gh : GhostB}
    (hr : ReachGB cfg now seeds clients b gh) (hrun : b.g.shutting = false) :
    AMap.NoDup b.g.store ∧ b.g.stats.keysDeleted ≤ b.g.stats.keysAdded ∧
    (∀ id wk, b.g.adm.kw.get? id = some wk → 0 < wk.weight) ∧
    (∀ k, b.w.absentKey? = some k → b.g.store.get? k = none) := by
  have h := statB_reach hr hrun
  exact ⟨h.storeNoDup, by have := h.keys; omega, (binv_reach hr.reach).positive, h.putAbsent⟩

/-- the ghost `lookups` and the two counters move together, in the `store.get` action itself: for every action of a
    client that is not one of the clearing actions of `shutdown()`, in ANY state (reachable or not, running or not),
    `hits + misses` and the ghost move by 1 if the client stands at a `store.get` (of `get`, `get_ref` or a key of a
    multi-key read) and not at all otherwise -/
theorem C16_layerB_lookup_step {b b' : BState} {gh : GhostB} {i : Nat} {pc : CPc} {o o' : Oracle}
    (h : stepB b (.client i) o = .ok (b', o')) (hpc : b.cl[i]? = some pc) (hn : pc.afterCas = false) :
    b'.g.stats.hits + b'.g.stats.misses = b.g.stats.hits + b.g.stats.misses + (if pc.isLookup then 1 else 0) ∧
    (ghostStepB gh b (.client i) b').lookups = gh.lookups + (if pc.isLookup then 1 else 0) := by
  have hc : clientAct b i o = .ok (b', o') := h
  obtain ⟨pc', hpc', hcase⟩ := clientAct_cstat hc
  rw [hpc] at hpc'; cases hpc'
  rcases hcase with ha | hf
  · rw [hn] at ha; cases ha
  · rw [← CPc.lookN_eq]
    exact ⟨hf.2.2.look, by show gh.lookups + lookupDelta b i = _; rw [lookupDelta_of hpc]⟩

/-! ## 2  the ghost `refused` counts refusals by admission only -/

/-- **The ghost `refused` moves exactly at the worker actions in which admission refuses a put.**
    For every step `stepB b a o = .ok (b', o')` of every state:
    (1) it moves by 0 or 1;
    (2) it moves iff the action is a worker action that answers the put `c` it is executing through `rejectCmd` with
        `rejected tooHeavy` (at `store.present`: `c.w > max`) or `rejected noSpace` (at `sample.init` / `sample.fill`:
        the popped victim's estimate exceeds the incoming key's; at the `wu.space` re-check of a dry sample) —
        `rejectCmd` is the only place where `keysRejected` is bumped;
    (3) the worker-side `KeyAlreadyExists` (the key was stored between the caller's check and the worker's) goes
        through `finishCmd`: no counter and no ghost moves;
    (4) the caller-side `KeyAlreadyExists` (`store.present` of `put`) is answered on the spot: no counter, no ghost. -/
theorem C16_layerB_refused_counts_admission_only {b b' : BState} {gh : GhostB} {a : Act} {o o' : Oracle}
    (h : stepB b a o = .ok (b', o')) :
    ((ghostStepB gh b a b').refused = gh.refused ∨ (ghostStepB gh b a b').refused = gh.refused + 1) ∧
    ((ghostStepB gh b a b').refused = gh.refused + 1 ↔
      ∃ c, a = .worker ∧ b.w.cmd? = some c ∧
        (b' = rejectCmd b c.h (.rejected .tooHeavy) ∨ b' = rejectCmd b c.h (.rejected .noSpace))) ∧
    (∀ c, a = .worker → b.w = .present c → b.g.store.contains c.k = true →
      b' = finishCmd b c.h (.rejected .keyAlreadyExists) ∧ (ghostStepB gh b a b').refused = gh.refused ∧
      b'.g.stats = b.g.stats) ∧
    (∀ i k v w ttl, a = .client i → b.cl[i]? = some (.putPresent k v w ttl) → b.g.store.contains k = true →
      b' = spotFinish b i (.rejected .keyAlreadyExists) ∧ (ghostStepB gh b a b').refused = gh.refused ∧
      b'.g.stats = b.g.stats) := by
  refine ⟨?_, ?_, ?_, ?_⟩
  · cases a
    case worker =>
      have := refusedDeltaB_le b b'
      show gh.refused + refusedDeltaB b b' = _ ∨ gh.refused + refusedDeltaB b b' = _
      omega
    all_goals exact Or.inl rfl
  · constructor
    · intro hd
      cases a
      case worker =>
        have hd' : refusedDeltaB b b' = 1 := by
          have : gh.refused + refusedDeltaB b b' = gh.refused + 1 := hd
          omega
        obtain ⟨c, hc, e⟩ := worker_reject_shape h hd'
        exact ⟨c, rfl, hc, e⟩
      all_goals
        have : gh.refused = gh.refused + 1 := hd
        omega
    · rintro ⟨c, rfl, hc, e⟩
      have hw : workerAct b o = .ok (b', o') := h
      have hr := worker_refused hw
      have hk : b'.g.stats.keysRejected = b.g.stats.keysRejected + 1 := by
        rcases e with rfl | rfl <;> rfl
      show gh.refused + refusedDeltaB b b' = gh.refused + 1
      omega
  · rintro c rfl hw hc
    have hwa : workerAct b o = .ok (b', o') := h
    rcases workerAct_present hw hwa with ⟨_, rfl⟩ | ⟨hc', _, _⟩ | ⟨hc', _, _⟩
    · refine ⟨rfl, ?_, rfl⟩
      show gh.refused + refusedDeltaB b _ = gh.refused
      simp [refusedDeltaB, hw, hc]
    · rw [hc] at hc'; cases hc'
    · rw [hc] at hc'; cases hc'
  · rintro i k v w ttl rfl hpc hc
    have hca : clientAct b i o = .ok (b', o') := h
    unfold clientAct at hca
    simp only [hpc, hc, if_true, Except.ok.injEq, Prod.mk.injEq] at hca
    obtain ⟨rfl, _⟩ := hca
    exact ⟨rfl, rfl, rfl⟩

/-- … and in such an action the counter moves with the ghost, the status is written to the put's acknowledgement,
    and the worker is back at `recv`. -/
theorem rejectCmd_spec (b : BState) (hh : Option Nat) (st : Status) :
    (rejectCmd b hh st).g.stats.keysRejected = b.g.stats.keysRejected + 1 ∧
    (rejectCmd b hh st).g.acks = setAck b.g.acks hh st ∧ (rejectCmd b hh st).w = .recv ∧
    (rejectCmd b hh st).g.store = b.g.store ∧ (rejectCmd b hh st).g.adm = b.g.adm :=
  ⟨rfl, rfl, rfl, rfl, rfl⟩

/-- every action moves `keysRejected` exactly as it moves the ghost — in any state, running or not, reachable or not
    (apart from `shutdown.stats_clear`, which zeroes the counter) -/
theorem C16_layerB_rejected_step {b b' : BState} {gh : GhostB} {o o' : Oracle}
    (h : stepB b .worker o = .ok (b', o')) :
    b'.g.stats.keysRejected + gh.refused = b.g.stats.keysRejected + (ghostStepB gh b .worker b').refused := by
  have hw : workerAct b o = .ok (b', o') := h
  have := worker_refused hw
  show _ = b.g.stats.keysRejected + (gh.refused + refusedDeltaB b b')
  omega

/-! ## 3  non-vacuity: concrete interleavings -/

/-- runs a list of actions, each with its own oracle, threading the ghosts -/
def runGB : BState → GhostB → List (Act × Oracle) → Option (BState × GhostB)
  | b, gh, [] => some (b, gh)
  | b, gh, (a, o) :: rest =>
    match stepB b a o with
    | .ok (b', _) => runGB b' (ghostStepB gh b a b') rest
    | .error _ => none

theorem runGB_reach {cfg : Cfg} {now : Nat} {seeds : List Nat} {clients : Nat} :
    ∀ (l : List (Act × Oracle)) {b b' : BState} {gh gh' : GhostB}, ReachGB cfg now seeds clients b gh →
      runGB b gh l = some (b', gh') → ReachGB cfg now seeds clients b' gh' := by
  intro l
  induction l with
  | nil =>
    intro b b' gh gh' hr h
    simp only [runGB, Option.some.injEq, Prod.mk.injEq] at h
    obtain ⟨rfl, rfl⟩ := h; exact hr
  | cons x l ih =>
    intro b b' gh gh' hr h
    obtain ⟨a, o⟩ := x
    simp only [runGB] at h
    split at h
    · rename_i b1 o1 hs
      exact ih (.step hr hs) h
    · cases h

/-- hits, misses, lookups | keysAdded, keysDeleted, keys held | weightAdded, weightRemoved, used, removedInFlight |
    keysRejected, refused -/
def c16viewB (r : Option (BState × GhostB)) : Option (List Int) :=
  r.map (fun p => [p.1.g.stats.hits, p.1.g.stats.misses, p.2.lookups, p.1.g.stats.keysAdded, p.1.g.stats.keysDeleted,
    p.1.g.store.length, p.1.g.stats.weightAdded, p.1.g.stats.weightRemoved, p.1.g.adm.used, removedInFlight p.1,
    p.1.g.stats.keysRejected, p.2.refused])

/-- two clients, capacity 10 -/
def c16B0 : BState := BState.init cfgEx 0 [1, 2, 3, 4] 2

/-- a whole `get(k)` of client 1 that hits: issue, first action, `store.get`, `pool.add` (buffer 0) -/
def hitBy1 (k : Nat) : List (Act × Oracle) :=
  [(.issue 1 (.get k), noO), (.client 1, noO), (.client 1, noO), (.client 1, { pool := [0] })]

/-- Client 0 puts key 2 (weight 6); the worker applies it ACTION BY ACTION (`recv`, `store.present`, `wu.space`, then
    `kw.insert`, `wu.add`, `store.put`); in the middle — the worker stands at `kw.insert`, the key is not in the store
    yet — client 1 does a `get(2)`: a miss. -/
def c16runA : List (Act × Oracle) :=
  call 0 (.putW 2 200 6 none) 4 ++ workerN 3 ++
  [(.issue 1 (.get 2), noO), (.client 1, noO), (.client 1, noO)] ++ workerN 3

/-- mid-way (the worker at `kw.insert`, client 1 at its `store.get`): nothing is counted yet -/
example : c16viewB (runGB c16B0 {} (c16runA.take 10)) = some [0, 0, 0, 0, 0, 0, 0, 0, 0, 0, 0, 0] := by decide

/-- one action later the lookup is done and counted in the same action (`misses = 1 = lookups`), while the worker
    still stands before `kw.insert` -/
example : c16viewB (runGB c16B0 {} (c16runA.take 11)) = some [0, 1, 1, 0, 0, 0, 0, 0, 0, 0, 0, 0] := by decide

/-- after `wu.add` (weight counted with `used`), before `store.put` (key not yet counted, not yet in the store) -/
example : c16viewB (runGB c16B0 {} (c16runA.take 13)) = some [0, 1, 1, 0, 0, 0, 6, 0, 6, 0, 0, 0] := by decide

/-- at rest: one key of weight 6 -/
example : c16viewB (runGB c16B0 {} c16runA) = some [0, 1, 1, 1, 0, 1, 6, 0, 6, 0, 0, 0] := by decide

/-- Then client 0 puts key 3 with weight 8: only 4 are free, the worker samples key 2 (id 1), pops it and evicts it —
    `kw.remove`, `wu.sub` — and stops BEFORE `store.remove`, owning `weight_used`. -/
def c16runB : List (Act × Oracle) :=
  c16runA ++ call 0 (.putW 3 300 8 none) 4 ++
  [(.worker, noO), (.worker, noO), (.worker, { dk := [false] }),
   (.worker, { dk := [false], ids := [1], pops := [some 1] }), (.worker, noO), (.worker, noO)]

/-- MID-WAY, the correction is non-zero: `weightAdded − weightRemoved = 6`, `used = 0`, and the 6 are in the worker's
    hand (`removedInFlight = 6`); the evicted key is still in the store and still counted. -/
example : c16viewB (runGB c16B0 {} c16runB) = some [0, 1, 1, 1, 0, 1, 6, 0, 0, 6, 0, 0] := by decide

/-- At this instant client 1 reads key 2 — a HIT (the entry is removed only by the next worker action); the worker
    then finishes: `store.remove` (key and weight counted), `wu.space`, `sample.fill`, `kw.insert`, `wu.add`,
    `store.put`. -/
def c16runC : List (Act × Oracle) := c16runB ++ hitBy1 2 ++ workerN 6

/-- the hit is counted while the eviction is in flight -/
example : c16viewB (runGB c16B0 {} (c16runB ++ hitBy1 2)) = some [1, 1, 2, 1, 0, 1, 6, 0, 0, 6, 0, 0] := by decide

/-- one worker action later (`store.remove`): key deleted and counted, weight counted, nothing in flight -/
example : c16viewB (runGB c16B0 {} (c16runB ++ hitBy1 2 ++ workerN 1)) = some [1, 1, 2, 1, 1, 0, 6, 6, 0, 0, 0, 0] := by
  decide

/-- AT REST: 1 hit + 1 miss = 2 lookups; 2 added − 1 deleted = 1 held; 14 added − 6 removed = 8 used. -/
example : c16viewB (runGB c16B0 {} c16runC) = some [1, 1, 2, 2, 1, 1, 14, 6, 8, 0, 0, 0] := by decide

/-- A put of weight 200 > capacity 10 (refused by admission: `tooHeavy`), two puts of key 5 queued before the worker
    runs (the second is answered `KeyAlreadyExists` by the WORKER), and a put of key 3, which is stored (answered
    `KeyAlreadyExists` on the spot by the CALLER): one rejected key = one refusal. -/
def c16runD : List (Act × Oracle) :=
  c16runC ++ call 0 (.putW 4 400 200 none) 4 ++ workerN 2 ++
  call 0 (.putW 5 500 1 none) 4 ++ call 1 (.putW 5 501 1 none) 4 ++ workerN 6 ++ workerN 2 ++
  call 1 (.putW 3 1 1 none) 2

example : c16viewB (runGB c16B0 {} c16runD) = some [1, 1, 2, 3, 1, 2, 15, 6, 9, 0, 1, 1] := by decide

/-- a `noSpace` refusal (buffers of one record, so that one access record of key 2 reaches the sketch): the popped
    victim (key 2, estimate 1) is more popular than the incoming key 3 (estimate 0) -/
def c16runE : List (Act × Oracle) :=
  c16runA ++ hitBy1 2 ++ hitBy1 2 ++ [(.consumer, { dkAdd := [true] })] ++
  call 0 (.putW 3 300 8 none) 4 ++
  [(.worker, noO), (.worker, noO), (.worker, { dk := [false] }),
   (.worker, { dk := [true], ids := [1], pops := [some 1] })]

example : c16viewB (runGB (BState.init { cfgEx with bufSize := 1 } 0 [1, 2, 3, 4] 2) {} c16runE) =
    some [2, 1, 3, 1, 0, 1, 6, 0, 6, 0, 1, 1] := by decide

/-- the hypotheses of `C16_layerB_at_rest` are satisfiable by a non-trivial state: reachable, running, quiet, with a
    hit, a miss, an eviction and a refusal behind it -/
theorem C16_layerB_at_rest_witness :
    ∃ b gh, ReachGB cfgEx 0 [1, 2, 3, 4] 2 b gh ∧ b.g.shutting = false ∧ AllIdle b ∧
      b.g.stats.hits = 1 ∧ b.g.stats.misses = 1 ∧ b.g.stats.keysDeleted = 1 ∧ b.g.stats.keysRejected = 1 ∧
      b.g.adm.used = 9 := by
  have h : ∃ p, runGB c16B0 {} c16runD = some p := by
    cases hr : runGB c16B0 {} c16runD with
    | none => exact absurd (congrArg c16viewB hr) (by decide)
    | some p => exact ⟨p, rfl⟩
  obtain ⟨⟨b, gh⟩, hp⟩ := h
  refine ⟨b, gh, runGB_reach _ (.init []) hp, ?_⟩
  have hv : (runGB c16B0 {} c16runD).map (fun p => (p.1.g.shutting, decide (AllIdle p.1),
      [p.1.g.stats.hits, p.1.g.stats.misses, p.1.g.stats.keysDeleted, p.1.g.stats.keysRejected], p.1.g.adm.used)) =
      some ((false, true, [1, 1, 1, 1], 9) : Bool × Bool × List Nat × Int) := by decide
  rw [hp] at hv
  simp only [Option.map_some, Option.some.injEq, Prod.mk.injEq, decide_eq_true_eq, List.cons.injEq, and_true] at hv
  obtain ⟨h1, h2, ⟨h3, h4, h5, h6⟩, h7⟩ := hv
  exact ⟨h1, h2, h3, h4, h5, h6, h7⟩

/-- **The correction is needed**: a reachable RUNNING state (the worker between the `wu.sub` and the `store.remove` of
    an eviction, every client idle) in which the uncorrected weight identity is FALSE — a `stats()` call at this
    instant reads `weightAdded − weightRemoved = 6` against `total_weight_used = 0` — while the corrected one holds.
    This is a property of the implementation's order of operations (`weight_used -= w` under the lock, then the delete
    hook, which updates the counters), not a defect of the identity at rest. -/
theorem C16_layerB_weight_correction_needed :
    ∃ b gh, ReachGB cfgEx 0 [1, 2, 3, 4] 2 b gh ∧ b.g.shutting = false ∧ removedInFlight b = 6 ∧
      ¬ ((b.g.stats.weightAdded : Int) - b.g.stats.weightRemoved - b.g.adm.used) % (u64Mod : Int) = 0 ∧
      ((b.g.stats.weightAdded : Int) - b.g.stats.weightRemoved - b.g.adm.used - removedInFlight b) % (u64Mod : Int) = 0 := by
  have h : ∃ p, runGB c16B0 {} c16runB = some p := by
    cases hr : runGB c16B0 {} c16runB with
    | none => exact absurd (congrArg c16viewB hr) (by decide)
    | some p => exact ⟨p, rfl⟩
  obtain ⟨⟨b, gh⟩, hp⟩ := h
  refine ⟨b, gh, runGB_reach _ (.init []) hp, ?_⟩
  have hv : (runGB c16B0 {} c16runB).map (fun p => (p.1.g.shutting, removedInFlight p.1,
      (p.1.g.stats.weightAdded : Int) - p.1.g.stats.weightRemoved - p.1.g.adm.used)) =
      some ((false, 6, 6) : Bool × Int × Int) := by decide
  rw [hp] at hv
  simp only [Option.map_some, Option.some.injEq, Prod.mk.injEq] at hv
  obtain ⟨h1, h2, h3⟩ := hv
  refine ⟨h1, h2, ?_, ?_⟩
  · rw [h3]; decide
  · rw [h2, h3]; decide

/-- the hypotheses of part (2) of `C16_layerB_refused_counts_admission_only` are satisfiable: the worker action that
    answers the put of weight 200 is a `rejectCmd … (rejected tooHeavy)`, and the ghost moves -/
example :
    (match runGB c16B0 {} (c16runC ++ call 0 (.putW 4 400 200 none) 4 ++ workerN 1) with
     | some (b, gh) =>
       (match b.w, stepB b .worker noO with
        | .present c, .ok (b', _) =>
          decide (c.w = 200) && decide ((ghostStepB gh b .worker b').refused = gh.refused + 1) &&
          decide (b'.g.stats.keysRejected = b.g.stats.keysRejected + 1) &&
          decide (b'.g.acks = (rejectCmd b c.h (.rejected .tooHeavy)).g.acks) && b'.w.isRecv
        | _, _ => false)
     | none => false) = true := by decide

/-- … of part (3): the worker answers the second put of key 5 `KeyAlreadyExists`; no counter, no ghost moves -/
example :
    (match runGB c16B0 {} (c16runC ++ call 0 (.putW 5 500 1 none) 4 ++ call 1 (.putW 5 501 1 none) 4 ++ workerN 7) with
     | some (b, gh) =>
       (match b.w, stepB b .worker noO with
        | .present c, .ok (b', _) =>
          b.g.store.contains c.k && decide ((ghostStepB gh b .worker b').refused = gh.refused) &&
          decide (b'.g.stats = b.g.stats) && decide (b'.g.acks[3]? = some (.rejected .keyAlreadyExists))
        | _, _ => false)
     | none => false) = true := by decide

end B
end Cached
