/-
  C18 at ACTION granularity (Layer B, `CachedModel/LayerB.lean`), the GLOBAL statement:
  "No deadlock: every call returns under every interleaving of any number of client threads with the three
   background threads (the only exception, excluded by the property, is a caller that keeps a `get_ref` guard and
   calls back into the cache from the same thread)."

  Definitions (in `NoDeadlockLemmas.lean`): `Quiescent`, `Act.isInternal`, `HasWork`, `Enabled`, `WaitsFor` (by cases:
  which position waits for which resource held / to be provided by which thread), `Chain`, `waitRank`, `LiveInv`.

  Theorems (every reachable state of every interleaving, any number of clients, any map of keys to store shards)
    * `C18_layerB_no_deadlock`            ¬ Quiescent b → some INTERNAL action is enabled for some oracle
                                          (`C18_layerB_no_deadlock_of_inv`: for every state with the invariants)
    * `quiescent_iff`                     `Quiescent b ↔ ∀ t, ¬ HasWork b t`
    * `C18_layerB_every_blocked_thread_has_an_enabled_path`
                                          a thread with work to do is enabled, or a chain of at most THREE `WaitsFor`
                                          links leads from it to an enabled thread; the chain never returns to it
    * `C18_layerB_waitsFor_sound`         `WaitsFor b t t'`: `t` is really blocked (for every oracle), `t'` has work,
                                          the rank goes strictly down
    * `C18_layerB_waitsFor_acyclic`       no cycle in `WaitsFor b`
    * `C18_layerB_idle_thread_waits_for_the_environment`
                                          a thread without work is not enabled and waits for no thread of the cache
    * `C18_layerB_get_enabled`, `C18_layerB_get_returns`
                                          a `get` waits for nothing (in EVERY state) and returns within 3 own actions
    * `C18_layerB_put_enabled_unless_full`, `C18_layerB_put_returns`, `C18_layerB_put_send_waits_for_a_live_worker`,
      `C18_layerB_worker_makes_room`      a put returns within 4 own actions; its only wait is `cmd.send` on a full
                                          queue with a live worker — who then has an enabled path of at most 2 links,
                                          and whose next `recv` makes room for every sender
    * witnesses: `C18_layerB_wait_chain_witness` (client at `cmd.send` → worker at `wu.space` → sweeper owning
      `weight_used`, enabled), `C18_layerB_longest_wait_chain_witness` (… → sweeper → client keeping a `get_ref`
      guard: three links), quiescent states, a `get` and a put that return as stated
    * `C18_layerB_no_deadlock_needs_cmdCap`  with `cmdCap = 0` the statement is false of the model

  Hypotheses beyond the wording of the property (each is asserted by the crate's builder / a constant of the crate):
    * `seeds ≠ []`            the sketch has a row (the crate uses four): else the sketch's index panics
    * `0 < cfg.cmdCap`        `command_buffer_size > 0` (config/mod.rs:205).  With capacity 0 the model's `cmd.send` is
                              never enabled: `C18_layerB_no_deadlock_needs_cmdCap` is a reachable stuck state.
    * `0 < cfg.bufChanCap`    `CHANNEL_CAPACITY = 10` (admission_policy.rs:21)
    * `0 < cfg.poolSize`      `pool_size > 0` (config/mod.rs:187): with no buffer `pool.add` has no legal oracle
  The sweeper's tick (its action at `sweep.begin`) counts as EXTERNAL (a timer), like `issue` and `advance`: otherwise
  the statement would be trivially true whenever the sweeper is alive.

  No counterexample to the global statement was found: under these hypotheses it is a theorem.

  Fairness: `get` needs weak fairness only (its action is enabled at every state of the call).  The `cmd.send` of a
  put / delete / upsert is enabled after every `recv` of the worker but not continuously while other clients compete
  for the room: it returns under strong fairness (or without competing senders) — the model, like a bounded channel,
  does not order the waiting senders.
-/
import CachedProofs.LayerB.NoDeadlockLemmas

namespace Cached
namespace B

/-! ## 1  quiescent = nobody has work -/

theorem hasWork_of_not_quiescent {b : BState} (hnq : ¬ Quiescent b) : ∃ t, HasWork b t := by
  by_cases h1 : ∀ pc ∈ b.cl, pc.atIdle = true
  · by_cases h4 : b.w.atRest = true
    · by_cases h2 : b.g.queue = [] ∨ b.w.exited = true
      · by_cases h3 : b.g.bufq = [] ∨ b.g.consumerAlive = false
        · by_cases h5 : b.sw.atBegin = true
          · exact absurd ⟨h1, h2, h3, h4, h5⟩ hnq
          · exact ⟨.sweeper, by simpa [HasWork] using h5⟩
        · refine ⟨.consumer, ?_, fun e => h3 (Or.inl e)⟩
          cases ha : b.g.consumerAlive with
          | true => rfl
          | false => exact absurd (Or.inr ha) h3
      · refine ⟨.worker, ?_, fun _ e => h2 (Or.inl e)⟩
        cases he : b.w.exited with
        | false => rfl
        | true => exact absurd (Or.inr he) h2
    · refine ⟨.worker, ?_, fun e => absurd e h4⟩
      cases hw : b.w <;> simp_all [WPc.atRest, WPc.exited]
  · have : ∃ pc, pc ∈ b.cl ∧ pc.atIdle = false := by
      apply Classical.byContradiction
      intro hne
      apply h1
      intro pc hpc
      cases hi : pc.atIdle with
      | true => rfl
      | false => exact absurd ⟨pc, hpc, hi⟩ hne
    obtain ⟨pc, hmem, hi⟩ := this
    obtain ⟨i, hi'⟩ := List.mem_iff_getElem?.mp hmem
    exact ⟨.client i, pc, hi', hi⟩

theorem not_quiescent_of_hasWork {b : BState} {t : Tid} (h : HasWork b t) : ¬ Quiescent b := by
  rintro ⟨h1, h2, h3, h4, h5⟩
  cases t with
  | client i =>
    obtain ⟨pc, hpc, hni⟩ := h
    have := h1 pc (List.mem_of_getElem? hpc)
    rw [hni] at this
    cases this
  | worker =>
    obtain ⟨he, hq⟩ := h
    rcases h2 with e | e
    · exact hq h4 e
    · rw [he] at e; cases e
  | consumer =>
    obtain ⟨ha, hq⟩ := h
    rcases h3 with e | e
    · exact hq e
    · rw [ha] at e; cases e
  | sweeper =>
    have : b.sw.atBegin = false := h
    rw [this] at h5
    cases h5

/-- `Quiescent` says exactly that no thread has work left -/
theorem quiescent_iff {b : BState} : Quiescent b ↔ ∀ t, ¬ HasWork b t :=
  ⟨fun hq _ ht => not_quiescent_of_hasWork ht hq,
   fun h => Classical.byContradiction fun hnq => let ⟨t, ht⟩ := hasWork_of_not_quiescent hnq; h t ht⟩

/-! ## 2  chains -/

/-- from a thread with work to do a chain of at most `waitRank` links leads to an enabled thread -/
theorem chain_of_rank {b : BState} (hg : LiveInv b) :
    ∀ (n : Nat) (t : Tid), waitRank b t ≤ n → HasWork b t → ∃ k, k ≤ n ∧ Chain b k t := by
  intro n
  induction n with
  | zero =>
    intro t hr hw
    rcases thread_progress hg t hw with he | ⟨t', hwf⟩
    · exact ⟨0, Nat.le_refl _, .done he⟩
    · have := waitsFor_rank hg hwf
      omega
  | succ n ih =>
    intro t hr hw
    rcases thread_progress hg t hw with he | ⟨t', hwf⟩
    · exact ⟨0, Nat.zero_le _, .done he⟩
    · have hlt := waitsFor_rank hg hwf
      obtain ⟨k, hk, hc⟩ := ih t' (by omega) (waitsFor_hasWork hg hwf)
      exact ⟨k + 1, by omega, .link hwf hc⟩

/-- the thread at the end of a chain that starts at a thread with work takes an INTERNAL action -/
theorem chain_internal {b : BState} (hg : LiveInv b) {n : Nat} {t : Tid} (hc : Chain b n t) (hw : HasWork b t) :
    ∃ (a : Act) (o : Oracle) (r : BState × Oracle), a.isInternal b = true ∧ stepB b a o = .ok r := by
  induction hc with
  | done he =>
    obtain ⟨v, o, r, h⟩ := he
    refine ⟨_, o, r, ?_, h⟩
    rename_i t
    cases t with
    | sweeper =>
      have : b.sw.atBegin = false := hw
      simp [Tid.act, Act.isInternal, this]
    | _ => rfl
  | link hwf _ ih => exact ih (waitsFor_hasWork hg hwf)

/-- every step of the transitive closure of `WaitsFor b` goes down in rank -/
theorem transGen_rank {b : BState} (hg : LiveInv b) {t t' : Tid} (h : Relation.TransGen (WaitsFor b) t t') :
    waitRank b t' < waitRank b t := by
  induction h with
  | single h => exact waitsFor_rank hg h
  | tail _ h ih => exact Nat.lt_trans (waitsFor_rank hg h) ih

/-! ## 3  the theorems -/

/-- **C18, global, for every state with the invariants** (`LiveInv`; `liveInv_reach`). -/
theorem C18_layerB_no_deadlock_of_inv {b : BState} (hg : LiveInv b) (hnq : ¬ Quiescent b) :
    ∃ (a : Act) (o : Oracle) (r : BState × Oracle), a.isInternal b = true ∧ stepB b a o = .ok r := by
  obtain ⟨t, hw⟩ := hasWork_of_not_quiescent hnq
  obtain ⟨k, _, hc⟩ := chain_of_rank hg (waitRank b t) t (Nat.le_refl _) hw
  exact chain_internal hg hc hw

/-- **C18 — NO DEADLOCK, at every reachable state of every interleaving** (any number of clients, any map of keys to
    store shards): unless the system is quiescent — every client idle, both queues empty (or their consumer gone), the
    worker waiting for a command (or dead), the sweeper waiting for its next tick — SOME thread that has work to do can
    take a step: an internal action (not a new request, not a clock move, not the sweeper's timer tick) is enabled for
    some oracle.  The system as a whole is never stuck. -/
theorem C18_layerB_no_deadlock {cfg : Cfg} {now : Nat} {seeds : List Nat} {clients : Nat} {b : BState}
    (hseeds : seeds ≠ []) (hcmd : 0 < cfg.cmdCap) (hbuf : 0 < cfg.bufChanCap) (hpool : 0 < cfg.poolSize)
    (hr : Reach cfg now seeds clients b) (hnq : ¬ Quiescent b) :
    ∃ (a : Act) (o : Oracle) (r : BState × Oracle), a.isInternal b = true ∧ stepB b a o = .ok r :=
  C18_layerB_no_deadlock_of_inv (liveInv_reach hseeds hcmd hbuf hpool hr) hnq

/-- the wait relation is sound: who waits is not enabled (for any oracle), who is waited for has work to do, and the
    edge goes strictly down in `waitRank` (≤ 3) -/
theorem C18_layerB_waitsFor_sound {b : BState} (hg : LiveInv b) {t t' : Tid} (h : WaitsFor b t t') :
    ¬ Enabled b t ∧ HasWork b t' ∧ waitRank b t' < waitRank b t ∧ waitRank b t ≤ 3 :=
  ⟨waitsFor_blocked h, waitsFor_hasWork hg h, waitsFor_rank hg h, waitRank_le b t⟩

/-- **No wait cycle**: no thread waits, directly or through others, for itself — the Layer B counterpart of
    `C18_no_wait_cycle`. -/
theorem C18_layerB_waitsFor_acyclic {cfg : Cfg} {now : Nat} {seeds : List Nat} {clients : Nat} {b : BState}
    (hseeds : seeds ≠ []) (hcmd : 0 < cfg.cmdCap) (hbuf : 0 < cfg.bufChanCap) (hpool : 0 < cfg.poolSize)
    (hr : Reach cfg now seeds clients b) (t : Tid) : ¬ Relation.TransGen (WaitsFor b) t t := fun h =>
  Nat.lt_irrefl _ (transGen_rank (liveInv_reach hseeds hcmd hbuf hpool hr) h)

/-- **C18, thread by thread.**  At every reachable state, for every thread `t` that has work to do (a client inside
    a call, the worker with a command in hand or in its queue, the consumer with an event, the sweeper inside a sweep):
      * there is a chain `t = t₀ → t₁ → … → tₙ` with `n ≤ 3`, each `tᵢ` waiting (`WaitsFor`) for something `tᵢ₊₁` holds
        or must provide, and `tₙ`'s action IS enabled for some oracle (`n = 0`: `t` itself is enabled);
      * if `t`'s action is not enabled (for any oracle) the chain has at least one link, and `t` waits for its `t₁`;
      * the chain never returns to `t`: nothing reachable from `t` along `WaitsFor` is `t` (no wait cycle). -/
theorem C18_layerB_every_blocked_thread_has_an_enabled_path {cfg : Cfg} {now : Nat} {seeds : List Nat} {clients : Nat}
    {b : BState} (hseeds : seeds ≠ []) (hcmd : 0 < cfg.cmdCap) (hbuf : 0 < cfg.bufChanCap) (hpool : 0 < cfg.poolSize)
    (hr : Reach cfg now seeds clients b) (t : Tid) (hw : HasWork b t) :
    (∃ n, n ≤ 3 ∧ Chain b n t) ∧
    (¬ Enabled b t → ∃ t' n, WaitsFor b t t' ∧ n ≤ 2 ∧ Chain b n t') ∧
    (∀ t', Relation.TransGen (WaitsFor b) t t' → t' ≠ t) := by
  have hg := liveInv_reach hseeds hcmd hbuf hpool hr
  refine ⟨?_, ?_, ?_⟩
  · obtain ⟨k, hk, hc⟩ := chain_of_rank hg (waitRank b t) t (Nat.le_refl _) hw
    exact ⟨k, Nat.le_trans hk (waitRank_le b t), hc⟩
  · intro hne
    rcases thread_progress hg t hw with he | ⟨t', hwf⟩
    · exact absurd he hne
    · have hlt := waitsFor_rank hg hwf
      have := waitRank_le b t
      obtain ⟨k, hk, hc⟩ := chain_of_rank hg (waitRank b t') t' (Nat.le_refl _) (waitsFor_hasWork hg hwf)
      exact ⟨t', k, hwf, by omega, hc⟩
  · intro t' h e
    subst e
    exact Nat.lt_irrefl _ (transGen_rank hg h)

/-- the other threads — no work to do — answer "not enabled" because they wait for the ENVIRONMENT: an idle client for
    its next request, the worker at `recv` / `drain` for a command, the consumer for an event; or they have exited -/
theorem C18_layerB_idle_thread_waits_for_the_environment {b : BState} {t : Tid} (hnw : ¬ HasWork b t)
    (ht : t ≠ .sweeper) : ¬ Enabled b t ∧ ∀ t', ¬ WaitsFor b t t' := by
  refine ⟨no_work_blocked hnw ht, fun t' h => hnw ?_⟩
  cases h with
  | workerWu t' hn _ _ =>
    refine ⟨?_, fun h => ?_⟩ <;> cases hw : b.w <;> simp_all [WPc.needsWu, WPc.exited, WPc.atRest]
  | sweeperWu _ _ _ _ _ _ _ _ _ => exact absurd rfl ht
  | clientWu i pc _ hpc hn _ _ => exact ⟨pc, hpc, by cases pc <;> simp_all [CPc.needsWu, CPc.atIdle]⟩
  | workerShard e he _ =>
    refine ⟨?_, fun h => ?_⟩ <;> cases hw : b.w <;> simp_all [WPc.ttlExpiry?, WPc.exited, WPc.atRest]
  | clientShard i pc e hpc he _ => exact ⟨pc, hpc, by cases pc <;> simp_all [CPc.ttlExpiry?, CPc.atIdle]⟩
  | clientAllShards i _ hpc _ => exact ⟨_, hpc, rfl⟩
  | workerGuard k _ hk _ =>
    refine ⟨?_, fun h => ?_⟩ <;> cases hw : b.w <;> simp_all [WPc.storeKey?, WPc.exited, WPc.atRest]
  | sweeperGuard _ _ _ _ _ _ _ _ => exact absurd rfl ht
  | clientGuard i pc k _ hpc hk _ _ => exact ⟨pc, hpc, by cases pc <;> simp_all [CPc.storeKey?, CPc.atIdle]⟩
  | clientAllGuards i _ _ hpc _ _ => exact ⟨_, hpc, rfl⟩
  | cmdRoom i pc hpc hs _ _ => exact ⟨pc, hpc, by cases pc <;> simp_all [CPc.sendsCmd, CPc.atIdle]⟩
  | bufRoom i hpc _ _ => exact ⟨_, hpc, rfl⟩

/-! ## 4  bounded progress of one call

  "Under weak fairness" is made precise as follows: a call's actions are shown to be enabled IN EVERY STATE in which
  the client stands inside the call (so they stay enabled whatever the other threads do — `other_threads_keep_pc`:
  nobody else moves the client), and the call is shown to be back at `.idle` in every schedule in which the client
  takes the stated number of its own actions (`ownActs`). -/

/-- own actions a `get` still has to take -/
def CPc.getSteps : CPc → Nat
  | .start (.get _) => 3
  | .getStore _ => 2
  | .getPool _ _ => 1
  | _ => 0

/-- own actions a put (`put_with_weight`, `put_with_weight_and_ttl`) still has to take; `id.next` and `cmd.send` are
    shared with `put_or_update`, `cmd.send` also with `delete` -/
def CPc.putSteps : CPc → Nat
  | .start (.putW _ _ _ _) => 4
  | .putPresent _ _ _ _ => 3
  | .idNext _ _ _ _ => 2
  | .send _ => 1
  | _ => 0

theorem CPc.getSteps_le (pc : CPc) : pc.getSteps ≤ 3 := by
  unfold CPc.getSteps
  split <;> omega

theorem CPc.putSteps_le (pc : CPc) : pc.putSteps ≤ 4 := by
  unfold CPc.putSteps
  split <;> omega

/-- the number of actions of client `i` in a schedule -/
def ownActs (i : Nat) (l : List (Act × Oracle)) : Nat :=
  l.countP (fun p => match p.1 with | .client j => j == i | _ => false)

theorem lt_of_getElem? {cl : List CPc} {i : Nat} {pc : CPc} (h : cl[i]? = some pc) : i < cl.length := by
  rcases Nat.lt_or_ge i cl.length with h' | h'
  · exact h'
  · rw [List.getElem?_eq_none h'] at h; cases h

/-- one own action of a `get` brings it strictly closer to its return -/
theorem get_step {b b' : BState} {i : Nat} {pc : CPc} {o o' : Oracle} (hpc : b.cl[i]? = some pc)
    (hm : pc.getSteps ≠ 0) (h : clientAct b i o = .ok (b', o')) :
    ∃ pc', b'.cl[i]? = some pc' ∧ pc'.getSteps < pc.getSteps ∧ (pc'.getSteps = 0 → pc' = .idle) := by
  have hlt := lt_of_getElem? hpc
  have fin : ∀ (b0 : BState) (out : Out), b0.cl = b.cl → (finishCall b0 i out).cl[i]? = some .idle := by
    intro b0 out e
    simp [finishCall, e, List.getElem?_set_self hlt]
  have set : ∀ (b0 : BState) (pc' : CPc), b0.cl = b.cl → (setClient b0 i pc').cl[i]? = some pc' := by
    intro b0 pc' e
    simp [setClient, e, List.getElem?_set_self hlt]
  cases pc with
  | start r =>
    cases r with
    | get k =>
      simp only [clientAct, hpc] at h
      split at h
      · simp only [Except.ok.injEq, Prod.mk.injEq] at h; obtain ⟨rfl, -⟩ := h
        exact ⟨.idle, fin _ _ rfl, by simp [CPc.getSteps], fun _ => rfl⟩
      · simp only [Except.ok.injEq, Prod.mk.injEq] at h; obtain ⟨rfl, -⟩ := h
        exact ⟨.getStore k, set _ _ rfl, by simp [CPc.getSteps], by simp [CPc.getSteps]⟩
    | _ => simp [CPc.getSteps] at hm
  | getStore k =>
    simp only [clientAct, hpc] at h
    split at h
    · split at h
      · simp only [Except.ok.injEq, Prod.mk.injEq] at h; obtain ⟨rfl, -⟩ := h
        exact ⟨.getPool k _, set _ _ rfl, by simp [CPc.getSteps], by simp [CPc.getSteps]⟩
      · simp only [Except.ok.injEq, Prod.mk.injEq] at h; obtain ⟨rfl, -⟩ := h
        exact ⟨.idle, fin _ _ rfl, by simp [CPc.getSteps], fun _ => rfl⟩
    · simp only [Except.ok.injEq, Prod.mk.injEq] at h; obtain ⟨rfl, -⟩ := h
      exact ⟨.idle, fin _ _ rfl, by simp [CPc.getSteps], fun _ => rfl⟩
  | getPool k v =>
    simp only [clientAct, hpc] at h
    split at h
    · simp only [Except.ok.injEq, Prod.mk.injEq] at h; obtain ⟨rfl, -⟩ := h
      exact ⟨.idle, fin _ _ rfl, by simp [CPc.getSteps], fun _ => rfl⟩
    · cases h
  | _ => simp [CPc.getSteps] at hm

/-- one own action of a put brings it strictly closer to its return -/
theorem put_step {b b' : BState} {i : Nat} {pc : CPc} {o o' : Oracle} (hpc : b.cl[i]? = some pc)
    (hm : pc.putSteps ≠ 0) (h : clientAct b i o = .ok (b', o')) :
    ∃ pc', b'.cl[i]? = some pc' ∧ pc'.putSteps < pc.putSteps ∧ (pc'.putSteps = 0 → pc' = .idle) := by
  have hlt := lt_of_getElem? hpc
  have fin : ∀ (b0 : BState) (out : Out), b0.cl = b.cl → (finishCall b0 i out).cl[i]? = some .idle := by
    intro b0 out e
    simp [finishCall, e, List.getElem?_set_self hlt]
  have set : ∀ (b0 : BState) (pc' : CPc), b0.cl = b.cl → (setClient b0 i pc').cl[i]? = some pc' := by
    intro b0 pc' e
    simp [setClient, e, List.getElem?_set_self hlt]
  cases pc with
  | start r =>
    cases r with
    | putW k v w ttl =>
      simp only [clientAct, hpc] at h
      split at h
      · simp only [Except.ok.injEq, Prod.mk.injEq] at h; obtain ⟨rfl, -⟩ := h
        exact ⟨.idle, fin _ _ rfl, by simp [CPc.putSteps], fun _ => rfl⟩
      · split at h
        · simp only [Except.ok.injEq, Prod.mk.injEq] at h; obtain ⟨rfl, -⟩ := h
          exact ⟨.idle, fin _ _ rfl, by simp [CPc.putSteps], fun _ => rfl⟩
        · simp only [Except.ok.injEq, Prod.mk.injEq] at h; obtain ⟨rfl, -⟩ := h
          exact ⟨.putPresent k v w ttl, set _ _ rfl, by simp [CPc.putSteps], by simp [CPc.putSteps]⟩
    | _ => simp [CPc.putSteps] at hm
  | putPresent k v w ttl =>
    simp only [clientAct, hpc] at h
    split at h
    · simp only [Except.ok.injEq, Prod.mk.injEq] at h; obtain ⟨rfl, -⟩ := h
      exact ⟨.idle, fin _ _ rfl, by simp [CPc.putSteps], fun _ => rfl⟩
    · simp only [Except.ok.injEq, Prod.mk.injEq] at h; obtain ⟨rfl, -⟩ := h
      exact ⟨.idNext k v w ttl, set _ _ rfl, by simp [CPc.putSteps], by simp [CPc.putSteps]⟩
  | idNext k v w ttl =>
    simp only [clientAct, hpc, Except.ok.injEq, Prod.mk.injEq] at h
    obtain ⟨rfl, -⟩ := h
    exact ⟨.send _, set _ _ rfl, by simp [CPc.putSteps], by simp [CPc.putSteps]⟩
  | send cmd =>
    simp only [clientAct, hpc] at h
    split at h
    · rename_i b1 hs
      simp only [Except.ok.injEq, Prod.mk.injEq] at h; obtain ⟨rfl, -⟩ := h
      unfold sendAct at hs
      simp only [] at hs
      split at hs
      · simp only [Except.ok.injEq] at hs; subst hs
        exact ⟨.idle, fin _ _ rfl, by simp [CPc.putSteps], fun _ => rfl⟩
      · split at hs
        · cases hs
        · simp only [Except.ok.injEq] at hs; subst hs
          exact ⟨.idle, fin _ _ rfl, by simp [CPc.putSteps], fun _ => rfl⟩
    · cases h
  | _ => simp [CPc.putSteps] at hm

/-- a call whose every own action lowers a measure `m` is back at `.idle` in every schedule in which the client takes
    `m` own actions — whatever the other threads do in between -/
theorem returns_within (m : CPc → Nat) (i : Nat) (hidle : m .idle = 0)
    (hstep : ∀ {b b' : BState} {pc : CPc} {o o' : Oracle}, b.cl[i]? = some pc → m pc ≠ 0 →
      clientAct b i o = .ok (b', o') → ∃ pc', b'.cl[i]? = some pc' ∧ m pc' < m pc ∧ (m pc' = 0 → pc' = .idle)) :
    ∀ (l : List (Act × Oracle)) {b b' : BState} {pc : CPc}, b.cl[i]? = some pc → m pc ≠ 0 → runB b l = .ok b' →
      m pc ≤ ownActs i l → ∃ l1 l2 b1, l = l1 ++ l2 ∧ runB b l1 = .ok b1 ∧ b1.cl[i]? = some .idle := by
  intro l
  induction l with
  | nil =>
    intro b b' pc hpc hm _ hle
    simp [ownActs] at hle
    exact absurd hle hm
  | cons x l ih =>
    intro b b' pc hpc hm hrun hle
    obtain ⟨a, o⟩ := x
    simp only [runB] at hrun
    split at hrun
    · rename_i b1 o1 hs
      have keep : b1.cl[i]? = b.cl[i]? → ownActs i ((a, o) :: l) = ownActs i l →
          ∃ l1 l2 b2, (a, o) :: l = l1 ++ l2 ∧ runB b l1 = .ok b2 ∧ b2.cl[i]? = some .idle := by
        intro hk hc
        obtain ⟨l1, l2, b2, e, hr, hi⟩ := ih (by rw [hk]; exact hpc) hm hrun (by rw [← hc]; exact hle)
        exact ⟨(a, o) :: l1, l2, b2, by rw [e]; rfl, by simp only [runB, hs]; exact hr, hi⟩
      cases a with
      | client j =>
        by_cases hj : j = i
        · subst hj
          obtain ⟨pc', hpc', hlt, hz⟩ := hstep hpc hm hs
          by_cases hm' : m pc' = 0
          · rw [hz hm'] at hpc'
            exact ⟨[(.client j, o)], l, b1, rfl, by simp only [runB, hs], hpc'⟩
          · have hc : ownActs j ((.client j, o) :: l) = ownActs j l + 1 := by
              simp [ownActs]
            obtain ⟨l1, l2, b2, e, hr, hi⟩ := ih hpc' hm' hrun (by omega)
            exact ⟨(.client j, o) :: l1, l2, b2, by rw [e]; rfl, by simp only [runB, hs]; exact hr, hi⟩
        · exact keep (other_threads_keep_pc hs (by intro e; cases e; exact hj rfl) (fun r e => by cases e))
            (by simp [ownActs, hj])
      | issue j r =>
        by_cases hj : j = i
        · subst hj
          cases pc with
          | idle => exact absurd hidle hm
          | _ => simp [stepB, issue, hpc] at hs
        · exact keep (other_threads_keep_pc hs (by intro e; cases e) (fun r e => by cases e; exact hj rfl))
            (by simp [ownActs])
      | worker =>
        exact keep (other_threads_keep_pc hs (by intro e; cases e) (fun r e => by cases e))
          (by simp [ownActs])
      | sweeper v =>
        exact keep (other_threads_keep_pc hs (by intro e; cases e) (fun r e => by cases e))
          (by simp [ownActs])
      | consumer =>
        exact keep (other_threads_keep_pc hs (by intro e; cases e) (fun r e => by cases e))
          (by simp [ownActs])
      | advance d =>
        exact keep (other_threads_keep_pc hs (by intro e; cases e) (fun r e => by cases e))
          (by simp [ownActs])
    · cases hrun

/-- a client that waits stands at a position of positive wait rank -/
theorem client_waits_rank {b : BState} {i : Nat} {t' : Tid} (h : WaitsFor b (.client i) t') :
    ∃ pc, b.cl[i]? = some pc ∧ 0 < pc.waitRank := by
  cases h with
  | clientWu _ pc _ hpc hn _ _ => exact ⟨pc, hpc, by rw [CPc.waitRank_of_needsWu hn]; omega⟩
  | clientShard _ pc e hpc he _ => exact ⟨pc, hpc, by rw [CPc.waitRank_of_ttl he]; omega⟩
  | clientAllShards _ _ hpc _ => exact ⟨_, hpc, by simp [CPc.waitRank]⟩
  | clientGuard _ pc k _ hpc hk _ _ => exact ⟨pc, hpc, by rw [CPc.waitRank_of_storeKey hk]; omega⟩
  | clientAllGuards _ _ _ hpc _ _ => exact ⟨_, hpc, by simp [CPc.waitRank]⟩
  | cmdRoom _ pc hpc hs _ _ => exact ⟨pc, hpc, by rw [CPc.waitRank_of_sendsCmd hs]; omega⟩
  | bufRoom _ hpc _ _ => exact ⟨_, hpc, by simp [CPc.waitRank]⟩

/-- **A `get` waits for nothing** — in EVERY state (no invariant needed), at each of its three positions (`.start`,
    `store.get`, `pool.add`) its action is enabled for every oracle whose head pool index names a buffer (the index
    matters at `pool.add` only): `store.get` reads under the shard's read lock inside the action, `pool.add` takes one
    buffer lock inside the action and hands a full buffer over WITHOUT blocking (`acceptBuffer` drops it when the
    channel is full).  No lock held across schedule points, no queue, no other thread is involved; and the position is
    not one any `WaitsFor` edge starts at. -/
theorem C18_layerB_get_enabled {b : BState} {i : Nat} {pc : CPc} (hpc : b.cl[i]? = some pc) (hm : pc.getSteps ≠ 0)
    (o : Oracle) {idx : Nat} {rest : List Nat} (ho : o.pool = idx :: rest) (hidx : idx < b.g.pool.length) :
    (∃ r, clientAct b i o = .ok r) ∧ ∀ t', ¬ WaitsFor b (.client i) t' := by
  refine ⟨?_, fun t' h => ?_⟩
  · cases pc with
    | start r =>
      cases r with
      | get k =>
        simp only [clientAct, hpc]
        split <;> exact ⟨_, rfl⟩
      | _ => simp [CPc.getSteps] at hm
    | getStore k =>
      simp only [clientAct, hpc]
      (repeat' split) <;> exact ⟨_, rfl⟩
    | getPool k v =>
      have hp : ∃ g1 o', poolAdd b.g (b.g.cfg.hashOf k) o = .ok (g1, o') := by
        unfold poolAdd
        simp only [ho, List.getElem?_eq_getElem hidx]
        exact ⟨_, _, rfl⟩
      obtain ⟨g1, o', hp⟩ := hp
      simp only [clientAct, hpc, hp]
      exact ⟨_, rfl⟩
    | _ => simp [CPc.getSteps] at hm
  · obtain ⟨pc', hpc', hr⟩ := client_waits_rank h
    rw [hpc] at hpc'
    cases hpc'
    cases pc <;> simp [CPc.getSteps] at hm <;> simp [CPc.waitRank] at hr

/-- **A `get` returns within three of its own actions**: from any state in which client `i` stands inside a `get`
    (`getSteps` = 3, 2, 1 own actions left), along ANY schedule — whatever the other threads, the clock and the other
    clients do in between — as soon as the client has taken `getSteps` own actions the call has returned (some prefix
    of the schedule ends with the client at `.idle`).  With `C18_layerB_get_enabled` (its action is enabled at every
    such state) this is the bounded-progress statement under weak fairness: a continuously enabled thread that is
    eventually scheduled three times is done. -/
theorem C18_layerB_get_returns {b b' : BState} {i : Nat} {pc : CPc} (hpc : b.cl[i]? = some pc)
    (hm : pc.getSteps ≠ 0) (l : List (Act × Oracle)) (hrun : runB b l = .ok b') (hfair : pc.getSteps ≤ ownActs i l) :
    pc.getSteps ≤ 3 ∧ ∃ l1 l2 b1, l = l1 ++ l2 ∧ runB b l1 = .ok b1 ∧ b1.cl[i]? = some .idle :=
  ⟨pc.getSteps_le, returns_within CPc.getSteps i rfl (fun h1 h2 h3 => get_step h1 h2 h3) l hpc hm hrun hfair⟩

/-- **A put's only wait is `cmd.send` on a full queue**: in EVERY state, at each position of a put (`.start`,
    `store.present`, `id.next`, `cmd.send`) the action is enabled for every oracle — except at `cmd.send` while the
    worker's receiver is alive and the command queue is full; then the client `WaitsFor` the worker (`cmdRoom`).
    (A dead worker does not block: the send fails at once and the call returns `Err`.) -/
theorem C18_layerB_put_enabled_unless_full {b : BState} {i : Nat} {pc : CPc} (hpc : b.cl[i]? = some pc)
    (hm : pc.putSteps ≠ 0) (o : Oracle) :
    (∃ r, clientAct b i o = .ok r) ∨
    ((∃ cmd, pc = .send cmd) ∧ b.g.worker ≠ .dead ∧ b.g.queue.length ≥ b.g.cfg.cmdCap ∧
      WaitsFor b (.client i) .worker) := by
  cases pc with
  | start r =>
    cases r with
    | putW k v w ttl =>
      left
      simp only [clientAct, hpc]
      (repeat' split) <;> exact ⟨_, rfl⟩
    | _ => simp [CPc.putSteps] at hm
  | putPresent k v w ttl =>
    left
    simp only [clientAct, hpc]
    split <;> exact ⟨_, rfl⟩
  | idNext k v w ttl =>
    left
    simp only [clientAct, hpc]
    exact ⟨_, rfl⟩
  | send cmd =>
    by_cases hd : b.g.worker = .dead
    · left
      simp only [clientAct, hpc, sendAct, hd, if_true]
      exact ⟨_, rfl⟩
    · by_cases hq : b.g.queue.length ≥ b.g.cfg.cmdCap
      · exact Or.inr ⟨⟨cmd, rfl⟩, hd, hq, .cmdRoom i _ hpc rfl hd hq⟩
      · left
        simp only [clientAct, hpc, sendAct, hd, hq, if_false]
        exact ⟨_, rfl⟩
  | _ => simp [CPc.putSteps] at hm

/-- **A put returns within four of its own actions** (`.start`, `store.present`, `id.next`, `cmd.send`): along any
    schedule in which the client takes `putSteps` own actions the call has returned.  Its first three actions are
    always enabled; `cmd.send` is enabled whenever the queue has room or the worker is dead
    (`C18_layerB_put_enabled_unless_full`), and while it is not, the worker has work and an enabled path
    (`C18_layerB_put_send_waits_for_a_live_worker`) whose `recv` makes room (`C18_layerB_worker_makes_room`).
    NOTE on fairness: `cmd.send` is enabled again and again (after every `recv`) but not CONTINUOUSLY when other
    clients compete for the room — so weak fairness suffices for `get`, for the `cmd.send` of a put it takes strong
    fairness (or no competing sender); the model, like a bounded channel, does not order the waiting senders. -/
theorem C18_layerB_put_returns {b b' : BState} {i : Nat} {pc : CPc} (hpc : b.cl[i]? = some pc)
    (hm : pc.putSteps ≠ 0) (l : List (Act × Oracle)) (hrun : runB b l = .ok b') (hfair : pc.putSteps ≤ ownActs i l) :
    pc.putSteps ≤ 4 ∧ ∃ l1 l2 b1, l = l1 ++ l2 ∧ runB b l1 = .ok b1 ∧ b1.cl[i]? = some .idle :=
  ⟨pc.putSteps_le, returns_within CPc.putSteps i rfl (fun h1 h2 h3 => put_step h1 h2 h3) l hpc hm hrun hfair⟩

/-- at a reachable state, a client blocked at `cmd.send` waits for the worker, the worker is alive and has a command
    to take or in hand, and from the worker a chain of at most TWO links leads to an enabled thread -/
theorem C18_layerB_put_send_waits_for_a_live_worker {cfg : Cfg} {now : Nat} {seeds : List Nat} {clients : Nat}
    {b : BState} (hseeds : seeds ≠ []) (hcmd : 0 < cfg.cmdCap) (hbuf : 0 < cfg.bufChanCap) (hpool : 0 < cfg.poolSize)
    (hr : Reach cfg now seeds clients b) {i : Nat} {cmd : Cmd} (hpc : b.cl[i]? = some (.send cmd))
    (hblocked : ¬ Enabled b (.client i)) :
    WaitsFor b (.client i) .worker ∧ HasWork b .worker ∧ ∃ n, n ≤ 2 ∧ Chain b n .worker := by
  have hg := liveInv_reach hseeds hcmd hbuf hpool hr
  rcases C18_layerB_put_enabled_unless_full hpc (by simp [CPc.putSteps]) {} with ⟨r, h⟩ | ⟨_, _, _, hwf⟩
  · exact absurd ⟨none, {}, r, h⟩ hblocked
  · have hw := waitsFor_hasWork hg hwf
    obtain ⟨k, hk, hc⟩ := chain_of_rank hg (waitRank b .worker) .worker (Nat.le_refl _) hw
    exact ⟨hwf, hw, k, Nat.le_trans hk (WPc.waitRank_le b.w), hc⟩

/-- **The worker makes room**: at a reachable state, an action of the worker at `worker.recv` / `worker.drain` takes
    one command out of the queue; afterwards the queue is not full (it never holds more than `cmdCap` commands:
    `qbound_reach`), so EVERY client standing at `cmd.send` is enabled — the wait `cmdRoom` ends with the very next
    command the worker takes. -/
theorem C18_layerB_worker_makes_room {cfg : Cfg} {now : Nat} {seeds : List Nat} {clients : Nat} {b b' : BState}
    {o o' : Oracle} (hr : Reach cfg now seeds clients b) (hrest : b.w = .recv ∨ b.w = .drain)
    (h : stepB b .worker o = .ok (b', o')) :
    b'.g.queue.length + 1 = b.g.queue.length ∧ b'.g.queue.length < b'.g.cfg.cmdCap ∧
    ∀ (i : Nat) (cmd : Cmd) (oc : Oracle), b'.cl[i]? = some (.send cmd) → ∃ r, stepB b' (.client i) oc = .ok r := by
  have hb := qbound_reach hr
  have hcfg := stepB_cfg h
  have hlen : b'.g.queue.length + 1 = b.g.queue.length := by
    have ht := workerAct_trans h
    cases ht <;> simp_all
  have hlt : b'.g.queue.length < b'.g.cfg.cmdCap := by rw [hcfg]; omega
  refine ⟨hlen, hlt, ?_⟩
  intro i cmd oc hpc
  have hq : ¬ b'.g.queue.length ≥ b'.g.cfg.cmdCap := by omega
  by_cases hd : b'.g.worker = .dead
  · simp only [stepB, clientAct, hpc, sendAct, hd, if_true]
    exact ⟨_, rfl⟩
  · simp only [stepB, clientAct, hpc, sendAct, hd, hq, if_false]
    exact ⟨_, rfl⟩

/-! ## 5  non-vacuity -/

/-- queue size 1, pool size 1, one expiry shard (maximal lock sharing) -/
def cfgQ1 : Cfg := { maxWeight := 10, shards := 1, cmdCap := 1, poolSize := 1, bufSize := 2, counters := 2 }

/-- key 1 (weight 3, TTL 5 ns) is put and expires; the sweeper takes it out of `kw`, subtracts its weight and stops
    at its `store.remove`, OWNING `weight_used`; a put of key 2 is received and re-checked by the worker, which then
    stands at `wu.space`; a put of key 3 fills the command queue (capacity 1); client 1's put of key 4 reaches
    `cmd.send`. -/
def chainRunA : List (Act × Oracle) :=
  call 0 (.putW 1 100 3 (some 5)) 4 ++ workerN 7 ++
  [(.advance 10, noO), (.sweeper none, noO), (.sweeper (some 1), noO), (.sweeper none, noO), (.sweeper none, noO)] ++
  call 0 (.putW 2 200 4 none) 4 ++ workerN 2 ++
  call 0 (.putW 3 300 1 none) 4 ++
  call 1 (.putW 4 400 1 none) 3

/-- the same with client 2 keeping a `get_ref` guard on key 1 (taken while key 1 was alive): now the sweeper's
    `store.remove` of key 1 waits for that guard -/
def chainRunB : List (Act × Oracle) :=
  call 0 (.putW 1 100 3 (some 5)) 4 ++ workerN 7 ++ call 2 (.getRef 1) 2 ++
  [(.advance 10, noO), (.sweeper none, noO), (.sweeper (some 1), noO), (.sweeper none, noO), (.sweeper none, noO)] ++
  call 0 (.putW 2 200 4 none) 4 ++ workerN 2 ++
  call 0 (.putW 3 300 1 none) 4 ++
  call 1 (.putW 4 400 1 none) 3

/-- the wait chain asked for, as the model answers it: client 1 at `cmd.send` (queue full) → worker at `wu.space`
    (`weight_used` locked) → sweeper at `store.remove` owning `weight_used`, ENABLED; the state is not quiescent -/
example :
    (match runB (BState.init cfgQ1 0 [1, 2, 3, 4] 3) chainRunA with
     | .ok b =>
       decide (¬ Quiescent b) && decide (b.wuOwner = some .sweeper ∧ b.g.queue.length = 1 ∧ b.g.cfg.cmdCap = 1) &&
       (match b.cl[1]?, b.w, b.sw with
        | some (CPc.send _), WPc.space0 _, SPc.store _ _ _ _ _ => true
        | _, _, _ => false) &&
       (match stepB b (.client 1) noO with
        | .error m => m == "not enabled: the command queue is full"
        | _ => false) &&
       (match stepB b .worker noO with
        | .error m => m == "not enabled: weight_used is locked"
        | _ => false) &&
       (match stepB b (.sweeper none) noO with
        | .ok (b1, _) => decide (b1.wuOwner = none) && (match stepB b1 .worker noO with | .ok _ => true | _ => false)
        | _ => false)
     | _ => false) = true := by decide

/-- what `decide` checks of the state after `chainRunA` -/
def chainFacts (b : BState) : Bool :=
  decide (¬ Quiescent b) &&
  (match b.cl[1]? with | some pc => pc.sendsCmd | none => false) &&
  decide (b.g.worker ≠ .dead) && decide (b.g.queue.length ≥ b.g.cfg.cmdCap) &&
  b.w.needsWu && decide (b.wuOwner = some .sweeper)

def chainFactsA (b : BState) : Bool :=
  chainFacts b && (match sweeperAct b none with | .ok _ => true | .error _ => false)

/-- **A reachable non-quiescent state with the wait chain client → worker → sweeper** (`WaitsFor`, `Chain`): client 1
    at `cmd.send` on a full queue waits for the worker, the worker at `wu.space` waits for the sweeper (owner of
    `weight_used`, at its `store.remove`), the sweeper is enabled; neither the client nor the worker is. -/
theorem C18_layerB_wait_chain_witness :
    ∃ b, Reach cfgQ1 0 [1, 2, 3, 4] 3 b ∧ ¬ Quiescent b ∧ WaitsFor b (.client 1) .worker ∧
      WaitsFor b .worker .sweeper ∧ Enabled b .sweeper ∧ ¬ Enabled b (.client 1) ∧ ¬ Enabled b .worker ∧
      Chain b 2 (.client 1) := by
  have hrun : ∃ b, runB (BState.init cfgQ1 0 [1, 2, 3, 4] 3) chainRunA = .ok b ∧ chainFactsA b = true := by
    refine ⟨_, rfl, ?_⟩
    decide
  obtain ⟨b, hb, hf⟩ := hrun
  simp only [chainFactsA, chainFacts, Bool.and_eq_true, decide_eq_true_eq] at hf
  obtain ⟨⟨⟨⟨⟨⟨h1, h2⟩, h3⟩, h4⟩, h5⟩, h6⟩, h7⟩ := hf
  have hcw : WaitsFor b (.client 1) .worker := by
    cases hc : b.cl[1]? with
    | none => simp [hc] at h2
    | some pc =>
      simp only [hc] at h2
      exact .cmdRoom 1 pc hc h2 h3 h4
  have hws : WaitsFor b .worker .sweeper := .workerWu .sweeper h5 h6 (by simp)
  have hen : Enabled b .sweeper := by
    cases hs : sweeperAct b none with
    | error m => simp [hs] at h7
    | ok b' => exact ⟨none, {}, (b', {}), by simp only [Tid.act, stepB, hs]⟩
  exact ⟨b, reach_runB _ (.init []) hb, h1, hcw, hws, hen, waitsFor_blocked hcw, waitsFor_blocked hws,
    .link hcw (.link hws (.done hen))⟩

/-- what `decide` checks of the state after `chainRunB` -/
def chainFactsB (b : BState) : Bool :=
  chainFacts b &&
  (match b.cl[2]?, b.sw with
   | some (CPc.refPool k _), SPc.store _ _ _ _ wk =>
     decide (storeShardOf b k = storeShardOf b wk.key ∧ (2, storeShardOf b wk.key) ∈ b.storeReaders)
   | _, _ => false) &&
  (match clientAct b 2 { pool := [0] } with | .ok _ => true | .error _ => false)

/-- **A wait chain of the maximal length three**: client 1 at `cmd.send` (queue full) → worker at `wu.space` → sweeper
    at `store.remove`, owning `weight_used` → client 2 at `pool.add` of a `get_ref`, keeping the read guard of the
    store shard; client 2 is enabled (and its action drops the guard). -/
theorem C18_layerB_longest_wait_chain_witness :
    ∃ b, Reach cfgQ1 0 [1, 2, 3, 4] 3 b ∧ ¬ Quiescent b ∧ WaitsFor b (.client 1) .worker ∧
      WaitsFor b .worker .sweeper ∧ WaitsFor b .sweeper (.client 2) ∧ Enabled b (.client 2) ∧
      ¬ Enabled b (.client 1) ∧ ¬ Enabled b .worker ∧ ¬ Enabled b .sweeper ∧ Chain b 3 (.client 1) := by
  have hrun : ∃ b, runB (BState.init cfgQ1 0 [1, 2, 3, 4] 3) chainRunB = .ok b ∧ chainFactsB b = true := by
    refine ⟨_, rfl, ?_⟩
    decide
  obtain ⟨b, hb, hf⟩ := hrun
  simp only [chainFactsB, chainFacts, Bool.and_eq_true, decide_eq_true_eq] at hf
  obtain ⟨⟨⟨⟨⟨⟨⟨hnq, h2⟩, h3⟩, h4⟩, h5⟩, h6⟩, h8⟩, h9⟩ := hf
  have hcw : WaitsFor b (.client 1) .worker := by
    cases hc : b.cl[1]? with
    | none => simp [hc] at h2
    | some pc =>
      simp only [hc] at h2
      exact .cmdRoom 1 pc hc h2 h3 h4
  have hws : WaitsFor b .worker .sweeper := .workerWu .sweeper h5 h6 (by simp)
  have hsc : WaitsFor b .sweeper (.client 2) := by
    cases hc : b.cl[2]? with
    | none => simp [hc] at h8
    | some pc =>
      cases pc with
      | refPool k v =>
        cases hsw : b.sw with
        | store n sh r id wk =>
          simp only [hc, hsw, decide_eq_true_eq] at h8
          exact .sweeperGuard n sh r id wk 2 hsw ⟨k, v, hc, h8.1, h8.2⟩
        | _ => simp [hc, hsw] at h8
      | _ => simp [hc] at h8
  have hen : Enabled b (.client 2) := by
    cases hs : clientAct b 2 { pool := [0] } with
    | error m => simp [hs] at h9
    | ok r => exact ⟨none, { pool := [0] }, r, hs⟩
  exact ⟨b, reach_runB _ (.init []) hb, hnq, hcw, hws, hsc, hen, waitsFor_blocked hcw, waitsFor_blocked hws,
    waitsFor_blocked hsc, .link hcw (.link hws (.link hsc (.done hen)))⟩

/-- quiescent states: the initial state, and the state after a put has been sent and executed to its end -/
example : Quiescent (BState.init cfgQ1 0 [1, 2, 3, 4] 3) := by decide

example :
    (match runB (BState.init cfgQ1 0 [1, 2, 3, 4] 3) (call 0 (.putW 1 100 3 (some 5)) 4 ++ workerN 7) with
     | .ok b => decide (Quiescent b ∧ b.g.store.contains 1 = true ∧ b.g.adm.used = 3)
     | _ => false) = true := by decide

/-- … and not quiescent in between: the command sits in the queue, the worker has work -/
example :
    (match runB (BState.init cfgQ1 0 [1, 2, 3, 4] 3) (call 0 (.putW 1 100 3 (some 5)) 4) with
     | .ok b => decide (¬ Quiescent b ∧ b.g.queue.length = 1) &&
       (match stepB b .worker noO with | .ok _ => true | _ => false)
     | _ => false) = true := by decide

/-- the hypotheses of `C18_layerB_get_returns` are satisfiable, and its conclusion is what the model does: key 1 is in
    the store; client 1 has issued `get(1)` (three own actions to go); in a schedule in which other threads act in
    between (a clock move, client 0 issuing and starting a `delete(1)`) its third own action returns the value -/
example :
    (match runB (BState.init cfgQ1 0 [1, 2, 3, 4] 3)
        (call 0 (.putW 1 100 3 none) 4 ++ workerN 6 ++ [(.issue 1 (.get 1), noO)]) with
     | .ok b =>
       (match b.cl[1]? with | some pc => pc.getSteps == 3 | none => false) &&
       (let l : List (Act × Oracle) :=
          [(.client 1, noO), (.advance 1, noO), (.issue 0 (.delete 1), noO), (.client 1, noO), (.client 0, noO),
           (.client 1, { pool := [0] })]
        decide (ownActs 1 l = 3) &&
        (match runB b l with
         | .ok b' =>
           (match b'.cl[1]?, b'.res[1]? with
            | some CPc.idle, some [Out.value (some 100)] => true
            | _, _ => false)
         | _ => false))
     | _ => false) = true := by decide

/-- the hypotheses of `C18_layerB_put_returns` are satisfiable: in the state of `C18_layerB_wait_chain_witness` client 1
    stands at `cmd.send` (one own action to go) and is blocked; once the sweeper has released `weight_used`, the worker
    has finished its put and has taken the next command, the send is enabled and the call returns an acknowledgement -/
example :
    (match runB (BState.init cfgQ1 0 [1, 2, 3, 4] 3) chainRunA with
     | .ok b =>
       (match b.cl[1]? with | some pc => pc.putSteps == 1 | none => false) &&
       (match stepB b (.client 1) noO with | .error _ => true | _ => false) &&
       (let l : List (Act × Oracle) := [(.sweeper none, noO)] ++ workerN 5 ++ [(.client 1, noO)]
        decide (ownActs 1 l = 1) &&
        (match runB b l with
         | .ok b' =>
           (match b'.cl[1]?, b'.res[1]? with
            | some CPc.idle, some [Out.ack _ Status.pending] => true
            | _, _ => false)
         | _ => false))
     | _ => false) = true := by decide

/-! ### the hypothesis `0 < cmdCap` is needed -/

/-- a command queue of capacity 0 (the crate's builder refuses it: `command_buffer_size > 0`) -/
def cfgQ0 : Cfg := { maxWeight := 10, shards := 1, cmdCap := 0, poolSize := 1, bufSize := 2, counters := 2 }

def stuckFacts (b : BState) : Bool :=
  decide (¬ Quiescent b) &&
  (match b.cl[0]? with | some pc => pc.sendsCmd | none => false) &&
  decide (b.g.worker ≠ .dead) && decide (b.g.queue.length ≥ b.g.cfg.cmdCap) && decide (b.cl.length = 1) &&
  b.w.atRest && decide (b.g.queue = []) && decide (b.g.bufq = []) && b.sw.atBegin

/-- **Without `0 < cmdCap` the global statement is false of the model** (a degenerate configuration, not a defect of
    the crate: its builder asserts `command_buffer_size > 0`, and a crossbeam `bounded(0)` channel is a rendezvous
    channel, not one that never accepts): with `cmdCap = 0` the model's `cmd.send` is never enabled, so after the three
    first actions of a put the only client stands at `cmd.send` for ever — the state is reachable, not quiescent,
    and NO internal action is enabled for any oracle. -/
theorem C18_layerB_no_deadlock_needs_cmdCap :
    ∃ b, Reach cfgQ0 0 [1, 2, 3, 4] 1 b ∧ ¬ Quiescent b ∧
      ∀ (a : Act) (o : Oracle) (r : BState × Oracle), a.isInternal b = true → stepB b a o ≠ .ok r := by
  have hrun : ∃ b, runB (BState.init cfgQ0 0 [1, 2, 3, 4] 1) (call 0 (.putW 1 100 3 none) 3) = .ok b ∧
      stuckFacts b = true := by
    refine ⟨_, rfl, ?_⟩
    decide
  obtain ⟨b, hb, hf⟩ := hrun
  simp only [stuckFacts, Bool.and_eq_true, decide_eq_true_eq] at hf
  obtain ⟨⟨⟨⟨⟨⟨⟨⟨h1, h2⟩, h3⟩, h4⟩, h5⟩, h6⟩, h7⟩, h8⟩, h9⟩ := hf
  refine ⟨b, reach_runB _ (.init []) hb, h1, ?_⟩
  intro a o r hint hstep
  cases a with
  | issue i q => simp [Act.isInternal] at hint
  | advance d => simp [Act.isInternal] at hint
  | sweeper v => simp [Act.isInternal, h9] at hint
  | worker =>
    refine no_work_blocked (t := .worker) (fun hw => hw.2 h6 h7) (by simp) ⟨none, o, r, hstep⟩
  | consumer =>
    refine no_work_blocked (t := .consumer) (fun hw => hw.2 h8) (by simp) ⟨none, o, r, hstep⟩
  | client i =>
    cases i with
    | zero =>
      cases hc : b.cl[0]? with
      | none => simp [hc] at h2
      | some pc =>
        simp only [hc] at h2
        exact waitsFor_blocked (.cmdRoom 0 pc hc h2 h3 h4) ⟨none, o, r, hstep⟩
    | succ j =>
      have hnone : b.cl[j + 1]? = none := List.getElem?_eq_none (by omega)
      refine no_work_blocked (t := .client (j + 1)) ?_ (by simp) ⟨none, o, r, hstep⟩
      rintro ⟨pc, hpc, _⟩
      rw [hnone] at hpc
      cases hpc

end B
end Cached
