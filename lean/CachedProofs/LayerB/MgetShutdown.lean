/-
  Layer B (action granularity, EVERY interleaving): what a multi-key read returns once the shutdown flag is set, the
  `res.length` invariant, and the admission rule (C06) at the worker's own positions.

  Why this file.  `C13_layerB_mget_refused`, `C13_layerB_mget_after_flag`, `C13_layerB_mget_iter_after_flag`
  (Theorems.lean) say "a multi-key read that meets a set flag returns no (further) value" for a SOLO run only
  (`runB b (List.replicate n (.client i, o))`: client `i` alone).  The theorems that hold along every interleaving
  (`C02_layerB_mget_current`, `C13_layerB_mget_around_shutdown`) never conclude anything from `b0.g.shutting = true`.
  Here the clause of C13 "after `shutdown()` has set the flag every read returns absent or empty" is proved for the
  multi-key reads along EVERY history `RunH b0 h b` (any actions of any threads, client `i` issuing nothing new,
  idle at the end) — the same run/history notion as `C13_layerB_mget_around_shutdown`.

  1. `C13_layerB_mget_issued_after_flag_returns_empty`: issued (`.start (.mget ks iter)`) with the flag set ⟹ the call
     records `.values []`.
  2. `C13_layerB_mget_after_flag_any_interleaving` (general, any position of the read, `ms_final`), with the explicit
     per-position corollaries `C13_layerB_mget_flag_outer_any`, `C13_layerB_mget_flag_inner_any`,
     `C13_layerB_mget_store_any`, `C13_layerB_mget_pool_any`, and the uniform form
     `C13_layerB_mget_no_value_after_flag_seen`: the result is `acc ++ rest`, no value in `rest` behind its first entry,
     no value at all from a flag-load position, and a value in the first entry only for the ONE lookup that is already
     past its flag load (`.mgetStore`: the value of the alive entry at that lookup, `MgetHit`; `.mgetPool`: the value
     carried).
  3. `C02_layerB_res_length` (`Reach … b → b.res.length = b.cl.length`), and `C02_layerB_mget_current'`,
     `C13_layerB_mget_around_shutdown'` (and the primed forms of 1./2.) without the hypothesis `hres`.
  4. C06 per action of the worker: `C06_layerB_loopDecide` / `C06_layerB_evict_step` (the decision after a (re)fill),
     `C06_layerB_accept_step` (the only ways into `.insert c`), `C06_layerB_space_carried`,
     `C06_layerB_sampleInit_short` (reachable: the value carried from `space0` is short), `C06_layerB_charge_step`,
     `C06_layerB_victim_step`, `C06_layerB_reject_noSpace_step`.

  All helper names carry the prefix `ms_`.
-/
import CachedProofs.LayerB.Theorems

namespace Cached
namespace B

/-! ## 3  `res.length = cl.length` -/

theorem ms_stepB_lengths {b b' : BState} {a : Act} {o o' : Oracle} (h : stepB b a o = .ok (b', o')) :
    b'.res.length = b.res.length ∧ b'.cl.length = b.cl.length := by
  cases a with
  | issue j r =>
    simp only [stepB] at h
    split at h
    · rename_i b1 hi
      simp only [Except.ok.injEq, Prod.mk.injEq] at h; obtain ⟨rfl, rfl⟩ := h
      unfold issue at hi
      split at hi
      · simp only [Except.ok.injEq] at hi; subst hi
        simp [setClient]
      · cases hi
    · cases h
  | client j =>
    have ht := clientAct_trans h
    obtain ⟨_, pc', _, hcl, _⟩ := ctrans_cl ht
    refine ⟨?_, by rw [hcl, List.length_set]⟩
    rcases ctrans_res ht with e | ⟨out, e⟩
    · rw [e]
    · rw [e, List.length_set]
  | worker =>
    have ht := workerAct_trans h
    rw [wtrans_res ht, (wtrans_cl ht).1]; exact ⟨rfl, rfl⟩
  | sweeper v =>
    simp only [stepB] at h
    split at h
    · rename_i b1 hs'
      simp only [Except.ok.injEq, Prod.mk.injEq] at h; obtain ⟨rfl, rfl⟩ := h
      have ht := sweeperAct_trans hs'
      rw [strans_res ht, (strans_frame ht).2.1]; exact ⟨rfl, rfl⟩
    · cases h
  | consumer =>
    simp only [stepB] at h
    split at h
    · simp only [Except.ok.injEq, Prod.mk.injEq] at h; obtain ⟨rfl, rfl⟩ := h
      exact ⟨rfl, rfl⟩
    · cases h
  | advance d =>
    simp only [stepB, Except.ok.injEq, Prod.mk.injEq] at h; obtain ⟨rfl, rfl⟩ := h
    exact ⟨rfl, rfl⟩

/-- **The result table has one slot per client, at every reachable state**: `BState.init` creates `clients` slots of
    each, `issue` / `setClient` / `finishCall` only `set` into them, no other thread touches either list. -/
theorem C02_layerB_res_length {cfg : Cfg} {now : Nat} {seeds : List Nat} {clients : Nat} {b : BState}
    (h : Reach cfg now seeds clients b) : b.res.length = b.cl.length := by
  induction h with
  | init sm => simp [BState.init]
  | step _ hs ih =>
    obtain ⟨h1, h2⟩ := ms_stepB_lengths hs
    rw [h1, h2, ih]

/-- … both are the number of clients the cache was started with -/
theorem C02_layerB_cl_length {cfg : Cfg} {now : Nat} {seeds : List Nat} {clients : Nat} {b : BState}
    (h : Reach cfg now seeds clients b) : b.cl.length = clients := by
  induction h with
  | init sm => simp [BState.init]
  | step _ hs ih => rw [(ms_stepB_lengths hs).2, ih]

/-- a client that stands somewhere has a result slot -/
theorem ms_res_slot {cfg : Cfg} {now : Nat} {seeds : List Nat} {clients : Nat} {b : BState}
    (h : Reach cfg now seeds clients b) {i : Nat} {pc : CPc} (hpc : b.cl[i]? = some pc) : i < b.res.length := by
  rw [C02_layerB_res_length h]
  rcases Nat.lt_or_ge i b.cl.length with h' | h'
  · exact h'
  · rw [List.getElem?_eq_none h'] at hpc; cases hpc

/-- `C02_layerB_mget_current` without `hres` (the start state is reachable) -/
theorem C02_layerB_mget_current' {cfg : Cfg} {now : Nat} {seeds : List Nat} {clients : Nat}
    {b0 b : BState} {h : List (BState × Act)} {i : Nat} {ks : List Nat} {iter : Bool}
    (hreach : Reach cfg now seeds clients b0)
    (hrun : RunH b0 h b) (hstart : b0.cl[i]? = some (.start (.mget ks iter)))
    (hno : ∀ p ∈ h, ∀ r, p.2 ≠ .issue i r) (hidle : b.cl[i]? = some .idle) :
    ∃ out, b.res[i]? = some (.values out :: b0.res.getD i []) ∧ out.length ≤ ks.length ∧
      (iter = false → out = [] ∨ out.length = ks.length) ∧
      ∀ j v, out[j]? = some (some v) → ∃ k, ks[j]? = some k ∧ MgetHit h i j k v :=
  C02_layerB_mget_current hrun hstart (ms_res_slot hreach hstart) hno hidle

/-- `C13_layerB_mget_around_shutdown` without `hres` (the start state is reachable) -/
theorem C13_layerB_mget_around_shutdown' {cfg : Cfg} {now : Nat} {seeds : List Nat} {clients : Nat}
    {b0 b : BState} {h : List (BState × Act)} {i : Nat} {ks : List Nat} {iter : Bool}
    (hreach : Reach cfg now seeds clients b0)
    (hrun : RunH b0 h b) (hstart : b0.cl[i]? = some (.start (.mget ks iter)))
    (hno : ∀ p ∈ h, ∀ r, p.2 ≠ .issue i r) (hidle : b.cl[i]? = some .idle) :
    ∃ out, b.res[i]? = some (.values out :: b0.res.getD i []) ∧
      (∀ j, out[j]? = some none → ∃ k, ks[j]? = some k ∧ (MgetMiss h i j k ∨ MgetRefused h i j k)) ∧
      (∀ j k, MgetRefused h i j k → ∀ j' v, j ≤ j' → out[j']? ≠ some (some v)) :=
  C13_layerB_mget_around_shutdown hrun hstart (ms_res_slot hreach hstart) hno hidle

/-! ## 1, 2  a multi-key read under a set flag, along every interleaving

  With the flag set (and it stays set: `C13_layerB_flag_permanent`) every position of a multi-key read other than the
  lookup `.mgetStore` has ONE possible final result, `ms_out`; the lookup has the results `acc ++ x :: pad` with `x` the
  outcome of that lookup.  `ms_pad`: what follows the key in hand — `multi_get` answers `None` for every key still to
  come (one load inside `get` per key, each finds the flag set), an iterator stops at its next own load. -/

/-- what a read adds for the keys `ks` still to come once the flag is set: `multi_get` one `None` each, an iterator
    nothing -/
def ms_pad (iter : Bool) (ks : List Nat) : List (Option Nat) :=
  if iter then [] else ks.map (fun _ => none)

/-- the final result of a read standing at a position other than the lookup, the flag set -/
def ms_out : CPc → List (Option Nat)
  | .mgetFlag true _ acc _ => acc
  | .mgetFlag false [] acc _ => acc
  | .mgetFlag false (_ :: rest) acc iter => acc ++ none :: ms_pad iter rest
  | .mgetPool _ v ks acc iter => acc ++ some v :: ms_pad iter ks
  | _ => []

/-- the positions of a multi-key read at which the result is already determined once the flag is set -/
def ms_det : CPc → Bool
  | .start (.mget _ _) | .mgetFlag _ _ _ _ | .mgetPool _ _ _ _ _ => true
  | _ => false

/-- the positions of a multi-key read (issued, or inside) -/
def ms_pos : CPc → Bool
  | .start (.mget _ _) | .mgetFlag _ _ _ _ | .mgetPool _ _ _ _ _ | .mgetStore _ _ _ _ => true
  | _ => false

/-- the results gathered at a position -/
def ms_acc : CPc → List (Option Nat)
  | .mgetFlag _ _ acc _ | .mgetStore _ _ acc _ | .mgetPool _ _ _ acc _ => acc
  | _ => []

@[simp] theorem ms_pad_nil (iter : Bool) : ms_pad iter [] = [] := by cases iter <;> rfl

/-- after an action of client `i` from `b`: the call has returned `out`, or the client stands at a determined position
    whose final result is `out`, nothing recorded yet -/
def ms_Lands (b b' : BState) (i : Nat) (out : List (Option Nat)) : Prop :=
  (b'.cl[i]? = some .idle ∧ b'.res = b.res.set i (.values out :: b.res.getD i [])) ∨
  (∃ c', b'.cl[i]? = some c' ∧ ms_det c' = true ∧ ms_out c' = out ∧ b'.res = b.res)

theorem ms_lt_of_pc {b : BState} {i : Nat} {c : CPc} (hpc : b.cl[i]? = some c) : i < b.cl.length := by
  rcases Nat.lt_or_ge i b.cl.length with h | h
  · exact h
  · rw [List.getElem?_eq_none h] at hpc; cases hpc

theorem ms_lands_finish (b : BState) (i : Nat) (out : List (Option Nat)) (hi : i < b.cl.length) :
    ms_Lands b (finishCall b i (.values out)) i out :=
  Or.inl ⟨by simp [finishCall, List.getElem?_set_self hi], rfl⟩

/-- moving on to the next key: the final result is what has been gathered plus the padding -/
theorem ms_lands_mgetNext (b : BState) (i : Nat) (ks : List Nat) (acc : List (Option Nat)) (iter : Bool)
    (hi : i < b.cl.length) : ms_Lands b (mgetNext b i ks acc iter) i (acc ++ ms_pad iter ks) := by
  cases ks with
  | nil =>
    rw [mgetNext_nil, ms_pad_nil, List.append_nil]
    exact ms_lands_finish b i acc hi
  | cons k rest =>
    rw [mgetNext_cons]
    refine Or.inr ⟨.mgetFlag iter (k :: rest) acc iter, by simp [setClient, List.getElem?_set_self hi], rfl, ?_, rfl⟩
    cases iter <;> simp [ms_out, ms_pad]

/-- **one action of the read at a determined position, the flag set**: the final result does not change -/
theorem ms_det_step {b b' : BState} {i : Nat} {c : CPc} {o o' : Oracle} (hs : b.g.shutting = true)
    (hpc : b.cl[i]? = some c) (hdet : ms_det c = true) (h : clientAct b i o = .ok (b', o')) :
    ms_Lands b b' i (ms_out c) := by
  have hi := ms_lt_of_pc hpc
  cases c with
  | start r =>
    cases r with
    | mget ks iter =>
      obtain ⟨rfl, _⟩ := clientAct_mgetStart hpc h
      rcases mgetStart_spec b i ks iter with ⟨_, _, e⟩ | ⟨_, e⟩ <;> rw [e]
      · exact ms_lands_finish b i [] hi
      · exact Or.inr ⟨.mgetFlag true ks [] iter, by simp [setClient, List.getElem?_set_self hi], rfl, rfl, rfl⟩
    | _ => simp [ms_det] at hdet
  | mgetFlag outer ks acc iter =>
    obtain ⟨rfl, _⟩ := clientAct_mgetFlag hpc h
    rcases mgetFlagAct_spec b i outer ks acc iter with ⟨hc, e⟩ | ⟨k, rest, _, _, hsh, e⟩ |
      ⟨k, rest, rfl, rfl, _, e⟩ | ⟨k, rest, _, _, hsh, e⟩
    · rw [e]
      have : ms_out (.mgetFlag outer ks acc iter) = acc := by
        rcases hc with rfl | ⟨rfl, _⟩
        · cases outer <;> rfl
        · rfl
      rw [this]
      exact ms_lands_finish b i acc hi
    · rw [hs] at hsh; cases hsh
    · rw [e]
      have := ms_lands_mgetNext b i rest (acc ++ [none]) iter hi
      simpa [ms_out] using this
    · rw [hs] at hsh; cases hsh
  | mgetPool k v ks acc iter =>
    obtain ⟨g1, _, rfl⟩ := C02_layerB_mget_pool hpc h
    have := ms_lands_mgetNext { b with g := g1 } i ks (acc ++ [some v]) iter hi
    simpa [ms_out, ms_Lands] using this
  | _ => simp [ms_det] at hdet

/-- the possible final results of a read standing at position `c` with the flag set, given the history `h` in which the
    rest of the read takes place: determined everywhere but at the lookup, where the ONE lookup still to be done decides
    the entry for its key — a value only as a hit of that very lookup (`MgetHit`), `None` only as a counted miss of it
    (`MgetMiss`) -/
def ms_final (h : List (BState × Act)) (i : Nat) (c : CPc) (out : List (Option Nat)) : Prop :=
  match c with
  | .mgetStore k ks acc iter =>
    ∃ x, out = acc ++ x :: ms_pad iter ks ∧ (∀ v, x = some v → MgetHit h i acc.length k v) ∧
      (x = none → MgetMiss h i acc.length k)
  | _ => out = ms_out c

theorem ms_final_det {h : List (BState × Act)} {i : Nat} {c : CPc} (hdet : ms_det c = true) :
    ms_final h i c (ms_out c) := by
  cases c <;> first | rfl | (simp [ms_det] at hdet)

theorem ms_final.mono {h : List (BState × Act)} {i : Nat} {c : CPc} {out : List (Option Nat)} (p : BState × Act)
    (hh : ms_final h i c out) : ms_final (p :: h) i c out := by
  cases c
  case mgetStore k ks acc iter =>
    obtain ⟨x, e, h1, h2⟩ := hh
    exact ⟨x, e, fun v hv => (h1 v hv).mono p, fun hx => (h2 hx).mono p⟩
  all_goals exact hh

/-- the invariant of the run: client `i` has not moved yet; or it stands at a determined position whose result is one of
    the results allowed from the start position; or it has returned such a result -/
def ms_Inv (h : List (BState × Act)) (i : Nat) (c0 : CPc) (r0 : List Out) (pc : Option CPc) (ri : Option (List Out)) :
    Prop :=
  (pc = some c0 ∧ ri = some r0) ∨
  (∃ c, pc = some c ∧ ri = some r0 ∧ ms_det c = true ∧ ms_final h i c0 (ms_out c)) ∨
  (∃ out, pc = some .idle ∧ ri = some (.values out :: r0) ∧ ms_final h i c0 out)

theorem ms_Inv.mono {h : List (BState × Act)} {i : Nat} {c0 : CPc} {r0 : List Out} {pc : Option CPc}
    {ri : Option (List Out)} (p : BState × Act) (hh : ms_Inv h i c0 r0 pc ri) : ms_Inv (p :: h) i c0 r0 pc ri := by
  rcases hh with hA | ⟨c, h1, h2, h3, h4⟩ | ⟨out, h1, h2, h3⟩
  · exact Or.inl hA
  · exact Or.inr (Or.inl ⟨c, h1, h2, h3, h4.mono p⟩)
  · exact Or.inr (Or.inr ⟨out, h1, h2, h3.mono p⟩)

theorem ms_inv_of_lands {h : List (BState × Act)} {i : Nat} {c0 : CPc} {r0 : List Out} {b b' : BState}
    {out : List (Option Nat)} (hl : ms_Lands b b' i out) (hr : b.res[i]? = some r0) (hf : ms_final h i c0 out) :
    ms_Inv h i c0 r0 b'.cl[i]? b'.res[i]? := by
  have hri : i < b.res.length := by
    rcases Nat.lt_or_ge i b.res.length with h' | h'
    · exact h'
    · rw [List.getElem?_eq_none h'] at hr; cases hr
  rcases hl with ⟨hcl, hres⟩ | ⟨c', hcl, hd, ho, hres⟩
  · refine Or.inr (Or.inr ⟨out, hcl, ?_, hf⟩)
    have hgetD : b.res.getD i [] = r0 := by
      rw [List.getD_eq_getElem?_getD, hr]; rfl
    rw [hres, List.getElem?_set_self hri, hgetD]
  · subst ho
    exact Or.inr (Or.inl ⟨c', hcl, by rw [hres, hr], hd, hf⟩)

/-- one step of any thread (no new `issue` by client `i`), the flag set, keeps the invariant -/
theorem ms_inv_step {h : List (BState × Act)} {i : Nat} {c0 : CPc} {r0 : List Out} {b b' : BState} {a : Act}
    {o o' : Oracle} (hinv : ms_Inv h i c0 r0 b.cl[i]? b.res[i]?) (hc0 : ms_pos c0 = true)
    (hsh : b.g.shutting = true) (hs : stepB b a o = .ok (b', o')) (hno : ∀ r, a ≠ .issue i r) :
    ms_Inv ((b, a) :: h) i c0 r0 b'.cl[i]? b'.res[i]? := by
  by_cases ha : a = .client i
  · subst ha
    simp only [stepB] at hs
    rcases hinv with ⟨hpc, hr⟩ | ⟨c, hpc, hr, hd, hf⟩ | ⟨out, hpc, _, _⟩
    · -- the first action of client `i` in this run
      by_cases hd : ms_det c0 = true
      · exact ms_inv_of_lands (ms_det_step hsh hpc hd hs) hr (ms_final_det hd)
      · cases c0 with
        | mgetStore k ks acc iter =>
          have hi := ms_lt_of_pc hpc
          rcases (C02_layerB_mget_store hpc hs).1 with ⟨e, he, hal, hcl, hres⟩ | ⟨hmiss, rfl⟩
          · -- a hit: the value of the alive entry at this instant is carried to `pool.add`
            refine Or.inr (Or.inl ⟨.mgetPool k e.value ks acc iter, ?_, by rw [hres, hr], rfl, ?_⟩)
            · rw [hcl, List.getElem?_set_self hi]
            · refine ⟨some e.value, rfl, ?_, fun hx => by cases hx⟩
              intro v hv
              cases hv
              exact ⟨(b, .client i), List.mem_cons_self, rfl, ks, acc, iter, hpc, rfl, e, he, hal, rfl⟩
          · -- a counted miss
            have hl := ms_lands_mgetNext
              { b with g := { b.g with stats := { b.g.stats with misses := b.g.stats.misses + 1 } } } i ks
              (acc ++ [none]) iter hi
            refine ms_inv_of_lands (b := b) hl hr ?_
            refine ⟨none, ?_, ?_, ?_⟩
            · simp
            · intro v hv; cases hv
            · intro _
              exact ⟨(b, .client i), List.mem_cons_self, rfl, ks, acc, iter, hpc, rfl, hmiss⟩
        | start r => cases r <;> simp [ms_det, ms_pos] at hd hc0
        | mgetFlag _ _ _ _ => simp [ms_det] at hd
        | mgetPool _ _ _ _ _ => simp [ms_det] at hd
        | _ => simp [ms_pos] at hc0
    · exact ms_inv_of_lands (ms_det_step hsh hpc hd hs) hr (hf.mono _)
    · simp [clientAct, hpc] at hs
  · rw [other_threads_keep_pc hs ha hno, other_threads_keep_res hs ha]
    exact hinv.mono _

/-- the invariant (and the flag) along every run that starts with the flag set and client `i` inside a multi-key read -/
theorem ms_inv_run {b0 b : BState} {h : List (BState × Act)} {i : Nat} {c0 : CPc} (hrun : RunH b0 h b)
    (hsh : b0.g.shutting = true) (hpc : b0.cl[i]? = some c0) (hc0 : ms_pos c0 = true) (hres : i < b0.res.length)
    (hno : ∀ p ∈ h, ∀ r, p.2 ≠ .issue i r) :
    ms_Inv h i c0 (b0.res.getD i []) b.cl[i]? b.res[i]? ∧ b.g.shutting = true := by
  induction hrun with
  | nil =>
    refine ⟨Or.inl ⟨hpc, ?_⟩, hsh⟩
    rw [List.getD_eq_getElem?_getD, List.getElem?_eq_getElem hres]; rfl
  | step hprev hs ih =>
    obtain ⟨hinv, hsh'⟩ := ih (fun p hp => hno p (List.mem_cons_of_mem _ hp))
    exact ⟨ms_inv_step hinv hc0 hsh' hs (fun r => hno _ List.mem_cons_self r), stepB_shutting_mono hs hsh'⟩

/-- **C13, multi-key reads, every interleaving (general form).**  The flag is set in `b0` and client `i` stands at ANY
    position `c0` of a multi-key read — issued (`.start (.mget ks iter)`), before a load of the flag (`.mgetFlag`), at a
    lookup (`.mgetStore`) or at the `pool.add` of a hit (`.mgetPool`).  `h` is ANY history of actions of any threads
    from there (client `i` issuing nothing new) to a state in which client `i` is idle again.  Then the call has
    recorded `.values out` with `ms_final h i c0 out`: `out = ms_out c0` at every position but the lookup, and
    `out = acc ++ x :: ms_pad iter ks` at the lookup, `x` a value only as a hit of THAT lookup, `None` only as a counted
    miss of it. -/
theorem C13_layerB_mget_after_flag_any_interleaving {b0 b : BState} {h : List (BState × Act)} {i : Nat} {c0 : CPc}
    (hrun : RunH b0 h b) (hsh : b0.g.shutting = true) (hpc : b0.cl[i]? = some c0) (hc0 : ms_pos c0 = true)
    (hres : i < b0.res.length) (hno : ∀ p ∈ h, ∀ r, p.2 ≠ .issue i r) (hidle : b.cl[i]? = some .idle) :
    ∃ out, b.res[i]? = some (.values out :: b0.res.getD i []) ∧ ms_final h i c0 out := by
  have key := (ms_inv_run hrun hsh hpc hc0 hres hno).1
  rw [hidle] at key
  rcases key with ⟨e, _⟩ | ⟨c, e, _, hd, _⟩ | ⟨out, _, h2, h3⟩
  · cases e
    simp [ms_pos] at hc0
  · cases e
    simp [ms_det] at hd
  · exact ⟨out, h2, h3⟩

/-- **C13 (1): a multi-key read issued after the flag is set returns no values — along every interleaving.**
    `multi_get` (`iter = false`) and the iterators (`iter = true`), any keys `ks`: whatever the other threads do between
    and around the (at most two) actions of the call, the call records `.values []`. -/
theorem C13_layerB_mget_issued_after_flag_returns_empty {b0 b : BState} {h : List (BState × Act)} {i : Nat}
    {ks : List Nat} {iter : Bool} (hrun : RunH b0 h b) (hsh : b0.g.shutting = true)
    (hstart : b0.cl[i]? = some (.start (.mget ks iter))) (hres : i < b0.res.length)
    (hno : ∀ p ∈ h, ∀ r, p.2 ≠ .issue i r) (hidle : b.cl[i]? = some .idle) :
    b.res[i]? = some (.values [] :: b0.res.getD i []) := by
  obtain ⟨out, h1, h2⟩ := C13_layerB_mget_after_flag_any_interleaving hrun hsh hstart rfl hres hno hidle
  cases h2
  exact h1

/-- **C13 (2a): before the OUTER load** (`next()`'s own load / the load at the entry of `multi_get`) with the flag set:
    the read returns exactly what it has gathered. -/
theorem C13_layerB_mget_flag_outer_any {b0 b : BState} {h : List (BState × Act)} {i : Nat}
    {ks : List Nat} {acc : List (Option Nat)} {iter : Bool} (hrun : RunH b0 h b) (hsh : b0.g.shutting = true)
    (hpc : b0.cl[i]? = some (.mgetFlag true ks acc iter)) (hres : i < b0.res.length)
    (hno : ∀ p ∈ h, ∀ r, p.2 ≠ .issue i r) (hidle : b.cl[i]? = some .idle) :
    b.res[i]? = some (.values acc :: b0.res.getD i []) := by
  obtain ⟨out, h1, h2⟩ := C13_layerB_mget_after_flag_any_interleaving hrun hsh hpc rfl hres hno hidle
  cases h2
  exact h1

/-- **C13 (2b): before the load INSIDE `get`** with the flag set: no lookup is done any more; `multi_get` answers `None`
    for this and every remaining key, an iterator yields one `None` (for the key in hand) and stops. -/
theorem C13_layerB_mget_flag_inner_any {b0 b : BState} {h : List (BState × Act)} {i : Nat}
    {ks : List Nat} {acc : List (Option Nat)} {iter : Bool} (hrun : RunH b0 h b) (hsh : b0.g.shutting = true)
    (hpc : b0.cl[i]? = some (.mgetFlag false ks acc iter)) (hres : i < b0.res.length)
    (hno : ∀ p ∈ h, ∀ r, p.2 ≠ .issue i r) (hidle : b.cl[i]? = some .idle) :
    b.res[i]? = some (.values (acc ++ (if iter then ks.take 1 else ks).map (fun _ => none)) :: b0.res.getD i []) := by
  obtain ⟨out, h1, h2⟩ := C13_layerB_mget_after_flag_any_interleaving hrun hsh hpc rfl hres hno hidle
  have : out = acc ++ (if iter then ks.take 1 else ks).map (fun _ => none) := by
    rw [h2]
    cases ks <;> cases iter <;> simp [ms_out, ms_pad]
  rw [← this]; exact h1

/-- **C13 (2c): at the lookup** (`store.get` of key `k`; its flag load lies behind it) with the flag set: this ONE lookup
    is still done — `x` is the value of the entry alive at that instant (`MgetHit`) or `None` as a counted miss
    (`MgetMiss`) — and nothing after it is a value: `multi_get` pads with `None`s, an iterator stops. -/
theorem C13_layerB_mget_store_any {b0 b : BState} {h : List (BState × Act)} {i k : Nat}
    {ks : List Nat} {acc : List (Option Nat)} {iter : Bool} (hrun : RunH b0 h b) (hsh : b0.g.shutting = true)
    (hpc : b0.cl[i]? = some (.mgetStore k ks acc iter)) (hres : i < b0.res.length)
    (hno : ∀ p ∈ h, ∀ r, p.2 ≠ .issue i r) (hidle : b.cl[i]? = some .idle) :
    ∃ x, b.res[i]? = some (.values (acc ++ x :: (if iter then [] else ks.map (fun _ => none))) :: b0.res.getD i []) ∧
      (∀ v, x = some v → MgetHit h i acc.length k v) ∧ (x = none → MgetMiss h i acc.length k) := by
  obtain ⟨out, h1, x, rfl, h3, h4⟩ := C13_layerB_mget_after_flag_any_interleaving hrun hsh hpc rfl hres hno hidle
  exact ⟨x, h1, h3, h4⟩

/-- **C13 (2d): at the `pool.add` of a hit** with the flag set: the value already picked up is still delivered, nothing
    after it is a value. -/
theorem C13_layerB_mget_pool_any {b0 b : BState} {h : List (BState × Act)} {i k v : Nat}
    {ks : List Nat} {acc : List (Option Nat)} {iter : Bool} (hrun : RunH b0 h b) (hsh : b0.g.shutting = true)
    (hpc : b0.cl[i]? = some (.mgetPool k v ks acc iter)) (hres : i < b0.res.length)
    (hno : ∀ p ∈ h, ∀ r, p.2 ≠ .issue i r) (hidle : b.cl[i]? = some .idle) :
    b.res[i]? = some (.values (acc ++ some v :: (if iter then [] else ks.map (fun _ => none))) :: b0.res.getD i []) := by
  obtain ⟨out, h1, h2⟩ := C13_layerB_mget_after_flag_any_interleaving hrun hsh hpc rfl hres hno hidle
  cases h2
  exact h1

theorem ms_pad_none {iter : Bool} {ks : List Nat} {x : Option Nat} (hx : x ∈ ms_pad iter ks) : x = none := by
  cases iter
  · simp [ms_pad] at hx; exact hx.2.symm
  · simp [ms_pad] at hx

/-- **C13 (2), uniform: no value after the flag has been seen set — along every interleaving.**  The flag is set in `b0`
    and client `i` stands INSIDE a multi-key read (`c0.isMget`: `.mgetFlag`, `.mgetStore` or `.mgetPool`) with `acc`
    gathered (`ms_acc c0`).  The final result is `acc ++ rest` where
    * nothing in `rest` behind its first entry is a value,
    * from a flag-load position NOTHING in `rest` is a value (no lookup is done any more),
    * the first entry of `rest` is a value `v` only for the ONE lookup already past its flag load: `c0` is the
      `pool.add` carrying `v`, or `c0` is the lookup of `k` and `v` is the value of the alive entry of `k` at the instant
      of that lookup (`MgetHit`),
    * `rest` has at most one entry per key still open (`multi_get`), at most one entry at all (iterators). -/
theorem C13_layerB_mget_no_value_after_flag_seen {b0 b : BState} {h : List (BState × Act)} {i : Nat} {c0 : CPc}
    (hrun : RunH b0 h b) (hsh : b0.g.shutting = true) (hpc : b0.cl[i]? = some c0) (hc0 : c0.isMget = true)
    (hres : i < b0.res.length) (hno : ∀ p ∈ h, ∀ r, p.2 ≠ .issue i r) (hidle : b.cl[i]? = some .idle) :
    ∃ rest, b.res[i]? = some (.values (ms_acc c0 ++ rest) :: b0.res.getD i []) ∧
      (∀ x ∈ rest.drop 1, x = none) ∧
      (∀ outer ks acc iter, c0 = .mgetFlag outer ks acc iter → ∀ x ∈ rest, x = none) ∧
      (∀ v, rest[0]? = some (some v) →
        (∃ k ks acc iter, c0 = .mgetPool k v ks acc iter) ∨
        (∃ k ks acc iter, c0 = .mgetStore k ks acc iter ∧ MgetHit h i acc.length k v)) ∧
      (∀ outer ks acc iter, c0 = .mgetFlag outer ks acc iter → rest.length ≤ ks.length) ∧
      (∀ k ks acc iter, c0 = .mgetStore k ks acc iter → rest.length ≤ ks.length + 1) ∧
      (∀ k v ks acc iter, c0 = .mgetPool k v ks acc iter → rest.length ≤ ks.length + 1) ∧
      (∀ outer ks acc, c0 = .mgetFlag outer ks acc true → rest.length ≤ 1) := by
  have hp : ms_pos c0 = true := by cases c0 <;> first | rfl | (simp [CPc.isMget] at hc0)
  obtain ⟨out, h1, h2⟩ := C13_layerB_mget_after_flag_any_interleaving hrun hsh hpc hp hres hno hidle
  cases c0 with
  | mgetFlag outer ks acc iter =>
    have hout : out = ms_out (.mgetFlag outer ks acc iter) := h2
    have hform : ∃ rest, out = acc ++ rest ∧ (∀ x ∈ rest, x = none) ∧ rest.length ≤ ks.length ∧
        (iter = true → rest.length ≤ 1) := by
      cases outer
      · cases ks with
        | nil => exact ⟨[], by rw [hout]; simp [ms_out], by simp, by simp, by simp⟩
        | cons k rest' =>
          refine ⟨none :: ms_pad iter rest', by rw [hout]; rfl, ?_, ?_, ?_⟩
          · intro x hx
            rcases List.mem_cons.mp hx with rfl | hx
            · rfl
            · exact ms_pad_none hx
          · cases iter <;> simp [ms_pad]
          · rintro rfl; simp [ms_pad]
      · exact ⟨[], by rw [hout]; simp [ms_out], by simp, by simp, by simp⟩
    obtain ⟨rest, e, hn, hl, hl1⟩ := hform
    subst e
    refine ⟨rest, h1, fun x hx => hn x (List.mem_of_mem_drop hx), ?_, ?_, ?_, ?_, ?_, ?_⟩
    · intro _ _ _ _ _; exact hn
    · intro v hv
      have := hn _ (List.mem_of_getElem? hv)
      cases this
    · intro _ _ _ _ e; cases e; exact hl
    · intro _ _ _ _ e; cases e
    · intro _ _ _ _ _ e; cases e
    · intro _ _ _ e; cases e; exact hl1 rfl
  | mgetStore k ks acc iter =>
    obtain ⟨x, rfl, h3, _⟩ := h2
    refine ⟨x :: ms_pad iter ks, h1, fun y hy => ms_pad_none (by simpa using hy), ?_, ?_, ?_, ?_, ?_, ?_⟩
    · intro _ _ _ _ e; cases e
    · intro v hv
      simp only [List.getElem?_cons_zero, Option.some.injEq] at hv
      exact Or.inr ⟨k, ks, acc, iter, rfl, h3 v hv⟩
    · intro _ _ _ _ e; cases e
    · intro _ _ _ _ e; cases e
      cases iter <;> simp [ms_pad]
    · intro _ _ _ _ _ e; cases e
    · intro _ _ _ e; cases e
  | mgetPool k v ks acc iter =>
    have hout : out = acc ++ some v :: ms_pad iter ks := h2
    subst hout
    refine ⟨some v :: ms_pad iter ks, h1, fun y hy => ms_pad_none (by simpa using hy), ?_, ?_, ?_, ?_, ?_, ?_⟩
    · intro _ _ _ _ e; cases e
    · intro v' hv
      simp only [List.getElem?_cons_zero, Option.some.injEq] at hv
      subst hv
      exact Or.inl ⟨k, ks, acc, iter, rfl⟩
    · intro _ _ _ _ e; cases e
    · intro _ _ _ _ e; cases e
    · intro _ _ _ _ _ e; cases e
      cases iter <;> simp [ms_pad]
    · intro _ _ _ e; cases e
  | _ => simp [CPc.isMget] at hc0

/-! ### 1, 2 from a reachable state (no `hres`) -/

theorem C13_layerB_mget_after_flag_any_interleaving' {cfg : Cfg} {now : Nat} {seeds : List Nat} {clients : Nat}
    {b0 b : BState} {h : List (BState × Act)} {i : Nat} {c0 : CPc} (hreach : Reach cfg now seeds clients b0)
    (hrun : RunH b0 h b) (hsh : b0.g.shutting = true) (hpc : b0.cl[i]? = some c0) (hc0 : ms_pos c0 = true)
    (hno : ∀ p ∈ h, ∀ r, p.2 ≠ .issue i r) (hidle : b.cl[i]? = some .idle) :
    ∃ out, b.res[i]? = some (.values out :: b0.res.getD i []) ∧ ms_final h i c0 out :=
  C13_layerB_mget_after_flag_any_interleaving hrun hsh hpc hc0 (ms_res_slot hreach hpc) hno hidle

/-- **C13 (1), from any reachable state**: a multi-key read issued after the flag is set records `.values []`, along
    every interleaving. -/
theorem C13_layerB_mget_issued_after_flag_returns_empty' {cfg : Cfg} {now : Nat} {seeds : List Nat} {clients : Nat}
    {b0 b : BState} {h : List (BState × Act)} {i : Nat} {ks : List Nat} {iter : Bool}
    (hreach : Reach cfg now seeds clients b0) (hrun : RunH b0 h b) (hsh : b0.g.shutting = true)
    (hstart : b0.cl[i]? = some (.start (.mget ks iter)))
    (hno : ∀ p ∈ h, ∀ r, p.2 ≠ .issue i r) (hidle : b.cl[i]? = some .idle) :
    b.res[i]? = some (.values [] :: b0.res.getD i []) :=
  C13_layerB_mget_issued_after_flag_returns_empty hrun hsh hstart (ms_res_slot hreach hstart) hno hidle

/-- **C13 (2), from any reachable state** -/
theorem C13_layerB_mget_no_value_after_flag_seen' {cfg : Cfg} {now : Nat} {seeds : List Nat} {clients : Nat}
    {b0 b : BState} {h : List (BState × Act)} {i : Nat} {c0 : CPc} (hreach : Reach cfg now seeds clients b0)
    (hrun : RunH b0 h b) (hsh : b0.g.shutting = true) (hpc : b0.cl[i]? = some c0) (hc0 : c0.isMget = true)
    (hno : ∀ p ∈ h, ∀ r, p.2 ≠ .issue i r) (hidle : b.cl[i]? = some .idle) :
    ∃ rest, b.res[i]? = some (.values (ms_acc c0 ++ rest) :: b0.res.getD i []) ∧
      (∀ x ∈ rest.drop 1, x = none) ∧
      (∀ outer ks acc iter, c0 = .mgetFlag outer ks acc iter → ∀ x ∈ rest, x = none) ∧
      (∀ v, rest[0]? = some (some v) →
        (∃ k ks acc iter, c0 = .mgetPool k v ks acc iter) ∨
        (∃ k ks acc iter, c0 = .mgetStore k ks acc iter ∧ MgetHit h i acc.length k v)) ∧
      (∀ outer ks acc iter, c0 = .mgetFlag outer ks acc iter → rest.length ≤ ks.length) ∧
      (∀ k ks acc iter, c0 = .mgetStore k ks acc iter → rest.length ≤ ks.length + 1) ∧
      (∀ k v ks acc iter, c0 = .mgetPool k v ks acc iter → rest.length ≤ ks.length + 1) ∧
      (∀ outer ks acc, c0 = .mgetFlag outer ks acc true → rest.length ≤ 1) :=
  C13_layerB_mget_no_value_after_flag_seen hrun hsh hpc hc0 (ms_res_slot hreach hpc) hno hidle

/-! ## 4  C06 at the worker's own positions (per action; hence under every interleaving)

  All C06 theorems of Properties/C06.lean are about Layer A's `maybeAdd` / `createLoop`, where a put runs from its first
  space check to its answer in ONE step.  Layer B's worker goes through `space0` → `sampleInit` → (`evRemove` → `evSub` →
  `evStore` → `evSpace` → `fill`)* → `emptySpace`? → `insert` → `add`, any other thread running in between; the two are
  tied only when the worker runs alone (`worker_refines`).  The statements below are about ONE action of the worker in
  ANY state `b` — so they hold at that action in every interleaving, whatever the other threads did before it.

  What differs from Layer A under interleaving:
  * the three `wu.space` reads (`space0`, `evSpace`, `emptySpace`) each see the CURRENT `max - used`: weight freed by the
    sweeper (or a `delete` of the same worker earlier, or `shutdown()`'s `wu_zero`) between two of them is seen, weight
    charged by nobody else (only the worker charges);
  * the value read at `space0` / `evSpace` is CARRIED (`sampleInit … space …`, `fill … space`) to the decision that
    follows the (re)fill (`loopDecide`): that decision compares the carried value, not the current one
    (`C06_layerB_space_carried`);
  * when the sample runs dry the worker re-reads (`emptySpace`): space freed meanwhile by the sweeper IS seen there and the
    put is accepted — in Layer A (nobody else runs) that re-check can never succeed after a short `space`;
  * a victim chosen at the decision may have been removed by the sweeper before `evRemove` runs: then nothing is
    subtracted for it (`C06_layerB_victim_step`, second case) and the loop goes on. -/

/-- **The decision after a (re)fill** (`create_space`'s loop, pure part): with the carried `space`
    * enough → on to `kw.insert`;
    * short and the sample dry → on to the re-check `emptySpace`;
    * short, and the heap pops `k`: `k` is a COLDEST key of the sample (a member; smallest estimate, and among those the
      heaviest — the maximum of the reversed order `SKey.cmp`) and
        - `incEst < k.est` (the victim is hotter than the incoming key): the put is answered `rejected noSpace` and the
          worker is back at `recv`: nothing further is evicted;
        - `k.est ≤ incEst`: `k` is the victim, on to its `kw.remove`, the sample without it carried along. -/
theorem C06_layerB_loopDecide {b b' : BState} {c : PutCmd} {incEst : Nat} {sample : List SKey} {space : Int}
    {o o' : Oracle} (h : loopDecide b c incEst sample space o = .ok (b', o')) :
    (space ≥ c.w ∧ b' = { b with w := .insert c } ∧ o' = o) ∨
    (space < c.w ∧ sample = [] ∧ b' = { b with w := .emptySpace c } ∧
      ∃ pops, o.pops = none :: pops ∧ o' = { o with pops := pops }) ∨
    (space < c.w ∧ ∃ k pops, o.pops = some k.id :: pops ∧ o' = { o with pops := pops } ∧ k.coldestOf sample ∧
      ((incEst < k.est ∧ b' = rejectCmd b c.h (.rejected .noSpace)) ∨
       (k.est ≤ incEst ∧ b' = { b with w := .evRemove c incEst (sample.filter (fun x => x.id != k.id)) k }))) := by
  unfold loopDecide at h
  split at h
  · rename_i hsp
    simp only [Except.ok.injEq, Prod.mk.injEq] at h
    exact Or.inl ⟨hsp, h.1.symm, h.2.symm⟩
  · rename_i hsp
    have hlt : space < c.w := by omega
    split at h
    · cases h
    · rename_i pops hp
      split at h
      · cases h
      · rename_i hemp
        simp only [Except.ok.injEq, Prod.mk.injEq] at h
        refine Or.inr (Or.inl ⟨hlt, ?_, h.1.symm, pops, hp, h.2.symm⟩)
        cases sample with
        | nil => rfl
        | cons x xs => simp at hemp
    · rename_i id pops hp
      split at h
      · cases h
      · rename_i k hk
        obtain ⟨hmem, hid⟩ := find?_id_some hk
        subst hid
        split at h
        · cases h
        · rename_i hmax
          have hcold : k.coldestOf sample := (SKey.isMaxOf_iff_coldestOf hmem).mp (by simpa using hmax)
          split at h
          · rename_i hhot
            simp only [Except.ok.injEq, Prod.mk.injEq] at h
            exact Or.inr (Or.inr ⟨hlt, k, pops, hp, h.2.symm, hcold, Or.inl ⟨hhot, h.1.symm⟩⟩)
          · rename_i hcolder
            simp only [Except.ok.injEq, Prod.mk.injEq] at h
            exact Or.inr (Or.inr ⟨hlt, k, pops, hp, h.2.symm, hcold, Or.inr ⟨by omega, h.1.symm⟩⟩)

/-- what `rejected noSpace` leaves behind: the answer, one more rejected key in the statistics, the worker at `recv` —
    the admission state (`max`, `used`, `kw`), the store and the expiry index untouched -/
theorem C06_layerB_reject_noSpace_step (b : BState) (h : Option Nat) :
    (rejectCmd b h (.rejected .noSpace)).w = .recv ∧
    (rejectCmd b h (.rejected .noSpace)).g.adm = b.g.adm ∧
    (rejectCmd b h (.rejected .noSpace)).g.store = b.g.store ∧
    (rejectCmd b h (.rejected .noSpace)).g.ttl = b.g.ttl ∧
    (rejectCmd b h (.rejected .noSpace)).g.acks = setAck b.g.acks h (.rejected .noSpace) ∧
    (rejectCmd b h (.rejected .noSpace)).g.stats.keysRejected = b.g.stats.keysRejected + 1 :=
  ⟨rfl, rfl, rfl, rfl, rfl, rfl⟩

/-- **C06, the eviction decision of Layer B's worker, per action.**  The worker stands at `sample.init`
    (`.sampleInit c space incEst`, no sample yet: `old = []`) or at `sample.fill` (`.fill c incEst old space`); its action
    (re)fills the sample from the CURRENT `key_weights` and decides with the carried `space`
    (`C06_layerB_loopDecide`): a victim is a coldest key of the filled sample — lowest estimate first, heaviest among
    equals — and it goes on to be evicted only if its estimate does not exceed the incoming key's (`k.est ≤ incEst`);
    otherwise the put is answered `rejected noSpace`, nothing further is evicted
    (`C06_layerB_reject_noSpace_step`).  In the three cases that go on, nothing shared has changed. -/
theorem C06_layerB_evict_step {b b' : BState} {o o' : Oracle} {c : PutCmd} {incEst : Nat} {old : List SKey}
    {space : Int} (hw : (b.w = .sampleInit c space incEst ∧ old = []) ∨ b.w = .fill c incEst old space)
    (h : workerAct b o = .ok (b', o')) :
    ∃ sample o1,
      fillSample b.g.lfu b.g.adm.kw (fillNeed b.g.cfg.sampleSize b.g.adm.kw old) old o = .ok (sample, o1) ∧
      ((space ≥ c.w ∧ b' = { b with w := .insert c }) ∨
       (space < c.w ∧ sample = [] ∧ b' = { b with w := .emptySpace c }) ∨
       (space < c.w ∧ ∃ k, k.coldestOf sample ∧
         ((incEst < k.est ∧ b' = rejectCmd b c.h (.rejected .noSpace)) ∨
          (k.est ≤ incEst ∧
            b' = { b with w := .evRemove c incEst (sample.filter (fun x => x.id != k.id)) k })))) := by
  have key : ∀ {sample o1}, loopDecide b c incEst sample space o1 = .ok (b', o') →
      ((space ≥ c.w ∧ b' = { b with w := .insert c }) ∨
       (space < c.w ∧ sample = [] ∧ b' = { b with w := .emptySpace c }) ∨
       (space < c.w ∧ ∃ k, k.coldestOf sample ∧
         ((incEst < k.est ∧ b' = rejectCmd b c.h (.rejected .noSpace)) ∨
          (k.est ≤ incEst ∧
            b' = { b with w := .evRemove c incEst (sample.filter (fun x => x.id != k.id)) k })))) := by
    intro sample o1 hd
    rcases C06_layerB_loopDecide hd with ⟨h1, h2, _⟩ | ⟨h1, h2, h3, _⟩ | ⟨h1, k, _, _, _, hc, h4⟩
    · exact Or.inl ⟨h1, h2⟩
    · exact Or.inr (Or.inl ⟨h1, h2, h3⟩)
    · exact Or.inr (Or.inr ⟨h1, k, hc, h4⟩)
  rcases hw with ⟨hw, rfl⟩ | hw
  · simp only [workerAct, hw] at h
    split at h
    · cases h
    · rename_i sample o1 hf
      exact ⟨sample, o1, hf, key h⟩
  · simp only [workerAct, hw] at h
    split at h
    · cases h
    · rename_i sample o1 hf
      exact ⟨sample, o1, hf, key h⟩

/-- **The victim's `kw.remove`** (`.evRemove c incEst sample victim`): the ONLY thing the action may take out of
    `key_weights` is the victim chosen at the decision — with the weight it is charged with NOW; if the victim is no longer
    charged (the sweeper, or nobody: it was never there) nothing is removed and nothing will be subtracted for it: the loop
    goes on to its next space check. -/
theorem C06_layerB_victim_step {b b' : BState} {o o' : Oracle} {c : PutCmd} {incEst : Nat} {sample : List SKey}
    {victim : SKey} (hw : b.w = .evRemove c incEst sample victim) (h : workerAct b o = .ok (b', o')) :
    (∃ wk, b.g.adm.kw.get? victim.id = some wk ∧
      b' = { b with g := { b.g with adm := { b.g.adm with kw := b.g.adm.kw.del victim.id } },
                    w := .evSub c incEst sample victim.id wk }) ∨
    (b.g.adm.kw.get? victim.id = none ∧ b' = { b with w := .evSpace c incEst sample }) := by
  simp only [workerAct, hw] at h
  split at h
  · rename_i wk hk
    simp only [Except.ok.injEq, Prod.mk.injEq] at h
    exact Or.inl ⟨wk, hk, h.1.symm⟩
  · rename_i hk
    simp only [Except.ok.injEq, Prod.mk.injEq] at h
    exact Or.inr ⟨hk, h.1.symm⟩

/-- **C06, acceptance of Layer B's worker, per action.**  The worker enters `.insert c` — the first of the two actions
    that charge the put (`kw.insert`, then `wu.add`) — ONLY
    * by a `wu.space` check of its own (`space0`: the first one; `emptySpace`: the re-check when the sample ran dry) that
      is representable in `i64` and finds the CURRENT `max - used ≥ c.w`, or
    * by the decision after a (re)fill whose carried `space` (the value read at the preceding `wu.space` action:
      `C06_layerB_space_carried`) is `≥ c.w`;
    and that action changes nothing shared. -/
theorem C06_layerB_accept_step {b b' : BState} {o o' : Oracle} {c : PutCmd} (h : workerAct b o = .ok (b', o'))
    (hins : b'.w = .insert c) :
    b'.g = b.g ∧
    (((b.w = .space0 c ∨ b.w = .emptySpace c) ∧ wuFree b .worker = true ∧ b.g.adm.spaceOverflow = false ∧
        b.g.adm.max - b.g.adm.used ≥ c.w) ∨
     (∃ space incEst, b.w = .sampleInit c space incEst ∧ space ≥ c.w) ∨
     (∃ space incEst sample, b.w = .fill c incEst sample space ∧ space ≥ c.w)) := by
  have hov : ∀ c', (b.w = .space0 c' ∨ b.w = .emptySpace c') → wuFree b .worker = true → b.g.adm.spaceOverflow = false := by
    intro c' hw hfree
    cases hso : b.g.adm.spaceOverflow
    · rfl
    · exfalso
      rcases hw with hw | hw <;>
      · simp only [workerAct, hw, hfree, hso, Bool.not_true, Bool.false_eq_true, if_false, if_true,
          Except.ok.injEq, Prod.mk.injEq] at h
        rw [← h.1] at hins
        simp [workerDies] at hins
  have ht := workerAct_trans h
  cases ht
  case space0Fits c' hw hfree hge =>
    cases hins
    exact ⟨rfl, Or.inl ⟨Or.inl hw, hfree, hov _ (Or.inl hw) hfree, hge⟩⟩
  case emptyFits c' hw hfree hge =>
    cases hins
    exact ⟨rfl, Or.inl ⟨Or.inr hw, hfree, hov _ (Or.inr hw) hfree, hge⟩⟩
  case initInsert c' e space hw hge =>
    cases hins
    exact ⟨rfl, Or.inr (Or.inl ⟨space, e, hw, hge⟩)⟩
  case fillInsert c' e s space hw hge =>
    cases hins
    exact ⟨rfl, Or.inr (Or.inr ⟨space, e, s, hw, hge⟩)⟩
  all_goals simp [finishCmd, rejectCmd] at hins

/-- **The carried space is the value of a `wu.space` read.**  The worker enters `.fill … space` only from `evSpace`, and
    `.sampleInit c space …` only from `space0`, `space` being the `max - used` of THAT instant (representable in `i64`) —
    and at `space0` it was short (`space < c.w`), which is why the worker went on to sample. -/
theorem C06_layerB_space_carried {b b' : BState} {o o' : Oracle} (h : workerAct b o = .ok (b', o')) :
    (∀ c incEst sample space, b'.w = .fill c incEst sample space →
      b.w = .evSpace c incEst sample ∧ wuFree b .worker = true ∧ space = b.g.adm.max - b.g.adm.used ∧ b'.g = b.g) ∧
    (∀ c space incEst, b'.w = .sampleInit c space incEst →
      b.w = .space0 c ∧ wuFree b .worker = true ∧ space = b.g.adm.max - b.g.adm.used ∧ space < c.w ∧ b'.g = b.g) := by
  constructor
  · intro c incEst sample space hw'
    have ht := workerAct_trans h
    cases ht
    case evSpace c' e s hw hfree =>
      cases hw'
      exact ⟨hw, hfree, rfl, rfl⟩
    all_goals simp [finishCmd, rejectCmd] at hw'
  · intro c space incEst hw'
    have ht := workerAct_trans h
    cases ht
    case space0Sample c' e hw hfree =>
      cases hw'
      refine ⟨hw, hfree, rfl, ?_, rfl⟩
      simp only [workerAct, hw, hfree, Bool.not_true, Bool.false_eq_true, if_false] at h
      split at h
      · simp only [Except.ok.injEq, Prod.mk.injEq] at h
        have := congrArg BState.w h.1
        simp [workerDies] at this
      · split at h
        · simp only [Except.ok.injEq, Prod.mk.injEq] at h
          have := congrArg BState.w h.1
          simp at this
        · rename_i hsp
          omega
    all_goals simp [finishCmd, rejectCmd] at hw'

theorem ms_stepB_w_other {b b' : BState} {a : Act} {o o' : Oracle} (h : stepB b a o = .ok (b', o'))
    (ha : a ≠ .worker) : b'.w = b.w := by
  cases a with
  | issue j r =>
    simp only [stepB] at h
    split at h
    · rename_i b1 hi
      simp only [Except.ok.injEq, Prod.mk.injEq] at h; obtain ⟨rfl, rfl⟩ := h
      unfold issue at hi
      split at hi
      · simp only [Except.ok.injEq] at hi; subst hi; rfl
      · cases hi
    · cases h
  | client j => exact (ctrans_frame (clientAct_trans h)).1
  | worker => exact absurd rfl ha
  | sweeper v =>
    simp only [stepB] at h
    split at h
    · rename_i b1 hs'
      simp only [Except.ok.injEq, Prod.mk.injEq] at h; obtain ⟨rfl, rfl⟩ := h
      exact (strans_frame (sweeperAct_trans hs')).1
    · cases h
  | consumer =>
    simp only [stepB] at h
    split at h
    · simp only [Except.ok.injEq, Prod.mk.injEq] at h; obtain ⟨rfl, rfl⟩ := h
      rfl
    · cases h
  | advance d =>
    simp only [stepB, Except.ok.injEq, Prod.mk.injEq] at h; obtain ⟨rfl, rfl⟩ := h
    rfl

/-- **At every reachable state, the value carried from `space0` is short** — so along every interleaving the decision at
    `sample.init` never accepts (its first alternative in `C06_layerB_evict_step` / the second in
    `C06_layerB_accept_step` is vacuous on reachable states): a put that did not fit at its first check is charged only
    after an `evSpace` read or the `emptySpace` re-check found room. -/
theorem C06_layerB_sampleInit_short {cfg : Cfg} {now : Nat} {seeds : List Nat} {clients : Nat} {b : BState}
    (h : Reach cfg now seeds clients b) {c : PutCmd} {space : Int} {incEst : Nat}
    (hw : b.w = .sampleInit c space incEst) : space < c.w := by
  induction h generalizing c space incEst with
  | init sm => cases hw
  | @step b1 b2 a o o' _ hs ih =>
    by_cases ha : a = .worker
    · subst ha
      simp only [stepB] at hs
      exact ((C06_layerB_space_carried hs).2 c space incEst hw).2.2.2.1
    · rw [ms_stepB_w_other hs ha] at hw
      exact ih hw

/-- **The charge itself**: `key_weights` gains an entry by the worker only at `kw.insert` (`.insert c`: the put in hand,
    with its weight `c.w`) — reached only as `C06_layerB_accept_step` says — or at the `kw.update` of an
    `UpdateWeight` command for a key id that is charged already; `weight_used` grows by `c.w` at the `wu.add` that
    follows (`.add c`). -/
theorem C06_layerB_charge_step {b b' : BState} {o o' : Oracle} {c : PutCmd} (h : workerAct b o = .ok (b', o')) :
    (b.w = .insert c → b'.w = .add c ∧
      b'.g.adm.kw = b.g.adm.kw.set c.id { key := c.k, hash := c.hash, weight := c.w } ∧
      b'.g.adm.used = b.g.adm.used ∧ b'.g.adm.max = b.g.adm.max) ∧
    (b.w = .add c → wuFree b .worker = true ∧ b'.w = .storePut c ∧ b'.g.adm.used = b.g.adm.used + c.w ∧
      b'.g.adm.kw = b.g.adm.kw ∧ b'.g.adm.max = b.g.adm.max) := by
  constructor
  · intro hw
    simp only [workerAct, hw, Except.ok.injEq, Prod.mk.injEq] at h
    rw [← h.1]
    exact ⟨rfl, rfl, rfl, rfl⟩
  · intro hw
    simp only [workerAct, hw] at h
    split at h
    · cases h
    · rename_i hfree
      simp only [Except.ok.injEq, Prod.mk.injEq] at h
      rw [← h.1]
      exact ⟨by simpa using hfree, rfl, rfl, rfl, rfl⟩

end B
end Cached
