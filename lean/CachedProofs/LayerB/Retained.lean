import CachedProofs.LayerB.RetainedLemmas

namespace Cached
namespace B
open Hist

/-! ## 1  the demand fits ⇒ the eviction loop is never entered -/

/-- **The demand fits.**  A condition on the REQUESTS issued along the run only (`issuedH h`; the states recorded in the
    history play no part): the weights of all issued `put_with_weight(_and_ttl)` and of all issued `put_or_update` that
    carry a weight or a value (the explicit weight, else the one `cfg.weightOf` computes for the value), plus
    `ttl_ticker_entry_size` for every `put_or_update` that gives neither but sets a time-to-live, sum up to at most the
    cache weight (`Req.demand`); and `ttl_ticker_entry_size` is not negative. -/
def DemandFits (cfg : Cfg) (h : List (BState × Act)) : Prop :=
  0 ≤ cfg.ttlEntry ∧ demandH cfg h ≤ cfg.maxWeight

instance (cfg : Cfg) (h : List (BState × Act)) : Decidable (DemandFits cfg h) := by unfold DemandFits; infer_instance

theorem DemandFits.suffix {cfg : Cfg} {h1 h0 : List (BState × Act)} (h : DemandFits cfg (h1 ++ h0)) : DemandFits cfg h0 :=
  ⟨h.1, Int.le_trans (demandH_suffix h.1 h1 h0) h.2⟩

/-- the worker does not stand inside the eviction loop at the end of the run -/
theorem no_eviction_now {cfg : Cfg} {now : Nat} {seeds : List Nat} {clients : Nat} {sm : List (Nat × Nat)} {b : BState}
    {h : List (BState × Act)} (hrun : RunH { BState.init cfg now seeds clients with storeShard := sm } h b)
    (hfit : DemandFits cfg h) (hns : NoShutdownReq h) : b.w.evicting = false := by
  cases hev : b.w.evicting with
  | false => rfl
  | true =>
    exfalso
    have hp := pressInv_run hrun (by show PressInv [] WPc.recv; trivial)
    obtain ⟨c, p, hp1, _, hp3, hp4⟩ := pressInv_entered hp hev
    obtain ⟨h1, h0, rfl, hr0⟩ := runH_mem hrun hp1
    obtain ⟨hn0, β, hb0⟩ := bud_run hfit.1 hr0 (noShutdownReq_suffix (h1 := h1 ++ [p]) (by simpa using hns))
    have hr := swB_reach_run (.init sm) hr0
    have hcfg := reach_cfg hr
    have hle := bud_space0 hr hn0.flag hb0 (by rw [hcfg]; exact hfit.1) hp3
    have hmax := (binv_reach hr).maxFixed
    rw [hcfg] at hmax
    have h2 := demandH_suffix hfit.1 (h1 ++ [p]) h0
    have h3 := hfit.2
    simp only [List.append_assoc, List.singleton_append] at h2
    omega

/-- **C03 at action granularity, the demand premise DISCHARGED.**  Along every run from the initial state on which no
    `shutdown()` is requested and whose issued requests satisfy `DemandFits`: the worker never stands at a position of the
    eviction loop of `create_space` (`sample.init`, `kw.remove` / `wu.sub` / `store.remove` of a victim, `wu.space` after an
    eviction, `sample.fill`, the re-check of an empty sample) — neither at the end of the run nor in any state it passed
    through — and no acknowledgement ever holds `Rejected(NotEnoughSpace)`.
    (Composition of `C03_layerB_eviction_under_pressure` — the loop is entered only if the put did not fit at the worker's
    space read — with the run invariant `Bud`: `weight_used + incoming weight ≤ Σ demands issued so far`.) -/
theorem C03_layerB_no_eviction_when_demand_fits {cfg : Cfg} {now : Nat} {seeds : List Nat} {clients : Nat}
    {sm : List (Nat × Nat)} {b : BState} {h : List (BState × Act)}
    (hrun : RunH { BState.init cfg now seeds clients with storeShard := sm } h b)
    (hfit : DemandFits cfg h) (hns : NoShutdownReq h) :
    b.w.evicting = false ∧ (∀ p ∈ h, p.1.w.evicting = false) ∧ (∀ st ∈ b.g.acks, st ≠ .rejected .noSpace) := by
  have hall : ∀ p ∈ h, p.1.w.evicting = false := by
    intro p hp
    obtain ⟨h1, h0, rfl, hr0⟩ := runH_mem hrun hp
    exact no_eviction_now hr0 (DemandFits.suffix (h1 := h1 ++ [p]) (by simpa using hfit))
      (noShutdownReq_suffix (h1 := h1 ++ [p]) (by simpa using hns))
  refine ⟨no_eviction_now hrun hfit hns, hall, ?_⟩
  clear hall
  induction hrun with
  | nil => intro st hst; simp [BState.init, State.init] at hst
  | @step b1 b' h1 a o o' hrun' hs ih =>
    have hfit' : DemandFits cfg h1 := DemandFits.suffix (h1 := [(b1, a)]) hfit
    have hns' : NoShutdownReq h1 := fun p hp => hns p (List.mem_cons_of_mem _ hp)
    exact noSpaceFree_step (ih hfit' hns') (bud_run hfit.1 hrun' hns').1 (no_eviction_now hrun' hfit' hns') hs


/-! ## 2  retention -/

/-- the write `req` of `(k, v)`, issued by client `j` at `p₀`, has been ACKNOWLEDGED AS ACCEPTED as of the state `s`:
    the call returned `Ok(ack hd)` at some `q` (the first return of `j` after `p₀`: it IS that call), and the cell `hd`
    holds `Accepted` in `s` — answered on the spot, or by the worker's completion of the command -/
def AckedAccepted (h : List (BState × Act)) (b : BState) (j p₀ n : Nat) (s : BState) : Prop :=
  ∃ q hd st, FirstRet h b j p₀ q (.ack hd st) ∧ q < n ∧ s.g.acks[hd]? = some .accepted

/-- **C03 at action granularity, the core** (the premises on the key in STATE form; `C03_layerB_retained` below
    discharges them from the events of the history).

    Along any run from the initial state on which no `shutdown()` is requested and whose requests satisfy `DemandFits`:
    let client `j` issue at `p₀` a write `req` of `(k, v)` (`put*(k, v)` or `put_or_update(k, Some(v), ..)`) in a state `s₀`
    in which
      (S) no put / delete / value-carrying upsert of `k` is under way (`Safe k s₀`), and
      (E) the sweeper is not carrying through the eviction of an entry of `k` that has been revived (`EvInv s₀ k`);
    let the `n₁`-th action (any action: in particular a store lookup of `k`) run in the state `s₁`, `p₀ < n₁`, such that
      (A) the write has been acknowledged as accepted as of `s₁`,
      (N) no put, delete or value-carrying upsert of `k` is issued strictly between `p₀` and `n₁`
          (value-LESS `put_or_update`s of `k` — weight, time-to-live — are free), and
      (L) in every state from `p₀` to `n₁` the entry of `k`, if there is one, has not expired by its own deadline.
    Then in `s₁` the store holds under `k` an entry with value `v`, not marked deleted, not expired: ALIVE. -/
theorem C03_layerB_retained_core {cfg : Cfg} {now : Nat} {seeds : List Nat} {clients : Nat} {sm : List (Nat × Nat)}
    {b : BState} {h : List (BState × Act)} {k v j p₀ n₁ : Nat} {req : Req} {s₀ s₁ : BState} {a₁ : Act}
    (hrun : RunH { BState.init cfg now seeds clients with storeShard := sm } h b)
    (hfit : DemandFits cfg h) (hns : NoShutdownReq h) (hreq : WritesReq req k v)
    (hiss : At h p₀ (s₀, .issue j req)) (hS : Safe k s₀) (hE : EvInv s₀ k)
    (hat : At h n₁ (s₁, a₁)) (hp : p₀ < n₁) (hA : AckedAccepted h b j p₀ n₁ s₁)
    (hN : ∀ q s i r, p₀ < q → q < n₁ → At h q (s, .issue i r) → r.danger k = false)
    (hL : ∀ q s a, p₀ ≤ q → q ≤ n₁ → At h q (s, a) → LiveK k s) :
    ∃ e, s₁.g.store.get? k = some e ∧ e.value = v ∧ e.alive s₁.g.now = true := by
  obtain ⟨h1, h0, rfl, hlen, hr0⟩ := runH_at_append hrun hat
  subst hlen
  have hsub : Sub h0 (h1 ++ (s₁, a₁) :: h0) := by
    have := sub_append h0 (h1 ++ [(s₁, a₁)])
    simpa using this
  have hfit0 : DemandFits cfg h0 := DemandFits.suffix (h1 := h1 ++ [(s₁, a₁)]) (by simpa using hfit)
  have hns0 : NoShutdownReq h0 := noShutdownReq_suffix (h1 := h1 ++ [(s₁, a₁)]) (by simpa using hns)
  have hev0 := (C03_layerB_no_eviction_when_demand_fits hr0 hfit0 hns0).2.1
  have hup : ∀ {q x}, At h0 q x → q < h0.length ∧ At (h1 ++ (s₁, a₁) :: h0) q x := fun hx => (hsub _ _).mp hx
  obtain ⟨hph, _⟩ := wphase_run (k := k) (v := v) (j := j) (p₀ := p₀) (req := req) hr0 hns0 hev0
    (fun s a hx => by
      have := (hup hx).2.inj hiss
      cases this
      exact ⟨rfl, hS, hE⟩) hreq
    (fun q s i r hq hx => hN q s i r hq (hup hx).1 (hup hx).2)
    (fun q s a hq hx => hL q s a hq (Nat.le_of_lt (hup hx).1) (hup hx).2) hp
  have hr := swB_reach_run (.init sm) hr0
  obtain ⟨q, hd, st, hf, hq, hacc⟩ := hA
  have hk := wphase_accepted hph (hinv_reach hr) ⟨q, hd, st, firstRet_restrict hsub hat hf hq, hacc⟩
  obtain ⟨_, _, e, he, hv, hsoft⟩ := hk
  refine ⟨e, he, hv, ?_⟩
  have hl := hL h0.length s₁ a₁ (Nat.le_of_lt hp) (Nat.le_refl _) hat
  unfold Entry.alive
  rw [hsoft]
  simp only [Bool.false_eq_true, if_false]
  cases hx : e.expiry with
  | none => rfl
  | some t =>
    have := hl e t he hx
    simp only [Bool.not_eq_eq_eq_not, Bool.not_true, decide_eq_false_iff_not, Nat.not_lt]
    exact this


/-! ## 3  the premises as events of the history -/

/-- the request is a put, a delete or a `put_or_update` (of any kind) of `k`: an OPERATION ON `k` that is not a read -/
def Req.modifies (k : Nat) : Req → Bool
  | .putW k' _ _ _ => k' == k
  | .delete k' => k' == k
  | .upsert k' _ _ _ _ => k' == k
  | _ => false

theorem Req.modifies_of_danger {k : Nat} {r : Req} (h : r.danger k = true) : r.modifies k = true := by
  cases r <;> simp only [Req.danger] at h <;> try cases h
  case putW => exact h
  case delete => exact h
  case upsert k' v w ttl rm => cases v <;> simp only [Req.danger] at h <;> first | cases h | exact h

theorem writesReq_modifies {k v : Nat} {r : Req} (h : WritesReq r k v) : r.modifies k = true := by
  rcases h with ⟨w, ttl, rfl⟩ | ⟨w, ttl, rm, rfl⟩ <;> simp [Req.modifies]

/-- **the call client `i` began at `p` has been ANSWERED before the `n`-th action** (which runs in the state `s`): the
    call has returned at some `q < n` — the first return of `i` after `p` — and, if it returned `Ok(acknowledgement)`, the
    acknowledgement is no longer pending in `s`: it was answered on the spot, or the worker has completed the command
    (`CommandAcknowledgement::done`).  (A call that returned `Err`, or panicked, is answered by its return.) -/
def AnsweredBy (h : List (BState × Act)) (b : BState) (i p n : Nat) (s : BState) : Prop :=
  ∃ q out, FirstRet h b i p q out ∧ q < n ∧ ∀ hd st, out = .ack hd st → ∃ st', s.g.acks[hd]? = some st' ∧ st' ≠ .pending

/-- **Operations on `k` are issued one after another**: whenever a put / delete / `put_or_update` of `k` is issued, every
    such operation issued before it has been answered (`AnsweredBy`) — each is acknowledged before the next begins.
    Reads of `k`, and all traffic on other keys, are unconstrained. -/
def SerialOps (k : Nat) (h : List (BState × Act)) (b : BState) : Prop :=
  ∀ p p' i i' r r' s', p < p' → Issued h i r p → At h p' (s', .issue i' r') → r.modifies k = true →
    r'.modifies k = true → AnsweredBy h b i p p' s'

/-- the entry of `k`, if there is one, is live in the state of every action from `lo` to `hi` -/
def LiveDuring (k : Nat) (h : List (BState × Act)) (lo hi : Nat) : Prop :=
  ∀ q s a, lo ≤ q → q ≤ hi → At h q (s, a) → LiveK k s

/-- the `p₁`-th action runs in a state in which the acknowledgement of the call `j` began at `p₀` holds `Accepted` -/
def AckedAcceptedAt (h : List (BState × Act)) (b : BState) (j p₀ p₁ : Nat) : Prop :=
  ∃ q hd st s a, FirstRet h b j p₀ q (.ack hd st) ∧ q < p₁ ∧ At h p₁ (s, a) ∧ s.g.acks[hd]? = some .accepted

/-- **C03 at action granularity, from the English premises.**

    Take ANY run of Layer B from the initial state — any number of clients, the command worker, the sweeper (any visiting
    order, any number of sweeps), the access consumer and clock moves, interleaved in any way — on which no `shutdown()`
    is requested and whose issued requests satisfy `DemandFits` ("the combined weight of all keys never exceeds the
    cache weight").  Let client `j` issue at `p₀` a write `req` of `(k, v)` — `put*(k, v)` or
    `put_or_update(k, Some(v), ..)` — and let it be acknowledged as `Accepted` before the `p₁`-th action
    (`AckedAcceptedAt`).  Let the `n₁`-th action, `p₁ ≤ n₁`, be ANY action (in particular the store lookup of a read of
    `k` issued at `p₁` or later: `get`, `get_ref`, any position of a multi-key read), run in the state `s₁`.  If

    * (serial) every put / delete / value-carrying upsert of `k` issued before `p₀` was answered before `p₀`
      (a consequence of `SerialOps k h b`: `C03_layerB_retained`),
    * (latest, not deleted) no put, delete or value-carrying upsert of `k` is issued strictly between `p₀` and `n₁` —
      `req` is the LATEST write of a value, and no `delete(k)` has been issued since,
    * (time-to-live) the entry of `k`, when there is one, is live in every state from `p₀` to `n₁` (`LiveDuring`), and at
      `p₀` either `k` is absent or the incarnation standing there was born by the `store.put` action `c < p₀` and has been
      live in every state since (`hborn`): the CURRENT TIME-TO-LIVE HAS NOT ELAPSED, at any moment since the entry was
      born — this is what excludes the known finding D3 (a `put_or_update` of an expired-but-unswept entry revives it
      while the sweeper may already be carrying its eviction through; `C03_layerB_retained_needs_no_revival`),

    then `s₁` holds under `k` an entry that is ALIVE and carries the value `v`: a lookup of `k` there hits, with exactly
    the latest acknowledged value.  Traffic on other keys (puts, deletes, upserts, reads), value-less upserts of `k`
    (weight, time-to-live), access counting, sketch ageing, sweeps and clock moves are arbitrary. -/
theorem C03_layerB_retained' {cfg : Cfg} {now : Nat} {seeds : List Nat} {clients : Nat} {sm : List (Nat × Nat)}
    {b : BState} {h : List (BState × Act)} {k v j p₀ p₁ n₁ : Nat} {req : Req} {s₀ s₁ : BState} {a₁ : Act}
    (hrun : RunH { BState.init cfg now seeds clients with storeShard := sm } h b)
    (hfit : DemandFits cfg h) (hns : NoShutdownReq h) (hreq : WritesReq req k v)
    (hiss : At h p₀ (s₀, .issue j req))
    (hser : ∀ p i r, p < p₀ → Issued h i r p → r.danger k = true → AnsweredBy h b i p p₀ s₀)
    (hborn : s₀.g.store.get? k = none ∨
      ∃ c, c < p₀ ∧ (∀ x, At h c x → isPutAny k x) ∧ LiveDuring k h (c + 1) p₀)
    (hat : At h n₁ (s₁, a₁)) (hp : p₀ < p₁) (hpn : p₁ ≤ n₁) (hA : AckedAcceptedAt h b j p₀ p₁)
    (hN : ∀ q s i r, p₀ < q → q < n₁ → At h q (s, .issue i r) → r.danger k = false)
    (hL : LiveDuring k h p₀ n₁) :
    ∃ e, s₁.g.store.get? k = some e ∧ e.value = v ∧ e.alive s₁.g.now = true := by
  -- the run up to the issue of the write
  obtain ⟨h1, h0, e0, hlen, hr0⟩ := runH_at_append hrun hiss
  have hsub0 : Sub h0 h := by
    rw [e0]
    have := sub_append h0 (h1 ++ [(s₀, .issue j req)])
    simpa using this
  have hns0 : NoShutdownReq h0 := by
    rw [e0] at hns
    exact noShutdownReq_suffix (h1 := h1 ++ [(s₀, .issue j req)]) (by simpa using hns)
  have hr0' := swB_reach_run (.init sm) hr0
  have hat0 : At h h0.length (s₀, .issue j req) := by rw [hlen]; exact hiss
  -- (S) nothing dangerous is under way at the issue
  have hS : Safe k s₀ := by
    refine safe_of_answered (prov_run k hr0 hns0) (hinv_reach hr0') ?_
    intro p i r hi hd
    have hplt : p < p₀ := by rw [← hlen]; exact issued_lt hi
    obtain ⟨q, out, hf, hq, hack⟩ := hser p i r hplt (hi.sub hsub0) hd
    exact ⟨q, out, firstRet_restrict hsub0 hat0 hf (by rw [hlen]; exact hq), hack⟩
  -- (E) the sweeper is not carrying through the eviction of a revived entry
  have hE : EvInv s₀ k := by
    rcases hborn with hnone | ⟨c, hc, hb, hl⟩
    · intro e n he; rw [hnone] at he; cases he
    · refine evinv_run_born hr0 hns0 (by rw [hlen]; exact hc) (fun x hx => hb x (hsub0.at hx)) ?_
      intro q s a hq hx
      have := (hsub0 _ _).mp hx
      exact hl q s a hq (by rw [← hlen]; exact Nat.le_of_lt this.1) this.2
  -- (A) the acknowledgement is still `Accepted` in `s₁`
  have hA1 : AckedAccepted h b j p₀ n₁ s₁ := by
    obtain ⟨q, hd, st, s, a, hf, hq, hx, hacc⟩ := hA
    refine ⟨q, hd, st, hf, by omega, ?_⟩
    rcases Nat.lt_or_ge p₁ n₁ with hlt | hge
    · obtain ⟨h1', h0', e1, hlen1, hr1⟩ := runH_at_append hrun hat
      have hsub1 : Sub h0' h := by
        rw [e1]
        have := sub_append h0' (h1' ++ [(s₁, a₁)])
        simpa using this
      exact acks_stable_run hr1 ((hsub1 _ _).mpr ⟨by rw [hlen1]; exact hlt, hx⟩) hacc (by simp)
    · have : p₁ = n₁ := by omega
      subst this
      cases hx.inj hat
      exact hacc
  exact C03_layerB_retained_core hrun hfit hns hreq hiss hS hE hat (by omega) hA1 hN hL

/-- **… with the serial premise in the form of the English text**: operations on `k` are issued one after another
    (`SerialOps k h b`) -/
theorem C03_layerB_retained {cfg : Cfg} {now : Nat} {seeds : List Nat} {clients : Nat} {sm : List (Nat × Nat)}
    {b : BState} {h : List (BState × Act)} {k v j p₀ p₁ n₁ : Nat} {req : Req} {s₀ s₁ : BState} {a₁ : Act}
    (hrun : RunH { BState.init cfg now seeds clients with storeShard := sm } h b)
    (hfit : DemandFits cfg h) (hns : NoShutdownReq h) (hreq : WritesReq req k v)
    (hiss : At h p₀ (s₀, .issue j req)) (hser : SerialOps k h b)
    (hborn : s₀.g.store.get? k = none ∨
      ∃ c, c < p₀ ∧ (∀ x, At h c x → isPutAny k x) ∧ LiveDuring k h (c + 1) p₀)
    (hat : At h n₁ (s₁, a₁)) (hp : p₀ < p₁) (hpn : p₁ ≤ n₁) (hA : AckedAcceptedAt h b j p₀ p₁)
    (hN : ∀ q s i r, p₀ < q → q < n₁ → At h q (s, .issue i r) → r.danger k = false)
    (hL : LiveDuring k h p₀ n₁) :
    ∃ e, s₁.g.store.get? k = some e ∧ e.value = v ∧ e.alive s₁.g.now = true :=
  C03_layerB_retained' hrun hfit hns hreq hiss
    (fun p i r hlt hi hd => hser p p₀ i j r req s₀ hlt hi hiss (Req.modifies_of_danger hd) (writesReq_modifies hreq))
    hborn hat hp hpn hA hN hL


/-! ## 4  what the read returns -/

/-- **every variant of a read, at its lookup**: if the store holds under `k` an alive entry with value `v`, the
    `store.get` action of `get(k)`, of `get_ref(k)` and of any position of a multi-key read moves the client on to its
    `pool.add` position CARRYING `v` — the value it then returns (`get`, `get_ref`: `C02_layerB_get_pool`; a multi-key
    read: appends `Some(v)` at that position, `C02_layerB_mget_pool`) -/
theorem lookup_hits {s s' : BState} {i k v : Nat} {o o' : Oracle} {e : Entry} (hk : s.g.store.get? k = some e)
    (hv : e.value = v) (hal : e.alive s.g.now = true) (hs : stepB s (.client i) o = .ok (s', o')) :
    (s.cl[i]? = some (.getStore k) → s'.cl[i]? = some (.getPool k v)) ∧
    (s.cl[i]? = some (.refStore k) → s'.cl[i]? = some (.refPool k v)) ∧
    (∀ ks acc iter, s.cl[i]? = some (.mgetStore k ks acc iter) → s'.cl[i]? = some (.mgetPool k v ks acc iter)) := by
  simp only [stepB] at hs
  refine ⟨fun hpc => ?_, fun hpc => ?_, fun ks acc iter hpc => ?_⟩
  · rcases (C02_layerB_get_store hpc hs).1 with ⟨e', he', _, hcl, _⟩ | ⟨hm, _⟩
    · rw [hk] at he'; cases he'
      rw [hcl, hv]; exact List.getElem?_set_self (List.getElem?_eq_some_iff.mp hpc).1
    · exact absurd hal (by simpa using hm e hk)
  · rcases (C02_layerB_ref_store hpc hs).1 with ⟨e', he', _, hcl, _⟩ | ⟨hm, _⟩
    · rw [hk] at he'; cases he'
      rw [hcl, hv]; exact List.getElem?_set_self (List.getElem?_eq_some_iff.mp hpc).1
    · exact absurd hal (by simpa using hm e hk)
  · rcases (C02_layerB_mget_store hpc hs).1 with ⟨e', he', _, hcl, _⟩ | ⟨hm, _⟩
    · rw [hk] at he'; cases he'
      rw [hcl, hv]; exact List.getElem?_set_self (List.getElem?_eq_some_iff.mp hpc).1
    · exact absurd hal (by simpa using hm e hk)


/-- **C03, the read's result.**  Under the premises of `C03_layerB_retained'`, a `get(k)` or `get_ref(k)` that is ISSUED
    at `n₀`, after the acknowledgement of the latest write of `(k, v)` was answered `Accepted` (`p₁ ≤ n₀`), and RETURNS
    at `n₂` — no put / delete / value-carrying upsert of `k` issued and the entry live up to the return — returns
    `Some(v)`: exactly the latest acknowledged value. -/
theorem C03_layerB_retained_read {cfg : Cfg} {now : Nat} {seeds : List Nat} {clients : Nat} {sm : List (Nat × Nat)}
    {b : BState} {h : List (BState × Act)} {k v j p₀ p₁ i n₀ n₂ : Nat} {req rq : Req} {s₀ : BState} {out : Out}
    (hrun : RunH { BState.init cfg now seeds clients with storeShard := sm } h b)
    (hfit : DemandFits cfg h) (hns : NoShutdownReq h) (hreq : WritesReq req k v)
    (hiss : At h p₀ (s₀, .issue j req))
    (hser : ∀ p i r, p < p₀ → Issued h i r p → r.danger k = true → AnsweredBy h b i p p₀ s₀)
    (hborn : s₀.g.store.get? k = none ∨
      ∃ c, c < p₀ ∧ (∀ x, At h c x → isPutAny k x) ∧ LiveDuring k h (c + 1) p₀)
    (hp : p₀ < p₁) (hA : AckedAcceptedAt h b j p₀ p₁)
    (hrq : rq = .get k ∨ rq = .getRef k) (hread : Issued h i rq n₀) (hpn : p₁ ≤ n₀)
    (hret : Returned h b i n₂ out) (hlt : n₀ < n₂) (hsame : ∀ q r, n₀ < q → q < n₂ → ¬ Issued h i r q)
    (hN : ∀ q s i r, p₀ < q → q < n₂ → At h q (s, .issue i r) → r.danger k = false)
    (hL : LiveDuring k h p₀ n₂) : out = .value (some v) := by
  have hidle : ∀ pc ∈ ({ BState.init cfg now seeds clients with storeShard := sm } : BState).cl, pc = .idle := by
    intro pc hpc
    simp only [BState.init, List.mem_replicate] at hpc
    exact hpc.2
  obtain ⟨s, s'', hx, hst'', hidle', hres⟩ := hret
  obtain ⟨s', o, o', h0, pc, hs, hst, hsub, hlen, hpc, hri⟩ := call_at hidle hrun hread hx hlt hsame
  have := hst.inj hst''
  subst this
  -- the entry of `k` at any action between the read's issue and its return
  have main : ∀ n₁ s₁ a₁, At h n₁ (s₁, a₁) → n₀ ≤ n₁ → n₁ ≤ n₂ →
      ∃ e, s₁.g.store.get? k = some e ∧ e.value = v ∧ e.alive s₁.g.now = true := by
    intro n₁ s₁ a₁ hat h1 h2
    exact C03_layerB_retained' hrun hfit hns hreq hiss hser hborn hat hp (by omega) hA
      (fun q s i r hq1 hq2 hx => hN q s i r hq1 (by omega) hx)
      (fun q s a hq1 hq2 hx => hL q s a hq1 (by omega) hx)
  obtain ⟨e, hke, hve, hal⟩ := main n₂ s _ hx (Nat.le_of_lt hlt) (Nat.le_refl _)
  -- the flag is not set
  obtain ⟨h1', h0', e1, hlen1, hr1⟩ := runH_at_append hrun hx
  have hns1 : NoShutdownReq h0' := by
    rw [e1] at hns
    exact noShutdownReq_suffix (h1 := h1' ++ [(s, .client i)]) (by simpa using hns)
  have hnsh := (noShut_run hr1 hns1).1
  have hstep : stepB s (.client i) o = .ok (s', o') := by simpa [stepB] using hs
  have picked : ∀ v', Picked h0 { BState.init cfg now seeds clients with storeShard := sm } i n₀ k v' → v' = v := by
    rintro v' ⟨n₁, e', hn1, hlook, hval, _⟩
    have hlt1 := hlook.lt
    obtain ⟨s₁, hat1, _, hk1, _⟩ := hlook
    obtain ⟨e1', hk1', hv1, _⟩ := main n₁ s₁ _ (hsub.at hat1) (Nat.le_of_lt hn1) (by omega)
    rw [hk1] at hk1'; cases hk1'
    rw [← hval, hv1]
  rcases hrq with rfl | rfl
  · rcases hri with rfl | rfl | ⟨v', rfl, hpk⟩
    · exfalso
      obtain ⟨pc0, pc', hpc0, hf, _, _, hstep', _, _⟩ :=
        cact_frame (clientAct_cact hs) hnsh.flag (fun pc h => hnsh.cl i pc h)
      rw [hpc] at hpc0; cases hpc0
      cases hstep'
      case tailPanic => tail_absurd
      case tailSend => tail_absurd
      case tailSpot => tail_absurd
      all_goals
        rw [hf.cl, List.getElem?_set_self (List.getElem?_eq_some_iff.mp hpc).1] at hidle'
        cases hidle'
    · have := (lookup_hits hke hve hal hstep).1 hpc
      rw [this] at hidle'; cases hidle'
    · have hv' := picked v' hpk
      subst hv'
      rw [(C02_layerB_get_pool hpc hs).2] at hres
      exact (res_set_head hres).symm
  · rcases hri with rfl | rfl | ⟨v', rfl, hpk⟩
    · exfalso
      obtain ⟨pc0, pc', hpc0, hf, _, _, hstep', _, _⟩ :=
        cact_frame (clientAct_cact hs) hnsh.flag (fun pc h => hnsh.cl i pc h)
      rw [hpc] at hpc0; cases hpc0
      cases hstep'
      case tailPanic => tail_absurd
      case tailSend => tail_absurd
      case tailSpot => tail_absurd
      all_goals
        rw [hf.cl, List.getElem?_set_self (List.getElem?_eq_some_iff.mp hpc).1] at hidle'
        cases hidle'
    · have := (lookup_hits hke hve hal hstep).2.1 hpc
      rw [this] at hidle'; cases hidle'
    · have hv' := picked v' hpk
      subst hv'
      rw [(ref_pool_step hpc hs).2] at hres
      exact (res_set_head hres).symm


/-! ## 5  concrete runs: non-vacuity, and no premise can be dropped

  Checkers: `allAt h f` evaluates `f` on every action of a history (index, state before, action); the `…_check` lemmas turn
  a successful evaluation into the quantified premise. -/

/-- `f` holds of every action of the history (index from the oldest, state before it, action) -/
def allAtGo (f : Nat → BState → Act → Bool) : List (BState × Act) → Nat → Bool
  | [], _ => true
  | (s, a) :: l, n => f n s a && allAtGo f l (n + 1)

def allAt (h : List (BState × Act)) (f : Nat → BState → Act → Bool) : Bool := allAtGo f h.reverse 0

theorem allAtGo_sound {f : Nat → BState → Act → Bool} : ∀ (l : List (BState × Act)) (n : Nat), allAtGo f l n = true →
    ∀ q s a, l[q]? = some (s, a) → f (n + q) s a = true
  | [], _, _, q, s, a, hq => by simp at hq
  | (s0, a0) :: l, n, hc, q, s, a, hq => by
    simp only [allAtGo, Bool.and_eq_true] at hc
    cases q with
    | zero =>
      simp only [List.getElem?_cons_zero, Option.some.injEq, Prod.mk.injEq] at hq
      obtain ⟨rfl, rfl⟩ := hq
      exact hc.1
    | succ q =>
      simp only [List.getElem?_cons_succ] at hq
      have := allAtGo_sound l (n + 1) hc.2 q s a hq
      rw [show n + (q + 1) = n + 1 + q by omega]
      exact this

theorem allAt_sound {h : List (BState × Act)} {f : Nat → BState → Act → Bool} (hc : allAt h f = true) :
    ∀ q s a, At h q (s, a) → f q s a = true := by
  intro q s a hx
  have := allAtGo_sound h.reverse 0 hc q s a hx
  simpa using this

theorem liveDuring_check {h : List (BState × Act)} {k lo hi : Nat}
    (hc : allAt h (fun q s _ => !(decide (lo ≤ q) && decide (q ≤ hi)) || decide (LiveK k s)) = true) :
    LiveDuring k h lo hi := by
  intro q s a h1 h2 hx
  have := allAt_sound hc q s a hx
  simpa [h1, h2] using this

theorem noDanger_check {h : List (BState × Act)} {k lo hi : Nat}
    (hc : allAt h (fun q _ a => !(decide (lo < q) && decide (q < hi)) ||
      (match a with | .issue _ r => !r.danger k | _ => true)) = true) :
    ∀ q s i r, lo < q → q < hi → At h q (s, .issue i r) → r.danger k = false := by
  intro q s i r h1 h2 hx
  have := allAt_sound hc q s _ hx
  simpa [h1, h2] using this

theorem dangerIssued_check {h : List (BState × Act)} {k n : Nat} {P : Nat → Nat → Req → Prop}
    [∀ q i r, Decidable (P q i r)]
    (hc : allAt h (fun q _ a => !decide (q < n) ||
      (match a with | .issue i r => !r.danger k || decide (P q i r) | _ => true)) = true) :
    ∀ p i r, p < n → Issued h i r p → r.danger k = true → P p i r := by
  rintro p i r hp ⟨s, hx⟩ hd
  have := allAt_sound hc p s _ hx
  simpa [hp, hd] using this

/-- three clients, cache weight 200, two expiry shards -/
def retCfg : Cfg := { maxWeight := 200, shards := 2, cmdCap := 4, poolSize := 1, bufSize := 2, counters := 2 }

def retInit : BState := BState.init retCfg 0 [1, 2, 3, 4] 3

def retHist (b0 : BState) (l : List (Act × Oracle)) : List (BState × Act) :=
  match histOf b0 l [] with
  | .ok (h, _) => h
  | .error _ => []

def retFinal (b0 : BState) (l : List (Act × Oracle)) : BState :=
  match histOf b0 l [] with
  | .ok (_, b) => b
  | .error _ => b0

def retOk (b0 : BState) (l : List (Act × Oracle)) : Bool :=
  match histOf b0 l [] with
  | .ok _ => true
  | .error _ => false

theorem retRunH {b0 : BState} {l : List (Act × Oracle)} (hok : retOk b0 l = true) :
    RunH b0 (retHist b0 l) (retFinal b0 l) := by
  unfold retOk at hok
  unfold retHist retFinal
  cases hh : histOf b0 l [] with
  | error m => rw [hh] at hok; cases hok
  | ok p =>
    obtain ⟨h, b⟩ := p
    exact runH_histOf l (.nil _) hh

/-- one second -/
def retS : Nat := 1000000000

def retC (i : Nat) : Act × Oracle := (.client i, noO)
def retCp (i : Nat) : Act × Oracle := (.client i, { pool := [0] })
def retW : Act × Oracle := (.worker, noO)
def retSw (v : Option Nat) : Act × Oracle := (.sweeper v, noO)
def retI (i : Nat) (r : Req) : Act × Oracle := (.issue i r, noO)

/-- **The run of the non-vacuity example** (100 actions).  Client 0 works on key 1, one operation after another;
    clients 1 and 2 produce traffic on keys 2 and 3 and read key 1; the sweeper and the clock move in between. -/
def retRun : List (Act × Oracle) :=
  -- 0–4: client 0 puts key 1 (value 100, weight 5, time-to-live 10 s)
  call 0 (.putW 1 100 5 (some (10 * retS))) 4 ++
  -- 5–36: clients 1 and 2 put keys 2 and 3 (key 3 with a time-to-live of 1 s) while the worker applies the three puts
  --       (`store.put` of key 1: action 18, answered by action 22); two empty sweeps
  [retI 1 (.putW 2 200 4 none), retC 1, retW, retW, retI 2 (.putW 3 300 3 (some retS)), retC 1, retC 2, retW, retSw none,
   retW, retC 1, retC 2, retW, retW, retSw none, retC 1, retC 2, retW, retC 2] ++ workerN 13 ++
  -- 37–55: client 0 upserts key 1 to the value 101 — THE WRITE (issued 37, returns 48, answered by action 51) — while
  --        client 1 deletes key 2 and client 2 reads key 3
  [retI 0 (.upsert 1 (some 101) none none false), retI 1 (.delete 2), retC 0, retC 1, retI 2 (.get 3), retC 0, retC 2,
   retC 1, retC 0, retC 2, retCp 2, retC 0, retC 1, retW, retW, retW, retW, retW, retW] ++
  -- 56–66: the clock moves to 2 s, the sweep of shard 0 visits the id of key 1 (not due); to 3 s, the sweep of shard 1
  --        finds key 3 expired and evicts it
  [(.advance (2 * retS), noO), retSw none, retSw (some 1), retSw none, (.advance retS, noO), retSw none, retSw (some 3),
   retSw none, retSw none, retSw none, retSw none] ++
  -- 67–84: client 0 extends the time-to-live of key 1 (a value-less upsert: deadline 23 s); client 2 upserts key 3
  --        (absent: it becomes a put)
  [retI 0 (.upsert 1 none none (some (20 * retS)) false), retI 2 (.upsert 3 (some 301) none (some (5 * retS)) false),
   retC 0, retC 2, retC 0, retC 2, retC 0, retC 2, retC 0, retC 2, retC 0, retW, retW, retW, retW, retW, retW, retW] ++
  -- 85–99: the reads: `get(1)` by client 0 (lookup 91, returns 94), `get_ref(1)` by client 1 (lookup 92, returns 95),
  --        `multi_get([3, 1, 2])` by client 2 (lookup of key 1: action 97)
  [retI 0 (.get 1), retI 1 (.getRef 1), retI 2 (.mget [3, 1, 2] false), retC 0, retC 1, retC 2, retC 0, retC 1, retC 2,
   retCp 0, retCp 1, retCp 2, retC 2, retCp 2, retC 2]

set_option maxRecDepth 100000 in
theorem retRun_ok : retOk retInit retRun = true := by decide


end B
end Cached
