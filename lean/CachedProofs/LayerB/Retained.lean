import CachedProofs.LayerB.RetainedLemmas

namespace Cached
namespace B
open Hist

/-! ## 1  the demand fits ⇒ the eviction loop is never entered -/

/-- **The demand fits.**  A condition on the REQUESTS issued along the run only (`issuedH h`; the states recorded in the
    history play no part): the weights of all issued `put_with_weight(_and_ttl)` and of all issued `put_or_update` that
    carry a weight or a value (the explicit weight, else the one `cfg.weightOf` computes for the value), plus
    `ttl_ticker_entry_size` for every `put_or_update` that gives neither but sets a time-to-live, sum up to at most the
    cache weight (`Req.demand`); and `ttl_ticker_entry_size` is not negative. -/
def DemandFits (cfg : Cfg) (h : List (BState × Act)) : Prop :=
  0 ≤ cfg.ttlEntry ∧ demandH cfg h ≤ cfg.maxWeight

instance (cfg : Cfg) (h : List (BState × Act)) : Decidable (DemandFits cfg h) := by unfold DemandFits; infer_instance

theorem DemandFits.suffix {cfg : Cfg} {h1 h0 : List (BState × Act)} (h : DemandFits cfg (h1 ++ h0)) : DemandFits cfg h0 :=
  ⟨h.1, Int.le_trans (demandH_suffix h.1 h1 h0) h.2⟩

/-- the worker does not stand inside the eviction loop at the end of the run -/
theorem no_eviction_now {cfg : Cfg} {now : Nat} {seeds : List Nat} {clients : Nat} {sm : List (Nat × Nat)} {b : BState}
    {h : List (BState × Act)} (hrun : RunH { BState.init cfg now seeds clients with storeShard := sm } h b)
    (hfit : DemandFits cfg h) (hns : NoShutdownReq h) : b.w.evicting = false := by
  cases hev : b.w.evicting with
  | false => rfl
  | true =>
    exfalso
    have hp := pressInv_run hrun (by show PressInv [] WPc.recv; trivial)
    obtain ⟨c, p, hp1, _, hp3, hp4⟩ := pressInv_entered hp hev
    obtain ⟨h1, h0, rfl, hr0⟩ := runH_mem hrun hp1
    obtain ⟨hn0, β, hb0⟩ := bud_run hfit.1 hr0 (noShutdownReq_suffix (h1 := h1 ++ [p]) (by simpa using hns))
    have hr := swB_reach_run (.init sm) hr0
    have hcfg := reach_cfg hr
    have hle := bud_space0 hr hn0.flag hb0 (by rw [hcfg]; exact hfit.1) hp3
    have hmax := (binv_reach hr).maxFixed
    rw [hcfg] at hmax
    have h2 := demandH_suffix hfit.1 (h1 ++ [p]) h0
    have h3 := hfit.2
    simp only [List.append_assoc, List.singleton_append] at h2
    omega

/-- **C03 at action granularity, the demand premise DISCHARGED.**  Along every run from the initial state on which no
    `shutdown()` is requested and whose issued requests satisfy `DemandFits`: the worker never stands at a position of the
    eviction loop of `create_space` (`sample.init`, `kw.remove` / `wu.sub` / `store.remove` of a victim, `wu.space` after an
    eviction, `sample.fill`, the re-check of an empty sample) — neither at the end of the run nor in any state it passed
    through — and no acknowledgement ever holds `Rejected(NotEnoughSpace)`.
    (Composition of `C03_layerB_eviction_under_pressure` — the loop is entered only if the put did not fit at the worker's
    space read — with the run invariant `Bud`: `weight_used + incoming weight ≤ Σ demands issued so far`.) -/
theorem C03_layerB_no_eviction_when_demand_fits {cfg : Cfg} {now : Nat} {seeds : List Nat} {clients : Nat}
    {sm : List (Nat × Nat)} {b : BState} {h : List (BState × Act)}
    (hrun : RunH { BState.init cfg now seeds clients with storeShard := sm } h b)
    (hfit : DemandFits cfg h) (hns : NoShutdownReq h) :
    b.w.evicting = false ∧ (∀ p ∈ h, p.1.w.evicting = false) ∧ (∀ st ∈ b.g.acks, st ≠ .rejected .noSpace) := by
  have hall : ∀ p ∈ h, p.1.w.evicting = false := by
    intro p hp
    obtain ⟨h1, h0, rfl, hr0⟩ := runH_mem hrun hp
    exact no_eviction_now hr0 (DemandFits.suffix (h1 := h1 ++ [p]) (by simpa using hfit))
      (noShutdownReq_suffix (h1 := h1 ++ [p]) (by simpa using hns))
  refine ⟨no_eviction_now hrun hfit hns, hall, ?_⟩
  clear hall
  induction hrun with
  | nil => intro st hst; simp [BState.init, State.init] at hst
  | @step b1 b' h1 a o o' hrun' hs ih =>
    have hfit' : DemandFits cfg h1 := DemandFits.suffix (h1 := [(b1, a)]) hfit
    have hns' : NoShutdownReq h1 := fun p hp => hns p (List.mem_cons_of_mem _ hp)
    exact noSpaceFree_step (ih hfit' hns') (bud_run hfit.1 hrun' hns').1 (no_eviction_now hrun' hfit' hns') hs

end B
end Cached
