/-
  C03 at ACTION granularity, from the ENGLISH premises.

  C03: "No spurious loss: if the combined weight of all keys never exceeds the cache weight, then once a put or upsert of
  key k has been acknowledged as accepted every read of k returns its latest acknowledged value until k is deleted or its
  current time-to-live elapses, provided operations on k itself are issued one after another (each acknowledged before the
  next begins).  Traffic on other keys, access counting, sketch ageing and sweeps of other keys never remove or alter it."

  `C03_layerB_quiet_run_retains` (Entries.lean) ASSUMES that no action of the run is the eviction of k, the sweep of k, a
  delete mark … (`touches k b a = false`).  Here the absence of the eviction and of the sweep is DERIVED: from "the demand
  fits" (a condition on the requests issued) and from "the time-to-live has not elapsed" (a condition on the stored
  deadline and the clock), for every interleaving of any number of clients with the worker, the sweeper, the consumer and
  the clock.  The run invariants are in RetainedLemmas.lean.

  Definitions (all on the history `h : List (BState × Act)` of a run `RunH b₀ h b`; events by index, oldest first)
    `Req.demand cfg r`      the weight a request may add: the weight of a put; the weight of a `put_or_update` (explicit,
                            else `cfg.weightOf` of its value); `ttl_ticker_entry_size` for a `put_or_update` that gives
                            neither but sets a time-to-live; 0 otherwise                           (RetainedLemmas.lean)
    `DemandFits cfg h`      `0 ≤ ttl_ticker_entry_size` and the demands of ALL requests issued along `h` sum up to at most
                            `cfg.maxWeight` — requests only, no state
    `NoShutdownReq h`       no `shutdown()` is requested                                            (RetainedLemmas.lean)
    `Req.danger k r`        `r` is a put, a delete or a VALUE-carrying `put_or_update` of `k`;  `Req.modifies k r`: a put,
                            a delete or ANY `put_or_update` of `k`
    `FirstRet h b i p q out` the `q`-th action is the first return of client `i` after `p`, with result `out`: the return
                            of the call begun at `p`                                               (RetainedLemmas.lean)
    `AnsweredBy h b i p n s` the call `i` began at `p` returned before `n`, and if it returned `Ok(ack hd)` the cell `hd`
                            is not pending in `s` (answered on the spot, or completed by the worker)
    `SerialOps k h b`       whenever a put / delete / `put_or_update` of `k` is issued, every earlier one is `AnsweredBy`
    `AckedAcceptedAt h b j p₀ p₁`  the call `j` began at `p₀` returned `Ok(ack hd)` and the `p₁`-th action runs in a state in
                            which `hd` holds `Accepted`
    `LiveK k s`, `LiveDuring k h lo hi`   the entry of `k` (if any) is not past its own stored deadline in `s` / in the state
                            of every action from `lo` to `hi`

  Theorems
    `C03_layerB_no_eviction_when_demand_fits`   (1) along every run from the initial state without `shutdown()` whose
        requests satisfy `DemandFits`, the worker NEVER stands at a position of the eviction loop (`sample.init`,
        `kw.remove` / `wu.sub` / `store.remove` of a victim, `wu.space` after an eviction, `sample.fill`, the empty-sample
        re-check) and no acknowledgement ever holds `Rejected(NotEnoughSpace)`.  Composition of
        `C03_layerB_eviction_under_pressure` with the budget invariant `Bud` (every key id has a budget — the demands of the
        requests attributed to it; every weight under way for the id is within it, D1 included: an `UpdateWeight` is counted
        at the weight it carries; `weight_used + incoming ≤ Σ budgets ≤ Σ demands` by `C05_layerB_accounting`).
    `C03_layerB_retained_core`   (2, state form) a write of `(k, v)` issued in a state that is `Safe k` (no put / delete /
        value upsert of `k` under way) and `EvInv · k`, acknowledged `Accepted`; no put / delete / value upsert of `k`
        issued since; the entry live in every state since: then the entry is there, alive, with value `v`.
    `C03_layerB_retained'`, `C03_layerB_retained`   (2, event form) the same with `Safe` DERIVED from `SerialOps`
        (`safe_of_answered`: the provenance invariant `Prov`) and `EvInv` from "the incarnation has been live since its
        birth" (`evinv_run_born`); the acknowledgement may have been answered at any `p₁` before the lookup
        (`acks_stable_run`).
    `C03_layerB_retained_read`   a `get(k)` / `get_ref(k)` issued after the acknowledgement RETURNS `Some(v)`;
    `lookup_hits`                … and the `store.get` of ANY read variant — `get`, `get_ref`, any position of a multi-key
        read — moves on to `pool.add` carrying `v` (applied to the state given by `C03_layerB_retained'`).
  How the removers are excluded: eviction — (1); the sweeper — `EvInv` + liveness (`evinv_step_live`, `evinv_sweeper_keeps`;
  `C03_layerB_serial_key_not_lost_to_sweeper` is NOT applicable: its hypothesis `SerialEv` constrains the sweeper's
  position and does not follow from `SerialOps`, `serialOps_not_serialEv`); `delete(k)`, another put / value upsert — the
  phase invariant `WPhase` under `Safe` at the issue and no dangerous request since; `shutdown()` — `NoShutdownReq`.

  The premise "its current time-to-live has not elapsed", PRECISELY: the entry of `k` is live in the state of every action
  from the issue of the write to the lookup (`LiveDuring k h p₀ n₁`), and the incarnation standing at the issue (if any)
  was born by a `store.put` action `c < p₀` and has been live in every state since (`hborn`).  Checked only at the read it
  is NOT enough — FINDING `C03_layerB_retained_literal_counterexample` (known finding D3: a `put_or_update` of an
  expired-but-unswept entry is acknowledged `Accepted` and the entry is removed by the sweeper, already past its check);
  checked only from the issue of the write it is not enough either — `C03_layerB_retained_needs_no_revival` (the entry was
  revived by an earlier value-less upsert).  The D12 / D15 residue (an expired key left unsweepable) does not touch
  retention.

  Concrete runs (section 5): `retRun` (104 actions, three clients: one on key 1 — put, value upsert, time-to-live upsert,
  reads by all three clients and all three read variants —, two on keys 2 and 3 — puts, a delete, an upsert, a read; two
  clock moves, four sweeps, one of which evicts key 3) satisfies every premise, `SerialOps` included, and the theorems are
  applied to it; `C03_layerB_retained_needs_demand_fits`, `…_needs_serial`, `…_needs_no_revival`: no premise can be dropped.
-/
import CachedProofs.LayerB.RetainedLemmas

namespace Cached
namespace B
open Hist

/-! ## 1  the demand fits ⇒ the eviction loop is never entered -/

/-- **The demand fits.**  A condition on the REQUESTS issued along the run only (`issuedH h`; the states recorded in the
    history play no part): the weights of all issued `put_with_weight(_and_ttl)` and of all issued `put_or_update` that
    carry a weight or a value (the explicit weight, else the one `cfg.weightOf` computes for the value), plus
    `ttl_ticker_entry_size` for every `put_or_update` that gives neither but sets a time-to-live, sum up to at most the
    cache weight (`Req.demand`); and `ttl_ticker_entry_size` is not negative. -/
def DemandFits (cfg : Cfg) (h : List (BState × Act)) : Prop :=
  0 ≤ cfg.ttlEntry ∧ demandH cfg h ≤ cfg.maxWeight

instance (cfg : Cfg) (h : List (BState × Act)) : Decidable (DemandFits cfg h) := by unfold DemandFits; infer_instance

theorem DemandFits.suffix {cfg : Cfg} {h1 h0 : List (BState × Act)} (h : DemandFits cfg (h1 ++ h0)) : DemandFits cfg h0 :=
  ⟨h.1, Int.le_trans (demandH_suffix h.1 h1 h0) h.2⟩

/-- the worker does not stand inside the eviction loop at the end of the run -/
theorem no_eviction_now {cfg : Cfg} {now : Nat} {seeds : List Nat} {clients : Nat} {sm : List (Nat × Nat)} {b : BState}
    {h : List (BState × Act)} (hrun : RunH { BState.init cfg now seeds clients with storeShard := sm } h b)
    (hfit : DemandFits cfg h) (hns : NoShutdownReq h) : b.w.evicting = false := by
  cases hev : b.w.evicting with
  | false => rfl
  | true =>
    exfalso
    have hp := pressInv_run hrun (by show PressInv [] WPc.recv; trivial)
    obtain ⟨c, p, hp1, _, hp3, hp4⟩ := pressInv_entered hp hev
    obtain ⟨h1, h0, rfl, hr0⟩ := runH_mem hrun hp1
    obtain ⟨hn0, β, hb0⟩ := bud_run hfit.1 hr0 (noShutdownReq_suffix (h1 := h1 ++ [p]) (by simpa using hns))
    have hr := swB_reach_run (.init sm) hr0
    have hcfg := reach_cfg hr
    have hle := bud_space0 hr hn0.flag hb0 (by rw [hcfg]; exact hfit.1) hp3
    have hmax := (binv_reach hr).maxFixed
    rw [hcfg] at hmax
    have h2 := demandH_suffix hfit.1 (h1 ++ [p]) h0
    have h3 := hfit.2
    simp only [List.append_assoc, List.singleton_append] at h2
    omega

/-- **C03 at action granularity, the demand premise DISCHARGED.**  Along every run from the initial state on which no
    `shutdown()` is requested and whose issued requests satisfy `DemandFits`: the worker never stands at a position of the
    eviction loop of `create_space` (`sample.init`, `kw.remove` / `wu.sub` / `store.remove` of a victim, `wu.space` after an
    eviction, `sample.fill`, the re-check of an empty sample) — neither at the end of the run nor in any state it passed
    through — and no acknowledgement ever holds `Rejected(NotEnoughSpace)`.
    (Composition of `C03_layerB_eviction_under_pressure` — the loop is entered only if the put did not fit at the worker's
    space read — with the run invariant `Bud`: `weight_used + incoming weight ≤ Σ demands issued so far`.) -/
theorem C03_layerB_no_eviction_when_demand_fits {cfg : Cfg} {now : Nat} {seeds : List Nat} {clients : Nat}
    {sm : List (Nat × Nat)} {b : BState} {h : List (BState × Act)}
    (hrun : RunH { BState.init cfg now seeds clients with storeShard := sm } h b)
    (hfit : DemandFits cfg h) (hns : NoShutdownReq h) :
    b.w.evicting = false ∧ (∀ p ∈ h, p.1.w.evicting = false) ∧ (∀ st ∈ b.g.acks, st ≠ .rejected .noSpace) := by
  have hall : ∀ p ∈ h, p.1.w.evicting = false := by
    intro p hp
    obtain ⟨h1, h0, rfl, hr0⟩ := runH_mem hrun hp
    exact no_eviction_now hr0 (DemandFits.suffix (h1 := h1 ++ [p]) (by simpa using hfit))
      (noShutdownReq_suffix (h1 := h1 ++ [p]) (by simpa using hns))
  refine ⟨no_eviction_now hrun hfit hns, hall, ?_⟩
  clear hall
  induction hrun with
  | nil => intro st hst; simp [BState.init, State.init] at hst
  | @step b1 b' h1 a o o' hrun' hs ih =>
    have hfit' : DemandFits cfg h1 := DemandFits.suffix (h1 := [(b1, a)]) hfit
    have hns' : NoShutdownReq h1 := fun p hp => hns p (List.mem_cons_of_mem _ hp)
    exact noSpaceFree_step (ih hfit' hns') (bud_run hfit.1 hrun' hns').1 (no_eviction_now hrun' hfit' hns') hs


/-! ## 2  retention -/

/-- the write `req` of `(k, v)`, issued by client `j` at `p₀`, has been ACKNOWLEDGED AS ACCEPTED as of the state `s`:
    the call returned `Ok(ack hd)` at some `q` (the first return of `j` after `p₀`: it IS that call), and the cell `hd`
    holds `Accepted` in `s` — answered on the spot, or by the worker's completion of the command -/
def AckedAccepted (h : List (BState × Act)) (b : BState) (j p₀ n : Nat) (s : BState) : Prop :=
  ∃ q hd st, FirstRet h b j p₀ q (.ack hd st) ∧ q < n ∧ s.g.acks[hd]? = some .accepted

/-- **C03 at action granularity, the core** (the premises on the key in STATE form; `C03_layerB_retained` below
    discharges them from the events of the history).

    Along any run from the initial state on which no `shutdown()` is requested and whose requests satisfy `DemandFits`:
    let client `j` issue at `p₀` a write `req` of `(k, v)` (`put*(k, v)` or `put_or_update(k, Some(v), ..)`) in a state `s₀`
    in which
      (S) no put / delete / value-carrying upsert of `k` is under way (`Safe k s₀`), and
      (E) the sweeper is not carrying through the eviction of an entry of `k` that has been revived (`EvInv s₀ k`);
    let the `n₁`-th action (any action: in particular a store lookup of `k`) run in the state `s₁`, `p₀ < n₁`, such that
      (A) the write has been acknowledged as accepted as of `s₁`,
      (N) no put, delete or value-carrying upsert of `k` is issued strictly between `p₀` and `n₁`
          (value-LESS `put_or_update`s of `k` — weight, time-to-live — are free), and
      (L) in every state from `p₀` to `n₁` the entry of `k`, if there is one, has not expired by its own deadline.
    Then in `s₁` the store holds under `k` an entry with value `v`, not marked deleted, not expired: ALIVE. -/
theorem C03_layerB_retained_core {cfg : Cfg} {now : Nat} {seeds : List Nat} {clients : Nat} {sm : List (Nat × Nat)}
    {b : BState} {h : List (BState × Act)} {k v j p₀ n₁ : Nat} {req : Req} {s₀ s₁ : BState} {a₁ : Act}
    (hrun : RunH { BState.init cfg now seeds clients with storeShard := sm } h b)
    (hfit : DemandFits cfg h) (hns : NoShutdownReq h) (hreq : WritesReq req k v)
    (hiss : At h p₀ (s₀, .issue j req)) (hS : Safe k s₀) (hE : EvInv s₀ k)
    (hat : At h n₁ (s₁, a₁)) (hp : p₀ < n₁) (hA : AckedAccepted h b j p₀ n₁ s₁)
    (hN : ∀ q s i r, p₀ < q → q < n₁ → At h q (s, .issue i r) → r.danger k = false)
    (hL : ∀ q s a, p₀ ≤ q → q ≤ n₁ → At h q (s, a) → LiveK k s) :
    ∃ e, s₁.g.store.get? k = some e ∧ e.value = v ∧ e.alive s₁.g.now = true := by
  obtain ⟨h1, h0, rfl, hlen, hr0⟩ := runH_at_append hrun hat
  subst hlen
  have hsub : Sub h0 (h1 ++ (s₁, a₁) :: h0) := by
    have := sub_append h0 (h1 ++ [(s₁, a₁)])
    simpa using this
  have hfit0 : DemandFits cfg h0 := DemandFits.suffix (h1 := h1 ++ [(s₁, a₁)]) (by simpa using hfit)
  have hns0 : NoShutdownReq h0 := noShutdownReq_suffix (h1 := h1 ++ [(s₁, a₁)]) (by simpa using hns)
  have hev0 := (C03_layerB_no_eviction_when_demand_fits hr0 hfit0 hns0).2.1
  have hup : ∀ {q x}, At h0 q x → q < h0.length ∧ At (h1 ++ (s₁, a₁) :: h0) q x := fun hx => (hsub _ _).mp hx
  obtain ⟨hph, _⟩ := wphase_run (k := k) (v := v) (j := j) (p₀ := p₀) (req := req) hr0 hns0 hev0
    (fun s a hx => by
      have := (hup hx).2.inj hiss
      cases this
      exact ⟨rfl, hS, hE⟩) hreq
    (fun q s i r hq hx => hN q s i r hq (hup hx).1 (hup hx).2)
    (fun q s a hq hx => hL q s a hq (Nat.le_of_lt (hup hx).1) (hup hx).2) hp
  have hr := swB_reach_run (.init sm) hr0
  obtain ⟨q, hd, st, hf, hq, hacc⟩ := hA
  have hk := wphase_accepted hph (hinv_reach hr) ⟨q, hd, st, firstRet_restrict hsub hat hf hq, hacc⟩
  obtain ⟨_, _, e, he, hv, hsoft⟩ := hk
  refine ⟨e, he, hv, ?_⟩
  have hl := hL h0.length s₁ a₁ (Nat.le_of_lt hp) (Nat.le_refl _) hat
  unfold Entry.alive
  rw [hsoft]
  simp only [Bool.false_eq_true, if_false]
  cases hx : e.expiry with
  | none => rfl
  | some t =>
    have := hl e t he hx
    simp only [Bool.not_eq_eq_eq_not, Bool.not_true, decide_eq_false_iff_not, Nat.not_lt]
    exact this


/-! ## 3  the premises as events of the history -/

/-- the request is a put, a delete or a `put_or_update` (of any kind) of `k`: an OPERATION ON `k` that is not a read -/
def Req.modifies (k : Nat) : Req → Bool
  | .putW k' _ _ _ => k' == k
  | .delete k' => k' == k
  | .upsert k' _ _ _ _ => k' == k
  | _ => false

theorem Req.modifies_of_danger {k : Nat} {r : Req} (h : r.danger k = true) : r.modifies k = true := by
  cases r <;> simp only [Req.danger] at h <;> try cases h
  case putW => exact h
  case delete => exact h
  case upsert k' v w ttl rm => cases v <;> first | cases h | exact h

theorem writesReq_modifies {k v : Nat} {r : Req} (h : WritesReq r k v) : r.modifies k = true := by
  rcases h with ⟨w, ttl, rfl⟩ | ⟨w, ttl, rm, rfl⟩ <;> simp [Req.modifies]

/-- **the call client `i` began at `p` has been ANSWERED before the `n`-th action** (which runs in the state `s`): the
    call has returned at some `q < n` — the first return of `i` after `p` — and, if it returned `Ok(acknowledgement)`, the
    acknowledgement is no longer pending in `s`: it was answered on the spot, or the worker has completed the command
    (`CommandAcknowledgement::done`).  (A call that returned `Err`, or panicked, is answered by its return.) -/
def AnsweredBy (h : List (BState × Act)) (b : BState) (i p n : Nat) (s : BState) : Prop :=
  ∃ q out, FirstRet h b i p q out ∧ q < n ∧ ∀ hd st, out = .ack hd st → ∃ st', s.g.acks[hd]? = some st' ∧ st' ≠ .pending

/-- **Operations on `k` are issued one after another**: whenever a put / delete / `put_or_update` of `k` is issued, every
    such operation issued before it has been answered (`AnsweredBy`) — each is acknowledged before the next begins.
    Reads of `k`, and all traffic on other keys, are unconstrained. -/
def SerialOps (k : Nat) (h : List (BState × Act)) (b : BState) : Prop :=
  ∀ p p' i i' r r' s', p < p' → Issued h i r p → At h p' (s', .issue i' r') → r.modifies k = true →
    r'.modifies k = true → AnsweredBy h b i p p' s'

/-- the entry of `k`, if there is one, is live in the state of every action from `lo` to `hi` -/
def LiveDuring (k : Nat) (h : List (BState × Act)) (lo hi : Nat) : Prop :=
  ∀ q s a, lo ≤ q → q ≤ hi → At h q (s, a) → LiveK k s

/-- the `p₁`-th action runs in a state in which the acknowledgement of the call `j` began at `p₀` holds `Accepted` -/
def AckedAcceptedAt (h : List (BState × Act)) (b : BState) (j p₀ p₁ : Nat) : Prop :=
  ∃ q hd st s a, FirstRet h b j p₀ q (.ack hd st) ∧ q < p₁ ∧ At h p₁ (s, a) ∧ s.g.acks[hd]? = some .accepted

/-- **C03 at action granularity, from the English premises.**

    Take ANY run of Layer B from the initial state — any number of clients, the command worker, the sweeper (any visiting
    order, any number of sweeps), the access consumer and clock moves, interleaved in any way — on which no `shutdown()`
    is requested and whose issued requests satisfy `DemandFits` ("the combined weight of all keys never exceeds the
    cache weight").  Let client `j` issue at `p₀` a write `req` of `(k, v)` — `put*(k, v)` or
    `put_or_update(k, Some(v), ..)` — and let it be acknowledged as `Accepted` before the `p₁`-th action
    (`AckedAcceptedAt`).  Let the `n₁`-th action, `p₁ ≤ n₁`, be ANY action (in particular the store lookup of a read of
    `k` issued at `p₁` or later: `get`, `get_ref`, any position of a multi-key read), run in the state `s₁`.  If

    * (serial) every put / delete / value-carrying upsert of `k` issued before `p₀` was answered before `p₀`
      (a consequence of `SerialOps k h b`: `C03_layerB_retained`),
    * (latest, not deleted) no put, delete or value-carrying upsert of `k` is issued strictly between `p₀` and `n₁` —
      `req` is the LATEST write of a value, and no `delete(k)` has been issued since,
    * (time-to-live) the entry of `k`, when there is one, is live in every state from `p₀` to `n₁` (`LiveDuring`), and at
      `p₀` either `k` is absent or the incarnation standing there was born by the `store.put` action `c < p₀` and has been
      live in every state since (`hborn`): the CURRENT TIME-TO-LIVE HAS NOT ELAPSED, at any moment since the entry was
      born — this is what excludes the known finding D3 (a `put_or_update` of an expired-but-unswept entry revives it
      while the sweeper may already be carrying its eviction through; `C03_layerB_retained_needs_no_revival`),

    then `s₁` holds under `k` an entry that is ALIVE and carries the value `v`: a lookup of `k` there hits, with exactly
    the latest acknowledged value.  Traffic on other keys (puts, deletes, upserts, reads), value-less upserts of `k`
    (weight, time-to-live), access counting, sketch ageing, sweeps and clock moves are arbitrary. -/
theorem C03_layerB_retained' {cfg : Cfg} {now : Nat} {seeds : List Nat} {clients : Nat} {sm : List (Nat × Nat)}
    {b : BState} {h : List (BState × Act)} {k v j p₀ p₁ n₁ : Nat} {req : Req} {s₀ s₁ : BState} {a₁ : Act}
    (hrun : RunH { BState.init cfg now seeds clients with storeShard := sm } h b)
    (hfit : DemandFits cfg h) (hns : NoShutdownReq h) (hreq : WritesReq req k v)
    (hiss : At h p₀ (s₀, .issue j req))
    (hser : ∀ p i r, p < p₀ → Issued h i r p → r.danger k = true → AnsweredBy h b i p p₀ s₀)
    (hborn : s₀.g.store.get? k = none ∨
      ∃ c, c < p₀ ∧ (∀ x, At h c x → isPutAny k x) ∧ LiveDuring k h (c + 1) p₀)
    (hat : At h n₁ (s₁, a₁)) (hp : p₀ < p₁) (hpn : p₁ ≤ n₁) (hA : AckedAcceptedAt h b j p₀ p₁)
    (hN : ∀ q s i r, p₀ < q → q < n₁ → At h q (s, .issue i r) → r.danger k = false)
    (hL : LiveDuring k h p₀ n₁) :
    ∃ e, s₁.g.store.get? k = some e ∧ e.value = v ∧ e.alive s₁.g.now = true := by
  -- the run up to the issue of the write
  obtain ⟨h1, h0, e0, hlen, hr0⟩ := runH_at_append hrun hiss
  have hsub0 : Sub h0 h := by
    rw [e0]
    have := sub_append h0 (h1 ++ [(s₀, .issue j req)])
    simpa using this
  have hns0 : NoShutdownReq h0 := by
    rw [e0] at hns
    exact noShutdownReq_suffix (h1 := h1 ++ [(s₀, .issue j req)]) (by simpa using hns)
  have hr0' := swB_reach_run (.init sm) hr0
  have hat0 : At h h0.length (s₀, .issue j req) := by rw [hlen]; exact hiss
  -- (S) nothing dangerous is under way at the issue
  have hS : Safe k s₀ := by
    refine safe_of_answered (prov_run k hr0 hns0) (hinv_reach hr0') ?_
    intro p i r hi hd
    have hplt : p < p₀ := by rw [← hlen]; exact issued_lt hi
    obtain ⟨q, out, hf, hq, hack⟩ := hser p i r hplt (hi.sub hsub0) hd
    exact ⟨q, out, firstRet_restrict hsub0 hat0 hf (by rw [hlen]; exact hq), hack⟩
  -- (E) the sweeper is not carrying through the eviction of a revived entry
  have hE : EvInv s₀ k := by
    rcases hborn with hnone | ⟨c, hc, hb, hl⟩
    · intro e n he; rw [hnone] at he; cases he
    · refine evinv_run_born hr0 hns0 (by rw [hlen]; exact hc) (fun x hx => hb x (hsub0.at hx)) ?_
      intro q s a hq hx
      have := (hsub0 _ _).mp hx
      exact hl q s a hq (by rw [← hlen]; exact Nat.le_of_lt this.1) this.2
  -- (A) the acknowledgement is still `Accepted` in `s₁`
  have hA1 : AckedAccepted h b j p₀ n₁ s₁ := by
    obtain ⟨q, hd, st, s, a, hf, hq, hx, hacc⟩ := hA
    refine ⟨q, hd, st, hf, by omega, ?_⟩
    rcases Nat.lt_or_ge p₁ n₁ with hlt | hge
    · obtain ⟨h1', h0', e1, hlen1, hr1⟩ := runH_at_append hrun hat
      have hsub1 : Sub h0' h := by
        rw [e1]
        have := sub_append h0' (h1' ++ [(s₁, a₁)])
        simpa using this
      exact acks_stable_run hr1 ((hsub1 _ _).mpr ⟨by rw [hlen1]; exact hlt, hx⟩) hacc (by simp)
    · have : p₁ = n₁ := by omega
      subst this
      cases hx.inj hat
      exact hacc
  exact C03_layerB_retained_core hrun hfit hns hreq hiss hS hE hat (by omega) hA1 hN hL

/-- **… with the serial premise in the form of the English text**: operations on `k` are issued one after another
    (`SerialOps k h b`) -/
theorem C03_layerB_retained {cfg : Cfg} {now : Nat} {seeds : List Nat} {clients : Nat} {sm : List (Nat × Nat)}
    {b : BState} {h : List (BState × Act)} {k v j p₀ p₁ n₁ : Nat} {req : Req} {s₀ s₁ : BState} {a₁ : Act}
    (hrun : RunH { BState.init cfg now seeds clients with storeShard := sm } h b)
    (hfit : DemandFits cfg h) (hns : NoShutdownReq h) (hreq : WritesReq req k v)
    (hiss : At h p₀ (s₀, .issue j req)) (hser : SerialOps k h b)
    (hborn : s₀.g.store.get? k = none ∨
      ∃ c, c < p₀ ∧ (∀ x, At h c x → isPutAny k x) ∧ LiveDuring k h (c + 1) p₀)
    (hat : At h n₁ (s₁, a₁)) (hp : p₀ < p₁) (hpn : p₁ ≤ n₁) (hA : AckedAcceptedAt h b j p₀ p₁)
    (hN : ∀ q s i r, p₀ < q → q < n₁ → At h q (s, .issue i r) → r.danger k = false)
    (hL : LiveDuring k h p₀ n₁) :
    ∃ e, s₁.g.store.get? k = some e ∧ e.value = v ∧ e.alive s₁.g.now = true :=
  C03_layerB_retained' hrun hfit hns hreq hiss
    (fun p i r hlt hi hd => hser p p₀ i j r req s₀ hlt hi hiss (Req.modifies_of_danger hd) (writesReq_modifies hreq))
    hborn hat hp hpn hA hN hL


/-! ## 4  what the read returns -/

/-- **every variant of a read, at its lookup**: if the store holds under `k` an alive entry with value `v`, the
    `store.get` action of `get(k)`, of `get_ref(k)` and of any position of a multi-key read moves the client on to its
    `pool.add` position CARRYING `v` — the value it then returns (`get`, `get_ref`: `C02_layerB_get_pool`; a multi-key
    read: appends `Some(v)` at that position, `C02_layerB_mget_pool`) -/
theorem lookup_hits {s s' : BState} {i k v : Nat} {o o' : Oracle} {e : Entry} (hk : s.g.store.get? k = some e)
    (hv : e.value = v) (hal : e.alive s.g.now = true) (hs : stepB s (.client i) o = .ok (s', o')) :
    (s.cl[i]? = some (.getStore k) → s'.cl[i]? = some (.getPool k v)) ∧
    (s.cl[i]? = some (.refStore k) → s'.cl[i]? = some (.refPool k v)) ∧
    (∀ ks acc iter, s.cl[i]? = some (.mgetStore k ks acc iter) → s'.cl[i]? = some (.mgetPool k v ks acc iter)) := by
  simp only [stepB] at hs
  refine ⟨fun hpc => ?_, fun hpc => ?_, fun ks acc iter hpc => ?_⟩
  · rcases (C02_layerB_get_store hpc hs).1 with ⟨e', he', _, hcl, _⟩ | ⟨hm, _⟩
    · rw [hk] at he'; cases he'
      rw [hcl, hv]; exact List.getElem?_set_self (List.getElem?_eq_some_iff.mp hpc).1
    · exact absurd hal (by simpa using hm e hk)
  · rcases (C02_layerB_ref_store hpc hs).1 with ⟨e', he', _, hcl, _⟩ | ⟨hm, _⟩
    · rw [hk] at he'; cases he'
      rw [hcl, hv]; exact List.getElem?_set_self (List.getElem?_eq_some_iff.mp hpc).1
    · exact absurd hal (by simpa using hm e hk)
  · rcases (C02_layerB_mget_store hpc hs).1 with ⟨e', he', _, hcl, _⟩ | ⟨hm, _⟩
    · rw [hk] at he'; cases he'
      rw [hcl, hv]; exact List.getElem?_set_self (List.getElem?_eq_some_iff.mp hpc).1
    · exact absurd hal (by simpa using hm e hk)


/-- **C03, the read's result.**  Under the premises of `C03_layerB_retained'`, a `get(k)` or `get_ref(k)` that is ISSUED
    at `n₀`, after the acknowledgement of the latest write of `(k, v)` was answered `Accepted` (`p₁ ≤ n₀`), and RETURNS
    at `n₂` — no put / delete / value-carrying upsert of `k` issued and the entry live up to the return — returns
    `Some(v)`: exactly the latest acknowledged value. -/
theorem C03_layerB_retained_read {cfg : Cfg} {now : Nat} {seeds : List Nat} {clients : Nat} {sm : List (Nat × Nat)}
    {b : BState} {h : List (BState × Act)} {k v j p₀ p₁ i n₀ n₂ : Nat} {req rq : Req} {s₀ : BState} {out : Out}
    (hrun : RunH { BState.init cfg now seeds clients with storeShard := sm } h b)
    (hfit : DemandFits cfg h) (hns : NoShutdownReq h) (hreq : WritesReq req k v)
    (hiss : At h p₀ (s₀, .issue j req))
    (hser : ∀ p i r, p < p₀ → Issued h i r p → r.danger k = true → AnsweredBy h b i p p₀ s₀)
    (hborn : s₀.g.store.get? k = none ∨
      ∃ c, c < p₀ ∧ (∀ x, At h c x → isPutAny k x) ∧ LiveDuring k h (c + 1) p₀)
    (hp : p₀ < p₁) (hA : AckedAcceptedAt h b j p₀ p₁)
    (hrq : rq = .get k ∨ rq = .getRef k) (hread : Issued h i rq n₀) (hpn : p₁ ≤ n₀)
    (hret : Returned h b i n₂ out) (hlt : n₀ < n₂) (hsame : ∀ q r, n₀ < q → q < n₂ → ¬ Issued h i r q)
    (hN : ∀ q s i r, p₀ < q → q < n₂ → At h q (s, .issue i r) → r.danger k = false)
    (hL : LiveDuring k h p₀ n₂) : out = .value (some v) := by
  have hidle : ∀ pc ∈ ({ BState.init cfg now seeds clients with storeShard := sm } : BState).cl, pc = .idle := by
    intro pc hpc
    simp only [BState.init, List.mem_replicate] at hpc
    exact hpc.2
  obtain ⟨s, s'', hx, hst'', hidle', hres⟩ := hret
  obtain ⟨s', o, o', h0, pc, hs, hst, hsub, hlen, hpc, hri⟩ := call_at hidle hrun hread hx hlt hsame
  have := hst.inj hst''
  subst this
  -- the entry of `k` at any action between the read's issue and its return
  have main : ∀ n₁ s₁ a₁, At h n₁ (s₁, a₁) → n₀ ≤ n₁ → n₁ ≤ n₂ →
      ∃ e, s₁.g.store.get? k = some e ∧ e.value = v ∧ e.alive s₁.g.now = true := by
    intro n₁ s₁ a₁ hat h1 h2
    exact C03_layerB_retained' hrun hfit hns hreq hiss hser hborn hat hp (by omega) hA
      (fun q s i r hq1 hq2 hx => hN q s i r hq1 (by omega) hx)
      (fun q s a hq1 hq2 hx => hL q s a hq1 (by omega) hx)
  obtain ⟨e, hke, hve, hal⟩ := main n₂ s _ hx (Nat.le_of_lt hlt) (Nat.le_refl _)
  -- the flag is not set
  obtain ⟨h1', h0', e1, hlen1, hr1⟩ := runH_at_append hrun hx
  have hns1 : NoShutdownReq h0' := by
    rw [e1] at hns
    exact noShutdownReq_suffix (h1 := h1' ++ [(s, .client i)]) (by simpa using hns)
  have hnsh := (noShut_run hr1 hns1).1
  have hstep : stepB s (.client i) o = .ok (s', o') := by simpa [stepB] using hs
  have picked : ∀ v', Picked h0 { BState.init cfg now seeds clients with storeShard := sm } i n₀ k v' → v' = v := by
    rintro v' ⟨n₁, e', hn1, hlook, hval, _⟩
    have hlt1 := hlook.lt
    obtain ⟨s₁, hat1, _, hk1, _⟩ := hlook
    obtain ⟨e1', hk1', hv1, _⟩ := main n₁ s₁ _ (hsub.at hat1) (Nat.le_of_lt hn1) (by omega)
    rw [hk1] at hk1'; cases hk1'
    rw [← hval, hv1]
  rcases hrq with rfl | rfl
  · rcases hri with rfl | rfl | ⟨v', rfl, hpk⟩
    · exfalso
      obtain ⟨pc0, pc', hpc0, hf, _, _, hstep', _, _⟩ :=
        cact_frame (clientAct_cact hs) hnsh.flag (fun pc h => hnsh.cl i pc h)
      rw [hpc] at hpc0; cases hpc0
      cases hstep'
      case tailPanic => tail_absurd
      case tailSend => tail_absurd
      case tailSpot => tail_absurd
      all_goals
        rw [hf.cl, List.getElem?_set_self (List.getElem?_eq_some_iff.mp hpc).1] at hidle'
        cases hidle'
    · have := (lookup_hits hke hve hal hstep).1 hpc
      rw [this] at hidle'; cases hidle'
    · have hv' := picked v' hpk
      subst hv'
      rw [(C02_layerB_get_pool hpc hs).2] at hres
      exact (res_set_head hres).symm
  · rcases hri with rfl | rfl | ⟨v', rfl, hpk⟩
    · exfalso
      obtain ⟨pc0, pc', hpc0, hf, _, _, hstep', _, _⟩ :=
        cact_frame (clientAct_cact hs) hnsh.flag (fun pc h => hnsh.cl i pc h)
      rw [hpc] at hpc0; cases hpc0
      cases hstep'
      case tailPanic => tail_absurd
      case tailSend => tail_absurd
      case tailSpot => tail_absurd
      all_goals
        rw [hf.cl, List.getElem?_set_self (List.getElem?_eq_some_iff.mp hpc).1] at hidle'
        cases hidle'
    · have := (lookup_hits hke hve hal hstep).2.1 hpc
      rw [this] at hidle'; cases hidle'
    · have hv' := picked v' hpk
      subst hv'
      rw [(ref_pool_step hpc hs).2] at hres
      exact (res_set_head hres).symm


/-! ## 5  concrete runs: non-vacuity, and no premise can be dropped

  Checkers: `allAt h f` evaluates `f` on every action of a history (index, state before, action); the `…_check` lemmas turn
  a successful evaluation into the quantified premise. -/

/-- `f` holds of every action of the history (index from the oldest, state before it, action) -/
def allAtGo (f : Nat → BState → Act → Bool) : List (BState × Act) → Nat → Bool
  | [], _ => true
  | (s, a) :: l, n => f n s a && allAtGo f l (n + 1)

def allAt (h : List (BState × Act)) (f : Nat → BState → Act → Bool) : Bool := allAtGo f h.reverse 0

theorem allAtGo_sound {f : Nat → BState → Act → Bool} : ∀ (l : List (BState × Act)) (n : Nat), allAtGo f l n = true →
    ∀ q s a, l[q]? = some (s, a) → f (n + q) s a = true
  | [], _, _, q, s, a, hq => by simp at hq
  | (s0, a0) :: l, n, hc, q, s, a, hq => by
    simp only [allAtGo, Bool.and_eq_true] at hc
    cases q with
    | zero =>
      simp only [List.getElem?_cons_zero, Option.some.injEq, Prod.mk.injEq] at hq
      obtain ⟨rfl, rfl⟩ := hq
      exact hc.1
    | succ q =>
      simp only [List.getElem?_cons_succ] at hq
      have := allAtGo_sound l (n + 1) hc.2 q s a hq
      rw [show n + (q + 1) = n + 1 + q by omega]
      exact this

theorem allAt_sound {h : List (BState × Act)} {f : Nat → BState → Act → Bool} (hc : allAt h f = true) :
    ∀ q s a, At h q (s, a) → f q s a = true := by
  intro q s a hx
  have := allAtGo_sound h.reverse 0 hc q s a hx
  simpa using this

theorem liveDuring_check {h : List (BState × Act)} {k lo hi : Nat}
    (hc : allAt h (fun q s _ => !(decide (lo ≤ q) && decide (q ≤ hi)) || decide (LiveK k s)) = true) :
    LiveDuring k h lo hi := by
  intro q s a h1 h2 hx
  have := allAt_sound hc q s a hx
  simpa [h1, h2] using this

theorem noDanger_check {h : List (BState × Act)} {k lo hi : Nat}
    (hc : allAt h (fun q _ a => !(decide (lo < q) && decide (q < hi)) ||
      (match a with | .issue _ r => !r.danger k | _ => true)) = true) :
    ∀ q s i r, lo < q → q < hi → At h q (s, .issue i r) → r.danger k = false := by
  intro q s i r h1 h2 hx
  have := allAt_sound hc q s _ hx
  simpa [h1, h2] using this

theorem dangerIssued_check {h : List (BState × Act)} {k n : Nat} {P : Nat → Nat → Req → Prop}
    [∀ q i r, Decidable (P q i r)]
    (hc : allAt h (fun q _ a => !decide (q < n) ||
      (match a with | .issue i r => !r.danger k || decide (P q i r) | _ => true)) = true) :
    ∀ p i r, p < n → Issued h i r p → r.danger k = true → P p i r := by
  rintro p i r hp ⟨s, hx⟩ hd
  have := allAt_sound hc p s _ hx
  simpa [hp, hd] using this

/-- three clients, cache weight 200, two expiry shards -/
def retCfg : Cfg := { maxWeight := 200, shards := 2, cmdCap := 4, poolSize := 1, bufSize := 2, counters := 2 }

def retInit : BState := BState.init retCfg 0 [1, 2, 3, 4] 3

def retHist (b0 : BState) (l : List (Act × Oracle)) : List (BState × Act) :=
  match histOf b0 l [] with
  | .ok (h, _) => h
  | .error _ => []

def retFinal (b0 : BState) (l : List (Act × Oracle)) : BState :=
  match histOf b0 l [] with
  | .ok (_, b) => b
  | .error _ => b0

def retOk (b0 : BState) (l : List (Act × Oracle)) : Bool :=
  match histOf b0 l [] with
  | .ok _ => true
  | .error _ => false

theorem retRunH {b0 : BState} {l : List (Act × Oracle)} (hok : retOk b0 l = true) :
    RunH b0 (retHist b0 l) (retFinal b0 l) := by
  unfold retOk at hok
  unfold retHist retFinal
  cases hh : histOf b0 l [] with
  | error m => rw [hh] at hok; cases hok
  | ok p =>
    obtain ⟨h, b⟩ := p
    exact runH_histOf l (.nil _) hh

/-- one second -/
def retS : Nat := 1000000000

def retC (i : Nat) : Act × Oracle := (.client i, noO)
def retCp (i : Nat) : Act × Oracle := (.client i, { pool := [0] })
def retW : Act × Oracle := (.worker, noO)
def retSw (v : Option Nat) : Act × Oracle := (.sweeper v, noO)
def retI (i : Nat) (r : Req) : Act × Oracle := (.issue i r, noO)

/-- **The run of the non-vacuity example** (104 actions).  Client 0 works on key 1, one operation after another;
    clients 1 and 2 produce traffic on keys 2 and 3 and read key 1; the sweeper and the clock move in between. -/
def retRun : List (Act × Oracle) :=
  -- 0–4: client 0 puts key 1 (value 100, weight 5, time-to-live 10 s)
  call 0 (.putW 1 100 5 (some (10 * retS))) 4 ++
  -- 5–36: clients 1 and 2 put keys 2 and 3 (key 3 with a time-to-live of 1 s) while the worker applies the three puts
  --       (`store.put` of key 1: action 18, answered by action 22); two empty sweeps
  [retI 1 (.putW 2 200 4 none), retC 1, retW, retW, retI 2 (.putW 3 300 3 (some retS)), retC 1, retC 2, retW, retSw none,
   retW, retC 1, retC 2, retW, retW, retSw none, retC 1, retC 2, retW, retC 2] ++ workerN 13 ++
  -- 37–55: client 0 upserts key 1 to the value 101 — THE WRITE (issued 37, returns 48, answered by action 51) — while
  --        client 1 deletes key 2 and client 2 reads key 3
  [retI 0 (.upsert 1 (some 101) none none false), retI 1 (.delete 2), retC 0, retC 1, retI 2 (.get 3), retC 0, retC 2,
   retC 1, retC 0, retC 2, retCp 2, retC 0, retC 1, retW, retW, retW, retW, retW, retW] ++
  -- 56–66: the clock moves to 2 s, the sweep of shard 0 visits the id of key 1 (not due); to 3 s, the sweep of shard 1
  --        finds key 3 expired and evicts it
  [(.advance (2 * retS), noO), retSw none, retSw (some 1), retSw none, (.advance retS, noO), retSw none, retSw (some 3),
   retSw none, retSw none, retSw none, retSw none] ++
  -- 67–84: client 0 extends the time-to-live of key 1 (a value-less upsert: deadline 23 s); client 2 upserts key 3
  --        (absent: it becomes a put)
  [retI 0 (.upsert 1 none none (some (20 * retS)) false), retI 2 (.upsert 3 (some 301) none (some (5 * retS)) false),
   retC 0, retC 2, retC 0, retC 2, retC 0, retC 2, retC 0, retC 2, retC 0, retW, retW, retW, retW, retW, retW, retW] ++
  -- 85–103: the reads: `get(1)` by client 0 (lookup 91, returns 94), `get_ref(1)` by client 1 (lookup 92, returns 95),
  --        `multi_get([3, 1, 2])` by client 2 (first action 90, the load at its entry 93; key 3: load 96, lookup 97,
  --        access record 98; key 1: load 99, LOOKUP 100, access record 101; key 2: load 102, lookup 103)
  [retI 0 (.get 1), retI 1 (.getRef 1), retI 2 (.mget [3, 1, 2] false), retC 0, retC 1, retC 2, retC 0, retC 1, retC 2,
   retCp 0, retCp 1, retC 2, retC 2, retCp 2, retC 2, retC 2, retCp 2, retC 2, retC 2]

set_option maxRecDepth 100000 in
theorem retRun_ok : retOk retInit retRun = true := by decide



theorem at_state_check {h : List (BState × Act)} {n : Nat} {P : BState → Prop} [DecidablePred P]
    (hc : allAt h (fun q s _ => q != n || decide (P s)) = true) : ∀ s a, At h n (s, a) → P s := by
  intro s a hx
  have := allAt_sound hc n s a hx
  simpa using this

/-- the history and the final state of `retRun` -/
abbrev retH : List (BState × Act) := retHist retInit retRun
abbrev retB : BState := retFinal retInit retRun

theorem retRun_run : RunH { BState.init retCfg 0 [1, 2, 3, 4] 3 with storeShard := [] } retH retB :=
  retRunH retRun_ok

/-! ### non-vacuity: every premise of `C03_layerB_retained'` holds of `retRun`

  Key 1; THE WRITE `put_or_update(1, Some(101))` issued by client 0 at 37, returned at 48 with the handle 3, answered
  `Accepted` by the worker's action 51; the incarnation born by the `store.put` action 18 of the put issued at 0; the lookups
  91 (`get` of client 0), 92 (`get_ref` of client 1) and 100 (position 1 of `multi_get([3, 1, 2])` of client 2). -/

/-- the write -/
abbrev retReq : Req := .upsert 1 (some 101) none none false

set_option maxRecDepth 100000 in
/-- the demand fits (5 + 4 + 3 + 1 + 24 + 25 ≤ 200); no `shutdown()` -/
theorem retW_fit : DemandFits retCfg retH ∧ NoShutdownReq retH := ⟨by decide, by decide⟩

set_option maxRecDepth 100000 in
/-- the write is issued at 37; the one put / delete / value-carrying upsert of key 1 issued before it — the put of
    client 0 at 0 — returned at 4 and was answered by then -/
theorem retW_issue : ∃ s₀, At retH 37 (s₀, .issue 0 retReq) ∧
    ∀ p i r, p < 37 → Issued retH i r p → r.danger 1 = true → AnsweredBy retH retB i p 37 s₀ := by
  obtain ⟨s₀, hs₀⟩ : ∃ s₀, At retH 37 (s₀, .issue 0 retReq) := ⟨_, rfl⟩
  refine ⟨s₀, hs₀, ?_⟩
  intro p i r hp hi hd
  obtain ⟨rfl, rfl⟩ := dangerIssued_check (P := fun q i _ => q = 0 ∧ i = 0) (h := retH) (k := 1) (n := 37)
    (by decide) p i r hp hi hd
  have hacks : s₀.g.acks[0]? = some .accepted :=
    at_state_check (h := retH) (n := 37) (P := fun s => s.g.acks[0]? = some .accepted) (by decide) s₀ _ hs₀
  exact ⟨4, .ack 0 .pending, ⟨by decide, ⟨_, _, rfl, Or.inr ⟨_, rfl⟩, rfl, rfl⟩, noIssue_check (by decide)⟩,
    by decide, fun hd st e => by cases e; exact ⟨.accepted, hacks, by simp⟩⟩

set_option maxRecDepth 100000 in
/-- the incarnation of key 1 standing at 37 was born by the `store.put` action 18 and has been live since -/
theorem retW_born : (∀ x, At retH 18 x → isPutAny 1 x) ∧ LiveDuring 1 retH 19 37 := by
  refine ⟨?_, liveDuring_check (by decide)⟩
  intro x hx
  have h18 : At retH 18 (_, .worker) := rfl
  cases hx.inj h18
  refine ⟨100, 1, rfl, _, some 10000000000, rfl, rfl, rfl, rfl, ?_⟩
  decide

set_option maxRecDepth 100000 in
/-- the write returned `Ok(ack 3)` at 48; the cell 3 holds `Accepted` in the state of action 52 -/
theorem retW_acked : AckedAcceptedAt retH retB 0 37 52 :=
  ⟨48, 3, .pending, _, _, ⟨by decide, ⟨_, _, rfl, Or.inr ⟨_, rfl⟩, rfl, rfl⟩, noIssue_check (by decide)⟩,
    by decide, rfl, rfl⟩

set_option maxRecDepth 100000 in
/-- after 37 no put, delete or value-carrying upsert of key 1 is issued (the upsert at 67 carries no value), and the
    entry of key 1 is live in every state (deadline 10 s, then 23 s; the clock reaches 3 s) -/
theorem retW_quiet : (∀ q s i r, 37 < q → q < 104 → At retH q (s, .issue i r) → r.danger 1 = false) ∧
    LiveDuring 1 retH 37 104 := ⟨noDanger_check (by decide), liveDuring_check (by decide)⟩

set_option maxRecDepth 100000 in
/-- the three lookups of key 1 -/
theorem retW_lookups :
    (∃ s, At retH 91 (s, .client 0) ∧ s.cl[0]? = some (.getStore 1)) ∧
    (∃ s, At retH 92 (s, .client 1) ∧ s.cl[1]? = some (.refStore 1)) ∧
    (∃ s, At retH 100 (s, .client 2) ∧ s.cl[2]? = some (.mgetStore 1 [2] [some 301] false)) :=
  ⟨⟨_, rfl, rfl⟩, ⟨_, rfl, rfl⟩, ⟨_, rfl, rfl⟩⟩

set_option maxRecDepth 100000 in
/-- the two single-key reads: begun at 85 / 86, returned at 94 / 95 -/
theorem retW_reads :
    Issued retH 0 (.get 1) 85 ∧ (∃ out, Returned retH retB 0 94 out) ∧ (∀ q r, 85 < q → q < 94 → ¬ Issued retH 0 r q) ∧
    Issued retH 1 (.getRef 1) 86 ∧ (∃ out, Returned retH retB 1 95 out) ∧ (∀ q r, 86 < q → q < 95 → ¬ Issued retH 1 r q) :=
  ⟨⟨_, rfl⟩, ⟨.value (some 101), _, _, rfl, Or.inr ⟨_, rfl⟩, rfl, rfl⟩, noIssue_check (by decide),
   ⟨_, rfl⟩, ⟨.value (some 101), _, _, rfl, Or.inr ⟨_, rfl⟩, rfl, rfl⟩, noIssue_check (by decide)⟩


/-- **`C03_layerB_retained'` applied to `retRun`**: at each of the three lookups the store holds under key 1 an alive
    entry with the value 101 -/
theorem C03_layerB_retained_witness (n₁ : Nat) (s₁ : BState) (a₁ : Act) (hat : At retH n₁ (s₁, a₁)) (h1 : 52 ≤ n₁)
    (h2 : n₁ ≤ 104) : ∃ e, s₁.g.store.get? 1 = some e ∧ e.value = 101 ∧ e.alive s₁.g.now = true := by
  obtain ⟨s₀, hs₀, hser⟩ := retW_issue
  exact C03_layerB_retained' retRun_run retW_fit.1 retW_fit.2 (Or.inr ⟨none, none, false, rfl⟩) hs₀ hser
    (Or.inr ⟨18, by decide, retW_born.1, retW_born.2⟩) hat (by decide : 37 < 52) h1 retW_acked
    (fun q s i r hq1 hq2 => retW_quiet.1 q s i r hq1 (by omega))
    (fun q s a hq1 hq2 => retW_quiet.2 q s a hq1 (by omega))

example : ∃ s e, At retH 91 (s, .client 0) ∧ s.cl[0]? = some (.getStore 1) ∧ s.g.store.get? 1 = some e ∧
    e.value = 101 ∧ e.alive s.g.now = true := by
  obtain ⟨s, hs, hpc⟩ := retW_lookups.1
  obtain ⟨e, he⟩ := C03_layerB_retained_witness 91 s _ hs (by decide) (by decide)
  exact ⟨s, e, hs, hpc, he⟩

example : ∃ s e, At retH 100 (s, .client 2) ∧ s.cl[2]? = some (.mgetStore 1 [2] [some 301] false) ∧
    s.g.store.get? 1 = some e ∧ e.value = 101 ∧ e.alive s.g.now = true := by
  obtain ⟨s, hs, hpc⟩ := retW_lookups.2.2
  obtain ⟨e, he⟩ := C03_layerB_retained_witness 100 s _ hs (by decide) (by decide)
  exact ⟨s, e, hs, hpc, he⟩

/-- **`C03_layerB_retained_read` applied to `retRun`**: whatever `get(1)` of client 0 (85–94) and `get_ref(1)` of
    client 1 (86–95) return, it is `Some(101)` -/
example (out : Out) (hret : Returned retH retB 0 94 out) : out = .value (some 101) := by
  obtain ⟨s₀, hs₀, hser⟩ := retW_issue
  exact C03_layerB_retained_read retRun_run retW_fit.1 retW_fit.2 (Or.inr ⟨none, none, false, rfl⟩) hs₀ hser
    (Or.inr ⟨18, by decide, retW_born.1, retW_born.2⟩) (by decide : 37 < 52) retW_acked (Or.inl rfl) retW_reads.1
    (by decide) hret (by decide) retW_reads.2.2.1
    (fun q s i r hq1 hq2 => retW_quiet.1 q s i r hq1 (by omega))
    (fun q s a hq1 hq2 => retW_quiet.2 q s a hq1 (by omega))

example (out : Out) (hret : Returned retH retB 1 95 out) : out = .value (some 101) := by
  obtain ⟨s₀, hs₀, hser⟩ := retW_issue
  exact C03_layerB_retained_read retRun_run retW_fit.1 retW_fit.2 (Or.inr ⟨none, none, false, rfl⟩) hs₀ hser
    (Or.inr ⟨18, by decide, retW_born.1, retW_born.2⟩) (by decide : 37 < 52) retW_acked (Or.inr rfl)
    retW_reads.2.2.2.1 (by decide) hret (by decide) retW_reads.2.2.2.2.2
    (fun q s i r hq1 hq2 => retW_quiet.1 q s i r hq1 (by omega))
    (fun q s a hq1 hq2 => retW_quiet.2 q s a hq1 (by omega))

/-- … and `C03_layerB_no_eviction_when_demand_fits`: the worker never stands inside the eviction loop along `retRun` -/
example : retB.w.evicting = false ∧ (∀ p ∈ retH, p.1.w.evicting = false) ∧ ∀ st ∈ retB.g.acks, st ≠ .rejected .noSpace :=
  C03_layerB_no_eviction_when_demand_fits retRun_run retW_fit.1 retW_fit.2


theorem modIssued_check {h : List (BState × Act)} {k : Nat} {P : Nat → Nat → Req → Prop}
    [∀ q i r, Decidable (P q i r)]
    (hc : allAt h (fun q _ a => match a with | .issue i r => !r.modifies k || decide (P q i r) | _ => true) = true) :
    ∀ p i r, Issued h i r p → r.modifies k = true → P p i r := by
  rintro p i r ⟨s, hx⟩ hd
  have := allAt_sound hc p s _ hx
  simpa [hd] using this

set_option maxRecDepth 100000 in
/-- **`retRun` satisfies the serial premise in its English form**: the operations on key 1 — the put at 0, the upsert at 37,
    the value-less upsert at 67, all by client 0 — are issued one after another, each answered before the next begins -/
theorem retW_serial : SerialOps 1 retH retB := by
  intro p p' i i' r r' s' hlt hi hx hm hm'
  have h1 := modIssued_check (P := fun q i _ => (q = 0 ∨ q = 37 ∨ q = 67) ∧ i = 0) (h := retH) (k := 1) (by decide)
    p i r hi hm
  have h2 := modIssued_check (P := fun q i _ => (q = 0 ∨ q = 37 ∨ q = 67) ∧ i = 0) (h := retH) (k := 1) (by decide)
    p' i' r' ⟨s', hx⟩ hm'
  obtain ⟨hp, rfl⟩ := h1
  obtain ⟨hp', rfl⟩ := h2
  -- the two returns
  have r0 : FirstRet retH retB 0 0 4 (.ack 0 .pending) :=
    ⟨by decide, ⟨_, _, rfl, Or.inr ⟨_, rfl⟩, rfl, rfl⟩, noIssue_check (by decide)⟩
  have r37 : FirstRet retH retB 0 37 48 (.ack 3 .pending) :=
    ⟨by decide, ⟨_, _, rfl, Or.inr ⟨_, rfl⟩, rfl, rfl⟩, noIssue_check (by decide)⟩
  have a37 : ∀ s a, At retH 37 (s, a) → s.g.acks[0]? = some .accepted :=
    at_state_check (P := fun s => s.g.acks[0]? = some .accepted) (by decide)
  have a67 : ∀ s a, At retH 67 (s, a) → s.g.acks[0]? = some .accepted ∧ s.g.acks[3]? = some .accepted :=
    at_state_check (P := fun s => s.g.acks[0]? = some .accepted ∧ s.g.acks[3]? = some .accepted) (by decide)
  rcases hp with rfl | rfl | rfl <;> rcases hp' with rfl | rfl | rfl <;> try omega
  · exact ⟨4, _, r0, by decide, fun hd st e => by cases e; exact ⟨.accepted, a37 s' _ hx, by simp⟩⟩
  · exact ⟨4, _, r0, by decide, fun hd st e => by cases e; exact ⟨.accepted, (a67 s' _ hx).1, by simp⟩⟩
  · exact ⟨48, _, r37, by decide, fun hd st e => by cases e; exact ⟨.accepted, (a67 s' _ hx).2, by simp⟩⟩

/-- `C03_layerB_retained` (the form with `SerialOps`) applied to `retRun` -/
example (n₁ : Nat) (s₁ : BState) (a₁ : Act) (hat : At retH n₁ (s₁, a₁)) (h1 : 52 ≤ n₁) (h2 : n₁ ≤ 104) :
    ∃ e, s₁.g.store.get? 1 = some e ∧ e.value = 101 ∧ e.alive s₁.g.now = true := by
  obtain ⟨s₀, hs₀, _⟩ := retW_issue
  exact C03_layerB_retained retRun_run retW_fit.1 retW_fit.2 (Or.inr ⟨none, none, false, rfl⟩) hs₀ retW_serial
    (Or.inr ⟨18, by decide, retW_born.1, retW_born.2⟩) hat (by decide : 37 < 52) h1 retW_acked
    (fun q s i r hq1 hq2 => retW_quiet.1 q s i r hq1 (by omega))
    (fun q s a hq1 hq2 => retW_quiet.2 q s a hq1 (by omega))


/-! ### no premise can be dropped

  Each run below satisfies every premise of `C03_layerB_retained'` but one, and the lookup of the key finds NOTHING:
  the write was acknowledged as accepted and is lost. -/

/-! #### (a) the demand does not fit: the key is evicted -/

/-- `retCfg` with a cache weight of 10 -/
def retSmallCfg : Cfg := { retCfg with maxWeight := 10 }
def retSmallInit : BState := BState.init retSmallCfg 0 [1, 2, 3, 4] 3

/-- key 1 is put with weight 3 (issued 0, returned 4, answered `Accepted` by action 10); a put of key 2 with weight 8 does
    not fit the free space 7: the worker's eviction loop (actions 19–24) takes key 1 out; `get(1)` (issued 28) looks key 1 up
    at action 30 -/
def retEvictRun : List (Act × Oracle) :=
  call 0 (.putW 1 100 3 none) 4 ++ workerN 6 ++ call 1 (.putW 2 200 8 none) 4 ++
  [(.worker, noO), (.worker, noO), (.worker, { dk := [false] }),
   (.worker, { dk := [false], ids := [1], pops := [some 1] })] ++ workerN 8 ++ [retI 0 (.get 1), retC 0, retC 0]

abbrev retEvH : List (BState × Act) := retHist retSmallInit retEvictRun
abbrev retEvB : BState := retFinal retSmallInit retEvictRun

set_option maxRecDepth 100000 in
theorem retEvict_ok : retOk retSmallInit retEvictRun = true := by decide

set_option maxRecDepth 100000 in
/-- **`DemandFits` cannot be dropped** (3 + 8 > 10): every other premise of `C03_layerB_retained'` holds — no `shutdown()`;
    the put of `(1, 100)` issued at 0 in the initial state (nothing before it, key 1 absent), acknowledged `Accepted` by
    action 11; no put / delete / value-carrying upsert of key 1 afterwards; no time-to-live at all — and the lookup of key 1
    at action 30 finds no entry: key 1 was EVICTED. -/
theorem C03_layerB_retained_needs_demand_fits :
    RunH { BState.init retSmallCfg 0 [1, 2, 3, 4] 3 with storeShard := [] } retEvH retEvB ∧
    ¬ DemandFits retSmallCfg retEvH ∧ NoShutdownReq retEvH ∧
    (∃ s₀, At retEvH 0 (s₀, .issue 0 (.putW 1 100 3 none)) ∧ s₀.g.store.get? 1 = none) ∧
    AckedAcceptedAt retEvH retEvB 0 0 11 ∧
    (∀ q s i r, 0 < q → q < 30 → At retEvH q (s, .issue i r) → r.danger 1 = false) ∧
    LiveDuring 1 retEvH 0 30 ∧
    (∃ s, At retEvH 30 (s, .client 0) ∧ s.cl[0]? = some (.getStore 1) ∧ s.g.store.get? 1 = none) ∧
    (∃ p ∈ retEvH, p.1.w.evicting = true) := by
  refine ⟨retRunH retEvict_ok, by decide, by decide, ⟨_, rfl, rfl⟩, ?_, noDanger_check (by decide),
    liveDuring_check (by decide), ⟨_, rfl, rfl, rfl⟩, ?_⟩
  · exact ⟨4, 0, .pending, _, _, ⟨by decide, ⟨_, _, rfl, Or.inr ⟨_, rfl⟩, rfl, rfl⟩, noIssue_check (by decide)⟩,
      by decide, rfl, rfl⟩
  · have h22 : ∃ s, At retEvH 22 (s, .worker) ∧ s.w.evicting = true := ⟨_, rfl, rfl⟩
    obtain ⟨s, hs, he⟩ := h22
    refine ⟨(s, .worker), ?_, he⟩
    have := List.mem_of_getElem? hs
    simpa using this

/-! #### (b) operations on the key overlap: a `delete` issued earlier is still under way -/

/-- client 1 begins `delete(1)` (issued 0; it stands at `cmd.send` from action 2 on); client 0 puts key 1 (issued 3,
    returned 7, answered `Accepted` by action 13); then client 1's `Delete(1)` is sent (14) and applied (15–18);
    `get(1)` (issued 19) looks key 1 up at action 21 -/
def retOverlapRun : List (Act × Oracle) :=
  [retI 1 (.delete 1), retC 1, retC 1] ++ call 0 (.putW 1 100 5 none) 4 ++ workerN 6 ++
  [retC 1, retW, retW, retW, retW, retI 0 (.get 1), retC 0, retC 0]

abbrev retOvH : List (BState × Act) := retHist retInit retOverlapRun
abbrev retOvB : BState := retFinal retInit retOverlapRun

set_option maxRecDepth 100000 in
theorem retOverlap_ok : retOk retInit retOverlapRun = true := by decide

set_option maxRecDepth 100000 in
/-- **The serial premise cannot be dropped**: every other premise of `C03_layerB_retained'` holds — the demand fits, no
    `shutdown()`, key 1 absent when the put is issued at 3, the put acknowledged `Accepted` by action 14, no put / delete /
    value-carrying upsert of key 1 issued AFTER 3, no time-to-live — but the `delete(1)` issued at 0 has not been answered
    when the put is issued, and the lookup of key 1 at action 21 finds no entry. -/
theorem C03_layerB_retained_needs_serial :
    RunH { BState.init retCfg 0 [1, 2, 3, 4] 3 with storeShard := [] } retOvH retOvB ∧
    DemandFits retCfg retOvH ∧ NoShutdownReq retOvH ∧
    (∃ s₀, At retOvH 3 (s₀, .issue 0 (.putW 1 100 5 none)) ∧ s₀.g.store.get? 1 = none ∧
      s₀.cl[1]? = some (.send (.delete 1))) ∧
    Issued retOvH 1 (.delete 1) 0 ∧
    AckedAcceptedAt retOvH retOvB 0 3 14 ∧
    (∀ q s i r, 3 < q → q < 21 → At retOvH q (s, .issue i r) → r.danger 1 = false) ∧
    LiveDuring 1 retOvH 3 21 ∧
    (∃ s, At retOvH 21 (s, .client 0) ∧ s.cl[0]? = some (.getStore 1) ∧ s.g.store.get? 1 = none) := by
  refine ⟨retRunH retOverlap_ok, by decide, by decide, ⟨_, rfl, rfl, rfl⟩, ⟨_, rfl⟩, ?_, noDanger_check (by decide),
    liveDuring_check (by decide), ⟨_, rfl, rfl, rfl⟩⟩
  exact ⟨7, 0, .pending, _, _, ⟨by decide, ⟨_, _, rfl, Or.inr ⟨_, rfl⟩, rfl, rfl⟩, noIssue_check (by decide)⟩,
    by decide, rfl, rfl⟩

/-- … hence, by `C03_layerB_retained'` itself, the serial premise FAILS of that run -/
example : ¬ ∀ s₀, At retOvH 3 (s₀, .issue 0 (.putW 1 100 5 none)) →
    ∀ p i r, p < 3 → Issued retOvH i r p → r.danger 1 = true → AnsweredBy retOvH retOvB i p 3 s₀ := by
  intro hser
  obtain ⟨hrun, hfit, hns, ⟨s₀, hs₀, hnone, _⟩, _, hA, hN, hL, ⟨s, hs, _, hk⟩⟩ := C03_layerB_retained_needs_serial
  obtain ⟨e, he, _⟩ := C03_layerB_retained' hrun hfit hns (Or.inl ⟨5, none, rfl⟩) hs₀ (hser s₀ hs₀) (Or.inl hnone) hs
    (by decide : 3 < 14) (by decide) hA hN hL
  rw [hk] at he; cases he

/-! #### (c) the time-to-live had elapsed before: the entry was revived (known finding D3) -/

/-- key 1 is put with a time-to-live of 1 s (`store.put`: action 10); the clock moves to 3 s; the sweeper finds the entry
    due, checks it and takes its charge out of the ledger (13–15: it stands at `wu.sub`, past its check); client 1's value-less
    `put_or_update(1, ttl 10 s)` REVIVES the entry (`upsert.update`: action 18; it then waits for the shard lock the sweeper
    holds); client 0's `put_or_update(1, Some(101))` (issued 20, returned 24, answered `Accepted` by action 26) finds a live
    entry; the sweeper carries the eviction through (27, 28); `get(1)` (issued 29) looks key 1 up at action 31 -/
def retReviveRun : List (Act × Oracle) :=
  call 0 (.putW 1 100 5 (some retS)) 4 ++ workerN 7 ++
  [(.advance (3 * retS), noO), retSw none, retSw (some 1), retSw none,
   retI 1 (.upsert 1 none none (some (10 * retS)) false), retC 1, retC 1, retC 1,
   retI 0 (.upsert 1 (some 101) none none false), retC 0, retC 0, retC 0, retC 0, retW, retW,
   retSw none, retSw none, retI 0 (.get 1), retC 0, retC 0]

abbrev retRvH : List (BState × Act) := retHist retInit retReviveRun
abbrev retRvB : BState := retFinal retInit retReviveRun

set_option maxRecDepth 100000 in
theorem retRevive_ok : retOk retInit retReviveRun = true := by decide

set_option maxRecDepth 100000 in
/-- **The premise "the time-to-live has not elapsed at any moment since the entry was born" (`hborn`) cannot be dropped**
    (FINDING, an instance of the known finding D3): every other premise of `C03_layerB_retained'` holds — the demand fits, no
    `shutdown()`, the one put of key 1 issued before the write (at 0) was answered, the write of `(1, 101)` issued at 20 is
    acknowledged `Accepted` by action 27, no put / delete / value-carrying upsert of key 1 afterwards, and FROM THE ISSUE OF
    THE WRITE ON the entry of key 1 is live in every state (deadline 13 s, clock 3 s) — and the lookup of key 1 at action 31
    finds no entry: the sweeper, already past its check when the entry was revived, removed it. -/
theorem C03_layerB_retained_needs_no_revival :
    RunH { BState.init retCfg 0 [1, 2, 3, 4] 3 with storeShard := [] } retRvH retRvB ∧
    DemandFits retCfg retRvH ∧ NoShutdownReq retRvH ∧
    (∃ s₀, At retRvH 20 (s₀, .issue 0 (.upsert 1 (some 101) none none false)) ∧
      (∀ p i r, p < 20 → Issued retRvH i r p → r.danger 1 = true → AnsweredBy retRvH retRvB i p 20 s₀) ∧
      ¬ EvInv s₀ 1) ∧
    AckedAcceptedAt retRvH retRvB 0 20 27 ∧
    (∀ q s i r, 20 < q → q < 31 → At retRvH q (s, .issue i r) → r.danger 1 = false) ∧
    LiveDuring 1 retRvH 20 31 ∧
    (∃ s, At retRvH 31 (s, .client 0) ∧ s.cl[0]? = some (.getStore 1) ∧ s.g.store.get? 1 = none) := by
  refine ⟨retRunH retRevive_ok, by decide, by decide, ?_, ?_, noDanger_check (by decide),
    liveDuring_check (by decide), ⟨_, rfl, rfl, rfl⟩⟩
  · obtain ⟨s₀, hs₀⟩ : ∃ s₀, At retRvH 20 (s₀, .issue 0 (.upsert 1 (some 101) none none false)) := ⟨_, rfl⟩
    refine ⟨s₀, hs₀, ?_, ?_⟩
    · intro p i r hp hi hd
      obtain ⟨rfl, rfl⟩ := dangerIssued_check (P := fun q i _ => q = 0 ∧ i = 0) (h := retRvH) (k := 1) (n := 20)
        (by decide) p i r hp hi hd
      have hacks : s₀.g.acks[0]? = some .accepted :=
        at_state_check (h := retRvH) (n := 20) (P := fun s => s.g.acks[0]? = some .accepted) (by decide) s₀ _ hs₀
      exact ⟨4, .ack 0 .pending, ⟨by decide, ⟨_, _, rfl, Or.inr ⟨_, rfl⟩, rfl, rfl⟩, noIssue_check (by decide)⟩,
        by decide, fun hd st e => by cases e; exact ⟨.accepted, hacks, by simp⟩⟩
    · -- the sweeper stands at `wu.sub` of the id of the (live) entry
      have hst := at_state_check (h := retRvH) (n := 20)
        (P := fun s => s.g.store.get? 1 = some ⟨100, 1, some 13000000000, false⟩ ∧ s.g.now = 3000000000 ∧
          eview s 1 = some 3000000000) (by decide) s₀ _ hs₀
      intro hE
      obtain ⟨t, ht, hgt⟩ := hE _ _ hst.1 hst.2.2
      cases ht
      rw [hst.2.1] at hgt
      omega
  · exact ⟨24, 1, .pending, _, _, ⟨by decide, ⟨_, _, rfl, Or.inr ⟨_, rfl⟩, rfl, rfl⟩, noIssue_check (by decide)⟩,
      by decide, rfl, rfl⟩

/-- … hence, by `C03_layerB_retained'` itself, `hborn` FAILS of that run: the incarnation standing at 20 HAD stood expired -/
example : ¬ ∀ s₀, At retRvH 20 (s₀, .issue 0 (.upsert 1 (some 101) none none false)) →
    (s₀.g.store.get? 1 = none ∨ ∃ c, c < 20 ∧ (∀ x, At retRvH c x → isPutAny 1 x) ∧ LiveDuring 1 retRvH (c + 1) 20) := by
  intro hborn
  obtain ⟨hrun, hfit, hns, ⟨s₀, hs₀, hser, _⟩, hA, hN, hL, ⟨s, hs, _, hk⟩⟩ := C03_layerB_retained_needs_no_revival
  obtain ⟨e, he, _⟩ := C03_layerB_retained' hrun hfit hns (Or.inr ⟨none, none, false, rfl⟩) hs₀ hser (hborn s₀ hs₀) hs
    (by decide : 20 < 27) (by decide) hA hN hL
  rw [hk] at he; cases he


/-! #### (d) FINDING: with the time-to-live premise read as "the clock is not past the deadline AT THE READ" the property is false -/

/-- key 1 is put with a time-to-live of 1 s; the clock moves to 3 s; the sweeper finds the entry due, checks it and stands at
    `wu.sub` (13–15).  The same client then issues `put_or_update(1, Some(101), ttl 10 s)` (16) — operations on key 1 strictly
    one after another.  Its `upsert.update` (action 18) REVIVES the expired-but-unswept entry (value 101, deadline 13 s) and
    the call waits for the expiry shard's lock; the sweeper carries the eviction through (20, 21: key 1 is removed); the call
    goes on (22–24), its `UpdateWeight` is answered `Accepted` (26).  `get(1)` (issued 27) looks key 1 up at action 29. -/
def retLiteralRun : List (Act × Oracle) :=
  call 0 (.putW 1 100 5 (some retS)) 4 ++ workerN 7 ++
  [(.advance (3 * retS), noO), retSw none, retSw (some 1), retSw none,
   retI 0 (.upsert 1 (some 101) none (some (10 * retS)) false), retC 0, retC 0, retC 0,
   retSw none, retSw none, retC 0, retC 0, retC 0, retW, retW, retI 0 (.get 1), retC 0, retC 0]

abbrev retLtH : List (BState × Act) := retHist retInit retLiteralRun
abbrev retLtB : BState := retFinal retInit retLiteralRun

set_option maxRecDepth 100000 in
theorem retLiteral_ok : retOk retInit retLiteralRun = true := by decide

set_option maxRecDepth 100000 in
/-- **FINDING (known finding D3, at action granularity): C03 read with "its current time-to-live has not elapsed" checked
    only AT THE READ is FALSE of the model.**  In `retLiteralRun` the demand fits, no `shutdown()` is requested, the
    operations on key 1 are issued one after another (`SerialOps`), the latest write `put_or_update(1, Some(101), ttl 10 s)`
    (issued 16) is acknowledged `Accepted` (by action 27), no `delete(1)` and no other write of key 1 follows, and at the
    read's lookup (action 29, clock 3 s) the clock is NOT past the deadline that write set (its `upsert.update`, action 18,
    ran at 3 s and set 3 s + 10 s = 13 s) — and the lookup finds NO entry: `get(1)` returns `None`.
    The write found an entry whose time-to-live HAD elapsed (expired but unswept) and revived it while the sweeper was
    already carrying its eviction through.  `C03_layerB_retained'` excludes this by requiring the entry live in every state
    FROM THE ISSUE OF THE WRITE (here it is expired at 16: `LiveDuring` fails) and never expired since its birth (`hborn`). -/
theorem C03_layerB_retained_literal_counterexample :
    RunH { BState.init retCfg 0 [1, 2, 3, 4] 3 with storeShard := [] } retLtH retLtB ∧
    DemandFits retCfg retLtH ∧ NoShutdownReq retLtH ∧ SerialOps 1 retLtH retLtB ∧
    Issued retLtH 0 (.upsert 1 (some 101) none (some (10 * retS)) false) 16 ∧
    AckedAcceptedAt retLtH retLtB 0 16 27 ∧
    (∀ q s i r, 16 < q → q < 29 → At retLtH q (s, .issue i r) → r.danger 1 = false) ∧
    (∃ s, At retLtH 18 (s, .client 0) ∧ s.cl[0]? = some (.upUpdate 1 (some 101) none (some (10 * retS)) false) ∧
      s.g.now = 3 * retS) ∧
    (∃ s, At retLtH 29 (s, .client 0) ∧ s.cl[0]? = some (.getStore 1) ∧ s.g.now ≤ 3 * retS + 10 * retS ∧
      s.g.store.get? 1 = none) ∧
    Returned retLtH retLtB 0 29 (.value none) ∧
    ¬ LiveDuring 1 retLtH 16 29 := by
  refine ⟨retRunH retLiteral_ok, by decide, by decide, ?_, ⟨_, rfl⟩, ?_, noDanger_check (by decide),
    ⟨_, rfl, rfl, rfl⟩, ⟨_, rfl, rfl, by decide, rfl⟩, ⟨_, _, rfl, Or.inl ⟨rfl, rfl⟩, rfl, rfl⟩, ?_⟩
  · intro p p' i i' r r' s' hlt hi hx hm hm'
    have h1 := modIssued_check (P := fun q i _ => (q = 0 ∨ q = 16) ∧ i = 0) (h := retLtH) (k := 1) (by decide)
      p i r hi hm
    have h2 := modIssued_check (P := fun q i _ => (q = 0 ∨ q = 16) ∧ i = 0) (h := retLtH) (k := 1) (by decide)
      p' i' r' ⟨s', hx⟩ hm'
    obtain ⟨hp, rfl⟩ := h1
    obtain ⟨hp', rfl⟩ := h2
    have r0 : FirstRet retLtH retLtB 0 0 4 (.ack 0 .pending) :=
      ⟨by decide, ⟨_, _, rfl, Or.inr ⟨_, rfl⟩, rfl, rfl⟩, noIssue_check (by decide)⟩
    have a16 : ∀ s a, At retLtH 16 (s, a) → s.g.acks[0]? = some .accepted :=
      at_state_check (P := fun s => s.g.acks[0]? = some .accepted) (by decide)
    rcases hp with rfl | rfl <;> rcases hp' with rfl | rfl <;> try omega
    exact ⟨4, _, r0, by decide, fun hd st e => by cases e; exact ⟨.accepted, a16 s' _ hx, by simp⟩⟩
  · exact ⟨24, 1, .pending, _, _, ⟨by decide, ⟨_, _, rfl, Or.inr ⟨_, rfl⟩, rfl, rfl⟩, noIssue_check (by decide)⟩,
      by decide, rfl, rfl⟩
  · intro hl
    have h16 : ∃ s a, At retLtH 16 (s, a) := ⟨_, _, rfl⟩
    obtain ⟨s, a, hs⟩ := h16
    have := hl 16 s a (Nat.le_refl _) (by decide) hs
    have hst := at_state_check (h := retLtH) (n := 16)
      (P := fun s => ¬ LiveK 1 s) (by decide) s a hs
    exact hst this

/-! ### `SerialOps` and the state predicate `Serial` of IndexStep.lean

  `C03_layerB_serial_key_not_lost_to_sweeper` (IndexStep.lean) assumes `SerialEv · k` — clause (ce) of `Serial · k` — in
  EVERY state of the run: no client is in the middle of an index update of the id of `k`'s entry while the SWEEPER carries
  the eviction of that id through.  That is a condition on the sweeper's position, not on the order of the operations on
  `k`, and `SerialOps` does not imply it: below, ONE client works on key 1 strictly serially (a put, then — after the
  time-to-live has elapsed — a value-less upsert) and the state is not `SerialEv`.  What makes the sweeper harmless in
  `C03_layerB_retained'` is the time-to-live premise instead: as long as the entry has never stood expired the sweeper is
  never past its check of the entry's id (`EvInv`, kept by `evinv_step_live` without any serial hypothesis), and an entry
  that is live is not removed (`evinv_sweeper_keeps`). -/

/-- the first 18 actions of `retReviveRun`, the reviving upsert issued by client 0 (the client that put the key) -/
def retSerialRun : List (Act × Oracle) :=
  call 0 (.putW 1 100 5 (some retS)) 4 ++ workerN 7 ++
  [(.advance (3 * retS), noO), retSw none, retSw (some 1), retSw none,
   retI 0 (.upsert 1 none none (some (10 * retS)) false), retC 0, retC 0]

abbrev retSrH : List (BState × Act) := retHist retInit retSerialRun
abbrev retSrB : BState := retFinal retInit retSerialRun

set_option maxRecDepth 100000 in
theorem retSerial_ok : retOk retInit retSerialRun = true := by decide

set_option maxRecDepth 100000 in
/-- **`SerialOps k` does not imply `SerialEv · k`** (hence not `Serial · k`): the operations on key 1 are issued one after
    another by one client, and in the final state that client is in the middle of the index update of the id of key 1's entry
    while the sweeper stands at `wu.sub` of the eviction of that id -/
theorem serialOps_not_serialEv :
    RunH { BState.init retCfg 0 [1, 2, 3, 4] 3 with storeShard := [] } retSrH retSrB ∧
    SerialOps 1 retSrH retSrB ∧ ¬ SerialEv retSrB 1 := by
  refine ⟨retRunH retSerial_ok, ?_, ?_⟩
  · intro p p' i i' r r' s' hlt hi hx hm hm'
    have h1 := modIssued_check (P := fun q i _ => (q = 0 ∨ q = 16) ∧ i = 0) (h := retSrH) (k := 1) (by decide)
      p i r hi hm
    have h2 := modIssued_check (P := fun q i _ => (q = 0 ∨ q = 16) ∧ i = 0) (h := retSrH) (k := 1) (by decide)
      p' i' r' ⟨s', hx⟩ hm'
    obtain ⟨hp, rfl⟩ := h1
    obtain ⟨hp', rfl⟩ := h2
    have r0 : FirstRet retSrH retSrB 0 0 4 (.ack 0 .pending) :=
      ⟨by decide, ⟨_, _, rfl, Or.inr ⟨_, rfl⟩, rfl, rfl⟩, noIssue_check (by decide)⟩
    have a16 : ∀ s a, At retSrH 16 (s, a) → s.g.acks[0]? = some .accepted :=
      at_state_check (P := fun s => s.g.acks[0]? = some .accepted) (by decide)
    rcases hp with rfl | rfl <;> rcases hp' with rfl | rfl <;> try omega
    exact ⟨4, _, r0, by decide, fun hd st e => by cases e; exact ⟨.accepted, a16 s' _ hx, by simp⟩⟩
  · intro hse
    have hk : retSrB.g.store.get? 1 = some ⟨100, 1, some 13000000000, false⟩ := by decide
    have hc : cview retSrB 1 0 ≠ none := by decide
    have := hse _ hk 0 hc
    revert this
    decide

end B
end Cached
