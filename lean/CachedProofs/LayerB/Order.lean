/-
  C11 at ACTION granularity: "Writes are applied exactly once, one at a time, in submission order" — for every
  interleaving of any number of clients with the command worker, the sweeper and the access consumer
  (`stepB`, CachedModel/LayerB.lean).

  Layout
    0  `WPc.busy`, `WPc.held`; every action seen from the queue and the acknowledgement cells:
       `WStep` (worker: take / takeShutdown / takeDrain / cont / complete / die), `CStep` (client: none / spot / send /
       sendShutdown), `BStep`, with `stepB_bstep` — everything below is a case split over these
    1  `QStep`, `C11_layerB_queue_step`: same / send (tail, client, queue not full) / take (head, worker, at `recv` or
       `drain`) / drop (the worker dies); `C11_layerB_queue_step_exclusive`
    2  ghost logs: `sentBy`, `takenBy`, `logB` (`logB_runB`: same final state as `runB`);
       `C11_layerB_fifo`  (worker alive at the end: `queue0 ++ sent = taken ++ queue`),
       `C11_layerB_fifo_dead`  (always: `taken` is a prefix of `queue0 ++ sent`)
    3  `C11_layerB_one_at_a_time`, `C11_layerB_take_between_commands`
    4  acknowledgements: `HInv` (`hinv_init`, `hinv_step`, `hinv_reach`), `C11_layerB_acks_grow` (at most once),
       `C11_layerB_only_worker_answers`, `C11_layerB_completion_answers`, `C11_layerB_keeps_handle`,
       `C11_layerB_take_holds_or_answers`, `C11_layerB_answered` (at least once, the worker running alone)
    5  concrete interleavings

  Findings
    * `drop_looks_like_take`: "while the worker is busy no action turns the queue `c :: q` into `q`" is FALSE of the
      model — a busy worker that panics (TTL overflow at `store.put`, or the `UpdateWeight` overflow) drops the
      receiver; with exactly one command waiting the queue goes from `[c]` to `[]`.  That command is never executed
      and its acknowledgement stays pending for ever.  `takenBy` and `QStep.take` therefore exclude the action in
      which the worker dies, and `C11_layerB_one_at_a_time` is stated as "queue unchanged, or the worker died".
    * no action resets `acks`: `shutdown()` included, so (a) needs no exception; it needs `HInv` (true at every
      reachable state; `acks_grow_needs_hinv` is an unreachable state where it fails without it).
-/
import CachedProofs.LayerB.Theorems

namespace Cached
namespace B

/-! ## 0  what every action does to the command queue and to the acknowledgement cells -/

/-- the worker is in the middle of a command (false exactly at `recv`, `drain`, `dead`) -/
def WPc.busy : WPc → Bool
  | .recv | .drain | .dead => false
  | _ => true

/-- the acknowledgement handle of the command the worker is in the middle of -/
def WPc.held : WPc → Option Nat
  | .present c | .space0 c | .sampleInit c _ _ | .evRemove c _ _ _ | .evSub c _ _ _ _ | .evStore c _ _ _ _
  | .evSpace c _ _ | .fill c _ _ _ | .emptySpace c | .insert c | .add c | .storePut c | .ttlPut c _ => c.h
  | .update _ _ h | .delStore _ h | .delKw _ _ h | .delSub _ _ _ h | .delTtl _ _ h => h
  | .recv | .drain | .dead => none

/-- One action of the command worker, seen from the queue and the acknowledgement cells. -/
inductive WStep (b b' : BState) : Prop where
  /-- `recv` takes the head and starts on it -/
  | take (cmd : Cmd) (hh : Option Nat) (q : List (Cmd × Option Nat)) : b.g.queue = (cmd, hh) :: q → b'.g.queue = q →
      b.w = .recv → b'.w.busy = true → b'.w.held = hh → b'.g.acks = b.g.acks → cmd ≠ .shutdown → WStep b b'
  /-- `recv` takes a `Shutdown`, answers it and goes draining -/
  | takeShutdown (hh : Option Nat) (q : List (Cmd × Option Nat)) : b.g.queue = (.shutdown, hh) :: q → b'.g.queue = q →
      b.w = .recv → b'.w = .drain → b'.g.acks = setAck b.g.acks hh .accepted → WStep b b'
  /-- `drain` takes the head and answers it `ShuttingDown` -/
  | takeDrain (cmd : Cmd) (hh : Option Nat) (q : List (Cmd × Option Nat)) : b.g.queue = (cmd, hh) :: q → b'.g.queue = q →
      b.w = .drain → b'.w = .drain → b'.g.acks = setAck b.g.acks hh .shuttingDown → WStep b b'
  /-- the command goes on -/
  | cont : b.w.busy = true → b'.w.busy = true → b'.w.held = b.w.held → b'.g.queue = b.g.queue →
      b'.g.acks = b.g.acks → WStep b b'
  /-- the command is completed and answered -/
  | complete (st : Status) : b.w.busy = true → b'.w = .recv → b'.g.queue = b.g.queue → st ≠ .pending →
      b'.g.acks = setAck b.g.acks b.w.held st → WStep b b'
  /-- the worker panics: the receiver is dropped with it -/
  | die : b.w.busy = true → b'.w = .dead → b'.g.queue = [] → b'.g.acks = b.g.acks → WStep b b'

@[simp] theorem applyEvict_acks (g : State) (e : Evicted) : (applyEvict g e).acks = g.acks := by
  obtain ⟨i, k, w⟩ := e; simp only [applyEvict]; split <;> rfl

theorem cmdOfPut_ne_shutdown (c : PutCmd) : cmdOfPut c ≠ .shutdown := by
  unfold cmdOfPut; split <;> simp

theorem wtrans_wstep {b b' : BState} (h : WTrans b b') : WStep b b' := by
  cases h
  case recvPut c q hw hq => exact .take _ _ _ hq rfl hw rfl rfl rfl (cmdOfPut_ne_shutdown c)
  case recvUpdate id w hh q hw hq => exact .take _ _ _ hq rfl hw rfl rfl rfl (by simp)
  case recvDelete k hh q hw hq => exact .take _ _ _ hq rfl hw rfl rfl rfl (by simp)
  case recvShutdown hh q hw hq => exact .takeShutdown _ _ hq rfl hw rfl rfl
  case drain cmd hh q hw hq => exact .takeDrain _ _ _ hq rfl hw rfl rfl
  case storePutPanic c t hw _ _ => exact .die (by rw [hw]; rfl) rfl rfl rfl
  case updatePanic id w hh hw _ => exact .die (by rw [hw]; rfl) rfl rfl rfl
  case space0Overflow c hw _ _ => exact .die (by rw [hw]; rfl) rfl rfl rfl
  case evSpaceOverflow c e s hw _ _ => exact .die (by rw [hw]; rfl) rfl rfl rfl
  case emptyOverflow c hw _ _ => exact .die (by rw [hw]; rfl) rfl rfl rfl
  all_goals first
    | exact .cont (by rw [‹b.w = _›]; rfl) rfl (by rw [‹b.w = _›]; rfl) (by simp) (by simp)
    | (refine .complete _ (by rw [‹b.w = _›]; rfl) rfl rfl ?_ (by rw [‹b.w = _›]; rfl); simp)

/-- One action of a client, seen from the queue and the acknowledgement cells. -/
inductive CStep (b : BState) (i : Nat) (b' : BState) : Prop where
  | none : b'.g.queue = b.g.queue → b'.g.acks = b.g.acks → CStep b i b'
  /-- an acknowledgement answered on the spot: a NEW cell -/
  | spot (st : Status) : b'.g.queue = b.g.queue → b'.g.acks = b.g.acks ++ [st] → CStep b i b'
  /-- `cmd.send`: the command goes to the END of the queue, with a NEW pending cell -/
  | send (cmd : Cmd) : b.cl[i]? = some (.send cmd) → b'.g.queue = b.g.queue ++ [(cmd, some b.g.acks.length)] →
      b'.g.acks = b.g.acks ++ [.pending] → CStep b i b'
  /-- `cmd.send` of `Shutdown`: to the END of the queue, no cell -/
  | sendShutdown : b.cl[i]? = some .shutSendCmd → b.g.queue.length < b.g.cfg.cmdCap →
      b'.g.queue = b.g.queue ++ [(.shutdown, none)] → b'.g.acks = b.g.acks → CStep b i b'

theorem ctrans_cstep {b b' : BState} {i : Nat} (h : CTrans b i b') : CStep b i b' := by
  cases h
  case getPool hp => rw [poolAdd_frame hp]; exact .none rfl rfl
  case refPool hp => rw [poolAdd_frame hp]; exact .none rfl rfl
  case shutLocal hg => rw [hg]; exact .none rfl rfl
  case mgetStep hg => rw [hg]; exact .none rfl rfl
  case mgetFin hg => rw [hg]; exact .none rfl rfl
  case spot pc st _ _ => exact .spot st rfl rfl
  case sendOk cmd hpc => exact .send cmd hpc rfl rfl
  case shutSendCmd hpc hlt => exact .sendShutdown hpc hlt rfl rfl
  case upAfterSame id uw old new hpc =>
    rcases upAfterIndex_spec b i id uw with ⟨_, h⟩ | ⟨_, _, h⟩ | h <;> rw [h]
    · exact .none rfl rfl
    · exact .none rfl rfl
    · exact .spot _ rfl rfl
  case upAfterPut pc id e uw _ _ _ =>
    rcases upAfterIndex_spec { b with g := ttlPut b.g id e } i id uw with ⟨_, h⟩ | ⟨_, _, h⟩ | h <;> rw [h]
    · exact .none rfl rfl
    · exact .none rfl rfl
    · exact .spot _ rfl rfl
  case upAfterDelete id e uw _ _ =>
    rcases upAfterIndex_spec { b with g := ttlDelete b.g id e } i id uw with ⟨_, h⟩ | ⟨_, _, h⟩ | h <;> rw [h]
    · exact .none rfl rfl
    · exact .none rfl rfl
    · exact .spot _ rfl rfl
  all_goals exact .none rfl rfl

/-- `cmd.send` is enabled only while the channel has room -/
theorem clientAct_send_room {b b' : BState} {i : Nat} {o o' : Oracle} {cmd : Cmd} (h : clientAct b i o = .ok (b', o'))
    (hpc : b.cl[i]? = some (.send cmd)) :
    b'.g.queue = b.g.queue ∨ b.g.queue.length < b.g.cfg.cmdCap := by
  simp only [clientAct, hpc] at h
  split at h
  · rename_i b1 hs
    simp only [Except.ok.injEq, Prod.mk.injEq] at h; obtain ⟨rfl, rfl⟩ := h
    unfold sendAct at hs
    simp only [] at hs
    split at hs
    · simp only [Except.ok.injEq] at hs; subst hs; exact Or.inl rfl
    · split at hs
      · cases hs
      · exact Or.inr (by omega)
  · cases h

/-- Every action of Layer B, seen from the queue and the acknowledgement cells: a worker action, a client action, or an
    action that touches neither (and leaves the worker where it stands). -/
inductive BStep (b : BState) (a : Act) (b' : BState) : Prop where
  | worker : a = .worker → WStep b b' → BStep b a b'
  | client (i : Nat) : a = .client i → b'.w = b.w → CStep b i b' →
      (b'.g.queue = b.g.queue ∨ b.g.queue.length < b.g.cfg.cmdCap) → BStep b a b'
  | other : a ≠ .worker → b'.w = b.w → b'.g.queue = b.g.queue → b'.g.acks = b.g.acks → BStep b a b'

theorem stepB_bstep {b b' : BState} {a : Act} {o o' : Oracle} (h : stepB b a o = .ok (b', o')) : BStep b a b' := by
  cases a with
  | issue i r =>
    simp only [stepB] at h
    split at h
    · rename_i b1 hi
      simp only [Except.ok.injEq, Prod.mk.injEq] at h; obtain ⟨rfl, rfl⟩ := h
      unfold issue at hi
      split at hi
      · simp only [Except.ok.injEq] at hi; subst hi; exact .other (by simp) rfl rfl rfl
      · cases hi
    · cases h
  | client i =>
    have ht := clientAct_trans h
    have hc := ctrans_cstep ht
    refine .client i rfl (ctrans_frame ht).1 hc ?_
    cases hc with
    | none hq _ => exact Or.inl hq
    | spot st hq _ => exact Or.inl hq
    | send cmd hpc _ _ => exact clientAct_send_room h hpc
    | sendShutdown _ hlt _ _ => exact Or.inr hlt
  | worker => exact .worker rfl (wtrans_wstep (workerAct_trans h))
  | sweeper v =>
    simp only [stepB] at h
    split at h
    · rename_i b1 hs
      simp only [Except.ok.injEq, Prod.mk.injEq] at h; obtain ⟨rfl, rfl⟩ := h
      have ht := sweeperAct_trans hs
      refine .other (by simp) (strans_frame ht).1 (strans_frame ht).2.2.1 ?_
      cases ht
      all_goals simp
    · cases h
  | consumer =>
    simp only [stepB] at h
    split at h
    · rename_i g' out o1 hc
      simp only [Except.ok.injEq, Prod.mk.injEq] at h; obtain ⟨rfl, rfl⟩ := h
      refine .other (by simp) rfl ?_ ?_
      · show g'.queue = b.g.queue
        rw [consumerStep_frame hc]
      · show g'.acks = b.g.acks
        rw [consumerStep_frame hc]
    · cases h
  | advance d =>
    simp only [stepB, Except.ok.injEq, Prod.mk.injEq] at h; obtain ⟨rfl, rfl⟩ := h
    exact .other (by simp) rfl rfl rfl

/-! ## 1  the queue: sends at the tail (bounded), takes at the head (worker only, between commands) -/

/-- What one action does to the command queue. -/
inductive QStep (b : BState) (a : Act) (b' : BState) : Prop where
  /-- the queue is untouched -/
  | same : b'.g.queue = b.g.queue → QStep b a b'
  /-- a client appends ONE command at the TAIL, and only while the channel has room -/
  | send (c : Cmd × Option Nat) (i : Nat) : b'.g.queue = b.g.queue ++ [c] → a = .client i →
      b.g.queue.length < b.g.cfg.cmdCap → QStep b a b'
  /-- the worker takes the HEAD, and only when it is not in the middle of another command (it does not die in a take) -/
  | take (c : Cmd × Option Nat) : b.g.queue = c :: b'.g.queue → a = .worker → (b.w = .recv ∨ b.w = .drain) →
      b'.w ≠ .dead → QStep b a b'
  /-- the worker dies in the middle of a command: the receiver is dropped with it -/
  | drop : b'.g.queue = [] → a = .worker → b.w.busy = true → b'.w = .dead → QStep b a b'

/-- **C11 (the queue, per action).**  Every action of every thread leaves the queue alone, or is a client's send of one
    command at the tail of a queue that is not full, or the worker's take of the head between two commands, or the
    death of the worker in the middle of a command. -/
theorem C11_layerB_queue_step {b b' : BState} {a : Act} {o o' : Oracle} (h : stepB b a o = .ok (b', o')) :
    QStep b a b' := by
  cases stepB_bstep h with
  | worker ha hw =>
    cases hw with
    | take cmd hh q hq hq' hw hb _ _ _ =>
      refine .take (cmd, hh) (by rw [hq, hq']) ha (Or.inl hw) ?_
      intro hd; rw [hd] at hb; cases hb
    | takeShutdown hh q hq hq' hw hw' _ =>
      refine .take (.shutdown, hh) (by rw [hq, hq']) ha (Or.inl hw) ?_
      rw [hw']; simp
    | takeDrain cmd hh q hq hq' hw hw' _ =>
      refine .take (cmd, hh) (by rw [hq, hq']) ha (Or.inr hw) ?_
      rw [hw']; simp
    | cont _ _ _ hq _ => exact .same hq
    | complete st _ _ hq _ _ => exact .same hq
    | die hb hw' hq _ => exact .drop hq ha hb hw'
  | client i ha _ hc hroom =>
    cases hc with
    | none hq _ => exact .same hq
    | spot st hq _ => exact .same hq
    | send cmd _ hq _ =>
      rcases hroom with hsame | hlt
      · exact .same hsame
      · exact .send _ i hq ha hlt
    | sendShutdown _ hlt hq _ => exact .send _ i hq ha hlt
  | other _ _ hq _ => exact .same hq

/-- The four shapes exclude one another — except that the death of the worker at an EMPTY queue also leaves the queue
    as it was. -/
theorem C11_layerB_queue_step_exclusive (b : BState) (a : Act) (b' : BState) :
    ¬ (b'.g.queue = b.g.queue ∧ ∃ c, b'.g.queue = b.g.queue ++ [c]) ∧
    ¬ (b'.g.queue = b.g.queue ∧ ∃ c, b.g.queue = c :: b'.g.queue) ∧
    ¬ ((∃ c, b'.g.queue = b.g.queue ++ [c]) ∧ ∃ c, b.g.queue = c :: b'.g.queue) ∧
    ¬ ((∃ c, b'.g.queue = b.g.queue ++ [c]) ∧ b'.g.queue = []) ∧
    ¬ ((∃ c i, b'.g.queue = b.g.queue ++ [c] ∧ a = .client i) ∧ a = .worker) ∧
    ¬ (((b.w = .recv ∨ b.w = .drain) ∧ b'.w ≠ .dead) ∧ (b.w.busy = true ∧ b'.w = .dead)) ∧
    (b'.g.queue = b.g.queue ∧ b'.g.queue = [] → b.g.queue = []) := by
  refine ⟨?_, ?_, ?_, ?_, ?_, ?_, ?_⟩
  · rintro ⟨h1, c, h2⟩
    have := congrArg List.length h2
    rw [h1] at this; simp at this
  · rintro ⟨h1, c, h2⟩
    have := congrArg List.length h2
    rw [h1] at this; simp at this
  · rintro ⟨⟨c, h1⟩, d, h2⟩
    have e1 := congrArg List.length h1
    have e2 := congrArg List.length h2
    simp at e1 e2; omega
  · rintro ⟨⟨c, h1⟩, h2⟩
    rw [h2] at h1; simp at h1
  · rintro ⟨⟨c, i, _, h1⟩, h2⟩
    rw [h1] at h2; cases h2
  · rintro ⟨⟨_, h1⟩, _, h2⟩
    exact h1 h2
  · rintro ⟨h1, h2⟩
    rw [← h1]; exact h2

/-! ## 2  ghost logs over a run: the worker takes the commands exactly in the order in which they were sent -/

def WPc.isDead : WPc → Bool
  | .dead => true
  | _ => false

theorem WPc.isDead_iff (w : WPc) : w.isDead = true ↔ w = .dead := by
  cases w <;> simp [WPc.isDead]

theorem WPc.isDead_false_iff (w : WPc) : w.isDead = false ↔ w ≠ .dead := by
  cases w <;> simp [WPc.isDead]

/-- what this action SENT: what the queue has grown by, at its tail -/
def sentBy (b b' : BState) : List (Cmd × Option Nat) :=
  if b.g.queue.length < b'.g.queue.length then b'.g.queue.drop b.g.queue.length else []

/-- what this action TOOK: the head of the queue, if the action is the worker's, the rest of the queue is what is left
    and the worker did not die in this action.  (The last condition tells a take from the DROP of a one-element queue
    by a dying worker — see `drop_looks_like_take` below: that command is never executed.) -/
def takenBy (b : BState) (a : Act) (b' : BState) : List (Cmd × Option Nat) :=
  match a, b.g.queue with
  | .worker, c :: q => if b'.g.queue = q ∧ b'.w.isDead = false then [c] else []
  | _, _ => []

/-- runs `stepB` along the list and accumulates the two ghost logs (sent, taken) -/
def logB : BState → List (Act × Oracle) →
    Except String (BState × List (Cmd × Option Nat) × List (Cmd × Option Nat))
  | b, [] => .ok (b, [], [])
  | b, (a, o) :: rest =>
    match stepB b a o with
    | .ok (b', _) =>
      (match logB b' rest with
       | .ok (b'', s, t) => .ok (b'', sentBy b b' ++ s, takenBy b a b' ++ t)
       | .error m => .error m)
    | .error m => .error m

/-- `logB` is `runB` with two ghost logs: same final state, same failures -/
theorem logB_runB : ∀ (acts : List (Act × Oracle)) (b : BState),
    runB b acts = (match logB b acts with | .ok (b', _, _) => .ok b' | .error m => .error m) := by
  intro acts
  induction acts with
  | nil => intro b; rfl
  | cons x acts ih =>
    intro b
    obtain ⟨a, o⟩ := x
    simp only [runB, logB]
    cases hs : stepB b a o with
    | error m => rfl
    | ok r =>
      obtain ⟨b1, o1⟩ := r
      simp only [ih b1]
      cases logB b1 acts with
      | error m => rfl
      | ok r' => rfl

theorem logB_ok_runB {acts : List (Act × Oracle)} {b b' : BState} {s t : List (Cmd × Option Nat)}
    (h : logB b acts = .ok (b', s, t)) : runB b acts = .ok b' := by
  rw [logB_runB, h]

theorem runB_ok_logB {acts : List (Act × Oracle)} {b b' : BState} (h : runB b acts = .ok b') :
    ∃ s t, logB b acts = .ok (b', s, t) := by
  rw [logB_runB] at h
  cases hl : logB b acts with
  | error m => rw [hl] at h; cases h
  | ok r =>
    obtain ⟨b1, s, t⟩ := r
    rw [hl] at h
    simp only [Except.ok.injEq] at h; subst h
    exact ⟨s, t, rfl⟩

/-- one action: unless the worker dies in it, `queue ++ sent = taken ++ queue'` -/
theorem qstep_log {b b' : BState} {a : Act} (h : QStep b a b') (hd : b'.w ≠ .dead) :
    b.g.queue ++ sentBy b b' = takenBy b a b' ++ b'.g.queue := by
  cases h with
  | same hq =>
    have hs : sentBy b b' = [] := by simp [sentBy, hq]
    have ht : takenBy b a b' = [] := by
      unfold takenBy
      split
      · rename_i c q hq'
        rw [hq, hq']
        have : c :: q ≠ q := by
          intro e; have := congrArg List.length e; simp at this
        simp [this]
      · rfl
    rw [hs, ht, hq]; simp
  | send c i hq ha hlt =>
    have hs : sentBy b b' = [c] := by simp [sentBy, hq]
    have ht : takenBy b a b' = [] := by rw [ha]; rfl
    rw [hs, ht, hq]; simp
  | take c hq ha hw hnd =>
    have hs : sentBy b b' = [] := by
      unfold sentBy; rw [hq]; simp
    have ht : takenBy b a b' = [c] := by
      unfold takenBy
      rw [ha, hq]
      simp [(WPc.isDead_false_iff _).mpr hd]
    rw [hs, ht, hq]; simp
  | drop _ _ _ hdead => exact absurd hdead hd

/-- a dead worker stays dead -/
theorem dead_step {b b' : BState} {a : Act} {o o' : Oracle} (h : stepB b a o = .ok (b', o')) (hd : b.w = .dead) :
    b'.w = .dead := by
  cases stepB_bstep h with
  | worker ha hw =>
    cases hw with
    | take _ _ _ _ _ hw => rw [hd] at hw; cases hw
    | takeShutdown _ _ _ _ hw => rw [hd] at hw; cases hw
    | takeDrain _ _ _ _ _ hw => rw [hd] at hw; cases hw
    | cont hb => rw [hd] at hb; cases hb
    | complete _ hb => rw [hd] at hb; cases hb
    | die hb => rw [hd] at hb; cases hb
  | client i _ hw _ _ => rw [hw, hd]
  | other _ hw _ _ => rw [hw, hd]

/-- a worker that is alive at the end of a run was alive all along -/
theorem alive_before {b b' : BState} {a : Act} {o o' : Oracle} (h : stepB b a o = .ok (b', o')) (hd : b'.w ≠ .dead) :
    b.w ≠ .dead := fun h0 => hd (dead_step h h0)

theorem logB_alive : ∀ (acts : List (Act × Oracle)) {b b' : BState} {s t : List (Cmd × Option Nat)},
    logB b acts = .ok (b', s, t) → b'.w ≠ .dead → b.w ≠ .dead := by
  intro acts
  induction acts with
  | nil =>
    intro b b' s t h hd
    simp only [logB, Except.ok.injEq, Prod.mk.injEq] at h
    rw [h.1]; exact hd
  | cons x acts ih =>
    intro b b' s t h hd
    obtain ⟨a, o⟩ := x
    simp only [logB] at h
    split at h
    · rename_i b1 o1 hs
      split at h
      · rename_i b2 s2 t2 hl
        simp only [Except.ok.injEq, Prod.mk.injEq] at h
        obtain ⟨rfl, _, _⟩ := h
        exact alive_before hs (ih hl hd)
      · cases h
    · cases h

/-- **C11 (submission order).**  Along every interleaving at whose end the worker is alive: what was in the queue plus
    everything sent since = everything the worker took since, followed by what is still in the queue.  The worker takes
    the commands exactly in the order in which they were sent — none skipped, none twice, none out of order. -/
theorem C11_layerB_fifo : ∀ (acts : List (Act × Oracle)) {b0 b : BState} {sent taken : List (Cmd × Option Nat)},
    logB b0 acts = .ok (b, sent, taken) → b.w ≠ .dead → b0.g.queue ++ sent = taken ++ b.g.queue := by
  intro acts
  induction acts with
  | nil =>
    intro b0 b s t h _
    simp only [logB, Except.ok.injEq, Prod.mk.injEq] at h
    obtain ⟨rfl, rfl, rfl⟩ := h
    simp
  | cons x acts ih =>
    intro b0 b s t h hd
    obtain ⟨a, o⟩ := x
    simp only [logB] at h
    split at h
    · rename_i b1 o1 hs
      split at h
      · rename_i b2 s2 t2 hl
        simp only [Except.ok.injEq, Prod.mk.injEq] at h
        obtain ⟨rfl, rfl, rfl⟩ := h
        have h1 := qstep_log (C11_layerB_queue_step hs) (logB_alive acts hl hd)
        have h2 := ih hl hd
        rw [← List.append_assoc, h1, List.append_assoc, h2, List.append_assoc]
      · cases h
    · cases h

/-- a dead worker takes nothing any more -/
theorem logB_dead_taken : ∀ (acts : List (Act × Oracle)) {b b' : BState} {s t : List (Cmd × Option Nat)},
    logB b acts = .ok (b', s, t) → b.w = .dead → t = [] := by
  intro acts
  induction acts with
  | nil =>
    intro b b' s t h _
    simp only [logB, Except.ok.injEq, Prod.mk.injEq] at h
    exact h.2.2.symm
  | cons x acts ih =>
    intro b b' s t h hd
    obtain ⟨a, o⟩ := x
    simp only [logB] at h
    split at h
    · rename_i b1 o1 hs
      split at h
      · rename_i b2 s2 t2 hl
        simp only [Except.ok.injEq, Prod.mk.injEq] at h
        obtain ⟨_, _, rfl⟩ := h
        have h1 : takenBy b a b1 = [] := by
          unfold takenBy
          split
          · simp [(WPc.isDead_iff _).mpr (dead_step hs hd)]
          · rfl
        rw [h1, ih hl (dead_step hs hd)]; rfl
      · cases h
    · cases h

/-- **C11 (submission order, whatever becomes of the worker).**  What the worker took is always a PREFIX of what was
    sent, in the order of sending (a worker that dies drops the rest). -/
theorem C11_layerB_fifo_dead : ∀ (acts : List (Act × Oracle)) {b0 b : BState} {sent taken : List (Cmd × Option Nat)},
    logB b0 acts = .ok (b, sent, taken) → ∃ rest, b0.g.queue ++ sent = taken ++ rest := by
  intro acts
  induction acts with
  | nil =>
    intro b0 b s t h
    simp only [logB, Except.ok.injEq, Prod.mk.injEq] at h
    obtain ⟨rfl, rfl, rfl⟩ := h
    exact ⟨b0.g.queue, by simp⟩
  | cons x acts ih =>
    intro b0 b s t h
    obtain ⟨a, o⟩ := x
    simp only [logB] at h
    split at h
    · rename_i b1 o1 hs
      split at h
      · rename_i b2 s2 t2 hl
        simp only [Except.ok.injEq, Prod.mk.injEq] at h
        obtain ⟨rfl, rfl, rfl⟩ := h
        cases hdead : b1.w.isDead with
        | false =>
          have h1 := qstep_log (C11_layerB_queue_step hs) ((WPc.isDead_false_iff _).mp hdead)
          obtain ⟨rest, h2⟩ := ih hl
          exact ⟨rest, by rw [← List.append_assoc, h1, List.append_assoc, h2, List.append_assoc]⟩
        | true =>
          have hd := (WPc.isDead_iff _).mp hdead
          have h1 : takenBy b0 a b1 = [] := by
            unfold takenBy
            split
            · simp [hdead]
            · rfl
          rw [h1, logB_dead_taken acts hl hd]
          exact ⟨_, rfl⟩
      · cases h
    · cases h

/-! ## 3  one at a time -/

/-- **C11 (one at a time).**  While the worker is in the middle of a command, no action takes a command: a worker action
    leaves the queue as it is (and goes on with the command, or completes it and returns to `recv`), or the worker dies
    and the queue is dropped. -/
theorem C11_layerB_one_at_a_time {b b' : BState} {a : Act} {o o' : Oracle} (hb : b.w.busy = true)
    (h : stepB b a o = .ok (b', o')) :
    takenBy b a b' = [] ∧
    (a = .worker → (b'.g.queue = b.g.queue ∧ (b'.w.busy = true ∨ b'.w = .recv)) ∨ (b'.g.queue = [] ∧ b'.w = .dead)) := by
  have hnot : b.w ≠ .recv ∧ b.w ≠ .drain := by
    constructor <;> intro e <;> rw [e] at hb <;> cases hb
  constructor
  · cases C11_layerB_queue_step h with
    | same hq =>
      unfold takenBy
      split
      · rename_i c q hq'
        rw [hq, hq']
        have : c :: q ≠ q := by
          intro e; have := congrArg List.length e; simp at this
        simp [this]
      · rfl
    | send c i _ ha _ => rw [ha]; rfl
    | take c _ _ hw _ =>
      rcases hw with e | e
      · exact absurd e hnot.1
      · exact absurd e hnot.2
    | drop _ _ _ hd =>
      unfold takenBy
      split
      · simp [(WPc.isDead_iff _).mpr hd]
      · rfl
  · intro ha
    cases stepB_bstep h with
    | worker _ hw =>
      cases hw with
      | take _ _ _ _ _ hw => exact absurd hw hnot.1
      | takeShutdown _ _ _ _ hw => exact absurd hw hnot.1
      | takeDrain _ _ _ _ _ hw => exact absurd hw hnot.2
      | cont _ hb' _ hq _ => exact Or.inl ⟨hq, Or.inl hb'⟩
      | complete _ _ hw' hq _ _ => exact Or.inl ⟨hq, Or.inr hw'⟩
      | die _ hw' hq _ => exact Or.inr ⟨hq, hw'⟩
    | client i ha' => rw [ha] at ha'; cases ha'
    | other ha' => exact absurd ha ha'

/-- … put the other way round: an action that takes a command is the worker's, from `recv` or `drain`. -/
theorem C11_layerB_take_between_commands {b b' : BState} {a : Act} {o o' : Oracle} (h : stepB b a o = .ok (b', o'))
    (ht : takenBy b a b' ≠ []) :
    a = .worker ∧ (b.w = .recv ∨ b.w = .drain) ∧ ∃ c, b.g.queue = c :: b'.g.queue ∧ takenBy b a b' = [c] := by
  cases hb : b.w.busy with
  | true => exact absurd (C11_layerB_one_at_a_time hb h).1 ht
  | false =>
    unfold takenBy at ht ⊢
    split at ht
    · rename_i c q hq
      split at ht
      · rename_i hc
        refine ⟨rfl, ?_, c, by rw [hq, hc.1], ?_⟩
        · cases hw : b.w <;> simp_all [WPc.busy]
          have := dead_step h hw
          rw [this] at hc; simp [WPc.isDead] at hc
        · simp [hc]
      · exact absurd rfl ht
    · exact absurd rfl ht

/-! ## 4  acknowledgements: every write is answered exactly once, by the worker -/

/-- the acknowledgement handles waiting in the queue -/
def qHandles (q : List (Cmd × Option Nat)) : List Nat := q.filterMap (·.2)

theorem qHandles_cons (c : Cmd) (hh : Option Nat) (q : List (Cmd × Option Nat)) :
    qHandles ((c, hh) :: q) = hh.toList ++ qHandles q := by
  cases hh <;> simp [qHandles]

theorem qHandles_append_one (q : List (Cmd × Option Nat)) (c : Cmd) (hh : Option Nat) :
    qHandles (q ++ [(c, hh)]) = qHandles q ++ hh.toList := by
  cases hh <;> simp [qHandles]

theorem mem_qHandles {q : List (Cmd × Option Nat)} {h : Nat} : h ∈ qHandles q ↔ ∃ c, (c, some h) ∈ q := by
  simp [qHandles]

theorem setAck_length (acks : List Status) (hh : Option Nat) (st : Status) : (setAck acks hh st).length = acks.length := by
  cases hh <;> simp [setAck]

theorem setAck_get_ne (acks : List Status) {hh : Option Nat} (st : Status) {h : Nat} (hne : hh ≠ some h) :
    (setAck acks hh st)[h]? = acks[h]? := by
  cases hh with
  | none => rfl
  | some x =>
    have : x ≠ h := fun e => hne (by rw [e])
    simp [setAck, List.getElem?_set_ne this]

theorem setAck_get_self (acks : List Status) (st : Status) {h : Nat} (hlt : h < acks.length) :
    (setAck acks (some h) st)[h]? = some st := by
  simp [setAck, hlt]

theorem getElem?_append_some {α : Type} {l : List α} {h : Nat} {x : α} (l' : List α) (hx : l[h]? = some x) :
    (l ++ l')[h]? = some x := by
  have hlt : h < l.length := by
    rcases Nat.lt_or_ge h l.length with h1 | h1
    · exact h1
    · rw [List.getElem?_eq_none h1] at hx; cases hx
  rw [List.getElem?_append_left hlt]; exact hx

theorem lt_of_getElem?_some {α : Type} {l : List α} {h : Nat} {x : α} (hx : l[h]? = some x) : h < l.length := by
  rcases Nat.lt_or_ge h l.length with h1 | h1
  · exact h1
  · rw [List.getElem?_eq_none h1] at hx; cases hx

/-- Handles are unique, and pending while the command waits or is being executed. -/
structure HInv (b : BState) : Prop where
  /-- the handles waiting in the queue are pairwise distinct -/
  nodup : (qHandles b.g.queue).Nodup
  /-- … and name pending cells -/
  queued : ∀ h ∈ qHandles b.g.queue, b.g.acks[h]? = some .pending
  /-- the handle the busy worker holds names a pending cell and is not waiting in the queue as well -/
  held : ∀ h, b.w.held = some h → b.g.acks[h]? = some .pending ∧ h ∉ qHandles b.g.queue
  /-- every write carries a handle (only `Shutdown` is sent without one) -/
  writes : (∀ p ∈ b.g.queue, p.1 ≠ .shutdown → p.2.isSome = true) ∧ (b.w.busy = true → b.w.held.isSome = true)

theorem HInv.lt_queued {b : BState} (hi : HInv b) {h : Nat} (hm : h ∈ qHandles b.g.queue) : h < b.g.acks.length :=
  lt_of_getElem?_some (hi.queued h hm)

theorem HInv.lt_held {b : BState} (hi : HInv b) {h : Nat} (hm : b.w.held = some h) : h < b.g.acks.length :=
  lt_of_getElem?_some (hi.held h hm).1

theorem HInv.congr {b b' : BState} (hi : HInv b) (hw : b'.w = b.w) (hq : b'.g.queue = b.g.queue)
    (ha : b'.g.acks = b.g.acks) : HInv b' := by
  obtain ⟨h1, h2, h3, h4⟩ := hi
  constructor
  · rw [hq]; exact h1
  · rw [hq, ha]; exact h2
  · rw [hq, ha, hw]; exact h3
  · rw [hq, hw]; exact h4

theorem hinv_init (cfg : Cfg) (now : Nat) (seeds : List Nat) (clients : Nat) (sm : List (Nat × Nat)) :
    HInv { BState.init cfg now seeds clients with storeShard := sm } := by
  constructor
  · simp [BState.init, State.init, qHandles]
  · simp [BState.init, State.init, qHandles]
  · simp [BState.init, WPc.held]
  · simp [BState.init, State.init, WPc.busy]

theorem hinv_wstep {b b' : BState} (hi : HInv b) (h : WStep b b') : HInv b' := by
  obtain ⟨h1, h2, h3, h4, h5⟩ := hi
  cases h with
  | take cmd hh q hq hq' hw hb hheld ha hns =>
    rw [hq, qHandles_cons] at h1 h2 h3
    have hsome := h4 (cmd, hh) (by rw [hq]; simp) hns
    cases hh with
    | none => cases hsome
    | some x =>
      simp only [Option.toList_some, List.singleton_append, List.nodup_cons] at h1
      constructor
      · rw [hq']; exact h1.2
      · rw [hq', ha]; intro h hm; exact h2 h (by simp [hm])
      · rw [hq', ha, hheld]
        intro h hx
        simp only [Option.some.injEq] at hx; subst hx
        exact ⟨h2 x (by simp), h1.1⟩
      · rw [hq', hheld]
        exact ⟨fun p hp => h4 p (by rw [hq]; simp [hp]), fun _ => rfl⟩
  | takeShutdown hh q hq hq' hw hw' ha =>
    rw [hq, qHandles_cons] at h1 h2 h3
    constructor
    · rw [hq']
      cases hh <;> simp_all
    · rw [hq', ha]
      intro h hm
      rw [setAck_get_ne]
      · exact h2 h (by simp [hm])
      · intro e; subst e
        simp only [Option.toList_some, List.singleton_append, List.nodup_cons] at h1
        exact h1.1 hm
    · rw [hw']; intro h hx; cases hx
    · rw [hq', hw']
      exact ⟨fun p hp => h4 p (by rw [hq]; simp [hp]), fun hb => by cases hb⟩
  | takeDrain cmd hh q hq hq' hw hw' ha =>
    rw [hq, qHandles_cons] at h1 h2 h3
    constructor
    · rw [hq']
      cases hh <;> simp_all
    · rw [hq', ha]
      intro h hm
      rw [setAck_get_ne]
      · exact h2 h (by simp [hm])
      · intro e; subst e
        simp only [Option.toList_some, List.singleton_append, List.nodup_cons] at h1
        exact h1.1 hm
    · rw [hw']; intro h hx; cases hx
    · rw [hq', hw']
      exact ⟨fun p hp => h4 p (by rw [hq]; simp [hp]), fun hb => by cases hb⟩
  | cont hb hb' hheld hq ha =>
    constructor
    · rw [hq]; exact h1
    · rw [hq, ha]; exact h2
    · rw [hq, ha, hheld]; exact h3
    · rw [hq, hheld]; exact ⟨h4, fun _ => h5 hb⟩
  | complete st hb hw' hq hst ha =>
    constructor
    · rw [hq]; exact h1
    · rw [hq, ha]
      intro h hm
      rw [setAck_get_ne]
      · exact h2 h hm
      · intro e; exact (h3 h e).2 hm
    · rw [hw']; intro h hx; cases hx
    · rw [hq, hw']; exact ⟨h4, fun hb => by cases hb⟩
  | die hb hw' hq ha =>
    constructor
    · rw [hq]; simp [qHandles]
    · rw [hq]; simp [qHandles]
    · rw [hw']; intro h hx; cases hx
    · rw [hq, hw']; exact ⟨by simp, fun hb => by cases hb⟩

theorem hinv_cstep {b b' : BState} {i : Nat} (hi : HInv b) (hw : b'.w = b.w) (h : CStep b i b') : HInv b' := by
  cases h with
  | none hq ha => exact hi.congr hw hq ha
  | spot st hq ha =>
    obtain ⟨h1, h2, h3, h4⟩ := hi
    constructor
    · rw [hq]; exact h1
    · rw [hq, ha]; exact fun h hm => getElem?_append_some _ (h2 h hm)
    · rw [hq, ha, hw]; exact fun h hx => ⟨getElem?_append_some _ (h3 h hx).1, (h3 h hx).2⟩
    · rw [hq, hw]; exact h4
  | send cmd _ hq ha =>
    have hfresh : b.g.acks.length ∉ qHandles b.g.queue := fun hm => Nat.lt_irrefl _ (hi.lt_queued hm)
    obtain ⟨h1, h2, h3, h4, h5⟩ := hi
    constructor
    · rw [hq, qHandles_append_one]
      simp only [Option.toList_some]
      rw [List.nodup_append]
      refine ⟨h1, by simp, ?_⟩
      intro x hx y hy
      simp only [List.mem_singleton] at hy; subst hy
      intro e; subst e; exact hfresh hx
    · rw [hq, ha, qHandles_append_one]
      intro h hm
      simp only [Option.toList_some, List.mem_append, List.mem_singleton] at hm
      rcases hm with hm | rfl
      · exact getElem?_append_some _ (h2 h hm)
      · simp
    · rw [hq, ha, hw, qHandles_append_one]
      intro h hx
      refine ⟨getElem?_append_some _ (h3 h hx).1, ?_⟩
      simp only [Option.toList_some, List.mem_append, List.mem_singleton, not_or]
      refine ⟨(h3 h hx).2, ?_⟩
      have := lt_of_getElem?_some (h3 h hx).1
      omega
    · rw [hq, hw]
      refine ⟨?_, h5⟩
      intro p hp
      simp only [List.mem_append, List.mem_singleton] at hp
      rcases hp with hp | rfl
      · exact h4 p hp
      · intro _; rfl
  | sendShutdown _ _ hq ha =>
    obtain ⟨h1, h2, h3, h4, h5⟩ := hi
    have hqh : qHandles b'.g.queue = qHandles b.g.queue := by rw [hq, qHandles_append_one]; simp
    constructor
    · rw [hqh]; exact h1
    · rw [hqh, ha]; exact h2
    · rw [hqh, ha, hw]; exact h3
    · rw [hq, hw]
      refine ⟨?_, h5⟩
      intro p hp
      simp only [List.mem_append, List.mem_singleton] at hp
      rcases hp with hp | rfl
      · exact h4 p hp
      · intro hne; exact absurd rfl hne

theorem hinv_bstep {b b' : BState} {a : Act} (hi : HInv b) (h : BStep b a b') : HInv b' := by
  cases h with
  | worker _ hw => exact hinv_wstep hi hw
  | client i _ hw hc _ => exact hinv_cstep hi hw hc
  | other _ hw hq ha => exact hi.congr hw hq ha

/-- **C11 (handles).**  `HInv` is preserved by every action of every thread … -/
theorem hinv_step {b b' : BState} {a : Act} {o o' : Oracle} (hi : HInv b) (h : stepB b a o = .ok (b', o')) : HInv b' :=
  hinv_bstep hi (stepB_bstep h)

/-- … hence holds at every state of every interleaving. -/
theorem hinv_reach {cfg : Cfg} {now : Nat} {seeds : List Nat} {clients : Nat} {b : BState}
    (h : Reach cfg now seeds clients b) : HInv b := by
  induction h with
  | init sm => exact hinv_init cfg now seeds clients sm
  | step _ hs ih => exact hinv_step ih hs

theorem hinv_runB : ∀ (l : List (Act × Oracle)) {b b' : BState}, HInv b → runB b l = .ok b' → HInv b' := by
  intro l
  induction l with
  | nil => intro b b' hi h; simp only [runB, Except.ok.injEq] at h; subst h; exact hi
  | cons x l ih =>
    intro b b' hi h
    obtain ⟨a, o⟩ := x
    simp only [runB] at h
    split at h
    · rename_i b1 o1 hs
      exact ih (hinv_step hi hs) h
    · cases h

/-- the cell `h` holds an answer -/
def Answered (b : BState) (h : Nat) : Prop := ∃ st, b.g.acks[h]? = some st ∧ st ≠ .pending

/-- **C11 (at most once).**  No action removes an acknowledgement cell, and a cell that holds an answer never changes
    again — no action of any thread, `shutdown()` included, resets or overwrites it.
    (`hi`: the worker's answer goes to the cell named by the handle it holds / takes; that this cell is still pending is
    `HInv`, which holds at every reachable state: `C11_layerB_acks_grow_reach`.  Without it the statement is false of
    `stepB` from an arbitrary, unreachable state: `acks_grow_needs_hinv`.) -/
theorem C11_layerB_acks_grow {b b' : BState} {a : Act} {o o' : Oracle} (hi : HInv b)
    (h : stepB b a o = .ok (b', o')) :
    b.g.acks.length ≤ b'.g.acks.length ∧
    ∀ (hd : Nat) (st : Status), b.g.acks[hd]? = some st → st ≠ .pending → b'.g.acks[hd]? = some st := by
  have hset : ∀ (hh : Option Nat) (st' : Status), (∀ x, hh = some x → b.g.acks[x]? = some .pending) →
      ∀ (hd : Nat) (st : Status), b.g.acks[hd]? = some st → st ≠ .pending →
        (setAck b.g.acks hh st')[hd]? = some st := by
    intro hh st' hp hd st hs hne
    rw [setAck_get_ne]
    · exact hs
    · intro e
      rw [hp hd e] at hs
      simp only [Option.some.injEq] at hs
      exact hne hs.symm
  cases stepB_bstep h with
  | worker _ hw =>
    cases hw with
    | take _ _ _ _ _ _ _ _ ha => rw [ha]; exact ⟨Nat.le_refl _, fun _ _ hs _ => hs⟩
    | takeShutdown hh q hq _ _ _ ha =>
      rw [ha, setAck_length]
      refine ⟨Nat.le_refl _, hset _ _ ?_⟩
      intro x e; subst e
      exact hi.queued x (by rw [hq, qHandles_cons]; simp)
    | takeDrain cmd hh q hq _ _ _ ha =>
      rw [ha, setAck_length]
      refine ⟨Nat.le_refl _, hset _ _ ?_⟩
      intro x e; subst e
      exact hi.queued x (by rw [hq, qHandles_cons]; simp)
    | cont _ _ _ _ ha => rw [ha]; exact ⟨Nat.le_refl _, fun _ _ hs _ => hs⟩
    | complete st' _ _ _ _ ha =>
      rw [ha, setAck_length]
      exact ⟨Nat.le_refl _, hset _ _ (fun x e => (hi.held x e).1)⟩
    | die _ _ _ ha => rw [ha]; exact ⟨Nat.le_refl _, fun _ _ hs _ => hs⟩
  | client i _ _ hc _ =>
    cases hc with
    | none _ ha => rw [ha]; exact ⟨Nat.le_refl _, fun _ _ hs _ => hs⟩
    | spot st' _ ha => rw [ha]; exact ⟨by simp, fun _ _ hs _ => getElem?_append_some _ hs⟩
    | send cmd _ _ ha => rw [ha]; exact ⟨by simp, fun _ _ hs _ => getElem?_append_some _ hs⟩
    | sendShutdown _ _ _ ha => rw [ha]; exact ⟨Nat.le_refl _, fun _ _ hs _ => hs⟩
  | other _ _ _ ha => rw [ha]; exact ⟨Nat.le_refl _, fun _ _ hs _ => hs⟩

theorem C11_layerB_acks_grow_reach {cfg : Cfg} {now : Nat} {seeds : List Nat} {clients : Nat} {b b' : BState}
    {a : Act} {o o' : Oracle} (hr : Reach cfg now seeds clients b) (h : stepB b a o = .ok (b', o')) :
    b.g.acks.length ≤ b'.g.acks.length ∧
    ∀ (hd : Nat) (st : Status), b.g.acks[hd]? = some st → st ≠ .pending → b'.g.acks[hd]? = some st :=
  C11_layerB_acks_grow (hinv_reach hr) h

/-- an answer stays, action after action -/
theorem answered_step {b b' : BState} {a : Act} {o o' : Oracle} {hd : Nat} (hi : HInv b)
    (h : stepB b a o = .ok (b', o')) (ha : Answered b hd) : Answered b' hd := by
  obtain ⟨st, hs, hne⟩ := ha
  exact ⟨st, (C11_layerB_acks_grow hi h).2 hd st hs hne, hne⟩

/-- **C11 (only the worker answers).**  A pending cell is answered by an action of the command worker, by nobody else. -/
theorem C11_layerB_only_worker_answers {b b' : BState} {a : Act} {o o' : Oracle} (h : stepB b a o = .ok (b', o'))
    {hd : Nat} {st : Status} (hp : b.g.acks[hd]? = some .pending) (hs : b'.g.acks[hd]? = some st)
    (hne : st ≠ .pending) : a = .worker := by
  cases stepB_bstep h with
  | worker ha _ => exact ha
  | client i _ _ hc _ =>
    exfalso
    have : b'.g.acks[hd]? = some .pending := by
      cases hc with
      | none _ ha => rw [ha]; exact hp
      | spot st' _ ha => rw [ha]; exact getElem?_append_some _ hp
      | send cmd _ _ ha => rw [ha]; exact getElem?_append_some _ hp
      | sendShutdown _ _ _ ha => rw [ha]; exact hp
    rw [this] at hs
    simp only [Option.some.injEq] at hs
    exact hne hs.symm
  | other _ _ _ ha =>
    exfalso
    rw [ha, hp] at hs
    simp only [Option.some.injEq] at hs
    exact hne hs.symm

/-- **C11 (a completion answers).**  The worker action that ends a command (from a busy position to a non-busy one)
    writes an answer into the cell of the handle the worker holds — unless the worker dies in it. -/
theorem C11_layerB_completion_answers {b b' : BState} {o o' : Oracle} {hd : Nat} (hi : HInv b)
    (h : stepB b .worker o = .ok (b', o')) (hb : b.w.busy = true) (hheld : b.w.held = some hd)
    (hb' : b'.w.busy = false) : b'.w = .dead ∨ (b'.w = .recv ∧ Answered b' hd) := by
  have hnot : b.w ≠ .recv ∧ b.w ≠ .drain := by
    constructor <;> intro e <;> rw [e] at hb <;> cases hb
  cases stepB_bstep h with
  | worker _ hw =>
    cases hw with
    | take _ _ _ _ _ hw => exact absurd hw hnot.1
    | takeShutdown _ _ _ _ hw => exact absurd hw hnot.1
    | takeDrain _ _ _ _ _ hw => exact absurd hw hnot.2
    | cont _ hbb => rw [hbb] at hb'; cases hb'
    | complete st _ hw' _ hst ha =>
      refine Or.inr ⟨hw', st, ?_, hst⟩
      rw [ha, hheld]
      exact setAck_get_self _ _ (hi.lt_held hheld)
    | die _ hw' => exact Or.inl hw'
  | client i ha => cases ha
  | other ha => exact absurd rfl ha

/-- … and a worker action from a busy position to a busy position keeps the same handle, and answers nothing. -/
theorem C11_layerB_keeps_handle {b b' : BState} {o o' : Oracle} (h : stepB b .worker o = .ok (b', o'))
    (hb : b.w.busy = true) (hb' : b'.w.busy = true) :
    b'.w.held = b.w.held ∧ b'.g.acks = b.g.acks ∧ b'.g.queue = b.g.queue := by
  have hnot : b.w ≠ .recv ∧ b.w ≠ .drain := by
    constructor <;> intro e <;> rw [e] at hb <;> cases hb
  cases stepB_bstep h with
  | worker _ hw =>
    cases hw with
    | take _ _ _ _ _ hw => exact absurd hw hnot.1
    | takeShutdown _ _ _ _ hw => exact absurd hw hnot.1
    | takeDrain _ _ _ _ _ hw => exact absurd hw hnot.2
    | cont _ _ hh hq ha => exact ⟨hh, ha, hq⟩
    | complete st _ hw' => rw [hw'] at hb'; cases hb'
    | die _ hw' => rw [hw'] at hb'; cases hb'
  | client i ha => cases ha
  | other ha => exact absurd rfl ha

/-- the handle of a command the worker takes: it is the one the worker holds afterwards, or it is answered in the
    take itself (`Shutdown`, and everything taken while draining) -/
theorem C11_layerB_take_holds_or_answers {b b' : BState} {o o' : Oracle} {cmd : Cmd} {hd : Nat}
    {q : List (Cmd × Option Nat)} (hi : HInv b) (h : stepB b .worker o = .ok (b', o')) (hb : b.w.busy = false)
    (hq : b.g.queue = (cmd, some hd) :: q) :
    b'.g.queue = q ∧ ((b'.w.busy = true ∧ b'.w.held = some hd ∧ b'.g.acks = b.g.acks) ∨
      (b'.w = .drain ∧ Answered b' hd)) := by
  have hlt : hd < b.g.acks.length := hi.lt_queued (by rw [hq, qHandles_cons]; simp)
  cases stepB_bstep h with
  | worker _ hw =>
    cases hw with
    | take cmd' hh q' hq0 hq' _ hbb hheld ha _ =>
      rw [hq] at hq0
      simp only [List.cons.injEq, Prod.mk.injEq] at hq0
      obtain ⟨⟨_, rfl⟩, rfl⟩ := hq0
      exact ⟨hq', Or.inl ⟨hbb, hheld, ha⟩⟩
    | takeShutdown hh q' hq0 hq' _ hw' ha =>
      rw [hq] at hq0
      simp only [List.cons.injEq, Prod.mk.injEq] at hq0
      obtain ⟨⟨_, rfl⟩, rfl⟩ := hq0
      exact ⟨hq', Or.inr ⟨hw', .accepted, by rw [ha]; exact setAck_get_self _ _ hlt, by simp⟩⟩
    | takeDrain cmd' hh q' hq0 hq' _ hw' ha =>
      rw [hq] at hq0
      simp only [List.cons.injEq, Prod.mk.injEq] at hq0
      obtain ⟨⟨_, rfl⟩, rfl⟩ := hq0
      exact ⟨hq', Or.inr ⟨hw', .shuttingDown, by rw [ha]; exact setAck_get_self _ _ hlt, by simp⟩⟩
    | cont hbb => rw [hbb] at hb; cases hb
    | complete _ hbb => rw [hbb] at hb; cases hb
    | die hbb => rw [hbb] at hb; cases hb
  | client i ha => cases ha
  | other ha => exact absurd rfl ha

/-- the worker runs alone: only `.worker` actions, any oracles -/
def workerOnly (os : List Oracle) : List (Act × Oracle) := os.map (fun o => (Act.worker, o))

/-- while the worker runs alone: it is on the command with handle `hd`, or `hd` is answered, or the worker is dead -/
theorem workerOnly_answers : ∀ (os : List Oracle) {b b'' : BState} {hd : Nat}, HInv b →
    ((b.w.busy = true ∧ b.w.held = some hd) ∨ Answered b hd ∨ b.w = .dead) →
    runB b (workerOnly os) = .ok b'' →
    ((b''.w.busy = true ∧ b''.w.held = some hd) ∨ Answered b'' hd ∨ b''.w = .dead) := by
  intro os
  induction os with
  | nil =>
    intro b b'' hd _ hp h
    simp only [workerOnly, List.map_nil, runB, Except.ok.injEq] at h; subst h; exact hp
  | cons o os ih =>
    intro b b'' hd hi hp h
    simp only [workerOnly, List.map_cons, runB] at h
    split at h
    · rename_i b1 o1 hs
      refine ih (hinv_step hi hs) ?_ h
      rcases hp with ⟨hb, hh⟩ | ha | hdead
      · cases hb1 : b1.w.busy with
        | true => exact Or.inl ⟨rfl, by rw [(C11_layerB_keeps_handle hs hb hb1).1, hh]⟩
        | false =>
          rcases C11_layerB_completion_answers hi hs hb hh hb1 with hd1 | ⟨_, ha⟩
          · exact Or.inr (Or.inr hd1)
          · exact Or.inr (Or.inl ha)
      · exact Or.inr (Or.inl (answered_step hi hs ha))
      · exact Or.inr (Or.inr (dead_step hs hdead))
    · cases h

/-- **C11 (every write is answered).**  The worker stands between two commands and the head of the queue carries the
    handle `hd`.  Let the worker run alone — at least one action, any oracles — until it stands between two commands
    again: then the cell `hd` holds an answer, unless the worker died. -/
theorem C11_layerB_answered {b b'' : BState} {cmd : Cmd} {hd : Nat} {q : List (Cmd × Option Nat)} {o : Oracle}
    {os : List Oracle} (hi : HInv b) (hidle : b.w.busy = false) (hq : b.g.queue = (cmd, some hd) :: q)
    (hrun : runB b (workerOnly (o :: os)) = .ok b'') (hidle' : b''.w.busy = false) :
    b''.w = .dead ∨ Answered b'' hd := by
  simp only [workerOnly, List.map_cons, runB] at hrun
  split at hrun
  · rename_i b1 o1 hs
    have h1 := (C11_layerB_take_holds_or_answers hi hs hidle hq).2
    have hp : (b1.w.busy = true ∧ b1.w.held = some hd) ∨ Answered b1 hd ∨ b1.w = .dead := by
      rcases h1 with ⟨hb, hh, _⟩ | ⟨_, ha⟩
      · exact Or.inl ⟨hb, hh⟩
      · exact Or.inr (Or.inl ha)
    rcases workerOnly_answers os (hinv_step hi hs) hp hrun with ⟨hb, _⟩ | ha | hdead
    · rw [hb] at hidle'; cases hidle'
    · exact Or.inr ha
    · exact Or.inl hdead
  · cases hrun

/-! ## 5  concrete interleavings (non-vacuity, and the two witnesses referred to above) -/

/-- the start state of the examples: `cfgEx` (channel capacity 4), two clients -/
def b0Ex : BState := BState.init cfgEx 0 [1, 2, 3, 4] 2

theorem b0Ex_reach : Reach cfgEx 0 [1, 2, 3, 4] 2 b0Ex := .init []

/-- Client 0 starts `put(1)` and draws id 1 but is pre-empted just BEFORE its send; client 1 runs a whole `put(2)`
    (id 2) and sends; then client 0 sends.  Submission order = order of the sends: id 2 before id 1. -/
def twoPuts : List (Act × Oracle) :=
  call 0 (.putW 1 100 3 none) 3 ++ call 1 (.putW 2 200 4 none) 4 ++ [(.client 0, noO)]

/-- Non-vacuity of `C11_layerB_fifo`: the logs of `twoPuts` followed by 3 worker actions (the worker is busy with the
    first command, the second waits): `sent = taken ++ queue`, the order is the order of the sends (ids 2, 1), the
    handles are 0, 1, both still pending. -/
example :
    (match logB b0Ex (twoPuts ++ workerN 3) with
     | .ok (b, sent, taken) =>
       decide (sent.map (fun p => cmdId? p.1) = [some 2, some 1] ∧ sent.map (·.2) = [some 0, some 1] ∧
               taken.length = 1 ∧ b.g.queue.length = 1 ∧ b0Ex.g.queue ++ sent = taken ++ b.g.queue ∧
               b.g.acks = [.pending, .pending] ∧ b.w.busy = true ∧ b.w.held = some 0 ∧ b.w.isDead = false)
     | _ => false) = true := by decide

/-- … and after 12 worker actions both commands have been taken, in that order, executed and answered. -/
example :
    (match logB b0Ex (twoPuts ++ workerN 12) with
     | .ok (b, sent, taken) =>
       decide (sent.map (fun p => cmdId? p.1) = [some 2, some 1] ∧ taken = sent ∧ b.g.queue = [] ∧
               b0Ex.g.queue ++ sent = taken ++ b.g.queue ∧ b.g.acks = [.accepted, .accepted] ∧
               b.w.busy = false ∧ b.w.isDead = false ∧ b.g.store.get? 1 ≠ none ∧ b.g.store.get? 2 ≠ none)
     | _ => false) = true := by decide

/-- `logB` and `runB` end in the same state (here: compared on the queue and the cells) -/
example :
    (match logB b0Ex (twoPuts ++ workerN 3), runB b0Ex (twoPuts ++ workerN 3) with
     | .ok (b, _, _), .ok b' => decide (b.g.queue = b'.g.queue ∧ b.g.acks = b'.g.acks ∧ b.g.nextId = b'.g.nextId)
     | _, _ => false) = true := by decide

/-- Non-vacuity of `C11_layerB_one_at_a_time` / `QStep.send`: while the worker is BUSY with the first command a client
    sends another one — the send goes to the tail, nothing is taken. -/
example :
    (match runB b0Ex (twoPuts ++ workerN 3 ++ call 0 (.putW 3 300 1 none) 3) with
     | .ok b =>
       (match stepB b (.client 0) noO with
        | .ok (b', _) =>
          decide (b.w.busy = true ∧ b.g.queue.length = 1 ∧ b.g.queue.length < b.g.cfg.cmdCap ∧
                  b'.g.queue.length = 2 ∧ b'.g.queue.take 1 = b.g.queue ∧ sentBy b b' = b'.g.queue.drop 1 ∧
                  takenBy b (.client 0) b' = [] ∧ (sentBy b b').map (·.2) = [some 2])
        | _ => false) &&
       (match stepB b .worker noO with
        | .ok (b', _) => decide (b'.g.queue = b.g.queue ∧ b'.w.busy = true ∧ takenBy b .worker b' = [])
        | _ => false)
     | _ => false) = true := by decide

/-- Shutdown in between: client 0 is pre-empted just before the send of its `put(1)`; client 1's `shutdown()` sends
    `Shutdown` (no handle); client 0 sends.  The worker takes `Shutdown` (→ `drain`), then takes the put while draining
    and answers it `ShuttingDown` in the take: still head first, in the order of the sends, each answered once. -/
example :
    (match logB b0Ex (call 0 (.putW 1 100 3 none) 3 ++ call 1 .shutdown 3 ++ [(.client 0, noO)] ++ workerN 2) with
     | .ok (b, sent, taken) =>
       decide (sent.map (·.2) = [none, some 0] ∧ sent.map (·.1) = [.shutdown, .put 1 (cfgEx.hashOf 1) 3 1 100] ∧
               taken = sent ∧ b.g.queue = [] ∧ b.g.acks = [.shuttingDown] ∧ b.w.busy = false ∧ b.w.isDead = false ∧
               b.g.worker = .draining ∧ b.g.store.get? 1 = none)
     | _ => false) = true := by decide

/-- four sends fill the channel (`cmdCap = 4`) -/
def fullRun : List (Act × Oracle) :=
  call 0 (.putW 1 100 1 none) 4 ++ call 0 (.putW 2 100 1 none) 4 ++ call 0 (.putW 3 100 1 none) 4 ++
  call 0 (.putW 4 100 1 none) 4 ++ call 0 (.putW 5 100 1 none) 3

/-- The channel is bounded: with four commands waiting the fifth send is NOT enabled; after one take it is. -/
example :
    (match runB b0Ex fullRun with
     | .ok b =>
       decide (b.g.queue.length = 4 ∧ b.g.cfg.cmdCap = 4 ∧ qHandles b.g.queue = [0, 1, 2, 3]) &&
       (match stepB b (.client 0) noO with
        | .error m => m == "not enabled: the command queue is full"
        | _ => false) &&
       (match runB b [(.worker, noO), (.client 0, noO)] with
        | .ok b' => decide (b'.g.queue.length = 4 ∧ qHandles b'.g.queue = [1, 2, 3, 4] ∧ b'.w.held = some 0)
        | _ => false)
     | _ => false) = true := by decide

/-- `put(1)` with a TTL whose expiry overflows the clock, then `put(2)`; the worker takes the first command and runs it
    up to `store.put`. -/
def dropRun : List (Act × Oracle) :=
  call 0 (.putW 1 100 3 (some (10 ^ 30))) 4 ++ call 1 (.putW 2 200 4 none) 4 ++ workerN 5

/-- **Why `takenBy` (and `QStep.take`) must exclude the dying worker.**  The statement
      "while the worker is busy no action satisfies `∃ c, b.g.queue = c :: b'.g.queue ∧ a = .worker`"
    is FALSE of the model: at this reachable state the worker is busy (`store.put` of `put(1)`), exactly one command
    (`put(2)`, handle 1) waits, the worker's next action panics and the receiver is dropped — the queue goes from `[c]`
    to `[]`, which LOOKS like a take of `c`.  `c` is never executed and its cell stays pending for ever.
    `C11_layerB_one_at_a_time` is the true statement (queue unchanged, or the worker died). -/
theorem drop_looks_like_take :
    ∃ b b', Reach cfgEx 0 [1, 2, 3, 4] 2 b ∧ b.w.busy = true ∧ stepB b .worker noO = .ok (b', noO) ∧
      (∃ c, b.g.queue = c :: b'.g.queue) ∧ b'.w = .dead ∧ takenBy b .worker b' = [] ∧
      b'.g.acks = [.pending, .pending] := by
  have hrun : ∃ b, runB b0Ex dropRun = .ok b ∧ b.w.busy = true ∧
      ∃ b', stepB b .worker noO = .ok (b', noO) ∧ (∃ c, b.g.queue = c :: b'.g.queue) ∧ b'.w = .dead ∧
        takenBy b .worker b' = [] ∧ b'.g.acks = [.pending, .pending] := by
    refine ⟨_, rfl, by decide, _, rfl, ⟨_, rfl⟩, rfl, by decide, by decide⟩
  obtain ⟨b, hr, hb, b', hrest⟩ := hrun
  exact ⟨b, b', reach_runB _ b0Ex_reach hr, hb, hrest⟩

/-- Non-vacuity of `C11_layerB_fifo_dead`: in that run the worker took one command of the two that were sent —
    a proper prefix — and the equation of `C11_layerB_fifo` fails (the hypothesis `b.w ≠ .dead` is needed). -/
example :
    (match logB b0Ex (dropRun ++ workerN 1) with
     | .ok (b, sent, taken) =>
       decide (sent.length = 2 ∧ taken = sent.take 1 ∧ b.g.queue = [] ∧ b.w.isDead = true ∧
               b0Ex.g.queue ++ sent ≠ taken ++ b.g.queue)
     | _ => false) = true := by decide

/-- Non-vacuity of `C11_layerB_answered` (and of `C11_layerB_take_holds_or_answers`, `C11_layerB_completion_answers`):
    after `twoPuts` the worker stands at `recv`, the head of the queue carries handle 0; six worker actions later it
    stands at `recv` again and cell 0 holds `accepted` while cell 1 (the command still waiting) is pending. -/
example :
    (match runB b0Ex twoPuts with
     | .ok b =>
       decide (b.w.busy = false ∧ b.g.queue.map (·.2) = [some 0, some 1]) &&
       (match runB b (workerOnly (List.replicate 6 noO)) with
        | .ok b'' => decide (b''.w.busy = false ∧ b''.w.isDead = false ∧ b''.g.acks[0]? = some .accepted ∧
                              b''.g.acks[1]? = some .pending ∧ qHandles b''.g.queue = [1])
        | _ => false) &&
       (match runB b (workerOnly (List.replicate 5 noO)) with
        | .ok b1 =>
          decide (b1.w.busy = true ∧ b1.w.held = some 0 ∧ b1.g.acks[0]? = some .pending) &&
          (match stepB b1 .worker noO with
           | .ok (b2, _) => decide (b2.w.busy = false ∧ b2.g.acks[0]? = some .accepted)
           | _ => false)
        | _ => false)
     | _ => false) = true := by decide

/-- `HInv` at a reachable state with two handles waiting and one held -/
example : ∃ b, Reach cfgEx 0 [1, 2, 3, 4] 2 b ∧ HInv b ∧ qHandles b.g.queue = [1, 2] ∧ b.w.held = some 0 := by
  have hrun : ∃ b, runB b0Ex (twoPuts ++ workerN 3 ++ call 0 (.putW 3 300 1 none) 4) = .ok b ∧
      qHandles b.g.queue = [1, 2] ∧ b.w.held = some 0 := ⟨_, rfl, by decide, by decide⟩
  obtain ⟨b, hr, h1, h2⟩ := hrun
  have hreach := reach_runB _ b0Ex_reach hr
  exact ⟨b, hreach, hinv_reach hreach, h1, h2⟩

/-- Non-vacuity of `C11_layerB_acks_grow` / `C11_layerB_only_worker_answers`: an answered cell and a pending one; a
    spot answer of a client (`put` of a key that is present) adds a NEW cell and leaves both alone. -/
example :
    (match runB b0Ex (twoPuts ++ workerN 9 ++ call 0 (.putW 2 100 1 none) 1) with
     | .ok b =>
       (match stepB b (.client 0) noO with
        | .ok (b', _) =>
          decide (b.g.acks = [.accepted, .pending] ∧
                  b'.g.acks = [.accepted, .pending, .rejected .keyAlreadyExists] ∧ b'.g.queue = b.g.queue)
        | _ => false)
     | _ => false) = true := by decide

/-- an UNREACHABLE state: the worker is executing a `Delete` whose handle names a cell that is already answered -/
def badAck : BState :=
  { b0Ex with w := .delStore 5 (some 0), g := { b0Ex.g with acks := [.accepted] } }

/-- `C11_layerB_acks_grow` needs `HInv`: from `badAck` (which violates it, and is not reachable) the worker's action
    overwrites the answered cell 0. -/
theorem acks_grow_needs_hinv :
    ¬ HInv badAck ∧ badAck.g.acks[0]? = some .accepted ∧
    ∃ b', stepB badAck .worker noO = .ok (b', noO) ∧ b'.g.acks[0]? = some (.rejected .keyDoesNotExist) := by
  refine ⟨?_, rfl, _, rfl, by decide⟩
  intro hi
  have := (hi.held 0 rfl).1
  revert this; decide

end B
end Cached
