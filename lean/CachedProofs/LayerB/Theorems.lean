/-
  Layer B (action granularity, every interleaving): the weight-accounting properties C01 and C05 at EVERY INSTANT,
  lock progress (C18), and the store-level facts C04 / C02 per atomic action.

  Everything rests on `binv_reach` (CachedProofs/LayerB/Inv.lean): `BInv` holds at every state that any
  interleaving of any number of clients with the command worker, the sweeper and the access consumer can reach.
-/
import CachedProofs.LayerB.Inv

namespace Cached
namespace B

/-! ## C05  the total equals the sum of the charged weights of exactly the keys held — modulo the locals in flight -/

/-- At every instant of every interleaving: `used = Σ kw − (inserted, not yet added) + (removed, not yet subtracted)`. -/
theorem C05_layerB_accounting {cfg : Cfg} {now : Nat} {seeds : List Nat} {clients : Nat} {b : BState}
    (h : Reach cfg now seeds clients b) :
    b.g.adm.used = sumW b.g.adm.kw - pendingAdd b + pendingSub b :=
  (binv_reach h).sum

/-- nothing in flight: the worker is not between `kw.insert` and `wu.add` nor between a `kw.remove` and its `wu.sub`,
    and the sweeper is not between `kw.remove` and `wu.sub` -/
def AtRest (b : BState) : Prop :=
  (∀ c, b.w ≠ .add c) ∧ (∀ c e s i wk, b.w ≠ .evSub c e s i wk) ∧ (∀ i wk x h, b.w ≠ .delSub i wk x h) ∧
  (∀ n sh r i wk, b.sw ≠ .sub n sh r i wk)

theorem AtRest.pending {b : BState} (h : AtRest b) : pendingAdd b = 0 ∧ pendingSub b = 0 := by
  obtain ⟨h1, h2, h3, h4⟩ := h
  unfold pendingAdd pendingSub
  constructor
  · split
    · rename_i c hc; exact absurd hc (h1 c)
    · rfl
  · split
    · rename_i hc; exact absurd hc (h2 _ _ _ _ _)
    · rename_i hc; exact absurd hc (h3 _ _ _ _)
    · split
      · rename_i hc; exact absurd hc (h4 _ _ _ _ _)
      · rfl

/-- Whenever nothing is in flight the identity is exact — whatever else the threads are doing. -/
theorem C05_layerB_at_rest {cfg : Cfg} {now : Nat} {seeds : List Nat} {clients : Nat} {b : BState}
    (h : Reach cfg now seeds clients b) (hp : pendingAdd b = 0 ∧ pendingSub b = 0) :
    b.g.adm.used = sumW b.g.adm.kw := by
  have := C05_layerB_accounting h
  omega

theorem C05_layerB_at_rest' {cfg : Cfg} {now : Nat} {seeds : List Nat} {clients : Nat} {b : BState}
    (h : Reach cfg now seeds clients b) (hr : AtRest b) : b.g.adm.used = sumW b.g.adm.kw :=
  C05_layerB_at_rest h hr.pending

/-! ## C01  the total is never negative — at every instant -/

theorem pendingSub_nonneg {b : BState} (hb : BInv b) : 0 ≤ pendingSub b := by
  obtain ⟨_, _, hw, hs⟩ := hb.pendingPos
  unfold pendingSub
  split <;> split
  all_goals (try simp [WPc.victim?, *] at hw)
  all_goals (try simp [SPc.victim?, *] at hs)
  all_goals omega

/-- what is charged covers what is still to be added -/
theorem pendingAdd_le_sumW {b : BState} (hb : BInv b) : pendingAdd b ≤ sumW b.g.adm.kw := by
  unfold pendingAdd
  split
  · rename_i c hc
    have := weight_le_sumW hb.kwNoDup hb.positive (hb.addCharged c hc)
    exact this
  · exact sumW_nonneg hb.kwNoDup hb.positive

theorem BInv.used_nonneg {b : BState} (hb : BInv b) : 0 ≤ b.g.adm.used := by
  have h1 := hb.sum
  have h2 := pendingSub_nonneg hb
  have h3 := pendingAdd_le_sumW hb
  omega

/-- The total never dips below zero: not between a `kw.remove` and its `wu.sub`, not between `kw.insert` and `wu.add`,
    however client threads, the command worker and the sweeper interleave. -/
theorem C01_layerB_nonneg {cfg : Cfg} {now : Nat} {seeds : List Nat} {clients : Nat} {b : BState}
    (h : Reach cfg now seeds clients b) : 0 ≤ b.g.adm.used :=
  (binv_reach h).used_nonneg

/-! ## C18  lock progress -/

/-- (a) the worker, owning `weight_used`, stands at `store.remove` of an eviction: its action needs no lock, is
    enabled whatever the oracle holds, and releases `weight_used`. -/
theorem C18_layerB_worker_holder_enabled {b : BState} (hb : BInv b) (h : b.wuOwner = some .worker) (o : Oracle) :
    ∃ b' o', workerAct b o = .ok (b', o') ∧ b'.wuOwner = none := by
  obtain ⟨c, e, s, i, wk, hw⟩ := hb.wuWorker.mp h
  exact ⟨_, _, by simp only [workerAct, hw]; rfl, rfl⟩

/-- (b) the sweeper, owning `weight_used`, stands at `store.remove`: enabled for every oracle, releases the lock. -/
theorem C18_layerB_sweeper_holder_enabled {b : BState} (hb : BInv b) (h : b.wuOwner = some .sweeper) (v : Option Nat) :
    ∃ b', sweeperAct b v = .ok b' ∧ b'.wuOwner = none := by
  obtain ⟨n, sh, r, i, wk, hs⟩ := hb.wuSweeper.mp h
  refine ⟨_, by simp only [sweeperAct, hs]; rfl, ?_⟩
  unfold sweepNext; split <;> rfl

/-- (c) while the sweeper owns an expiry shard, its next action is enabled — for every `visit` that names an
    unvisited entry (and there is one) at `sweep.entry`, always at `kw.remove` and `store.remove`, and at `wu.sub`
    unless the WORKER owns `weight_used` (who by (a) can always move on and then frees it). -/
theorem C18_layerB_shard_holder_enabled {b : BState} (hb : BInv b) (sh : Nat) (h : b.ttlOwner = some sh) :
    (∃ now rest, b.sw = .entry now sh rest ∧ rest ≠ [] ∧
        ∀ id e, (id, e) ∈ rest → ∃ b', sweeperAct b (some id) = .ok b') ∨
    (∃ now rest id, b.sw = .kwRemove now sh rest id ∧ ∀ v, ∃ b', sweeperAct b v = .ok b') ∨
    (∃ now rest id wk, b.sw = .sub now sh rest id wk ∧
        ((b.wuOwner = none ∧ ∀ v, ∃ b', sweeperAct b v = .ok b') ∨ b.wuOwner = some .worker)) ∨
    (∃ now rest id wk, b.sw = .store now sh rest id wk ∧ ∀ v, ∃ b', sweeperAct b v = .ok b') := by
  have hsh := hb.ttlSweeper.2 sh h
  cases hs : b.sw with
  | begin => simp [hs, SPc.shard?] at hsh
  | fin => simp [hs, SPc.shard?] at hsh
  | entry now sh' rest =>
    simp only [hs, SPc.shard?, Option.some.injEq] at hsh; subst hsh
    refine Or.inl ⟨now, rest, rfl, hb.sweepEntry _ _ _ hs, ?_⟩
    intro id e hmem
    have hsome : (rest.find? (fun p => p.1 == id)).isSome = true := by
      rw [List.find?_isSome]; exact ⟨(id, e), hmem, by simp⟩
    simp only [sweeperAct, hs]
    cases hf : rest.find? (fun p => p.1 == id) with
    | none => rw [hf] at hsome; cases hsome
    | some p =>
      obtain ⟨p1, p2⟩ := p
      simp only []
      split <;> exact ⟨_, rfl⟩
  | kwRemove now sh' rest id =>
    simp only [hs, SPc.shard?, Option.some.injEq] at hsh; subst hsh
    refine Or.inr (Or.inl ⟨now, rest, id, rfl, ?_⟩)
    intro v
    simp only [sweeperAct, hs]
    split <;> exact ⟨_, rfl⟩
  | sub now sh' rest id wk =>
    simp only [hs, SPc.shard?, Option.some.injEq] at hsh; subst hsh
    refine Or.inr (Or.inr (Or.inl ⟨now, rest, id, wk, rfl, ?_⟩))
    cases ho : b.wuOwner with
    | none =>
      refine Or.inl ⟨rfl, fun v => ?_⟩
      simp only [sweeperAct, hs, wuFree, ho]
      exact ⟨_, rfl⟩
    | some t =>
      cases t with
      | worker => exact Or.inr rfl
      | sweeper =>
        obtain ⟨_, _, _, _, _, h'⟩ := hb.wuSweeper.mp ho
        rw [hs] at h'; cases h'
      | consumer => exact absurd ho (hb.wuClients 0).2
      | client i => exact absurd ho (hb.wuClients i).1
  | store now sh' rest id wk =>
    simp only [hs, SPc.shard?, Option.some.injEq] at hsh; subst hsh
    refine Or.inr (Or.inr (Or.inr ⟨now, rest, id, wk, rfl, fun v => ?_⟩))
    simp only [sweeperAct, hs]
    exact ⟨_, rfl⟩

/-- C18 at action granularity: the three parts together. -/
theorem C18_layerB_lock_progress {b : BState} (hb : BInv b) :
    (b.wuOwner = some .worker → ∀ o, ∃ r, workerAct b o = .ok r) ∧
    (b.wuOwner = some .sweeper → ∀ v, ∃ b', sweeperAct b v = .ok b') ∧
    (∀ sh, b.ttlOwner = some sh →
      (∃ v b', sweeperAct b v = .ok b') ∨
      (b.wuOwner = some .worker ∧ ∀ o, ∃ b1 o1, workerAct b o = .ok (b1, o1) ∧ b1.wuOwner = none)) := by
  refine ⟨?_, ?_, ?_⟩
  · intro h o
    obtain ⟨b', o', h', _⟩ := C18_layerB_worker_holder_enabled hb h o
    exact ⟨_, h'⟩
  · intro h v
    obtain ⟨b', h', _⟩ := C18_layerB_sweeper_holder_enabled hb h v
    exact ⟨_, h'⟩
  · intro sh h
    rcases C18_layerB_shard_holder_enabled hb sh h with ⟨now, rest, hs, hne, hall⟩ | ⟨_, _, _, _, hall⟩ |
      ⟨_, _, _, _, _, ⟨_, hall⟩ | hw⟩ | ⟨_, _, _, _, _, hall⟩
    · cases rest with
      | nil => exact absurd rfl hne
      | cons p rest =>
        obtain ⟨b', h'⟩ := hall p.1 p.2 (by simp)
        exact Or.inl ⟨_, _, h'⟩
    · obtain ⟨b', h'⟩ := hall none; exact Or.inl ⟨_, _, h'⟩
    · obtain ⟨b', h'⟩ := hall none; exact Or.inl ⟨_, _, h'⟩
    · exact Or.inr ⟨hw, C18_layerB_worker_holder_enabled hb hw⟩
    · obtain ⟨b', h'⟩ := hall none; exact Or.inl ⟨_, _, h'⟩

/-- No cycle of lock waits, at any reachable state of any interleaving:
    * the owner of `weight_used` is the worker at `evStore` or the sweeper at `store` — never a client, never the
      consumer — and the action it stands at takes no lock at all (it is enabled unconditionally);
    * the owner of an expiry-shard lock (the sweeper) waits, if at all, for `weight_used` held by the WORKER,
      which by the first point waits for nothing. -/
theorem C18_layerB_no_lock_wait_cycle {cfg : Cfg} {now : Nat} {seeds : List Nat} {clients : Nat} {b : BState}
    (h : Reach cfg now seeds clients b) :
    (b.wuOwner = some .worker → (∃ c e s i wk, b.w = .evStore c e s i wk) ∧ ∀ o, ∃ r, workerAct b o = .ok r) ∧
    (b.wuOwner = some .sweeper → (∃ n sh r i wk, b.sw = .store n sh r i wk) ∧ ∀ v, ∃ b', sweeperAct b v = .ok b') ∧
    (∀ i, b.wuOwner ≠ some (.client i)) ∧ b.wuOwner ≠ some .consumer ∧
    (∀ sh, b.ttlOwner = some sh → (∀ v, sweeperAct b v = .error "not enabled: weight_used is locked") →
      b.wuOwner = some .worker) := by
  have hb := binv_reach h
  obtain ⟨h1, h2, h3⟩ := C18_layerB_lock_progress hb
  refine ⟨fun h => ⟨hb.wuWorker.mp h, h1 h⟩, fun h => ⟨hb.wuSweeper.mp h, h2 h⟩, fun i => (hb.wuClients i).1,
    (hb.wuClients 0).2, ?_⟩
  intro sh hsh hblocked
  rcases h3 sh hsh with ⟨v, b', h'⟩ | ⟨hw, _⟩
  · rw [hblocked v] at h'; cases h'
  · exact hw

/-- how many sweeper actions are left before the shard lock is dropped -/
def swMeasure : SPc → Nat
  | .entry _ _ rest => 4 * rest.length
  | .kwRemove _ _ rest _ => 4 * rest.length + 3
  | .sub _ _ rest _ _ => 4 * rest.length + 2
  | .store _ _ rest _ _ => 4 * rest.length + 1
  | _ => 0

/-- The shard lock is held for a bounded number of sweeper actions: every sweeper action taken while a shard is
    owned either drops the lock or strictly lowers `swMeasure` (so no client waits for ever for a shard lock,
    given that the sweeper is scheduled — and by `C18_layerB_shard_holder_enabled` it is never blocked for good). -/
theorem C18_layerB_shard_lock_bounded {b b' : BState} {v : Option Nat} {sh : Nat} (hb : BInv b)
    (hown : b.ttlOwner = some sh) (h : sweeperAct b v = .ok b') :
    b'.ttlOwner = none ∨ (b'.ttlOwner = some sh ∧ swMeasure b'.sw < swMeasure b.sw) := by
  have hsh := hb.ttlSweeper.2 sh hown
  have hfilter : ∀ (rest : List (Nat × Nat)) (id : Nat) (p : Nat × Nat),
      rest.find? (fun p => p.1 == id) = some p → (rest.filter (fun p => p.1 != id)).length < rest.length := by
    intro rest id p hf
    rw [List.length_filter_lt_length_iff_exists]
    exact ⟨p, List.mem_of_find?_eq_some hf, by simpa using List.find?_some hf⟩
  have ht := sweeperAct_trans h
  cases ht with
  | begin _ hs => simp [hs, SPc.shard?] at hsh
  | fin hs => simp [hs, SPc.shard?] at hsh
  | entryExpired now shard rest id p hf hs =>
    have := hfilter rest id p hf
    exact Or.inr ⟨hown, by simp only [hs, swMeasure]; omega⟩
  | entryKeep now shard rest id p hf hs =>
    have := hfilter rest id p hf
    unfold sweepNext
    split
    · exact Or.inl rfl
    · exact Or.inr ⟨hown, by simp only [hs, swMeasure]; omega⟩
  | kwRemoveSome now shard rest id wk hg hs => exact Or.inr ⟨hown, by simp only [hs, swMeasure]; omega⟩
  | kwRemoveNone now shard rest id hg hs =>
    unfold sweepNext
    split
    · exact Or.inl rfl
    · exact Or.inr ⟨hown, by simp only [hs, swMeasure]; omega⟩
  | sub now shard rest id wk hf hs => exact Or.inr ⟨hown, by simp only [hs, swMeasure]; omega⟩
  | store now shard rest id wk hs =>
    unfold sweepNext
    split
    · exact Or.inl rfl
    · exact Or.inr ⟨hown, by simp only [hs, swMeasure]; omega⟩

end B
end Cached
