/-
  Layer B (action granularity, every interleaving): the weight-accounting properties C01 and C05 at EVERY INSTANT,
  lock progress (C18), and the store-level facts C04 / C02 per atomic action.

  Everything rests on `binv_reach` (CachedProofs/LayerB/Inv.lean): `BInv` holds at every state that any
  interleaving of any number of clients with the command worker, the sweeper and the access consumer can reach.
-/
import CachedProofs.LayerB.Inv

namespace Cached
namespace B

/-! ## C05  the total equals the sum of the charged weights of exactly the keys held — modulo the locals in flight -/

/-- At every instant of every interleaving: `used = Σ kw − (inserted, not yet added) + (removed, not yet subtracted)`. -/
theorem C05_layerB_accounting {cfg : Cfg} {now : Nat} {seeds : List Nat} {clients : Nat} {b : BState}
    (h : Reach cfg now seeds clients b) :
    b.g.adm.used = sumW b.g.adm.kw - pendingAdd b + pendingSub b :=
  (binv_reach h).sum

/-- nothing in flight: the worker is not between `kw.insert` and `wu.add` nor between a `kw.remove` and its `wu.sub`,
    and the sweeper is not between `kw.remove` and `wu.sub` -/
def AtRest (b : BState) : Prop :=
  (∀ c, b.w ≠ .add c) ∧ (∀ c e s i wk, b.w ≠ .evSub c e s i wk) ∧ (∀ i wk x h, b.w ≠ .delSub i wk x h) ∧
  (∀ n sh r i wk, b.sw ≠ .sub n sh r i wk)

theorem AtRest.pending {b : BState} (h : AtRest b) : pendingAdd b = 0 ∧ pendingSub b = 0 := by
  obtain ⟨h1, h2, h3, h4⟩ := h
  unfold pendingAdd pendingSub
  constructor
  · split
    · rename_i c hc; exact absurd hc (h1 c)
    · rfl
  · split
    · rename_i hc; exact absurd hc (h2 _ _ _ _ _)
    · rename_i hc; exact absurd hc (h3 _ _ _ _)
    · split
      · rename_i hc; exact absurd hc (h4 _ _ _ _ _)
      · rfl

/-- Whenever nothing is in flight the identity is exact — whatever else the threads are doing. -/
theorem C05_layerB_at_rest {cfg : Cfg} {now : Nat} {seeds : List Nat} {clients : Nat} {b : BState}
    (h : Reach cfg now seeds clients b) (hp : pendingAdd b = 0 ∧ pendingSub b = 0) :
    b.g.adm.used = sumW b.g.adm.kw := by
  have := C05_layerB_accounting h
  omega

theorem C05_layerB_at_rest' {cfg : Cfg} {now : Nat} {seeds : List Nat} {clients : Nat} {b : BState}
    (h : Reach cfg now seeds clients b) (hr : AtRest b) : b.g.adm.used = sumW b.g.adm.kw :=
  C05_layerB_at_rest h hr.pending

/-! ## C01  the total is never negative — at every instant -/

theorem pendingSub_nonneg {b : BState} (hb : BInv b) : 0 ≤ pendingSub b := by
  obtain ⟨_, _, hw, hs⟩ := hb.pendingPos
  unfold pendingSub
  split <;> split
  all_goals (try simp [WPc.victim?, *] at hw)
  all_goals (try simp [SPc.victim?, *] at hs)
  all_goals omega

/-- what is charged covers what is still to be added -/
theorem pendingAdd_le_sumW {b : BState} (hb : BInv b) : pendingAdd b ≤ sumW b.g.adm.kw := by
  unfold pendingAdd
  split
  · rename_i c hc
    have := weight_le_sumW hb.kwNoDup hb.positive (hb.addCharged c hc)
    exact this
  · exact sumW_nonneg hb.kwNoDup hb.positive

theorem BInv.used_nonneg {b : BState} (hb : BInv b) : 0 ≤ b.g.adm.used := by
  have h1 := hb.sum
  have h2 := pendingSub_nonneg hb
  have h3 := pendingAdd_le_sumW hb
  omega

/-- The total never dips below zero: not between a `kw.remove` and its `wu.sub`, not between `kw.insert` and `wu.add`,
    however client threads, the command worker and the sweeper interleave. -/
theorem C01_layerB_nonneg {cfg : Cfg} {now : Nat} {seeds : List Nat} {clients : Nat} {b : BState}
    (h : Reach cfg now seeds clients b) : 0 ≤ b.g.adm.used :=
  (binv_reach h).used_nonneg

/-! ## C18  lock progress -/

/-- (a) the worker, owning `weight_used`, stands at `store.remove` of an eviction: its action needs no lock, is
    enabled whatever the oracle holds, and releases `weight_used`. -/
theorem C18_layerB_worker_holder_enabled {b : BState} (hb : BInv b) (h : b.wuOwner = some .worker) (o : Oracle) :
    ∃ b' o', workerAct b o = .ok (b', o') ∧ b'.wuOwner = none := by
  obtain ⟨c, e, s, i, wk, hw⟩ := hb.wuWorker.mp h
  exact ⟨_, _, by simp only [workerAct, hw]; rfl, rfl⟩

/-- (b) the sweeper, owning `weight_used`, stands at `store.remove`: enabled for every oracle, releases the lock. -/
theorem C18_layerB_sweeper_holder_enabled {b : BState} (hb : BInv b) (h : b.wuOwner = some .sweeper) (v : Option Nat) :
    ∃ b', sweeperAct b v = .ok b' ∧ b'.wuOwner = none := by
  obtain ⟨n, sh, r, i, wk, hs⟩ := hb.wuSweeper.mp h
  refine ⟨_, by simp only [sweeperAct, hs]; rfl, ?_⟩
  unfold sweepNext; split <;> rfl

/-- (c) while the sweeper owns an expiry shard, its next action is enabled — for every `visit` that names an
    unvisited entry (and there is one) at `sweep.entry`, always at `kw.remove` and `store.remove`, and at `wu.sub`
    unless the WORKER owns `weight_used` (who by (a) can always move on and then frees it). -/
theorem C18_layerB_shard_holder_enabled {b : BState} (hb : BInv b) (sh : Nat) (h : b.ttlOwner = some sh) :
    (∃ now rest, b.sw = .entry now sh rest ∧ rest ≠ [] ∧
        ∀ id e, (id, e) ∈ rest → ∃ b', sweeperAct b (some id) = .ok b') ∨
    (∃ now rest id, b.sw = .kwRemove now sh rest id ∧ ∀ v, ∃ b', sweeperAct b v = .ok b') ∨
    (∃ now rest id wk, b.sw = .sub now sh rest id wk ∧
        ((b.wuOwner = none ∧ ∀ v, ∃ b', sweeperAct b v = .ok b') ∨ b.wuOwner = some .worker)) ∨
    (∃ now rest id wk, b.sw = .store now sh rest id wk ∧ ∀ v, ∃ b', sweeperAct b v = .ok b') := by
  have hsh := hb.ttlSweeper.2 sh h
  cases hs : b.sw with
  | begin => simp [hs, SPc.shard?] at hsh
  | fin => simp [hs, SPc.shard?] at hsh
  | entry now sh' rest =>
    simp only [hs, SPc.shard?, Option.some.injEq] at hsh; subst hsh
    refine Or.inl ⟨now, rest, rfl, hb.sweepEntry _ _ _ hs, ?_⟩
    intro id e hmem
    have hsome : (rest.find? (fun p => p.1 == id)).isSome = true := by
      rw [List.find?_isSome]; exact ⟨(id, e), hmem, by simp⟩
    simp only [sweeperAct, hs]
    cases hf : rest.find? (fun p => p.1 == id) with
    | none => rw [hf] at hsome; cases hsome
    | some p =>
      obtain ⟨p1, p2⟩ := p
      simp only []
      split <;> exact ⟨_, rfl⟩
  | kwRemove now sh' rest id =>
    simp only [hs, SPc.shard?, Option.some.injEq] at hsh; subst hsh
    refine Or.inr (Or.inl ⟨now, rest, id, rfl, ?_⟩)
    intro v
    simp only [sweeperAct, hs]
    split <;> exact ⟨_, rfl⟩
  | sub now sh' rest id wk =>
    simp only [hs, SPc.shard?, Option.some.injEq] at hsh; subst hsh
    refine Or.inr (Or.inr (Or.inl ⟨now, rest, id, wk, rfl, ?_⟩))
    cases ho : b.wuOwner with
    | none =>
      refine Or.inl ⟨rfl, fun v => ?_⟩
      simp only [sweeperAct, hs, wuFree, ho]
      exact ⟨_, rfl⟩
    | some t =>
      cases t with
      | worker => exact Or.inr rfl
      | sweeper =>
        obtain ⟨_, _, _, _, _, h'⟩ := hb.wuSweeper.mp ho
        rw [hs] at h'; cases h'
      | consumer => exact absurd ho (hb.wuClients 0).2
      | client i => exact absurd ho (hb.wuClients i).1
  | store now sh' rest id wk =>
    simp only [hs, SPc.shard?, Option.some.injEq] at hsh; subst hsh
    refine Or.inr (Or.inr (Or.inr ⟨now, rest, id, wk, rfl, fun v => ?_⟩))
    simp only [sweeperAct, hs]
    exact ⟨_, rfl⟩

/-- C18 at action granularity: the three parts together. -/
theorem C18_layerB_lock_progress {b : BState} (hb : BInv b) :
    (b.wuOwner = some .worker → ∀ o, ∃ r, workerAct b o = .ok r) ∧
    (b.wuOwner = some .sweeper → ∀ v, ∃ b', sweeperAct b v = .ok b') ∧
    (∀ sh, b.ttlOwner = some sh →
      (∃ v b', sweeperAct b v = .ok b') ∨
      (b.wuOwner = some .worker ∧ ∀ o, ∃ b1 o1, workerAct b o = .ok (b1, o1) ∧ b1.wuOwner = none)) := by
  refine ⟨?_, ?_, ?_⟩
  · intro h o
    obtain ⟨b', o', h', _⟩ := C18_layerB_worker_holder_enabled hb h o
    exact ⟨_, h'⟩
  · intro h v
    obtain ⟨b', h', _⟩ := C18_layerB_sweeper_holder_enabled hb h v
    exact ⟨_, h'⟩
  · intro sh h
    rcases C18_layerB_shard_holder_enabled hb sh h with ⟨now, rest, hs, hne, hall⟩ | ⟨_, _, _, _, hall⟩ |
      ⟨_, _, _, _, _, ⟨_, hall⟩ | hw⟩ | ⟨_, _, _, _, _, hall⟩
    · cases rest with
      | nil => exact absurd rfl hne
      | cons p rest =>
        obtain ⟨b', h'⟩ := hall p.1 p.2 (by simp)
        exact Or.inl ⟨_, _, h'⟩
    · obtain ⟨b', h'⟩ := hall none; exact Or.inl ⟨_, _, h'⟩
    · obtain ⟨b', h'⟩ := hall none; exact Or.inl ⟨_, _, h'⟩
    · exact Or.inr ⟨hw, C18_layerB_worker_holder_enabled hb hw⟩
    · obtain ⟨b', h'⟩ := hall none; exact Or.inl ⟨_, _, h'⟩

/-- No cycle of lock waits, at any reachable state of any interleaving:
    * the owner of `weight_used` is the worker at `evStore` or the sweeper at `store` — never a client, never the
      consumer — and the action it stands at takes no lock at all (it is enabled unconditionally);
    * the owner of an expiry-shard lock (the sweeper) waits, if at all, for `weight_used` held by the WORKER,
      which by the first point waits for nothing. -/
theorem C18_layerB_no_lock_wait_cycle {cfg : Cfg} {now : Nat} {seeds : List Nat} {clients : Nat} {b : BState}
    (h : Reach cfg now seeds clients b) :
    (b.wuOwner = some .worker → (∃ c e s i wk, b.w = .evStore c e s i wk) ∧ ∀ o, ∃ r, workerAct b o = .ok r) ∧
    (b.wuOwner = some .sweeper → (∃ n sh r i wk, b.sw = .store n sh r i wk) ∧ ∀ v, ∃ b', sweeperAct b v = .ok b') ∧
    (∀ i, b.wuOwner ≠ some (.client i)) ∧ b.wuOwner ≠ some .consumer ∧
    (∀ sh, b.ttlOwner = some sh → (∀ v, sweeperAct b v = .error "not enabled: weight_used is locked") →
      b.wuOwner = some .worker) := by
  have hb := binv_reach h
  obtain ⟨h1, h2, h3⟩ := C18_layerB_lock_progress hb
  refine ⟨fun h => ⟨hb.wuWorker.mp h, h1 h⟩, fun h => ⟨hb.wuSweeper.mp h, h2 h⟩, fun i => (hb.wuClients i).1,
    (hb.wuClients 0).2, ?_⟩
  intro sh hsh hblocked
  rcases h3 sh hsh with ⟨v, b', h'⟩ | ⟨hw, _⟩
  · rw [hblocked v] at h'; cases h'
  · exact hw

/-- how many sweeper actions are left before the shard lock is dropped -/
def swMeasure : SPc → Nat
  | .entry _ _ rest => 4 * rest.length
  | .kwRemove _ _ rest _ => 4 * rest.length + 3
  | .sub _ _ rest _ _ => 4 * rest.length + 2
  | .store _ _ rest _ _ => 4 * rest.length + 1
  | _ => 0

/-- The shard lock is held for a bounded number of sweeper actions: every sweeper action taken while a shard is
    owned either drops the lock or strictly lowers `swMeasure` (so no client waits for ever for a shard lock,
    given that the sweeper is scheduled — and by `C18_layerB_shard_holder_enabled` it is never blocked for good). -/
theorem C18_layerB_shard_lock_bounded {b b' : BState} {v : Option Nat} {sh : Nat} (hb : BInv b)
    (hown : b.ttlOwner = some sh) (h : sweeperAct b v = .ok b') :
    b'.ttlOwner = none ∨ (b'.ttlOwner = some sh ∧ swMeasure b'.sw < swMeasure b.sw) := by
  have hsh := hb.ttlSweeper.2 sh hown
  have hfilter : ∀ (rest : List (Nat × Nat)) (id : Nat) (p : Nat × Nat),
      rest.find? (fun p => p.1 == id) = some p → (rest.filter (fun p => p.1 != id)).length < rest.length := by
    intro rest id p hf
    rw [List.length_filter_lt_length_iff_exists]
    exact ⟨p, List.mem_of_find?_eq_some hf, by simpa using List.find?_some hf⟩
  have ht := sweeperAct_trans h
  cases ht with
  | begin _ hs => simp [hs, SPc.shard?] at hsh
  | fin hs => simp [hs, SPc.shard?] at hsh
  | entryExpired now shard rest id p hf hs =>
    have := hfilter rest id p hf
    exact Or.inr ⟨hown, by simp only [hs, swMeasure]; omega⟩
  | entryKeep now shard rest id p hf hs =>
    have := hfilter rest id p hf
    unfold sweepNext
    split
    · exact Or.inl rfl
    · exact Or.inr ⟨hown, by simp only [hs, swMeasure]; omega⟩
  | kwRemoveSome now shard rest id wk hg hs => exact Or.inr ⟨hown, by simp only [hs, swMeasure]; omega⟩
  | kwRemoveNone now shard rest id hg hs =>
    unfold sweepNext
    split
    · exact Or.inl rfl
    · exact Or.inr ⟨hown, by simp only [hs, swMeasure]; omega⟩
  | sub now shard rest id wk hf hs => exact Or.inr ⟨hown, by simp only [hs, swMeasure]; omega⟩
  | store now shard rest id wk hs =>
    unfold sweepNext
    split
    · exact Or.inl rfl
    · exact Or.inr ⟨hown, by simp only [hs, swMeasure]; omega⟩

/-! ## C01  the upper bound -/

/-- the worker has CHECKED that there is room for the put in its hands, and nobody else can use the room up
    (every other thread only subtracts) -/
def BBound (b : BState) : Prop :=
  b.g.adm.used + (match b.w with
    | .insert c => c.w
    | .add c => c.w
    | _ => 0) ≤ b.g.adm.max

/-- the worker's `UpdateWeight` raises the weight of a charged id by more than the free space: the recorded defect
    (`Cached.C01_counterexample` is the Layer A witness) -/
def UnsafeUpdate (b : BState) (a : Act) : Prop :=
  a = .worker ∧ ∃ id w h, b.w = .update id w h ∧
    (∃ wk, b.g.adm.kw.get? id = some wk ∧ w - wk.weight > b.g.adm.max - b.g.adm.used)

theorem bbound_wtrans {b b' : BState} (hb : BInv b) (hbd : BBound b) (h : WTrans b b')
    (hsafe : ∀ id w hh wk, b.w = .update id w hh → b.g.adm.kw.get? id = some wk →
      w - wk.weight ≤ b.g.adm.max - b.g.adm.used) : BBound b' := by
  have hstale := hb.staleSpace
  have hvict := hb.pendingPos.2.2.1
  unfold BBound at hbd ⊢
  cases h
  case updateApplied id w hh wk hw hfree hg =>
    have := hsafe id w hh wk hw hg
    simp [finishCmd, hw] at hbd ⊢; omega
  all_goals simp [finishCmd, rejectCmd, ttlPut, ttlDelete, WPc.space?, WPc.victim?, *] at *
  all_goals omega

@[simp] theorem sweepNext_g (b : BState) (n s : Nat) (r : List (Nat × Nat)) : (sweepNext b n s r).g = b.g := by
  unfold sweepNext; split <;> rfl

@[simp] theorem sweepNext_w (b : BState) (n s : Nat) (r : List (Nat × Nat)) : (sweepNext b n s r).w = b.w := by
  unfold sweepNext; split <;> rfl

theorem bbound_strans {b b' : BState} (hb : BInv b) (hbd : BBound b) (h : STrans b b') : BBound b' := by
  have hvict := hb.pendingPos.2.2.2
  unfold BBound at hbd ⊢
  cases h
  all_goals simp [SPc.victim?, *] at *
  all_goals omega

theorem BBound.frame {b b' : BState} (hbd : BBound b) (hadm : b'.g.adm = b.g.adm) (hw : b'.w = b.w) : BBound b' := by
  unfold BBound at hbd ⊢
  rw [hadm, hw]; exact hbd

/-- PARTIAL (the statement without the side condition is false of the code: the worker's `UpdateWeight` applies any
    increase without looking at the limit — `Cached.C01_counterexample`).  Every action of every thread preserves the
    bound, except the worker's `UpdateWeight` whose increase exceeds the free space. -/
theorem C01_layerB_bound_partial {b b' : BState} {a : Act} {o o' : Oracle} (hb : BInv b) (hbd : BBound b)
    (h : stepB b a o = .ok (b', o')) (hsafe : ¬ UnsafeUpdate b a) : BBound b' := by
  cases a with
  | issue i r =>
    simp only [stepB] at h
    split at h
    · rename_i b1 hi
      simp only [Except.ok.injEq, Prod.mk.injEq] at h; obtain ⟨rfl, rfl⟩ := h
      unfold issue at hi
      split at hi
      · simp only [Except.ok.injEq] at hi; subst hi; exact hbd.frame rfl rfl
      · cases hi
    · cases h
  | client i =>
    obtain ⟨hw, _, _, _, hadm, _⟩ := ctrans_frame (clientAct_trans h)
    exact hbd.frame hadm hw
  | worker =>
    refine bbound_wtrans hb hbd (workerAct_trans h) ?_
    intro id w hh wk hw hg
    by_cases hlt : w - wk.weight > b.g.adm.max - b.g.adm.used
    · exact absurd ⟨rfl, id, w, hh, hw, wk, hg, hlt⟩ hsafe
    · omega
  | sweeper v =>
    simp only [stepB] at h
    split at h
    · rename_i b1 hs
      simp only [Except.ok.injEq, Prod.mk.injEq] at h; obtain ⟨rfl, rfl⟩ := h
      exact bbound_strans hb hbd (sweeperAct_trans hs)
    · cases h
  | consumer =>
    simp only [stepB] at h
    split at h
    · rename_i g' out o1 hc
      simp only [Except.ok.injEq, Prod.mk.injEq] at h; obtain ⟨rfl, rfl⟩ := h
      exact hbd.frame (by rw [consumerStep_frame hc]) rfl
    · cases h
  | advance d =>
    simp only [stepB, Except.ok.injEq, Prod.mk.injEq] at h; obtain ⟨rfl, rfl⟩ := h
    exact hbd.frame rfl rfl

/-- interleavings in which no worker `UpdateWeight` action exceeds the free space -/
inductive ReachSafe (cfg : Cfg) (now : Nat) (seeds : List Nat) (clients : Nat) : BState → Prop where
  | init : ReachSafe cfg now seeds clients (BState.init cfg now seeds clients)
  | step {b b' : BState} {a : Act} {o o' : Oracle} :
      ReachSafe cfg now seeds clients b → stepB b a o = .ok (b', o') → ¬ UnsafeUpdate b a →
      ReachSafe cfg now seeds clients b'

theorem ReachSafe.reach {cfg : Cfg} {now : Nat} {seeds : List Nat} {clients : Nat} {b : BState}
    (h : ReachSafe cfg now seeds clients b) : Reach cfg now seeds clients b := by
  induction h with
  | init => exact .init
  | step _ hs _ ih => exact .step ih hs

/-- no action changes the configuration -/
theorem stepB_cfg {b b' : BState} {a : Act} {o o' : Oracle} (h : stepB b a o = .ok (b', o')) : b'.g.cfg = b.g.cfg := by
  cases a with
  | issue i r =>
    simp only [stepB] at h
    split at h
    · rename_i b1 hi
      simp only [Except.ok.injEq, Prod.mk.injEq] at h; obtain ⟨rfl, rfl⟩ := h
      unfold issue at hi
      split at hi
      · simp only [Except.ok.injEq] at hi; subst hi; rfl
      · cases hi
    · cases h
  | client i => exact (ctrans_frame (clientAct_trans h)).2.2.2.2.2
  | worker => exact wtrans_cfg (workerAct_trans h)
  | sweeper v =>
    simp only [stepB] at h
    split at h
    · rename_i b1 hs
      simp only [Except.ok.injEq, Prod.mk.injEq] at h; obtain ⟨rfl, rfl⟩ := h
      exact (strans_frame (sweeperAct_trans hs)).2.2.2.2.1
    · cases h
  | consumer =>
    simp only [stepB] at h
    split at h
    · rename_i g' out o1 hc
      simp only [Except.ok.injEq, Prod.mk.injEq] at h; obtain ⟨rfl, rfl⟩ := h
      show g'.cfg = b.g.cfg
      rw [consumerStep_frame hc]
    · cases h
  | advance d =>
    simp only [stepB, Except.ok.injEq, Prod.mk.injEq] at h; obtain ⟨rfl, rfl⟩ := h
    rfl

theorem reach_cfg {cfg : Cfg} {now : Nat} {seeds : List Nat} {clients : Nat} {b : BState}
    (h : Reach cfg now seeds clients b) : b.g.cfg = cfg := by
  induction h with
  | init => rfl
  | step _ hs ih => rw [stepB_cfg hs, ih]

theorem bbound_init (cfg : Cfg) (now : Nat) (seeds : List Nat) (clients : Nat) (h : 0 ≤ cfg.maxWeight) :
    BBound (BState.init cfg now seeds clients) := by
  simp [BBound, BState.init, State.init, h]

theorem reachSafe_bbound {cfg : Cfg} {now : Nat} {seeds : List Nat} {clients : Nat} {b : BState}
    (h : ReachSafe cfg now seeds clients b) (hmax : 0 ≤ cfg.maxWeight) : BBound b := by
  induction h with
  | init => exact bbound_init cfg now seeds clients hmax
  | step hr hs hsafe ih => exact C01_layerB_bound_partial (binv_reach hr.reach) ih hs hsafe

/-- PARTIAL (side condition `ReachSafe`, see `C01_layerB_bound_partial`): along every interleaving none of whose worker
    `UpdateWeight` actions exceeds the free space, the total lies within `[0, maxWeight]` AT EVERY INSTANT. -/
theorem C01_layerB_bound_partial' {cfg : Cfg} {now : Nat} {seeds : List Nat} {clients : Nat} {b : BState}
    (h : ReachSafe cfg now seeds clients b) (hmax : 0 ≤ cfg.maxWeight) :
    0 ≤ b.g.adm.used ∧ b.g.adm.used ≤ cfg.maxWeight := by
  have hb := binv_reach h.reach
  refine ⟨hb.used_nonneg, ?_⟩
  have hbd := reachSafe_bbound h hmax
  have hm : b.g.adm.max = cfg.maxWeight := by rw [hb.maxFixed, reach_cfg h.reach]
  unfold BBound at hbd
  rw [hm] at hbd
  have hpos := hb.pendingPos
  split at hbd
  · rename_i c hc; have := (hpos.2.1 c hc).1; omega
  · rename_i c hc; have := hpos.1 c hc; omega
  · omega

/-! ## C04  a soft-deleted entry never comes back — per atomic action -/

/-- what one action may do to the soft-deleted entries of the store -/
def SoftStep (st st' : AMap Nat Entry) : Prop :=
  ∀ k e, st.get? k = some e → e.soft = true →
    st'.get? k = none ∨ ∃ e', st'.get? k = some e' ∧ (e'.soft = true ∨ e'.id ≠ e.id)

theorem SoftStep.refl (st : AMap Nat Entry) : SoftStep st st :=
  fun _ e h hs => Or.inr ⟨e, h, Or.inl hs⟩

theorem SoftStep.del (st : AMap Nat Entry) (x : Nat) : SoftStep st (st.del x) := by
  intro k e h hs
  rw [AMap.get?_del]
  split
  · exact Or.inl rfl
  · exact Or.inr ⟨e, h, Or.inl hs⟩

/-- overwriting the entry of `x` by one that is soft whenever the old one was -/
theorem SoftStep.setKeep (st : AMap Nat Entry) (x : Nat) (e0 e1 : Entry) (h0 : st.get? x = some e0)
    (h1 : e0.soft = true → e1.soft = true) : SoftStep st (st.set x e1) := by
  intro k e h hs
  rw [AMap.get?_set]
  split
  · rename_i hx; subst hx
    rw [h0] at h; cases h
    exact Or.inr ⟨e1, rfl, Or.inl (h1 hs)⟩
  · exact Or.inr ⟨e, h, Or.inl hs⟩

/-- storing an entry under an id no entry carries -/
theorem SoftStep.setFresh (st : AMap Nat Entry) (x : Nat) (e1 : Entry) (h1 : ∀ k e, st.get? k = some e → e.id ≠ e1.id) :
    SoftStep st (st.set x e1) := by
  intro k e h hs
  rw [AMap.get?_set]
  split
  · exact Or.inr ⟨e1, rfl, Or.inr (fun he => h1 k e h he.symm)⟩
  · exact Or.inr ⟨e, h, Or.inl hs⟩

theorem soft_wtrans {b b' : BState} (hb : BInv b) (h : WTrans b b') : SoftStep b.g.store b'.g.store := by
  have hfresh : ∀ c, b.w = .storePut c → ∀ k e, b.g.store.get? k = some e → e.id ≠ c.id := by
    intro c hc k e hg he
    have hu : e.id ∈ usedIds b := by
      rw [mem_usedIds]; exact Or.inl ⟨(k, e), AMap.mem_of_get? hg, rfl⟩
    have := (hb.freshIds.2.2.2.2.1 e.id hu).1
    rw [he] at this
    simp [occ, hc, WPc.freshId?] at this
  cases h
  case evStore => simp only [applyEvict_store]; exact SoftStep.del _ _
  case storePutPlain c hw ht => exact SoftStep.setFresh _ _ _ (hfresh c hw)
  case storePutTtl c t e hw ht => exact SoftStep.setFresh _ _ _ (hfresh c hw)
  case delStoreSome => exact SoftStep.del _ _
  all_goals exact SoftStep.refl _

theorem soft_strans {b b' : BState} (h : STrans b b') : SoftStep b.g.store b'.g.store := by
  cases h
  case store => simp only [sweepNext_g, applyEvict_store]; exact SoftStep.del _ _
  all_goals simp only [sweepNext_g]
  all_goals exact SoftStep.refl _

theorem soft_ctrans {b b' : BState} {i : Nat} (h : CTrans b i b') : SoftStep b.g.store b'.g.store := by
  cases h
  case getPool hp => rw [poolAdd_frame hp]; exact SoftStep.refl _
  case delMark k hpc =>
    simp only [setClient]
    split
    · rename_i e he; exact SoftStep.setKeep _ _ e _ he (fun _ => rfl)
    · exact SoftStep.refl _
  case upUpdate k v w ttl rm e ne uw hpc he => exact SoftStep.setKeep _ _ e _ he (fun h => h)
  case upAfterSame id uw old new hpc =>
    rcases upAfterIndex_spec b i id uw with ⟨_, h⟩ | ⟨_, _, h⟩ | h <;> rw [h] <;> exact SoftStep.refl _
  case upAfterPut pc id e uw _ _ _ =>
    rcases upAfterIndex_spec { b with g := ttlPut b.g id e } i id uw with ⟨_, h⟩ | ⟨_, _, h⟩ | h <;> rw [h] <;>
      exact SoftStep.refl _
  case upAfterDelete id e uw _ _ =>
    rcases upAfterIndex_spec { b with g := ttlDelete b.g id e } i id uw with ⟨_, h⟩ | ⟨_, _, h⟩ | h <;> rw [h] <;>
      exact SoftStep.refl _
  all_goals exact SoftStep.refl _

/-- C04 at action granularity: no atomic action of any thread turns a soft-deleted entry back into a live one;
    after the action the key is gone, or still soft-deleted, or held by a DIFFERENT entry (a later put). -/
theorem C04_layerB_soft_permanent {b b' : BState} {a : Act} {o o' : Oracle} (hb : BInv b)
    (h : stepB b a o = .ok (b', o')) {k : Nat} {e : Entry} (hk : b.g.store.get? k = some e) (hs : e.soft = true) :
    b'.g.store.get? k = none ∨ ∃ e', b'.g.store.get? k = some e' ∧ (e'.soft = true ∨ e'.id ≠ e.id) := by
  suffices hss : SoftStep b.g.store b'.g.store from hss k e hk hs
  cases a with
  | issue i r =>
    simp only [stepB] at h
    split at h
    · rename_i b1 hi
      simp only [Except.ok.injEq, Prod.mk.injEq] at h; obtain ⟨rfl, rfl⟩ := h
      unfold issue at hi
      split at hi
      · simp only [Except.ok.injEq] at hi; subst hi; exact SoftStep.refl _
      · cases hi
    · cases h
  | client i => exact soft_ctrans (clientAct_trans h)
  | worker => exact soft_wtrans hb (workerAct_trans h)
  | sweeper v =>
    simp only [stepB] at h
    split at h
    · rename_i b1 hs'
      simp only [Except.ok.injEq, Prod.mk.injEq] at h; obtain ⟨rfl, rfl⟩ := h
      exact soft_strans (sweeperAct_trans hs')
    · cases h
  | consumer =>
    simp only [stepB] at h
    split at h
    · rename_i g' out o1 hc
      simp only [Except.ok.injEq, Prod.mk.injEq] at h; obtain ⟨rfl, rfl⟩ := h
      show SoftStep b.g.store g'.store
      rw [consumerStep_frame hc]; exact SoftStep.refl _
    · cases h
  | advance d =>
    simp only [stepB, Except.ok.injEq, Prod.mk.injEq] at h; obtain ⟨rfl, rfl⟩ := h
    exact SoftStep.refl _

/-! ## C02  a read returns the value the store holds for THAT key at the read's `store.get` action -/

/-- The `store.get` action of a `get(k)`: a miss finishes the call with `None`; a hit moves on to `pool.add`
    carrying the value of the CURRENT, alive entry of `k` (the store itself is not changed). -/
theorem C02_layerB_get_store {b b' : BState} {i k : Nat} {o o' : Oracle} (hpc : b.cl[i]? = some (.getStore k))
    (h : clientAct b i o = .ok (b', o')) :
    ((∃ e, b.g.store.get? k = some e ∧ e.alive b.g.now = true ∧ b'.cl = b.cl.set i (.getPool k e.value) ∧
        b'.res = b.res) ∨
     ((∀ e, b.g.store.get? k = some e → e.alive b.g.now = false) ∧ b'.cl = b.cl.set i .idle ∧
        b'.res = b.res.set i (.value none :: b.res.getD i []))) ∧
    b'.g.store = b.g.store ∧ o' = o := by
  unfold clientAct at h
  simp only [hpc] at h
  split at h
  · rename_i e he
    split at h
    · rename_i ha
      simp only [Except.ok.injEq, Prod.mk.injEq] at h; obtain ⟨rfl, rfl⟩ := h
      exact ⟨Or.inl ⟨e, he, ha, rfl, rfl⟩, rfl, rfl⟩
    · rename_i ha
      simp only [Except.ok.injEq, Prod.mk.injEq] at h; obtain ⟨rfl, rfl⟩ := h
      refine ⟨Or.inr ⟨?_, rfl, rfl⟩, rfl, rfl⟩
      intro e' he'
      rw [he] at he'; cases he'
      simpa using ha
  · rename_i he
    simp only [Except.ok.injEq, Prod.mk.injEq] at h; obtain ⟨rfl, rfl⟩ := h
    refine ⟨Or.inr ⟨?_, rfl, rfl⟩, rfl, rfl⟩
    intro e' he'
    rw [he] at he'; cases he'

/-- The `pool.add` action of that `get(k)` finishes the call with exactly the value picked up at `store.get`. -/
theorem C02_layerB_get_pool {b b' : BState} {i k v : Nat} {o o' : Oracle} (hpc : b.cl[i]? = some (.getPool k v))
    (h : clientAct b i o = .ok (b', o')) :
    b'.cl = b.cl.set i .idle ∧ b'.res = b.res.set i (.value (some v) :: b.res.getD i []) := by
  unfold clientAct at h
  simp only [hpc] at h
  split at h
  · simp only [Except.ok.injEq, Prod.mk.injEq] at h; obtain ⟨rfl, rfl⟩ := h
    exact ⟨rfl, rfl⟩
  · cases h

theorem wtrans_cl {b b' : BState} (h : WTrans b b') : b'.cl = b.cl := by
  cases h <;> simp [finishCmd, rejectCmd]

theorem ctrans_cl {b b' : BState} {j : Nat} (h : CTrans b j b') : ∃ pc', b'.cl = b.cl.set j pc' := by
  cases h
  case upAfterSame id uw old new hpc =>
    rcases upAfterIndex_spec b j id uw with ⟨_, h⟩ | ⟨_, _, h⟩ | h <;> rw [h] <;> exact ⟨_, rfl⟩
  case upAfterPut pc id e uw _ _ _ =>
    rcases upAfterIndex_spec { b with g := ttlPut b.g id e } j id uw with ⟨_, h⟩ | ⟨_, _, h⟩ | h <;> rw [h] <;>
      exact ⟨_, rfl⟩
  case upAfterDelete id e uw _ _ =>
    rcases upAfterIndex_spec { b with g := ttlDelete b.g id e } j id uw with ⟨_, h⟩ | ⟨_, _, h⟩ | h <;> rw [h] <;>
      exact ⟨_, rfl⟩
  all_goals exact ⟨_, rfl⟩

/-- Nobody but client `i` itself moves client `i`: between its `store.get` and its `pool.add` the value it carries
    cannot be touched by any other thread. -/
theorem other_threads_keep_pc {b b' : BState} {a : Act} {o o' : Oracle} {i : Nat}
    (h : stepB b a o = .ok (b', o')) (h1 : a ≠ .client i) (h2 : ∀ r, a ≠ .issue i r) : b'.cl[i]? = b.cl[i]? := by
  cases a with
  | issue j r =>
    have hne : j ≠ i := by intro e; subst e; exact h2 r rfl
    simp only [stepB] at h
    split at h
    · rename_i b1 hi
      simp only [Except.ok.injEq, Prod.mk.injEq] at h; obtain ⟨rfl, rfl⟩ := h
      unfold issue at hi
      split at hi
      · simp only [Except.ok.injEq] at hi; subst hi
        simp [setClient, List.getElem?_set_ne hne]
      · cases hi
    · cases h
  | client j =>
    have hne : j ≠ i := by intro e; subst e; exact h1 rfl
    obtain ⟨pc', hcl⟩ := ctrans_cl (clientAct_trans h)
    rw [hcl, List.getElem?_set_ne hne]
  | worker => rw [wtrans_cl (workerAct_trans h)]
  | sweeper v =>
    simp only [stepB] at h
    split at h
    · rename_i b1 hs'
      simp only [Except.ok.injEq, Prod.mk.injEq] at h; obtain ⟨rfl, rfl⟩ := h
      rw [(strans_frame (sweeperAct_trans hs')).2.1]
    · cases h
  | consumer =>
    simp only [stepB] at h
    split at h
    · simp only [Except.ok.injEq, Prod.mk.injEq] at h; obtain ⟨rfl, rfl⟩ := h
      rfl
    · cases h
  | advance d =>
    simp only [stepB, Except.ok.injEq, Prod.mk.injEq] at h; obtain ⟨rfl, rfl⟩ := h
    rfl

/-- C02 at action granularity: the value a `get(k)` finally returns is the value of the entry that the store held
    for `k` — and that was alive — at the instant of the call's `store.get` action; never another key's. -/
theorem C02_layerB_read_current {b0 b1 b2 b3 : BState} {i k : Nat} {o0 o1 o2 o3 : Oracle}
    (hpc : b0.cl[i]? = some (.getStore k)) (hget : clientAct b0 i o0 = .ok (b1, o1))
    (hsame : b2.cl[i]? = b1.cl[i]?)      -- whatever the other threads did in between (`other_threads_keep_pc`)
    (hpool : clientAct b2 i o2 = .ok (b3, o3)) (hbusy : b1.cl[i]? ≠ some .idle) :
    ∃ e, b0.g.store.get? k = some e ∧ e.alive b0.g.now = true ∧
      b3.res = b2.res.set i (.value (some e.value) :: b2.res.getD i []) := by
  have hlt : i < b0.cl.length := by
    rcases Nat.lt_or_ge i b0.cl.length with h | h
    · exact h
    · rw [List.getElem?_eq_none h] at hpc; cases hpc
  rcases (C02_layerB_get_store hpc hget).1 with ⟨e, he, ha, hcl, _⟩ | ⟨_, hcl, _⟩
  · refine ⟨e, he, ha, ?_⟩
    have h2 : b2.cl[i]? = some (.getPool k e.value) := by
      rw [hsame, hcl, List.getElem?_set_self hlt]
    exact (C02_layerB_get_pool h2 hpool).2
  · exfalso
    apply hbusy
    rw [hcl, List.getElem?_set_self hlt]

/-! ## concrete interleavings (non-vacuity) -/

/-- runs a list of actions, each with its own oracle -/
def runB : BState → List (Act × Oracle) → Except String BState
  | b, [] => .ok b
  | b, (a, o) :: rest =>
    match stepB b a o with
    | .ok (b', _) => runB b' rest
    | .error m => .error m

theorem reach_runB {cfg : Cfg} {now : Nat} {seeds : List Nat} {clients : Nat} :
    ∀ (l : List (Act × Oracle)) {b b' : BState}, Reach cfg now seeds clients b → runB b l = .ok b' →
      Reach cfg now seeds clients b' := by
  intro l
  induction l with
  | nil => intro b b' hr h; simp only [runB, Except.ok.injEq] at h; subst h; exact hr
  | cons x l ih =>
    intro b b' hr h
    obtain ⟨a, o⟩ := x
    simp only [runB] at h
    split at h
    · rename_i b1 o1 hs
      exact ih (.step hr hs) h
    · cases h

def cfgEx : Cfg := { maxWeight := 10, shards := 1, cmdCap := 4, poolSize := 1, bufSize := 2, counters := 2 }

/-- the empty oracle -/
def noO : Oracle := {}

/-- a whole call of client `i`: `n` actions after the issue -/
def call (i : Nat) (r : Req) (n : Nat) : List (Act × Oracle) := (.issue i r, noO) :: List.replicate n (.client i, noO)

def workerN (n : Nat) : List (Act × Oracle) := List.replicate n (.worker, noO)

/-- put key 1 (weight 3, TTL 5 ns) and let the worker run it to the end; let it expire; the sweeper takes it out of
    `kw` and stops BEFORE `wu.sub`; a second put (key 2, weight 4) is run by the worker up to just BEFORE `wu.add`;
    then client 1 reads `total_weight_used`. -/
def midFlight : List (Act × Oracle) :=
  call 0 (.putW 1 100 3 (some 5)) 4 ++ workerN 7 ++ [(.advance 10, noO)] ++
  [(.sweeper none, noO), (.sweeper (some 1), noO), (.sweeper none, noO)] ++
  call 0 (.putW 2 200 4 none) 4 ++ workerN 4 ++ call 1 .weight 2

example :
    (match runB (BState.init cfgEx 0 [1, 2, 3, 4] 2) midFlight with
     | .ok b =>
       (match b.w, b.sw with
        | .add _, .sub _ _ _ _ _ => true
        | _, _ => false) &&
       decide (pendingAdd b = 4 ∧ pendingSub b = 3 ∧ b.g.adm.used = 3 ∧ sumW b.g.adm.kw = 4 ∧
               b.g.adm.used = sumW b.g.adm.kw - pendingAdd b + pendingSub b ∧
               b.g.adm.used ≠ sumW b.g.adm.kw ∧ 0 ≤ b.g.adm.used ∧ b.g.adm.used ≤ b.g.adm.max) &&
       (match b.res[1]? with
        | some [Out.weight w] => decide (w = 3 ∧ 0 ≤ w ∧ w ≤ 10)
        | _ => false)
     | _ => false) = true := by decide

/-- the same, as a reachable state: the accounting identity holds with BOTH corrections non-zero, the exact
    identity `used = Σ kw` does NOT hold at this instant, and the total a client reads lies within `[0, max]` -/
theorem layerB_midflight_reachable :
    ∃ b, Reach cfgEx 0 [1, 2, 3, 4] 2 b ∧ pendingAdd b ≠ 0 ∧ pendingSub b ≠ 0 ∧
      b.g.adm.used = sumW b.g.adm.kw - pendingAdd b + pendingSub b ∧ b.g.adm.used ≠ sumW b.g.adm.kw ∧
      0 ≤ b.g.adm.used ∧ b.g.adm.used ≤ cfgEx.maxWeight := by
  have hrun : ∃ b, runB (BState.init cfgEx 0 [1, 2, 3, 4] 2) midFlight = .ok b ∧ pendingAdd b ≠ 0 ∧
      pendingSub b ≠ 0 ∧ b.g.adm.used = sumW b.g.adm.kw - pendingAdd b + pendingSub b ∧
      b.g.adm.used ≠ sumW b.g.adm.kw ∧ 0 ≤ b.g.adm.used ∧ b.g.adm.used ≤ cfgEx.maxWeight := by
    refine ⟨_, rfl, ?_⟩
    decide
  obtain ⟨b, hr, hrest⟩ := hrun
  exact ⟨b, reach_runB _ .init hr, hrest⟩

/-- keys 1 (weight 3, TTL) and 2 (weight 3) are in; key 1 expires and the sweeper stops before its `wu.sub`, owning
    shard 0; a put of weight 8 makes the worker evict key 2 and stop at `store.remove`, owning `weight_used` -/
def lockedRun : List (Act × Oracle) :=
  call 0 (.putW 1 100 3 (some 5)) 4 ++ workerN 7 ++ call 0 (.putW 2 200 3 none) 4 ++ workerN 6 ++
  [(.advance 10, noO), (.sweeper none, noO), (.sweeper (some 1), noO), (.sweeper none, noO)] ++
  call 0 (.putW 3 300 8 none) 4 ++
  [(.worker, noO), (.worker, noO), (.worker, { dk := [false] }),
   (.worker, { dk := [false], ids := [2], pops := [some 2] }), (.worker, noO), (.worker, noO)]

/-- Non-vacuity of C18 (a), (c): the worker owns `weight_used` at `evStore`, the sweeper owns shard 0 and waits at
    `wu.sub` for exactly that lock; the worker's action is enabled, and after it the sweeper's is. -/
example :
    (match runB (BState.init cfgEx 0 [1, 2, 3, 4] 2) lockedRun with
     | .ok b =>
       decide (b.wuOwner = some .worker ∧ b.ttlOwner = some 0) &&
       (match b.w, b.sw with
        | .evStore _ _ _ _ _, .sub _ _ _ _ _ => true
        | _, _ => false) &&
       (match sweeperAct b none with
        | .error m => m == "not enabled: weight_used is locked"
        | _ => false) &&
       (match workerAct b noO with
        | .ok (b1, _) => decide (b1.wuOwner = none) && (match sweeperAct b1 none with | .ok _ => true | _ => false)
        | _ => false) &&
       decide (b.g.adm.used = 3 ∧ sumW b.g.adm.kw = 0 ∧ pendingAdd b = 0 ∧ pendingSub b = 3 ∧ 0 ≤ b.g.adm.used)
     | _ => false) = true := by decide

/-- **The Layer B witness of the recorded defect** (full C01 is false): put key 1 with weight 5, `put_or_update` it
    to weight 300; the worker's `kw.update` action is an `UnsafeUpdate`, and after it the total is 300 > 10. -/
def overRun : List (Act × Oracle) :=
  call 0 (.putW 1 100 5 none) 4 ++ workerN 6 ++ call 0 (.upsert 1 none (some 300) none false) 4 ++ workerN 1

theorem C01_layerB_counterexample :
    ∃ b b', Reach cfgEx 0 [1, 2, 3, 4] 2 b ∧ BBound b ∧ UnsafeUpdate b .worker ∧
      stepB b .worker noO = .ok (b', noO) ∧ b'.g.adm.used = 300 ∧ ¬ b'.g.adm.used ≤ cfgEx.maxWeight ∧ ¬ BBound b' := by
  have hrun : ∃ b, runB (BState.init cfgEx 0 [1, 2, 3, 4] 2) overRun = .ok b ∧
      b.w = .update 1 300 (some 1) ∧ b.g.adm.kw.get? 1 = some ⟨1, 1, 5⟩ ∧ b.g.adm.used = 5 ∧ b.g.adm.max = 10 ∧
      b.wuOwner = none := by
    refine ⟨_, rfl, ?_⟩
    exact ⟨rfl, by decide, by decide, by decide, by decide⟩
  obtain ⟨b, hr, hw, hg, hu, hm, ho⟩ := hrun
  have hstep : ∃ b', stepB b .worker noO = .ok (b', noO) ∧ b'.g.adm.used = 300 ∧ b'.g.adm.max = 10 ∧ b'.w = .recv := by
    simp only [stepB, workerAct, hw, wuFree, ho, workerUpdateWeight, hg, hu]
    exact ⟨_, rfl, by simp [finishCmd], hm, rfl⟩
  obtain ⟨b', hs, hu', hm', hw'⟩ := hstep
  refine ⟨b, b', reach_runB _ .init hr, ?_, ⟨rfl, 1, 300, some 1, hw, ⟨1, 1, 5⟩, hg, ?_⟩, hs, hu', ?_, ?_⟩
  · simp only [BBound, hw, hu, hm]; decide
  · rw [hu, hm]; decide
  · rw [hu']; decide
  · simp only [BBound, hw', hu', hm']; decide

/-- Non-vacuity of C04: `delete(1)` marks the entry soft (`delete.mark`), and the entry is still soft two actions
    later; the worker's `store.remove` then takes it out. -/
example :
    (match runB (BState.init cfgEx 0 [1, 2, 3, 4] 2) (call 0 (.putW 1 100 5 none) 4 ++ workerN 6 ++ call 0 (.delete 1) 2) with
     | .ok b =>
       (match b.g.store.get? 1 with
        | some e => e.soft && decide (e.id = 1)
        | none => false) &&
       (match runB b [(.client 0, noO), (.worker, noO)] with
        | .ok b1 => (match b1.g.store.get? 1 with | some e => e.soft | none => false) &&
            (match runB b1 [(.worker, noO)] with
             | .ok b2 => (b2.g.store.get? 1).isNone
             | _ => false)
        | _ => false)
     | _ => false) = true := by decide

/-- Non-vacuity of C02: a `get(1)` of client 1 that hits — `store.get` picks up 100, `pool.add` returns it. -/
example :
    (match runB (BState.init cfgEx 0 [1, 2, 3, 4] 2)
        (call 0 (.putW 1 100 5 none) 4 ++ workerN 6 ++ [(.issue 1 (.get 1), noO), (.client 1, noO), (.client 1, noO)]) with
     | .ok b =>
       (match b.cl[1]? with
        | some (CPc.getPool k v) => decide (k = 1 ∧ v = 100)
        | _ => false) &&
       (match runB b [(.client 1, { pool := [0] })] with
        | .ok b1 => (match b1.res[1]? with
            | some [Out.value (some v)] => decide (v = 100)
            | _ => false)
        | _ => false)
     | _ => false) = true := by decide

/-- Non-vacuity of `C01_layerB_bound_partial'`, `C05_layerB_at_rest`: a `ReachSafe` state that is at rest. -/
example : ∃ b, ReachSafe cfgEx 0 [1, 2, 3, 4] 2 b ∧ pendingAdd b = 0 ∧ pendingSub b = 0 :=
  ⟨_, .init, rfl, rfl⟩

end B
end Cached
