/-
  Layer B (action granularity, every interleaving): the weight-accounting properties C01 and C05 at EVERY INSTANT,
  lock progress (C18), and the store-level facts C04 / C02 per atomic action.

  Everything rests on `binv_reach` (CachedProofs/LayerB/Inv.lean): `BInv` holds at every state that any
  interleaving of any number of clients with the command worker, the sweeper and the access consumer can reach.
-/
import CachedProofs.LayerB.Inv

namespace Cached
namespace B

/-! ## C05  the total equals the sum of the charged weights of exactly the keys held — modulo the locals in flight -/

/-- At every instant of every interleaving: `used = Σ kw − (inserted, not yet added) + (removed, not yet subtracted)`. -/
theorem C05_layerB_accounting {cfg : Cfg} {now : Nat} {seeds : List Nat} {clients : Nat} {b : BState}
    (h : Reach cfg now seeds clients b) :
    b.g.adm.used = sumW b.g.adm.kw - pendingAdd b + pendingSub b :=
  (binv_reach h).sum

/-- nothing in flight: the worker is not between `kw.insert` and `wu.add` nor between a `kw.remove` and its `wu.sub`,
    and the sweeper is not between `kw.remove` and `wu.sub` -/
def AtRest (b : BState) : Prop :=
  (∀ c, b.w ≠ .add c) ∧ (∀ c e s i wk, b.w ≠ .evSub c e s i wk) ∧ (∀ i wk x h, b.w ≠ .delSub i wk x h) ∧
  (∀ n sh r i wk, b.sw ≠ .sub n sh r i wk)

theorem AtRest.pending {b : BState} (h : AtRest b) : pendingAdd b = 0 ∧ pendingSub b = 0 := by
  obtain ⟨h1, h2, h3, h4⟩ := h
  unfold pendingAdd pendingSub
  constructor
  · split
    · rename_i c hc; exact absurd hc (h1 c)
    · rfl
  · split
    · rename_i hc; exact absurd hc (h2 _ _ _ _ _)
    · rename_i hc; exact absurd hc (h3 _ _ _ _)
    · split
      · rename_i hc; exact absurd hc (h4 _ _ _ _ _)
      · rfl

/-- Whenever nothing is in flight the identity is exact — whatever else the threads are doing. -/
theorem C05_layerB_at_rest {cfg : Cfg} {now : Nat} {seeds : List Nat} {clients : Nat} {b : BState}
    (h : Reach cfg now seeds clients b) (hp : pendingAdd b = 0 ∧ pendingSub b = 0) :
    b.g.adm.used = sumW b.g.adm.kw := by
  have := C05_layerB_accounting h
  omega

theorem C05_layerB_at_rest' {cfg : Cfg} {now : Nat} {seeds : List Nat} {clients : Nat} {b : BState}
    (h : Reach cfg now seeds clients b) (hr : AtRest b) : b.g.adm.used = sumW b.g.adm.kw :=
  C05_layerB_at_rest h hr.pending

/-! ## C01  the total is never negative — at every instant -/

theorem pendingSub_nonneg {b : BState} (hb : BInv b) : 0 ≤ pendingSub b := by
  obtain ⟨_, _, hw, hs⟩ := hb.pendingPos
  unfold pendingSub
  split <;> split
  all_goals (try simp [WPc.victim?, *] at hw)
  all_goals (try simp [SPc.victim?, *] at hs)
  all_goals omega

/-- what is charged covers what is still to be added -/
theorem pendingAdd_le_sumW {b : BState} (hb : BInv b) : pendingAdd b ≤ sumW b.g.adm.kw := by
  unfold pendingAdd
  split
  · rename_i c hc
    have := weight_le_sumW hb.kwNoDup hb.positive (hb.addCharged c hc)
    exact this
  · exact sumW_nonneg hb.kwNoDup hb.positive

theorem BInv.used_nonneg {b : BState} (hb : BInv b) : 0 ≤ b.g.adm.used := by
  have h1 := hb.sum
  have h2 := pendingSub_nonneg hb
  have h3 := pendingAdd_le_sumW hb
  omega

/-- The total never dips below zero: not between a `kw.remove` and its `wu.sub`, not between `kw.insert` and `wu.add`,
    however client threads, the command worker and the sweeper interleave. -/
theorem C01_layerB_nonneg {cfg : Cfg} {now : Nat} {seeds : List Nat} {clients : Nat} {b : BState}
    (h : Reach cfg now seeds clients b) : 0 ≤ b.g.adm.used :=
  (binv_reach h).used_nonneg

end B
end Cached
