/-
  Layer B (action granularity, every interleaving): the weight-accounting properties C01 and C05 at EVERY INSTANT
  at which the cache is running, lock progress (C18, including the `get_ref` read guards and a `shutdown()` in
  progress), the store-level facts C04 / C02 per atomic action, and shutdown (C13) per atomic action.

  Everything rests on `binv_reach` (CachedProofs/LayerB/Inv.lean): `BInv` holds at every state that any
  interleaving of any number of clients with the command worker, the sweeper and the access consumer can reach.

  `shutdown()` is eleven atomic actions and is NOT atomic with respect to the worker and the sweeper: the accounting
  theorems (C05, C01) carry the hypothesis `b.g.shutting = false`; `layerB_accounting_void_after_shutdown` and
  `layerB_negative_after_shutdown` are reachable states showing that they fail without it.

  Multi-key reads (`Req.mget ks iter`: `multi_get` and the two iterators; positions `.mgetFlag` (every load of the
  shutdown flag is an action of its own), `.mgetStore` / `.mgetPool`, `mgetNext`):
    * C02  `C02_layerB_mget_store`, `C02_layerB_mget_pool` (the two actions per key), `C02_layerB_mread_current` (one
           key, whatever happens between its two actions), `C02_layerB_mget_current` (the WHOLE call along any history
           of any threads: every value at position j is the value of an alive entry of key j at the moment of ITS
           `store.get` action — `MgetHit`; invariant `MgetInv`), witness `C02_layerB_mget_current_witness`;
    * C13  `C13_layerB_mget_start` (the first action looks at nothing), `C13_layerB_mget_flag_outer` /
           `C13_layerB_mget_flag_inner` (what one load does: the load of `next()` / of `multi_get`'s entry ends the read,
           the load inside `get` answers `None` for this key without a lookup), `C13_layerB_mget_refused` (a read issued
           with the flag set: no values, two actions), `C13_layerB_mget_after_flag` (`multi_get` pads with `None`s, one
           load per key; an iterator stops at its next load), `C13_layerB_mget_store_after_flag`,
           `C13_layerB_mget_pool_after_flag`, and `C13_layerB_mget_around_shutdown` (the WHOLE call along any history:
           every `None` is a counted miss of its own lookup or a `get` that found the flag set — no lookup, statistics
           untouched —, and after such a `None` no value follows), witness `C13_layerB_mget_none_without_miss_witness`.
-/
import CachedProofs.LayerB.Inv

namespace Cached
namespace B

/-! ## C05  the total equals the sum of the charged weights of exactly the keys held — modulo the locals in flight -/

/-- At every instant of every interleaving, WHILE THE CACHE IS RUNNING:
    `used = Σ kw − (inserted, not yet added) + (removed, not yet subtracted)`.
    (`hrun`: `shutdown()` clears `key_weights` and zeroes `weight_used` in two separate actions while worker and
    sweeper keep running — `layerB_accounting_void_after_shutdown` below is a reachable state where the identity fails.
    The flag is set by the first action of `shutdown()` and never reset: `stepB_shutting_mono`.) -/
theorem C05_layerB_accounting {cfg : Cfg} {now : Nat} {seeds : List Nat} {clients : Nat} {b : BState}
    (h : Reach cfg now seeds clients b) (hrun : b.g.shutting = false) :
    b.g.adm.used = sumW b.g.adm.kw - pendingAdd b + pendingSub b :=
  ((binv_reach h).acct hrun).sum

/-- nothing in flight: the worker is not between `kw.insert` and `wu.add` nor between a `kw.remove` and its `wu.sub`,
    and the sweeper is not between `kw.remove` and `wu.sub` -/
def AtRest (b : BState) : Prop :=
  (∀ c, b.w ≠ .add c) ∧ (∀ c e s i wk, b.w ≠ .evSub c e s i wk) ∧ (∀ i wk x h, b.w ≠ .delSub i wk x h) ∧
  (∀ n sh r i wk, b.sw ≠ .sub n sh r i wk)

theorem AtRest.pending {b : BState} (h : AtRest b) : pendingAdd b = 0 ∧ pendingSub b = 0 := by
  obtain ⟨h1, h2, h3, h4⟩ := h
  unfold pendingAdd pendingSub
  constructor
  · split
    · rename_i c hc; exact absurd hc (h1 c)
    · rfl
  · split
    · rename_i hc; exact absurd hc (h2 _ _ _ _ _)
    · rename_i hc; exact absurd hc (h3 _ _ _ _)
    · split
      · rename_i hc; exact absurd hc (h4 _ _ _ _ _)
      · rfl

/-- Whenever nothing is in flight the identity is exact — whatever else the threads are doing. -/
theorem C05_layerB_at_rest {cfg : Cfg} {now : Nat} {seeds : List Nat} {clients : Nat} {b : BState}
    (h : Reach cfg now seeds clients b) (hrun : b.g.shutting = false) (hp : pendingAdd b = 0 ∧ pendingSub b = 0) :
    b.g.adm.used = sumW b.g.adm.kw := by
  have := C05_layerB_accounting h hrun
  omega

theorem C05_layerB_at_rest' {cfg : Cfg} {now : Nat} {seeds : List Nat} {clients : Nat} {b : BState}
    (h : Reach cfg now seeds clients b) (hrun : b.g.shutting = false) (hr : AtRest b) :
    b.g.adm.used = sumW b.g.adm.kw :=
  C05_layerB_at_rest h hrun hr.pending

/-! ## C01  the total is never negative — at every instant -/

theorem pendingSub_nonneg {b : BState} (hb : BInv b) : 0 ≤ pendingSub b := by
  obtain ⟨_, _, hw, hs⟩ := hb.pendingPos
  unfold pendingSub
  split <;> split
  all_goals (try simp [WPc.victim?, *] at hw)
  all_goals (try simp [SPc.victim?, *] at hs)
  all_goals omega

/-- what is charged covers what is still to be added -/
theorem pendingAdd_le_sumW {b : BState} (hb : BInv b) (hrun : b.g.shutting = false) :
    pendingAdd b ≤ sumW b.g.adm.kw := by
  unfold pendingAdd
  split
  · rename_i c hc
    have := weight_le_sumW hb.kwNoDup hb.positive ((hb.acct hrun).addCharged c hc)
    exact this
  · exact sumW_nonneg hb.kwNoDup hb.positive

theorem BInv.used_nonneg {b : BState} (hb : BInv b) (hrun : b.g.shutting = false) : 0 ≤ b.g.adm.used := by
  have h1 := (hb.acct hrun).sum
  have h2 := pendingSub_nonneg hb
  have h3 := pendingAdd_le_sumW hb hrun
  omega

/-- While the cache is running the total never dips below zero: not between a `kw.remove` and its `wu.sub`, not
    between `kw.insert` and `wu.add`, however client threads, the command worker and the sweeper interleave.
    (After a shutdown it can: `layerB_negative_after_shutdown`.) -/
theorem C01_layerB_nonneg {cfg : Cfg} {now : Nat} {seeds : List Nat} {clients : Nat} {b : BState}
    (h : Reach cfg now seeds clients b) (hrun : b.g.shutting = false) : 0 ≤ b.g.adm.used :=
  (binv_reach h).used_nonneg hrun

/-! ## C18  lock progress

  The wait-for relation of the locks held ACROSS schedule points:
    expiry shard (sweeper)  →  `weight_used` (worker at `evStore`, or the sweeper itself at `store`)
                            →  a store shard read-locked by a `get_ref` guard (a client at `pool.add`)
                            →  nothing (the guard holder's action takes the buffer lock only).
  Every chain ends at a thread that is enabled; there is no cycle.  All of this is unconditional (it holds during
  and after a shutdown as well). -/

/-- client `i` stands at `pool.add` of a `get_ref` and keeps a read guard on store shard `sh` -/
def HoldsGuard (b : BState) (i sh : Nat) : Prop :=
  ∃ k v, b.cl[i]? = some (.refPool k v) ∧ storeShardOf b k = sh ∧ (i, sh) ∈ b.storeReaders

/-- a store write that is not enabled waits for a client that keeps a read guard on that shard (another thread's) -/
theorem blocked_by_guard {b : BState} (hb : BInv b) {k : Nat} {t : Option Nat} (h : storeWritable b k t = false) :
    ∃ j, some j ≠ t ∧ HoldsGuard b j (storeShardOf b k) := by
  unfold storeWritable at h
  simp only [Bool.not_eq_false', List.any_eq_true, Bool.and_eq_true, beq_iff_eq, bne_iff_ne, ne_eq] at h
  obtain ⟨p, hp, he, hne⟩ := h
  obtain ⟨k', v, hcl, hsh⟩ := hb.guards.1 p hp
  refine ⟨p.1, hne, k', v, hcl, by rw [← hsh, he], ?_⟩
  rw [← he]; exact hp

/-- (d) A client that keeps a store read guard (it stands at `pool.add` of a `get_ref`) is enabled for EVERY legal
    oracle (a buffer index inside the pool): its action takes the buffer lock only.  The action returns the call and
    drops the guard — so nobody inside the cache waits for ever for a `get_ref` guard. -/
theorem C18_layerB_guard_holder_enabled {b : BState} {i k v : Nat} (hpc : b.cl[i]? = some (.refPool k v))
    (o : Oracle) {idx : Nat} {rest : List Nat} (ho : o.pool = idx :: rest) (hidx : idx < b.g.pool.length) :
    ∃ b' o', clientAct b i o = .ok (b', o') ∧ b'.cl[i]? = some .idle ∧ (∀ p ∈ b'.storeReaders, p.1 ≠ i) ∧
      b'.res = b.res.set i (.value (some v) :: b.res.getD i []) := by
  have hlt : i < b.cl.length := by
    rcases Nat.lt_or_ge i b.cl.length with h | h
    · exact h
    · rw [List.getElem?_eq_none h] at hpc; cases hpc
  have hp : ∃ g1 o', poolAdd b.g (b.g.cfg.hashOf k) o = .ok (g1, o') := by
    unfold poolAdd
    simp only [ho, List.getElem?_eq_getElem hidx]
    exact ⟨_, _, rfl⟩
  obtain ⟨g1, o', hp⟩ := hp
  refine ⟨finishCall { b with g := g1, storeReaders := b.storeReaders.filter (fun p => p.1 != i) } i (.value (some v)),
    o', by simp only [clientAct, hpc, hp], ?_, ?_, rfl⟩
  · simp [finishCall, List.getElem?_set_self hlt]
  · intro p hp'
    simp only [finishCall, List.mem_filter, bne_iff_ne, ne_eq] at hp'
    exact hp'.2

theorem C18_layerB_guard_holder_enabled' {b : BState} {i sh : Nat} (h : HoldsGuard b i sh)
    (o : Oracle) {idx : Nat} {rest : List Nat} (ho : o.pool = idx :: rest) (hidx : idx < b.g.pool.length) :
    ∃ b' o', clientAct b i o = .ok (b', o') ∧ ∀ sh', ¬ HoldsGuard b' i sh' := by
  obtain ⟨k, v, hpc, _, _⟩ := h
  obtain ⟨b', o', h1, _, h3, _⟩ := C18_layerB_guard_holder_enabled hpc o ho hidx
  exact ⟨b', o', h1, fun sh' ⟨_, _, _, _, hm⟩ => h3 _ hm rfl⟩

/-- (a) the worker, owning `weight_used`, stands at `store.remove` of an eviction: its action needs no further lock
    ACROSS a schedule point; it is enabled whatever the oracle holds, and releases `weight_used` — unless a client
    keeps a `get_ref` read guard on the victim's store shard (and that client is enabled: (d)).
    CHANGED with the model: before `get_ref` guards were modelled the action was enabled unconditionally. -/
theorem C18_layerB_worker_holder_enabled {b : BState} (hb : BInv b) (h : b.wuOwner = some .worker) (o : Oracle) :
    ∃ c e s id wk, b.w = .evStore c e s id wk ∧
      ((∃ b' o', workerAct b o = .ok (b', o') ∧ b'.wuOwner = none) ∨
       (storeWritable b wk.key none = false ∧ ∃ j, HoldsGuard b j (storeShardOf b wk.key))) := by
  obtain ⟨c, e, s, i, wk, hw⟩ := hb.wuWorker.mp h
  refine ⟨c, e, s, i, wk, hw, ?_⟩
  cases hwr : storeWritable b wk.key none with
  | true => exact Or.inl ⟨_, _, by simp only [workerAct, hw, hwr]; rfl, rfl⟩
  | false =>
    obtain ⟨j, _, hj⟩ := blocked_by_guard hb hwr
    exact Or.inr ⟨rfl, j, hj⟩

/-- (b) the sweeper, owning `weight_used`, stands at `store.remove`: enabled for every oracle, releases the lock —
    unless a client keeps a `get_ref` read guard on that store shard (CHANGED with the model, as (a)). -/
theorem C18_layerB_sweeper_holder_enabled {b : BState} (hb : BInv b) (h : b.wuOwner = some .sweeper) (v : Option Nat) :
    ∃ n sh r id wk, b.sw = .store n sh r id wk ∧
      ((∃ b', sweeperAct b v = .ok b' ∧ b'.wuOwner = none) ∨
       (storeWritable b wk.key none = false ∧ ∃ j, HoldsGuard b j (storeShardOf b wk.key))) := by
  obtain ⟨n, sh, r, i, wk, hs⟩ := hb.wuSweeper.mp h
  refine ⟨n, sh, r, i, wk, hs, ?_⟩
  cases hwr : storeWritable b wk.key none with
  | true =>
    refine Or.inl ⟨_, by simp only [sweeperAct, hs, hwr]; rfl, ?_⟩
    unfold sweepNext; split <;> rfl
  | false =>
    obtain ⟨j, _, hj⟩ := blocked_by_guard hb hwr
    exact Or.inr ⟨rfl, j, hj⟩

/-- (c) while the sweeper owns an expiry shard, its next action is enabled — for every `visit` that names an
    unvisited entry (and there is one) at `sweep.entry`, always at `kw.remove`, at `wu.sub` unless the WORKER owns
    `weight_used` (who by (a) can move on and then frees it), and at `store.remove` unless a client keeps a `get_ref`
    guard on that store shard (who by (d) can always move on and then drops it). -/
theorem C18_layerB_shard_holder_enabled {b : BState} (hb : BInv b) (sh : Nat) (h : b.ttlOwner = some sh) :
    (∃ now rest, b.sw = .entry now sh rest ∧ rest ≠ [] ∧
        ∀ id e, (id, e) ∈ rest → ∃ b', sweeperAct b (some id) = .ok b') ∨
    (∃ now rest id, b.sw = .kwRemove now sh rest id ∧ ∀ v, ∃ b', sweeperAct b v = .ok b') ∨
    (∃ now rest id wk, b.sw = .sub now sh rest id wk ∧
        ((b.wuOwner = none ∧ ∀ v, ∃ b', sweeperAct b v = .ok b') ∨ b.wuOwner = some .worker)) ∨
    (∃ now rest id wk, b.sw = .store now sh rest id wk ∧
        ((∀ v, ∃ b', sweeperAct b v = .ok b') ∨ ∃ j, HoldsGuard b j (storeShardOf b wk.key))) := by
  have hsh := hb.ttlSweeper.2 sh h
  cases hs : b.sw with
  | begin => simp [hs, SPc.shard?] at hsh
  | fin => simp [hs, SPc.shard?] at hsh
  | entry now sh' rest =>
    simp only [hs, SPc.shard?, Option.some.injEq] at hsh; subst hsh
    refine Or.inl ⟨now, rest, rfl, hb.sweepEntry _ _ _ hs, ?_⟩
    intro id e hmem
    have hsome : (rest.find? (fun p => p.1 == id)).isSome = true := by
      rw [List.find?_isSome]; exact ⟨(id, e), hmem, by simp⟩
    simp only [sweeperAct, hs]
    cases hf : rest.find? (fun p => p.1 == id) with
    | none => rw [hf] at hsome; cases hsome
    | some p =>
      obtain ⟨p1, p2⟩ := p
      simp only []
      split <;> exact ⟨_, rfl⟩
  | kwRemove now sh' rest id =>
    simp only [hs, SPc.shard?, Option.some.injEq] at hsh; subst hsh
    refine Or.inr (Or.inl ⟨now, rest, id, rfl, ?_⟩)
    intro v
    simp only [sweeperAct, hs]
    split
    · split <;> exact ⟨_, rfl⟩
    · exact ⟨_, rfl⟩
  | sub now sh' rest id wk =>
    simp only [hs, SPc.shard?, Option.some.injEq] at hsh; subst hsh
    refine Or.inr (Or.inr (Or.inl ⟨now, rest, id, wk, rfl, ?_⟩))
    cases ho : b.wuOwner with
    | none =>
      refine Or.inl ⟨rfl, fun v => ?_⟩
      simp only [sweeperAct, hs, wuFree, ho]
      exact ⟨_, rfl⟩
    | some t =>
      cases t with
      | worker => exact Or.inr rfl
      | sweeper =>
        obtain ⟨_, _, _, _, _, h'⟩ := hb.wuSweeper.mp ho
        rw [hs] at h'; cases h'
      | consumer => exact absurd ho (hb.wuClients 0).2
      | client i => exact absurd ho (hb.wuClients i).1
  | store now sh' rest id wk =>
    simp only [hs, SPc.shard?, Option.some.injEq] at hsh; subst hsh
    refine Or.inr (Or.inr (Or.inr ⟨now, rest, id, wk, rfl, ?_⟩))
    cases hwr : storeWritable b wk.key none with
    | true =>
      refine Or.inl fun v => ?_
      simp only [sweeperAct, hs, hwr]
      exact ⟨_, rfl⟩
    | false =>
      obtain ⟨j, _, hj⟩ := blocked_by_guard hb hwr
      exact Or.inr ⟨j, hj⟩

/-- C18 at action granularity: the parts together. -/
theorem C18_layerB_lock_progress {b : BState} (hb : BInv b) :
    (b.wuOwner = some .worker → ∀ o, (∃ r, workerAct b o = .ok r) ∨ ∃ j sh, HoldsGuard b j sh) ∧
    (b.wuOwner = some .sweeper → ∀ v, (∃ b', sweeperAct b v = .ok b') ∨ ∃ j sh, HoldsGuard b j sh) ∧
    (∀ sh, b.ttlOwner = some sh →
      (∃ v b', sweeperAct b v = .ok b') ∨
      (b.wuOwner = some .worker ∧
        ∀ o, (∃ b1 o1, workerAct b o = .ok (b1, o1) ∧ b1.wuOwner = none) ∨ ∃ j sh, HoldsGuard b j sh) ∨
      (∃ j sh, HoldsGuard b j sh)) ∧
    (∀ j sh, HoldsGuard b j sh → ∀ (o : Oracle) (idx : Nat) (rest : List Nat), o.pool = idx :: rest →
      idx < b.g.pool.length → ∃ r, clientAct b j o = .ok r) := by
  refine ⟨?_, ?_, ?_, ?_⟩
  · intro h o
    obtain ⟨_, _, _, _, wk, _, ⟨b', o', h', _⟩ | ⟨_, j, hj⟩⟩ := C18_layerB_worker_holder_enabled hb h o
    · exact Or.inl ⟨_, h'⟩
    · exact Or.inr ⟨j, _, hj⟩
  · intro h v
    obtain ⟨_, _, _, _, wk, _, ⟨b', h', _⟩ | ⟨_, j, hj⟩⟩ := C18_layerB_sweeper_holder_enabled hb h v
    · exact Or.inl ⟨_, h'⟩
    · exact Or.inr ⟨j, _, hj⟩
  · intro sh h
    rcases C18_layerB_shard_holder_enabled hb sh h with ⟨now, rest, hs, hne, hall⟩ | ⟨_, _, _, _, hall⟩ |
      ⟨_, _, _, _, _, ⟨_, hall⟩ | hw⟩ | ⟨_, _, _, _, _, hall | ⟨j, hj⟩⟩
    · cases rest with
      | nil => exact absurd rfl hne
      | cons p rest =>
        obtain ⟨b', h'⟩ := hall p.1 p.2 (by simp)
        exact Or.inl ⟨_, _, h'⟩
    · obtain ⟨b', h'⟩ := hall none; exact Or.inl ⟨_, _, h'⟩
    · obtain ⟨b', h'⟩ := hall none; exact Or.inl ⟨_, _, h'⟩
    · refine Or.inr (Or.inl ⟨hw, fun o => ?_⟩)
      obtain ⟨_, _, _, _, wk, _, h' | ⟨_, j, hj⟩⟩ := C18_layerB_worker_holder_enabled hb hw o
      · exact Or.inl h'
      · exact Or.inr ⟨j, _, hj⟩
    · obtain ⟨b', h'⟩ := hall none; exact Or.inl ⟨_, _, h'⟩
    · exact Or.inr (Or.inr ⟨j, _, hj⟩)
  · intro j sh hj o idx rest ho hidx
    obtain ⟨b', o', h', _⟩ := C18_layerB_guard_holder_enabled' hj o ho hidx
    exact ⟨_, h'⟩

/-- No cycle of lock waits, at any reachable state of any interleaving:
    * the owner of `weight_used` is the worker at `evStore` or the sweeper at `store` — never a client, never the
      consumer — and the action it stands at waits, if at all, for a `get_ref` read guard on one store shard;
    * the owner of an expiry-shard lock (the sweeper) waits, if at all, for `weight_used` held by the WORKER, or for
      such a read guard;
    * the holder of a read guard (a client at `pool.add`) waits for nothing: it is enabled for every legal oracle. -/
theorem C18_layerB_no_lock_wait_cycle {cfg : Cfg} {now : Nat} {seeds : List Nat} {clients : Nat} {b : BState}
    (h : Reach cfg now seeds clients b) :
    (b.wuOwner = some .worker → (∃ c e s i wk, b.w = .evStore c e s i wk) ∧
      ∀ o, (∃ r, workerAct b o = .ok r) ∨ ∃ j sh, HoldsGuard b j sh) ∧
    (b.wuOwner = some .sweeper → (∃ n sh r i wk, b.sw = .store n sh r i wk) ∧
      ∀ v, (∃ b', sweeperAct b v = .ok b') ∨ ∃ j sh, HoldsGuard b j sh) ∧
    (∀ i, b.wuOwner ≠ some (.client i)) ∧ b.wuOwner ≠ some .consumer ∧
    (∀ sh, b.ttlOwner = some sh → (∀ v, sweeperAct b v = .error "not enabled: weight_used is locked") →
      b.wuOwner = some .worker) ∧
    (∀ sh, b.ttlOwner = some sh → (∀ v, sweeperAct b v = .error "not enabled: the store shard is read-locked") →
      ∃ j sh', HoldsGuard b j sh') ∧
    (∀ j sh, HoldsGuard b j sh → ∀ (o : Oracle) (idx : Nat) (rest : List Nat), o.pool = idx :: rest →
      idx < b.g.pool.length → ∃ r, clientAct b j o = .ok r) := by
  have hb := binv_reach h
  obtain ⟨h1, h2, h3, h4⟩ := C18_layerB_lock_progress hb
  refine ⟨fun h => ⟨hb.wuWorker.mp h, h1 h⟩, fun h => ⟨hb.wuSweeper.mp h, h2 h⟩, fun i => (hb.wuClients i).1,
    (hb.wuClients 0).2, ?_, ?_, h4⟩
  · intro sh hsh hblocked
    rcases C18_layerB_shard_holder_enabled hb sh hsh with ⟨now, rest, hs, hne, hall⟩ | ⟨_, _, _, _, hall⟩ |
      ⟨_, _, _, _, _, ⟨_, hall⟩ | hw⟩ | ⟨_, _, _, wk, hs, _⟩
    · cases rest with
      | nil => exact absurd rfl hne
      | cons p rest =>
        obtain ⟨b', h'⟩ := hall p.1 p.2 (by simp)
        rw [hblocked] at h'; cases h'
    · obtain ⟨b', h'⟩ := hall none; rw [hblocked] at h'; cases h'
    · obtain ⟨b', h'⟩ := hall none; rw [hblocked] at h'; cases h'
    · exact hw
    · have := hblocked none
      simp only [sweeperAct, hs] at this
      split at this <;> simp at this
  · intro sh hsh hblocked
    rcases C18_layerB_shard_holder_enabled hb sh hsh with ⟨now, rest, hs, hne, hall⟩ | ⟨_, _, _, _, hall⟩ |
      ⟨_, _, _, _, hs, _⟩ | ⟨_, _, _, _, _, hall | ⟨j, hj⟩⟩
    · cases rest with
      | nil => exact absurd rfl hne
      | cons p rest =>
        obtain ⟨b', h'⟩ := hall p.1 p.2 (by simp)
        rw [hblocked] at h'; cases h'
    · obtain ⟨b', h'⟩ := hall none; rw [hblocked] at h'; cases h'
    · have := hblocked none
      simp only [sweeperAct, hs] at this
      split at this <;> simp at this
    · obtain ⟨b', h'⟩ := hall none; rw [hblocked] at h'; cases h'
    · exact ⟨j, _, hj⟩

/-- (e) A `shutdown()` in progress is never blocked for ever by a lock.  Whatever position of `CacheD::shutdown` client
    `i` stands at, its next action is enabled — except
      * at the two sends, while the queue has no room (a matter of the queues' consumers, outside the lock argument);
      * at `store_clear`, while ANOTHER client keeps a `get_ref` read guard — that client is enabled ((d));
      * at `wu_zero`, while the worker or the sweeper owns `weight_used` — the owner is enabled or waits for a guard
        holder ((a), (b));
      * at `ttl_clear`, while the sweeper owns an expiry shard — the sweeper makes progress ((c)) and drops the lock
        after a bounded number of its own actions (`C18_layerB_shard_lock_bounded`). -/
theorem C18_layerB_shutdown_progress {b : BState} (hb : BInv b) {i : Nat} {pc : CPc} (hpc : b.cl[i]? = some pc)
    (hsd : pc = .shutCas ∨ pc.afterCas = true) (o : Oracle) :
    (∃ r, clientAct b i o = .ok r) ∨
    (pc = .shutSendCmd ∧ b.g.worker ≠ .dead ∧ b.g.queue.length ≥ b.g.cfg.cmdCap) ∨
    (pc = .shutSendBuf ∧ b.g.consumerAlive = true ∧ b.g.bufq.length ≥ b.g.cfg.bufChanCap) ∨
    (pc = .shutStoreClear ∧ ∃ j sh, j ≠ i ∧ HoldsGuard b j sh) ∨
    (pc = .shutWuZero ∧ (b.wuOwner = some .worker ∨ b.wuOwner = some .sweeper)) ∨
    (pc = .shutTtlClear ∧ ∃ sh, b.ttlOwner = some sh) := by
  rcases hsd with rfl | hsd
  · refine Or.inl ?_
    simp only [clientAct, hpc]
    split <;> exact ⟨_, rfl⟩
  cases pc with
  | shutSendCmd =>
    by_cases hd : b.g.worker = .dead
    · exact Or.inl (by simp only [clientAct, hpc, hd, if_true]; exact ⟨_, rfl⟩)
    · by_cases hq : b.g.queue.length ≥ b.g.cfg.cmdCap
      · exact Or.inr (Or.inl ⟨rfl, hd, hq⟩)
      · exact Or.inl (by simp only [clientAct, hpc, hd, hq, if_false]; exact ⟨_, rfl⟩)
  | shutSendBuf =>
    cases ha : b.g.consumerAlive with
    | false => exact Or.inl (by simp only [clientAct, hpc, ha]; exact ⟨_, rfl⟩)
    | true =>
      by_cases hq : b.g.bufq.length ≥ b.g.cfg.bufChanCap
      · exact Or.inr (Or.inr (Or.inl ⟨rfl, rfl, hq⟩))
      · exact Or.inl (by simp only [clientAct, hpc, ha, hq]; exact ⟨_, rfl⟩)
  | shutConsumerFlag => exact Or.inl (by simp only [clientAct, hpc]; exact ⟨_, rfl⟩)
  | shutTickerFlag => exact Or.inl (by simp only [clientAct, hpc]; exact ⟨_, rfl⟩)
  | shutStoreClear =>
    cases hr : b.storeReaders.any (fun p => p.1 != i) with
    | false => exact Or.inl (by simp only [clientAct, hpc, hr]; exact ⟨_, rfl⟩)
    | true =>
      refine Or.inr (Or.inr (Or.inr (Or.inl ⟨rfl, ?_⟩)))
      simp only [List.any_eq_true, bne_iff_ne, ne_eq] at hr
      obtain ⟨p, hp, hne⟩ := hr
      obtain ⟨k, v, hcl, hsh⟩ := hb.guards.1 p hp
      exact ⟨p.1, p.2, hne, k, v, hcl, hsh.symm, hp⟩
  | shutKwClear => exact Or.inl (by simp only [clientAct, hpc]; exact ⟨_, rfl⟩)
  | shutWuZero =>
    cases ho : b.wuOwner with
    | none => exact Or.inl (by simp only [clientAct, hpc, wuFree, ho]; exact ⟨_, rfl⟩)
    | some t =>
      cases t with
      | worker => exact Or.inr (Or.inr (Or.inr (Or.inr (Or.inl ⟨rfl, Or.inl rfl⟩))))
      | sweeper => exact Or.inr (Or.inr (Or.inr (Or.inr (Or.inl ⟨rfl, Or.inr rfl⟩))))
      | consumer => exact absurd ho (hb.wuClients 0).2
      | client j => exact absurd ho (hb.wuClients j).1
  | shutAfClear => exact Or.inl (by simp only [clientAct, hpc]; exact ⟨_, rfl⟩)
  | shutStatsClear => exact Or.inl (by simp only [clientAct, hpc]; exact ⟨_, rfl⟩)
  | shutTtlClear =>
    cases ho : b.ttlOwner with
    | none => exact Or.inl (by simp only [clientAct, hpc, ho]; exact ⟨_, rfl⟩)
    | some sh => exact Or.inr (Or.inr (Or.inr (Or.inr (Or.inr ⟨rfl, sh, rfl⟩))))
  | _ => simp [CPc.afterCas] at hsd

/-- (e), with (a)–(d) folded in: whenever a `shutdown()` in progress is not enabled, either it waits for room in one
    of the two queues, or ANOTHER thread is enabled whose action is what it (directly or indirectly) waits for: the
    worker (for every oracle), the sweeper (for some visit), or a client keeping a `get_ref` guard (enabled for
    every legal oracle by `C18_layerB_guard_holder_enabled'`).  No lock ever blocks a shutdown for good. -/
theorem C18_layerB_shutdown_never_deadlocked {b : BState} (hb : BInv b) {i : Nat} {pc : CPc}
    (hpc : b.cl[i]? = some pc) (hsd : pc = .shutCas ∨ pc.afterCas = true) (o : Oracle) :
    (∃ r, clientAct b i o = .ok r) ∨
    (pc = .shutSendCmd ∧ b.g.worker ≠ .dead ∧ b.g.queue.length ≥ b.g.cfg.cmdCap) ∨
    (pc = .shutSendBuf ∧ b.g.consumerAlive = true ∧ b.g.bufq.length ≥ b.g.cfg.bufChanCap) ∨
    (∀ ow, ∃ r, workerAct b ow = .ok r) ∨ (∃ v b', sweeperAct b v = .ok b') ∨
    (∃ j sh, j ≠ i ∧ HoldsGuard b j sh) := by
  have hne : ∀ j sh, HoldsGuard b j sh → j ≠ i := by
    intro j sh ⟨k, v, hj, _, _⟩ e
    subst e
    rw [hpc] at hj; cases hj
    rcases hsd with h | h <;> cases h
  by_cases hg : ∃ j sh, j ≠ i ∧ HoldsGuard b j sh
  · exact Or.inr (Or.inr (Or.inr (Or.inr (Or.inr hg))))
  have hno : ∀ j sh, ¬ HoldsGuard b j sh := fun j sh h => hg ⟨j, sh, hne j sh h, h⟩
  obtain ⟨h1, h2, h3, _⟩ := C18_layerB_lock_progress hb
  rcases C18_layerB_shutdown_progress hb hpc hsd o with h | h | h | ⟨_, j, sh, hj, hh⟩ | ⟨_, hw | hs⟩ | ⟨_, sh, hsh⟩
  · exact Or.inl h
  · exact Or.inr (Or.inl h)
  · exact Or.inr (Or.inr (Or.inl h))
  · exact absurd hh (hno j sh)
  · refine Or.inr (Or.inr (Or.inr (Or.inl fun ow => ?_)))
    rcases h1 hw ow with h | ⟨j, sh, h⟩
    · exact h
    · exact absurd h (hno j sh)
  · refine Or.inr (Or.inr (Or.inr (Or.inr (Or.inl ?_))))
    rcases h2 hs none with h | ⟨j, sh, h⟩
    · exact ⟨none, h⟩
    · exact absurd h (hno j sh)
  · rcases h3 sh hsh with h | ⟨hw, _⟩ | ⟨j, sh', h⟩
    · exact Or.inr (Or.inr (Or.inr (Or.inr (Or.inl h))))
    · refine Or.inr (Or.inr (Or.inr (Or.inl fun ow => ?_)))
      rcases h1 hw ow with h | ⟨j, sh', h⟩
      · exact h
      · exact absurd h (hno j sh')
    · exact absurd h (hno j sh')

/-- how many sweeper actions are left before the shard lock is dropped -/
def swMeasure : SPc → Nat
  | .entry _ _ rest => 4 * rest.length
  | .kwRemove _ _ rest _ => 4 * rest.length + 3
  | .sub _ _ rest _ _ => 4 * rest.length + 2
  | .store _ _ rest _ _ => 4 * rest.length + 1
  | _ => 0

/-- The shard lock is held for a bounded number of sweeper actions: every sweeper action taken while a shard is
    owned either drops the lock or strictly lowers `swMeasure` (so no client waits for ever for a shard lock,
    given that the sweeper is scheduled — and by `C18_layerB_shard_holder_enabled` it is never blocked for good). -/
theorem C18_layerB_shard_lock_bounded {b b' : BState} {v : Option Nat} {sh : Nat} (hb : BInv b)
    (hown : b.ttlOwner = some sh) (h : sweeperAct b v = .ok b') :
    b'.ttlOwner = none ∨ (b'.ttlOwner = some sh ∧ swMeasure b'.sw < swMeasure b.sw) := by
  have hsh := hb.ttlSweeper.2 sh hown
  have hfilter : ∀ (rest : List (Nat × Nat)) (id : Nat) (p : Nat × Nat),
      rest.find? (fun p => p.1 == id) = some p → (rest.filter (fun p => p.1 != id)).length < rest.length := by
    intro rest id p hf
    rw [List.length_filter_lt_length_iff_exists]
    exact ⟨p, List.mem_of_find?_eq_some hf, by simpa using List.find?_some hf⟩
  have ht := sweeperAct_trans h
  cases ht with
  | begin _ hs => simp [hs, SPc.shard?] at hsh
  | fin hs => simp [hs, SPc.shard?] at hsh
  | entryExpired now shard rest id p hf hs =>
    have := hfilter rest id p hf
    exact Or.inr ⟨hown, by simp only [hs, swMeasure]; omega⟩
  | entryKeep now shard rest id p hf hs =>
    have := hfilter rest id p hf
    unfold sweepNext
    split
    · exact Or.inl rfl
    · exact Or.inr ⟨hown, by simp only [hs, swMeasure]; omega⟩
  | kwRemoveSome now shard rest id wk hg hs => exact Or.inr ⟨hown, by simp only [hs, swMeasure]; omega⟩
  | kwRemoveNone now shard rest id hg hs =>
    unfold sweepNext
    split
    · exact Or.inl rfl
    · exact Or.inr ⟨hown, by simp only [hs, swMeasure]; omega⟩
  | kwRemoveSkip now shard rest id wk hg hs =>
    unfold sweepNext
    split
    · exact Or.inl rfl
    · exact Or.inr ⟨hown, by simp only [hs, swMeasure]; omega⟩
  | sub now shard rest id wk hf hs => exact Or.inr ⟨hown, by simp only [hs, swMeasure]; omega⟩
  | store now shard rest id wk hs =>
    unfold sweepNext
    split
    · exact Or.inl rfl
    · exact Or.inr ⟨hown, by simp only [hs, swMeasure]; omega⟩

/-! ## C01  the upper bound -/

/-- the worker has CHECKED that there is room for the put in its hands, and nobody else can use the room up
    (every other thread only subtracts) -/
def BBound (b : BState) : Prop :=
  b.g.adm.used + (match b.w with
    | .insert c => c.w
    | .add c => c.w
    | _ => 0) ≤ b.g.adm.max

/-- the worker's `UpdateWeight` raises the weight of a charged id by more than the free space: the recorded defect
    (`Cached.C01_counterexample` is the Layer A witness) -/
def UnsafeUpdate (b : BState) (a : Act) : Prop :=
  a = .worker ∧ ∃ id w h, b.w = .update id w h ∧
    (∃ wk, b.g.adm.kw.get? id = some wk ∧ w - wk.weight > b.g.adm.max - b.g.adm.used)

theorem bbound_wtrans {b b' : BState} (hb : BInv b) (hrun : b.g.shutting = false) (hbd : BBound b) (h : WTrans b b')
    (hsafe : ∀ id w hh wk, b.w = .update id w hh → b.g.adm.kw.get? id = some wk →
      w - wk.weight ≤ b.g.adm.max - b.g.adm.used) : BBound b' := by
  have hstale := (hb.acct hrun).staleSpace
  clear hrun
  have hvict := hb.pendingPos.2.2.1
  unfold BBound at hbd ⊢
  cases h
  case updateApplied id w hh wk hw hfree hg =>
    have := hsafe id w hh wk hw hg
    simp [finishCmd, hw] at hbd ⊢; omega
  all_goals simp [finishCmd, rejectCmd, ttlPut, ttlDelete, WPc.space?, WPc.victim?, *] at *
  all_goals omega

@[simp] theorem sweepNext_g (b : BState) (n s : Nat) (r : List (Nat × Nat)) : (sweepNext b n s r).g = b.g := by
  unfold sweepNext; split <;> rfl

@[simp] theorem sweepNext_w (b : BState) (n s : Nat) (r : List (Nat × Nat)) : (sweepNext b n s r).w = b.w := by
  unfold sweepNext; split <;> rfl

theorem bbound_strans {b b' : BState} (hb : BInv b) (hbd : BBound b) (h : STrans b b') : BBound b' := by
  have hvict := hb.pendingPos.2.2.2
  unfold BBound at hbd ⊢
  cases h
  all_goals simp [SPc.victim?, *] at *
  all_goals omega

theorem BBound.frame {b b' : BState} (hbd : BBound b) (hadm : b'.g.adm = b.g.adm) (hw : b'.w = b.w) : BBound b' := by
  unfold BBound at hbd ⊢
  rw [hadm, hw]; exact hbd

/-- PARTIAL (the statement without the side condition is false of the code: the worker's `UpdateWeight` applies any
    increase without looking at the limit — `Cached.C01_counterexample`).  While the cache is running (`hrun`: the
    state AFTER the action is still running, hence so is the state before), every action of every thread preserves
    the bound, except the worker's `UpdateWeight` whose increase exceeds the free space. -/
theorem C01_layerB_bound_partial {b b' : BState} {a : Act} {o o' : Oracle} (hb : BInv b) (hbd : BBound b)
    (h : stepB b a o = .ok (b', o')) (hsafe : ¬ UnsafeUpdate b a) (hrun : b'.g.shutting = false) : BBound b' := by
  have hrun0 : b.g.shutting = false := stepB_running_before h hrun
  cases a with
  | issue i r =>
    simp only [stepB] at h
    split at h
    · rename_i b1 hi
      simp only [Except.ok.injEq, Prod.mk.injEq] at h; obtain ⟨rfl, rfl⟩ := h
      unfold issue at hi
      split at hi
      · simp only [Except.ok.injEq] at hi; subst hi; exact hbd.frame rfl rfl
      · cases hi
    · cases h
  | client i =>
    obtain ⟨hw, _⟩ := ctrans_frame (clientAct_trans h)
    rcases ctrans_adm (clientAct_trans h) with hadm | ⟨pc, hpc, ha, _⟩
    · exact hbd.frame hadm hw
    · rw [hb.shutFlag i pc hpc ha] at hrun0; cases hrun0
  | worker =>
    refine bbound_wtrans hb hrun0 hbd (workerAct_trans h) ?_
    intro id w hh wk hw hg
    by_cases hlt : w - wk.weight > b.g.adm.max - b.g.adm.used
    · exact absurd ⟨rfl, id, w, hh, hw, wk, hg, hlt⟩ hsafe
    · omega
  | sweeper v =>
    simp only [stepB] at h
    split at h
    · rename_i b1 hs
      simp only [Except.ok.injEq, Prod.mk.injEq] at h; obtain ⟨rfl, rfl⟩ := h
      exact bbound_strans hb hbd (sweeperAct_trans hs)
    · cases h
  | consumer =>
    simp only [stepB] at h
    split at h
    · rename_i g' out o1 hc
      simp only [Except.ok.injEq, Prod.mk.injEq] at h; obtain ⟨rfl, rfl⟩ := h
      exact hbd.frame (by rw [consumerStep_frame hc]) rfl
    · cases h
  | advance d =>
    simp only [stepB, Except.ok.injEq, Prod.mk.injEq] at h; obtain ⟨rfl, rfl⟩ := h
    exact hbd.frame rfl rfl

/-- interleavings in which no worker `UpdateWeight` action exceeds the free space -/
inductive ReachSafe (cfg : Cfg) (now : Nat) (seeds : List Nat) (clients : Nat) : BState → Prop where
  | init (shardMap : List (Nat × Nat)) :
      ReachSafe cfg now seeds clients { BState.init cfg now seeds clients with storeShard := shardMap }
  | step {b b' : BState} {a : Act} {o o' : Oracle} :
      ReachSafe cfg now seeds clients b → stepB b a o = .ok (b', o') → ¬ UnsafeUpdate b a →
      ReachSafe cfg now seeds clients b'

theorem ReachSafe.reach {cfg : Cfg} {now : Nat} {seeds : List Nat} {clients : Nat} {b : BState}
    (h : ReachSafe cfg now seeds clients b) : Reach cfg now seeds clients b := by
  induction h with
  | init sm => exact .init sm
  | step _ hs _ ih => exact .step ih hs

/-- no action changes the configuration -/
theorem stepB_cfg {b b' : BState} {a : Act} {o o' : Oracle} (h : stepB b a o = .ok (b', o')) : b'.g.cfg = b.g.cfg := by
  cases a with
  | issue i r =>
    simp only [stepB] at h
    split at h
    · rename_i b1 hi
      simp only [Except.ok.injEq, Prod.mk.injEq] at h; obtain ⟨rfl, rfl⟩ := h
      unfold issue at hi
      split at hi
      · simp only [Except.ok.injEq] at hi; subst hi; rfl
      · cases hi
    · cases h
  | client i => exact (ctrans_frame (clientAct_trans h)).2.2.2.2.2.1
  | worker => exact wtrans_cfg (workerAct_trans h)
  | sweeper v =>
    simp only [stepB] at h
    split at h
    · rename_i b1 hs
      simp only [Except.ok.injEq, Prod.mk.injEq] at h; obtain ⟨rfl, rfl⟩ := h
      exact (strans_frame (sweeperAct_trans hs)).2.2.2.2.1
    · cases h
  | consumer =>
    simp only [stepB] at h
    split at h
    · rename_i g' out o1 hc
      simp only [Except.ok.injEq, Prod.mk.injEq] at h; obtain ⟨rfl, rfl⟩ := h
      show g'.cfg = b.g.cfg
      rw [consumerStep_frame hc]
    · cases h
  | advance d =>
    simp only [stepB, Except.ok.injEq, Prod.mk.injEq] at h; obtain ⟨rfl, rfl⟩ := h
    rfl

theorem reach_cfg {cfg : Cfg} {now : Nat} {seeds : List Nat} {clients : Nat} {b : BState}
    (h : Reach cfg now seeds clients b) : b.g.cfg = cfg := by
  induction h with
  | init _ => rfl
  | step _ hs ih => rw [stepB_cfg hs, ih]

theorem bbound_init (cfg : Cfg) (now : Nat) (seeds : List Nat) (clients : Nat) (h : 0 ≤ cfg.maxWeight) :
    BBound (BState.init cfg now seeds clients) := by
  simp [BBound, BState.init, State.init, h]

theorem reachSafe_bbound {cfg : Cfg} {now : Nat} {seeds : List Nat} {clients : Nat} {b : BState}
    (h : ReachSafe cfg now seeds clients b) (hmax : 0 ≤ cfg.maxWeight) (hrun : b.g.shutting = false) : BBound b := by
  induction h with
  | init _ => exact bbound_init cfg now seeds clients hmax
  | step hr hs hsafe ih =>
    exact C01_layerB_bound_partial (binv_reach hr.reach) (ih (stepB_running_before hs hrun)) hs hsafe hrun

/-- PARTIAL (side condition `ReachSafe`, see `C01_layerB_bound_partial`): along every interleaving none of whose worker
    `UpdateWeight` actions exceeds the free space, the total lies within `[0, maxWeight]` AT EVERY INSTANT at which
    the cache is still running. -/
theorem C01_layerB_bound_partial' {cfg : Cfg} {now : Nat} {seeds : List Nat} {clients : Nat} {b : BState}
    (h : ReachSafe cfg now seeds clients b) (hmax : 0 ≤ cfg.maxWeight) (hrun : b.g.shutting = false) :
    0 ≤ b.g.adm.used ∧ b.g.adm.used ≤ cfg.maxWeight := by
  have hb := binv_reach h.reach
  refine ⟨hb.used_nonneg hrun, ?_⟩
  have hbd := reachSafe_bbound h hmax hrun
  have hm : b.g.adm.max = cfg.maxWeight := by rw [hb.maxFixed, reach_cfg h.reach]
  unfold BBound at hbd
  rw [hm] at hbd
  have hpos := hb.pendingPos
  split at hbd
  · rename_i c hc; have := (hpos.2.1 c hc).1; omega
  · rename_i c hc; have := hpos.1 c hc; omega
  · omega

/-! ## C04  a soft-deleted entry never comes back — per atomic action -/

/-- what one action may do to the soft-deleted entries of the store -/
def SoftStep (st st' : AMap Nat Entry) : Prop :=
  ∀ k e, st.get? k = some e → e.soft = true →
    st'.get? k = none ∨ ∃ e', st'.get? k = some e' ∧ (e'.soft = true ∨ e'.id ≠ e.id)

theorem SoftStep.refl (st : AMap Nat Entry) : SoftStep st st :=
  fun _ e h hs => Or.inr ⟨e, h, Or.inl hs⟩

theorem SoftStep.del (st : AMap Nat Entry) (x : Nat) : SoftStep st (st.del x) := by
  intro k e h hs
  rw [AMap.get?_del]
  split
  · exact Or.inl rfl
  · exact Or.inr ⟨e, h, Or.inl hs⟩

/-- overwriting the entry of `x` by one that is soft whenever the old one was -/
theorem SoftStep.setKeep (st : AMap Nat Entry) (x : Nat) (e0 e1 : Entry) (h0 : st.get? x = some e0)
    (h1 : e0.soft = true → e1.soft = true) : SoftStep st (st.set x e1) := by
  intro k e h hs
  rw [AMap.get?_set]
  split
  · rename_i hx; subst hx
    rw [h0] at h; cases h
    exact Or.inr ⟨e1, rfl, Or.inl (h1 hs)⟩
  · exact Or.inr ⟨e, h, Or.inl hs⟩

/-- storing an entry under an id no entry carries -/
theorem SoftStep.setFresh (st : AMap Nat Entry) (x : Nat) (e1 : Entry) (h1 : ∀ k e, st.get? k = some e → e.id ≠ e1.id) :
    SoftStep st (st.set x e1) := by
  intro k e h hs
  rw [AMap.get?_set]
  split
  · exact Or.inr ⟨e1, rfl, Or.inr (fun he => h1 k e h he.symm)⟩
  · exact Or.inr ⟨e, h, Or.inl hs⟩

theorem soft_wtrans {b b' : BState} (hb : BInv b) (h : WTrans b b') : SoftStep b.g.store b'.g.store := by
  have hfresh : ∀ c, b.w = .storePut c → ∀ k e, b.g.store.get? k = some e → e.id ≠ c.id := by
    intro c hc k e hg he
    have hu : e.id ∈ usedIds b := by
      rw [mem_usedIds]; exact Or.inl ⟨(k, e), AMap.mem_of_get? hg, rfl⟩
    have := (hb.freshIds.2.2.2.2.1 e.id hu).1
    rw [he] at this
    simp [occ, hc, WPc.freshId?] at this
  cases h
  case evStore => simp only [applyEvict_store]; exact SoftStep.del _ _
  case storePutPlain c hw ht _ => exact SoftStep.setFresh _ _ _ (hfresh c hw)
  case storePutTtl c t e hw ht _ => exact SoftStep.setFresh _ _ _ (hfresh c hw)
  case delStoreSome => exact SoftStep.del _ _
  all_goals exact SoftStep.refl _

theorem soft_strans {b b' : BState} (h : STrans b b') : SoftStep b.g.store b'.g.store := by
  cases h
  case store =>
    simp only [sweepNext_g, Cached.applyEvictId_store]
    split
    · exact SoftStep.del _ _
    · exact SoftStep.refl _
  all_goals simp only [sweepNext_g]
  all_goals exact SoftStep.refl _

theorem soft_ctrans {b b' : BState} {i : Nat} (h : CTrans b i b') : SoftStep b.g.store b'.g.store := by
  cases h
  case getPool hp => rw [poolAdd_frame hp]; exact SoftStep.refl _
  case refPool hp => rw [poolAdd_frame hp]; exact SoftStep.refl _
  case shutLocal hg => rw [hg]; exact SoftStep.refl _
  case mgetStep hg => rw [hg]; exact SoftStep.refl _
  case mgetFin hg => rw [hg]; exact SoftStep.refl _
  case shutStoreClear => exact fun _ _ _ _ => Or.inl rfl
  case delMark k hpc _ =>
    simp only [setClient]
    split
    · rename_i e he; exact SoftStep.setKeep _ _ e _ he (fun _ => rfl)
    · exact SoftStep.refl _
  case upUpdate k v w ttl rm e ne uw hpc he _ => exact SoftStep.setKeep _ _ e _ he (fun h => h)
  case upAfterSame id uw old new hpc =>
    rcases upAfterIndex_spec b i id uw with ⟨_, h⟩ | ⟨_, _, h⟩ | h <;> rw [h] <;> exact SoftStep.refl _
  case upAfterPut pc id e uw _ _ _ =>
    rcases upAfterIndex_spec { b with g := ttlPut b.g id e } i id uw with ⟨_, h⟩ | ⟨_, _, h⟩ | h <;> rw [h] <;>
      exact SoftStep.refl _
  case upAfterDelete id e uw _ _ =>
    rcases upAfterIndex_spec { b with g := ttlDelete b.g id e } i id uw with ⟨_, h⟩ | ⟨_, _, h⟩ | h <;> rw [h] <;>
      exact SoftStep.refl _
  all_goals exact SoftStep.refl _

/-- C04 at action granularity: no atomic action of any thread turns a soft-deleted entry back into a live one;
    after the action the key is gone, or still soft-deleted, or held by a DIFFERENT entry (a later put). -/
theorem C04_layerB_soft_permanent {b b' : BState} {a : Act} {o o' : Oracle} (hb : BInv b)
    (h : stepB b a o = .ok (b', o')) {k : Nat} {e : Entry} (hk : b.g.store.get? k = some e) (hs : e.soft = true) :
    b'.g.store.get? k = none ∨ ∃ e', b'.g.store.get? k = some e' ∧ (e'.soft = true ∨ e'.id ≠ e.id) := by
  suffices hss : SoftStep b.g.store b'.g.store from hss k e hk hs
  cases a with
  | issue i r =>
    simp only [stepB] at h
    split at h
    · rename_i b1 hi
      simp only [Except.ok.injEq, Prod.mk.injEq] at h; obtain ⟨rfl, rfl⟩ := h
      unfold issue at hi
      split at hi
      · simp only [Except.ok.injEq] at hi; subst hi; exact SoftStep.refl _
      · cases hi
    · cases h
  | client i => exact soft_ctrans (clientAct_trans h)
  | worker => exact soft_wtrans hb (workerAct_trans h)
  | sweeper v =>
    simp only [stepB] at h
    split at h
    · rename_i b1 hs'
      simp only [Except.ok.injEq, Prod.mk.injEq] at h; obtain ⟨rfl, rfl⟩ := h
      exact soft_strans (sweeperAct_trans hs')
    · cases h
  | consumer =>
    simp only [stepB] at h
    split at h
    · rename_i g' out o1 hc
      simp only [Except.ok.injEq, Prod.mk.injEq] at h; obtain ⟨rfl, rfl⟩ := h
      show SoftStep b.g.store g'.store
      rw [consumerStep_frame hc]; exact SoftStep.refl _
    · cases h
  | advance d =>
    simp only [stepB, Except.ok.injEq, Prod.mk.injEq] at h; obtain ⟨rfl, rfl⟩ := h
    exact SoftStep.refl _

/-! ## C02  a read returns the value the store holds for THAT key at the read's `store.get` action -/

/-- The `store.get` action of a `get(k)`: a miss finishes the call with `None`; a hit moves on to `pool.add`
    carrying the value of the CURRENT, alive entry of `k` (the store itself is not changed). -/
theorem C02_layerB_get_store {b b' : BState} {i k : Nat} {o o' : Oracle} (hpc : b.cl[i]? = some (.getStore k))
    (h : clientAct b i o = .ok (b', o')) :
    ((∃ e, b.g.store.get? k = some e ∧ e.alive b.g.now = true ∧ b'.cl = b.cl.set i (.getPool k e.value) ∧
        b'.res = b.res) ∨
     ((∀ e, b.g.store.get? k = some e → e.alive b.g.now = false) ∧ b'.cl = b.cl.set i .idle ∧
        b'.res = b.res.set i (.value none :: b.res.getD i []))) ∧
    b'.g.store = b.g.store ∧ o' = o := by
  unfold clientAct at h
  simp only [hpc] at h
  split at h
  · rename_i e he
    split at h
    · rename_i ha
      simp only [Except.ok.injEq, Prod.mk.injEq] at h; obtain ⟨rfl, rfl⟩ := h
      exact ⟨Or.inl ⟨e, he, ha, rfl, rfl⟩, rfl, rfl⟩
    · rename_i ha
      simp only [Except.ok.injEq, Prod.mk.injEq] at h; obtain ⟨rfl, rfl⟩ := h
      refine ⟨Or.inr ⟨?_, rfl, rfl⟩, rfl, rfl⟩
      intro e' he'
      rw [he] at he'; cases he'
      simpa using ha
  · rename_i he
    simp only [Except.ok.injEq, Prod.mk.injEq] at h; obtain ⟨rfl, rfl⟩ := h
    refine ⟨Or.inr ⟨?_, rfl, rfl⟩, rfl, rfl⟩
    intro e' he'
    rw [he] at he'; cases he'

/-- The `pool.add` action of that `get(k)` finishes the call with exactly the value picked up at `store.get`. -/
theorem C02_layerB_get_pool {b b' : BState} {i k v : Nat} {o o' : Oracle} (hpc : b.cl[i]? = some (.getPool k v))
    (h : clientAct b i o = .ok (b', o')) :
    b'.cl = b.cl.set i .idle ∧ b'.res = b.res.set i (.value (some v) :: b.res.getD i []) := by
  unfold clientAct at h
  simp only [hpc] at h
  split at h
  · simp only [Except.ok.injEq, Prod.mk.injEq] at h; obtain ⟨rfl, rfl⟩ := h
    exact ⟨rfl, rfl⟩
  · cases h

/-- The `store.get` action of a `get_ref(k)`: a miss finishes the call with `None`; a hit takes the read guard of the
    key's store shard and moves on to `pool.add` carrying the value of the CURRENT, alive entry of `k`. -/
theorem C02_layerB_ref_store {b b' : BState} {i k : Nat} {o o' : Oracle} (hpc : b.cl[i]? = some (.refStore k))
    (h : clientAct b i o = .ok (b', o')) :
    ((∃ e, b.g.store.get? k = some e ∧ e.alive b.g.now = true ∧ b'.cl = b.cl.set i (.refPool k e.value) ∧
        b'.res = b.res ∧ b'.storeReaders = (i, storeShardOf b k) :: b.storeReaders) ∨
     ((∀ e, b.g.store.get? k = some e → e.alive b.g.now = false) ∧ b'.cl = b.cl.set i .idle ∧
        b'.res = b.res.set i (.value none :: b.res.getD i []) ∧ b'.storeReaders = b.storeReaders)) ∧
    b'.g.store = b.g.store ∧ o' = o := by
  unfold clientAct at h
  simp only [hpc] at h
  split at h
  · rename_i e he
    split at h
    · rename_i ha
      simp only [Except.ok.injEq, Prod.mk.injEq] at h; obtain ⟨rfl, rfl⟩ := h
      exact ⟨Or.inl ⟨e, he, ha, rfl, rfl, rfl⟩, rfl, rfl⟩
    · rename_i ha
      simp only [Except.ok.injEq, Prod.mk.injEq] at h; obtain ⟨rfl, rfl⟩ := h
      refine ⟨Or.inr ⟨?_, rfl, rfl, rfl⟩, rfl, rfl⟩
      intro e' he'
      rw [he] at he'; cases he'
      simpa using ha
  · rename_i he
    simp only [Except.ok.injEq, Prod.mk.injEq] at h; obtain ⟨rfl, rfl⟩ := h
    refine ⟨Or.inr ⟨?_, rfl, rfl, rfl⟩, rfl, rfl⟩
    intro e' he'
    rw [he] at he'; cases he'

/-- While client `i` keeps the guard, no other thread writes to that store shard — in particular the entry the
    reference points to is neither removed nor overwritten: every store write of another thread to a key of that
    shard is not enabled. -/
theorem C02_layerB_ref_guard_excludes_writers {b : BState} {i k v : Nat} (hb : BInv b)
    (hpc : b.cl[i]? = some (.refPool k v)) {k' : Nat} (hsh : storeShardOf b k' = storeShardOf b k)
    {t : Option Nat} (ht : t ≠ some i) : storeWritable b k' t = false := by
  have hmem := hb.guards.2.2 i k v hpc
  unfold storeWritable
  simp only [Bool.not_eq_false', List.any_eq_true, Bool.and_eq_true, beq_iff_eq, bne_iff_ne, ne_eq]
  exact ⟨_, hmem, hsh.symm, fun e => ht e.symm⟩

/-- Nobody but client `i` itself moves client `i`: between its `store.get` and its `pool.add` the value it carries
    cannot be touched by any other thread. -/
theorem other_threads_keep_pc {b b' : BState} {a : Act} {o o' : Oracle} {i : Nat}
    (h : stepB b a o = .ok (b', o')) (h1 : a ≠ .client i) (h2 : ∀ r, a ≠ .issue i r) : b'.cl[i]? = b.cl[i]? := by
  cases a with
  | issue j r =>
    have hne : j ≠ i := by intro e; subst e; exact h2 r rfl
    simp only [stepB] at h
    split at h
    · rename_i b1 hi
      simp only [Except.ok.injEq, Prod.mk.injEq] at h; obtain ⟨rfl, rfl⟩ := h
      unfold issue at hi
      split at hi
      · simp only [Except.ok.injEq] at hi; subst hi
        simp [setClient, List.getElem?_set_ne hne]
      · cases hi
    · cases h
  | client j =>
    have hne : j ≠ i := by intro e; subst e; exact h1 rfl
    obtain ⟨_, pc', _, hcl, _⟩ := ctrans_cl (clientAct_trans h)
    rw [hcl, List.getElem?_set_ne hne]
  | worker => rw [(wtrans_cl (workerAct_trans h)).1]
  | sweeper v =>
    simp only [stepB] at h
    split at h
    · rename_i b1 hs'
      simp only [Except.ok.injEq, Prod.mk.injEq] at h; obtain ⟨rfl, rfl⟩ := h
      rw [(strans_frame (sweeperAct_trans hs')).2.1]
    · cases h
  | consumer =>
    simp only [stepB] at h
    split at h
    · simp only [Except.ok.injEq, Prod.mk.injEq] at h; obtain ⟨rfl, rfl⟩ := h
      rfl
    · cases h
  | advance d =>
    simp only [stepB, Except.ok.injEq, Prod.mk.injEq] at h; obtain ⟨rfl, rfl⟩ := h
    rfl

/-- C02 at action granularity: the value a `get(k)` finally returns is the value of the entry that the store held
    for `k` — and that was alive — at the instant of the call's `store.get` action; never another key's. -/
theorem C02_layerB_read_current {b0 b1 b2 b3 : BState} {i k : Nat} {o0 o1 o2 o3 : Oracle}
    (hpc : b0.cl[i]? = some (.getStore k)) (hget : clientAct b0 i o0 = .ok (b1, o1))
    (hsame : b2.cl[i]? = b1.cl[i]?)      -- whatever the other threads did in between (`other_threads_keep_pc`)
    (hpool : clientAct b2 i o2 = .ok (b3, o3)) (hbusy : b1.cl[i]? ≠ some .idle) :
    ∃ e, b0.g.store.get? k = some e ∧ e.alive b0.g.now = true ∧
      b3.res = b2.res.set i (.value (some e.value) :: b2.res.getD i []) := by
  have hlt : i < b0.cl.length := by
    rcases Nat.lt_or_ge i b0.cl.length with h | h
    · exact h
    · rw [List.getElem?_eq_none h] at hpc; cases hpc
  rcases (C02_layerB_get_store hpc hget).1 with ⟨e, he, ha, hcl, _⟩ | ⟨_, hcl, _⟩
  · refine ⟨e, he, ha, ?_⟩
    have h2 : b2.cl[i]? = some (.getPool k e.value) := by
      rw [hsame, hcl, List.getElem?_set_self hlt]
    exact (C02_layerB_get_pool h2 hpool).2
  · exfalso
    apply hbusy
    rw [hcl, List.getElem?_set_self hlt]

/-! ### multi-key reads (`multi_get`, `multi_get_iterator`, `multi_get_map_iterator`)

  Each key of a multi-key read goes through `get`: a load of the shutdown flag (position `.mgetFlag false (k :: ks) acc
  iter`), `store.get` (position `.mgetStore k ks acc iter`) and, on a hit, `pool.add` (position `.mgetPool k v ks acc
  iter`); the iterators load the flag once more per key BEFORE calling `get` (`.mgetFlag true …`: `next()`), `multi_get`
  loads it once at its entry (`.mgetFlag true ks [] false`).  `acc` holds the results of the keys already done, `ks` the
  keys still to come.  Between any two of these actions — and between two keys — any other thread may run. -/

/-- moving on to the next key touches no shared state -/
@[simp] theorem mgetNext_g (b : BState) (i : Nat) (ks : List Nat) (acc : List (Option Nat)) (iter : Bool) :
    (mgetNext b i ks acc iter).g = b.g := by
  unfold mgetNext
  split <;> rfl

/-- the first action of a multi-key read touches no shared state -/
@[simp] theorem mgetStart_g (b : BState) (i : Nat) (ks : List Nat) (iter : Bool) :
    (mgetStart b i ks iter).g = b.g := by
  unfold mgetStart
  split <;> rfl

/-- a load of the flag changes no shared state (whatever it sees) -/
@[simp] theorem mgetFlagAct_g (b : BState) (i : Nat) (outer : Bool) (ks : List Nat) (acc : List (Option Nat))
    (iter : Bool) : (mgetFlagAct b i outer ks acc iter).g = b.g := by
  rcases mgetFlagAct_spec b i outer ks acc iter with ⟨_, e⟩ | ⟨_, _, _, _, _, e⟩ | ⟨_, _, _, _, _, e⟩ |
    ⟨_, _, _, _, _, e⟩ <;> rw [e]
  · rfl
  · rfl
  · exact mgetNext_g _ _ _ _ _
  · rfl

/-- the action at a flag load of a multi-key read, as an equation -/
theorem clientAct_mgetFlag {b b' : BState} {i : Nat} {outer : Bool} {ks : List Nat} {acc : List (Option Nat)}
    {iter : Bool} {o o' : Oracle} (hpc : b.cl[i]? = some (.mgetFlag outer ks acc iter))
    (h : clientAct b i o = .ok (b', o')) : b' = mgetFlagAct b i outer ks acc iter ∧ o' = o := by
  unfold clientAct at h
  simp only [hpc, Except.ok.injEq, Prod.mk.injEq] at h
  exact ⟨h.1.symm, h.2.symm⟩

/-- the first action of a multi-key read, as an equation (whatever the flag is) -/
theorem clientAct_mgetStart {b b' : BState} {i : Nat} {ks : List Nat} {iter : Bool} {o o' : Oracle}
    (hpc : b.cl[i]? = some (.start (.mget ks iter))) (h : clientAct b i o = .ok (b', o')) :
    b' = mgetStart b i ks iter ∧ o' = o := by
  unfold clientAct at h
  simp only [hpc] at h
  split at h <;> simp only [Except.ok.injEq, Prod.mk.injEq] at h <;> exact ⟨h.1.symm, h.2.symm⟩

/-- no key left: the call returns the results gathered -/
theorem mgetNext_nil (b : BState) (i : Nat) (acc : List (Option Nat)) (iter : Bool) :
    mgetNext b i [] acc iter = finishCall b i (.values acc) := rfl

/-- a key left: on to the next load of the flag — `next()`'s own load for the iterators, the load inside `get` for
    `multi_get` —, the results so far carried along unchanged.  (STATEMENT CHANGED with the model: `mgetNext` used to
    contain the flag check and, with the flag clear, went straight to `.mgetStore`.) -/
theorem mgetNext_cons (b : BState) (i k : Nat) (rest : List Nat) (acc : List (Option Nat)) (iter : Bool) :
    mgetNext b i (k :: rest) acc iter = setClient b i (.mgetFlag iter (k :: rest) acc iter) := rfl

/-- The `store.get` action for key `k` of a multi-key read: a hit moves on to `pool.add` carrying the value of the
    CURRENT, alive entry of `k` (results so far and keys to come unchanged); a miss records `none` for `k` and moves on
    to the next key.  The store itself is not changed, no oracle value is consumed. -/
theorem C02_layerB_mget_store {b b' : BState} {i k : Nat} {ks : List Nat} {acc : List (Option Nat)} {iter : Bool}
    {o o' : Oracle} (hpc : b.cl[i]? = some (.mgetStore k ks acc iter)) (h : clientAct b i o = .ok (b', o')) :
    ((∃ e, b.g.store.get? k = some e ∧ e.alive b.g.now = true ∧
        b'.cl = b.cl.set i (.mgetPool k e.value ks acc iter) ∧ b'.res = b.res) ∨
     ((∀ e, b.g.store.get? k = some e → e.alive b.g.now = false) ∧
        b' = mgetNext { b with g := { b.g with stats := { b.g.stats with misses := b.g.stats.misses + 1 } } } i ks
               (acc ++ [none]) iter)) ∧
    b'.g.store = b.g.store ∧ o' = o := by
  unfold clientAct at h
  simp only [hpc] at h
  split at h
  · rename_i e he
    split at h
    · rename_i ha
      simp only [Except.ok.injEq, Prod.mk.injEq] at h; obtain ⟨rfl, rfl⟩ := h
      exact ⟨Or.inl ⟨e, he, ha, rfl, rfl⟩, rfl, rfl⟩
    · rename_i ha
      simp only [Except.ok.injEq, Prod.mk.injEq] at h; obtain ⟨rfl, rfl⟩ := h
      refine ⟨Or.inr ⟨?_, rfl⟩, by rw [mgetNext_g], rfl⟩
      intro e' he'
      rw [he] at he'; cases he'
      simpa using ha
  · rename_i he
    simp only [Except.ok.injEq, Prod.mk.injEq] at h; obtain ⟨rfl, rfl⟩ := h
    refine ⟨Or.inr ⟨?_, rfl⟩, by rw [mgetNext_g], rfl⟩
    intro e' he'
    rw [he] at he'; cases he'

/-- The `pool.add` action for the hit on `k`: exactly the value picked up at `store.get` is appended to the results,
    then the read moves on to its next key (or returns). -/
theorem C02_layerB_mget_pool {b b' : BState} {i k v : Nat} {ks : List Nat} {acc : List (Option Nat)} {iter : Bool}
    {o o' : Oracle} (hpc : b.cl[i]? = some (.mgetPool k v ks acc iter)) (h : clientAct b i o = .ok (b', o')) :
    ∃ g1, poolAdd b.g (b.g.cfg.hashOf k) o = .ok (g1, o') ∧
      b' = mgetNext { b with g := g1 } i ks (acc ++ [some v]) iter := by
  unfold clientAct at h
  simp only [hpc] at h
  split at h
  · rename_i g1 o1 hp
    simp only [Except.ok.injEq, Prod.mk.injEq] at h; obtain ⟨rfl, rfl⟩ := h
    exact ⟨g1, hp, rfl⟩
  · cases h

/-- C02 at action granularity, one key of a multi-key read: the value recorded for key `k` — appended to the results
    by the `pool.add` action — is the value of the entry that the store held for `k`, and that was alive, at the
    instant of that key's `store.get` action; whatever the other threads did in between. -/
theorem C02_layerB_mread_current {b0 b1 b2 b3 : BState} {i k : Nat} {ks : List Nat} {acc : List (Option Nat)}
    {iter : Bool} {o0 o1 o2 o3 : Oracle}
    (hpc : b0.cl[i]? = some (.mgetStore k ks acc iter)) (hget : clientAct b0 i o0 = .ok (b1, o1))
    (hsame : b2.cl[i]? = b1.cl[i]?)      -- whatever the other threads did in between (`other_threads_keep_pc`)
    (hpool : clientAct b2 i o2 = .ok (b3, o3))
    (hhit : ∃ v, b1.cl[i]? = some (.mgetPool k v ks acc iter)) :   -- the lookup was a hit
    ∃ e g1, b0.g.store.get? k = some e ∧ e.alive b0.g.now = true ∧
      b1.cl[i]? = some (.mgetPool k e.value ks acc iter) ∧
      poolAdd b2.g (b2.g.cfg.hashOf k) o2 = .ok (g1, o3) ∧
      b3 = mgetNext { b2 with g := g1 } i ks (acc ++ [some e.value]) iter := by
  have hlt : i < b0.cl.length := by
    rcases Nat.lt_or_ge i b0.cl.length with h | h
    · exact h
    · rw [List.getElem?_eq_none h] at hpc; cases hpc
  rcases (C02_layerB_mget_store hpc hget).1 with ⟨e, he, ha, hcl, _⟩ | ⟨_, rfl⟩
  · have h1 : b1.cl[i]? = some (.mgetPool k e.value ks acc iter) := by
      rw [hcl, List.getElem?_set_self hlt]
    have h2 : b2.cl[i]? = some (.mgetPool k e.value ks acc iter) := by rw [hsame, h1]
    obtain ⟨g1, hp, hb3⟩ := C02_layerB_mget_pool h2 hpool
    exact ⟨e, g1, he, ha, h1, hp, hb3⟩
  · exfalso
    obtain ⟨v, hv⟩ := hhit
    rcases mgetNext_spec { b0 with g := { b0.g with stats := { b0.g.stats with misses := b0.g.stats.misses + 1 } } } i ks
      (acc ++ [none]) iter with ⟨out, e⟩ | ⟨k', rest, _, e⟩
    · rw [e] at hv
      simp only [finishCall, List.getElem?_set_self hlt] at hv
      cases hv
    · rw [e] at hv
      simp only [setClient, List.getElem?_set_self hlt] at hv
      cases hv

/-! #### the whole multi-key call, along any interleaving -/

theorem sweepNext_res (b : BState) (n s : Nat) (r : List (Nat × Nat)) : (sweepNext b n s r).res = b.res := by
  unfold sweepNext; split <;> rfl

theorem wtrans_res {b b' : BState} (h : WTrans b b') : b'.res = b.res := by
  cases h <;> rfl

theorem strans_res {b b' : BState} (h : STrans b b') : b'.res = b.res := by
  cases h <;> simp only [sweepNext_res]

/-- a client action records at most the result of that client's call -/
theorem ctrans_res {b b' : BState} {j : Nat} (h : CTrans b j b') :
    b'.res = b.res ∨ ∃ out, b'.res = b.res.set j (out :: b.res.getD j []) := by
  cases h
  case upAfterSame id uw old new hpc =>
    rcases upAfterIndex_spec b j id uw with ⟨_, h⟩ | ⟨_, _, h⟩ | h <;> rw [h]
    · exact Or.inr ⟨_, rfl⟩
    · exact Or.inl rfl
    · exact Or.inr ⟨_, rfl⟩
  case upAfterPut pc id e uw _ _ _ =>
    rcases upAfterIndex_spec { b with g := ttlPut b.g id e } j id uw with ⟨_, h⟩ | ⟨_, _, h⟩ | h <;> rw [h]
    · exact Or.inr ⟨_, rfl⟩
    · exact Or.inl rfl
    · exact Or.inr ⟨_, rfl⟩
  case upAfterDelete id e uw _ _ =>
    rcases upAfterIndex_spec { b with g := ttlDelete b.g id e } j id uw with ⟨_, h⟩ | ⟨_, _, h⟩ | h <;> rw [h]
    · exact Or.inr ⟨_, rfl⟩
    · exact Or.inl rfl
    · exact Or.inr ⟨_, rfl⟩
  all_goals first
    | exact Or.inl rfl
    | exact Or.inr ⟨_, rfl⟩

/-- nobody but client `i` records a result for client `i` -/
theorem other_threads_keep_res {b b' : BState} {a : Act} {o o' : Oracle} {i : Nat}
    (h : stepB b a o = .ok (b', o')) (h1 : a ≠ .client i) : b'.res[i]? = b.res[i]? := by
  cases a with
  | issue j r =>
    simp only [stepB] at h
    split at h
    · rename_i b1 hi
      simp only [Except.ok.injEq, Prod.mk.injEq] at h; obtain ⟨rfl, rfl⟩ := h
      unfold issue at hi
      split at hi
      · simp only [Except.ok.injEq] at hi; subst hi; rfl
      · cases hi
    · cases h
  | client j =>
    have hne : j ≠ i := by intro e; subst e; exact h1 rfl
    rcases ctrans_res (clientAct_trans h) with e | ⟨out, e⟩
    · rw [e]
    · rw [e, List.getElem?_set_ne hne]
  | worker => rw [wtrans_res (workerAct_trans h)]
  | sweeper v =>
    simp only [stepB] at h
    split at h
    · rename_i b1 hs'
      simp only [Except.ok.injEq, Prod.mk.injEq] at h; obtain ⟨rfl, rfl⟩ := h
      rw [strans_res (sweeperAct_trans hs')]
    · cases h
  | consumer =>
    simp only [stepB] at h
    split at h
    · simp only [Except.ok.injEq, Prod.mk.injEq] at h; obtain ⟨rfl, rfl⟩ := h
      rfl
    · cases h
  | advance d =>
    simp only [stepB, Except.ok.injEq, Prod.mk.injEq] at h; obtain ⟨rfl, rfl⟩ := h
    rfl

/-- a run of Layer B together with its history: the pairs (state before the action, action), latest first -/
inductive RunH : BState → List (BState × Act) → BState → Prop where
  | nil (b : BState) : RunH b [] b
  | step {b0 b b' : BState} {h : List (BState × Act)} {a : Act} {o o' : Oracle} :
      RunH b0 h b → stepB b a o = .ok (b', o') → RunH b0 ((b, a) :: h) b'

/-- in the history `h` client `i` did the `store.get` action of the `j`-th key `k` of its multi-key read (`j` results
    gathered before it), and at that instant the store held for `k` an alive entry with value `v` -/
def MgetHit (h : List (BState × Act)) (i j k v : Nat) : Prop :=
  ∃ p ∈ h, p.2 = .client i ∧ ∃ ks acc iter, p.1.cl[i]? = some (.mgetStore k ks acc iter) ∧ acc.length = j ∧
    ∃ e, p.1.g.store.get? k = some e ∧ e.alive p.1.g.now = true ∧ e.value = v

/-- in the history `h` client `i` did the `store.get` action of the `j`-th key `k` of its multi-key read, and at that
    instant the store held no alive entry for `k`: a miss, counted by that very action (`C02_layerB_mget_store`:
    `misses + 1`) -/
def MgetMiss (h : List (BState × Act)) (i j k : Nat) : Prop :=
  ∃ p ∈ h, p.2 = .client i ∧ ∃ ks acc iter, p.1.cl[i]? = some (.mgetStore k ks acc iter) ∧ acc.length = j ∧
    ∀ e, p.1.g.store.get? k = some e → e.alive p.1.g.now = false

/-- in the history `h` client `i` did the flag load INSIDE the `get` for the `j`-th key `k` of its multi-key read and
    found the flag set: that `get` answered `None` without a lookup, and the action changed nothing shared — no hit, no
    miss, no access record (`C13_layerB_mget_flag_inner`) -/
def MgetRefused (h : List (BState × Act)) (i j k : Nat) : Prop :=
  ∃ p ∈ h, p.2 = .client i ∧ ∃ ks acc iter, p.1.cl[i]? = some (.mgetFlag false (k :: ks) acc iter) ∧ acc.length = j ∧
    p.1.g.shutting = true

/-- every value among the results `acc` is justified by a `store.get` hit in the history, for the key at the same
    position -/
def AccOk (h : List (BState × Act)) (i : Nat) (ks : List Nat) (acc : List (Option Nat)) : Prop :=
  ∀ j v, acc[j]? = some (some v) → ∃ k, ks[j]? = some k ∧ MgetHit h i j k v

/-- every `None` among the results `acc` is a counted miss of that key's own lookup, or the answer of a `get` that found
    the flag set (no lookup) -/
def AccNone (h : List (BState × Act)) (i : Nat) (ks : List Nat) (acc : List (Option Nat)) : Prop :=
  ∀ j, acc[j]? = some none → ∃ k, ks[j]? = some k ∧ (MgetMiss h i j k ∨ MgetRefused h i j k)

/-- from the first key whose `get` found the flag set on, no result is a value -/
def AccCut (h : List (BState × Act)) (i : Nat) (acc : List (Option Nat)) : Prop :=
  ∀ j k, MgetRefused h i j k → ∀ j' v, j ≤ j' → acc[j']? ≠ some (some v)

/-- no `get` of this read has found the flag set so far -/
def NoRef (h : List (BState × Act)) (i : Nat) : Prop := ∀ j k, ¬ MgetRefused h i j k

/-- the three together -/
def AccAll (h : List (BState × Act)) (i : Nat) (ks : List Nat) (acc : List (Option Nat)) : Prop :=
  AccOk h i ks acc ∧ AccNone h i ks acc ∧ AccCut h i acc

theorem MgetHit.mono {h : List (BState × Act)} {i j k v : Nat} (p : BState × Act) (hh : MgetHit h i j k v) :
    MgetHit (p :: h) i j k v := by
  obtain ⟨q, hq, rest⟩ := hh
  exact ⟨q, List.mem_cons_of_mem _ hq, rest⟩

theorem MgetMiss.mono {h : List (BState × Act)} {i j k : Nat} (p : BState × Act) (hh : MgetMiss h i j k) :
    MgetMiss (p :: h) i j k := by
  obtain ⟨q, hq, rest⟩ := hh
  exact ⟨q, List.mem_cons_of_mem _ hq, rest⟩

theorem MgetRefused.mono {h : List (BState × Act)} {i j k : Nat} (p : BState × Act) (hh : MgetRefused h i j k) :
    MgetRefused (p :: h) i j k := by
  obtain ⟨q, hq, rest⟩ := hh
  exact ⟨q, List.mem_cons_of_mem _ hq, rest⟩

/-- a step that is not the flag load inside a `get` with the flag set adds no refusal to the history -/
theorem MgetRefused.of_cons {h : List (BState × Act)} {i j k : Nat} {b : BState} {a : Act}
    (hnot : a = .client i → ∀ ks acc iter, b.cl[i]? = some (.mgetFlag false (k :: ks) acc iter) → acc.length = j →
      b.g.shutting = true → False)
    (hh : MgetRefused ((b, a) :: h) i j k) : MgetRefused h i j k := by
  obtain ⟨q, hq, ha, ks, acc, iter, hpc, hl, hs⟩ := hh
  rcases List.mem_cons.mp hq with rfl | hq
  · exact (hnot ha ks acc iter hpc hl hs).elim
  · exact ⟨q, hq, ha, ks, acc, iter, hpc, hl, hs⟩

theorem AccOk.mono {h : List (BState × Act)} {i : Nat} {ks : List Nat} {acc : List (Option Nat)} (p : BState × Act)
    (hh : AccOk h i ks acc) : AccOk (p :: h) i ks acc := by
  intro j v hj
  obtain ⟨k, hk, hm⟩ := hh j v hj
  exact ⟨k, hk, hm.mono p⟩

theorem AccNone.mono {h : List (BState × Act)} {i : Nat} {ks : List Nat} {acc : List (Option Nat)} (p : BState × Act)
    (hh : AccNone h i ks acc) : AccNone (p :: h) i ks acc := by
  intro j hj
  obtain ⟨k, hk, hm⟩ := hh j hj
  exact ⟨k, hk, hm.imp (·.mono p) (·.mono p)⟩

theorem AccOk.nil (h : List (BState × Act)) (i : Nat) (ks : List Nat) : AccOk h i ks [] := by
  intro j v hj; simp at hj

theorem AccAll.nil (h : List (BState × Act)) (i : Nat) (ks : List Nat) : AccAll h i ks [] :=
  ⟨AccOk.nil h i ks, fun j hj => by simp at hj, fun j k _ j' v _ hj => by simp at hj⟩

theorem AccOk.append_nones {h : List (BState × Act)} {i : Nat} {ks : List Nat} {acc : List (Option Nat)}
    (hh : AccOk h i ks acc) (l : List Nat) : AccOk h i ks (acc ++ l.map (fun _ => none)) := by
  intro j v hj
  by_cases hlt : j < acc.length
  · rw [List.getElem?_append_left hlt] at hj
    exact hh j v hj
  · rw [List.getElem?_append_right (by omega), List.getElem?_map] at hj
    cases hx : l[j - acc.length]? <;> simp [hx] at hj

theorem AccOk.snoc_none {h : List (BState × Act)} {i : Nat} {ks : List Nat} {acc : List (Option Nat)}
    (hh : AccOk h i ks acc) : AccOk h i ks (acc ++ [none]) := by
  have := hh.append_nones [0]
  simpa using this

/-- as long as no `get` of the read has found the flag set, nothing is cut off -/
theorem AccCut.of_noRef {h : List (BState × Act)} {i : Nat} (hn : NoRef h i) (acc : List (Option Nat)) :
    AccCut h i acc := fun j k hr => (hn j k hr).elim

/-- a step of the history that adds no refusal keeps all three (the results unchanged) -/
theorem AccAll.mono {h : List (BState × Act)} {i : Nat} {ks : List Nat} {acc : List (Option Nat)} {b : BState} {a : Act}
    (hnot : a = .client i → ∀ k ks' acc' iter, b.cl[i]? = some (.mgetFlag false (k :: ks') acc' iter) →
      b.g.shutting = true → False)
    (hh : AccAll h i ks acc) : AccAll ((b, a) :: h) i ks acc :=
  ⟨hh.1.mono _, hh.2.1.mono _, fun j k hr j' v hle =>
    hh.2.2 j k (MgetRefused.of_cons (fun ha ks' acc' it hpc _ hs => hnot ha k ks' acc' it hpc hs) hr) j' v hle⟩

theorem NoRef.mono {h : List (BState × Act)} {i : Nat} {b : BState} {a : Act}
    (hnot : a = .client i → ∀ k ks' acc' iter, b.cl[i]? = some (.mgetFlag false (k :: ks') acc' iter) →
      b.g.shutting = true → False)
    (hh : NoRef h i) : NoRef ((b, a) :: h) i :=
  fun j k hr => hh j k (MgetRefused.of_cons (fun ha ks' acc' it hpc _ hs => hnot ha k ks' acc' it hpc hs) hr)

/-- appending a `None` that is justified (a counted miss, or a `get` that found the flag set) at the next position -/
theorem AccAll.snoc_none {h : List (BState × Act)} {i : Nat} {ks : List Nat} {acc : List (Option Nat)} {k : Nat}
    (hh : AccOk h i ks acc) (hn : AccNone h i ks acc) (hk : ks[acc.length]? = some k)
    (hj : MgetMiss h i acc.length k ∨ MgetRefused h i acc.length k)
    (hc : ∀ j k', MgetRefused h i j k' → ∀ j' v, j ≤ j' → j' < acc.length → acc[j']? ≠ some (some v)) :
    AccAll h i ks (acc ++ [none]) := by
  refine ⟨hh.snoc_none, ?_, ?_⟩
  · intro j hjn
    by_cases hlt : j < acc.length
    · rw [List.getElem?_append_left hlt] at hjn
      exact hn j hjn
    · have hje : j = acc.length := by
        rcases Nat.lt_or_ge acc.length j with h' | h'
        · rw [List.getElem?_eq_none (by simp; omega)] at hjn; cases hjn
        · omega
      subst hje
      exact ⟨k, hk, hj⟩
  · intro j k' hr j' v hle hv
    by_cases hlt : j' < acc.length
    · rw [List.getElem?_append_left hlt] at hv
      exact hc j k' hr j' v hle hlt hv
    · rw [List.getElem?_append_right (by omega)] at hv
      cases hx : ([none] : List (Option Nat))[j' - acc.length]? with
      | none => rw [hx] at hv; cases hv
      | some y =>
        rw [hx] at hv
        have : y = none := by
          have hm := List.mem_of_getElem? hx
          simpa using hm
        subst this; cases hv

/-- the position invariant of one multi-key read `mget ks iter` of client `i` (`r0`: the results client `i` had
    recorded before the call) -/
def MgetInv (h : List (BState × Act)) (i : Nat) (ks : List Nat) (iter : Bool) (r0 : List Out)
    (pc : Option CPc) (ri : Option (List Out)) : Prop :=
  match pc with
  | some (.start (.mget ks' it)) => ks' = ks ∧ it = iter ∧ ri = some r0
  | some (.mgetFlag outer rest acc it) =>
    it = iter ∧ ri = some r0 ∧ ks.drop acc.length = rest ∧ acc.length ≤ ks.length ∧
      (iter = false → outer = true → acc = []) ∧ AccAll h i ks acc
  | some (.mgetStore k rest acc it) =>
    it = iter ∧ ri = some r0 ∧ ks.drop acc.length = k :: rest ∧ AccAll h i ks acc ∧ NoRef h i
  | some (.mgetPool k v rest acc it) =>
    it = iter ∧ ri = some r0 ∧ ks.drop acc.length = k :: rest ∧ AccAll h i ks (acc ++ [some v]) ∧ NoRef h i
  | some .idle =>
    ∃ out, ri = some (.values out :: r0) ∧ out.length ≤ ks.length ∧
      (iter = false → out = [] ∨ out.length = ks.length) ∧ AccAll h i ks out
  | _ => False

/-- a step of another thread keeps the invariant (it adds neither a result nor a refusal) -/
theorem MgetInv.mono {h : List (BState × Act)} {i : Nat} {ks : List Nat} {iter : Bool} {r0 : List Out}
    {pc : Option CPc} {ri : Option (List Out)} {b : BState} {a : Act} (hne : a ≠ .client i)
    (hh : MgetInv h i ks iter r0 pc ri) : MgetInv ((b, a) :: h) i ks iter r0 pc ri := by
  have hnot : a = .client i → ∀ k ks' acc' iter, b.cl[i]? = some (.mgetFlag false (k :: ks') acc' iter) →
      b.g.shutting = true → False := fun e => (hne e).elim
  unfold MgetInv at hh ⊢
  split at hh
  · exact hh
  · exact ⟨hh.1, hh.2.1, hh.2.2.1, hh.2.2.2.1, hh.2.2.2.2.1, hh.2.2.2.2.2.mono hnot⟩
  · exact ⟨hh.1, hh.2.1, hh.2.2.1, hh.2.2.2.1.mono hnot, hh.2.2.2.2.mono hnot⟩
  · exact ⟨hh.1, hh.2.1, hh.2.2.1, hh.2.2.2.1.mono hnot, hh.2.2.2.2.mono hnot⟩
  · obtain ⟨out, a1, b1, c1, d1⟩ := hh
    exact ⟨out, a1, b1, c1, d1.mono hnot⟩
  · exact hh.elim

theorem drop_succ_of_drop_cons {ks : List Nat} {n k : Nat} {rest : List Nat} (h : ks.drop n = k :: rest) :
    ks.drop (n + 1) = rest ∧ ks[n]? = some k ∧ n < ks.length := by
  have hlt : n < ks.length := by
    rcases Nat.lt_or_ge n ks.length with h' | h'
    · exact h'
    · rw [List.drop_eq_nil_of_le h'] at h; cases h
  refine ⟨?_, ?_, hlt⟩
  · rw [← List.drop_drop, h]; rfl
  · have := List.getElem?_drop (xs := ks) (i := n) (j := 0)
    rw [h] at this
    simpa using this.symm

/-- the call returns `out`: the invariant at `.idle` -/
theorem mgetInv_finish {h : List (BState × Act)} {i : Nat} {ks : List Nat} {iter : Bool} {r0 : List Out}
    (bX : BState) (out : List (Option Nat)) (hi : i < bX.cl.length) (hr : bX.res[i]? = some r0)
    (h1 : out.length ≤ ks.length) (h2 : iter = false → out = [] ∨ out.length = ks.length) (h3 : AccAll h i ks out) :
    MgetInv h i ks iter r0 ((finishCall bX i (.values out)).cl[i]?) ((finishCall bX i (.values out)).res[i]?) := by
  have hri : i < bX.res.length := by
    rcases Nat.lt_or_ge i bX.res.length with h' | h'
    · exact h'
    · rw [List.getElem?_eq_none h'] at hr; cases hr
  have hgetD : bX.res.getD i [] = r0 := by
    rw [List.getD_eq_getElem?_getD, hr]; rfl
  simp only [finishCall, List.getElem?_set_self hi, List.getElem?_set_self hri, hgetD]
  exact ⟨out, rfl, h1, h2, h3⟩

/-- `mgetNext` keeps the position invariant: given results `acc` justified by the history and `rest` the keys after
    them, the read either returns (one answer per key) or stands before the next load of the flag -/
theorem mgetInv_mgetNext {h : List (BState × Act)} {i : Nat} {ks : List Nat} {iter : Bool} {r0 : List Out}
    (bX : BState) (rest : List Nat) (acc : List (Option Nat)) (hi : i < bX.cl.length) (hr : bX.res[i]? = some r0)
    (hd : ks.drop acc.length = rest) (hle : acc.length ≤ ks.length) (hne : acc ≠ []) (hok : AccAll h i ks acc) :
    MgetInv h i ks iter r0 ((mgetNext bX i rest acc iter).cl[i]?) ((mgetNext bX i rest acc iter).res[i]?) := by
  have hlen : rest.length + acc.length = ks.length := by
    have := congrArg List.length hd
    rw [List.length_drop] at this
    omega
  cases rest with
  | nil =>
    simp only [List.length_nil] at hlen
    rw [mgetNext_nil]
    exact mgetInv_finish bX acc hi hr (by omega) (fun _ => Or.inr (by omega)) hok
  | cons k rest' =>
    rw [mgetNext_cons]
    simp only [setClient, List.getElem?_set_self hi, hr]
    refine ⟨rfl, rfl, hd, hle, ?_, hok⟩
    intro e1 e2
    rw [e1] at e2; cases e2

/-- the flag is monotone along a history: a state of the history in which it was set is followed only by such states -/
theorem runH_shutting_mono {b0 b : BState} {h : List (BState × Act)} (hrun : RunH b0 h b) :
    ∀ p ∈ h, p.1.g.shutting = true → b.g.shutting = true := by
  induction hrun with
  | nil => intro p hp; cases hp
  | step hprev hs ih =>
    intro p hp hsh
    rcases List.mem_cons.mp hp with rfl | hp
    · exact stepB_shutting_mono hs hsh
    · exact stepB_shutting_mono hs (ih p hp hsh)

/-- one step of any thread (other than a new `issue` by client `i`) keeps the position invariant of client `i`'s
    multi-key read, with the step added to the history -/
theorem mgetInv_step {h : List (BState × Act)} {i : Nat} {ks : List Nat} {iter : Bool} {r0 : List Out}
    {b b' : BState} {a : Act} {o o' : Oracle} (hinv : MgetInv h i ks iter r0 b.cl[i]? b.res[i]?)
    (hmono : ∀ p ∈ h, p.1.g.shutting = true → b.g.shutting = true)
    (hs : stepB b a o = .ok (b', o')) (hno : ∀ r, a ≠ .issue i r) :
    MgetInv ((b, a) :: h) i ks iter r0 b'.cl[i]? b'.res[i]? := by
  by_cases ha : a = .client i
  · subst ha
    simp only [stepB] at hs
    cases hpc : b.cl[i]? with
    | none => rw [hpc] at hinv; exact hinv.elim
    | some pc =>
      have hi : i < b.cl.length := by
        rcases Nat.lt_or_ge i b.cl.length with h' | h'
        · exact h'
        · rw [List.getElem?_eq_none h'] at hpc; cases hpc
      rw [hpc] at hinv
      cases pc with
      | idle => simp [clientAct, hpc] at hs
      | start r =>
        cases r with
        | mget ks' it =>
          obtain ⟨rfl, rfl, hr⟩ := hinv
          have hb' : b' = mgetStart b i ks' it := by
            simp only [clientAct, hpc] at hs
            split at hs <;> simp only [Except.ok.injEq, Prod.mk.injEq] at hs <;> exact hs.1.symm
          subst hb'
          rcases mgetStart_spec b i ks' it with ⟨_, rfl, e⟩ | ⟨_, e⟩ <;> rw [e]
          · exact mgetInv_finish b [] hi hr (Nat.zero_le _) (fun _ => Or.inl rfl) (AccAll.nil _ _ _)
          · simp only [setClient, List.getElem?_set_self hi, hr]
            exact ⟨rfl, rfl, rfl, Nat.zero_le _, fun _ _ => rfl, AccAll.nil _ _ _⟩
        | _ => exact hinv.elim
      | mgetFlag outer rest acc it =>
        obtain ⟨rfl, hr, hd, hle, hout, hok⟩ := hinv
        have hb' : b' = mgetFlagAct b i outer rest acc it := by
          simp only [clientAct, hpc, Except.ok.injEq, Prod.mk.injEq] at hs
          exact hs.1.symm
        subst hb'
        rcases mgetFlagAct_spec b i outer rest acc it with ⟨hc, e⟩ | ⟨k, rest', rfl, rfl, hsh, e⟩ |
          ⟨k, rest', rfl, rfl, hsh, e⟩ | ⟨k, rest', rfl, rfl, hsh, e⟩ <;> rw [e]
        · -- the read ends here: no key at all, or the outer load found the flag set
          have hnot : Act.client i = .client i → ∀ k ks' acc' iter,
              b.cl[i]? = some (.mgetFlag false (k :: ks') acc' iter) → b.g.shutting = true → False := by
            intro _ k ks' acc' iter' hpc' hsh'
            rw [hpc] at hpc'
            cases hpc'
            rcases hc with hc | ⟨hc, _⟩ <;> cases hc
          refine mgetInv_finish b acc hi hr hle ?_ (hok.mono hnot)
          intro hit
          rcases hc with rfl | ⟨rfl, _⟩
          · right
            have := congrArg List.length hd
            rw [List.length_drop] at this
            simp only [List.length_nil] at this
            omega
          · exact Or.inl (hout hit rfl)
        · -- outer load, flag clear: on to the load inside `get`
          have hnot : Act.client i = .client i → ∀ k ks' acc' iter,
              b.cl[i]? = some (.mgetFlag false (k :: ks') acc' iter) → b.g.shutting = true → False := by
            intro _ k' ks' acc' iter' hpc' _
            rw [hpc] at hpc'
            cases hpc'
          simp only [setClient, List.getElem?_set_self hi, hr]
          exact ⟨rfl, rfl, hd, hle, (fun _ e2 => by cases e2), hok.mono hnot⟩
        · -- the load inside `get` finds the flag set: `None` for this key, no lookup
          obtain ⟨hd1, hk, hlt⟩ := drop_succ_of_drop_cons hd
          have href : MgetRefused ((b, .client i) :: h) i acc.length k :=
            ⟨(b, .client i), List.mem_cons_self, rfl, rest', acc, it, hpc, rfl, hsh⟩
          have hall : AccAll ((b, .client i) :: h) i ks (acc ++ [none]) := by
            refine AccAll.snoc_none (hok.1.mono _) (hok.2.1.mono _) hk (Or.inr href) ?_
            intro j k' hr' j' v hjj hj'
            have hold : MgetRefused h i j k' := by
              refine MgetRefused.of_cons ?_ hr'
              intro _ ks'' acc'' it'' hpc' hl' _
              rw [hpc] at hpc'
              cases hpc'
              omega
            exact hok.2.2 j k' hold j' v hjj
          exact mgetInv_mgetNext _ rest' (acc ++ [none]) hi hr (by simpa using hd1) (by simp; omega) (by simp) hall
        · -- the load inside `get`, flag clear: on to the lookup; nothing has been refused so far
          have hnot : Act.client i = .client i → ∀ k ks' acc' iter,
              b.cl[i]? = some (.mgetFlag false (k :: ks') acc' iter) → b.g.shutting = true → False := by
            intro _ _ _ _ _ _ hsh'
            rw [hsh] at hsh'; cases hsh'
          have hnr : NoRef h i := by
            intro j k' ⟨p, hp, _, _, _, _, _, _, hps⟩
            have := hmono p hp hps
            rw [hsh] at this; cases this
          simp only [setClient, List.getElem?_set_self hi, hr]
          exact ⟨rfl, rfl, hd, hok.mono hnot, hnr.mono hnot⟩
      | mgetStore k rest acc it =>
        obtain ⟨rfl, hr, hd, hok, hnr⟩ := hinv
        obtain ⟨hd1, hk, hlt⟩ := drop_succ_of_drop_cons hd
        have hnot : Act.client i = .client i → ∀ k ks' acc' iter,
            b.cl[i]? = some (.mgetFlag false (k :: ks') acc' iter) → b.g.shutting = true → False := by
          intro _ _ _ _ _ hpc' _
          rw [hpc] at hpc'; cases hpc'
        have hnr' := hnr.mono hnot
        rcases (C02_layerB_mget_store hpc hs).1 with ⟨e, he, hal, hcl, hres⟩ | ⟨hmiss, rfl⟩
        · rw [hcl, hres, List.getElem?_set_self hi, hr]
          refine ⟨rfl, rfl, hd, ⟨?_, ?_, AccCut.of_noRef hnr' _⟩, hnr'⟩
          · intro j v hj
            by_cases hjl : j < acc.length
            · rw [List.getElem?_append_left hjl] at hj
              exact (hok.1.mono _) j v hj
            · have hje : j = acc.length := by
                rcases Nat.lt_or_ge acc.length j with h' | h'
                · rw [List.getElem?_eq_none (by simp; omega)] at hj; cases hj
                · omega
              subst hje
              simp only [List.getElem?_append_right (Nat.le_refl _), Nat.sub_self, List.getElem?_cons_zero,
                Option.some.injEq] at hj
              subst hj
              exact ⟨k, hk, (b, .client i), List.mem_cons_self, rfl, rest, acc, it, hpc, rfl, e, he, hal, rfl⟩
          · intro j hj
            by_cases hjl : j < acc.length
            · rw [List.getElem?_append_left hjl] at hj
              exact (hok.2.1.mono _) j hj
            · have hje : j = acc.length := by
                rcases Nat.lt_or_ge acc.length j with h' | h'
                · rw [List.getElem?_eq_none (by simp; omega)] at hj; cases hj
                · omega
              subst hje
              simp at hj
        · have hm : MgetMiss ((b, .client i) :: h) i acc.length k :=
            ⟨(b, .client i), List.mem_cons_self, rfl, rest, acc, it, hpc, rfl, hmiss⟩
          have hall : AccAll ((b, .client i) :: h) i ks (acc ++ [none]) :=
            AccAll.snoc_none (hok.1.mono _) (hok.2.1.mono _) hk (Or.inl hm)
              (fun j k' hr' => (hnr' j k' hr').elim)
          exact mgetInv_mgetNext _ rest (acc ++ [none]) hi hr (by simpa using hd1) (by simp; omega) (by simp) hall
      | mgetPool k v rest acc it =>
        obtain ⟨rfl, hr, hd, hok, hnr⟩ := hinv
        obtain ⟨hd1, hk, hlt⟩ := drop_succ_of_drop_cons hd
        have hnot : Act.client i = .client i → ∀ k ks' acc' iter,
            b.cl[i]? = some (.mgetFlag false (k :: ks') acc' iter) → b.g.shutting = true → False := by
          intro _ _ _ _ _ hpc' _
          rw [hpc] at hpc'; cases hpc'
        obtain ⟨g1, hp, rfl⟩ := C02_layerB_mget_pool hpc hs
        exact mgetInv_mgetNext _ rest (acc ++ [some v]) hi hr (by simpa using hd1) (by simp; omega) (by simp)
          (hok.mono hnot)
      | _ => exact hinv.elim
  · rw [other_threads_keep_pc hs ha hno, other_threads_keep_res hs ha]
    exact hinv.mono ha

/-- the position invariant holds along every run from the issue of the call on -/
theorem mgetInv_run {b0 b : BState} {h : List (BState × Act)} {i : Nat} {ks : List Nat} {iter : Bool}
    (hrun : RunH b0 h b) (hstart : b0.cl[i]? = some (.start (.mget ks iter))) (hres : i < b0.res.length)
    (hno : ∀ p ∈ h, ∀ r, p.2 ≠ .issue i r) :
    MgetInv h i ks iter (b0.res.getD i []) b.cl[i]? b.res[i]? := by
  induction hrun with
  | nil =>
    rw [hstart]
    refine ⟨rfl, rfl, ?_⟩
    rw [List.getD_eq_getElem?_getD, List.getElem?_eq_getElem hres]; rfl
  | step hprev hs ih =>
    exact mgetInv_step (ih (fun p hp => hno p (List.mem_cons_of_mem _ hp))) (runH_shutting_mono hprev)
      hs (fun r => hno _ List.mem_cons_self r)

/-- **C02 for a whole multi-key read, along every interleaving.**  Client `i` has issued `mget ks iter`
    (`multi_get`: `iter = false`; the iterators: `iter = true`) in `b0`; `h` is ANY history of actions of any threads
    from there (client `i` issuing nothing new) to a state `b` in which client `i` is idle again.  Then the call has
    recorded `.values out` where: `out` has at most one entry per key (for `multi_get`: exactly one, unless the load at
    its entry found the flag set), and EVERY value `out[j] = some v` is
    the value of an entry that the store held for the `j`-th key `ks[j]` — and that was alive — at the instant of
    that key's own `store.get` action of this call (`MgetHit`): never another key's value, never a value from another
    instant than that key's lookup, whatever the other threads did before, between and after.
    (Statement unchanged by the model change — every flag load its own action —; what the `None`s are is
    `C13_layerB_mget_around_shutdown`.) -/
theorem C02_layerB_mget_current {b0 b : BState} {h : List (BState × Act)} {i : Nat} {ks : List Nat} {iter : Bool}
    (hrun : RunH b0 h b) (hstart : b0.cl[i]? = some (.start (.mget ks iter))) (hres : i < b0.res.length)
    (hno : ∀ p ∈ h, ∀ r, p.2 ≠ .issue i r) (hidle : b.cl[i]? = some .idle) :
    ∃ out, b.res[i]? = some (.values out :: b0.res.getD i []) ∧ out.length ≤ ks.length ∧
      (iter = false → out = [] ∨ out.length = ks.length) ∧
      ∀ j v, out[j]? = some (some v) → ∃ k, ks[j]? = some k ∧ MgetHit h i j k v := by
  have key := mgetInv_run hrun hstart hres hno
  rw [hidle] at key
  obtain ⟨out, h1, h2, h3, h4⟩ := key
  exact ⟨out, h1, h2, h3, h4.1⟩

/-- **What a multi-key read can return around `shutdown()`, along every interleaving** (new with the model change that
    makes every load of the shutdown flag an action of its own).  Client `i` has issued `mget ks iter` in `b0`; `h` is ANY
    history of actions of any threads from there (client `i` issuing nothing new) to a state `b` in which client `i` is
    idle again; the call has recorded `.values out`.  Then
    * every `None` in `out`, at position `j`, is EITHER a miss of the `j`-th key's own `store.get` action of this call —
      the store held no alive entry for `ks[j]` at that instant, and that action counted it (`MgetMiss`;
      `C02_layerB_mget_store`: `misses + 1`) — OR the answer of the `get` for `ks[j]` whose load of the flag found it set
      (`MgetRefused`): no lookup was done and that action changed nothing shared, so neither a miss nor a hit nor an
      access record stands for this `None` (`C13_layerB_mget_flag_inner`);
    * once a `get` of the read has found the flag set — at position `j` — no later result (position `≥ j`) is a value.
      (The other load, the one of `next()` / of `multi_get`'s entry, ends the read on the spot when it finds the flag
      set: `C13_layerB_mget_flag_outer`; the flag is never reset: `C13_layerB_flag_permanent`.)
    With `C02_layerB_mget_current` (the values, the length): a `multi_get` that got past the load at its entry answers
    for every key, with `None`s from the first refused `get` on; an iterator yields a prefix. -/
theorem C13_layerB_mget_around_shutdown {b0 b : BState} {h : List (BState × Act)} {i : Nat} {ks : List Nat}
    {iter : Bool} (hrun : RunH b0 h b) (hstart : b0.cl[i]? = some (.start (.mget ks iter)))
    (hres : i < b0.res.length) (hno : ∀ p ∈ h, ∀ r, p.2 ≠ .issue i r) (hidle : b.cl[i]? = some .idle) :
    ∃ out, b.res[i]? = some (.values out :: b0.res.getD i []) ∧
      (∀ j, out[j]? = some none → ∃ k, ks[j]? = some k ∧ (MgetMiss h i j k ∨ MgetRefused h i j k)) ∧
      (∀ j k, MgetRefused h i j k → ∀ j' v, j ≤ j' → out[j']? ≠ some (some v)) := by
  have key := mgetInv_run hrun hstart hres hno
  rw [hidle] at key
  obtain ⟨out, h1, _, _, h4⟩ := key
  exact ⟨out, h1, h4.2.1, h4.2.2⟩

/-! ## C13  shutdown — at action granularity

  `CacheD::shutdown` is eleven atomic actions of the calling client (`shutCas` … `shutTtlClear`); the worker, the
  sweeper, the consumer and the other clients run in between. -/

/-- runs a list of actions, each with its own oracle -/
def runB : BState → List (Act × Oracle) → Except String BState
  | b, [] => .ok b
  | b, (a, o) :: rest =>
    match stepB b a o with
    | .ok (b', _) => runB b' rest
    | .error m => .error m

theorem reach_runB {cfg : Cfg} {now : Nat} {seeds : List Nat} {clients : Nat} :
    ∀ (l : List (Act × Oracle)) {b b' : BState}, Reach cfg now seeds clients b → runB b l = .ok b' →
      Reach cfg now seeds clients b' := by
  intro l
  induction l with
  | nil => intro b b' hr h; simp only [runB, Except.ok.injEq] at h; subst h; exact hr
  | cons x l ih =>
    intro b b' hr h
    obtain ⟨a, o⟩ := x
    simp only [runB] at h
    split at h
    · rename_i b1 o1 hs
      exact ih (.step hr hs) h
    · cases h

/-- what a request issued after the flag is set returns: `Err(CommandSendError)` for the writes, `None` for the reads,
    no value at all for the multi-key reads (`multi_get` and its iterators; they take two actions to say so:
    `C13_layerB_mget_refused`) -/
def refusal : Req → Out
  | .get _ | .getRef _ => .value none
  | .mget _ _ => .values []
  | _ => .err

/-- `finishCall` returns the call of client `i` and touches nothing else. -/
theorem finishCall_frame (b : BState) (i : Nat) (out : Out) :
    (finishCall b i out).g = b.g ∧ (finishCall b i out).w = b.w ∧ (finishCall b i out).sw = b.sw ∧
    (finishCall b i out).wuOwner = b.wuOwner ∧ (finishCall b i out).ttlOwner = b.ttlOwner ∧
    (finishCall b i out).storeReaders = b.storeReaders ∧ (finishCall b i out).storeShard = b.storeShard ∧
    (finishCall b i out).cl = b.cl.set i .idle ∧ (finishCall b i out).res = b.res.set i (out :: b.res.getD i []) :=
  ⟨rfl, rfl, rfl, rfl, rfl, rfl, rfl, rfl, rfl⟩

/-- C13 (refusal): once the flag is set, the FIRST action of every new request other than `total_weight_used`,
    `shutdown` and the multi-key reads finishes the call — with `Err` (put, delete, put_or_update) or `None` (get,
    get_ref) — consumes no oracle value and changes nothing else (`finishCall_frame`): no store, admission, queue or lock
    is touched.  STATEMENT CHANGED with the model (every flag load of a multi-key read is an action of its own): the
    multi-key reads are excluded here (`h3`) — their first action loads nothing; the refusal is their SECOND action:
    `C13_layerB_mget_refused`. -/
theorem C13_layerB_refuses {b : BState} {i : Nat} {r : Req} (o : Oracle) (hs : b.g.shutting = true)
    (hpc : b.cl[i]? = some (.start r)) (h1 : r ≠ .weight) (h2 : r ≠ .shutdown) (h3 : ∀ ks iter, r ≠ .mget ks iter) :
    clientAct b i o = .ok (finishCall b i (refusal r), o) := by
  unfold clientAct
  simp only [hpc, hs, if_true]
  cases r with
  | weight => exact absurd rfl h1
  | shutdown => exact absurd rfl h2
  | mget ks iter => exact absurd rfl (h3 ks iter)
  | _ => rfl

theorem refusal_writes (k v : Nat) (w : Int) (ttl : Option Nat) (uv : Option Nat) (uw : Option Int) (rm : Bool) :
    refusal (.putW k v w ttl) = .err ∧ refusal (.delete k) = .err ∧ refusal (.upsert k uv uw ttl rm) = .err :=
  ⟨rfl, rfl, rfl⟩

theorem refusal_reads (k : Nat) : refusal (.get k) = .value none ∧ refusal (.getRef k) = .value none := ⟨rfl, rfl⟩

theorem refusal_mget (ks : List Nat) (iter : Bool) : refusal (.mget ks iter) = .values [] := rfl

/-- C13 (multi-key reads): the FIRST action of a multi-key read looks at nothing — whatever the flag is, the client
    moves from `client.idle` to its first load of the flag (an iterator over no keys returns at once: `keys.is_empty()`
    is tested before the flag is loaded); no shared state changes, no oracle value is consumed. -/
theorem C13_layerB_mget_start {b : BState} {i : Nat} {ks : List Nat} {iter : Bool} (o : Oracle)
    (hpc : b.cl[i]? = some (.start (.mget ks iter))) :
    clientAct b i o = .ok (mgetStart b i ks iter, o) ∧ (mgetStart b i ks iter).g = b.g ∧
    ((iter = true ∧ ks = [] ∧ mgetStart b i ks iter = finishCall b i (.values [])) ∨
     ((iter = false ∨ ks ≠ []) ∧ mgetStart b i ks iter = setClient b i (.mgetFlag true ks [] iter))) := by
  refine ⟨?_, mgetStart_g _ _ _ _, mgetStart_spec b i ks iter⟩
  unfold clientAct
  simp only [hpc]
  split <;> rfl

/-- C13 (multi-key reads, the OUTER load — the one of `MultiGetIterator::next`, or the one at the entry of `multi_get`,
    where nothing has been gathered yet —, flag set): the read ends on the spot with what it has gathered (`multi_get`:
    nothing; an iterator: the results of the keys done); nothing shared is touched, no oracle value is consumed. -/
theorem C13_layerB_mget_flag_outer {b : BState} {i : Nat} {ks : List Nat} {acc : List (Option Nat)} {iter : Bool}
    (o : Oracle) (hs : b.g.shutting = true) (hpc : b.cl[i]? = some (.mgetFlag true ks acc iter)) :
    clientAct b i o = .ok (finishCall b i (.values acc), o) := by
  unfold clientAct
  simp only [hpc]
  cases ks <;> simp [mgetFlagAct, hs]

/-- C13 (multi-key reads, the load INSIDE `get`, flag set): that `get` answers `None` for its key WITHOUT a lookup — the
    shared state is exactly as before (no hit, no miss, no access record), no oracle value is consumed — and the read
    moves on: `multi_get` to the `get` of the next key, an iterator to its next `next()` (or the call returns if this
    was the last key). -/
theorem C13_layerB_mget_flag_inner {b : BState} {i k : Nat} {ks : List Nat} {acc : List (Option Nat)} {iter : Bool}
    (o : Oracle) (hs : b.g.shutting = true) (hpc : b.cl[i]? = some (.mgetFlag false (k :: ks) acc iter)) :
    clientAct b i o = .ok (mgetNext b i ks (acc ++ [none]) iter, o) ∧
    (mgetNext b i ks (acc ++ [none]) iter).g = b.g := by
  refine ⟨?_, mgetNext_g _ _ _ _ _⟩
  unfold clientAct
  simp [hpc, mgetFlagAct, hs]

/-- … and with the flag clear a load changes nothing and moves on: the outer load to the load inside `get` (a
    `multi_get` of no keys returns), the load inside `get` to the lookup. -/
theorem C13_layerB_mget_flag_clear {b : BState} {i : Nat} {outer : Bool} {ks : List Nat} {acc : List (Option Nat)}
    {iter : Bool} (o : Oracle) (hs : b.g.shutting = false) (hpc : b.cl[i]? = some (.mgetFlag outer ks acc iter)) :
    clientAct b i o = .ok (match ks with
      | [] => finishCall b i (.values acc)
      | k :: rest => setClient b i (if outer then .mgetFlag false (k :: rest) acc iter else .mgetStore k rest acc iter), o) := by
  unfold clientAct
  simp only [hpc]
  cases ks <;> cases outer <;> simp [mgetFlagAct, hs]

/-- C13 (a multi-key read that meets the flag).  STATEMENT CHANGED with the model: it used to say what `mgetNext` does
    once the flag is set (one step: `multi_get` pads with `None`s, the iterators stop); `mgetNext` no longer looks at the
    flag — every load is an action of its own.  At full strength for the new model: a `multi_get` standing before the
    load inside the `get` of a key, with the flag set, answers `None` for this and every remaining key — ONE ACTION PER
    KEY (`ks.length` actions of the client; the flag is permanent, so other threads' actions in between change nothing
    of this: `C13_layerB_mget_around_shutdown`), no lookup, the shared state untouched — and returns all of them; an
    iterator standing before its own load stops there with the results gathered so far
    (`C13_layerB_mget_flag_outer`), and one standing before the load inside `get` yields one `None` and then stops. -/
theorem C13_layerB_mget_after_flag (i : Nat) (o : Oracle) :
    ∀ (ks : List Nat) (acc : List (Option Nat)) (b : BState), ks ≠ [] → i < b.cl.length → b.g.shutting = true →
      b.cl[i]? = some (.mgetFlag false ks acc false) →
      runB b (List.replicate ks.length (.client i, o)) =
        .ok (finishCall b i (.values (acc ++ ks.map (fun _ => none)))) := by
  intro ks
  induction ks with
  | nil => intro acc b h; exact absurd rfl h
  | cons k rest ih =>
    intro acc b _ hi hs hpc
    have h1 := (C13_layerB_mget_flag_inner o hs hpc).1
    simp only [List.length_cons, List.replicate_succ, runB, stepB, h1]
    cases rest with
    | nil => simp [runB, mgetNext_nil]
    | cons k' rest' =>
      rw [mgetNext_cons]
      have := ih (acc ++ [none]) (setClient b i (.mgetFlag false (k' :: rest') (acc ++ [none]) false)) (by simp)
        (by simpa [setClient] using hi) hs (by simp [setClient, hi])
      rw [this]
      simp [finishCall, setClient, List.set_set]

/-- … the iterator standing before the load inside `get` when the flag is set: one `None`, then its next load ends it. -/
theorem C13_layerB_mget_iter_after_flag {b : BState} {i k : Nat} {ks : List Nat} {acc : List (Option Nat)} (o : Oracle)
    (hi : i < b.cl.length) (hs : b.g.shutting = true) (hpc : b.cl[i]? = some (.mgetFlag false (k :: ks) acc true)) :
    runB b (List.replicate (if ks = [] then 1 else 2) (.client i, o)) =
      .ok (finishCall b i (.values (acc ++ [none]))) := by
  have h1 := (C13_layerB_mget_flag_inner o hs hpc).1
  cases ks with
  | nil => simp [runB, stepB, h1, mgetNext_nil]
  | cons k' rest' =>
    have h2 := C13_layerB_mget_flag_outer (b := setClient b i (.mgetFlag true (k' :: rest') (acc ++ [none]) true))
      (i := i) (ks := k' :: rest') (acc := acc ++ [none]) (iter := true) o hs (by simp [setClient, hi])
    simp only [List.replicate, runB, stepB, h1, mgetNext_cons, h2, reduceCtorEq, if_false]
    simp [finishCall, setClient, List.set_set]

/-- … a `multi_get` / multi-get iterator ISSUED after the flag is set is answered with no values; no store lookup, no
    statistics, no access record, no oracle value.  STATEMENT CHANGED with the model: this used to be ONE action (the
    first action of the call contained the flag check); now the first action loads nothing (`C13_layerB_mget_start`) and
    the refusal is the outer load, the second action — TWO actions of the client (one for an iterator over no keys),
    whatever other threads do in between (`C13_layerB_flag_permanent`; here: run alone). -/
theorem C13_layerB_mget_refused {b : BState} {i : Nat} {ks : List Nat} {iter : Bool} (o : Oracle)
    (hi : i < b.cl.length) (hs : b.g.shutting = true) (hpc : b.cl[i]? = some (.start (.mget ks iter))) :
    runB b (List.replicate (if iter = true ∧ ks = [] then 1 else 2) (.client i, o)) =
      .ok (finishCall b i (.values [])) := by
  obtain ⟨h1, _, hsp⟩ := C13_layerB_mget_start o hpc
  rcases hsp with ⟨rfl, rfl, e⟩ | ⟨hc, e⟩
  · simp [runB, stepB, h1, e]
  · have hif : ¬ (iter = true ∧ ks = []) := by
      rintro ⟨rfl, rfl⟩; rcases hc with hc | hc
      · cases hc
      · exact hc rfl
    have h2 := C13_layerB_mget_flag_outer (b := setClient b i (.mgetFlag true ks [] iter)) (i := i) (ks := ks)
      (acc := []) (iter := iter) o hs (by simp [setClient, hi])
    simp only [hif, if_false, List.replicate, runB, stepB, h1, e, h2]
    simp [finishCall, setClient, List.set_set]

/-- … a multi-key read standing at a key's `store.get` when the flag is set still does that lookup (the flag load of
    this `get` lies behind it); on a miss (counted) the read moves on — it returns if this was the last key, else it
    stands before its next load of the flag, which will find it set (`C13_layerB_mget_flag_outer` /
    `C13_layerB_mget_after_flag`).  STATEMENT CHANGED with the model: the padding / stopping is no longer part of this
    action. -/
theorem C13_layerB_mget_store_after_flag {b b' : BState} {i k : Nat} {ks : List Nat} {acc : List (Option Nat)}
    {iter : Bool} {o o' : Oracle} (hs : b.g.shutting = true) (hpc : b.cl[i]? = some (.mgetStore k ks acc iter))
    (h : clientAct b i o = .ok (b', o')) :
    (∃ e, b.g.store.get? k = some e ∧ e.alive b.g.now = true ∧
        b'.cl = b.cl.set i (.mgetPool k e.value ks acc iter) ∧ b'.res = b.res) ∨
    (b'.g = { b.g with stats := { b.g.stats with misses := b.g.stats.misses + 1 } } ∧ b'.g.shutting = true ∧
      match ks with
      | [] => b' = finishCall { b with g := { b.g with stats := { b.g.stats with misses := b.g.stats.misses + 1 } } } i
                (.values (acc ++ [none]))
      | k' :: rest => b' = setClient { b with g := { b.g with stats := { b.g.stats with misses := b.g.stats.misses + 1 } } } i
                (.mgetFlag iter (k' :: rest) (acc ++ [none]) iter)) := by
  rcases (C02_layerB_mget_store hpc h).1 with hit | ⟨_, rfl⟩
  · exact Or.inl hit
  · refine Or.inr ⟨by rw [mgetNext_g], by rw [mgetNext_g]; exact hs, ?_⟩
    cases ks <;> rfl

/-- … and the `pool.add` of a hit that was already counted is still done (one access record), then the read moves on:
    it returns if this was the last key, else it stands before its next load of the flag, which will find it set.
    STATEMENT CHANGED with the model, as for `C13_layerB_mget_store_after_flag`. -/
theorem C13_layerB_mget_pool_after_flag {b b' : BState} {i k v : Nat} {ks : List Nat} {acc : List (Option Nat)}
    {iter : Bool} {o o' : Oracle} (hs : b.g.shutting = true) (hpc : b.cl[i]? = some (.mgetPool k v ks acc iter))
    (h : clientAct b i o = .ok (b', o')) :
    ∃ g1, poolAdd b.g (b.g.cfg.hashOf k) o = .ok (g1, o') ∧ b'.g = g1 ∧ b'.g.shutting = true ∧
      match ks with
      | [] => b' = finishCall { b with g := g1 } i (.values (acc ++ [some v]))
      | k' :: rest => b' = setClient { b with g := g1 } i (.mgetFlag iter (k' :: rest) (acc ++ [some v]) iter) := by
  obtain ⟨g1, hp, rfl⟩ := C02_layerB_mget_pool hpc h
  refine ⟨g1, hp, by rw [mgetNext_g], ?_, ?_⟩
  · rw [mgetNext_g]
    show g1.shutting = true
    rw [poolAdd_frame hp]; exact hs
  · cases ks <;> rfl

/-- C13 (the flag is permanent): no action of any thread resets it … -/
theorem C13_layerB_flag_permanent {b b' : BState} {a : Act} {o o' : Oracle} (h : stepB b a o = .ok (b', o'))
    (hs : b.g.shutting = true) : b'.g.shutting = true :=
  stepB_shutting_mono h hs

/-- … hence it stays set along every continuation of every interleaving. -/
theorem C13_layerB_flag_permanent_run :
    ∀ (l : List (Act × Oracle)) {b b' : BState}, runB b l = .ok b' → b.g.shutting = true → b'.g.shutting = true := by
  intro l
  induction l with
  | nil => intro b b' h hs; simp only [runB, Except.ok.injEq] at h; subst h; exact hs
  | cons x l ih =>
    intro b b' h hs
    obtain ⟨a, o⟩ := x
    simp only [runB] at h
    split at h
    · rename_i b1 o1 hstep
      exact ih h (stepB_shutting_mono hstep hs)
    · cases h

/-- C13 (the first `shutdown`): the compare-and-swap on an unset flag sets it, moves the caller on to the send of
    `Shutdown`, and touches nothing else. -/
theorem C13_layerB_first_shutdown_sets_flag {b : BState} {i : Nat} (o : Oracle) (hs : b.g.shutting = false)
    (hpc : b.cl[i]? = some .shutCas) :
    clientAct b i o = .ok (setClient { b with g := { b.g with shutting := true } } i .shutSendCmd, o) := by
  unfold clientAct
  simp only [hpc, hs]
  rfl

/-- C13 (a second `shutdown`): the compare-and-swap on a set flag finishes the call at once, with `()`, and changes
    nothing else — whatever the first `shutdown` is doing at that moment. -/
theorem C13_layerB_second_shutdown_returns {b : BState} {i : Nat} (o : Oracle) (hs : b.g.shutting = true)
    (hpc : b.cl[i]? = some .shutCas) :
    clientAct b i o = .ok (finishCall b i .none, o) := by
  unfold clientAct
  simp only [hpc, hs, if_true]

/-- … and a `shutdown()` issued after the flag is set reaches that compare-and-swap by its first action. -/
theorem C13_layerB_second_shutdown_start {b : BState} {i : Nat} (o : Oracle) (hpc : b.cl[i]? = some (.start .shutdown)) :
    clientAct b i o = .ok (setClient b i .shutCas, o) := by
  unfold clientAct
  simp only [hpc]
  split <;> rfl

/-- C13 (the worker executes `Shutdown`): it acknowledges the command as accepted, moves to `worker.drain` and
    records the mode `draining`. -/
theorem C13_layerB_worker_shutdown {b : BState} (o : Oracle) {h : Option Nat} {q : List (Cmd × Option Nat)}
    (hw : b.w = .recv) (hq : b.g.queue = (.shutdown, h) :: q) :
    workerAct b o = .ok ({ b with g := { b.g with queue := q, acks := setAck b.g.acks h .accepted, worker := .draining },
                                  w := .drain }, o) := by
  simp only [workerAct, hw, hq]
  rfl

/-- C13 (draining): at `worker.drain` EVERY worker action takes the head command, whatever it is, answers it
    `ShuttingDown`, executes nothing, and stays at `worker.drain` (with an empty queue the worker waits). -/
theorem C13_layerB_draining {b : BState} (o : Oracle) (hw : b.w = .drain) :
    (b.g.queue = [] ∧ workerAct b o = .error "not enabled: the command queue is empty") ∨
    (∃ cmd h q, b.g.queue = (cmd, h) :: q ∧
      workerAct b o = .ok ({ b with g := { b.g with queue := q, acks := setAck b.g.acks h .shuttingDown }, w := .drain }, o)) := by
  cases hq : b.g.queue with
  | nil => exact Or.inl ⟨rfl, by simp only [workerAct, hw, hq]⟩
  | cons p q =>
    obtain ⟨cmd, h⟩ := p
    exact Or.inr ⟨cmd, h, q, rfl, by simp only [workerAct, hw, hq]; rfl⟩

@[simp] theorem applyEvict_worker (g : State) (e : Evicted) : (applyEvict g e).worker = g.worker := by
  obtain ⟨i, k, w⟩ := e; simp only [applyEvict]; split <;> rfl

theorem ctrans_worker {b b' : BState} {i : Nat} (h : CTrans b i b') : b'.g.worker = b.g.worker := by
  cases h
  case getPool hp => rw [poolAdd_frame hp]; rfl
  case refPool hp => rw [poolAdd_frame hp]; rfl
  case shutLocal hg => rw [hg]; rfl
  case mgetStep hg => rw [hg]; rfl
  case mgetFin hg => rw [hg]; rfl
  case upAfterSame => rcases upAfterIndex_spec b i _ _ with ⟨_, h⟩ | ⟨_, _, h⟩ | h <;> rw [h] <;> rfl
  case upAfterPut id e uw _ _ _ =>
    rcases upAfterIndex_spec { b with g := ttlPut b.g id e } i id uw with ⟨_, h⟩ | ⟨_, _, h⟩ | h <;> rw [h] <;> rfl
  case upAfterDelete id e uw _ _ =>
    rcases upAfterIndex_spec { b with g := ttlDelete b.g id e } i id uw with ⟨_, h⟩ | ⟨_, _, h⟩ | h <;> rw [h] <;> rfl
  all_goals rfl

/-- the worker stands at `worker.drain` exactly when the shared mode says `draining` -/
def DrainInv (b : BState) : Prop := b.w = .drain ↔ b.g.worker = .draining

theorem drainInv_step {b b' : BState} {a : Act} {o o' : Oracle} (hd : DrainInv b) (h : stepB b a o = .ok (b', o')) :
    DrainInv b' := by
  unfold DrainInv at hd ⊢
  cases a with
  | issue i r =>
    simp only [stepB] at h
    split at h
    · rename_i b1 hi
      simp only [Except.ok.injEq, Prod.mk.injEq] at h; obtain ⟨rfl, rfl⟩ := h
      unfold issue at hi
      split at hi
      · simp only [Except.ok.injEq] at hi; subst hi; exact hd
      · cases hi
    · cases h
  | client i =>
    have ht := clientAct_trans h
    rw [(ctrans_frame ht).1, ctrans_worker ht]; exact hd
  | worker =>
    have ht := workerAct_trans h
    cases ht
    all_goals simp [finishCmd, rejectCmd, ttlPut, ttlDelete, *] at *
    all_goals assumption
  | sweeper v =>
    simp only [stepB] at h
    split at h
    · rename_i b1 hs'
      simp only [Except.ok.injEq, Prod.mk.injEq] at h; obtain ⟨rfl, rfl⟩ := h
      have ht := sweeperAct_trans hs'
      have hw : b1.g.worker = b.g.worker := by
        cases ht
        all_goals simp [sweepNext_g]
      rw [(strans_frame ht).1, hw]; exact hd
    · cases h
  | consumer =>
    simp only [stepB] at h
    split at h
    · rename_i g' out o1 hc
      simp only [Except.ok.injEq, Prod.mk.injEq] at h; obtain ⟨rfl, rfl⟩ := h
      show b.w = .drain ↔ g'.worker = .draining
      rw [consumerStep_frame hc]; exact hd
    · cases h
  | advance d =>
    simp only [stepB, Except.ok.injEq, Prod.mk.injEq] at h; obtain ⟨rfl, rfl⟩ := h
    exact hd

theorem C13_layerB_drain_inv {cfg : Cfg} {now : Nat} {seeds : List Nat} {clients : Nat} {b : BState}
    (h : Reach cfg now seeds clients b) : b.w = .drain ↔ b.g.worker = .draining := by
  induction h with
  | init _ => simp [BState.init, State.init]
  | step _ hs ih => exact drainInv_step ih hs

/-- C13 (draining, at every reachable state): once the worker has executed `Shutdown` (the shared mode says
    `draining`), every worker action answers the head command `ShuttingDown` and the worker keeps draining. -/
theorem C13_layerB_draining_reach {cfg : Cfg} {now : Nat} {seeds : List Nat} {clients : Nat} {b : BState}
    (h : Reach cfg now seeds clients b) (hd : b.g.worker = .draining) (o : Oracle) :
    (b.g.queue = [] ∧ workerAct b o = .error "not enabled: the command queue is empty") ∨
    (∃ cmd hh q b', b.g.queue = (cmd, hh) :: q ∧ workerAct b o = .ok (b', o) ∧
      b'.g.acks = setAck b.g.acks hh .shuttingDown ∧ b'.g.queue = q ∧ b'.g.worker = .draining ∧ b'.w = .drain ∧
      b'.g.store = b.g.store ∧ b'.g.adm = b.g.adm ∧ b'.g.ttl = b.g.ttl) := by
  rcases C13_layerB_draining o ((C13_layerB_drain_inv h).mpr hd) with h' | ⟨cmd, hh, q, hq, hw⟩
  · exact Or.inl h'
  · exact Or.inr ⟨cmd, hh, q, _, hq, hw, rfl, rfl, hd, rfl, rfl, rfl, rfl⟩

/-! ## concrete interleavings (non-vacuity) -/

def cfgEx : Cfg := { maxWeight := 10, shards := 1, cmdCap := 4, poolSize := 1, bufSize := 2, counters := 2 }

/-- the empty oracle -/
def noO : Oracle := {}

/-- a whole call of client `i`: `n` actions after the issue -/
def call (i : Nat) (r : Req) (n : Nat) : List (Act × Oracle) := (.issue i r, noO) :: List.replicate n (.client i, noO)

def workerN (n : Nat) : List (Act × Oracle) := List.replicate n (.worker, noO)

/-- put key 1 (weight 3, TTL 5 ns) and let the worker run it to the end; let it expire; the sweeper takes it out of
    `kw` and stops BEFORE `wu.sub`; a second put (key 2, weight 4) is run by the worker up to just BEFORE `wu.add`;
    then client 1 reads `total_weight_used`. -/
def midFlight : List (Act × Oracle) :=
  call 0 (.putW 1 100 3 (some 5)) 4 ++ workerN 7 ++ [(.advance 10, noO)] ++
  [(.sweeper none, noO), (.sweeper (some 1), noO), (.sweeper none, noO)] ++
  call 0 (.putW 2 200 4 none) 4 ++ workerN 4 ++ call 1 .weight 2

example :
    (match runB (BState.init cfgEx 0 [1, 2, 3, 4] 2) midFlight with
     | .ok b =>
       (match b.w, b.sw with
        | .add _, .sub _ _ _ _ _ => true
        | _, _ => false) &&
       decide (pendingAdd b = 4 ∧ pendingSub b = 3 ∧ b.g.adm.used = 3 ∧ sumW b.g.adm.kw = 4 ∧
               b.g.adm.used = sumW b.g.adm.kw - pendingAdd b + pendingSub b ∧
               b.g.adm.used ≠ sumW b.g.adm.kw ∧ 0 ≤ b.g.adm.used ∧ b.g.adm.used ≤ b.g.adm.max) &&
       (match b.res[1]? with
        | some [Out.weight w] => decide (w = 3 ∧ 0 ≤ w ∧ w ≤ 10)
        | _ => false)
     | _ => false) = true := by decide

/-- the same, as a reachable state: the accounting identity holds with BOTH corrections non-zero, the exact
    identity `used = Σ kw` does NOT hold at this instant, and the total a client reads lies within `[0, max]` -/
theorem layerB_midflight_reachable :
    ∃ b, Reach cfgEx 0 [1, 2, 3, 4] 2 b ∧ pendingAdd b ≠ 0 ∧ pendingSub b ≠ 0 ∧
      b.g.adm.used = sumW b.g.adm.kw - pendingAdd b + pendingSub b ∧ b.g.adm.used ≠ sumW b.g.adm.kw ∧
      0 ≤ b.g.adm.used ∧ b.g.adm.used ≤ cfgEx.maxWeight := by
  have hrun : ∃ b, runB (BState.init cfgEx 0 [1, 2, 3, 4] 2) midFlight = .ok b ∧ pendingAdd b ≠ 0 ∧
      pendingSub b ≠ 0 ∧ b.g.adm.used = sumW b.g.adm.kw - pendingAdd b + pendingSub b ∧
      b.g.adm.used ≠ sumW b.g.adm.kw ∧ 0 ≤ b.g.adm.used ∧ b.g.adm.used ≤ cfgEx.maxWeight := by
    refine ⟨_, rfl, ?_⟩
    decide
  obtain ⟨b, hr, hrest⟩ := hrun
  exact ⟨b, reach_runB _ (.init []) hr, hrest⟩

/-- keys 1 (weight 3, TTL) and 2 (weight 3) are in; key 1 expires and the sweeper stops before its `wu.sub`, owning
    shard 0; a put of weight 8 makes the worker evict key 2 and stop at `store.remove`, owning `weight_used` -/
def lockedRun : List (Act × Oracle) :=
  call 0 (.putW 1 100 3 (some 5)) 4 ++ workerN 7 ++ call 0 (.putW 2 200 3 none) 4 ++ workerN 6 ++
  [(.advance 10, noO), (.sweeper none, noO), (.sweeper (some 1), noO), (.sweeper none, noO)] ++
  call 0 (.putW 3 300 8 none) 4 ++
  [(.worker, noO), (.worker, noO), (.worker, { dk := [false] }),
   (.worker, { dk := [false], ids := [2], pops := [some 2] }), (.worker, noO), (.worker, noO)]

/-- Non-vacuity of C18 (a), (c): the worker owns `weight_used` at `evStore`, the sweeper owns shard 0 and waits at
    `wu.sub` for exactly that lock; the worker's action is enabled, and after it the sweeper's is. -/
example :
    (match runB (BState.init cfgEx 0 [1, 2, 3, 4] 2) lockedRun with
     | .ok b =>
       decide (b.wuOwner = some .worker ∧ b.ttlOwner = some 0) &&
       (match b.w, b.sw with
        | .evStore _ _ _ _ _, .sub _ _ _ _ _ => true
        | _, _ => false) &&
       (match sweeperAct b none with
        | .error m => m == "not enabled: weight_used is locked"
        | _ => false) &&
       (match workerAct b noO with
        | .ok (b1, _) => decide (b1.wuOwner = none) && (match sweeperAct b1 none with | .ok _ => true | _ => false)
        | _ => false) &&
       decide (b.g.adm.used = 3 ∧ sumW b.g.adm.kw = 0 ∧ pendingAdd b = 0 ∧ pendingSub b = 3 ∧ 0 ≤ b.g.adm.used)
     | _ => false) = true := by decide

/-- **The Layer B witness of the recorded defect** (full C01 is false): put key 1 with weight 5, `put_or_update` it
    to weight 300; the worker's `kw.update` action is an `UnsafeUpdate`, and after it the total is 300 > 10. -/
def overRun : List (Act × Oracle) :=
  call 0 (.putW 1 100 5 none) 4 ++ workerN 6 ++ call 0 (.upsert 1 none (some 300) none false) 4 ++ workerN 1

theorem C01_layerB_counterexample :
    ∃ b b', Reach cfgEx 0 [1, 2, 3, 4] 2 b ∧ BBound b ∧ UnsafeUpdate b .worker ∧
      stepB b .worker noO = .ok (b', noO) ∧ b'.g.adm.used = 300 ∧ ¬ b'.g.adm.used ≤ cfgEx.maxWeight ∧ ¬ BBound b' := by
  have hrun : ∃ b, runB (BState.init cfgEx 0 [1, 2, 3, 4] 2) overRun = .ok b ∧
      b.w = .update 1 300 (some 1) ∧ b.g.adm.kw.get? 1 = some ⟨1, 1, 5⟩ ∧ b.g.adm.used = 5 ∧ b.g.adm.max = 10 ∧
      b.wuOwner = none := by
    refine ⟨_, rfl, ?_⟩
    exact ⟨rfl, by decide, by decide, by decide, by decide⟩
  obtain ⟨b, hr, hw, hg, hu, hm, ho⟩ := hrun
  have hstep : ∃ b', stepB b .worker noO = .ok (b', noO) ∧ b'.g.adm.used = 300 ∧ b'.g.adm.max = 10 ∧ b'.w = .recv := by
    simp only [stepB, workerAct, hw, wuFree, ho, workerUpdateWeight, hg, hu]
    exact ⟨_, rfl, by simp [finishCmd], hm, rfl⟩
  obtain ⟨b', hs, hu', hm', hw'⟩ := hstep
  refine ⟨b, b', reach_runB _ (.init []) hr, ?_, ⟨rfl, 1, 300, some 1, hw, ⟨1, 1, 5⟩, hg, ?_⟩, hs, hu', ?_, ?_⟩
  · simp only [BBound, hw, hu, hm]; decide
  · rw [hu, hm]; decide
  · rw [hu']; decide
  · simp only [BBound, hw', hu', hm']; decide

/-- Non-vacuity of C04: `delete(1)` marks the entry soft (`delete.mark`), and the entry is still soft two actions
    later; the worker's `store.remove` then takes it out. -/
example :
    (match runB (BState.init cfgEx 0 [1, 2, 3, 4] 2) (call 0 (.putW 1 100 5 none) 4 ++ workerN 6 ++ call 0 (.delete 1) 2) with
     | .ok b =>
       (match b.g.store.get? 1 with
        | some e => e.soft && decide (e.id = 1)
        | none => false) &&
       (match runB b [(.client 0, noO), (.worker, noO)] with
        | .ok b1 => (match b1.g.store.get? 1 with | some e => e.soft | none => false) &&
            (match runB b1 [(.worker, noO)] with
             | .ok b2 => (b2.g.store.get? 1).isNone
             | _ => false)
        | _ => false)
     | _ => false) = true := by decide

/-- Non-vacuity of C02: a `get(1)` of client 1 that hits — `store.get` picks up 100, `pool.add` returns it. -/
example :
    (match runB (BState.init cfgEx 0 [1, 2, 3, 4] 2)
        (call 0 (.putW 1 100 5 none) 4 ++ workerN 6 ++ [(.issue 1 (.get 1), noO), (.client 1, noO), (.client 1, noO)]) with
     | .ok b =>
       (match b.cl[1]? with
        | some (CPc.getPool k v) => decide (k = 1 ∧ v = 100)
        | _ => false) &&
       (match runB b [(.client 1, { pool := [0] })] with
        | .ok b1 => (match b1.res[1]? with
            | some [Out.value (some v)] => decide (v = 100)
            | _ => false)
        | _ => false)
     | _ => false) = true := by decide

/-- Non-vacuity of the multi-key C02 statements (`C02_layerB_mget_store`, `C02_layerB_mget_pool`,
    `C02_layerB_mread_current`): client 1 runs `multi_get([1, 2])` while only key 1 is stored (first action, the load at
    the entry, the load inside `get(1)`, `store.get`); after key 1 is done (`store.get` picks up 100, `pool.add` records
    it) client 0 and the worker put key 2 — IN BETWEEN the two keys of the read — so the read's second `store.get` hits
    the new entry, and the call returns `[Some(100), Some(200)]`. -/
def mgetRun : List (Act × Oracle) :=
  call 0 (.putW 1 100 5 none) 4 ++ workerN 6 ++
  [(.issue 1 (.mget [1, 2] false), noO), (.client 1, noO), (.client 1, noO), (.client 1, noO), (.client 1, noO)]

example :
    (match runB (BState.init cfgEx 0 [1, 2, 3, 4] 2) mgetRun with
     | .ok b =>
       (match b.cl[1]? with
        | some (CPc.mgetPool k v ks acc iter) => decide (k = 1 ∧ v = 100 ∧ ks = [2] ∧ acc = [] ∧ iter = false)
        | _ => false) &&
       (match runB b [(.client 1, { pool := [0] })] with
        | .ok b1 =>
          (match b1.cl[1]? with
           | some (CPc.mgetFlag outer ks acc iter) => decide (outer = false ∧ ks = [2] ∧ acc = [some 100] ∧ iter = false)
           | _ => false) &&
          -- another client and the worker move between the two keys of the read
          (match runB b1 (call 0 (.putW 2 200 3 none) 4 ++ workerN 6 ++ [(.client 1, noO), (.client 1, noO)]) with
           | .ok b2 =>
             (match b2.cl[1]? with
              | some (CPc.mgetPool k v ks acc iter) => decide (k = 2 ∧ v = 200 ∧ ks = [] ∧ acc = [some 100] ∧ iter = false)
              | _ => false) &&
             (match runB b2 [(.client 1, { pool := [0] })] with
              | .ok b3 =>
                (match b3.res[1]?, b3.cl[1]? with
                 | some [Out.values vs], some CPc.idle => decide (vs = [some 100, some 200])
                 | _, _ => false) && decide (b3.g.stats.hits = 2 ∧ b3.g.stats.misses = 0)
              | _ => false)
           | _ => false) &&
          -- without the interleaved put the second key is a miss
          (match runB b1 [(.client 1, noO), (.client 1, noO)] with
           | .ok b2 =>
             (match b2.res[1]?, b2.cl[1]? with
              | some [Out.values vs], some CPc.idle => decide (vs = [some 100, none])
              | _, _ => false) && decide (b2.g.stats.hits = 1 ∧ b2.g.stats.misses = 1)
           | _ => false)
        | _ => false)
     | _ => false) = true := by decide

/-- Non-vacuity of `C13_layerB_mget_after_flag` / `C13_layerB_mget_pool_after_flag`: the same read, but client 0's
    `shutdown()` sets the flag while the read stands at the `pool.add` of key 1: the access record is still made, the
    load inside `get(2)` finds the flag set: `multi_get` returns `[Some(100), None]` without looking key 2 up and without
    counting a miss; the iterator (`iter = true`, next example) returns `[Some(100)]`; and a read issued after the flag
    is set returns no values, in two actions (`C13_layerB_mget_refused`). -/
example :
    (match runB (BState.init cfgEx 0 [1, 2, 3, 4] 2) (mgetRun ++ call 0 .shutdown 2) with
     | .ok b =>
       b.g.shutting &&
       (match runB b [(.client 1, { pool := [0] }), (.client 1, noO)] with
        | .ok b1 =>
          (match b1.res[1]?, b1.cl[1]? with
           | some [Out.values vs], some CPc.idle => decide (vs = [some 100, none])
           | _, _ => false) && decide (b1.g.stats.hits = 1 ∧ b1.g.stats.misses = 0) &&
          (match runB b1 (call 1 (.mget [1, 2] true) 2) with
           | .ok b2 => (match b2.res[1]?, b2.cl[1]? with
               | some (Out.values vs :: _), some CPc.idle => decide (vs = [])
               | _, _ => false)
           | _ => false)
        | _ => false)
     | _ => false) = true := by decide

example :
    (match runB (BState.init cfgEx 0 [1, 2, 3, 4] 2)
        (call 0 (.putW 1 100 5 none) 4 ++ workerN 6 ++
         [(.issue 1 (.mget [1, 2] true), noO), (.client 1, noO), (.client 1, noO), (.client 1, noO), (.client 1, noO)] ++
         call 0 .shutdown 2 ++ [(.client 1, { pool := [0] }), (.client 1, noO)]) with
     | .ok b =>
       (match b.res[1]?, b.cl[1]? with
        | some [Out.values vs], some CPc.idle => decide (vs = [some 100])
        | _, _ => false)
     | _ => false) = true := by decide

/-- **The `None` without a miss** (the drift that made every flag load an action of its own).  Key 1 ↦ 100 is stored and
    alive.  Client 1 calls `multi_get_iterator([1]).next()`: first action, then the load of `next()` (flag clear); client
    0 runs `shutdown()` up to and including its compare-and-swap; client 1's load inside `get` finds the flag set: the
    iterator yields `[None]` although key 1 is still stored and alive (`shutdown()` has not cleared the store yet), no
    lookup was made: hits and misses are both 0.  Likewise `multi_get([1, 2])` caught after the load at its entry
    answers `[None, None]` — full length, no miss.  (The model before the change could only answer `[]` or
    `[Some(100)]` here.) -/
example :
    (match runB (BState.init cfgEx 0 [1, 2, 3, 4] 2)
        (call 0 (.putW 1 100 5 none) 4 ++ workerN 6 ++
         [(.issue 1 (.mget [1] true), noO), (.client 1, noO), (.client 1, noO)] ++ call 0 .shutdown 2 ++
         [(.client 1, noO)]) with
     | .ok b =>
       (match b.res[1]?, b.cl[1]?, b.g.store.get? 1 with
        | some [Out.values vs], some CPc.idle, some e => decide (vs = [none]) && e.alive b.g.now && decide (e.value = 100)
        | _, _, _ => false) && decide (b.g.stats.hits = 0 ∧ b.g.stats.misses = 0) && b.g.shutting
     | _ => false) = true ∧
    (match runB (BState.init cfgEx 0 [1, 2, 3, 4] 2)
        (call 0 (.putW 1 100 5 none) 4 ++ workerN 6 ++
         [(.issue 1 (.mget [1, 2] false), noO), (.client 1, noO), (.client 1, noO)] ++ call 0 .shutdown 2 ++
         [(.client 1, noO), (.client 1, noO)]) with
     | .ok b =>
       (match b.res[1]?, b.cl[1]? with
        | some [Out.values vs], some CPc.idle => decide (vs = [none, none])
        | _, _ => false) && decide (b.g.stats.hits = 0 ∧ b.g.stats.misses = 0)
     | _ => false) = true := by decide

/-- runs a list of actions and collects the history -/
def histOf : BState → List (Act × Oracle) → List (BState × Act) → Except String (List (BState × Act) × BState)
  | b, [], h => .ok (h, b)
  | b, (a, o) :: rest, h =>
    match stepB b a o with
    | .ok (b', _) => histOf b' rest ((b, a) :: h)
    | .error m => .error m

def isIssueOf (i : Nat) : Act → Bool
  | .issue j _ => j == i
  | _ => false

theorem runH_histOf {b0 : BState} : ∀ (l : List (Act × Oracle)) {b b' : BState} {h h' : List (BState × Act)},
    RunH b0 h b → histOf b l h = .ok (h', b') → RunH b0 h' b' := by
  intro l
  induction l with
  | nil =>
    intro b b' h h' hr hh
    simp only [histOf, Except.ok.injEq, Prod.mk.injEq] at hh
    obtain ⟨rfl, rfl⟩ := hh
    exact hr
  | cons x l ih =>
    intro b b' h h' hr hh
    obtain ⟨a, o⟩ := x
    simp only [histOf] at hh
    split at hh
    · rename_i b1 o1 hs
      exact ih (.step hr hs) hh
    · cases hh

theorem histOf_noIssue (i : Nat) : ∀ (l : List (Act × Oracle)) {b b' : BState} {h h' : List (BState × Act)},
    (∀ p ∈ h, isIssueOf i p.2 = false) → l.all (fun x => !isIssueOf i x.1) = true → histOf b l h = .ok (h', b') →
    ∀ p ∈ h', ∀ r, p.2 ≠ .issue i r := by
  intro l
  induction l with
  | nil =>
    intro b b' h h' hh _ hr p hp r e
    simp only [histOf, Except.ok.injEq, Prod.mk.injEq] at hr
    obtain ⟨rfl, rfl⟩ := hr
    have := hh p hp
    rw [e] at this
    simp [isIssueOf] at this
  | cons x l ih =>
    intro b b' h h' hh hl hr
    obtain ⟨a, o⟩ := x
    simp only [List.all_cons, Bool.and_eq_true, Bool.not_eq_true'] at hl
    simp only [histOf] at hr
    split at hr
    · refine ih ?_ hl.2 hr
      intro p hp
      rcases List.mem_cons.mp hp with rfl | hp
      · exact hl.1
      · exact hh p hp
    · cases hr

/-- key 1 is stored, client 1 has issued `multi_get([1, 2])` -/
def mgetB0 : BState :=
  match runB (BState.init cfgEx 0 [1, 2, 3, 4] 2)
      (call 0 (.putW 1 100 5 none) 4 ++ workerN 6 ++ [(.issue 1 (.mget [1, 2] false), noO)]) with
  | .ok b => b
  | .error _ => BState.init cfgEx 0 [] 0

/-- client 1 reads key 1; client 0 and the worker put key 2; client 1 reads key 2 -/
def mgetActs : List (Act × Oracle) :=
  [(.client 1, noO), (.client 1, noO), (.client 1, noO), (.client 1, noO), (.client 1, { pool := [0] })] ++
  call 0 (.putW 2 200 3 none) 4 ++ workerN 6 ++
  [(.client 1, noO), (.client 1, noO), (.client 1, { pool := [0] })]

/-- Non-vacuity of `C02_layerB_mget_current`: an interleaving as a history — client 1's `multi_get([1, 2])`, with
    client 0 and the worker putting key 2 BETWEEN the two keys of the read — satisfies every hypothesis, and the call
    returns `[Some(100), Some(200)]`. -/
theorem C02_layerB_mget_current_witness :
    ∃ b0 h b, RunH b0 h b ∧ b0.cl[1]? = some (.start (.mget [1, 2] false)) ∧ 1 < b0.res.length ∧
      (∀ p ∈ h, ∀ r, p.2 ≠ .issue 1 r) ∧ b.cl[1]? = some .idle ∧
      (match b.res[1]? with
       | some [Out.values vs] => decide (vs = [some 100, some 200])
       | _ => false) = true := by
  have hh : ∃ h b, histOf mgetB0 mgetActs [] = .ok (h, b) ∧ b.cl[1]? = some .idle ∧
      (match b.res[1]? with
       | some [Out.values vs] => decide (vs = [some 100, some 200])
       | _ => false) = true := ⟨_, _, rfl, rfl, by decide⟩
  obtain ⟨h, b, hrun, hidle, hout⟩ := hh
  exact ⟨mgetB0, h, b, runH_histOf _ (.nil _) hrun, rfl, by decide,
    histOf_noIssue 1 _ (fun p hp => by cases hp) (by decide) hrun, hidle, hout⟩

/-- key 1 ↦ 100 is stored, client 1 has issued `multi_get_iterator([1])` -/
def mgetNoneB0 : BState :=
  match runB (BState.init cfgEx 0 [1, 2, 3, 4] 2)
      (call 0 (.putW 1 100 5 none) 4 ++ workerN 6 ++ [(.issue 1 (.mget [1] true), noO)]) with
  | .ok b => b
  | .error _ => BState.init cfgEx 0 [] 0

/-- client 1: first action, the load of `next()` (flag clear); client 0: `shutdown()` up to and including the
    compare-and-swap; client 1: the load inside `get` (flag set) -/
def mgetNoneActs : List (Act × Oracle) :=
  [(.client 1, noO), (.client 1, noO)] ++ call 0 .shutdown 2 ++ [(.client 1, noO)]

/-- Non-vacuity of `C13_layerB_mget_around_shutdown`, and the concrete `[None]`-without-miss run: an interleaving as a
    history — client 1's `multi_get_iterator([1]).next()` with client 0's `shutdown.cas` BETWEEN the load of `next()` and
    the load inside `get` — satisfies every hypothesis; the call returns `[None]`; hits and misses are what they were
    when the call was issued (no lookup was made), and key 1 is still stored with its alive value 100. -/
theorem C13_layerB_mget_none_without_miss_witness :
    ∃ b0 h b, RunH b0 h b ∧ b0.cl[1]? = some (.start (.mget [1] true)) ∧ 1 < b0.res.length ∧
      (∀ p ∈ h, ∀ r, p.2 ≠ .issue 1 r) ∧ b.cl[1]? = some .idle ∧
      (match b.res[1]? with
       | some [Out.values vs] => decide (vs = [none])
       | _ => false) = true ∧
      b.g.stats.hits = b0.g.stats.hits ∧ b.g.stats.misses = b0.g.stats.misses ∧
      (match b.g.store.get? 1 with
       | some e => e.alive b.g.now && decide (e.value = 100)
       | none => false) = true := by
  have hh : ∃ h b, histOf mgetNoneB0 mgetNoneActs [] = .ok (h, b) ∧ b.cl[1]? = some .idle ∧
      (match b.res[1]? with
       | some [Out.values vs] => decide (vs = [none])
       | _ => false) = true ∧
      b.g.stats.hits = mgetNoneB0.g.stats.hits ∧ b.g.stats.misses = mgetNoneB0.g.stats.misses ∧
      (match b.g.store.get? 1 with
       | some e => e.alive b.g.now && decide (e.value = 100)
       | none => false) = true := ⟨_, _, rfl, rfl, by decide, by decide, by decide, by decide⟩
  obtain ⟨h, b, hrun, hidle, hout, hh1, hh2, hst⟩ := hh
  exact ⟨mgetNoneB0, h, b, runH_histOf _ (.nil _) hrun, rfl, by decide,
    histOf_noIssue 1 _ (fun p hp => by cases hp) (by decide) hrun, hidle, hout, hh1, hh2, hst⟩

/-- Non-vacuity of `C01_layerB_bound_partial'`, `C05_layerB_at_rest`: a `ReachSafe` state that is at rest. -/
example : ∃ b, ReachSafe cfgEx 0 [1, 2, 3, 4] 2 b ∧ pendingAdd b = 0 ∧ pendingSub b = 0 :=
  ⟨_, .init [], rfl, rfl⟩

/-! ### shutdown and `get_ref` guards: counterexamples and non-vacuity -/

/-- put key 1 (weight 3); the worker runs it up to just BEFORE `wu.add` (the charge is in `kw`, not yet in `used`);
    client 1 calls `shutdown()` and runs it up to and including `shutdown.wu_zero` (nine actions after the issue:
    start, cas, cmd.send, buf.send, consumer_flag, ticker_flag, store_clear, kw_clear, wu_zero) -/
def voidRun : List (Act × Oracle) :=
  call 0 (.putW 1 100 3 none) 4 ++ workerN 4 ++ call 1 .shutdown 9

/-- **Why the accounting group of `BInv` is guarded by the shutdown flag.**  A reachable state — a `shutdown()` has
    run between the worker's `kw.insert` and its `wu.add`, and stands just after `shutdown.wu_zero` — in which the
    accounting identity FAILS (`used = 0`, `Σ kw = 0`, but `3` are still to be added), and so does `addCharged`
    (the worker stands at `wu.add`, its id is no longer charged).  The flag is set. -/
theorem layerB_accounting_void_after_shutdown :
    ∃ b, Reach cfgEx 0 [1, 2, 3, 4] 2 b ∧ b.g.shutting = true ∧ b.cl[1]? = some .shutAfClear ∧
      (∃ c, b.w = .add c ∧ b.g.adm.kw.get? c.id = none) ∧
      pendingAdd b = 3 ∧ pendingSub b = 0 ∧ b.g.adm.used = 0 ∧ sumW b.g.adm.kw = 0 ∧
      b.g.adm.used ≠ sumW b.g.adm.kw - pendingAdd b + pendingSub b ∧ ¬ BAcct b := by
  have hrun : ∃ b, runB (BState.init cfgEx 0 [1, 2, 3, 4] 2) voidRun = .ok b ∧ b.g.shutting = true ∧
      b.cl[1]? = some .shutAfClear ∧ (∃ c, b.w = .add c ∧ b.g.adm.kw.get? c.id = none) ∧
      pendingAdd b = 3 ∧ pendingSub b = 0 ∧ b.g.adm.used = 0 ∧ sumW b.g.adm.kw = 0 ∧
      b.g.adm.used ≠ sumW b.g.adm.kw - pendingAdd b + pendingSub b := by
    refine ⟨_, rfl, ?_⟩
    exact ⟨rfl, rfl, ⟨⟨1, 1, 3, 1, 100, none, some 0⟩, rfl, by decide⟩, by decide, by decide, by decide, by decide,
      by decide⟩
  obtain ⟨b, hr, h1, h2, h3, h4, h5, h6, h7, h8⟩ := hrun
  exact ⟨b, reach_runB _ (.init []) hr, h1, h2, h3, h4, h5, h6, h7, h8, fun h => h8 h.sum⟩

/-- … and the damage is permanent: the worker then completes its put (`wu.add`, `store.put`); everything is at rest,
    `key_weights` is empty, and `total_weight_used` reads 3. -/
example :
    (match runB (BState.init cfgEx 0 [1, 2, 3, 4] 2) (voidRun ++ workerN 2 ++ call 0 .weight 2) with
     | .ok b =>
       (match b.w with | .recv => true | _ => false) &&
       decide (pendingAdd b = 0 ∧ pendingSub b = 0 ∧ b.g.adm.used = 3 ∧ sumW b.g.adm.kw = 0 ∧ b.g.shutting = true) &&
       (match b.res[0]? with
        | some (Out.weight w :: _) => decide (w = 3)
        | _ => false)
     | _ => false) = true := by decide

/-- put key 1 (weight 3) and let the worker finish it; `delete(1)`; the worker runs the `Delete` up to just BEFORE
    `wu.sub` (the charge is out of `kw`, still in `used`); `shutdown()` up to and including `wu_zero`; then the
    worker's `wu.sub` -/
def negRun : List (Act × Oracle) :=
  call 0 (.putW 1 100 3 none) 4 ++ workerN 6 ++ call 0 (.delete 1) 3 ++ workerN 3 ++ call 1 .shutdown 9 ++ workerN 1

/-- **C01 is void after a shutdown**: a reachable state, everything at rest, in which the total is NEGATIVE
    (`shutdown()` zeroed `weight_used` between the worker's `kw.remove` and its `wu.sub`). -/
theorem layerB_negative_after_shutdown :
    ∃ b, Reach cfgEx 0 [1, 2, 3, 4] 2 b ∧ b.g.shutting = true ∧ pendingAdd b = 0 ∧ pendingSub b = 0 ∧
      b.g.adm.used = -3 ∧ ¬ 0 ≤ b.g.adm.used ∧ b.g.adm.used ≠ sumW b.g.adm.kw := by
  have hrun : ∃ b, runB (BState.init cfgEx 0 [1, 2, 3, 4] 2) negRun = .ok b ∧ b.g.shutting = true ∧
      pendingAdd b = 0 ∧ pendingSub b = 0 ∧ b.g.adm.used = -3 ∧ ¬ 0 ≤ b.g.adm.used ∧ b.g.adm.used ≠ sumW b.g.adm.kw := by
    refine ⟨_, rfl, ?_⟩
    exact ⟨rfl, by decide, by decide, by decide, by decide, by decide⟩
  obtain ⟨b, hr, hrest⟩ := hrun
  exact ⟨b, reach_runB _ (.init []) hr, hrest⟩

/-- Non-vacuity of the guarded C05 / C01: `midFlight` is a RUNNING state (flag unset) with both corrections non-zero. -/
example :
    (match runB (BState.init cfgEx 0 [1, 2, 3, 4] 2) midFlight with
     | .ok b => decide (b.g.shutting = false ∧ pendingAdd b = 4 ∧ pendingSub b = 3)
     | _ => false) = true := by decide

/-- A shutdown runs BETWEEN the worker's `kw.insert` and `wu.add`; meanwhile client 0 is inside a `delete(1)` whose
    command is sent after `Shutdown`.  Then the worker completes its put, executes `Shutdown`, and drains. -/
def drainRun : List (Act × Oracle) :=
  call 0 (.putW 1 100 3 none) 4 ++ workerN 4 ++ call 0 (.delete 1) 2 ++ call 1 .shutdown 3 ++ [(.client 0, noO)] ++
  List.replicate 9 (.client 1, noO) ++ workerN 3

/-- Non-vacuity of C13: in `drainRun`
    * the whole `shutdown()` (twelve actions) returned `()`, the flag is set, the worker stands at `worker.drain` and
      the mode says `draining` (`C13_layerB_worker_shutdown`, `C13_layerB_drain_inv`);
    * the worker's next action answers the queued `Delete` with `ShuttingDown` and keeps draining
      (`C13_layerB_draining`);
    * a new `put` is refused with `Err` by its first action, a new `get` and a new `get_ref` with `None`
      (`C13_layerB_refuses`), the store, the charges and the queue untouched;
    * a second `shutdown()` returns `()` after two actions (`C13_layerB_second_shutdown_returns`). -/
example :
    (match runB (BState.init cfgEx 0 [1, 2, 3, 4] 2) drainRun with
     | .ok b =>
       decide (b.g.shutting = true ∧ b.g.worker = .draining ∧ b.g.acks = [.accepted, .pending] ∧ b.g.queue.length = 1) &&
       (match b.w with | .drain => true | _ => false) &&
       (match b.res[1]? with | some [Out.none] => true | _ => false) &&
       (match runB b [(.worker, noO)] with
        | .ok b1 => decide (b1.g.acks = [.accepted, .shuttingDown] ∧ b1.g.queue.length = 0 ∧ b1.g.worker = .draining) &&
            (match b1.w with | .drain => true | _ => false)
        | _ => false) &&
       (match runB b (call 0 (.putW 2 200 4 none) 1) with
        | .ok b1 => (match b1.res[0]? with | some (Out.err :: _) => true | _ => false) &&
            decide (b1.g.queue.length = 1 ∧ b1.g.nextId = b.g.nextId ∧ b1.g.adm.used = b.g.adm.used)
        | _ => false) &&
       (match runB b (call 0 (.get 1) 1) with
        | .ok b1 => (match b1.res[0]? with | some (Out.value none :: _) => true | _ => false)
        | _ => false) &&
       (match runB b (call 0 (.getRef 1) 1) with
        | .ok b1 => (match b1.res[0]? with | some (Out.value none :: _) => true | _ => false) &&
            decide (b1.storeReaders = [])
        | _ => false) &&
       (match runB b (call 0 .shutdown 2) with
        | .ok b1 => (match b1.res[0]?, b1.cl[0]? with | some (Out.none :: _), some CPc.idle => true | _, _ => false)
        | _ => false)
     | _ => false) = true := by decide

/-- the hypotheses of `C13_layerB_refuses`, `C13_layerB_second_shutdown_returns`, `C13_layerB_draining_reach` hold at
    reachable states -/
example : ∃ b, Reach cfgEx 0 [1, 2, 3, 4] 2 b ∧ b.g.shutting = true ∧ b.g.worker = .draining ∧
    b.cl[0]? = some (.start (.putW 2 200 4 none)) ∧ b.cl[1]? = some .shutCas := by
  have hrun : ∃ b, runB (BState.init cfgEx 0 [1, 2, 3, 4] 2)
      (drainRun ++ [(.issue 0 (.putW 2 200 4 none), noO), (.issue 1 .shutdown, noO), (.client 1, noO)]) = .ok b ∧
      b.g.shutting = true ∧ b.g.worker = .draining ∧
      b.cl[0]? = some (.start (.putW 2 200 4 none)) ∧ b.cl[1]? = some .shutCas := by
    refine ⟨_, rfl, ?_⟩
    exact ⟨rfl, by decide, rfl, rfl⟩
  obtain ⟨b, hr, hrest⟩ := hrun
  exact ⟨b, reach_runB _ (.init []) hr, hrest⟩

/-- key 1 (weight 3) is in; client 1 calls `get_ref(1)` and stands at `pool.add`, keeping the read guard of the
    key's store shard; a put of weight 8 makes the worker evict key 1: it takes `weight_used` at `wu.sub` and stands
    at `store.remove` of key 1 -/
def guardRun : List (Act × Oracle) :=
  call 0 (.putW 1 100 3 none) 4 ++ workerN 6 ++ call 1 (.getRef 1) 2 ++ call 0 (.putW 3 300 8 none) 4 ++
  [(.worker, noO), (.worker, noO), (.worker, { dk := [false] }),
   (.worker, { dk := [false], ids := [1], pops := [some 1] }), (.worker, noO), (.worker, noO)]

/-- Non-vacuity of C18 (a) second alternative, (d), (e): in `guardRun` the worker owns `weight_used` at `evStore` and
    is NOT enabled — client 1 keeps the read guard; client 1's `pool.add` is enabled (legal oracle: buffer 0), returns
    the value, drops the guard, and then the worker's action is enabled and frees `weight_used`.  A `shutdown()` of
    client 0 runs up to `store_clear`, waits there for client 1's guard, and goes on once the guard is dropped; at
    `wu_zero` it waits for the worker (the owner of `weight_used`), and goes on once the worker has moved. -/
example :
    (match runB (BState.init cfgEx 0 [1, 2, 3, 4] 2) guardRun with
     | .ok b =>
       decide (b.wuOwner = some .worker ∧ b.storeReaders = [(1, 0)]) &&
       (match b.w, b.cl[1]? with
        | .evStore _ _ _ _ _, some (CPc.refPool 1 100) => true
        | _, _ => false) &&
       (match workerAct b noO with
        | .error m => m == "not enabled: the store shard is read-locked"
        | _ => false) &&
       (match runB b [(.client 1, { pool := [0] })] with
        | .ok b1 =>
          decide (b1.storeReaders = []) &&
          (match b1.res[1]? with | some [Out.value (some 100)] => true | _ => false) &&
          (match workerAct b1 noO with
           | .ok (b2, _) => decide (b2.wuOwner = none)
           | _ => false)
        | _ => false) &&
       (match runB b (call 0 .shutdown 6) with
        | .ok b1 =>
          (match b1.cl[0]? with | some CPc.shutStoreClear => true | _ => false) &&
          (match clientAct b1 0 noO with
           | .error m => m == "not enabled: a store shard is read-locked"
           | _ => false) &&
          (match runB b1 [(.client 1, { pool := [0] }), (.client 0, noO), (.client 0, noO)] with
           | .ok b2 =>
             (match b2.cl[0]? with | some CPc.shutWuZero => true | _ => false) &&
             (match clientAct b2 0 noO with
              | .error m => m == "not enabled: weight_used is locked"
              | _ => false) &&
             (match runB b2 [(.worker, noO), (.client 0, noO)] with
              | .ok b3 => (match b3.cl[0]? with | some CPc.shutAfClear => true | _ => false)
              | _ => false)
           | _ => false)
        | _ => false)
     | _ => false) = true := by decide

/-- the hypotheses of `C18_layerB_guard_holder_enabled`, `blocked_by_guard`, `C18_layerB_shutdown_progress` hold at a
    reachable state: `HoldsGuard` by client 1 on shard 0, the worker's store write blocked, client 0 at `store_clear` -/
example : ∃ b, Reach cfgEx 0 [1, 2, 3, 4] 2 b ∧ b.cl[1]? = some (.refPool 1 100) ∧ (1, 0) ∈ b.storeReaders ∧
    storeWritable b 1 none = false ∧ b.cl[0]? = some .shutStoreClear ∧ 0 < b.g.pool.length ∧
    b.wuOwner = some .worker := by
  have hrun : ∃ b, runB (BState.init cfgEx 0 [1, 2, 3, 4] 2) (guardRun ++ call 0 .shutdown 6) = .ok b ∧
      b.cl[1]? = some (.refPool 1 100) ∧ (1, 0) ∈ b.storeReaders ∧
      storeWritable b 1 none = false ∧ b.cl[0]? = some .shutStoreClear ∧ 0 < b.g.pool.length ∧
      b.wuOwner = some .worker := by
    refine ⟨_, rfl, ?_⟩
    exact ⟨rfl, by decide, by decide, rfl, by decide, by decide⟩
  obtain ⟨b, hr, hrest⟩ := hrun
  exact ⟨b, reach_runB _ (.init []) hr, hrest⟩

/-- the shard map is an input: with keys 1 and 3 on different store shards the same `get_ref(1)` guard does NOT
    block a `delete(3)` (shard 1) while it does block a `delete(1)` (shard 0) -/
example :
    (match runB { BState.init cfgEx 0 [1, 2, 3, 4] 3 with storeShard := [(1, 0), (3, 1)] }
        (call 0 (.putW 1 100 3 none) 4 ++ workerN 6 ++ call 1 (.getRef 1) 2 ++ call 0 (.delete 1) 1 ++ call 2 (.delete 3) 1) with
     | .ok b =>
       decide (b.storeReaders = [(1, 0)] ∧ storeWritable b 1 (some 0) = false ∧ storeWritable b 3 (some 2) = true ∧
               storeWritable b 1 (some 1) = true) &&
       (match clientAct b 0 noO with
        | .error m => m == "not enabled: the store shard is read-locked"
        | _ => false) &&
       (match clientAct b 2 noO with | .ok _ => true | _ => false)
     | _ => false) = true := by decide

end B
end Cached
