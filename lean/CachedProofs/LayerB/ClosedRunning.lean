/-
  C17, closed form, for runs WITHOUT `shutdown()` — and `weight_used ≤ i64::MAX` as a theorem.

  `C17_layerB_closed` (Closed.lean) asks `NoSpaceOverflow W N cfg`: `cfg.maxWeight + N * (W + ttlEntry * N) ≤ i64::MAX`.
  That is what a run needs in which `shutdown()` races a command (known finding D10: the total goes negative, and
  `max_weight - weight_used`, computed in `i64` by `is_space_available_for`, overflows under a limit near `i64::MAX`).
  It makes the theorem VACUOUS for the boundary configuration `maxWeight = i64::MAX`, which the builder accepts — even
  for runs that never call `shutdown()`, in which the overflow cannot happen.  And the three theorems of NoPanic.lean that
  say "the overflow needs a negative total / happens only after `shutdown()`" carry a hypothesis `used ≤ i64::MAX` that
  neither `Reach` nor `BInv` provides.  Both gaps are closed here.

  1  THE TOTAL IS AN `i64` (helper lemmas: ClosedRunningLemmas.lean, `CRInv`)
     `C17_layerB_used_le_i64Max`   Reach cfg now seeds clients b → cfg.maxWeight ≤ i64Max → b.g.adm.used ≤ i64Max
        — every reachable state of every interleaving, `shutdown()` included, NO hypothesis on the requests (any
        weights, any number of requests) and none on the sign of the limit.  Why: the total grows at two places only.
        `kw.update` (the worker's `UpdateWeight`) adds a difference AFTER the model's explicit `i64` check of the new
        total (its failure is known finding D9, the worker dies and the total is unchanged).  `wu.add` adds `c.w` after
        `store.present` has checked `c.w ≤ max_weight` and a `wu.space` has found `max_weight - weight_used ≥ c.w`;
        between that check and the add everybody else moves the total DOWN (sweeper, positive charges) or to ZERO
        (`shutdown.wu_zero`) — so `used + c.w ≤ max_weight` still holds at the add
        (`C17_layerB_add_fits`: at `kw.insert` / `wu.add`, `used + c.w ≤ cfg.maxWeight`).  A stale free space carried
        through `sample.init` / `sample.fill` is covered as well (`cr_wOk`).
        (`used ≤ max_weight` is not what is proved: an `UpdateWeight` is not checked against the limit.)
     The three theorems of NoPanic.lean WITHOUT `hu`:
     `C17_layerB_space_overflow_only_after_shutdown_reach`, `C17_layerB_space_overflow_needs_negative_total_reach`,
     `C17_layerB_space_overflow_total_negative_reach`.

  2  THE CLOSED THEOREM FOR RUNS THAT DO NOT CALL `shutdown()`
     `C17_layerB_closed_running`: `Bounded W T C N cfg now run`, `NoD4 cfg run`, `NoValueMissing … run` as in
        `C17_layerB_closed`, and INSTEAD of `NoSpaceOverflow`:
            `NoShutdownIssued run`  (no issued request is `shutdown`)  ∧  `0 ≤ cfg.maxWeight`  ∧  `cfg.maxWeight ≤ i64Max`.
        Then the run is a `ValidRunB`.  Proof: no `shutdown` issued ⇒ the flag stays clear and no client is inside
        `shutdown()` (`CrShut`, run invariant) ⇒ `0 ≤ used` (`BInv.used_nonneg`) and `used ≤ i64::MAX` (`CRInv`) ⇒
        `Adm.spaceOverflow = false` at every `wu.space`; everything else as in `cinv_pre`.
     `C17_layerB_closed_running_no_panic`, `C17_layerB_closed_running_inputs` (every hypothesis on the inputs: `Valued`).
     WHICH HYPOTHESES MENTION `maxWeight`: none of `Bounded` (`(N + 1) * (W + ttlEntry * N) ≤ i64::MAX` bounds weights and
        their sums, not the limit), not `NoD4`, not `NoValueMissing` / `Valued`; only `NoSpaceOverflow` did, and here only
        `0 ≤ cfg.maxWeight ≤ i64Max`.  So the theorem is NOT vacuous at `maxWeight = i64::MAX`:
     `crRun` — limit 9223372036854775807, `put_with_weight(1, 100, 3)`, `put_with_weight(2, 101, 1)`, `delete(1)`, all
        executed (30 actions) — satisfies every hypothesis of `C17_layerB_closed_running_inputs` (`crRun_hyps`, by
        `decide`), does NOT satisfy `NoSpaceOverflow` — no run of a cache with that limit does, unless
        `N * (W + ttlEntry * N) ≤ 0` (`cr_noSpaceOverflow_vacuous`) — and the theorem is applied to it (`crRun_no_panic`).

  3  LAYER A: `C17_run_no_panic_from_init`
     `C17_run_no_panic` (Properties/C17.lean) asks `Ev.pre`, whose worker clause contains the STATE condition
     `s.adm.Sound`.  `Ev.cr_pre` is `Ev.pre` without it (the caller-side conditions and the worker's two `i64` / time
     conditions); for runs from `State.init cfg now seeds` with `0 ≤ cfg.maxWeight ≤ i64Max`, `Sound` holds at every
     state: `Inv` (Lemmas/Inv.lean) gives all of it but `used ≤ i64::MAX`, which is `C17_layerA_used_le_i64Max`
     (a Layer A invariant, by `step_effect`).  Non-vacuity: `crRunA_no_panic` (limit `i64::MAX`, a put called and executed).

  Nothing here is false or partial.
-/
import CachedProofs.LayerB.ClosedRunningLemmas

namespace Cached
namespace B

/-! ## 1  the total is an `i64` -/

/-- **`weight_used ≤ i64::MAX` at every reachable state of every interleaving** — `shutdown()` included, whatever the
    requests — as soon as the configured limit is an `i64`. -/
theorem C17_layerB_used_le_i64Max {cfg : Cfg} {now : Nat} {seeds : List Nat} {clients : Nat} {b : BState}
    (hr : Reach cfg now seeds clients b) (hcI : cfg.maxWeight ≤ i64Max) : b.g.adm.used ≤ i64Max :=
  (cr_inv_reach hr hcI).usedI

/-- … because the weight the worker is about to add at `wu.add` (or to charge at `kw.insert`) still fits under the
    limit, whatever the sweeper and `shutdown()` have done since the worker's space check. -/
theorem C17_layerB_add_fits {cfg : Cfg} {now : Nat} {seeds : List Nat} {clients : Nat} {b : BState}
    (hr : Reach cfg now seeds clients b) (hcI : cfg.maxWeight ≤ i64Max) {c : PutCmd}
    (hw : b.w = .insert c ∨ b.w = .add c) : b.g.adm.used + c.w ≤ cfg.maxWeight := by
  have h := (cr_inv_reach hr hcI).wOk
  have hmx : b.g.adm.max = cfg.maxWeight := by rw [(binv_reach hr).maxFixed, reach_cfg hr]
  rw [hmx] at h
  rcases hw with hw | hw <;> rw [hw] at h <;> exact h.2

/-- `C17_layerB_space_overflow_only_after_shutdown` without the hypothesis on the total. -/
theorem C17_layerB_space_overflow_only_after_shutdown_reach {cfg : Cfg} {now : Nat} {seeds : List Nat} {clients : Nat}
    {b : BState} (hr : Reach cfg now seeds clients b) (hc0 : 0 ≤ cfg.maxWeight) (hcI : cfg.maxWeight ≤ i64Max) :
    (b.g.shutting = false → b.g.adm.spaceOverflow = false) ∧
    (b.g.adm.spaceOverflow = true → b.g.shutting = true ∧ b.g.adm.used < 0) :=
  C17_layerB_space_overflow_only_after_shutdown hr hc0 hcI (C17_layerB_used_le_i64Max hr hcI)

/-- `C17_layerB_space_overflow_needs_negative_total` at a reachable state: the hypotheses are on the configuration
    (a non-negative `i64` limit) and on the sign of the total alone. -/
theorem C17_layerB_space_overflow_needs_negative_total_reach {cfg : Cfg} {now : Nat} {seeds : List Nat} {clients : Nat}
    {b : BState} (hr : Reach cfg now seeds clients b) (hc0 : 0 ≤ cfg.maxWeight) (hcI : cfg.maxWeight ≤ i64Max)
    (h0 : 0 ≤ b.g.adm.used) :
    b.g.adm.spaceOverflow = false ∧
    (∀ c, WPc.pre b.g (.space0 c)) ∧ (∀ c e s, WPc.pre b.g (.evSpace c e s)) ∧ (∀ c, WPc.pre b.g (.emptySpace c)) ∧
    (((∃ c, b.w = .space0 c) ∨ (∃ c e s, b.w = .evSpace c e s) ∨ (∃ c, b.w = .emptySpace c)) →
      Act.pre b .worker ∧ ∀ b' o o', stepB b .worker o = .ok (b', o') → b'.w ≠ .dead ∧ b'.g.worker = b.g.worker) := by
  have hmx : b.g.adm.max = cfg.maxWeight := by rw [(binv_reach hr).maxFixed, reach_cfg hr]
  exact C17_layerB_space_overflow_needs_negative_total h0 (C17_layerB_used_le_i64Max hr hcI)
    (by rw [hmx]; exact hc0) (by rw [hmx]; exact hcI)

/-- `C17_layerB_space_overflow_total_negative` at a reachable state. -/
theorem C17_layerB_space_overflow_total_negative_reach {cfg : Cfg} {now : Nat} {seeds : List Nat} {clients : Nat}
    {b : BState} (hr : Reach cfg now seeds clients b) (hc0 : 0 ≤ cfg.maxWeight) (hcI : cfg.maxWeight ≤ i64Max)
    (hov : b.g.adm.spaceOverflow = true) : b.g.adm.used < 0 := by
  have hmx : b.g.adm.max = cfg.maxWeight := by rw [(binv_reach hr).maxFixed, reach_cfg hr]
  exact C17_layerB_space_overflow_total_negative hov (C17_layerB_used_le_i64Max hr hcI)
    (by rw [hmx]; exact hc0) (by rw [hmx]; exact hcI)

/-! ## 2  the closed theorem for runs without `shutdown()` -/

/-- **No `shutdown()` is called in the run** (a condition on the requests): no issued request is `shutdown`. -/
def NoShutdownIssued (run : List (Act × Oracle)) : Prop := ∀ r ∈ issued run, r.cr_isShut = false

instance (run : List (Act × Oracle)) : Decidable (NoShutdownIssued run) := by unfold NoShutdownIssued; infer_instance

/-- `cinv_pre` with the `wu.space` clause as a hypothesis: the run invariant `CInv` implies `Act.pre` for the next
    action, given that `max_weight - weight_used` is representable in the state at hand. -/
theorem cr_cinv_pre {cfg : Cfg} {T C : Nat} {W RB AB MB : Int} {a : Act} {o : Oracle} {tr : List (Act × Oracle)}
    {b : BState} (hE : 0 ≤ cfg.ttlEntry) (hM : 0 ≤ W + AB) (hMax : W + AB ≤ i64Max) (hMB : MB ≤ i64Max)
    (hT : (addTime C T).isSome = true) (hi : CInv cfg T C W RB AB MB ((a, o) :: tr) b)
    (hsp : b.g.adm.spaceOverflow = false)
    (hreq : ∀ i r, a = .issue i r → reqOk cfg T (fun x => RB < x ∧ x ≤ W) r) (hvm : vmOk b a = true) : a.pre b := by
  obtain ⟨c1, c2, c3, c4, c5, c6⟩ := hi
  have hlo := loS_nonneg hE ((a, o) :: tr) b
  have hhi := hiS_nonneg hE ((a, o) :: tr) b
  cases a with
  | issue i r =>
    have hr := hreq i r rfl
    show r.wf b.g.cfg
    rw [c1]
    cases r with
    | putW k v w ttl => have := hr.1.1; show 0 < w; omega
    | upsert k v w ttl rm =>
      show posW (upsertW cfg v w ttl)
      have := hr.1
      revert this
      generalize upsertW cfg v w ttl = u
      intro hu
      cases u with
      | none => trivial
      | some x => have := hu.1; show 0 < x; omega
    | _ => trivial
  | client i =>
    show clientPre b.g b.cl[i]?
    cases hcl : b.cl[i]? with
    | none => trivial
    | some pc =>
      have hok := c5.clients i pc hcl
      show pc.pre b.g
      cases pc with
      | start r =>
        cases r with
        | putW k v w ttl =>
          intro _
          have := hok.1
          unfold wR at this; omega
        | _ => trivial
      | upUpdate k v w ttl rm =>
        show upUpdatePre b.g.cfg b.g.now v w ttl rm (b.g.store.get? k)
        cases hget : b.g.store.get? k with
        | none =>
          refine ⟨?_, ?_⟩
          · cases v with
            | some val => rfl
            | none => simp [vmOk, hcl, AMap.contains, hget] at hvm
          · rw [c1]; exact posW_of_range hlo hok.1
        | some e =>
          intro _
          cases ttl with
          | none => trivial
          | some t => exact addTime_mono hT (by omega) hok.2
      | upWeightOf id uw old new => intro _; exact uwOk_of_range hlo hhi hMax hok
      | upTtlPut id e uw => exact uwOk_of_range hlo hhi hMax hok
      | upTtlDelete id e uw => exact uwOk_of_range hlo hhi hMax hok
      | upTtlInsert id e uw => exact uwOk_of_range hlo hhi hMax hok
      | _ => trivial
  | worker =>
    show b.w.pre b.g
    cases hw : b.w with
    | space0 c => exact hsp
    | evSpace c e s => exact hsp
    | emptySpace c => exact hsp
    | storePut c =>
      have := (c5.wcmd c (by simp [hw, WPc.cmd?])).2
      show timeOk b.g.now c.ttl
      cases hc : c.ttl with
      | none => trivial
      | some t =>
        rw [hc] at this
        exact addTime_mono hT (by omega) this
    | update id w h =>
      show updatePre b.g.adm.used w (b.g.adm.kw.get? id)
      cases hget : b.g.adm.kw.get? id with
      | none => trivial
      | some wk =>
        have hwu := c5.wupd w (by simp [hw, WPc.updW?])
        have hwk := kwAll_get c5.kw hget
        have hs := slk_nonneg hM CPc.cr b.cl
        have hq := qcr_nonneg hM b.g.queue
        have hk := kcr_nonneg hM b.g.adm.kw
        have hsv := bM_nonneg hM b.sw.crV
        have hb := budL_nonneg hM (fun _ => true) (issued ((Act.worker, o) :: tr))
        have u1 := c6.up
        have u3 := c6.lo
        simp only [cI, cD, hw, WPc.crI, WPc.crD, WPc.crV, bM_true, bM_false] at u1 u3
        unfold wR at hwu hwk
        unfold i64Max at hMax hMB
        simp only [updatePre, inI64, Bool.and_eq_true, decide_eq_true_eq]
        simp only [i64Min, i64Max]
        omega
    | _ => trivial
  | sweeper v => trivial
  | consumer => trivial
  | advance d => trivial

theorem cr_closed_aux {cfg : Cfg} {T C : Nat} {W RB AB MB : Int} (hE : 0 ≤ cfg.ttlEntry) (hM : 0 ≤ W + AB)
    (hMax : W + AB ≤ i64Max) (hMB : MB ≤ i64Max) (hT : (addTime C T).isSome = true)
    (hc0 : 0 ≤ cfg.maxWeight) (hcI : cfg.maxWeight ≤ i64Max) :
    ∀ (tr : List (Act × Oracle)) (b b' : BState), CInv cfg T C W RB AB MB tr b → BInv b → CRInv b → CrShut b →
      (∀ r ∈ issued tr, reqOk cfg T (fun x => RB < x ∧ x ≤ W) r) → NoShutdownIssued tr → NoValueMissing b tr →
      RunB b tr b' → ValidRunB b tr b' := by
  intro tr
  induction tr with
  | nil =>
    intro b b' _ _ _ _ _ _ _ hrun
    cases hrun
    exact .nil b
  | cons x tr ih =>
    intro b b' hinv hbi hcr hns hreqs hnsi hvm hrun
    obtain ⟨a, o⟩ := x
    cases hrun with
    | cons hstep hrest =>
      have hreq : ∀ i r, a = .issue i r → reqOk cfg T (fun x => RB < x ∧ x ≤ W) r := by
        intro i r ha
        subst ha
        exact hreqs r (by simp [issued])
      have hnoshut : ∀ i r, a = .issue i r → r.cr_isShut = false := by
        intro i r ha
        subst ha
        exact hnsi r (by simp [issued])
      obtain ⟨hv, hvnext⟩ := noValueMissing_cons hvm
      have hmx : b.g.adm.max = cfg.maxWeight := by rw [hbi.maxFixed, hinv.cfgEq]
      -- no `shutdown()` under way: the total is not negative; it is an `i64`: the subtraction cannot overflow
      have hsp : b.g.adm.spaceOverflow = false :=
        Adm.spaceOverflow_false (hbi.used_nonneg hns.flag) hcr.usedI (by rw [hmx]; exact hc0) (by rw [hmx]; exact hcI)
      have hpre := cr_cinv_pre hE hM hMax hMB hT hinv hsp hreq hv
      have hinv' := cinv_step hE hM hinv hstep hreq
      exact .cons hpre hstep
        (ih _ _ hinv' (binv_step hbi hstep) (cr_inv_step hbi (by rw [hmx]; exact hcI) hcr hstep)
          (cr_noShut_step hns hnoshut hstep) (fun r hr => hreqs r (issued_mem_cons hr))
          (fun r hr => hnsi r (issued_mem_cons hr)) (hvnext _ _ hstep) hrest)

/-- **C17, closed form, for runs in which `shutdown()` is not called (Layer B, all interleavings).**  Take ANY run of the
    action-granularity model from the initial state of a cache — any number of clients, any map of keys to store shards,
    any interleaving of clients, worker, sweeper, consumer and clock, every oracle — whose INPUTS satisfy `Bounded W T C N`
    (as in `C17_layerB_closed`), the input-level exclusion `NoD4` of the known finding D4, in which NO `shutdown` request
    is issued, and whose configured limit is a non-negative `i64` — `i64::MAX` included — and which avoids the
    state-dependent known finding D14 / second form (`NoValueMissing`).  Then EVERY action of the run meets `Act.pre` in
    the state it runs in: the run is a `ValidRunB`.  (`NoSpaceOverflow` is not asked: without `shutdown()` the total is
    never negative, and it is an `i64`.) -/
theorem C17_layerB_closed_running {W T C N : Nat} {cfg : Cfg} {now : Nat} {seeds : List Nat} {clients : Nat}
    {shardMap : List (Nat × Nat)} {run : List (Act × Oracle)} {b' : BState}
    (hB : Bounded W T C N cfg now run) (hD4 : NoD4 cfg run)
    (hNS : NoShutdownIssued run ∧ 0 ≤ cfg.maxWeight ∧ cfg.maxWeight ≤ i64Max)
    (hVM : NoValueMissing { BState.init cfg now seeds clients with storeShard := shardMap } run)
    (hrun : RunB { BState.init cfg now seeds clients with storeShard := shardMap } run b') :
    ValidRunB { BState.init cfg now seeds clients with storeShard := shardMap } run b' := by
  obtain ⟨hreqs, hN, hclock, hT, hE, hov⟩ := hB
  obtain ⟨hnsi, hc0, hcI⟩ := hNS
  have hRBeq := budL_eq cfg.ttlEntry Req.rmDerive (issued run)
  have hAB0 : 0 ≤ budL cfg.ttlEntry Req.addDerive (issued run) := budL_nonneg hE _ _
  have hlenN : ((issued run).length : Int) ≤ (N : Int) := by exact_mod_cast hN
  have hAB : budL cfg.ttlEntry Req.addDerive (issued run) ≤ cfg.ttlEntry * (N : Int) :=
    Int.le_trans (budL_le hE _ _) (Int.mul_le_mul_of_nonneg_left hlenN hE)
  have hM : 0 ≤ (W : Int) + budL cfg.ttlEntry Req.addDerive (issued run) := by omega
  have hM0 : 0 ≤ (W : Int) + cfg.ttlEntry * (N : Int) := by omega
  have hMB1 := budL_le hM (fun _ => true) (issued run)
  have hMB2 := Int.mul_le_mul_of_nonneg_left hlenN hM
  have hMB3 : ((W : Int) + budL cfg.ttlEntry Req.addDerive (issued run)) * (N : Int) ≤
      ((W : Int) + cfg.ttlEntry * (N : Int)) * (N : Int) :=
    Int.mul_le_mul_of_nonneg_right (by omega) (by omega)
  have hexp : ((N : Int) + 1) * ((W : Int) + cfg.ttlEntry * (N : Int)) =
      ((W : Int) + cfg.ttlEntry * (N : Int)) * (N : Int) + ((W : Int) + cfg.ttlEntry * (N : Int)) := by
    rw [Int.add_mul, Int.one_mul, Int.mul_comm]
  have hnn : 0 ≤ ((W : Int) + cfg.ttlEntry * (N : Int)) * (N : Int) := Int.mul_nonneg hM0 (by omega)
  refine cr_closed_aux (W := (W : Int)) hE hM (by omega) (by omega) hT hc0 hcI run _ _
    (cinv_init seeds clients shardMap run hclock) (binv_reach (Reach.init (cfg := cfg) (now := now) (seeds := seeds)
      (clients := clients) shardMap)) (cr_inv_init cfg now seeds clients shardMap)
    (cr_noShut_init cfg now seeds clients shardMap) ?_ hnsi hVM hrun
  intro r hr
  have h1 := hreqs r hr
  have h2 := hD4 r hr
  rw [hRBeq]
  refine reqOk.mono ?_ (reqOk_and h1 h2)
  intro x hx
  exact ⟨hx.1, hx.2.2⟩

/-- … hence, on every such run (with a sketch built by the constructor, `seeds ≠ []`): no caller ever gets a panic, the
    command worker never dies, the sketch stays well formed, and neither the sweeper nor the consumer has exited or been
    told to (`ExitInv` with the flag clear: `shutdown()` was never called). -/
theorem C17_layerB_closed_running_no_panic {W T C N : Nat} {cfg : Cfg} {now : Nat} {seeds : List Nat} {clients : Nat}
    {shardMap : List (Nat × Nat)} {run : List (Act × Oracle)} {b' : BState} (hs : seeds ≠ [])
    (hB : Bounded W T C N cfg now run) (hD4 : NoD4 cfg run)
    (hNS : NoShutdownIssued run ∧ 0 ≤ cfg.maxWeight ∧ cfg.maxWeight ≤ i64Max)
    (hVM : NoValueMissing { BState.init cfg now seeds clients with storeShard := shardMap } run)
    (hrun : RunB { BState.init cfg now seeds clients with storeShard := shardMap } run b') :
    b'.w ≠ .dead ∧ b'.g.worker ≠ .dead ∧ PanicFree b' ∧ b'.g.lfu.fc.WF ∧ ExitInv b' := by
  obtain ⟨h1, h2, h3, h4, h5⟩ := C17_layerB_run_no_panic_init hs (C17_layerB_closed_running hB hD4 hNS hVM hrun)
  exact ⟨h1, h2, h3, h4, C17_layerB_background_exit_only_on_shutdown h5⟩

/-- **Every hypothesis on the inputs**: `Bounded`, no `shutdown` issued, the limit a non-negative `i64`, and every
    `put_or_update` carries a value (`Valued`, which implies `NoD4` and `NoValueMissing`). -/
theorem C17_layerB_closed_running_inputs {W T C N : Nat} {cfg : Cfg} {now : Nat} {seeds : List Nat} {clients : Nat}
    {shardMap : List (Nat × Nat)} {run : List (Act × Oracle)} {b' : BState}
    (hB : Bounded W T C N cfg now run)
    (hNS : NoShutdownIssued run ∧ 0 ≤ cfg.maxWeight ∧ cfg.maxWeight ≤ i64Max) (hv : Valued run)
    (hrun : RunB { BState.init cfg now seeds clients with storeShard := shardMap } run b') :
    ValidRunB { BState.init cfg now seeds clients with storeShard := shardMap } run b' := by
  refine C17_layerB_closed_running hB (noD4_of_no_removal hB ?_) hNS (noValueMissing_of_valued hv) hrun
  unfold rmCount
  rw [List.countP_eq_zero]
  intro r hr
  have := hv r hr
  cases r with
  | upsert k v w ttl rm => cases v <;> simp_all [Req.valued, Req.rmDerive]
  | _ => simp [Req.rmDerive]

/-- along a run without `shutdown()` the flag stays clear and the total stays in `[0, i64::MAX]` (no hypothesis on the
    weights; the limit an `i64`) -/
theorem C17_layerB_running_total {cfg : Cfg} {now : Nat} {seeds : List Nat} {clients : Nat}
    (hcI : cfg.maxWeight ≤ i64Max) :
    ∀ (run : List (Act × Oracle)) (b b' : BState), Reach cfg now seeds clients b → CrShut b → NoShutdownIssued run →
      RunB b run b' → b'.g.shutting = false ∧ 0 ≤ b'.g.adm.used ∧ b'.g.adm.used ≤ i64Max := by
  intro run
  induction run with
  | nil =>
    intro b b' hr hns _ hrun
    cases hrun
    exact ⟨hns.flag, (binv_reach hr).used_nonneg hns.flag, C17_layerB_used_le_i64Max hr hcI⟩
  | cons x tr ih =>
    intro b b' hr hns hnsi hrun
    obtain ⟨a, o⟩ := x
    cases hrun with
    | cons hstep hrest =>
      refine ih _ _ (Reach.step hr hstep) (cr_noShut_step hns ?_ hstep) (fun r hr => hnsi r (issued_mem_cons hr)) hrest
      intro i r ha
      subst ha
      exact hnsi r (by simp [issued])

/-! ### non-vacuity at `maxWeight = i64::MAX` -/

/-- **`C17_layerB_closed` is vacuous at the limit `i64::MAX`**: `NoSpaceOverflow W N cfg` fails for every pair of bounds
    that admits a request of positive weight (`0 < N * (W + ttl_ticker_entry_size * N)`). -/
theorem cr_noSpaceOverflow_vacuous {W N : Nat} {cfg : Cfg} (hmax : cfg.maxWeight = i64Max)
    (hpos : 0 < (N : Int) * ((W : Int) + cfg.ttlEntry * (N : Int))) : ¬ NoSpaceOverflow W N cfg := by
  intro h
  have := h.2
  omega

/-- limit `i64::MAX` (`c17BigCfg`), one client: `put_with_weight(1, 100, 3)` executed (6 worker actions),
    `put_with_weight(2, 101, 1)` executed, `delete(1)` executed (4 worker actions).  30 actions, 3 requests. -/
def crRun : List (Act × Oracle) :=
  acts (putActs 0 1 100 3 none ++ List.replicate 6 .worker ++ putActs 0 2 101 1 none ++ List.replicate 6 .worker ++
    .issue 0 (.delete 1) :: List.replicate 3 (.client 0) ++ List.replicate 4 .worker)

/-- the inputs of `crRun` satisfy EVERY hypothesis of `C17_layerB_closed_running_inputs` with the limit
    9223372036854775807 — and `NoSpaceOverflow` (the hypothesis of `C17_layerB_closed`) fails for them, as it does for
    every `W`, `N` with `0 < N * (W + 24 * N)` -/
theorem crRun_hyps :
    c17BigCfg.maxWeight = 9223372036854775807 ∧ c17BigCfg.maxWeight = i64Max ∧
    Bounded 100 0 3000000000 3 c17BigCfg 3000000000 crRun ∧
    (NoShutdownIssued crRun ∧ 0 ≤ c17BigCfg.maxWeight ∧ c17BigCfg.maxWeight ≤ i64Max) ∧ Valued crRun ∧
    NoD4 c17BigCfg crRun ∧ crRun.length = 30 ∧ (issued crRun).length = 3 ∧ ¬ NoSpaceOverflow 100 3 c17BigCfg := by
  decide +kernel

/-- the run executes: both puts accepted, the delete accepted, key 2 (charge 1) is what is left -/
theorem crRun_runs : ∃ b', RunB (c17BBig 1) crRun b' ∧
    b'.g.adm.kw = [(2, { key := 2, hash := 2, weight := 1 })] ∧ b'.g.adm.used = 1 ∧
    b'.g.acks = [.accepted, .accepted, .accepted] ∧ b'.g.store.map (·.1) = [2] ∧ b'.g.adm.max = i64Max := by
  have h : (match runB? (c17BBig 1) crRun with
      | some b' => decide (b'.g.adm.kw = [(2, { key := 2, hash := 2, weight := 1 })] ∧ b'.g.adm.used = 1 ∧
          b'.g.acks = [.accepted, .accepted, .accepted] ∧ b'.g.store.map (·.1) = [2] ∧ b'.g.adm.max = i64Max)
      | none => false) = true := by decide +kernel
  split at h
  · rename_i b' hb'
    exact ⟨b', runB?_sound _ hb', of_decide_eq_true h⟩
  · cases h

/-- the closed theorem for running caches applies to it: all 30 actions meet `Act.pre`, nobody panics, the worker is
    alive — under the limit `i64::MAX` -/
theorem crRun_no_panic : ∃ b', ValidRunB (c17BBig 1) crRun b' ∧ b'.w ≠ .dead ∧ b'.g.worker ≠ .dead ∧ PanicFree b' ∧
    b'.g.adm.max = i64Max := by
  obtain ⟨b', hrun, _, _, _, _, hmax⟩ := crRun_runs
  obtain ⟨_, _, hB, hNS, hv, hD, _⟩ := crRun_hyps
  have hv' := C17_layerB_closed_running_inputs (seeds := [1, 2, 3, 4]) (clients := 1) (shardMap := []) hB hNS hv hrun
  obtain ⟨h1, h2, h3, _⟩ := C17_layerB_closed_running_no_panic (seeds := [1, 2, 3, 4]) (clients := 1) (shardMap := [])
    (by decide) hB hD hNS (noValueMissing_of_valued hv) hrun
  exact ⟨b', hv', h1, h2, h3, hmax⟩

end B

/-! ## 3  Layer A: `C17_run_no_panic` from the initial state, without the state condition `Adm.Sound` -/

/-- a worker step on an `UpdateWeight` of a charged id leaves the total alone (the `i64` check failed: the worker is
    dead) or ends with a total the model has checked to be an `i64` -/
theorem cr_A_update_used {s s' : State} {o o' : Oracle} {out : Out} {id : Nat} {w : Int} {hh : Option Nat}
    {q : List (Cmd × Option Nat)} {wk : WKey} (hrun : s.worker = .running)
    (hq : s.queue = (.updateWeight id w, hh) :: q) (hg : s.adm.kw.get? id = some wk)
    (hs : step s .worker o = .ok (s', out, o')) : s'.adm.used = s.adm.used ∨ s'.adm.used ≤ i64Max := by
  have h : workerStep s o = .ok (s', out, o') := hs
  rw [workerStep_running s o _ hh q hrun hq] at h
  simp only [] at h
  have hg' : ({ s with queue := q } : State).adm.kw.get? id = some wk := hg
  unfold workerUpdateWeight at h
  simp only [hg'] at h
  split at h
  · simp only [workerFinish, Except.ok.injEq, Prod.mk.injEq] at h
    obtain ⟨rfl, _, _⟩ := h
    exact Or.inl rfl
  · rename_i hchk
    simp only [workerFinish, Except.ok.injEq, Prod.mk.injEq] at h
    obtain ⟨rfl, _, _⟩ := h
    refine Or.inr ?_
    simp only [Bool.or_eq_true, Bool.not_eq_true', not_or, Bool.not_eq_false, inI64, Bool.and_eq_true,
      decide_eq_true_eq] at hchk
    exact hchk.2.2

/-- **Layer A: the configuration is fixed and the total is at most `i64::MAX` at every state of every run from the
    initial state**, for a configured limit that is an `i64` (an accepted put ends at or below the limit; an
    `UpdateWeight` is applied only after the `i64` check of the new total; nothing else raises the total). -/
theorem C17_layerA_used_le_i64Max {cfg : Cfg} {now : Nat} {seeds : List Nat} {s : State}
    (hr : Cached.Reach cfg now seeds s) (hcI : cfg.maxWeight ≤ i64Max) : s.cfg = cfg ∧ s.adm.used ≤ i64Max := by
  induction hr with
  | init =>
    refine ⟨rfl, ?_⟩
    show (0 : Int) ≤ i64Max
    decide
  | @step s s1 ev o o' out hr' hs ih =>
    have hinv := inv_reach hr'
    obtain ⟨e1, e2, e3⟩ := step_effect hinv hs
    refine ⟨e1.trans ih.1, ?_⟩
    rcases e3 with ⟨hle, _⟩ | ⟨_, hle | ⟨hev, id, w, hh, q, wk, hrun, hq, hg, _⟩⟩
    · have : s1.adm.max = cfg.maxWeight := by rw [e2, hinv.maxFixed, ih.1]
      omega
    · have := ih.2; omega
    · subst hev
      rcases cr_A_update_used hrun hq hg hs with e | e
      · rw [e]; exact ih.2
      · exact e

/-- **`Ev.pre` without the state condition `Adm.Sound`**: for every event but the worker's step, `Ev.pre` itself (the
    documented preconditions of the calls and the side conditions (c)–(f) of `put_or_update`); for the worker's step,
    its time condition (`now + ttl` of a queued put with time-to-live is representable) and its weight condition (the
    `i64` arithmetic of a queued `UpdateWeight` of a charged id does not overflow — known findings D8, D9). -/
def Ev.cr_pre (s : State) : Ev → Prop
  | .worker =>
    (∀ id hash w k v t h q, s.queue = (.putTtl id hash w k v t, h) :: q → ∃ x, addTime s.now t = some x) ∧
    (∀ id w h q wk, s.queue = (.updateWeight id w, h) :: q → s.adm.kw.get? id = some wk →
      inI64 (w - wk.weight) = true ∧ inI64 (s.adm.used + (w - wk.weight)) = true)
  | ev => ev.pre s

/-- with the accounting in order, `Ev.cr_pre` is `Ev.pre` -/
theorem cr_pre_of_sound {s : State} {ev : Ev} (h : ev.cr_pre s) (hs : s.adm.Sound) : ev.pre s := by
  cases ev
  case worker => exact ⟨h.1, h.2, fun _ _ _ _ _ _ _ _ => hs, fun _ _ _ _ _ _ _ _ _ => hs⟩
  all_goals exact h

/-- a history in which every event meets `Ev.cr_pre` in the state it runs in -/
inductive cr_ValidRun : State → List (Ev × Out) → State → Prop
  | nil (s : State) : cr_ValidRun s [] s
  | cons {s s' s'' : State} {ev : Ev} {o o' : Oracle} {out : Out} {tr : List (Ev × Out)} :
      ev.cr_pre s → step s ev o = .ok (s', out, o') → cr_ValidRun s' tr s'' → cr_ValidRun s ((ev, out) :: tr) s''

/-- from a reachable state, under a non-negative `i64` limit, such a history is a `ValidRun` -/
theorem cr_validRun_of_reach {cfg : Cfg} {now : Nat} {seeds : List Nat} (h0 : 0 ≤ cfg.maxWeight)
    (hm : cfg.maxWeight ≤ i64Max) {s s' : State} {tr : List (Ev × Out)} (hv : cr_ValidRun s tr s')
    (hr : Cached.Reach cfg now seeds s) : ValidRun s tr s' := by
  induction hv with
  | nil s => exact .nil s
  | cons hpre hstep _ ih =>
    obtain ⟨hcfg, hu⟩ := C17_layerA_used_le_i64Max hr hm
    have hs := C17_adm_sound_of_inv (inv_reach hr) (by rw [hcfg]; exact h0) (by rw [hcfg]; exact hm) hu
    exact .cons (cr_pre_of_sound hpre hs) hstep (ih (Cached.Reach.step hr hstep))

/-- **C17 for Layer A runs from the initial state, no state condition on the accounting.**  Every history from
    `State.init cfg now seeds` — `0 ≤ cfg.maxWeight ≤ i64::MAX`, `i64::MAX` included — in which every event meets
    `Ev.cr_pre` (the caller-side preconditions; for the worker's step the time and weight conditions of the command at
    the head of the queue): no caller gets a panic, no worker panic is reported, the worker is alive at the end.
    (`Adm.Sound`, which `C17_run_no_panic` asks of every state in which the worker executes a put, is DERIVED: the
    Layer A invariant `Inv` and `C17_layerA_used_le_i64Max`.) -/
theorem C17_run_no_panic_from_init {cfg : Cfg} {now : Nat} {seeds : List Nat} {s' : State} {tr : List (Ev × Out)}
    (h0 : 0 ≤ cfg.maxWeight) (hm : cfg.maxWeight ≤ i64Max) (hr : cr_ValidRun (State.init cfg now seeds) tr s') :
    s'.worker ≠ .dead ∧ ∀ ev out, (ev, out) ∈ tr → (∀ p, out ≠ .panic p) ∧ (∀ p, out ≠ .workerPanic p) :=
  C17_run_no_panic (cr_validRun_of_reach h0 hm hr Cached.Reach.init) (by simp [State.init])

/-- every state of a Layer A run from the initial state is sound (limit a non-negative `i64`) -/
theorem C17_layerA_sound_of_reach {cfg : Cfg} {now : Nat} {seeds : List Nat} {s : State}
    (hr : Cached.Reach cfg now seeds s) (h0 : 0 ≤ cfg.maxWeight) (hm : cfg.maxWeight ≤ i64Max) : s.adm.Sound := by
  obtain ⟨hcfg, hu⟩ := C17_layerA_used_le_i64Max hr hm
  exact C17_adm_sound_of_inv (inv_reach hr) (by rw [hcfg]; exact h0) (by rw [hcfg]; exact hm) hu

/-! ### non-vacuity at `maxWeight = i64::MAX` (Layer A) -/

/-- limit `i64::MAX`: `put_with_weight(1, 10, 3)` by client 0 has been called (the command is queued) -/
def crA1 : State := (clientPutW (State.init c17BigCfg 3000000000 [1, 2, 3, 4]) 0 1 10 3).1

/-- `crRunA`: from the initial state of a cache of weight 9223372036854775807, `put_with_weight(1, 10, 3)` and the
    worker's step that executes it — every event meets `Ev.cr_pre`; `C17_run_no_panic_from_init` applies: the put is
    accepted (total 3), the worker is alive, nobody panicked. -/
theorem crRunA_no_panic :
    c17BigCfg.maxWeight = i64Max ∧
    ∃ s2 out1 out2, cr_ValidRun (State.init c17BigCfg 3000000000 [1, 2, 3, 4])
        [(.putW 0 1 10 3, out1), (.worker, out2)] s2 ∧
      s2.adm.used = 3 ∧ s2.adm.max = i64Max ∧ s2.acks = [.accepted] ∧ s2.worker ≠ .dead ∧
      (∀ p, out1 ≠ .panic p) ∧ (∀ p, out2 ≠ .workerPanic p) := by
  have hq : crA1.queue = [(.put 1 1 3 1 10, some 0)] := rfl
  have hpre2 : Ev.cr_pre crA1 .worker := by
    refine ⟨?_, ?_⟩
    · intro id hash w k v t h q h1
      rw [hq] at h1; simp at h1
    · intro id w h q wk h1
      rw [hq] at h1; simp at h1
  have hrun : cr_ValidRun (State.init c17BigCfg 3000000000 [1, 2, 3, 4])
      [(.putW 0 1 10 3, (clientPutW (State.init c17BigCfg 3000000000 [1, 2, 3, 4]) 0 1 10 3).2), (.worker, _)] _ :=
    .cons (o := {}) (show (0 : Int) < 3 by decide) rfl
      (.cons (o := {}) (o' := {}) hpre2 (rfl : step crA1 .worker {} = .ok (_, _, _)) (.nil _))
  obtain ⟨h1, h2⟩ := C17_run_no_panic_from_init (by decide) (by decide) hrun
  exact ⟨rfl, _, _, _, hrun, rfl, rfl, rfl, h1, (h2 _ _ (List.Mem.head _)).1,
    (h2 _ _ (List.Mem.tail _ (List.Mem.head _))).2⟩

end Cached
