/-
  C17 at ACTION granularity, CLOSED form:  "Valid calls never panic or kill a background worker" — with every
  hypothesis a condition on the INPUTS of the run (the configuration, the requests issued, the clock moves), none on
  an intermediate state — except for the two known state-dependent findings, which appear as named exclusions.

  `CachedProofs/LayerB/NoPanic.lean` proves C17 in the form `Act.pre b a ⇒ no panic` where `Act.pre` is the conjunction
  of the negations of the model's panic guards, evaluated in the state in which each action runs; its run theorem
  (`C17_layerB_run_no_panic`) therefore reads "no panic if no panic condition ever holds".  Here the side conditions
  are DISCHARGED from bounds on the inputs:

    `Bounded W T C N cfg now run`   (inputs only)
        every issued `put_with_weight(_and_ttl)` has `0 < w ≤ W`; every issued `put_or_update` has its weight — the
        explicit one, else the one the weight function computes for its value — in `1..W`; every time-to-live is `≤ T`;
        the clock (initial `now` plus all `advance d` of the run) stays `≤ C` and `C + T` is representable;
        at most `N` requests are issued; `0 ≤ ttl_ticker_entry_size`;
        `(N + 1) * (W + ttl_ticker_entry_size * N) ≤ i64::MAX`;
    `NoD4 cfg run`                  (inputs only; the known finding D4, `C17/caller-panic/site=ttl-removal-weight` and its
                                     race form `…/charge-lowered-during-call`)
        every weight issued in the run exceeds `ttl_ticker_entry_size * (number of issued put_or_update requests that
        remove the time-to-live and give neither weight nor value)`;  with no such request: no condition beyond
        `Bounded` (`noD4_of_no_removal`);
    `NoSpaceOverflow W N cfg`       (inputs only; the consequence of the known finding D10,
                                     `C17/worker-died/site=space-overflow-after-shutdown-race`)
        the configured limit is not negative and leaves `N * (W + ttl_ticker_entry_size * N)` of headroom below
        `i64::MAX`.  `is_space_available_for` computes `max_weight - weight_used` in `i64`; a `shutdown()` that zeroes
        `weight_used` under a delete or an eviction that has yet to subtract leaves the total NEGATIVE (D10) by up to the
        weight issued so far, and with the limit near `i64::MAX` the next put's subtraction overflows and kills the
        worker.  While the total is not negative nothing is asked of the limit beyond being an `i64`
        (`C17_layerB_space_overflow_needs_negative_total`, NoPanic.lean); here the run may contain `shutdown()`;
    `NoValueMissing b₀ run`         (STATE-dependent; the known finding D14, second form,
                                     `C17/caller-panic/site=value-missing/key-removed-during-call`)
        whenever a `put_or_update` WITHOUT A VALUE reaches its `upsert.update` action the key is in the store.  This
        cannot be phrased on the requests: whether the key is still there depends on evictions (the admission oracle),
        on the sweeper and on the interleaving with deletes.  The input-level sufficient condition is
        `Valued run` — every issued `put_or_update` carries a value (`noValueMissing_of_valued`).

  Main theorem `C17_layerB_closed`: every run from the initial state whose inputs satisfy `Bounded`, `NoD4`,
  `NoSpaceOverflow` and the exclusion `NoValueMissing` is a `ValidRunB` — EVERY action of it meets `Act.pre` — hence
  (`C17_layerB_closed_no_panic`, by `C17_layerB_run_no_panic_init` / `C17_layerB_background_exit_only_on_shutdown`) no
  caller gets a panic, the worker never dies, the sweeper and the consumer exit only after `shutdown()`.

  Also here
    * `C17_layerB_closed_inputs`     the variant with EVERY hypothesis on the inputs: `Bounded` and `Valued`;
    * `noD4_of_no_removal`, `noValueMissing_of_valued`   input-level sufficient conditions for the two exclusions;
    * non-vacuity: `closedRun` (86 actions, 3 clients + worker + sweeper + clock: puts with and without time-to-live,
      `put_or_update` adding / removing a time-to-live, reads, a delete, a sweep that evicts) satisfies every
      hypothesis (`decide`), and the closed theorem is applied to it;
    * `C17_layerB_closed_needs_NoD4`, `C17_layerB_closed_needs_NoValueMissing`, `C17_layerB_closed_needs_NoSpaceOverflow`
      no exclusion can be dropped (runs within all other hypotheses that panic / kill the worker: the known findings D4,
      D14 / second form, and D10's consequence);
    * `C17_layerB_closed_NoD4_counts_removals`, `closed_charge_drifts_up`   why the bounds count REQUESTS: the charge of
      a key drifts by `ttl_ticker_entry_size` per `put_or_update` without weight and value (stale read of the ledger
      at `upsert.weight_of` while an earlier `UpdateWeight` is still queued) — a key put with weight 30 ends up charged
      6 with a panic at the second removal (instance of D4), or charged 78 with a single time-to-live.

  Run invariants (`CInv`, by induction along the run; the step lemmas are in ClosedLemmas.lean):
    * every weight anywhere (ledger, queue, worker / sweeper / client locals) lies in
      `[1 + slackR, W + AB - slackA]` where `AB = ttl_ticker_entry_size * #(time-to-live-adding requests without weight
      and value)` and the slacks count the requests of that kind that are issued but have not yet read the charge
      (`upsert.weight_of`): the charge of a key DRIFTS by `± ttl_ticker_entry_size` per such request (races between
      `upsert.weight_of` and the queued `UpdateWeight` stack them up), so the bound is per request, not per key;
    * every time-to-live carried anywhere is `≤ T`; the clock is `≤ C`;
    * `-B ≤ weight_used ≤ B` with `B = (W + AB) * #requests issued so far`, with room for every command still
      outstanding (`UInv`) — this does NOT use the accounting identity of `BInv`, which is void during `shutdown()`.
-/
import CachedProofs.LayerB.ClosedLemmas

namespace Cached
namespace B

/-! ## the inputs of a run -/

/-- the requests issued along a run -/
def issued : List (Act × Oracle) → List Req
  | [] => []
  | (.issue _ r, _) :: tr => r :: issued tr
  | _ :: tr => issued tr

/-- the total clock movement of a run -/
def advTotal : List (Act × Oracle) → Nat
  | [] => 0
  | (.advance d, _) :: tr => d + advTotal tr
  | _ :: tr => advTotal tr

/-- the weight of a request — the explicit one, else the one the weight function computes for the value given —
    satisfies `P` -/
def reqWOk (cfg : Cfg) (P : Int → Prop) : Req → Prop
  | .putW _ _ w _ => P w
  | .upsert _ v w ttl _ => optP P (upsertW cfg v w ttl)
  | _ => True

instance (P : Int → Prop) [DecidablePred P] : (o : Option Int) → Decidable (optP P o)
  | some x => inferInstanceAs (Decidable (P x))
  | none => inferInstanceAs (Decidable True)

instance (cfg : Cfg) (P : Int → Prop) [DecidablePred P] : (r : Req) → Decidable (reqWOk cfg P r)
  | .putW _ _ w _ => inferInstanceAs (Decidable (P w))
  | .upsert _ v w ttl _ => inferInstanceAs (Decidable (optP P (upsertW cfg v w ttl)))
  | .delete _ | .get _ | .weight | .getRef _ | .shutdown | .mget _ _ => inferInstanceAs (Decidable True)

instance (cfg : Cfg) (T : Nat) (P : Int → Prop) [DecidablePred P] : (r : Req) → Decidable (reqOk cfg T P r)
  | .putW _ _ w ttl => inferInstanceAs (Decidable (P w ∧ optLe T ttl))
  | .upsert _ v w ttl _ => inferInstanceAs (Decidable (optP P (upsertW cfg v w ttl) ∧ optLe T ttl))
  | .delete _ | .get _ | .weight | .getRef _ | .shutdown | .mget _ _ => inferInstanceAs (Decidable True)

/-- **The input bounds.**  Only the configuration, the initial clock and the requests / clock moves of the run are
    mentioned — no intermediate state.
    * every issued `put_with_weight(_and_ttl)` has `0 < w ≤ W`; every issued `put_or_update` has its weight (explicit,
      else `cfg.weightOf` on the value given) in `1..W`; every time-to-live is `≤ T` (`reqOk`);
    * at most `N` requests are issued;
    * the clock — the initial `now` plus every `advance d` of the run — stays `≤ C`, and `C + T` is representable
      (`addTime C T` succeeds);
    * `ttl_ticker_entry_size` is not negative;
    * `(N + 1) * (W + ttl_ticker_entry_size * N) ≤ i64::MAX`: no weight derived along the run and no sum of charged
      weights overflows. -/
def Bounded (W T C N : Nat) (cfg : Cfg) (now : Nat) (run : List (Act × Oracle)) : Prop :=
  (∀ r ∈ issued run, reqOk cfg T (fun x => 0 < x ∧ x ≤ (W : Int)) r) ∧
  (issued run).length ≤ N ∧
  now + advTotal run ≤ C ∧
  (addTime C T).isSome = true ∧
  0 ≤ cfg.ttlEntry ∧
  ((N : Int) + 1) * ((W : Int) + cfg.ttlEntry * (N : Int)) ≤ i64Max

instance (W T C N : Nat) (cfg : Cfg) (now : Nat) (run : List (Act × Oracle)) : Decidable (Bounded W T C N cfg now run) := by
  unfold Bounded; infer_instance

/-- **The exclusion of D10's consequence, on the inputs** (the configuration and the two bounds of `Bounded`): the
    configured limit is not negative (Layer G: `0 < total_cache_weight`) and leaves `N * (W + ttl_ticker_entry_size * N)`
    — the largest total, of either sign, the requests of the run can produce — of headroom below `i64::MAX`.  Then
    `max_weight - weight_used`, which `is_space_available_for` computes in `i64`, is representable whatever
    `shutdown()` has done to the total. -/
def NoSpaceOverflow (W N : Nat) (cfg : Cfg) : Prop :=
  0 ≤ cfg.maxWeight ∧ cfg.maxWeight + (N : Int) * ((W : Int) + cfg.ttlEntry * (N : Int)) ≤ i64Max

instance (W N : Nat) (cfg : Cfg) : Decidable (NoSpaceOverflow W N cfg) := by unfold NoSpaceOverflow; infer_instance

/-- the number of issued `put_or_update` requests that remove the time-to-live and give neither weight nor value -/
def rmCount (run : List (Act × Oracle)) : Nat := (issued run).countP Req.rmDerive

/-- **Exclusion of the known finding D4** (`put_or_update(remove_time_to_live)` computes `charged - 24` and asserts it
    positive; reached directly on a key charged `≤ 24`, or by a race with a `put_or_update(weight w)`, `w ≤ 24`), as a
    condition on the REQUESTS of the run: every weight issued in the run (explicit or computed) exceeds
    `ttl_ticker_entry_size` times the number of issued requests that remove a time-to-live without giving a weight or
    a value.  (Conservative: the charge of a key can drift down by one `ttl_ticker_entry_size` per such request,
    whichever key the request names is not tracked.) -/
def NoD4 (cfg : Cfg) (run : List (Act × Oracle)) : Prop :=
  ∀ r ∈ issued run, reqWOk cfg (fun x => cfg.ttlEntry * (rmCount run : Int) < x) r

instance (cfg : Cfg) (run : List (Act × Oracle)) : Decidable (NoD4 cfg run) := by
  unfold NoD4; infer_instance

/-- the side condition of the known finding D14 (second form) for one action: a `put_or_update` without a value that
    is about to run `upsert.update` finds its key in the store -/
def vmOk (b : BState) : Act → Bool
  | .client i =>
    match b.cl[i]? with
    | some (.upUpdate k none _ _ _) => b.g.store.contains k
    | _ => true
  | _ => true

def noValueMissingB : BState → List (Act × Oracle) → Bool
  | _, [] => true
  | b, (a, o) :: tr =>
    vmOk b a && (match stepB b a o with
      | .ok (b', _) => noValueMissingB b' tr
      | .error _ => true)

/-- **Exclusion of the known finding D14, second form** — STATE-dependent: along the run, whenever a `put_or_update`
    that carries NO VALUE runs its `upsert.update` action, the key is (physically) in the store.  It cannot be turned
    into a condition on the requests: whether a key put earlier is still there when the call looks it up depends on
    evictions (admission oracle, sketch), on the sweeper and on the interleaving with `delete`s — the caller cannot
    establish the documented precondition "an upsert of an absent key carries a value" under concurrency.
    Input-level sufficient condition: `Valued` (`noValueMissing_of_valued`). -/
def NoValueMissing (b : BState) (run : List (Act × Oracle)) : Prop := noValueMissingB b run = true

instance (b : BState) (run : List (Act × Oracle)) : Decidable (NoValueMissing b run) :=
  inferInstanceAs (Decidable (noValueMissingB b run = true))

/-- a run: every action is enabled and executes (no condition on panics) -/
inductive RunB : BState → List (Act × Oracle) → BState → Prop
  | nil (b : BState) : RunB b [] b
  | cons {b b' b'' : BState} {a : Act} {o o' : Oracle} {tr : List (Act × Oracle)} :
      stepB b a o = .ok (b', o') → RunB b' tr b'' → RunB b ((a, o) :: tr) b''

def runB? : BState → List (Act × Oracle) → Option BState
  | b, [] => some b
  | b, (a, o) :: tr =>
    match stepB b a o with
    | .ok (b', _) => runB? b' tr
    | .error _ => none

theorem runB?_sound : ∀ (tr : List (Act × Oracle)) {b b' : BState}, runB? b tr = some b' → RunB b tr b' := by
  intro tr
  induction tr with
  | nil => intro b b' h; simp only [runB?, Option.some.injEq] at h; subst h; exact .nil b
  | cons x tr ih =>
    intro b b' h
    obtain ⟨a, o⟩ := x
    simp only [runB?] at h
    split at h
    · rename_i b1 o1 hs; exact .cons hs (ih h)
    · cases h

theorem ValidRunB.run {b b' : BState} {tr : List (Act × Oracle)} (h : ValidRunB b tr b') : RunB b tr b' := by
  induction h with
  | nil b => exact .nil b
  | cons _ hs _ ih => exact .cons hs ih

/-! ## budgets -/

/-- `E` for every request with the flag `f` -/
def budL (E : Int) (f : Req → Bool) : List Req → Int
  | [] => 0
  | r :: rs => bM E (f r) + budL E f rs

theorem budL_nonneg {E : Int} (hE : 0 ≤ E) (f : Req → Bool) : ∀ l, 0 ≤ budL E f l
  | [] => by simp [budL]
  | r :: rs => by
    have := budL_nonneg hE f rs
    have := bM_nonneg hE (f r)
    simp only [budL]; omega

theorem budL_eq (E : Int) (f : Req → Bool) : ∀ l : List Req, budL E f l = E * (l.countP f : Int)
  | [] => by simp [budL]
  | r :: rs => by
    have ih := budL_eq E f rs
    cases hf : f r
    · simp only [budL, hf, bM_false, List.countP_cons_of_neg, ih, Bool.false_eq_true, not_false_eq_true]; omega
    · simp only [budL, hf, bM_true, List.countP_cons_of_pos, ih]
      rw [Int.natCast_add, Int.mul_add]; simp only [Int.cast_ofNat_Int, Int.mul_one]; omega

theorem budL_le {E : Int} (hE : 0 ≤ E) (f : Req → Bool) (l : List Req) : budL E f l ≤ E * (l.length : Int) := by
  rw [budL_eq]
  exact Int.mul_le_mul_of_nonneg_left (by exact_mod_cast List.countP_le_length) hE

/-! ## the run invariant -/

/-- slack still to be SUBTRACTED from charges: requests in flight that may subtract `E`, plus those still to be issued -/
def loS (E : Int) (tr : List (Act × Oracle)) (b : BState) : Int :=
  slk E CPc.slackR b.cl + budL E Req.rmDerive (issued tr)

/-- slack still to be ADDED to charges -/
def hiS (E : Int) (tr : List (Act × Oracle)) (b : BState) : Int :=
  slk E CPc.slackA b.cl + budL E Req.addDerive (issued tr)

/-- the range a weight may lie in, given the slack outstanding -/
def wR (lo hi top : Int) (x : Int) : Prop := 1 + lo ≤ x ∧ x + hi ≤ top

theorem loS_nonneg {E : Int} (hE : 0 ≤ E) (tr : List (Act × Oracle)) (b : BState) : 0 ≤ loS E tr b := by
  have := slk_nonneg hE CPc.slackR b.cl
  have := budL_nonneg hE Req.rmDerive (issued tr)
  unfold loS; omega

theorem hiS_nonneg {E : Int} (hE : 0 ≤ E) (tr : List (Act × Oracle)) (b : BState) : 0 ≤ hiS E tr b := by
  have := slk_nonneg hE CPc.slackA b.cl
  have := budL_nonneg hE Req.addDerive (issued tr)
  unfold hiS; omega

/-- **The run invariant**, relative to the part `tr` of the run that is still to come.
    `RB` / `AB`: `ttl_ticker_entry_size` times the number of time-to-live-removing / -adding requests without weight
    and value of the WHOLE run; `MB`: `(W + AB)` times the number of requests of the whole run. -/
structure CInv (cfg : Cfg) (T C : Nat) (W RB AB MB : Int) (tr : List (Act × Oracle)) (b : BState) : Prop where
  cfgEq : b.g.cfg = cfg
  clock : b.g.now + advTotal tr ≤ C
  loB : loS cfg.ttlEntry tr b ≤ RB
  hiB : hiS cfg.ttlEntry tr b ≤ AB
  /-- every weight anywhere is in range, every time-to-live is at most `T` -/
  wall : WAll cfg T (wR (loS cfg.ttlEntry tr b) (hiS cfg.ttlEntry tr b) (W + AB)) b
  /-- `weight_used` is within the budget of the requests issued so far -/
  uinv : UInv (W + AB) (MB - budL (W + AB) (fun _ => true) (issued tr)) b

theorem wR.toRange {E : Int} (hE : 0 ≤ E) (tr : List (Act × Oracle)) (b : BState) (top : Int) :
    ∀ x, wR (loS E tr b) (hiS E tr b) top x → 0 ≤ x ∧ x ≤ top := by
  intro x hx
  have := loS_nonneg hE tr b
  have := hiS_nonneg hE tr b
  unfold wR at hx; omega

theorem issue_spec {b b' : BState} {i : Nat} {r : Req} (h : issue b i r = .ok b') :
    b.cl[i]? = some .idle ∧ b' = setClient b i (.start r) := by
  unfold issue at h
  split at h
  · rename_i hidle
    simp only [Except.ok.injEq] at h
    exact ⟨hidle, h.symm⟩
  · cases h

theorem cinv_step {cfg : Cfg} {T C : Nat} {W RB AB MB : Int} {a : Act} {o o' : Oracle} {tr : List (Act × Oracle)}
    {b b' : BState} (hE : 0 ≤ cfg.ttlEntry) (hM : 0 ≤ W + AB)
    (hi : CInv cfg T C W RB AB MB ((a, o) :: tr) b) (hstep : stepB b a o = .ok (b', o'))
    (hreq : ∀ i r, a = .issue i r → reqOk cfg T (fun x => RB < x ∧ x ≤ W) r) :
    CInv cfg T C W RB AB MB tr b' := by
  obtain ⟨c1, c2, c3, c4, c5, c6⟩ := hi
  cases a with
  | issue i r =>
    simp only [stepB] at hstep
    split at hstep
    · rename_i b1 hiss
      simp only [Except.ok.injEq, Prod.mk.injEq] at hstep; obtain ⟨rfl, rfl⟩ := hstep
      obtain ⟨hidle, hb1⟩ := issue_spec hiss
      have hsR := slk_set cfg.ttlEntry CPc.slackR b.cl i .idle (.start r) hidle
      have hsA := slk_set cfg.ttlEntry CPc.slackA b.cl i .idle (.start r) hidle
      have hlo : loS cfg.ttlEntry tr b1 = loS cfg.ttlEntry ((Act.issue i r, o) :: tr) b := by
        subst hb1
        simp only [loS, issued, budL, setClient, hsR, CPc.slackR, bM_false]; omega
      have hhi : hiS cfg.ttlEntry tr b1 = hiS cfg.ttlEntry ((Act.issue i r, o) :: tr) b := by
        subst hb1
        simp only [hiS, issued, budL, setClient, hsA, CPc.slackA, bM_false]; omega
      have hr := hreq i r rfl
      refine ⟨?_, ?_, by rw [hlo]; exact c3, by rw [hhi]; exact c4, ?_, ?_⟩
      · subst hb1; exact c1
      · subst hb1; simpa [advTotal, setClient] using c2
      · rw [hlo, hhi]
        refine wall_issue c5 hiss (reqOk.mono ?_ hr)
        intro x hx
        unfold wR; omega
      · refine (uinv_issue hM c6 hiss).weaken ?_
        simp only [issued, budL, bM_true]; omega
    · cases hstep
  | client i =>
    obtain ⟨pc, pc', f⟩ := clientAct_flow (show clientAct b i o = .ok (b', o') from hstep)
    have hsR : slk cfg.ttlEntry CPc.slackR b'.cl = slk cfg.ttlEntry CPc.slackR b.cl - bM cfg.ttlEntry pc.slackR + bM cfg.ttlEntry pc'.slackR := by
      rw [f.cl]; exact slk_set _ _ _ _ _ _ f.hpc
    have hsA : slk cfg.ttlEntry CPc.slackA b'.cl = slk cfg.ttlEntry CPc.slackA b.cl - bM cfg.ttlEntry pc.slackA + bM cfg.ttlEntry pc'.slackA := by
      rw [f.cl]; exact slk_set _ _ _ _ _ _ f.hpc
    have hmR := bM_mono hE f.sR
    have hmA := bM_mono hE f.sA
    have hlo : loS cfg.ttlEntry tr b' = loS cfg.ttlEntry ((Act.client i, o) :: tr) b - bM cfg.ttlEntry pc.slackR + bM cfg.ttlEntry pc'.slackR := by
      simp only [loS, issued, hsR]; omega
    have hhi : hiS cfg.ttlEntry tr b' = hiS cfg.ttlEntry ((Act.client i, o) :: tr) b - bM cfg.ttlEntry pc.slackA + bM cfg.ttlEntry pc'.slackA := by
      simp only [hiS, issued, hsA]; omega
    refine ⟨f.cfg.trans c1, ?_, by omega, by omega, ?_, uinv_client hM c6 f⟩
    · rw [f.now]; simpa [advTotal] using c2
    · refine wall_client c5 c1 f ?_ ?_
      · intro x hx; unfold wR at *; omega
      · rintro x ⟨id, old, new, wk, rfl, hget, hcase⟩
        have hwk := kwAll_get c5.kw hget
        obtain ⟨hA, hR⟩ := f.rel _ _ _ _ rfl
        rw [hA] at hhi
        rw [hR] at hlo
        rw [c1] at hcase
        rcases hcase with ⟨n, rfl, rfl, rfl⟩ | ⟨e, rfl, rfl, rfl⟩
        · simp only [CPc.slackA, CPc.slackR, bM_true, bM_false] at hlo hhi
          unfold wR at *; omega
        · simp only [CPc.slackA, CPc.slackR, bM_true, bM_false] at hlo hhi
          unfold wR at *; omega
  | worker =>
    have ht := workerAct_trans (show workerAct b o = .ok (b', o') from hstep)
    have hcl := (wtrans_cl ht).1
    have hlo : loS cfg.ttlEntry tr b' = loS cfg.ttlEntry ((Act.worker, o) :: tr) b := by simp only [loS, issued, hcl]
    have hhi : hiS cfg.ttlEntry tr b' = hiS cfg.ttlEntry ((Act.worker, o) :: tr) b := by simp only [hiS, issued, hcl]
    refine ⟨(wtrans_cfg ht).trans c1, ?_, by rw [hlo]; exact c3, by rw [hhi]; exact c4, ?_, ?_⟩
    · rw [wtrans_now' ht]; simpa [advTotal] using c2
    · rw [hlo, hhi]; exact wall_wtrans c5 ht
    · exact c6.step (wtrans_delta hM (c5.mono (wR.toRange hE _ _ _)) ht)
  | sweeper v =>
    simp only [stepB] at hstep
    split at hstep
    · rename_i b1 hs
      simp only [Except.ok.injEq, Prod.mk.injEq] at hstep; obtain ⟨rfl, rfl⟩ := hstep
      have ht := sweeperAct_trans hs
      have hcl := (strans_frame ht).2.1
      have hlo : loS cfg.ttlEntry tr b1 = loS cfg.ttlEntry ((Act.sweeper v, o) :: tr) b := by simp only [loS, issued, hcl]
      have hhi : hiS cfg.ttlEntry tr b1 = hiS cfg.ttlEntry ((Act.sweeper v, o) :: tr) b := by simp only [hiS, issued, hcl]
      refine ⟨(strans_frame ht).2.2.2.2.1.trans c1, ?_, by rw [hlo]; exact c3, by rw [hhi]; exact c4, ?_, ?_⟩
      · rw [strans_now' ht]; simpa [advTotal] using c2
      · rw [hlo, hhi]; exact wall_strans c5 ht
      · exact c6.step (strans_delta hM (c5.mono (wR.toRange hE _ _ _)) ht)
    · cases hstep
  | consumer =>
    simp only [stepB] at hstep
    split at hstep
    · rename_i g' out o1 hc
      simp only [Except.ok.injEq, Prod.mk.injEq] at hstep; obtain ⟨rfl, rfl⟩ := hstep
      have hf := consumerStep_frame hc
      have hlo : loS cfg.ttlEntry tr { b with g := g' } = loS cfg.ttlEntry ((Act.consumer, o) :: tr) b := by simp only [loS, issued]
      have hhi : hiS cfg.ttlEntry tr { b with g := g' } = hiS cfg.ttlEntry ((Act.consumer, o) :: tr) b := by simp only [hiS, issued]
      refine ⟨?_, ?_, by rw [hlo]; exact c3, by rw [hhi]; exact c4, ?_, ?_⟩
      · show g'.cfg = cfg; rw [hf]; exact c1
      · show g'.now + _ ≤ C; rw [hf]; simpa [advTotal] using c2
      · rw [hlo, hhi]
        exact c5.frame (by show g'.adm.kw = _; rw [hf]) (by show g'.queue = _; rw [hf]) rfl rfl rfl
      · exact c6.frame (by show g'.adm = _; rw [hf]) (by show g'.queue = _; rw [hf]) rfl rfl rfl
    · cases hstep
  | advance d =>
    simp only [stepB, Except.ok.injEq, Prod.mk.injEq] at hstep; obtain ⟨rfl, rfl⟩ := hstep
    refine ⟨c1, ?_, c3, c4, c5.frame rfl rfl rfl rfl rfl, c6.frame rfl rfl rfl rfl rfl⟩
    simp only [advTotal] at c2
    show b.g.now + d + advTotal tr ≤ C
    omega

/-! ## the invariant discharges the side conditions -/

theorem addTime_mono {now t C T : Nat} (h : (addTime C T).isSome = true) (h1 : now ≤ C) (h2 : t ≤ T) :
    (addTime now t).isSome = true := by
  unfold addTime at *
  split at h
  · rename_i hc
    have : secsOf (now + t) ≤ secsOf (C + T) := Nat.div_le_div_right (by omega)
    rw [if_pos (by omega)]; rfl
  · cases h

theorem uwOk_of_range {lo hi top : Int} (hlo : 0 ≤ lo) (hhi : 0 ≤ hi) (htop : top ≤ i64Max) :
    ∀ {uw : Option Int}, optP (wR lo hi top) uw → uwOk uw
  | none, _ => trivial
  | some x, h => by
    simp only [optP, wR] at h
    unfold i64Max at htop
    simp only [uwOk, inI64, Bool.and_eq_true, decide_eq_true_eq]
    simp only [i64Min, i64Max]
    omega

theorem posW_of_range {lo hi top : Int} (hlo : 0 ≤ lo) : ∀ {uw : Option Int}, optP (wR lo hi top) uw → posW uw
  | none, _ => trivial
  | some x, h => by simp only [optP, wR] at h; simp only [posW]; omega

/-- **The run invariant implies `Act.pre`** for the next action of the run — given the conditions on the request when
    the action issues one, and the exclusion of D14 (second form) when it is the `upsert.update` of a `put_or_update`
    without a value. -/
theorem cinv_pre {cfg : Cfg} {T C : Nat} {W RB AB MB : Int} {a : Act} {o : Oracle} {tr : List (Act × Oracle)}
    {b : BState} (hE : 0 ≤ cfg.ttlEntry) (hM : 0 ≤ W + AB) (hRB : 0 ≤ RB) (hMax : W + AB ≤ i64Max) (hMB : MB ≤ i64Max)
    (hT : (addTime C T).isSome = true) (hi : CInv cfg T C W RB AB MB ((a, o) :: tr) b)
    (hmx : b.g.adm.max = cfg.maxWeight) (hc0 : 0 ≤ cfg.maxWeight) (hcI : cfg.maxWeight + MB ≤ i64Max)
    (hreq : ∀ i r, a = .issue i r → reqOk cfg T (fun x => RB < x ∧ x ≤ W) r) (hvm : vmOk b a = true) : a.pre b := by
  obtain ⟨c1, c2, c3, c4, c5, c6⟩ := hi
  have hlo := loS_nonneg hE ((a, o) :: tr) b
  have hhi := hiS_nonneg hE ((a, o) :: tr) b
  cases a with
  | issue i r =>
    have hr := hreq i r rfl
    show r.wf b.g.cfg
    rw [c1]
    cases r with
    | putW k v w ttl => have := hr.1.1; show 0 < w; omega
    | upsert k v w ttl rm =>
      show posW (upsertW cfg v w ttl)
      have := hr.1
      revert this
      generalize upsertW cfg v w ttl = u
      intro hu
      cases u with
      | none => trivial
      | some x => have := hu.1; show 0 < x; omega
    | _ => trivial
  | client i =>
    show clientPre b.g b.cl[i]?
    cases hcl : b.cl[i]? with
    | none => trivial
    | some pc =>
      have hok := c5.clients i pc hcl
      show pc.pre b.g
      cases pc with
      | start r =>
        cases r with
        | putW k v w ttl =>
          intro _
          have := hok.1
          unfold wR at this; omega
        | _ => trivial
      | upUpdate k v w ttl rm =>
        show upUpdatePre b.g.cfg b.g.now v w ttl rm (b.g.store.get? k)
        cases hget : b.g.store.get? k with
        | none =>
          refine ⟨?_, ?_⟩
          · cases v with
            | some val => rfl
            | none => simp [vmOk, hcl, AMap.contains, hget] at hvm
          · rw [c1]; exact posW_of_range hlo hok.1
        | some e =>
          intro _
          cases ttl with
          | none => trivial
          | some t => exact addTime_mono hT (by omega) hok.2
      | upWeightOf id uw old new => intro _; exact uwOk_of_range hlo hhi hMax hok
      | upTtlPut id e uw => exact uwOk_of_range hlo hhi hMax hok
      | upTtlDelete id e uw => exact uwOk_of_range hlo hhi hMax hok
      | upTtlInsert id e uw => exact uwOk_of_range hlo hhi hMax hok
      | _ => trivial
  | worker =>
    show b.w.pre b.g
    -- `wu.space`: `-MB ≤ weight_used ≤ MB` (the budget of the requests issued), the limit leaves `MB` of headroom
    have hspace : (∃ c, b.w = .space0 c) ∨ (∃ c e s, b.w = .evSpace c e s) ∨ (∃ c, b.w = .emptySpace c) →
        b.g.adm.spaceOverflow = false := by
      intro hpos
      have hs := slk_nonneg hM CPc.cr b.cl
      have hq := qcr_nonneg hM b.g.queue
      have hk := kcr_nonneg hM b.g.adm.kw
      have hsv := bM_nonneg hM b.sw.crV
      have hwI := bM_nonneg hM b.w.crI
      have hwD := bM_nonneg hM b.w.crD
      have hwV := bM_nonneg hM b.w.crV
      have hb := budL_nonneg hM (fun _ => true) (issued ((Act.worker, o) :: tr))
      have u1 := c6.up
      have u3 := c6.lo
      simp only [cI, cD] at u1 u3
      rw [Adm.spaceOverflow_eq_false_iff, hmx]
      unfold i64Max at hMax hMB hcI
      simp only [i64Min, i64Max]
      omega
    cases hw : b.w with
    | space0 c => exact hspace (Or.inl ⟨c, hw⟩)
    | evSpace c e s => exact hspace (Or.inr (Or.inl ⟨c, e, s, hw⟩))
    | emptySpace c => exact hspace (Or.inr (Or.inr ⟨c, hw⟩))
    | storePut c =>
      have := (c5.wcmd c (by simp [hw, WPc.cmd?])).2
      show timeOk b.g.now c.ttl
      cases hc : c.ttl with
      | none => trivial
      | some t =>
        rw [hc] at this
        exact addTime_mono hT (by omega) this
    | update id w h =>
      show updatePre b.g.adm.used w (b.g.adm.kw.get? id)
      cases hget : b.g.adm.kw.get? id with
      | none => trivial
      | some wk =>
        have hwu := c5.wupd w (by simp [hw, WPc.updW?])
        have hwk := kwAll_get c5.kw hget
        have hs := slk_nonneg hM CPc.cr b.cl
        have hq := qcr_nonneg hM b.g.queue
        have hk := kcr_nonneg hM b.g.adm.kw
        have hsv := bM_nonneg hM b.sw.crV
        have hb := budL_nonneg hM (fun _ => true) (issued ((Act.worker, o) :: tr))
        have u1 := c6.up
        have u3 := c6.lo
        simp only [cI, cD, hw, WPc.crI, WPc.crD, WPc.crV, bM_true, bM_false] at u1 u3
        unfold wR at hwu hwk
        unfold i64Max at hMax hMB
        simp only [updatePre, inI64, Bool.and_eq_true, decide_eq_true_eq]
        simp only [i64Min, i64Max]
        omega
    | _ => trivial
  | sweeper v => trivial
  | consumer => trivial
  | advance d => trivial

/-! ## the closed theorem -/

theorem issued_mem_cons {r : Req} {x : Act × Oracle} {tr : List (Act × Oracle)} (h : r ∈ issued tr) :
    r ∈ issued (x :: tr) := by
  obtain ⟨a, o⟩ := x
  cases a <;> simp only [issued] <;> first | exact h | exact List.mem_cons_of_mem _ h

theorem noValueMissing_cons {b : BState} {a : Act} {o : Oracle} {tr : List (Act × Oracle)}
    (h : NoValueMissing b ((a, o) :: tr)) :
    vmOk b a = true ∧ ∀ b' o', stepB b a o = .ok (b', o') → NoValueMissing b' tr := by
  unfold NoValueMissing at h
  simp only [noValueMissingB, Bool.and_eq_true] at h
  refine ⟨h.1, ?_⟩
  intro b' o' hs
  have := h.2
  rw [hs] at this
  exact this

theorem closed_aux {cfg : Cfg} {T C : Nat} {W RB AB MB : Int} (hE : 0 ≤ cfg.ttlEntry) (hM : 0 ≤ W + AB) (hRB : 0 ≤ RB)
    (hMax : W + AB ≤ i64Max) (hMB : MB ≤ i64Max) (hT : (addTime C T).isSome = true)
    (hc0 : 0 ≤ cfg.maxWeight) (hcI : cfg.maxWeight + MB ≤ i64Max) :
    ∀ (tr : List (Act × Oracle)) (b b' : BState), CInv cfg T C W RB AB MB tr b → BInv b →
      (∀ r ∈ issued tr, reqOk cfg T (fun x => RB < x ∧ x ≤ W) r) → NoValueMissing b tr → RunB b tr b' →
      ValidRunB b tr b' := by
  intro tr
  induction tr with
  | nil =>
    intro b b' _ _ _ _ hrun
    cases hrun
    exact .nil b
  | cons x tr ih =>
    intro b b' hinv hbi hreqs hvm hrun
    obtain ⟨a, o⟩ := x
    cases hrun with
    | cons hstep hrest =>
      have hreq : ∀ i r, a = .issue i r → reqOk cfg T (fun x => RB < x ∧ x ≤ W) r := by
        intro i r ha
        subst ha
        exact hreqs r (by simp [issued])
      obtain ⟨hv, hvnext⟩ := noValueMissing_cons hvm
      have hmx : b.g.adm.max = cfg.maxWeight := by rw [hbi.maxFixed, hinv.cfgEq]
      have hpre := cinv_pre hE hM hRB hMax hMB hT hinv hmx hc0 hcI hreq hv
      have hinv' := cinv_step hE hM hinv hstep hreq
      exact .cons hpre hstep
        (ih _ _ hinv' (binv_step hbi hstep) (fun r hr => hreqs r (issued_mem_cons hr)) (hvnext _ _ hstep) hrest)

theorem cinv_init {cfg : Cfg} {T C : Nat} {W : Int} {now : Nat} (seeds : List Nat) (clients : Nat)
    (shardMap : List (Nat × Nat)) (tr : List (Act × Oracle)) (hclock : now + advTotal tr ≤ C) :
    CInv cfg T C W (budL cfg.ttlEntry Req.rmDerive (issued tr)) (budL cfg.ttlEntry Req.addDerive (issued tr))
      (budL (W + budL cfg.ttlEntry Req.addDerive (issued tr)) (fun _ => true) (issued tr)) tr
      { BState.init cfg now seeds clients with storeShard := shardMap } := by
  have hR := slk_replicate_idle cfg.ttlEntry CPc.slackR rfl clients
  have hA := slk_replicate_idle cfg.ttlEntry CPc.slackA rfl clients
  refine ⟨rfl, hclock, ?_, ?_, wall_init _ _ _ _ _ _ _, (uinv_init _ _ _ _ _ _).weaken (by omega)⟩
  · simp only [loS, BState.init, hR]; omega
  · simp only [hiS, BState.init, hA]; omega

theorem reqOk_and {cfg : Cfg} {T : Nat} {P Q : Int → Prop} {r : Req} (h1 : reqOk cfg T P r) (h2 : reqWOk cfg Q r) :
    reqOk cfg T (fun x => Q x ∧ P x) r := by
  cases r with
  | putW k v w ttl => exact ⟨⟨h2, h1.1⟩, h1.2⟩
  | upsert k v w ttl rm =>
    refine ⟨?_, h1.2⟩
    have a := h1.1
    have c : optP Q (upsertW cfg v w ttl) := h2
    revert a c
    generalize upsertW cfg v w ttl = u
    cases u <;> intro a c
    · trivial
    · exact ⟨c, a⟩
  | _ => trivial

/-- **C17, closed form (Layer B, all interleavings).**  Take ANY run of the action-granularity model from the initial
    state of a cache — any configuration, any number of clients, any map of keys to store shards, any interleaving of
    clients, worker, sweeper, consumer and clock, every oracle — whose INPUTS satisfy `Bounded W T C N` (weights in
    `1..W`, time-to-live `≤ T`, clock `≤ C` with `C + T` representable, at most `N` requests,
    `(N + 1) * (W + ttl_ticker_entry_size * N) ≤ i64::MAX`), the input-level exclusion `NoD4` of the known finding D4 and
    the input-level exclusion `NoSpaceOverflow` of the consequence of the known finding D10,
    and which avoids the state-dependent known finding D14 / second form (`NoValueMissing`).  Then EVERY action of the
    run meets `Act.pre` in the state it runs in: the run is a `ValidRunB`.
    STATEMENT CHANGED (hypothesis `hSO`): `Act.pre` now asks of the worker's `wu.space` actions that
    `max_weight - weight_used` be representable in `i64` (the code panics otherwise); the run may contain a `shutdown()`
    racing a delete, after which the total is negative (D10) — `C17_layerB_closed_needs_NoSpaceOverflow`. -/
theorem C17_layerB_closed {W T C N : Nat} {cfg : Cfg} {now : Nat} {seeds : List Nat} {clients : Nat}
    {shardMap : List (Nat × Nat)} {run : List (Act × Oracle)} {b' : BState}
    (hB : Bounded W T C N cfg now run) (hD4 : NoD4 cfg run) (hSO : NoSpaceOverflow W N cfg)
    (hVM : NoValueMissing { BState.init cfg now seeds clients with storeShard := shardMap } run)
    (hrun : RunB { BState.init cfg now seeds clients with storeShard := shardMap } run b') :
    ValidRunB { BState.init cfg now seeds clients with storeShard := shardMap } run b' := by
  obtain ⟨hreqs, hN, hclock, hT, hE, hov⟩ := hB
  have hRBeq := budL_eq cfg.ttlEntry Req.rmDerive (issued run)
  have hRB : 0 ≤ budL cfg.ttlEntry Req.rmDerive (issued run) := budL_nonneg hE _ _
  have hAB0 : 0 ≤ budL cfg.ttlEntry Req.addDerive (issued run) := budL_nonneg hE _ _
  have hlenN : ((issued run).length : Int) ≤ (N : Int) := by exact_mod_cast hN
  have hAB : budL cfg.ttlEntry Req.addDerive (issued run) ≤ cfg.ttlEntry * (N : Int) :=
    Int.le_trans (budL_le hE _ _) (Int.mul_le_mul_of_nonneg_left hlenN hE)
  have hM : 0 ≤ (W : Int) + budL cfg.ttlEntry Req.addDerive (issued run) := by omega
  have hM0 : 0 ≤ (W : Int) + cfg.ttlEntry * (N : Int) := by omega
  have hMB1 := budL_le hM (fun _ => true) (issued run)
  have hMB2 := Int.mul_le_mul_of_nonneg_left hlenN hM
  have hMB3 : ((W : Int) + budL cfg.ttlEntry Req.addDerive (issued run)) * (N : Int) ≤
      ((W : Int) + cfg.ttlEntry * (N : Int)) * (N : Int) :=
    Int.mul_le_mul_of_nonneg_right (by omega) (by omega)
  have hexp : ((N : Int) + 1) * ((W : Int) + cfg.ttlEntry * (N : Int)) =
      ((W : Int) + cfg.ttlEntry * (N : Int)) * (N : Int) + ((W : Int) + cfg.ttlEntry * (N : Int)) := by
    rw [Int.add_mul, Int.one_mul, Int.mul_comm]
  have hnn : 0 ≤ ((W : Int) + cfg.ttlEntry * (N : Int)) * (N : Int) := Int.mul_nonneg hM0 (by omega)
  obtain ⟨hc0, hcI⟩ := hSO
  rw [Int.mul_comm] at hcI
  refine closed_aux (W := (W : Int)) hE hM hRB (by omega) (by omega) hT hc0 (by omega) run _ _
    (cinv_init seeds clients shardMap run hclock) (binv_reach (Reach.init (cfg := cfg) (now := now) (seeds := seeds)
      (clients := clients) shardMap)) ?_ hVM hrun
  intro r hr
  have h1 := hreqs r hr
  have h2 := hD4 r hr
  rw [hRBeq]
  refine reqOk.mono ?_ (reqOk_and h1 h2)
  intro x hx
  exact ⟨hx.1, hx.2.2⟩

/-- … hence, on every such run (with a sketch built by the constructor, `seeds ≠ []`): no caller ever gets a panic
    (`PanicFree`), the command worker never dies (neither its position nor the mode the senders see), the sketch stays
    well formed (no index out of bounds in the worker or the consumer), and the sweeper and the consumer have exited —
    or been told to exit — only if `shutdown()` was called (`ExitInv`: each of the five facts implies the shutdown
    flag). -/
theorem C17_layerB_closed_no_panic {W T C N : Nat} {cfg : Cfg} {now : Nat} {seeds : List Nat} {clients : Nat}
    {shardMap : List (Nat × Nat)} {run : List (Act × Oracle)} {b' : BState} (hs : seeds ≠ [])
    (hB : Bounded W T C N cfg now run) (hD4 : NoD4 cfg run) (hSO : NoSpaceOverflow W N cfg)
    (hVM : NoValueMissing { BState.init cfg now seeds clients with storeShard := shardMap } run)
    (hrun : RunB { BState.init cfg now seeds clients with storeShard := shardMap } run b') :
    b'.w ≠ .dead ∧ b'.g.worker ≠ .dead ∧ PanicFree b' ∧ b'.g.lfu.fc.WF ∧ ExitInv b' := by
  obtain ⟨h1, h2, h3, h4, h5⟩ := C17_layerB_run_no_panic_init hs (C17_layerB_closed hB hD4 hSO hVM hrun)
  exact ⟨h1, h2, h3, h4, C17_layerB_background_exit_only_on_shutdown h5⟩

/-! ## input-level sufficient conditions for the two exclusions -/

/-- with no request that removes a time-to-live without giving weight or value, `NoD4` is implied by `Bounded` -/
theorem noD4_of_no_removal {W T C N : Nat} {cfg : Cfg} {now : Nat} {run : List (Act × Oracle)}
    (hB : Bounded W T C N cfg now run) (h0 : rmCount run = 0) : NoD4 cfg run := by
  intro r hr
  have h1 := hB.1 r hr
  rw [h0]
  cases r with
  | putW k v w ttl => have := h1.1.1; show cfg.ttlEntry * ((0 : Nat) : Int) < w; simp; omega
  | upsert k v w ttl rm =>
    show optP _ (upsertW cfg v w ttl)
    have a := h1.1
    revert a
    generalize upsertW cfg v w ttl = u
    cases u <;> intro a
    · trivial
    · have := a.1; show cfg.ttlEntry * ((0 : Nat) : Int) < _; simp; omega
  | _ => trivial

/-- the request is not a `put_or_update` without a value -/
def Req.valued : Req → Bool
  | .upsert _ none _ _ _ => false
  | _ => true

/-- every `put_or_update` issued along the run carries a value (a condition on the requests) -/
def Valued (run : List (Act × Oracle)) : Prop := ∀ r ∈ issued run, r.valued = true

instance (run : List (Act × Oracle)) : Decidable (Valued run) := by unfold Valued; infer_instance

theorem stepB_noVal {b b' : BState} {a : Act} {o o' : Oracle} (h : stepB b a o = .ok (b', o'))
    (hb : ∀ (i : Nat) (pc : CPc), b.cl[i]? = some pc → pc.noVal = false)
    (ha : ∀ i r, a = .issue i r → r.valued = true) :
    ∀ (i : Nat) (pc : CPc), b'.cl[i]? = some pc → pc.noVal = false := by
  have hset : ∀ (j : Nat) (pc' : CPc), pc'.noVal = false →
      ∀ (i : Nat) (pc : CPc), (b.cl.set j pc')[i]? = some pc → pc.noVal = false := by
    intro j pc' hpc' i pc hi
    rw [List.getElem?_set] at hi
    split at hi
    · split at hi
      · cases hi; exact hpc'
      · cases hi
    · exact hb i pc hi
  cases a with
  | issue i r =>
    simp only [stepB] at h
    split at h
    · rename_i b1 hiss
      simp only [Except.ok.injEq, Prod.mk.injEq] at h; obtain ⟨rfl, rfl⟩ := h
      obtain ⟨_, rfl⟩ := issue_spec hiss
      refine hset i (.start r) ?_
      have := ha i r rfl
      cases r <;> first | rfl | (rename_i k v w ttl rm; cases v <;> simp_all [Req.valued, CPc.noVal])
    · cases h
  | client i =>
    obtain ⟨pc, pc', f⟩ := clientAct_flow (show clientAct b i o = .ok (b', o') from h)
    rw [f.cl]
    refine hset i pc' ?_
    have := hb i pc f.hpc
    cases hn : pc'.noVal
    · rfl
    · rw [f.nv hn] at this; cases this
  | worker =>
    rw [(wtrans_cl (workerAct_trans (show workerAct b o = .ok (b', o') from h))).1]; exact hb
  | sweeper v =>
    simp only [stepB] at h
    split at h
    · rename_i b1 hs
      simp only [Except.ok.injEq, Prod.mk.injEq] at h; obtain ⟨rfl, rfl⟩ := h
      rw [(strans_frame (sweeperAct_trans hs)).2.1]; exact hb
    · cases h
  | consumer =>
    simp only [stepB] at h
    split at h
    · simp only [Except.ok.injEq, Prod.mk.injEq] at h; obtain ⟨rfl, rfl⟩ := h
      exact hb
    · cases h
  | advance d =>
    simp only [stepB, Except.ok.injEq, Prod.mk.injEq] at h; obtain ⟨rfl, rfl⟩ := h
    exact hb

theorem noValueMissing_aux : ∀ (tr : List (Act × Oracle)) (b : BState),
    (∀ (i : Nat) (pc : CPc), b.cl[i]? = some pc → pc.noVal = false) → Valued tr → NoValueMissing b tr := by
  intro tr
  induction tr with
  | nil => intro b _ _; rfl
  | cons x tr ih =>
    intro b hb hv
    obtain ⟨a, o⟩ := x
    unfold NoValueMissing
    simp only [noValueMissingB, Bool.and_eq_true]
    refine ⟨?_, ?_⟩
    · cases a with
      | client i =>
        simp only [vmOk]
        split
        · rename_i k w ttl rm hcl
          have := hb i _ hcl
          simp [CPc.noVal] at this
        · rfl
      | _ => rfl
    · split
      · rename_i b1 o1 hs
        refine ih b1 (stepB_noVal hs hb ?_) (fun r hr => hv r (issued_mem_cons hr))
        intro i r ha
        subst ha
        exact hv r (by simp [issued])
      · rfl

/-- **`NoValueMissing` from the requests alone**: if every `put_or_update` issued along the run carries a value, no
    `upsert.update` of a request without a value ever runs. -/
theorem noValueMissing_of_valued {cfg : Cfg} {now : Nat} {seeds : List Nat} {clients : Nat}
    {shardMap : List (Nat × Nat)} {run : List (Act × Oracle)} (hv : Valued run) :
    NoValueMissing { BState.init cfg now seeds clients with storeShard := shardMap } run := by
  refine noValueMissing_aux run _ ?_ hv
  intro i pc h
  simp only [BState.init, List.getElem?_replicate] at h
  split at h
  · cases h; rfl
  · cases h

/-- **C17, closed form, every hypothesis on the inputs**: `Bounded`, `NoSpaceOverflow`, and every `put_or_update` carries
    a value (`Valued`; then no request removes a time-to-live without giving a weight or a value, so `NoD4` holds as
    well).  STATEMENT CHANGED (hypothesis `hSO`, as in `C17_layerB_closed`). -/
theorem C17_layerB_closed_inputs {W T C N : Nat} {cfg : Cfg} {now : Nat} {seeds : List Nat} {clients : Nat}
    {shardMap : List (Nat × Nat)} {run : List (Act × Oracle)} {b' : BState}
    (hB : Bounded W T C N cfg now run) (hSO : NoSpaceOverflow W N cfg) (hv : Valued run)
    (hrun : RunB { BState.init cfg now seeds clients with storeShard := shardMap } run b') :
    ValidRunB { BState.init cfg now seeds clients with storeShard := shardMap } run b' := by
  refine C17_layerB_closed hB (noD4_of_no_removal hB ?_) hSO (noValueMissing_of_valued hv) hrun
  unfold rmCount
  rw [List.countP_eq_zero]
  intro r hr
  have := hv r hr
  cases r with
  | upsert k v w ttl rm => cases v <;> simp_all [Req.valued, Req.rmDerive]
  | _ => simp [Req.rmDerive]

/-! ## Non-vacuity: a concrete multi-thread run whose inputs satisfy every hypothesis -/

/-- The run `c17RunOk` of NoPanic.lean (three clients, worker, sweeper, clock: a put, a put with time-to-live, a
    `put_or_update` ADDING a time-to-live, reads, sweeper ticks, a `put_or_update` REMOVING a time-to-live, both weight
    updates applied), followed by: `delete(1)` executed by the worker (store, ledger, total, expiry index); a put of key
    3 with one second to live (weight 26); the clock moves three seconds on; the sweeper visits key 3, finds it due and
    evicts it (ledger, total, store); client 2 reads key 3 (gone) and the total (6).  86 actions, 10 requests. -/
def closedRun : List (Act × Oracle) :=
  c17RunOk ++
  acts ([.issue 0 (.delete 1), .client 0, .client 0, .client 0] ++ List.replicate 5 .worker ++
        putActs 1 3 30 26 (some 1000000000) ++ List.replicate 7 .worker ++
        [.advance 3000000000, .sweeper none, .sweeper (some 3), .sweeper none, .sweeper none, .sweeper none, .sweeper none,
         .issue 2 (.get 3), .client 2, .client 2, .issue 2 .weight, .client 2, .client 2])

/-- the inputs of that run satisfy `Bounded` (weights `≤ 100`, time-to-live `≤ 2 s`, clock `≤ 7 s`, `≤ 10` requests)
    and `NoD4` (one removal without weight: every weight issued — 29, 30, 26 — exceeds 24) -/
example : Bounded 100 2000000000 7000000000 10 c17Cfg 3000000000 closedRun ∧ NoD4 c17Cfg closedRun ∧
    closedRun.length = 86 ∧ (issued closedRun).length = 10 ∧ rmCount closedRun = 1 := by decide +kernel

/-- the run executes, and it avoids D14 / second form (the two requests without a value find their keys) -/
theorem closedRun_runs : NoValueMissing (c17B 3) closedRun ∧ ∃ b', RunB (c17B 3) closedRun b' ∧
    b'.g.adm.kw = [(2, { key := 2, hash := 2, weight := 6 })] ∧ b'.g.adm.used = 6 ∧ b'.g.ttl = [] ∧
    b'.g.store.map (·.1) = [2] := by
  have h : (noValueMissingB (c17B 3) closedRun && (match runB? (c17B 3) closedRun with
      | some b' => decide (b'.g.adm.kw = [(2, { key := 2, hash := 2, weight := 6 })] ∧ b'.g.adm.used = 6 ∧
          b'.g.ttl = [] ∧ b'.g.store.map (·.1) = [2])
      | none => false)) = true := by decide +kernel
  simp only [Bool.and_eq_true] at h
  refine ⟨h.1, ?_⟩
  have h2 := h.2
  split at h2
  · rename_i b' hb'
    exact ⟨b', runB?_sound _ hb', of_decide_eq_true h2⟩
  · cases h2

/-- the closed theorem applies to it: all 86 actions meet `Act.pre`, nobody panics, the worker is alive -/
example : ∃ b', ValidRunB (c17B 3) closedRun b' ∧ b'.w ≠ .dead ∧ b'.g.worker ≠ .dead ∧ PanicFree b' := by
  obtain ⟨hvm, b', hrun, _⟩ := closedRun_runs
  have hB : Bounded 100 2000000000 7000000000 10 c17Cfg 3000000000 closedRun := by decide +kernel
  have hD : NoD4 c17Cfg closedRun := by decide +kernel
  have hS : NoSpaceOverflow 100 10 c17Cfg := by decide
  have hv := C17_layerB_closed (seeds := [1, 2, 3, 4]) (clients := 3) (shardMap := []) hB hD hS hvm hrun
  obtain ⟨h1, h2, h3, _⟩ := C17_layerB_closed_no_panic (seeds := [1, 2, 3, 4]) (clients := 3) (shardMap := [])
    (by decide) hB hD hS hvm hrun
  exact ⟨b', hv, h1, h2, h3⟩

/-! ## The named exclusions cannot be dropped (they are the known findings) -/

/-- **Without `NoD4`** (known finding D4): inputs within `Bounded`, no request without a value meets an absent key —
    but a weight (5) does not exceed `ttl_ticker_entry_size` while one request removes a time-to-live without giving
    a weight; the caller of that request panics. -/
theorem C17_layerB_closed_needs_NoD4 :
    ∃ run b', Bounded 100 1000000000 3000000000 2 c17Cfg 3000000000 run ∧ ¬ NoD4 c17Cfg run ∧
      NoValueMissing (c17B 2) run ∧ RunB (c17B 2) run b' ∧ ¬ PanicFree b' := by
  refine ⟨acts (putActs 0 1 10 5 (some 1000000000) ++ List.replicate 7 .worker ++
    .issue 0 (.upsert 1 none none none true) :: List.replicate 4 (.client 0)), ?_⟩
  have h : (match runB? (c17B 2) (acts (putActs 0 1 10 5 (some 1000000000) ++ List.replicate 7 .worker ++
      .issue 0 (.upsert 1 none none none true) :: List.replicate 4 (.client 0))) with
    | some b' => decide (¬ PanicFree b')
    | none => false) = true := by decide +kernel
  split at h
  · rename_i b' hb'
    exact ⟨b', by decide +kernel, by decide +kernel, by decide +kernel, runB?_sound _ hb', of_decide_eq_true h⟩
  · cases h

/-- **Without `NoValueMissing`** (known finding D14, second form): inputs within `Bounded` and `NoD4` (no
    time-to-live removal at all) — `put_or_update(1).weight(7)` is issued while key 1 is present, a `delete(1)` is
    executed up to `store.remove` before the call looks the key up, and the caller panics. -/
theorem C17_layerB_closed_needs_NoValueMissing :
    ∃ run b', Bounded 100 1000000000 3000000000 3 c17Cfg 3000000000 run ∧ NoD4 c17Cfg run ∧
      ¬ NoValueMissing (c17B 2) run ∧ RunB (c17B 2) run b' ∧ ¬ PanicFree b' := by
  refine ⟨c17RaceSetup ++ acts [.issue 0 (.upsert 1 none (some 7) none false), .issue 1 (.delete 1), .client 1,
    .client 1, .client 1, .worker, .worker, .client 0, .client 0], ?_⟩
  have h : (match runB? (c17B 2) (c17RaceSetup ++ acts [.issue 0 (.upsert 1 none (some 7) none false),
      .issue 1 (.delete 1), .client 1, .client 1, .client 1, .worker, .worker, .client 0, .client 0]) with
    | some b' => decide (¬ PanicFree b')
    | none => false) = true := by decide +kernel
  split at h
  · rename_i b' hb'
    exact ⟨b', by decide +kernel, by decide +kernel, by decide +kernel, runB?_sound _ hb', of_decide_eq_true h⟩
  · cases h

/-- `spaceOverflowPrefix` (NoPanic.lean: the schedule of `corpus/C17_D10_space_overflow.in`, first case) and the worker's
    action at `wu.space` -/
def spaceOverflowRun : List (Act × Oracle) := spaceOverflowPrefix ++ acts [.worker]

/-- **Without `NoSpaceOverflow`** (the consequence of the known finding D10): inputs within `Bounded` and `NoD4`, every
    `put_or_update`… there is none; no value is missing — but the limit is `i64::MAX`, `shutdown()` overlaps a delete, the
    total is −3 when the next put computes `max_weight - weight_used`: the worker dies, the put's acknowledgement stays
    pending for ever. -/
theorem C17_layerB_closed_needs_NoSpaceOverflow :
    ∃ b', Bounded 100 0 3000000000 4 c17BigCfg 3000000000 spaceOverflowRun ∧ NoD4 c17BigCfg spaceOverflowRun ∧
      Valued spaceOverflowRun ∧ ¬ NoSpaceOverflow 100 4 c17BigCfg ∧
      NoValueMissing (c17BBig 2) spaceOverflowRun ∧ RunB (c17BBig 2) spaceOverflowRun b' ∧
      b'.w = .dead ∧ b'.g.worker = .dead ∧ b'.g.adm.used = -3 ∧ b'.g.acks = [.accepted, .accepted, .pending] := by
  have h : (match runB? (c17BBig 2) spaceOverflowRun with
    | some b' => decide (b'.w = .dead ∧ b'.g.worker = .dead ∧ b'.g.adm.used = -3 ∧
        b'.g.acks = [.accepted, .accepted, .pending])
    | none => false) = true := by decide +kernel
  split at h
  · rename_i b' hb'
    obtain ⟨h1, h2, h3, h4⟩ := of_decide_eq_true h
    exact ⟨b', by decide +kernel, by decide +kernel, by decide +kernel, by decide +kernel, by decide +kernel,
      runB?_sound _ hb', h1, h2, h3, h4⟩
  · cases h

/-! ## Why the bounds count requests: the charge of a key drifts by `ttl_ticker_entry_size` per request

  `upsert.weight_of` reads the charge in the ledger while an `UpdateWeight` of an earlier `put_or_update` of the same
  key may still be queued; the weight it derives is `stale charge ± 24`.  So the charge of a key is NOT a function of
  the weight it was put with and of whether it has a time-to-live: every request without weight and value can move
  it one more `ttl_ticker_entry_size` away.  Both runs below are by ONE client that does not wait for its
  acknowledgements; every weight issued is 30. -/

/-- **Downward drift** — an instance of the known finding D4 (the key IS charged less than 25 when the last call reads
    it) that no per-key condition "put with a weight above 24" excludes: `put_with_weight_and_ttl(1, 30)`; remove the
    time-to-live (`UpdateWeight(1, 6)` applied); add one (`UpdateWeight(1, 30)` queued, not yet applied); remove it
    again: `weight_of` reads the stale 6, `6 - 24`, panic in the caller.  Inputs within `Bounded`, every issued weight
    above `ttl_ticker_entry_size`, two removals: `NoD4` asks for weights above `2 * 24` and fails — its factor
    `rmCount` cannot be dropped. -/
theorem C17_layerB_closed_NoD4_counts_removals :
    ∃ run b', Bounded 100 1000000000 3000000000 4 c17Cfg 3000000000 run ∧
      (∀ r ∈ issued run, reqWOk c17Cfg (fun x => c17Cfg.ttlEntry < x) r) ∧ rmCount run = 2 ∧ ¬ NoD4 c17Cfg run ∧
      NoValueMissing (c17B 1) run ∧ RunB (c17B 1) run b' ∧ ¬ PanicFree b' := by
  refine ⟨acts (putActs 0 1 10 30 (some 1000000000) ++ List.replicate 7 .worker ++
    .issue 0 (.upsert 1 none none none true) :: List.replicate 5 (.client 0) ++ [.worker, .worker] ++
    .issue 0 (.upsert 1 none none (some 1000000000) false) :: List.replicate 5 (.client 0) ++
    .issue 0 (.upsert 1 none none none true) :: List.replicate 4 (.client 0)), ?_⟩
  have h : (match runB? (c17B 1) (acts (putActs 0 1 10 30 (some 1000000000) ++ List.replicate 7 .worker ++
      .issue 0 (.upsert 1 none none none true) :: List.replicate 5 (.client 0) ++ [.worker, .worker] ++
      .issue 0 (.upsert 1 none none (some 1000000000) false) :: List.replicate 5 (.client 0) ++
      .issue 0 (.upsert 1 none none none true) :: List.replicate 4 (.client 0))) with
    | some b' => decide (¬ PanicFree b')
    | none => false) = true := by decide +kernel
  split at h
  · rename_i b' hb'
    exact ⟨b', by decide +kernel, by decide +kernel, by decide +kernel, by decide +kernel, by decide +kernel,
      runB?_sound _ hb', of_decide_eq_true h⟩
  · cases h

/-- **Upward drift** (why the largest weight is `W + ttl_ticker_entry_size * N`, not `W + ttl_ticker_entry_size`):
    `put_with_weight(1, 30)`; add a time-to-live (`UpdateWeight(1, 54)` applied); remove it (`UpdateWeight(1, 30)`
    queued); add one again: `weight_of` reads the stale 54 and sends `UpdateWeight(1, 78)`.  With every command applied
    and every call returned, key 1 — put with weight 30, ONE time-to-live — is charged `30 + 2 * 24`; nobody
    panicked (the inputs satisfy every hypothesis of the closed theorem). -/
theorem closed_charge_drifts_up :
    ∃ run b', Bounded 100 1000000000 3000000000 4 c17Cfg 3000000000 run ∧ NoD4 c17Cfg run ∧
      NoValueMissing (c17B 1) run ∧ RunB (c17B 1) run b' ∧ PanicFree b' ∧ b'.g.queue = [] ∧ b'.cl = [.idle] ∧
      b'.g.adm.kw = [(1, { key := 1, hash := 1, weight := 78 })] ∧ b'.g.adm.used = 78 ∧
      b'.g.store = [(1, { value := 10, id := 1, expiry := some 4000000000, soft := false })] := by
  refine ⟨acts (putActs 0 1 10 30 none ++ List.replicate 6 .worker ++
    .issue 0 (.upsert 1 none none (some 1000000000) false) :: List.replicate 5 (.client 0) ++ [.worker, .worker] ++
    .issue 0 (.upsert 1 none none none true) :: List.replicate 5 (.client 0) ++
    .issue 0 (.upsert 1 none none (some 1000000000) false) :: List.replicate 5 (.client 0) ++
    List.replicate 4 .worker), ?_⟩
  have h : (match runB? (c17B 1) (acts (putActs 0 1 10 30 none ++ List.replicate 6 .worker ++
      .issue 0 (.upsert 1 none none (some 1000000000) false) :: List.replicate 5 (.client 0) ++ [.worker, .worker] ++
      .issue 0 (.upsert 1 none none none true) :: List.replicate 5 (.client 0) ++
      .issue 0 (.upsert 1 none none (some 1000000000) false) :: List.replicate 5 (.client 0) ++
      List.replicate 4 .worker)) with
    | some b' => decide (PanicFree b' ∧ b'.g.queue = [] ∧ b'.cl = [.idle] ∧
        b'.g.adm.kw = [(1, { key := 1, hash := 1, weight := 78 })] ∧ b'.g.adm.used = 78 ∧
        b'.g.store = [(1, { value := 10, id := 1, expiry := some 4000000000, soft := false })])
    | none => false) = true := by decide +kernel
  split at h
  · rename_i b' hb'
    exact ⟨b', by decide +kernel, by decide +kernel, by decide +kernel, runB?_sound _ hb', of_decide_eq_true h⟩
  · cases h

end B
end Cached
