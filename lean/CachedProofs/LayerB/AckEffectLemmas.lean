/-
  Helper lemmas for LayerB/AckEffect.lean ("the effect is in place when the acknowledgement is answered").

    1  one action and the ledger entry of ONE key id (`kwTouches`, `ack_kw_quiet_step`, `ack_kw_no_new`),
       one action and the index entries of ONE key id (`ttlTouches`, `ack_ttl_quiet_step`)
    2  `disturbs`, `Undisturbed` (runs in which no action is aimed at the key `k` / the key id `id`)
    3  the worker's answering actions as exact equations (`ack_workerAct_*`): `WTrans` of Inv.lean forgets the outcome
       of the checks
-/
import CachedProofs.LayerB.Order
import CachedProofs.LayerB.Bijection
import CachedProofs.LayerB.Sweep

namespace Cached
namespace B

/-! ## 1  one action and the ledger / index entries of one key id -/

/-- the action `a`, taken in state `b`, reaches into the weight ledger `kw` AT the key id `id`:
    the worker's `kw.insert` of a put under `id`, its `kw.remove` of the victim `id` or of the entry a `Delete` removed,
    its `kw.update` of `UpdateWeight(id, ·)`; the sweeper's `kw.remove` of `id`.
    (`shutdown()`'s `kw_clear` is not listed: the statements below are about a cache that is running.) -/
def kwTouches (id : Nat) (b : BState) : Act → Bool
  | .worker =>
    (match b.w with
     | .insert c => c.id == id
     | .evRemove _ _ _ victim => victim.id == id
     | .delKw id' _ _ => id' == id
     | .update id' _ _ => id' == id
     | _ => false)
  | .sweeper _ =>
    (match b.sw with
     | .kwRemove _ _ _ id' => id' == id
     | _ => false)
  | _ => false

/-- the action `a`, taken in state `b`, reaches into the expiry index AT the key id `id`: the worker's `ttl.put` of the
    put under `id`, its `ttl.delete` of a `Delete` that removed `id`; the sweeper's `sweep.entry` visiting `id`; a
    client inside a `put_or_update` that read `id` (positions `upsert.weight_of` … `ttl.update.insert`).
    (`shutdown()`'s `ttl_clear` is not listed: running cache.) -/
def ttlTouches (id : Nat) (b : BState) : Act → Bool
  | .worker =>
    (match b.w with
     | .ttlPut c _ => c.id == id
     | .delTtl id' _ _ => id' == id
     | _ => false)
  | .sweeper v =>
    (match b.sw with
     | .entry _ _ _ => v == some id
     | _ => false)
  | .client i =>
    (match b.cl[i]? with
     | some pc => pc.usedId? == some id
     | none => false)
  | _ => false

theorem ack_running_no_afterCas {b : BState} (hb : BInv b) (hrun : b.g.shutting = false) {i : Nat} {pc : CPc}
    (hpc : b.cl[i]? = some pc) : pc.afterCas = false := by
  cases h : pc.afterCas with
  | false => rfl
  | true => rw [hb.shutFlag i pc hpc h] at hrun; cases hrun

/-- a client action of a running cache leaves the admission part alone -/
theorem ack_ctrans_adm {b b' : BState} {i : Nat} (hb : BInv b) (hrun : b.g.shutting = false) (h : CTrans b i b') :
    b'.g.adm = b.g.adm := by
  rcases ctrans_adm h with h1 | ⟨pc, hpc, ha, _⟩
  · exact h1
  · rw [ack_running_no_afterCas hb hrun hpc] at ha; cases ha

/-- **One action that does not reach into the ledger at `id` leaves the ledger's answer for `id` as it is**
    (running cache). -/
theorem ack_kw_quiet_step {b b' : BState} {a : Act} {o o' : Oracle} {id : Nat} (hb : BInv b)
    (hrun : b.g.shutting = false) (h : stepB b a o = .ok (b', o')) (hq : kwTouches id b a = false) :
    b'.g.adm.kw.get? id = b.g.adm.kw.get? id := by
  cases a with
  | issue i r =>
    simp only [stepB] at h
    split at h
    · rename_i b1 hi
      simp only [Except.ok.injEq, Prod.mk.injEq] at h; obtain ⟨rfl, rfl⟩ := h
      unfold issue at hi
      split at hi
      · simp only [Except.ok.injEq] at hi; subst hi; rfl
      · cases hi
    · cases h
  | client i => rw [ack_ctrans_adm hb hrun (clientAct_trans h)]
  | worker =>
    have ht := workerAct_trans h
    cases ht
    case insert c hw =>
      have : c.id ≠ id := by simpa [kwTouches, hw] using hq
      simp [AMap.get?_set_other _ _ this]
    case evRemoveSome c e s victim wk hw hg =>
      have : victim.id ≠ id := by simpa [kwTouches, hw] using hq
      simp [AMap.get?_del_other _ this]
    case delKwSome id' exp hh wk hw hg =>
      have : id' ≠ id := by simpa [kwTouches, hw] using hq
      simp [AMap.get?_del_other _ this]
    case updateApplied id' w hh wk hw _ hg =>
      have : id' ≠ id := by simpa [kwTouches, hw] using hq
      simp [finishCmd, AMap.get?_set_other _ _ this]
    all_goals simp [finishCmd, rejectCmd, ttlPut, ttlDelete]
  | sweeper v =>
    have ht := sweeperAct_trans (swB_sweeper_step h)
    cases ht
    case kwRemoveSome now shard rest id' wk hg hs hu =>
      have : id' ≠ id := by simpa [kwTouches, hs] using hq
      simp [AMap.get?_del_other _ this]
    all_goals (try unfold sweepNext)
    all_goals (try split)
    all_goals simp
  | consumer =>
    simp only [stepB] at h
    split at h
    · rename_i g' out o1 hc
      simp only [Except.ok.injEq, Prod.mk.injEq] at h; obtain ⟨rfl, rfl⟩ := h
      show g'.adm.kw.get? id = _
      rw [consumerStep_frame hc]
    · cases h
  | advance d =>
    simp only [stepB, Except.ok.injEq, Prod.mk.injEq] at h; obtain ⟨rfl, rfl⟩ := h
    rfl

/-- **No thread but the worker ever charges a key id or changes a charge** (running cache): what the ledger holds for
    `id` after an action of another thread it held before. -/
theorem ack_kw_no_new {b b' : BState} {a : Act} {o o' : Oracle} {id : Nat} {wk : WKey} (hb : BInv b)
    (hrun : b.g.shutting = false) (h : stepB b a o = .ok (b', o')) (ha : a ≠ .worker)
    (hg : b'.g.adm.kw.get? id = some wk) : b.g.adm.kw.get? id = some wk := by
  cases a with
  | worker => exact absurd rfl ha
  | sweeper v => exact strans_kw (sweeperAct_trans (swB_sweeper_step h)) id wk hg
  | issue i r => rw [ack_kw_quiet_step hb hrun h rfl] at hg; exact hg
  | client i => rw [ack_kw_quiet_step hb hrun h rfl] at hg; exact hg
  | consumer => rw [ack_kw_quiet_step hb hrun h rfl] at hg; exact hg
  | advance d => rw [ack_kw_quiet_step hb hrun h rfl] at hg; exact hg

theorem ack_pair_ne {sh sh' id id' : Nat} (h : id' ≠ id) : (sh', id') ≠ (sh, id) := by
  intro e; exact h (by cases e; rfl)

/-- **One action that does not reach into the expiry index at `id` leaves every index entry of `id` as it is**
    (running cache). -/
theorem ack_ttl_quiet_step {b b' : BState} {a : Act} {o o' : Oracle} {id : Nat} (hb : BInv b)
    (hrun : b.g.shutting = false) (h : stepB b a o = .ok (b', o')) (hq : ttlTouches id b a = false) (sh : Nat) :
    b'.g.ttl.get? (sh, id) = b.g.ttl.get? (sh, id) := by
  cases a with
  | issue i r =>
    simp only [stepB] at h
    split at h
    · rename_i b1 hi
      simp only [Except.ok.injEq, Prod.mk.injEq] at h; obtain ⟨rfl, rfl⟩ := h
      unfold issue at hi
      split at hi
      · simp only [Except.ok.injEq] at hi; subst hi; rfl
      · cases hi
    · cases h
  | client i =>
    have ht := clientAct_trans h
    have hpcq : ∀ pc, b.cl[i]? = some pc → pc.usedId? ≠ some id := by
      intro pc hpc
      simpa [ttlTouches, hpc] using hq
    cases ht
    case getPool hp => rw [poolAdd_frame hp]; rfl
    case refPool hp => rw [poolAdd_frame hp]; rfl
    case shutLocal hg => rw [hg]; rfl
    case mgetStep hg => rw [hg]; rfl
    case mgetFin hg => rw [hg]; rfl
    case upAfterSame => rw [(swB_upAfterIndex_g _ _ _ _).1]
    case upAfterPut pc id' e uw hpc hu hfree =>
      have hne : id' ≠ id := fun e => hpcq pc hpc (by rw [hu, e])
      rw [(swB_upAfterIndex_g _ _ _ _).1]
      simp [ttlPut, AMap.get?_set_other _ _ (ack_pair_ne hne)]
    case upAfterDelete id' e uw hpc hfree =>
      have hne : id' ≠ id := fun e => hpcq _ hpc (by rw [e]; rfl)
      rw [(swB_upAfterIndex_g _ _ _ _).1]
      simp [ttlDelete, AMap.get?_del_other _ (ack_pair_ne hne)]
    case upTtlRemove id' old new uw hpc hfree =>
      have hne : id' ≠ id := fun e => hpcq _ hpc (by rw [e]; rfl)
      simp [setClient, ttlDelete, AMap.get?_del_other _ (ack_pair_ne hne)]
    case shutTtlClear hpc ho =>
      have := ack_running_no_afterCas hb hrun hpc
      simp [CPc.afterCas] at this
    all_goals simp [finishCall, setClient, spotFinish]
  | worker =>
    have ht := workerAct_trans h
    cases ht
    case ttlPut c e hw hf =>
      have hne : c.id ≠ id := by simpa [ttlTouches, hw] using hq
      simp [finishCmd, ttlPut, AMap.get?_set_other _ _ (ack_pair_ne hne)]
    case delTtl id' e hh hw hf =>
      have hne : id' ≠ id := by simpa [ttlTouches, hw] using hq
      simp [finishCmd, ttlDelete, AMap.get?_del_other _ (ack_pair_ne hne)]
    all_goals simp [finishCmd, rejectCmd]
  | sweeper v =>
    have hsa := swB_sweeper_step h
    cases hsw : b.sw with
    | entry now shard rest =>
      obtain ⟨id', e, hv, _, hcase⟩ := swB_entry_spec hsw hsa
      have hne : id' ≠ id := by
        intro e; subst e
        simp [ttlTouches, hsw, hv] at hq
      rcases hcase with ⟨_, rfl⟩ | ⟨_, rfl⟩
      · simp [AMap.get?_del_other _ (ack_pair_ne hne)]
      · unfold sweepNext; split <;> rfl
    | _ =>
      cases sweeperAct_trans hsa
      case entryExpired hs' => rw [hsw] at hs'; cases hs'
      case entryKeep hs' => rw [hsw] at hs'; cases hs'
      all_goals (try unfold sweepNext)
      all_goals (try split)
      all_goals simp
  | consumer =>
    simp only [stepB] at h
    split at h
    · rename_i g' out o1 hc
      simp only [Except.ok.injEq, Prod.mk.injEq] at h; obtain ⟨rfl, rfl⟩ := h
      show g'.ttl.get? (sh, id) = _
      rw [consumerStep_frame hc]
    · cases h
  | advance d =>
    simp only [stepB, Except.ok.injEq, Prod.mk.injEq] at h; obtain ⟨rfl, rfl⟩ := h
    rfl

/-! ## 2  runs in which nothing is aimed at the key `k` / the key id `id` -/

/-- the action `a`, taken in state `b`, is aimed at the store entry of `k` (`touches` of Entries.lean: the worker's
    `store.remove` of `Delete(k)` / of an eviction of a charge of `k`, the sweeper's `store.remove` of a charge of `k`,
    a client's `upsert.update` / `delete.mark` of `k`, `shutdown()`'s `store.clear`), at the ledger entry of `id`
    (`kwTouches`) or at an index entry of `id` (`ttlTouches`) -/
def disturbs (k id : Nat) (b : BState) (a : Act) : Bool := touches k b a || kwTouches id b a || ttlTouches id b a

theorem disturbs_false {k id : Nat} {b : BState} {a : Act} (h : disturbs k id b a = false) :
    touches k b a = false ∧ kwTouches id b a = false ∧ ttlTouches id b a = false := by
  simpa [disturbs, Bool.or_eq_false_iff, and_assoc] using h

/-- the reflexive-transitive closure of the actions that are NOT aimed at `k` / `id`.  Everything else is allowed:
    operations on other keys, reads of any key, puts of `k` (refused while `k` is present), evictions and sweeps of
    other ids, the consumer, clock moves, commands sent, taken and answered. -/
inductive Undisturbed (k id : Nat) : BState → BState → Prop where
  | refl (b : BState) : Undisturbed k id b b
  | step {b b1 b' : BState} {a : Act} {o o' : Oracle} :
      Undisturbed k id b b1 → stepB b1 a o = .ok (b', o') → disturbs k id b1 a = false → Undisturbed k id b b'

theorem Undisturbed.reach {k id : Nat} {cfg : Cfg} {now : Nat} {seeds : List Nat} {clients : Nat} {b b' : BState}
    (h : Undisturbed k id b b') (hr : Reach cfg now seeds clients b) : Reach cfg now seeds clients b' := by
  induction h with
  | refl => exact hr
  | step _ hs _ ih => exact .step ih hs

theorem Undisturbed.running {k id : Nat} {b b' : BState} (h : Undisturbed k id b b') (hrun : b'.g.shutting = false) :
    b.g.shutting = false := by
  induction h with
  | refl => exact hrun
  | step _ hs _ ih => exact ih (stepB_running_before hs hrun)

theorem Undisturbed.trans {k id : Nat} {b b1 b2 : BState} (h1 : Undisturbed k id b b1) (h2 : Undisturbed k id b1 b2) :
    Undisturbed k id b b2 := by
  induction h2 with
  | refl => exact h1
  | step _ hs hd ih => exact .step ih hs hd

/-- an executable check: run the actions, checking each for not being aimed at `k` / `id` -/
def undisturbedRun (k id : Nat) (b : BState) : List (Act × Oracle) → Option BState
  | [] => some b
  | (a, o) :: rest =>
    match stepB b a o with
    | .ok (b', _) => if disturbs k id b a then none else undisturbedRun k id b' rest
    | .error _ => none

theorem undisturbed_of_run {k id : Nat} : ∀ (l : List (Act × Oracle)) (b b' : BState),
    undisturbedRun k id b l = some b' → Undisturbed k id b b' ∧ runB b l = .ok b' := by
  intro l
  induction l with
  | nil =>
    intro b b' h
    simp only [undisturbedRun, Option.some.injEq] at h
    subst h
    exact ⟨.refl _, rfl⟩
  | cons x l ih =>
    intro b b' h
    obtain ⟨a, o⟩ := x
    simp only [undisturbedRun] at h
    split at h
    · rename_i b1 o1 hs
      split at h
      · cases h
      · rename_i ht
        obtain ⟨hq, hr⟩ := ih b1 b' h
        have ht' : disturbs k id b a = false := by simpa using ht
        exact ⟨(Undisturbed.step (.refl _) hs ht').trans hq, by simp only [runB, hs]; exact hr⟩
    · cases h

/-! ## 3  the worker's answering actions -/

theorem ack_stepB_worker {b b' : BState} {o o' : Oracle} (h : stepB b .worker o = .ok (b', o')) :
    workerAct b o = .ok (b', o') := h

/-- the worker action that writes an answer into the cell of the handle it holds is the LAST action of the command:
    the worker is back at `recv` -/
theorem ack_answer_recv {b b' : BState} {o o' : Oracle} {h : Nat} {st : Status} (hi : HInv b)
    (hheld : b.w.held = some h) (hs : stepB b .worker o = .ok (b', o')) (ha : b'.g.acks[h]? = some st)
    (hne : st ≠ .pending) : b'.w = .recv ∧ b.w.busy = true ∧ b.g.acks[h]? = some .pending := by
  have hp := (hi.held h hheld).1
  have hb : b.w.busy = true := by
    cases hw : b.w <;> simp [hw, WPc.held] at hheld <;> rfl
  have hnot : b.w ≠ .recv ∧ b.w ≠ .drain := by
    constructor <;> intro e <;> rw [e] at hb <;> cases hb
  have hsame : b'.g.acks = b.g.acks → False := by
    intro e
    rw [e, hp] at ha
    simp only [Option.some.injEq] at ha
    exact hne ha.symm
  cases stepB_bstep hs with
  | worker _ hw =>
    cases hw with
    | take _ _ _ _ _ hw => exact absurd hw hnot.1
    | takeShutdown _ _ _ _ hw => exact absurd hw hnot.1
    | takeDrain _ _ _ _ _ hw => exact absurd hw hnot.2
    | cont _ _ _ _ hacks => exact (hsame hacks).elim
    | complete st' _ hw' _ _ _ => exact ⟨hw', hb, hp⟩
    | die _ _ _ hacks => exact (hsame hacks).elim
  | client i ha' => cases ha'
  | other ha' => exact absurd rfl ha'

/-- what the cell of a held handle `h` holds after `finishCmd … (some h) st` -/
theorem ack_finishCmd_get {b : BState} {h : Nat} {st : Status} (hlt : h < b.g.acks.length) :
    (finishCmd b (some h) st).g.acks[h]? = some st := by
  simp [finishCmd, setAck, hlt]

theorem ack_rejectCmd_get {b : BState} {h : Nat} {st : Status} (hlt : h < b.g.acks.length) :
    (rejectCmd b (some h) st).g.acks[h]? = some st := by
  simp [rejectCmd, finishCmd, setAck, hlt]

/-- **The five ways the worker ends a put `c`** (its last action, back to `recv`): the re-check finds the key
    (`KeyAlreadyExists`), the weight exceeds the cache's (`TooHeavy`), the eviction loop gives up (`NoSpace`: a victim
    estimated above the incoming key, or the sample ran dry and the space is still short), `store.put` of a put without
    time-to-live, `ttl.put` of a put with one. -/
theorem ack_put_last_action {b b' : BState} {o o' : Oracle} {c : PutCmd} (hc : b.w.cmd? = some c)
    (hs : stepB b .worker o = .ok (b', o')) (hrecv : b'.w = .recv) :
    (b.w = .present c ∧ b.g.store.contains c.k = true ∧ b' = finishCmd b c.h (.rejected .keyAlreadyExists)) ∨
    (b.w = .present c ∧ b.g.store.contains c.k = false ∧ c.w > b.g.adm.max ∧
      b' = rejectCmd b c.h (.rejected .tooHeavy)) ∨
    (((∃ space e, b.w = .sampleInit c space e) ∨ (∃ e s space, b.w = .fill c e s space) ∨
        (b.w = .emptySpace c ∧ b.g.adm.max - b.g.adm.used < c.w)) ∧
      b' = rejectCmd b c.h (.rejected .noSpace)) ∨
    (b.w = .storePut c ∧ c.ttl = none ∧
      b' = finishCmd { b with g := { b.g with
              store := b.g.store.set c.k { value := c.v, id := c.id, expiry := none, soft := false },
              stats := { b.g.stats with keysAdded := b.g.stats.keysAdded + 1 } } } c.h .accepted) ∨
    (∃ e, b.w = .ttlPut c e ∧ b' = finishCmd { b with g := ttlPut b.g c.id e } c.h .accepted) := by
  have hwa := ack_stepB_worker hs
  cases hw : b.w <;> simp only [hw, WPc.cmd?, Option.some.injEq, reduceCtorEq] at hc
  all_goals subst hc
  case present c =>
    obtain ⟨_, ⟨h1, rfl⟩ | ⟨h1, h2, rfl⟩ | ⟨_, _, rfl⟩⟩ := ent_workerAct_present hw hwa
    · exact Or.inl ⟨rfl, h1, rfl⟩
    · exact Or.inr (Or.inl ⟨rfl, h1, h2, rfl⟩)
    · cases hrecv
  case emptySpace c =>
    simp only [workerAct, hw] at hwa
    split at hwa
    · cases hwa
    · split at hwa
      · simp only [Except.ok.injEq, Prod.mk.injEq] at hwa; obtain ⟨rfl, rfl⟩ := hwa; cases hrecv
      split at hwa
      · simp only [Except.ok.injEq, Prod.mk.injEq] at hwa; obtain ⟨rfl, rfl⟩ := hwa; cases hrecv
      · rename_i hlt
        simp only [Except.ok.injEq, Prod.mk.injEq] at hwa; obtain ⟨rfl, rfl⟩ := hwa
        exact Or.inr (Or.inr (Or.inl ⟨Or.inr (Or.inr ⟨rfl, by omega⟩), rfl⟩))
  case storePut c =>
    obtain ⟨_, _, ⟨ht, rfl⟩ | ⟨t, _, _, rfl⟩ | ⟨t, e, _, _, rfl⟩⟩ := ent_workerAct_storePut hw hwa
    · exact Or.inr (Or.inr (Or.inr (Or.inl ⟨rfl, ht, rfl⟩)))
    · cases hrecv
    · cases hrecv
  all_goals
    have ht := workerAct_trans hwa
    cases ht <;> first
      | (rename_i hw'; rw [hw] at hw'; cases hw'; done)
      | (rename_i hw' _; rw [hw] at hw'; cases hw'; done)
      | (rename_i hw' _ _; rw [hw] at hw'; cases hw'; done)
      | (cases hrecv; done)
      | skip
  case sampleInit.initReject c space e c' e' space' hw' =>
    rw [hw] at hw'; cases hw'
    exact Or.inr (Or.inr (Or.inl ⟨Or.inl ⟨_, _, rfl⟩, rfl⟩))
  case fill.fillReject c e s space c' e' s' space' hw' =>
    rw [hw] at hw'; cases hw'
    exact Or.inr (Or.inr (Or.inl ⟨Or.inr (Or.inl ⟨_, _, _, rfl⟩), rfl⟩))
  case ttlPut.ttlPut c e c' e' hw' _ =>
    rw [hw] at hw'; cases hw'
    exact Or.inr (Or.inr (Or.inr (Or.inr ⟨_, rfl, rfl⟩)))

/-- the worker's `kw.remove` action of a `Delete` command, exactly -/
theorem ack_workerAct_delKw {b b' : BState} {o o' : Oracle} {id : Nat} {exp hh : Option Nat} (hw : b.w = .delKw id exp hh)
    (h : workerAct b o = .ok (b', o')) :
    o' = o ∧
    ((∃ wk, b.g.adm.kw.get? id = some wk ∧
        b' = { b with g := { b.g with adm := { b.g.adm with kw := b.g.adm.kw.del id } }, w := .delSub id wk exp hh }) ∨
     (∃ e, b.g.adm.kw.get? id = none ∧ exp = some e ∧ b' = { b with w := .delTtl id e hh }) ∨
     (b.g.adm.kw.get? id = none ∧ exp = none ∧ b' = finishCmd b hh .accepted)) := by
  simp only [workerAct, hw] at h
  split at h
  · rename_i wk hg
    simp only [Except.ok.injEq, Prod.mk.injEq] at h; obtain ⟨rfl, rfl⟩ := h
    exact ⟨rfl, Or.inl ⟨wk, hg, rfl⟩⟩
  · rename_i hg
    split at h
    · rename_i e
      simp only [Except.ok.injEq, Prod.mk.injEq] at h; obtain ⟨rfl, rfl⟩ := h
      exact ⟨rfl, Or.inr (Or.inl ⟨e, hg, rfl, rfl⟩)⟩
    · simp only [Except.ok.injEq, Prod.mk.injEq] at h; obtain ⟨rfl, rfl⟩ := h
      exact ⟨rfl, Or.inr (Or.inr ⟨hg, rfl, rfl⟩)⟩

/-- the worker's `wu.sub` action of a `Delete` command, exactly -/
theorem ack_workerAct_delSub {b b' : BState} {o o' : Oracle} {id : Nat} {wk : WKey} {exp hh : Option Nat}
    (hw : b.w = .delSub id wk exp hh) (h : workerAct b o = .ok (b', o')) :
    o' = o ∧ wuFree b .worker = true ∧
    ((∃ e, exp = some e ∧
        b' = { b with g := { b.g with adm := { b.g.adm with used := b.g.adm.used - wk.weight }, stats := { b.g.stats with weightRemoved := (b.g.stats.weightRemoved + wk.weight.toNat) % u64Mod } }, w := .delTtl id e hh }) ∨
     (exp = none ∧
        b' = finishCmd { b with g := { b.g with adm := { b.g.adm with used := b.g.adm.used - wk.weight }, stats := { b.g.stats with weightRemoved := (b.g.stats.weightRemoved + wk.weight.toNat) % u64Mod } } } hh .accepted)) := by
  simp only [workerAct, hw] at h
  split at h
  · cases h
  · rename_i hf
    simp only [Bool.not_eq_true, Bool.not_eq_false'] at hf
    split at h
    · rename_i e
      simp only [Except.ok.injEq, Prod.mk.injEq] at h; obtain ⟨rfl, rfl⟩ := h
      exact ⟨rfl, hf, Or.inl ⟨e, rfl, rfl⟩⟩
    · simp only [Except.ok.injEq, Prod.mk.injEq] at h; obtain ⟨rfl, rfl⟩ := h
      exact ⟨rfl, hf, Or.inr ⟨rfl, rfl⟩⟩

/-- the worker's `ttl.delete` action of a `Delete` command, exactly -/
theorem ack_workerAct_delTtl {b b' : BState} {o o' : Oracle} {id e : Nat} {hh : Option Nat} (hw : b.w = .delTtl id e hh)
    (h : workerAct b o = .ok (b', o')) :
    o' = o ∧ ttlFree b (shardOf b.g.cfg e) = true ∧ b' = finishCmd { b with g := ttlDelete b.g id e } hh .accepted := by
  simp only [workerAct, hw] at h
  split at h
  · cases h
  · rename_i hf
    simp only [Bool.not_eq_true, Bool.not_eq_false'] at hf
    simp only [Except.ok.injEq, Prod.mk.injEq] at h; obtain ⟨rfl, rfl⟩ := h
    exact ⟨rfl, hf, rfl⟩

/-- the worker's `ttl.put` action of a put with a time-to-live, exactly -/
theorem ack_workerAct_ttlPut {b b' : BState} {o o' : Oracle} {c : PutCmd} {e : Nat} (hw : b.w = .ttlPut c e)
    (h : workerAct b o = .ok (b', o')) :
    o' = o ∧ ttlFree b (shardOf b.g.cfg e) = true ∧ b' = finishCmd { b with g := ttlPut b.g c.id e } c.h .accepted := by
  simp only [workerAct, hw] at h
  split at h
  · cases h
  · rename_i hf
    simp only [Bool.not_eq_true, Bool.not_eq_false'] at hf
    simp only [Except.ok.injEq, Prod.mk.injEq] at h; obtain ⟨rfl, rfl⟩ := h
    exact ⟨rfl, hf, rfl⟩

/-- the worker's `kw.update` action (the whole of an `UpdateWeight` command), exactly -/
theorem ack_workerAct_update {b b' : BState} {o o' : Oracle} {id : Nat} {w : Int} {hh : Option Nat}
    (hw : b.w = .update id w hh) (h : workerAct b o = .ok (b', o')) :
    o' = o ∧ wuFree b .worker = true ∧
    ((b.g.adm.kw.get? id = none ∧ b' = finishCmd b hh .accepted) ∨
     (∃ wk, b.g.adm.kw.get? id = some wk ∧ inI64 (w - wk.weight) = true ∧ inI64 (b.g.adm.used + (w - wk.weight)) = true ∧
        b' = finishCmd { b with g := { b.g with adm := { b.g.adm with used := b.g.adm.used + (w - wk.weight), kw := b.g.adm.kw.set id { wk with weight := w } }, stats := updateWeightStats { b.g.stats with keysUpdated := b.g.stats.keysUpdated + 1 } w wk.weight } } hh .accepted) ∨
     (∃ wk, b.g.adm.kw.get? id = some wk ∧ (inI64 (w - wk.weight) = false ∨ inI64 (b.g.adm.used + (w - wk.weight)) = false) ∧
        b' = { b with w := .dead, g := { b.g with worker := .dead, queue := [] } })) := by
  simp only [workerAct, hw] at h
  split at h
  · cases h
  · rename_i hf
    simp only [Bool.not_eq_true, Bool.not_eq_false'] at hf
    unfold workerUpdateWeight at h
    split at h
    · rename_i g1 st x1 x2 x3 heq
      split at heq
      · rename_i hg
        cases heq
        simp only [Except.ok.injEq, Prod.mk.injEq] at h; obtain ⟨rfl, rfl⟩ := h
        exact ⟨rfl, hf, Or.inl ⟨hg, rfl⟩⟩
      · rename_i wk hg
        simp only [] at heq
        split at heq
        · cases heq
        · rename_i hin
          cases heq
          simp only [Except.ok.injEq, Prod.mk.injEq] at h; obtain ⟨rfl, rfl⟩ := h
          simp only [Bool.or_eq_true, Bool.not_eq_true', not_or, Bool.not_eq_false] at hin
          exact ⟨rfl, hf, Or.inr (Or.inl ⟨wk, hg, hin.1, hin.2, rfl⟩)⟩
    · rename_i g1 p heq
      split at heq
      · cases heq
      · rename_i wk hg
        simp only [] at heq
        split at heq
        · rename_i hin
          cases heq
          simp only [Except.ok.injEq, Prod.mk.injEq] at h; obtain ⟨rfl, rfl⟩ := h
          simp only [Bool.or_eq_true, Bool.not_eq_true'] at hin
          exact ⟨rfl, hf, Or.inr (Or.inr ⟨wk, hg, hin, rfl⟩)⟩
        · cases heq

/-- the worker's next position inside a put: the same put, or the command is over -/
theorem ack_cmd_next {b b' : BState} (h : WTrans b b') {c : PutCmd} (hc : b.w.cmd? = some c) :
    b'.w.cmd? = some c ∨ b'.w = .recv ∨ b'.w = .dead := by
  cases h <;> simp_all [WPc.cmd?, finishCmd, rejectCmd]

end B
end Cached
