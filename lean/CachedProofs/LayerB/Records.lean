/-
  C15 at ACTION granularity (Layer B, `CachedModel/LayerB.lean`), for EVERY interleaving:
  "Every hit is accounted exactly once; reads never wait for the counting pipeline."

  In Layer B a read is TWO atomic actions: at `store.get` (`.getStore k` / `.refStore k`) the store is looked up and
  `hits` (or `misses`) is bumped; at `pool.add` (`.getPool k v` / `.refPool k v`) the access record is put into a
  buffer of the pool.  A MULTI-KEY read (`multi_get` and its iterators) does these two actions for each of its keys
  (`.mgetStore k ks acc iter` / `.mgetPool k v ks acc iter`), with any interleaving between them and between keys:
  each of its hits is in flight between ITS lookup and ITS `pool.add` and contributes exactly one record
  (`C15_layerB_mget_hit_step`, `C15_layerB_mget_record_step`, `C15_layerB_mget_enabled`, `…_saturated_drops`); its loads
  of the shutdown flag (`.mgetFlag …`, actions of their own) create no record and move no counter — also when a `get`
  of the read finds the flag set and answers `None` without a lookup (`C15_layerB_mget_flag_step`).  Between the two the hit HAS been counted but its record is nowhere yet: the Layer A identity
  `hits = buffered + accessAdded + accessDropped` is FALSE at such an instant (`recB_layerA_identity_fails`);
  the identity that holds at every instant counts these reads in flight:

      hits = buffered + accessAdded + accessDropped + inFlightReads.

  Theorems (all for every state / oracle / interleaving the model allows; `ref = false`: `get`, `ref = true`: `get_ref`)
    1  `RecInv`, `C15_layerB_conservation_step` (+ `_strong`: the identity is kept by EVERY action except
       `shutdown.stats_clear`, so also by the action that sets the flag and during a shutdown up to that action),
       `C15_layerB_conservation_init`, `C15_layerB_conservation` (every reachable running state),
       `C15_layerB_conservation_until_clear` (every state reached without a `stats_clear` action),
       `C15_layerB_stats_clear_voids` + `recB_void_after_stats_clear` (what that action does; a reachable witness),
       `C15_layerB_delivered` (`accessAdded = queuedRecords + taken by the consumer`, ghost `ReachA`)
    2  `C15_layerB_hit_step`, `C15_layerB_record_step`, `C15_layerB_others_frame` (+ `_strong`)
    3  `C15_layerB_read_enabled`, `C15_layerB_record_enabled_iff` (the ONLY enabledness condition of `pool.add`: the
       oracle's head pool index names a buffer; with `poolSize = 0` none does), `C15_layerB_read_enabled_reach`
    4  `C15_layerB_saturated_drops`, `C15_layerB_room_delivers`
    5  examples: `recB_layerA_identity_fails` and the `example`s of section 9

  Hypotheses beyond the wording of the property
    * `RecInv` carries `ShutF b` (= the conjunct `shutFlag` of `BInv`: a client past the CAS of `shutdown()` has set
      the flag).  Without it the step theorem is false of arbitrary states: a client parked at `shutStatsClear` with the
      flag unset would zero the counters.  It holds at every reachable state.
    * no `shutting = false` hypothesis is needed for the per-read theorems (2), (3), (4): the two actions of a read
      do not look at the flag.
-/
import CachedProofs.LayerB.Theorems
import CachedProofs.Lemmas.StatsInv

namespace Cached
namespace B

/-! ## 1  definitions -/

/-- 1 for a client between `store.get` (hit) and `pool.add` — of a `get`, a `get_ref`, or one key of a multi-key
    read —, else 0 -/
def CPc.inFlight : CPc → Nat
  | .getPool _ _ | .refPool _ _ | .mgetPool _ _ _ _ _ => 1
  | _ => 0

/-- the number of clients standing at `.getPool _ _`, `.refPool _ _` or `.mgetPool _ _ _ _ _`: the hit is counted, the
    record is not in a buffer yet -/
def inFlightReads (b : BState) : Nat := (b.cl.map CPc.inFlight).sum

/-- the three places a record can be: still in a buffer of the pool, delivered to the consumer's channel, dropped -/
def recorded (g : State) : Nat := buffered g + g.stats.accessAdded + g.stats.accessDropped

/-- The record invariant of Layer B.  `shutFlag` (a `shutdown()` past its compare-and-swap has set the flag — the
    conjunct `shutFlag` of `BInv`) is what makes the step theorem true of ARBITRARY states: the only action that
    breaks `conserve` is `shutdown.stats_clear`, and a client can stand there only when the flag is set. -/
structure RecInv (b : BState) : Prop where
  conserve : b.g.stats.hits = buffered b.g + b.g.stats.accessAdded + b.g.stats.accessDropped + inFlightReads b
  poolShape : b.g.pool.length = b.g.cfg.poolSize
  shutFlag : ShutF b

/-! ## 2  helpers -/

theorem recB_sum_set (f : CPc → Nat) : ∀ (cl : List CPc) (i : Nat) (pc pc' : CPc), cl[i]? = some pc →
    ((cl.set i pc').map f).sum + f pc = (cl.map f).sum + f pc' := by
  intro cl
  induction cl with
  | nil => intro i pc pc' h; simp at h
  | cons x rest ih =>
    intro i pc pc' h
    cases i with
    | zero =>
      simp only [List.getElem?_cons_zero, Option.some.injEq] at h
      subst h
      simp only [List.set_cons_zero, List.map_cons, List.sum_cons]; omega
    | succ i =>
      simp only [List.getElem?_cons_succ] at h
      have := ih i pc pc' h
      simp only [List.set_cons_succ, List.map_cons, List.sum_cons]; omega

theorem recB_inFlight_set {b b' : BState} {i : Nat} {pc pc' : CPc} (hpc : b.cl[i]? = some pc)
    (hcl : b'.cl = b.cl.set i pc') : inFlightReads b' + pc.inFlight = inFlightReads b + pc'.inFlight := by
  unfold inFlightReads
  rw [hcl]
  exact recB_sum_set CPc.inFlight b.cl i pc pc' hpc

/-- what the record identities read: the buffers, the number of records queued for the consumer, four counters -/
def recView (g : State) :=
  (g.pool, queuedRecords g, g.stats.hits, g.stats.misses, g.stats.accessAdded, g.stats.accessDropped)

theorem recView_of_accView {g g' : State} (h : accView g' = accView g) : recView g' = recView g := by
  simp only [accView, Prod.mk.injEq] at h
  obtain ⟨a1, a2, a3, a4, a5, a6⟩ := h
  simp only [recView, queuedRecords, a1, a2, a3, a4, a5, a6]

theorem recB_recorded_congr {g g' : State} (h : recView g' = recView g) : recorded g' = recorded g := by
  simp only [recView, Prod.mk.injEq] at h
  obtain ⟨a1, _, _, _, a5, a6⟩ := h
  simp only [recorded, buffered, a1, a5, a6]

theorem recB_lt_of_getElem? {cl : List CPc} {i : Nat} {pc : CPc} (h : cl[i]? = some pc) : i < cl.length := by
  rcases Nat.lt_or_ge i cl.length with h' | h'
  · exact h'
  · rw [List.getElem?_eq_none h'] at h; cases h

/-- `applyEvict` (the delete hook) touches the store and two counters the record identity does not read -/
theorem recB_applyEvict_acc (g : State) (e : Evicted) : accView (applyEvict g e) = accView g := by
  obtain ⟨i, k, w⟩ := e
  simp only [applyEvict]
  split <;> rfl

/-- so does the ticker's hook `applyEvictId` -/
theorem recB_applyEvictId_acc (g : State) (e : Evicted) : accView (applyEvictId g e) = accView g := by
  rw [Cached.applyEvictId_eq]
  split
  · exact recB_applyEvict_acc g e
  · rfl

theorem recB_updateWeightStats (st : Stats) (n o : Int) :
    (updateWeightStats st n o).hits = st.hits ∧ (updateWeightStats st n o).misses = st.misses ∧
    (updateWeightStats st n o).accessAdded = st.accessAdded ∧
    (updateWeightStats st n o).accessDropped = st.accessDropped := by
  unfold updateWeightStats
  split <;> exact ⟨rfl, rfl, rfl, rfl⟩

/-! ## 3  what each thread does to the quantities of the identity -/

/-- the command worker: nothing -/
theorem recB_wtrans {b b' : BState} (h : WTrans b b') : accView b'.g = accView b.g := by
  cases h
  case evStore => exact recB_applyEvict_acc _ _
  case updateApplied id w hh wk _ _ _ =>
    obtain ⟨h1, h2, h3, h4⟩ := recB_updateWeightStats { b.g.stats with keysUpdated := b.g.stats.keysUpdated + 1 } w wk.weight
    simp only [accView, finishCmd, h1, h2, h3, h4]
  all_goals rfl

/-- the sweeper: nothing -/
theorem recB_strans {b b' : BState} (h : STrans b b') : accView b'.g = accView b.g := by
  cases h
  case store => simp only [sweepNext_g]; exact recB_applyEvictId_acc _ _
  all_goals simp only [sweepNext_g]
  all_goals rfl

/-- the consumer: it takes entries out of `bufq` and touches neither a buffer nor a counter -/
theorem recB_consumer {g g' : State} {o o' : Oracle} {out : Out} (h : consumerStep g o = .ok (g', out, o')) :
    g'.pool = g.pool ∧ g'.stats = g.stats ∧ g'.cfg = g.cfg ∧ g'.shutting = g.shutting := by
  rw [consumerStep_frame h]
  exact ⟨rfl, rfl, rfl, rfl⟩

/-- A client action that is neither of the two actions of a read nor `shutdown.stats_clear`: the buffers, the
    channel, the four counters and the configuration are untouched, and the client does not move INTO a read's
    `pool.add` position. -/
structure RecFrame (b b' : BState) (i : Nat) : Prop where
  acc : recView b'.g = recView b.g
  cfg : b'.g.cfg = b.g.cfg
  cl : ∃ pc', b'.cl = b.cl.set i pc' ∧ pc'.inFlight = 0

theorem recFrame_finish {b : BState} (b0 : BState) (i : Nat) (out : Out) (h1 : recView b0.g = recView b.g)
    (h2 : b0.g.cfg = b.g.cfg) (h3 : b0.cl = b.cl) : RecFrame b (finishCall b0 i out) i :=
  ⟨h1, h2, .idle, by simp [finishCall, h3], rfl⟩

theorem recFrame_set {b : BState} (b0 : BState) (i : Nat) (pc' : CPc) (h1 : recView b0.g = recView b.g)
    (h2 : b0.g.cfg = b.g.cfg) (h3 : b0.cl = b.cl) (h4 : pc'.inFlight = 0) : RecFrame b (setClient b0 i pc') i :=
  ⟨h1, h2, pc', by simp [setClient, h3], h4⟩

theorem recFrame_spot {b : BState} (b0 : BState) (i : Nat) (st : Status) (h1 : recView b0.g = recView b.g)
    (h2 : b0.g.cfg = b.g.cfg) (h3 : b0.cl = b.cl) : RecFrame b (spotFinish b0 i st) i :=
  ⟨h1, h2, .idle, by simp [spotFinish, finishCall, h3], rfl⟩

theorem recFrame_upAfter {b : BState} (b0 : BState) (i id : Nat) (uw : Option Int) (h1 : recView b0.g = recView b.g)
    (h2 : b0.g.cfg = b.g.cfg) (h3 : b0.cl = b.cl) : RecFrame b (upAfterIndex b0 i id uw) i := by
  rcases upAfterIndex_spec b0 i id uw with ⟨_, h⟩ | ⟨_, _, h⟩ | h <;> rw [h]
  · exact recFrame_finish b0 i _ h1 h2 h3
  · exact recFrame_set b0 i _ h1 h2 h3 rfl
  · exact recFrame_spot b0 i _ h1 h2 h3

/-- where a multi-key read stands after `mgetNext`: idle (returned), or before the next load of the flag — in
    neither case between a lookup and its `pool.add` -/
theorem mgetNext_cl (b0 : BState) (i : Nat) (ks : List Nat) (acc : List (Option Nat)) (iter : Bool) :
    ∃ pc', (mgetNext b0 i ks acc iter).cl = b0.cl.set i pc' ∧ pc'.inFlight = 0 := by
  rcases mgetNext_spec b0 i ks acc iter with ⟨out, e⟩ | ⟨k, rest, _, e⟩ <;> rw [e]
  · exact ⟨.idle, rfl, rfl⟩
  · exact ⟨_, rfl, rfl⟩

theorem recFrame_mgetNext {b : BState} (b0 : BState) (i : Nat) (ks : List Nat) (acc : List (Option Nat)) (iter : Bool)
    (h1 : recView b0.g = recView b.g) (h2 : b0.g.cfg = b.g.cfg) (h3 : b0.cl = b.cl) :
    RecFrame b (mgetNext b0 i ks acc iter) i := by
  rcases mgetNext_spec b0 i ks acc iter with ⟨out, e⟩ | ⟨k, rest, _, e⟩ <;> rw [e]
  · exact recFrame_finish b0 i _ h1 h2 h3
  · exact recFrame_set b0 i _ h1 h2 h3 rfl

theorem recFrame_mgetStart {b : BState} (b0 : BState) (i : Nat) (ks : List Nat) (iter : Bool)
    (h1 : recView b0.g = recView b.g) (h2 : b0.g.cfg = b.g.cfg) (h3 : b0.cl = b.cl) :
    RecFrame b (mgetStart b0 i ks iter) i := by
  rcases mgetStart_spec b0 i ks iter with ⟨_, _, e⟩ | ⟨_, e⟩ <;> rw [e]
  · exact recFrame_finish b0 i _ h1 h2 h3
  · exact recFrame_set b0 i _ h1 h2 h3 rfl

/-- a load of the shutdown flag inside a multi-key read: no counter, no record — also when it finds the flag set and the
    `get` answers `None` without a lookup -/
theorem recFrame_mgetFlagAct {b : BState} (b0 : BState) (i : Nat) (outer : Bool) (ks : List Nat)
    (acc : List (Option Nat)) (iter : Bool) (h1 : recView b0.g = recView b.g) (h2 : b0.g.cfg = b.g.cfg)
    (h3 : b0.cl = b.cl) : RecFrame b (mgetFlagAct b0 i outer ks acc iter) i := by
  rcases mgetFlagAct_spec b0 i outer ks acc iter with ⟨_, e⟩ | ⟨_, _, _, _, _, e⟩ | ⟨_, _, _, _, _, e⟩ |
    ⟨_, _, _, _, _, e⟩ <;> rw [e]
  · exact recFrame_finish b0 i _ h1 h2 h3
  · exact recFrame_set b0 i _ h1 h2 h3 rfl
  · exact recFrame_mgetNext b0 i _ _ _ h1 h2 h3
  · exact recFrame_set b0 i _ h1 h2 h3 rfl

/-- What one action of client `i` is, position by position: the two actions of a read and `shutdown.stats_clear`
    exactly, every other one up to `RecFrame`. -/
def ClientSpec (b : BState) (i : Nat) (o : Oracle) (b' : BState) (o' : Oracle) : CPc → Prop
  | .getStore k =>
    o' = o ∧
    ((∃ e, b.g.store.get? k = some e ∧ e.alive b.g.now = true ∧
        b' = setClient { b with g := { b.g with stats := { b.g.stats with hits := b.g.stats.hits + 1 } } } i (.getPool k e.value)) ∨
     ((∀ e, b.g.store.get? k = some e → e.alive b.g.now = false) ∧
        b' = finishCall { b with g := { b.g with stats := { b.g.stats with misses := b.g.stats.misses + 1 } } } i (.value none)))
  | .refStore k =>
    o' = o ∧
    ((∃ e, b.g.store.get? k = some e ∧ e.alive b.g.now = true ∧
        b' = setClient { b with g := { b.g with stats := { b.g.stats with hits := b.g.stats.hits + 1 } },
                                storeReaders := (i, storeShardOf b k) :: b.storeReaders } i (.refPool k e.value)) ∨
     ((∀ e, b.g.store.get? k = some e → e.alive b.g.now = false) ∧
        b' = finishCall { b with g := { b.g with stats := { b.g.stats with misses := b.g.stats.misses + 1 } } } i (.value none)))
  | .getPool k v =>
    ∃ g1, poolAdd b.g (b.g.cfg.hashOf k) o = .ok (g1, o') ∧ b' = finishCall { b with g := g1 } i (.value (some v))
  | .refPool k v =>
    ∃ g1, poolAdd b.g (b.g.cfg.hashOf k) o = .ok (g1, o') ∧
      b' = finishCall { b with g := g1, storeReaders := b.storeReaders.filter (fun p => p.1 != i) } i (.value (some v))
  | .mgetStore k ks acc iter =>
    o' = o ∧
    ((∃ e, b.g.store.get? k = some e ∧ e.alive b.g.now = true ∧
        b' = setClient { b with g := { b.g with stats := { b.g.stats with hits := b.g.stats.hits + 1 } } } i
               (.mgetPool k e.value ks acc iter)) ∨
     ((∀ e, b.g.store.get? k = some e → e.alive b.g.now = false) ∧
        b' = mgetNext { b with g := { b.g with stats := { b.g.stats with misses := b.g.stats.misses + 1 } } } i ks
               (acc ++ [none]) iter))
  | .mgetPool k v ks acc iter =>
    ∃ g1, poolAdd b.g (b.g.cfg.hashOf k) o = .ok (g1, o') ∧ b' = mgetNext { b with g := g1 } i ks (acc ++ [some v]) iter
  | .shutStatsClear => o' = o ∧ b' = setClient { b with g := { b.g with stats := {} } } i .shutTtlClear
  | _ => RecFrame b b' i

theorem recB_clientAct {b b' : BState} {i : Nat} {o o' : Oracle} (h : clientAct b i o = .ok (b', o')) :
    ∃ pc, b.cl[i]? = some pc ∧ ClientSpec b i o b' o' pc := by
  unfold clientAct at h
  simp only [] at h
  split at h
  · cases h
  · rename_i pc hpc
    refine ⟨pc, hpc, ?_⟩
    cases pc with
    | idle => cases h
    | start r =>
      simp only [] at h
      split at h
      · cases r <;> simp only [Except.ok.injEq, Prod.mk.injEq] at h <;> obtain ⟨rfl, rfl⟩ := h
        all_goals first
          | exact recFrame_finish b i _ rfl rfl rfl
          | exact recFrame_set b i _ rfl rfl rfl rfl
          | exact recFrame_mgetStart b i _ _ rfl rfl rfl
      · cases r <;> simp only [] at h
        · split at h
          all_goals simp only [Except.ok.injEq, Prod.mk.injEq] at h; obtain ⟨rfl, rfl⟩ := h
          · exact recFrame_finish b i _ rfl rfl rfl
          · exact recFrame_set b i _ rfl rfl rfl rfl
        all_goals simp only [Except.ok.injEq, Prod.mk.injEq] at h; obtain ⟨rfl, rfl⟩ := h
        case mget ks iter => exact recFrame_mgetStart b i ks iter rfl rfl rfl
        all_goals exact recFrame_set b i _ rfl rfl rfl rfl
    | putPresent k v w ttl =>
      simp only [] at h
      split at h
      all_goals simp only [Except.ok.injEq, Prod.mk.injEq] at h; obtain ⟨rfl, rfl⟩ := h
      · exact recFrame_spot b i _ rfl rfl rfl
      · exact recFrame_set b i _ rfl rfl rfl rfl
    | idNext k v w ttl =>
      simp only [Except.ok.injEq, Prod.mk.injEq] at h; obtain ⟨rfl, rfl⟩ := h
      exact recFrame_set _ i _ rfl rfl rfl rfl
    | send cmd =>
      simp only [] at h
      split at h
      · rename_i b1 hs
        simp only [Except.ok.injEq, Prod.mk.injEq] at h; obtain ⟨rfl, rfl⟩ := h
        unfold sendAct at hs
        simp only [] at hs
        split at hs
        · simp only [Except.ok.injEq] at hs; subst hs
          exact recFrame_finish b i _ rfl rfl rfl
        · split at hs
          · cases hs
          · simp only [Except.ok.injEq] at hs; subst hs
            exact recFrame_finish _ i _ rfl rfl rfl
      · cases h
    | delMark k =>
      simp only [] at h
      split at h
      · cases h
      · simp only [Except.ok.injEq, Prod.mk.injEq] at h; obtain ⟨rfl, rfl⟩ := h
        exact recFrame_set _ i _ rfl rfl rfl rfl
    | getStore k =>
      simp only [] at h
      split at h
      · rename_i e he
        split at h
        all_goals simp only [Except.ok.injEq, Prod.mk.injEq] at h; obtain ⟨rfl, rfl⟩ := h
        · rename_i ha
          exact ⟨rfl, Or.inl ⟨e, he, ha, rfl⟩⟩
        · rename_i ha
          refine ⟨rfl, Or.inr ⟨?_, rfl⟩⟩
          intro e' he'
          rw [he] at he'; cases he'
          simpa using ha
      · rename_i he
        simp only [Except.ok.injEq, Prod.mk.injEq] at h; obtain ⟨rfl, rfl⟩ := h
        refine ⟨rfl, Or.inr ⟨?_, rfl⟩⟩
        intro e' he'
        rw [he] at he'; cases he'
    | getPool k v =>
      simp only [] at h
      split at h
      · rename_i g1 o1 hp
        simp only [Except.ok.injEq, Prod.mk.injEq] at h; obtain ⟨rfl, rfl⟩ := h
        exact ⟨g1, hp, rfl⟩
      · cases h
    | weightRead =>
      simp only [] at h
      split at h
      · cases h
      · simp only [Except.ok.injEq, Prod.mk.injEq] at h; obtain ⟨rfl, rfl⟩ := h
        exact recFrame_finish b i _ rfl rfl rfl
    | upUpdate k v w ttl rm =>
      simp only [] at h
      split at h
      · cases h
      · split at h
        · split at h
          · split at h
            all_goals simp only [Except.ok.injEq, Prod.mk.injEq] at h; obtain ⟨rfl, rfl⟩ := h
            · exact recFrame_finish b i _ rfl rfl rfl
            · exact recFrame_set b i _ rfl rfl rfl rfl
          · simp only [Except.ok.injEq, Prod.mk.injEq] at h; obtain ⟨rfl, rfl⟩ := h
            exact recFrame_finish b i _ rfl rfl rfl
        · split at h
          all_goals simp only [Except.ok.injEq, Prod.mk.injEq] at h; obtain ⟨rfl, rfl⟩ := h
          · exact recFrame_finish b i _ rfl rfl rfl
          · exact recFrame_set _ i _ rfl rfl rfl rfl
    | upWeightOf id uw old new =>
      simp only [] at h
      split at h
      all_goals simp only [Except.ok.injEq, Prod.mk.injEq] at h; obtain ⟨rfl, rfl⟩ := h
      · exact recFrame_set b i _ rfl rfl rfl rfl
      · exact recFrame_set b i _ rfl rfl rfl rfl
      · exact recFrame_set b i _ rfl rfl rfl rfl
      · exact recFrame_upAfter b i _ _ rfl rfl rfl
    | upTtlPut id e uw =>
      simp only [] at h
      split at h
      · cases h
      · simp only [Except.ok.injEq, Prod.mk.injEq] at h; obtain ⟨rfl, rfl⟩ := h
        exact recFrame_upAfter _ i _ _ rfl rfl rfl
    | upTtlDelete id e uw =>
      simp only [] at h
      split at h
      · cases h
      · simp only [Except.ok.injEq, Prod.mk.injEq] at h; obtain ⟨rfl, rfl⟩ := h
        exact recFrame_upAfter _ i _ _ rfl rfl rfl
    | upTtlRemove id old new uw =>
      simp only [] at h
      split at h
      · cases h
      · simp only [Except.ok.injEq, Prod.mk.injEq] at h; obtain ⟨rfl, rfl⟩ := h
        exact recFrame_set _ i _ rfl rfl rfl rfl
    | upTtlInsert id new uw =>
      simp only [] at h
      split at h
      · cases h
      · simp only [Except.ok.injEq, Prod.mk.injEq] at h; obtain ⟨rfl, rfl⟩ := h
        exact recFrame_upAfter _ i _ _ rfl rfl rfl
    | refStore k =>
      simp only [] at h
      split at h
      · rename_i e he
        split at h
        all_goals simp only [Except.ok.injEq, Prod.mk.injEq] at h; obtain ⟨rfl, rfl⟩ := h
        · rename_i ha
          exact ⟨rfl, Or.inl ⟨e, he, ha, rfl⟩⟩
        · rename_i ha
          refine ⟨rfl, Or.inr ⟨?_, rfl⟩⟩
          intro e' he'
          rw [he] at he'; cases he'
          simpa using ha
      · rename_i he
        simp only [Except.ok.injEq, Prod.mk.injEq] at h; obtain ⟨rfl, rfl⟩ := h
        refine ⟨rfl, Or.inr ⟨?_, rfl⟩⟩
        intro e' he'
        rw [he] at he'; cases he'
    | refPool k v =>
      simp only [] at h
      split at h
      · rename_i g1 o1 hp
        simp only [Except.ok.injEq, Prod.mk.injEq] at h; obtain ⟨rfl, rfl⟩ := h
        exact ⟨g1, hp, rfl⟩
      · cases h
    | shutCas =>
      simp only [] at h
      split at h
      all_goals simp only [Except.ok.injEq, Prod.mk.injEq] at h; obtain ⟨rfl, rfl⟩ := h
      · exact recFrame_finish b i _ rfl rfl rfl
      · exact recFrame_set _ i _ rfl rfl rfl rfl
    | shutSendCmd =>
      simp only [] at h
      split at h
      · simp only [Except.ok.injEq, Prod.mk.injEq] at h; obtain ⟨rfl, rfl⟩ := h
        exact recFrame_set b i _ rfl rfl rfl rfl
      · split at h
        · cases h
        · simp only [Except.ok.injEq, Prod.mk.injEq] at h; obtain ⟨rfl, rfl⟩ := h
          exact recFrame_set _ i _ rfl rfl rfl rfl
    | shutSendBuf =>
      simp only [] at h
      split at h
      · simp only [Except.ok.injEq, Prod.mk.injEq] at h; obtain ⟨rfl, rfl⟩ := h
        exact recFrame_set b i _ rfl rfl rfl rfl
      · split at h
        · cases h
        · simp only [Except.ok.injEq, Prod.mk.injEq] at h; obtain ⟨rfl, rfl⟩ := h
          refine recFrame_set _ i _ ?_ rfl rfl rfl
          simp [recView, queuedRecords]
    | shutConsumerFlag =>
      simp only [Except.ok.injEq, Prod.mk.injEq] at h; obtain ⟨rfl, rfl⟩ := h
      exact recFrame_set _ i _ rfl rfl rfl rfl
    | shutTickerFlag =>
      simp only [Except.ok.injEq, Prod.mk.injEq] at h; obtain ⟨rfl, rfl⟩ := h
      exact recFrame_set _ i _ rfl rfl rfl rfl
    | shutStoreClear =>
      simp only [] at h
      split at h
      · cases h
      · simp only [Except.ok.injEq, Prod.mk.injEq] at h; obtain ⟨rfl, rfl⟩ := h
        exact recFrame_set _ i _ rfl rfl rfl rfl
    | shutKwClear =>
      simp only [Except.ok.injEq, Prod.mk.injEq] at h; obtain ⟨rfl, rfl⟩ := h
      exact recFrame_set _ i _ rfl rfl rfl rfl
    | shutWuZero =>
      simp only [] at h
      split at h
      · cases h
      · simp only [Except.ok.injEq, Prod.mk.injEq] at h; obtain ⟨rfl, rfl⟩ := h
        exact recFrame_set _ i _ rfl rfl rfl rfl
    | shutAfClear =>
      simp only [Except.ok.injEq, Prod.mk.injEq] at h; obtain ⟨rfl, rfl⟩ := h
      exact recFrame_set _ i _ rfl rfl rfl rfl
    | shutStatsClear =>
      simp only [Except.ok.injEq, Prod.mk.injEq] at h; obtain ⟨rfl, rfl⟩ := h
      exact ⟨rfl, rfl⟩
    | shutTtlClear =>
      simp only [] at h
      split at h
      · cases h
      · simp only [Except.ok.injEq, Prod.mk.injEq] at h; obtain ⟨rfl, rfl⟩ := h
        exact recFrame_finish _ i _ rfl rfl rfl
    | mgetStore k ks acc iter =>
      simp only [] at h
      split at h
      · rename_i e he
        split at h
        all_goals simp only [Except.ok.injEq, Prod.mk.injEq] at h; obtain ⟨rfl, rfl⟩ := h
        · rename_i ha
          exact ⟨rfl, Or.inl ⟨e, he, ha, rfl⟩⟩
        · rename_i ha
          refine ⟨rfl, Or.inr ⟨?_, rfl⟩⟩
          intro e' he'
          rw [he] at he'; cases he'
          simpa using ha
      · rename_i he
        simp only [Except.ok.injEq, Prod.mk.injEq] at h; obtain ⟨rfl, rfl⟩ := h
        refine ⟨rfl, Or.inr ⟨?_, rfl⟩⟩
        intro e' he'
        rw [he] at he'; cases he'
    | mgetPool k v ks acc iter =>
      simp only [] at h
      split at h
      · rename_i g1 o1 hp
        simp only [Except.ok.injEq, Prod.mk.injEq] at h; obtain ⟨rfl, rfl⟩ := h
        exact ⟨g1, hp, rfl⟩
      · cases h
    | mgetFlag outer ks acc iter =>
      simp only [Except.ok.injEq, Prod.mk.injEq] at h; obtain ⟨rfl, rfl⟩ := h
      exact recFrame_mgetFlagAct b i _ _ _ _ rfl rfl rfl

/-! ## 4  one step, in numbers -/

/-- What one step does to the quantities of the two identities: `hits` moves by `h`, `misses` by `m`, `r` records
    are created, `f` reads leave the in-flight position and `f'` enter it, `q` records leave the consumer's channel. -/
structure RecStep (b b' : BState) (h m r f f' q : Nat) : Prop where
  hits : b'.g.stats.hits = b.g.stats.hits + h
  misses : b'.g.stats.misses = b.g.stats.misses + m
  total : recorded b'.g = recorded b.g + r
  flight : inFlightReads b' + f = inFlightReads b + f'
  queued : b'.g.stats.accessAdded + queuedRecords b.g = b.g.stats.accessAdded + queuedRecords b'.g + q
  pool : b'.g.pool.length = b.g.pool.length
  cfg : b'.g.cfg = b.g.cfg

theorem recStep_of_view {b b' : BState} {f f' : Nat} (hv : recView b'.g = recView b.g) (hc : b'.g.cfg = b.g.cfg)
    (hf : inFlightReads b' + f = inFlightReads b + f') : RecStep b b' 0 0 0 f f' 0 := by
  have hr := recB_recorded_congr hv
  simp only [recView, Prod.mk.injEq] at hv
  obtain ⟨a1, a2, a3, a4, a5, a6⟩ := hv
  exact ⟨by omega, by omega, by omega, hf, by omega, by rw [a1], hc⟩

theorem recB_inFlight_congr {b b' : BState} (h : b'.cl = b.cl) : inFlightReads b' = inFlightReads b := by
  unfold inFlightReads; rw [h]

/-- the position of a `get` (`ref = false`) or `get_ref` (`ref = true`) at its store lookup … -/
def lookupPc (ref : Bool) (k : Nat) : CPc :=
  match ref with
  | true => .refStore k
  | false => .getStore k

/-- … and between the lookup (a hit, value `v`) and `pool.add` -/
def recordPc (ref : Bool) (k v : Nat) : CPc :=
  match ref with
  | true => .refPool k v
  | false => .getPool k v

/-- the lookup action, exactly -/
theorem recB_hit_core {b b' : BState} {i k : Nat} {o o' : Oracle} (ref : Bool)
    (hpc : b.cl[i]? = some (lookupPc ref k)) (h : stepB b (.client i) o = .ok (b', o')) :
    o' = o ∧
    ((∃ e, b.g.store.get? k = some e ∧ e.alive b.g.now = true ∧
        b'.g = { b.g with stats := { b.g.stats with hits := b.g.stats.hits + 1 } } ∧
        b'.cl = b.cl.set i (recordPc ref k e.value) ∧ b'.res = b.res ∧ RecStep b b' 1 0 0 0 1 0) ∨
     ((∀ e, b.g.store.get? k = some e → e.alive b.g.now = false) ∧
        b'.g = { b.g with stats := { b.g.stats with misses := b.g.stats.misses + 1 } } ∧
        b'.cl = b.cl.set i .idle ∧ b'.res = b.res.set i (.value none :: b.res.getD i []) ∧
        RecStep b b' 0 1 0 0 0 0)) := by
  obtain ⟨pc, hpc', hspec⟩ := recB_clientAct h
  rw [hpc] at hpc'
  simp only [Option.some.injEq] at hpc'
  subst hpc'
  cases ref
  · simp only [lookupPc] at hpc
    simp only [lookupPc, ClientSpec] at hspec
    obtain ⟨rfl, ⟨e, he, ha, rfl⟩ | ⟨hno, rfl⟩⟩ := hspec
    · exact ⟨rfl, Or.inl ⟨e, he, ha, rfl, rfl, rfl, rfl, rfl, rfl,
        recB_inFlight_set (pc' := .getPool k e.value) hpc rfl, rfl, rfl, rfl⟩⟩
    · exact ⟨rfl, Or.inr ⟨hno, rfl, rfl, rfl, rfl, rfl, rfl, recB_inFlight_set (pc' := .idle) hpc rfl, rfl, rfl, rfl⟩⟩
  · simp only [lookupPc] at hpc
    simp only [lookupPc, ClientSpec] at hspec
    obtain ⟨rfl, ⟨e, he, ha, rfl⟩ | ⟨hno, rfl⟩⟩ := hspec
    · exact ⟨rfl, Or.inl ⟨e, he, ha, rfl, rfl, rfl, rfl, rfl, rfl,
        recB_inFlight_set (pc' := .refPool k e.value) hpc rfl, rfl, rfl, rfl⟩⟩
    · exact ⟨rfl, Or.inr ⟨hno, rfl, rfl, rfl, rfl, rfl, rfl, recB_inFlight_set (pc' := .idle) hpc rfl, rfl, rfl, rfl⟩⟩

/-- the `pool.add` action, exactly -/
theorem recB_record_core {b b' : BState} {i k v : Nat} {o o' : Oracle} (ref : Bool)
    (hpc : b.cl[i]? = some (recordPc ref k v)) (h : stepB b (.client i) o = .ok (b', o')) :
    poolAdd b.g (b.g.cfg.hashOf k) o = .ok (b'.g, o') ∧ b'.cl = b.cl.set i .idle ∧
      b'.res = b.res.set i (.value (some v) :: b.res.getD i []) ∧ RecStep b b' 0 0 1 1 0 0 := by
  obtain ⟨pc, hpc', hspec⟩ := recB_clientAct h
  rw [hpc] at hpc'
  simp only [Option.some.injEq] at hpc'
  subst hpc'
  have key : ∀ g1, poolAdd b.g (b.g.cfg.hashOf k) o = .ok (g1, o') → b'.g = g1 → b'.cl = b.cl.set i .idle →
      RecStep b b' 0 0 1 1 0 0 := by
    intro g1 hp hg hcl
    have a := poolAdd_step hp
    have he := a.env
    simp only [envView, Prod.mk.injEq] at he
    rw [← hg] at a he
    refine ⟨a.hits, a.misses, a.total, ?_, a.queued, a.pool, he.1⟩
    have := recB_inFlight_set hpc hcl
    cases ref <;> exact this
  cases ref
  · simp only [recordPc, ClientSpec] at hspec
    obtain ⟨g1, hp, rfl⟩ := hspec
    exact ⟨hp, rfl, rfl, key g1 hp rfl rfl⟩
  · simp only [recordPc, ClientSpec] at hspec
    obtain ⟨g1, hp, rfl⟩ := hspec
    exact ⟨hp, rfl, rfl, key g1 hp rfl rfl⟩

/-- the lookup action for one key of a multi-key read, exactly: a hit is counted and the read moves on to `pool.add`
    (one more read in flight); a miss is counted and the read moves on to its next key or returns -/
theorem recB_mhit_core {b b' : BState} {i k : Nat} {ks : List Nat} {acc : List (Option Nat)} {iter : Bool}
    {o o' : Oracle} (hpc : b.cl[i]? = some (.mgetStore k ks acc iter)) (h : stepB b (.client i) o = .ok (b', o')) :
    o' = o ∧
    ((∃ e, b.g.store.get? k = some e ∧ e.alive b.g.now = true ∧
        b'.g = { b.g with stats := { b.g.stats with hits := b.g.stats.hits + 1 } } ∧
        b'.cl = b.cl.set i (.mgetPool k e.value ks acc iter) ∧ b'.res = b.res ∧ RecStep b b' 1 0 0 0 1 0) ∨
     ((∀ e, b.g.store.get? k = some e → e.alive b.g.now = false) ∧
        b'.g = { b.g with stats := { b.g.stats with misses := b.g.stats.misses + 1 } } ∧
        b' = mgetNext { b with g := { b.g with stats := { b.g.stats with misses := b.g.stats.misses + 1 } } } i ks
               (acc ++ [none]) iter ∧
        RecStep b b' 0 1 0 0 0 0)) := by
  obtain ⟨pc, hpc', hspec⟩ := recB_clientAct h
  rw [hpc] at hpc'
  simp only [Option.some.injEq] at hpc'
  subst hpc'
  simp only [ClientSpec] at hspec
  obtain ⟨rfl, ⟨e, he, ha, rfl⟩ | ⟨hno, rfl⟩⟩ := hspec
  · exact ⟨rfl, Or.inl ⟨e, he, ha, rfl, rfl, rfl, rfl, rfl, rfl,
      recB_inFlight_set (pc' := .mgetPool k e.value ks acc iter) hpc rfl, rfl, rfl, rfl⟩⟩
  · obtain ⟨pc', hcl, h0⟩ := mgetNext_cl
      { b with g := { b.g with stats := { b.g.stats with misses := b.g.stats.misses + 1 } } } i ks (acc ++ [none]) iter
    have hf := recB_inFlight_set hpc hcl
    rw [h0] at hf
    refine ⟨rfl, Or.inr ⟨hno, by rw [mgetNext_g], rfl, ?_⟩⟩
    refine ⟨?_, ?_, ?_, hf, ?_, ?_, ?_⟩ <;> rw [mgetNext_g] <;> rfl

/-- the `pool.add` action for one hit of a multi-key read, exactly: ONE record, one read in flight less; then on to
    the next key (or the call returns) -/
theorem recB_mrecord_core {b b' : BState} {i k v : Nat} {ks : List Nat} {acc : List (Option Nat)} {iter : Bool}
    {o o' : Oracle} (hpc : b.cl[i]? = some (.mgetPool k v ks acc iter)) (h : stepB b (.client i) o = .ok (b', o')) :
    poolAdd b.g (b.g.cfg.hashOf k) o = .ok (b'.g, o') ∧
      b' = mgetNext { b with g := b'.g } i ks (acc ++ [some v]) iter ∧ RecStep b b' 0 0 1 1 0 0 := by
  obtain ⟨pc, hpc', hspec⟩ := recB_clientAct h
  rw [hpc] at hpc'
  simp only [Option.some.injEq] at hpc'
  subst hpc'
  simp only [ClientSpec] at hspec
  obtain ⟨g1, hp, rfl⟩ := hspec
  have hg : (mgetNext { b with g := g1 } i ks (acc ++ [some v]) iter).g = g1 := by rw [mgetNext_g]
  obtain ⟨pc', hcl, h0⟩ := mgetNext_cl { b with g := g1 } i ks (acc ++ [some v]) iter
  have hf := recB_inFlight_set hpc hcl
  rw [h0] at hf
  have a := poolAdd_step hp
  have he := a.env
  simp only [envView, Prod.mk.injEq] at he
  rw [← hg] at a he
  refine ⟨by rw [hg]; exact hp, by rw [hg], a.hits, a.misses, a.total, ?_, a.queued, a.pool, he.1⟩
  exact hf

/-- the only action that breaks the identity: `shutdown.stats_clear` (it zeroes the counters, the buffers keep
    their records) -/
def IsStatsClear (b : BState) (a : Act) : Prop := ∃ i, a = .client i ∧ b.cl[i]? = some .shutStatsClear

/-- the positions of a read: the lookup and `pool.add` of `get`, of `get_ref`, and of each key of a multi-key read -/
def CPc.isReadPc : CPc → Bool
  | .getStore _ | .refStore _ | .getPool _ _ | .refPool _ _ | .mgetStore _ _ _ _ | .mgetPool _ _ _ _ _ => true
  | _ => false

/-- the action is one of the two actions of a read: the lookup or `pool.add` -/
def ReadAct (b : BState) (a : Act) : Prop := ∃ i pc, a = .client i ∧ b.cl[i]? = some pc ∧ pc.isReadPc = true

/-- the records a step takes out of the consumer's channel (applied to the sketch, or discarded with the queue
    when the consumer exits): only the consumer does -/
def appliedDelta (a : Act) (g g' : State) : Nat :=
  match a with
  | .consumer => queuedRecords g - queuedRecords g'
  | _ => 0

/-- every action that is neither part of a read nor `shutdown.stats_clear` -/
theorem recB_other_step {b b' : BState} {a : Act} {o o' : Oracle} (h : stepB b a o = .ok (b', o'))
    (hn : ¬ IsStatsClear b a) (hr : ¬ ReadAct b a) : RecStep b b' 0 0 0 0 0 (appliedDelta a b.g b'.g) := by
  cases a with
  | issue i r =>
    simp only [stepB] at h
    split at h
    · rename_i b1 hi
      simp only [Except.ok.injEq, Prod.mk.injEq] at h; obtain ⟨rfl, rfl⟩ := h
      unfold issue at hi
      split at hi
      · rename_i hpc
        simp only [Except.ok.injEq] at hi; subst hi
        exact recStep_of_view rfl rfl (recB_inFlight_set (pc' := .start r) hpc rfl)
      · cases hi
    · cases h
  | client i =>
    obtain ⟨pc, hpc, hspec⟩ := recB_clientAct h
    cases pc with
    | getStore k => exact absurd ⟨i, _, rfl, hpc, rfl⟩ hr
    | refStore k => exact absurd ⟨i, _, rfl, hpc, rfl⟩ hr
    | getPool k v => exact absurd ⟨i, _, rfl, hpc, rfl⟩ hr
    | refPool k v => exact absurd ⟨i, _, rfl, hpc, rfl⟩ hr
    | mgetStore k ks acc iter => exact absurd ⟨i, _, rfl, hpc, rfl⟩ hr
    | mgetPool k v ks acc iter => exact absurd ⟨i, _, rfl, hpc, rfl⟩ hr
    | shutStatsClear => exact absurd ⟨i, rfl, hpc⟩ hn
    | _ =>
      obtain ⟨hv, hc, pc', hcl, h0⟩ := hspec
      have := recB_inFlight_set hpc hcl
      rw [h0] at this
      exact recStep_of_view hv hc this
  | worker =>
    have ht := workerAct_trans h
    exact recStep_of_view (recView_of_accView (recB_wtrans ht)) (wtrans_cfg ht)
      (by rw [recB_inFlight_congr (wtrans_cl ht).1])
  | sweeper v =>
    simp only [stepB] at h
    split at h
    · rename_i b1 hs
      simp only [Except.ok.injEq, Prod.mk.injEq] at h; obtain ⟨rfl, rfl⟩ := h
      have ht := sweeperAct_trans hs
      exact recStep_of_view (recView_of_accView (recB_strans ht)) (strans_frame ht).2.2.2.2.1
        (by rw [recB_inFlight_congr (strans_frame ht).2.1])
    · cases h
  | consumer =>
    simp only [stepB] at h
    split at h
    · rename_i g' out o1 hc
      simp only [Except.ok.injEq, Prod.mk.injEq] at h; obtain ⟨rfl, rfl⟩ := h
      obtain ⟨q, t, alive, rfl, hq⟩ := consumerStep_shape hc
      have hle := queuedRecords_tail_le b.g q t alive hq
      refine ⟨rfl, rfl, rfl, rfl, ?_, rfl, rfl⟩
      simp only [appliedDelta]
      omega
    · cases h
  | advance d =>
    simp only [stepB, Except.ok.injEq, Prod.mk.injEq] at h; obtain ⟨rfl, rfl⟩ := h
    exact recStep_of_view rfl rfl rfl

/-- EVERY action other than `shutdown.stats_clear`: as many records and reads in flight appear as hits are counted
    and reads in flight disappear. -/
theorem recB_any_step {b b' : BState} {a : Act} {o o' : Oracle} (h : stepB b a o = .ok (b', o'))
    (hn : ¬ IsStatsClear b a) :
    ∃ hh m r f f', RecStep b b' hh m r f f' (appliedDelta a b.g b'.g) ∧ hh + f = r + f' := by
  by_cases hr : ReadAct b a
  · obtain ⟨i, pc, rfl, hpc, hread⟩ := hr
    cases pc with
    | getStore k =>
      obtain ⟨_, ⟨_, _, _, _, _, _, hs⟩ | ⟨_, _, _, _, hs⟩⟩ := recB_hit_core false (k := k) hpc h
      · exact ⟨_, _, _, _, _, hs, rfl⟩
      · exact ⟨_, _, _, _, _, hs, rfl⟩
    | refStore k =>
      obtain ⟨_, ⟨_, _, _, _, _, _, hs⟩ | ⟨_, _, _, _, hs⟩⟩ := recB_hit_core true (k := k) hpc h
      · exact ⟨_, _, _, _, _, hs, rfl⟩
      · exact ⟨_, _, _, _, _, hs, rfl⟩
    | getPool k v => exact ⟨_, _, _, _, _, (recB_record_core false (k := k) (v := v) hpc h).2.2.2, rfl⟩
    | refPool k v => exact ⟨_, _, _, _, _, (recB_record_core true (k := k) (v := v) hpc h).2.2.2, rfl⟩
    | mgetStore k ks acc iter =>
      obtain ⟨_, ⟨_, _, _, _, _, _, hs⟩ | ⟨_, _, _, hs⟩⟩ := recB_mhit_core hpc h
      · exact ⟨_, _, _, _, _, hs, rfl⟩
      · exact ⟨_, _, _, _, _, hs, rfl⟩
    | mgetPool k v ks acc iter => exact ⟨_, _, _, _, _, (recB_mrecord_core hpc h).2.2, rfl⟩
    | _ => cases hread
  · exact ⟨_, _, _, _, _, recB_other_step h hn hr, rfl⟩

/-- the flag conjunct is kept by every action -/
theorem recB_shutF_step {b b' : BState} {a : Act} {o o' : Oracle} (hs : ShutF b) (h : stepB b a o = .ok (b', o')) :
    ShutF b' := by
  cases a with
  | issue i r =>
    simp only [stepB] at h
    split at h
    · rename_i b1 hi
      simp only [Except.ok.injEq, Prod.mk.injEq] at h; obtain ⟨rfl, rfl⟩ := h
      unfold issue at hi
      split at hi
      · simp only [Except.ok.injEq] at hi; subst hi
        exact hs.client (pc' := .start r) rfl id (fun ha => by cases ha)
      · cases hi
    · cases h
  | client i => exact shutF_ctrans hs (clientAct_trans h)
  | worker =>
    have ht := workerAct_trans h
    exact hs.frame (wtrans_cl ht).1 (wtrans_shutting ht)
  | sweeper v =>
    simp only [stepB] at h
    split at h
    · rename_i b1 hs'
      simp only [Except.ok.injEq, Prod.mk.injEq] at h; obtain ⟨rfl, rfl⟩ := h
      have ht := sweeperAct_trans hs'
      exact hs.frame (strans_frame ht).2.1 (strans_frame2 ht).1
    · cases h
  | consumer =>
    simp only [stepB] at h
    split at h
    · rename_i g' out o1 hc
      simp only [Except.ok.injEq, Prod.mk.injEq] at h; obtain ⟨rfl, rfl⟩ := h
      exact hs.frame rfl (recB_consumer hc).2.2.2
    · cases h
  | advance d =>
    simp only [stepB, Except.ok.injEq, Prod.mk.injEq] at h; obtain ⟨rfl, rfl⟩ := h
    exact hs.frame rfl rfl

/-- while the cache is running nobody stands at `shutdown.stats_clear` -/
theorem recB_running_not_clear {b : BState} (hs : ShutF b) (hrun : b.g.shutting = false) (a : Act) :
    ¬ IsStatsClear b a := by
  rintro ⟨i, _, hpc⟩
  rw [hs i _ hpc rfl] at hrun
  cases hrun

/-! ## 5  C15 (1): conservation at every instant of every interleaving -/

/-- The identity is kept by EVERY atomic action of EVERY thread except `shutdown.stats_clear` — in particular by
    the action that sets the shutdown flag, and by every action taken while `shutdown()` is in progress up to
    (not including) its `stats_clear`. -/
theorem C15_layerB_conservation_step_strong {b b' : BState} {a : Act} {o o' : Oracle} (hI : RecInv b)
    (h : stepB b a o = .ok (b', o')) (hn : ¬ IsStatsClear b a) : RecInv b' := by
  obtain ⟨hh, m, r, f, f', hs, he⟩ := recB_any_step h hn
  refine ⟨?_, ?_, recB_shutF_step hI.shutFlag h⟩
  · have h1 := hs.hits
    have h2 := hs.total
    have h3 := hs.flight
    have h4 := hI.conserve
    unfold recorded at h2
    omega
  · rw [hs.pool, hs.cfg]; exact hI.poolShape

/-- C15, one step (the statement asked for).  The hypothesis on `b'` is NOT used: a running state's every successor
    satisfies the invariant, the one in which the flag has just been set included
    (`C15_layerB_conservation_step_strong` says exactly which step breaks it). -/
theorem C15_layerB_conservation_step {b b' : BState} {a : Act} {o o' : Oracle} (hI : RecInv b)
    (hrun : b.g.shutting = false) (h : stepB b a o = .ok (b', o')) (_hrun' : b'.g.shutting = false) : RecInv b' :=
  C15_layerB_conservation_step_strong hI h (recB_running_not_clear hI.shutFlag hrun a)

/-- What `shutdown.stats_clear` does: the counters are zeroed, the buffers and the reads in flight stay — so the
    identity is void afterwards as soon as a record is buffered or a read is in flight
    (`recB_void_after_stats_clear` is a reachable instance). -/
theorem C15_layerB_stats_clear_voids {b b' : BState} {i : Nat} {o o' : Oracle}
    (hpc : b.cl[i]? = some .shutStatsClear) (h : stepB b (.client i) o = .ok (b', o')) :
    b'.g.stats = {} ∧ b'.g.pool = b.g.pool ∧ b'.g.bufq = b.g.bufq ∧ inFlightReads b' = inFlightReads b ∧
    (0 < buffered b.g + inFlightReads b →
      b'.g.stats.hits ≠ buffered b'.g + b'.g.stats.accessAdded + b'.g.stats.accessDropped + inFlightReads b') := by
  obtain ⟨pc, hpc', hspec⟩ := recB_clientAct h
  rw [hpc] at hpc'
  simp only [Option.some.injEq] at hpc'
  subst hpc'
  simp only [ClientSpec] at hspec
  obtain ⟨rfl, rfl⟩ := hspec
  have hf : inFlightReads (setClient { b with g := { b.g with stats := {} } } i .shutTtlClear) = inFlightReads b := by
    have := recB_inFlight_set (b' := setClient { b with g := { b.g with stats := {} } } i .shutTtlClear)
      (pc' := .shutTtlClear) hpc rfl
    exact this
  refine ⟨rfl, rfl, rfl, hf, ?_⟩
  intro hpos
  rw [hf]
  show 0 ≠ buffered b.g + 0 + 0 + inFlightReads b
  omega

theorem recB_sum_replicate_zero {α : Type} (f : α → Nat) (x : α) (hx : f x = 0) :
    ∀ n, ((List.replicate n x).map f).sum = 0 := by
  intro n
  induction n with
  | zero => rfl
  | succ n ih => simp only [List.replicate_succ, List.map_cons, List.sum_cons, hx, ih]

theorem C15_layerB_conservation_init (cfg : Cfg) (now : Nat) (seeds : List Nat) (clients : Nat)
    (shardMap : List (Nat × Nat)) : RecInv { BState.init cfg now seeds clients with storeShard := shardMap } := by
  refine ⟨?_, ?_, shutF_init cfg now seeds clients shardMap⟩
  · have h1 : buffered (State.init cfg now seeds) = 0 := recB_sum_replicate_zero List.length [] rfl cfg.poolSize
    have h2 : inFlightReads { BState.init cfg now seeds clients with storeShard := shardMap } = 0 :=
      recB_sum_replicate_zero CPc.inFlight .idle rfl clients
    show 0 = buffered (State.init cfg now seeds) + 0 + 0 + _
    rw [h1, h2]
  · simp [BState.init, State.init]

/-- C15 at action granularity: at EVERY state any interleaving of any number of clients with the worker, the
    sweeper and the consumer can reach while the cache is running, every counted hit is in exactly one place —
    in a buffer, delivered, dropped, or still in the hands of a reader between its lookup and `pool.add`. -/
theorem C15_layerB_conservation {cfg : Cfg} {now : Nat} {seeds : List Nat} {clients : Nat} {b : BState}
    (h : Reach cfg now seeds clients b) (hrun : b.g.shutting = false) : RecInv b := by
  induction h with
  | init sm => exact C15_layerB_conservation_init cfg now seeds clients sm
  | step hr hs ih =>
    have h0 := stepB_running_before hs hrun
    exact C15_layerB_conservation_step (ih h0) h0 hs hrun

/-- interleavings in which `shutdown.stats_clear` has not run (yet) -/
inductive ReachUncleared (cfg : Cfg) (now : Nat) (seeds : List Nat) (clients : Nat) : BState → Prop where
  | init (shardMap : List (Nat × Nat)) :
      ReachUncleared cfg now seeds clients { BState.init cfg now seeds clients with storeShard := shardMap }
  | step {b b' : BState} {a : Act} {o o' : Oracle} :
      ReachUncleared cfg now seeds clients b → stepB b a o = .ok (b', o') → ¬ IsStatsClear b a →
      ReachUncleared cfg now seeds clients b'

theorem ReachUncleared.reach {cfg : Cfg} {now : Nat} {seeds : List Nat} {clients : Nat} {b : BState}
    (h : ReachUncleared cfg now seeds clients b) : Reach cfg now seeds clients b := by
  induction h with
  | init sm => exact .init sm
  | step _ hs _ ih => exact .step ih hs

/-- MORE than asked: the identity holds during a `shutdown()` as well, at every instant before its `stats_clear`
    action (ten of the twelve actions of `shutdown()`, with everybody else running in between). -/
theorem C15_layerB_conservation_until_clear {cfg : Cfg} {now : Nat} {seeds : List Nat} {clients : Nat} {b : BState}
    (h : ReachUncleared cfg now seeds clients b) : RecInv b := by
  induction h with
  | init sm => exact C15_layerB_conservation_init cfg now seeds clients sm
  | step _ hs hn ih => exact C15_layerB_conservation_step_strong ih hs hn

/-- the number of buffers never changes — running or not -/
theorem recB_pool_length {cfg : Cfg} {now : Nat} {seeds : List Nat} {clients : Nat} {b : BState}
    (h : Reach cfg now seeds clients b) : b.g.pool.length = cfg.poolSize := by
  induction h with
  | init sm => simp [BState.init, State.init]
  | @step b b' a o o' hr hs ih =>
    by_cases hn : IsStatsClear b a
    · obtain ⟨i, rfl, hpc⟩ := hn
      rw [(C15_layerB_stats_clear_voids hpc hs).2.1]; exact ih
    · obtain ⟨_, _, _, _, _, hst, _⟩ := recB_any_step hs hn
      rw [hst.pool]; exact ih

/-! ### the second identity: delivered = still queued + taken by the consumer -/

/-- reachability with the ghost counter "records that have left the consumer's channel" -/
inductive ReachA (cfg : Cfg) (now : Nat) (seeds : List Nat) (clients : Nat) : BState → Nat → Prop where
  | init (shardMap : List (Nat × Nat)) :
      ReachA cfg now seeds clients { BState.init cfg now seeds clients with storeShard := shardMap } 0
  | step {b b' : BState} {n : Nat} {a : Act} {o o' : Oracle} :
      ReachA cfg now seeds clients b n → stepB b a o = .ok (b', o') →
      ReachA cfg now seeds clients b' (n + appliedDelta a b.g b'.g)

theorem ReachA.reach {cfg : Cfg} {now : Nat} {seeds : List Nat} {clients : Nat} {b : BState} {n : Nat}
    (h : ReachA cfg now seeds clients b n) : Reach cfg now seeds clients b := by
  induction h with
  | init sm => exact .init sm
  | step _ hs ih => exact .step ih hs

/-- every reachable state carries a ghost -/
theorem reach_reachA {cfg : Cfg} {now : Nat} {seeds : List Nat} {clients : Nat} {b : BState}
    (h : Reach cfg now seeds clients b) : ∃ n, ReachA cfg now seeds clients b n := by
  induction h with
  | init sm => exact ⟨0, .init sm⟩
  | step _ hs ih => obtain ⟨n, hn⟩ := ih; exact ⟨_, .step hn hs⟩

/-- While the cache is running: every delivered record is still queued for the consumer or has been taken by it. -/
theorem C15_layerB_delivered {cfg : Cfg} {now : Nat} {seeds : List Nat} {clients : Nat} {b : BState} {n : Nat}
    (h : ReachA cfg now seeds clients b n) (hrun : b.g.shutting = false) :
    b.g.stats.accessAdded = queuedRecords b.g + n := by
  induction h with
  | init sm => rfl
  | @step b b' n a o o' hr hs ih =>
    have h0 := stepB_running_before hs hrun
    have hI := C15_layerB_conservation hr.reach h0
    obtain ⟨_, _, _, _, _, hst, _⟩ := recB_any_step hs (recB_running_not_clear hI.shutFlag h0 a)
    have h1 := hst.queued
    have h2 := ih h0
    omega

/-! ## 6  C15 (2): exactly once, per read -/

/-- The lookup action of a read (`get`: `ref = false`, `get_ref`: `ref = true`), for every state and oracle —
    running or not: EITHER a hit: `hits` moves by exactly 1, the buffers, the channel, `accessAdded`, `accessDropped`
    and `misses` are untouched, no record exists yet, the client moves on to `pool.add` carrying the value (one more
    read in flight); OR a miss: `misses` moves by exactly 1, nothing else of these changes, the call returns `None`. -/
theorem C15_layerB_hit_step {b b' : BState} {i k : Nat} {o o' : Oracle} (ref : Bool)
    (hpc : b.cl[i]? = some (lookupPc ref k)) (h : stepB b (.client i) o = .ok (b', o')) :
    (∃ e, b.g.store.get? k = some e ∧ e.alive b.g.now = true ∧
       b'.g.stats.hits = b.g.stats.hits + 1 ∧ b'.g.stats.misses = b.g.stats.misses ∧
       b'.g.pool = b.g.pool ∧ b'.g.bufq = b.g.bufq ∧
       b'.g.stats.accessAdded = b.g.stats.accessAdded ∧ b'.g.stats.accessDropped = b.g.stats.accessDropped ∧
       b'.cl = b.cl.set i (recordPc ref k e.value) ∧ b'.res = b.res ∧
       inFlightReads b' = inFlightReads b + 1 ∧ o' = o) ∨
    ((∀ e, b.g.store.get? k = some e → e.alive b.g.now = false) ∧
       b'.g.stats.hits = b.g.stats.hits ∧ b'.g.stats.misses = b.g.stats.misses + 1 ∧
       b'.g.pool = b.g.pool ∧ b'.g.bufq = b.g.bufq ∧
       b'.g.stats.accessAdded = b.g.stats.accessAdded ∧ b'.g.stats.accessDropped = b.g.stats.accessDropped ∧
       b'.cl = b.cl.set i .idle ∧ b'.res = b.res.set i (.value none :: b.res.getD i []) ∧
       inFlightReads b' = inFlightReads b ∧ o' = o) := by
  obtain ⟨ho, ⟨e, he, ha, hg, hcl, hres, hs⟩ | ⟨hno, hg, hcl, hres, hs⟩⟩ := recB_hit_core ref hpc h
  · have hf := hs.flight
    exact Or.inl ⟨e, he, ha, by rw [hg], by rw [hg], by rw [hg], by rw [hg], by rw [hg], by rw [hg], hcl, hres,
      by omega, ho⟩
  · have hf := hs.flight
    exact Or.inr ⟨hno, by rw [hg], by rw [hg], by rw [hg], by rw [hg], by rw [hg], by rw [hg], hcl, hres,
      by omega, ho⟩

/-- `Pool::add`, exactly -/
theorem recB_poolAdd_spec {g g1 : State} {h : Nat} {o o' : Oracle} (hp : poolAdd g h o = .ok (g1, o')) :
    ∃ idx rest buf, o.pool = idx :: rest ∧ g.pool[idx]? = some buf ∧ o' = { o with pool := rest } ∧
      ((buf.length < g.cfg.bufSize ∧ g1 = { g with pool := g.pool.set idx (buf ++ [h]) }) ∨
       (buf.length ≥ g.cfg.bufSize ∧ g1 = { acceptBuffer g buf with pool := g.pool.set idx [h] })) := by
  unfold poolAdd at hp
  split at hp
  · cases hp
  · rename_i idx rest ho
    split at hp
    · cases hp
    · rename_i buf hb
      refine ⟨idx, rest, buf, ho, hb, ?_⟩
      by_cases hc : buf.length ≥ g.cfg.bufSize
      · simp only [hc, if_true, Except.ok.injEq, Prod.mk.injEq] at hp
        obtain ⟨rfl, rfl⟩ := hp
        refine ⟨rfl, Or.inr ⟨hc, ?_⟩⟩
        rw [(acceptBuffer_step g buf).2]
        rfl
      · simp only [hc, if_false, Except.ok.injEq, Prod.mk.injEq] at hp
        obtain ⟨rfl, rfl⟩ := hp
        exact ⟨rfl, Or.inl ⟨by omega, rfl⟩⟩

/-- The `pool.add` action of a read, for every state and oracle: `hits` and `misses` are untouched,
    `buffered + accessAdded + accessDropped` grows by exactly 1, the record added is the key's hash, put at the END
    of the buffer the oracle chose (after that buffer, if full, was handed over whole), the call returns the value
    picked up at the lookup and the client is idle again (one read in flight less). -/
theorem C15_layerB_record_step {b b' : BState} {i k v : Nat} {o o' : Oracle} (ref : Bool)
    (hpc : b.cl[i]? = some (recordPc ref k v)) (h : stepB b (.client i) o = .ok (b', o')) :
    ∃ idx rest buf, o.pool = idx :: rest ∧ b.g.pool[idx]? = some buf ∧ o' = { o with pool := rest } ∧
      b'.g.stats.hits = b.g.stats.hits ∧ b'.g.stats.misses = b.g.stats.misses ∧
      buffered b'.g + b'.g.stats.accessAdded + b'.g.stats.accessDropped =
        buffered b.g + b.g.stats.accessAdded + b.g.stats.accessDropped + 1 ∧
      b'.g.pool = b.g.pool.set idx ((if buf.length ≥ b.g.cfg.bufSize then [] else buf) ++ [b.g.cfg.hashOf k]) ∧
      b'.g.pool[idx]? = some ((if buf.length ≥ b.g.cfg.bufSize then [] else buf) ++ [b.g.cfg.hashOf k]) ∧
      b'.cl = b.cl.set i .idle ∧ b'.res = b.res.set i (.value (some v) :: b.res.getD i []) ∧
      inFlightReads b' + 1 = inFlightReads b := by
  obtain ⟨hp, hcl, hres, hs⟩ := recB_record_core ref hpc h
  obtain ⟨idx, rest, buf, ho, hb, ho', hcase⟩ := recB_poolAdd_spec hp
  have hlt : idx < b.g.pool.length := by
    rcases Nat.lt_or_ge idx b.g.pool.length with h' | h'
    · exact h'
    · rw [List.getElem?_eq_none h'] at hb; cases hb
  have hpool : b'.g.pool = b.g.pool.set idx ((if buf.length ≥ b.g.cfg.bufSize then [] else buf) ++ [b.g.cfg.hashOf k]) := by
    rcases hcase with ⟨hlt', hg⟩ | ⟨hge, hg⟩
    · rw [hg, if_neg (by omega)]
    · rw [hg, if_pos hge]; rfl
  have ht := hs.total
  have hf := hs.flight
  unfold recorded at ht
  refine ⟨idx, rest, buf, ho, hb, ho', by have := hs.hits; omega, by have := hs.misses; omega, ht, hpool, ?_, hcl, hres,
    by omega⟩
  rw [hpool, List.getElem?_set_self hlt]

/-- The lookup action for ONE KEY of a multi-key read (`multi_get` or an iterator), for every state and oracle —
    running or not: EITHER a hit: `hits` moves by exactly 1, nothing else of the record quantities changes, no record
    exists yet, the client moves on to `pool.add` carrying the value, the results so far and the keys to come (one
    more read in flight); OR a miss: `misses` moves by exactly 1, `none` is appended to the results and the read moves
    on (`mgetNext`: next key, or return) — no read in flight. -/
theorem C15_layerB_mget_hit_step {b b' : BState} {i k : Nat} {ks : List Nat} {acc : List (Option Nat)} {iter : Bool}
    {o o' : Oracle} (hpc : b.cl[i]? = some (.mgetStore k ks acc iter)) (h : stepB b (.client i) o = .ok (b', o')) :
    (∃ e, b.g.store.get? k = some e ∧ e.alive b.g.now = true ∧
       b'.g.stats.hits = b.g.stats.hits + 1 ∧ b'.g.stats.misses = b.g.stats.misses ∧
       b'.g.pool = b.g.pool ∧ b'.g.bufq = b.g.bufq ∧
       b'.g.stats.accessAdded = b.g.stats.accessAdded ∧ b'.g.stats.accessDropped = b.g.stats.accessDropped ∧
       b'.cl = b.cl.set i (.mgetPool k e.value ks acc iter) ∧ b'.res = b.res ∧
       inFlightReads b' = inFlightReads b + 1 ∧ o' = o) ∨
    ((∀ e, b.g.store.get? k = some e → e.alive b.g.now = false) ∧
       b'.g.stats.hits = b.g.stats.hits ∧ b'.g.stats.misses = b.g.stats.misses + 1 ∧
       b'.g.pool = b.g.pool ∧ b'.g.bufq = b.g.bufq ∧
       b'.g.stats.accessAdded = b.g.stats.accessAdded ∧ b'.g.stats.accessDropped = b.g.stats.accessDropped ∧
       b' = mgetNext { b with g := { b.g with stats := { b.g.stats with misses := b.g.stats.misses + 1 } } } i ks
              (acc ++ [none]) iter ∧
       inFlightReads b' = inFlightReads b ∧ o' = o) := by
  obtain ⟨ho, ⟨e, he, ha, hg, hcl, hres, hs⟩ | ⟨hno, hg, hb', hs⟩⟩ := recB_mhit_core hpc h
  · have hf := hs.flight
    exact Or.inl ⟨e, he, ha, by rw [hg], by rw [hg], by rw [hg], by rw [hg], by rw [hg], by rw [hg], hcl, hres,
      by omega, ho⟩
  · have hf := hs.flight
    exact Or.inr ⟨hno, by rw [hg], by rw [hg], by rw [hg], by rw [hg], by rw [hg], by rw [hg], hb',
      by omega, ho⟩

/-- The `pool.add` action for one hit of a multi-key read, for every state and oracle: EXACTLY ONE record — `hits`
    and `misses` untouched, `buffered + accessAdded + accessDropped` grows by exactly 1, the record is the key's hash
    at the END of the buffer the oracle chose (after that buffer, if full, was handed over whole) —, the value picked
    up at the lookup is appended to the results, one read in flight less, and the read moves on (`mgetNext`: it returns,
    or stands before its next load of the shutdown flag — which creates no record whatever it sees:
    `C15_layerB_mget_flag_step`; before the model change `mgetNext` contained that load). -/
theorem C15_layerB_mget_record_step {b b' : BState} {i k v : Nat} {ks : List Nat} {acc : List (Option Nat)}
    {iter : Bool} {o o' : Oracle} (hpc : b.cl[i]? = some (.mgetPool k v ks acc iter))
    (h : stepB b (.client i) o = .ok (b', o')) :
    ∃ idx rest buf, o.pool = idx :: rest ∧ b.g.pool[idx]? = some buf ∧ o' = { o with pool := rest } ∧
      b'.g.stats.hits = b.g.stats.hits ∧ b'.g.stats.misses = b.g.stats.misses ∧
      buffered b'.g + b'.g.stats.accessAdded + b'.g.stats.accessDropped =
        buffered b.g + b.g.stats.accessAdded + b.g.stats.accessDropped + 1 ∧
      b'.g.pool = b.g.pool.set idx ((if buf.length ≥ b.g.cfg.bufSize then [] else buf) ++ [b.g.cfg.hashOf k]) ∧
      b'.g.pool[idx]? = some ((if buf.length ≥ b.g.cfg.bufSize then [] else buf) ++ [b.g.cfg.hashOf k]) ∧
      b' = mgetNext { b with g := b'.g } i ks (acc ++ [some v]) iter ∧
      inFlightReads b' + 1 = inFlightReads b := by
  obtain ⟨hp, hb', hs⟩ := recB_mrecord_core hpc h
  obtain ⟨idx, rest, buf, ho, hb, ho', hcase⟩ := recB_poolAdd_spec hp
  have hlt : idx < b.g.pool.length := by
    rcases Nat.lt_or_ge idx b.g.pool.length with h' | h'
    · exact h'
    · rw [List.getElem?_eq_none h'] at hb; cases hb
  have hpool : b'.g.pool = b.g.pool.set idx ((if buf.length ≥ b.g.cfg.bufSize then [] else buf) ++ [b.g.cfg.hashOf k]) := by
    rcases hcase with ⟨hlt', hg⟩ | ⟨hge, hg⟩
    · rw [hg, if_neg (by omega)]
    · rw [hg, if_pos hge]; rfl
  have ht := hs.total
  have hf := hs.flight
  unfold recorded at ht
  refine ⟨idx, rest, buf, ho, hb, ho', by have := hs.hits; omega, by have := hs.misses; omega, ht, hpool, ?_, hb',
    by omega⟩
  rw [hpool, List.getElem?_set_self hlt]


/-- A load of the shutdown flag inside a multi-key read (`.mgetFlag`; new with the model change that makes every load an
    action of its own), for every state and oracle — whether it finds the flag set or not, and in particular when the
    `get` for a key finds it set and answers `None` without a lookup: NOTHING of the shared state changes — no hit, no
    miss, no record, no counter —, no oracle value is consumed, no read enters or leaves the in-flight position. -/
theorem C15_layerB_mget_flag_step {b b' : BState} {i : Nat} {outer : Bool} {ks : List Nat} {acc : List (Option Nat)}
    {iter : Bool} {o o' : Oracle} (hpc : b.cl[i]? = some (.mgetFlag outer ks acc iter))
    (h : stepB b (.client i) o = .ok (b', o')) :
    b'.g = b.g ∧ o' = o ∧ inFlightReads b' = inFlightReads b := by
  simp only [stepB] at h
  unfold clientAct at h
  simp only [hpc, Except.ok.injEq, Prod.mk.injEq] at h
  obtain ⟨rfl, rfl⟩ := h
  refine ⟨mgetFlagAct_g _ _ _ _ _ _, rfl, ?_⟩
  obtain ⟨_, _, pc', hcl, h0⟩ := recFrame_mgetFlagAct (b := b) b i outer ks acc iter rfl rfl rfl
  have := recB_inFlight_set hpc hcl
  rw [h0] at this
  simpa [CPc.inFlight] using this

/-- Every action that is not one of the two actions of a read — the worker's, the sweeper's, the consumer's, a
    client's at any other position (issuing and starting a request included), the clock — leaves `hits`, `misses`,
    `buffered + accessAdded + accessDropped` and the number of reads in flight alone; the single exception is
    `shutdown.stats_clear`. -/
theorem C15_layerB_others_frame_strong {b b' : BState} {a : Act} {o o' : Oracle} (h : stepB b a o = .ok (b', o'))
    (hr : ¬ ReadAct b a) (hn : ¬ IsStatsClear b a) :
    b'.g.stats.hits = b.g.stats.hits ∧ b'.g.stats.misses = b.g.stats.misses ∧
    buffered b'.g + b'.g.stats.accessAdded + b'.g.stats.accessDropped =
      buffered b.g + b.g.stats.accessAdded + b.g.stats.accessDropped ∧
    inFlightReads b' = inFlightReads b := by
  have hs := recB_other_step h hn hr
  have h1 := hs.hits
  have h2 := hs.misses
  have h3 := hs.total
  have h4 := hs.flight
  unfold recorded at h3
  exact ⟨by omega, by omega, by omega, by omega⟩

/-- … as asked: while the cache is running (`hs` holds at every reachable state: `(binv_reach h).shutFlag`, and is
    a conjunct of `RecInv`). -/
theorem C15_layerB_others_frame {b b' : BState} {a : Act} {o o' : Oracle} (hs : ShutF b)
    (hrun : b.g.shutting = false) (h : stepB b a o = .ok (b', o')) (hr : ¬ ReadAct b a) :
    b'.g.stats.hits = b.g.stats.hits ∧ b'.g.stats.misses = b.g.stats.misses ∧
    buffered b'.g + b'.g.stats.accessAdded + b'.g.stats.accessDropped =
      buffered b.g + b.g.stats.accessAdded + b.g.stats.accessDropped ∧
    inFlightReads b' = inFlightReads b :=
  C15_layerB_others_frame_strong h hr (recB_running_not_clear hs hrun a)

/-! ## 7  C15 (3): reads never wait -/

/-- the request of a read -/
def readReq (ref : Bool) (k : Nat) : Req :=
  match ref with
  | true => .getRef k
  | false => .get k

/-- Every action of a read is enabled, whatever every other thread is doing and whoever owns whichever lock:
    no hypothesis on `b.w`, `b.sw`, `b.wuOwner`, `b.ttlOwner`, `b.storeReaders`, `bufq`, `consumerAlive`, `shutting`.
    * the first action (`start`) and the lookup: for EVERY oracle (none is consumed);
    * `pool.add`: for every oracle whose head pool index names a buffer of the pool — a full channel or a dead
      consumer does not block it (`C15_layerB_saturated_drops`: the full buffer is dropped and counted). -/
theorem C15_layerB_read_enabled {b : BState} {i k : Nat} (ref : Bool) :
    (b.cl[i]? = some (.start (readReq ref k)) → ∀ o, ∃ b', stepB b (.client i) o = .ok (b', o)) ∧
    (b.cl[i]? = some (lookupPc ref k) → ∀ o, ∃ b', stepB b (.client i) o = .ok (b', o)) ∧
    (∀ v, b.cl[i]? = some (recordPc ref k v) → ∀ (o : Oracle) (idx : Nat) (rest : List Nat), o.pool = idx :: rest →
      idx < b.g.pool.length →
      ∃ b', stepB b (.client i) o = .ok (b', { o with pool := rest }) ∧ b'.cl = b.cl.set i .idle ∧
        b'.res = b.res.set i (.value (some v) :: b.res.getD i [])) := by
  refine ⟨?_, ?_, ?_⟩
  · intro hpc o
    cases ref
    all_goals simp only [readReq] at hpc
    all_goals simp only [stepB, clientAct, hpc]
    all_goals split <;> exact ⟨_, rfl⟩
  · intro hpc o
    cases ref
    all_goals simp only [lookupPc] at hpc
    all_goals simp only [stepB, clientAct, hpc]
    all_goals split
    all_goals first | exact ⟨_, rfl⟩ | (split <;> exact ⟨_, rfl⟩)
  · intro v hpc o idx rest ho hidx
    have hp : ∃ g1, poolAdd b.g (b.g.cfg.hashOf k) o = .ok (g1, { o with pool := rest }) := by
      unfold poolAdd
      simp only [ho, List.getElem?_eq_getElem hidx]
      exact ⟨_, rfl⟩
    obtain ⟨g1, hp⟩ := hp
    cases ref
    all_goals simp only [recordPc] at hpc
    all_goals simp only [stepB, clientAct, hpc, hp]
    all_goals exact ⟨_, rfl, rfl, rfl⟩

/-- The enabledness condition of `pool.add`, precisely: the oracle's head pool index names a buffer.  Nothing else.
    (With `poolSize = 0` no index does: the model then never lets a hit finish — the one condition not listed in the
    property's wording.) -/
theorem C15_layerB_record_enabled_iff {b : BState} {i k v : Nat} (ref : Bool)
    (hpc : b.cl[i]? = some (recordPc ref k v)) (o : Oracle) :
    (∃ r, stepB b (.client i) o = .ok r) ↔ ∃ idx rest, o.pool = idx :: rest ∧ idx < b.g.pool.length := by
  constructor
  · rintro ⟨⟨b', o'⟩, h⟩
    obtain ⟨idx, rest, buf, ho, hb, _⟩ := C15_layerB_record_step ref hpc h
    refine ⟨idx, rest, ho, ?_⟩
    rcases Nat.lt_or_ge idx b.g.pool.length with h' | h'
    · exact h'
    · rw [List.getElem?_eq_none h'] at hb; cases hb
  · rintro ⟨idx, rest, ho, hidx⟩
    obtain ⟨b', h, _⟩ := (C15_layerB_read_enabled (b := b) (i := i) (k := k) ref).2.2 v hpc o idx rest ho hidx
    exact ⟨_, h⟩

/-- At every reachable state — running, shutting down or shut down — a hit between its lookup and `pool.add` can
    finish for every oracle that picks one of the `cfg.poolSize` buffers. -/
theorem C15_layerB_read_enabled_reach {cfg : Cfg} {now : Nat} {seeds : List Nat} {clients : Nat} {b : BState}
    (hr : Reach cfg now seeds clients b) {i k v : Nat} (ref : Bool) (hpc : b.cl[i]? = some (recordPc ref k v))
    (o : Oracle) {idx : Nat} {rest : List Nat} (ho : o.pool = idx :: rest) (hidx : idx < cfg.poolSize) :
    ∃ b', stepB b (.client i) o = .ok (b', { o with pool := rest }) ∧ b'.cl = b.cl.set i .idle ∧
      b'.res = b.res.set i (.value (some v) :: b.res.getD i []) :=
  (C15_layerB_read_enabled (b := b) (i := i) (k := k) ref).2.2 v hpc o idx rest ho (by rw [recB_pool_length hr]; exact hidx)

/-- Every action of a multi-key read is enabled, whatever every other thread is doing and whoever owns whichever
    lock (no hypothesis on `b.w`, `b.sw`, the locks, the guards, `bufq`, `consumerAlive`, `shutting`):
    the first action and every lookup for EVERY oracle (none is consumed); every `pool.add` for every oracle whose
    head pool index names a buffer — after it the read stands at its next key or has returned. -/
theorem C15_layerB_mget_enabled {b : BState} {i : Nat} :
    (∀ ks iter, b.cl[i]? = some (.start (.mget ks iter)) → ∀ o, ∃ b', stepB b (.client i) o = .ok (b', o)) ∧
    (∀ k ks acc iter, b.cl[i]? = some (.mgetStore k ks acc iter) → ∀ o, ∃ b', stepB b (.client i) o = .ok (b', o)) ∧
    (∀ k v ks acc iter, b.cl[i]? = some (.mgetPool k v ks acc iter) → ∀ (o : Oracle) (idx : Nat) (rest : List Nat),
      o.pool = idx :: rest → idx < b.g.pool.length →
      ∃ b', stepB b (.client i) o = .ok (b', { o with pool := rest }) ∧
        b' = mgetNext { b with g := b'.g } i ks (acc ++ [some v]) iter) := by
  refine ⟨?_, ?_, ?_⟩
  · intro ks iter hpc o
    simp only [stepB, clientAct, hpc]
    split <;> exact ⟨_, rfl⟩
  · intro k ks acc iter hpc o
    simp only [stepB, clientAct, hpc]
    split
    · split <;> exact ⟨_, rfl⟩
    · exact ⟨_, rfl⟩
  · intro k v ks acc iter hpc o idx rest ho hidx
    have hp : ∃ g1, poolAdd b.g (b.g.cfg.hashOf k) o = .ok (g1, { o with pool := rest }) := by
      unfold poolAdd
      simp only [ho, List.getElem?_eq_getElem hidx]
      exact ⟨_, rfl⟩
    obtain ⟨g1, hp⟩ := hp
    simp only [stepB, clientAct, hpc, hp]
    exact ⟨_, rfl, by rw [mgetNext_g]⟩

/-- The enabledness condition of the `pool.add` of a multi-key read, precisely: the oracle's head pool index names a
    buffer.  Nothing else. -/
theorem C15_layerB_mget_record_enabled_iff {b : BState} {i k v : Nat} {ks : List Nat} {acc : List (Option Nat)}
    {iter : Bool} (hpc : b.cl[i]? = some (.mgetPool k v ks acc iter)) (o : Oracle) :
    (∃ r, stepB b (.client i) o = .ok r) ↔ ∃ idx rest, o.pool = idx :: rest ∧ idx < b.g.pool.length := by
  constructor
  · rintro ⟨⟨b', o'⟩, h⟩
    obtain ⟨idx, rest, buf, ho, hb, _⟩ := C15_layerB_mget_record_step hpc h
    refine ⟨idx, rest, ho, ?_⟩
    rcases Nat.lt_or_ge idx b.g.pool.length with h' | h'
    · exact h'
    · rw [List.getElem?_eq_none h'] at hb; cases hb
  · rintro ⟨idx, rest, ho, hidx⟩
    obtain ⟨b', h, _⟩ := (C15_layerB_mget_enabled (b := b) (i := i)).2.2 k v ks acc iter hpc o idx rest ho hidx
    exact ⟨_, h⟩

/-- At every reachable state — running, shutting down or shut down — a hit of a multi-key read between its lookup
    and `pool.add` can go on for every oracle that picks one of the `cfg.poolSize` buffers. -/
theorem C15_layerB_mget_enabled_reach {cfg : Cfg} {now : Nat} {seeds : List Nat} {clients : Nat} {b : BState}
    (hr : Reach cfg now seeds clients b) {i k v : Nat} {ks : List Nat} {acc : List (Option Nat)} {iter : Bool}
    (hpc : b.cl[i]? = some (.mgetPool k v ks acc iter))
    (o : Oracle) {idx : Nat} {rest : List Nat} (ho : o.pool = idx :: rest) (hidx : idx < cfg.poolSize) :
    ∃ b', stepB b (.client i) o = .ok (b', { o with pool := rest }) ∧
      b' = mgetNext { b with g := b'.g } i ks (acc ++ [some v]) iter :=
  (C15_layerB_mget_enabled (b := b) (i := i)).2.2 k v ks acc iter hpc o idx rest ho
    (by rw [recB_pool_length hr]; exact hidx)

/-! ## 8  C15 (4): a saturated or dead consumer — the full buffer is dropped whole, and counted -/

theorem recB_acceptBuffer_sat (g : State) (buf : List Nat)
    (hsat : g.bufq.length ≥ g.cfg.bufChanCap ∨ g.consumerAlive = false) :
    acceptBuffer g buf = { g with stats := { g.stats with accessDropped := g.stats.accessDropped + buf.length } } := by
  unfold acceptBuffer
  rw [if_neg]
  simp only [Bool.and_eq_true, decide_eq_true_eq, not_and, Nat.not_lt]
  rcases hsat with h | h
  · intro _; exact h
  · intro ha; rw [h] at ha; cases ha

theorem recB_acceptBuffer_room (g : State) (buf : List Nat) (h1 : g.bufq.length < g.cfg.bufChanCap)
    (h2 : g.consumerAlive = true) :
    acceptBuffer g buf = { g with bufq := g.bufq ++ [.full buf],
                                  stats := { g.stats with accessAdded := g.stats.accessAdded + buf.length } } := by
  unfold acceptBuffer
  rw [if_pos]
  simp only [Bool.and_eq_true, decide_eq_true_eq]
  exact ⟨h2, h1⟩

/-- At `pool.add`, the chosen buffer full and the channel full or the consumer gone: the read RETURNS, `accessDropped`
    grows by exactly the buffer's length, `accessAdded` and `bufq` are untouched, and the buffer afterwards holds
    exactly the new record. -/
theorem C15_layerB_saturated_drops {b b' : BState} {i k v : Nat} {o o' : Oracle} (ref : Bool)
    (hpc : b.cl[i]? = some (recordPc ref k v)) (h : stepB b (.client i) o = .ok (b', o'))
    {idx : Nat} {rest buf : List Nat} (ho : o.pool = idx :: rest) (hb : b.g.pool[idx]? = some buf)
    (hfull : buf.length ≥ b.g.cfg.bufSize)
    (hsat : b.g.bufq.length ≥ b.g.cfg.bufChanCap ∨ b.g.consumerAlive = false) :
    b'.g.stats.accessDropped = b.g.stats.accessDropped + buf.length ∧
    b'.g.stats.accessAdded = b.g.stats.accessAdded ∧ b'.g.bufq = b.g.bufq ∧
    b'.g.pool[idx]? = some [b.g.cfg.hashOf k] ∧ b'.g.pool = b.g.pool.set idx [b.g.cfg.hashOf k] ∧
    b'.g.stats.hits = b.g.stats.hits ∧ b'.cl = b.cl.set i .idle ∧
    b'.res = b.res.set i (.value (some v) :: b.res.getD i []) := by
  obtain ⟨hp, hcl, hres, hs⟩ := recB_record_core ref hpc h
  obtain ⟨idx', rest', buf', ho', hb', _, hcase⟩ := recB_poolAdd_spec hp
  rw [ho] at ho'
  simp only [List.cons.injEq] at ho'
  obtain ⟨rfl, rfl⟩ := ho'
  rw [hb] at hb'
  simp only [Option.some.injEq] at hb'
  subst hb'
  have hlt : idx < b.g.pool.length := by
    rcases Nat.lt_or_ge idx b.g.pool.length with h' | h'
    · exact h'
    · rw [List.getElem?_eq_none h'] at hb; cases hb
  rcases hcase with ⟨hlt', _⟩ | ⟨_, hg⟩
  · omega
  · rw [recB_acceptBuffer_sat b.g buf hsat] at hg
    refine ⟨by rw [hg], by rw [hg], by rw [hg], ?_, by rw [hg], by rw [hg], hcl, hres⟩
    rw [hg]
    exact List.getElem?_set_self hlt

/-- The other case, for completeness: room in the channel and a live consumer — the full buffer is DELIVERED whole:
    `accessAdded` grows by its length, it is appended to `bufq`, `accessDropped` is untouched. -/
theorem C15_layerB_room_delivers {b b' : BState} {i k v : Nat} {o o' : Oracle} (ref : Bool)
    (hpc : b.cl[i]? = some (recordPc ref k v)) (h : stepB b (.client i) o = .ok (b', o'))
    {idx : Nat} {rest buf : List Nat} (ho : o.pool = idx :: rest) (hb : b.g.pool[idx]? = some buf)
    (hfull : buf.length ≥ b.g.cfg.bufSize)
    (hroom : b.g.bufq.length < b.g.cfg.bufChanCap) (halive : b.g.consumerAlive = true) :
    b'.g.stats.accessAdded = b.g.stats.accessAdded + buf.length ∧
    b'.g.stats.accessDropped = b.g.stats.accessDropped ∧ b'.g.bufq = b.g.bufq ++ [.full buf] ∧
    b'.g.pool = b.g.pool.set idx [b.g.cfg.hashOf k] := by
  obtain ⟨hp, _, _, _⟩ := recB_record_core ref hpc h
  obtain ⟨idx', rest', buf', ho', hb', _, hcase⟩ := recB_poolAdd_spec hp
  rw [ho] at ho'
  simp only [List.cons.injEq] at ho'
  obtain ⟨rfl, rfl⟩ := ho'
  rw [hb] at hb'
  simp only [Option.some.injEq] at hb'
  subst hb'
  rcases hcase with ⟨hlt', _⟩ | ⟨_, hg⟩
  · omega
  · rw [recB_acceptBuffer_room b.g buf hroom halive] at hg
    exact ⟨by rw [hg], by rw [hg], by rw [hg], by rw [hg]⟩

/-- The same for the `pool.add` of a multi-key read: chosen buffer full and the channel full or the consumer gone — the
    read GOES ON (`mgetNext`), the buffer is dropped whole and counted. -/
theorem C15_layerB_mget_saturated_drops {b b' : BState} {i k v : Nat} {ks : List Nat} {acc : List (Option Nat)}
    {iter : Bool} {o o' : Oracle}
    (hpc : b.cl[i]? = some (.mgetPool k v ks acc iter)) (h : stepB b (.client i) o = .ok (b', o'))
    {idx : Nat} {rest buf : List Nat} (ho : o.pool = idx :: rest) (hb : b.g.pool[idx]? = some buf)
    (hfull : buf.length ≥ b.g.cfg.bufSize)
    (hsat : b.g.bufq.length ≥ b.g.cfg.bufChanCap ∨ b.g.consumerAlive = false) :
    b'.g.stats.accessDropped = b.g.stats.accessDropped + buf.length ∧
    b'.g.stats.accessAdded = b.g.stats.accessAdded ∧ b'.g.bufq = b.g.bufq ∧
    b'.g.pool[idx]? = some [b.g.cfg.hashOf k] ∧ b'.g.pool = b.g.pool.set idx [b.g.cfg.hashOf k] ∧
    b'.g.stats.hits = b.g.stats.hits ∧ b' = mgetNext { b with g := b'.g } i ks (acc ++ [some v]) iter := by
  obtain ⟨hp, hb', hs⟩ := recB_mrecord_core hpc h
  obtain ⟨idx', rest', buf', ho', hb'', _, hcase⟩ := recB_poolAdd_spec hp
  rw [ho] at ho'
  simp only [List.cons.injEq] at ho'
  obtain ⟨rfl, rfl⟩ := ho'
  rw [hb] at hb''
  simp only [Option.some.injEq] at hb''
  subst hb''
  have hlt : idx < b.g.pool.length := by
    rcases Nat.lt_or_ge idx b.g.pool.length with h' | h'
    · exact h'
    · rw [List.getElem?_eq_none h'] at hb; cases hb
  rcases hcase with ⟨hlt', _⟩ | ⟨_, hg⟩
  · omega
  · rw [recB_acceptBuffer_sat b.g buf hsat] at hg
    refine ⟨by rw [hg], by rw [hg], by rw [hg], ?_, by rw [hg], by rw [hg], hb'⟩
    rw [hg]
    exact List.getElem?_set_self hlt

/-- … and with room in the channel and a live consumer the full buffer is DELIVERED whole. -/
theorem C15_layerB_mget_room_delivers {b b' : BState} {i k v : Nat} {ks : List Nat} {acc : List (Option Nat)}
    {iter : Bool} {o o' : Oracle}
    (hpc : b.cl[i]? = some (.mgetPool k v ks acc iter)) (h : stepB b (.client i) o = .ok (b', o'))
    {idx : Nat} {rest buf : List Nat} (ho : o.pool = idx :: rest) (hb : b.g.pool[idx]? = some buf)
    (hfull : buf.length ≥ b.g.cfg.bufSize)
    (hroom : b.g.bufq.length < b.g.cfg.bufChanCap) (halive : b.g.consumerAlive = true) :
    b'.g.stats.accessAdded = b.g.stats.accessAdded + buf.length ∧
    b'.g.stats.accessDropped = b.g.stats.accessDropped ∧ b'.g.bufq = b.g.bufq ++ [.full buf] ∧
    b'.g.pool = b.g.pool.set idx [b.g.cfg.hashOf k] := by
  obtain ⟨hp, _, _⟩ := recB_mrecord_core hpc h
  obtain ⟨idx', rest', buf', ho', hb', _, hcase⟩ := recB_poolAdd_spec hp
  rw [ho] at ho'
  simp only [List.cons.injEq] at ho'
  obtain ⟨rfl, rfl⟩ := ho'
  rw [hb] at hb'
  simp only [Option.some.injEq] at hb'
  subst hb'
  rcases hcase with ⟨hlt', _⟩ | ⟨_, hg⟩
  · omega
  · rw [recB_acceptBuffer_room b.g buf hroom halive] at hg
    exact ⟨by rw [hg], by rw [hg], by rw [hg], by rw [hg]⟩

/-! ## 9  non-vacuity: one buffer of size one, channel capacity one, two clients -/

def cfgRec : Cfg :=
  { maxWeight := 10, shards := 1, cmdCap := 4, poolSize := 1, bufSize := 1, counters := 2, bufChanCap := 1 }

def initRec : BState := BState.init cfgRec 0 [1, 2, 3, 4] 2

/-- client 0 puts key 1 (value 100, weight 5) and the worker runs the command to its end -/
def putRun : List (Act × Oracle) := call 0 (.putW 1 100 5 none) 4 ++ workerN 6

/-- a read of client `i` up to, NOT including, `pool.add`: issue, `start`, lookup -/
def lookupRun (i : Nat) (r : Req) : List (Act × Oracle) := call i r 2

/-- a whole read of client `i`; `pool.add` picks buffer 0 -/
def readRun (i : Nat) (r : Req) : List (Act × Oracle) := lookupRun i r ++ [(.client i, { pool := [0] })]

/-- `CPc` has no decidable equality; the examples look at positions through this code:
    1 `getStore k`, 2 `refStore k`, 3 `getPool k v`, 4 `refPool k v`, 5 `shutStatsClear`, 0 `idle`, 9 anything else -/
def CPc.tag : CPc → Nat × Nat × Nat
  | .idle => (0, 0, 0)
  | .getStore k => (1, k, 0)
  | .refStore k => (2, k, 0)
  | .getPool k v => (3, k, v)
  | .refPool k v => (4, k, v)
  | .shutStatsClear => (5, 0, 0)
  | _ => (9, 0, 0)

def clTag (b : BState) (i : Nat) : Option (Nat × Nat × Nat) := (b.cl[i]?).map CPc.tag

/-- the code is faithful -/
theorem recB_clTag_spec {b : BState} {i : Nat} :
    (∀ k, clTag b i = some (1, k, 0) → b.cl[i]? = some (lookupPc false k)) ∧
    (∀ k, clTag b i = some (2, k, 0) → b.cl[i]? = some (lookupPc true k)) ∧
    (∀ k v, clTag b i = some (3, k, v) → b.cl[i]? = some (recordPc false k v)) ∧
    (∀ k v, clTag b i = some (4, k, v) → b.cl[i]? = some (recordPc true k v)) ∧
    (clTag b i = some (5, 0, 0) → b.cl[i]? = some .shutStatsClear) ∧
    (clTag b i = some (0, 0, 0) → b.cl[i]? = some .idle) := by
  unfold clTag
  cases b.cl[i]? with
  | none => simp
  | some pc => cases pc <;> simp [CPc.tag, lookupPc, recordPc]

/-- hits, misses, buffered, accessAdded, accessDropped, reads in flight, records queued -/
def recNumbers (b : BState) : List Nat :=
  [b.g.stats.hits, b.g.stats.misses, buffered b.g, b.g.stats.accessAdded, b.g.stats.accessDropped, inFlightReads b,
   queuedRecords b.g]

def recRun (l : List (Act × Oracle)) : Option (List Nat) :=
  match runB initRec l with
  | .ok b => some (recNumbers b)
  | .error _ => none

/-- a `get(1)` of client 1 between its lookup and `pool.add`: the hit IS counted, its record is nowhere yet -/
example : recRun (putRun ++ lookupRun 1 (.get 1)) = some [1, 0, 0, 0, 0, 1, 0] := by decide
/-- a `get` of client 0 and a `get_ref` of client 1 in flight at the same time -/
example : recRun (putRun ++ lookupRun 0 (.get 1) ++ lookupRun 1 (.getRef 1)) = some [2, 0, 0, 0, 0, 2, 0] := by decide
/-- first read finished: the record is buffered -/
example : recRun (putRun ++ readRun 1 (.get 1)) = some [1, 0, 1, 0, 0, 0, 0] := by decide
/-- second read: the full buffer is delivered whole (`accessAdded = 1`, one record queued) -/
example : recRun (putRun ++ readRun 1 (.get 1) ++ readRun 0 (.getRef 1)) = some [2, 0, 1, 1, 0, 0, 1] := by decide
/-- third read: the channel is full — the buffer is DROPPED whole and counted (`accessDropped = 1`); the read returns -/
example : recRun (putRun ++ readRun 1 (.get 1) ++ readRun 0 (.getRef 1) ++ readRun 1 (.get 1)) =
    some [3, 0, 1, 1, 1, 0, 1] := by decide
/-- a miss: `get(2)` -/
example : recRun (putRun ++ lookupRun 1 (.get 2)) = some [0, 1, 0, 0, 0, 0, 0] := by decide
/-- the consumer takes the queued batch (one `add_if_missing` answer), then a fourth read is delivered again -/
example : recRun (putRun ++ readRun 1 (.get 1) ++ readRun 0 (.getRef 1) ++ readRun 1 (.get 1) ++
    [(.consumer, { dkAdd := [true] })] ++ readRun 0 (.get 1)) = some [4, 0, 1, 2, 1, 0, 1] := by decide

/-- a `multi_get([1, 2, 1])` of client 1 after the lookup of its first key (a hit; four actions: the first one, the
    load at the entry, the load inside `get`, `store.get`): counted, in flight, no record -/
example : recRun (putRun ++ call 1 (.mget [1, 2, 1] false) 4) = some [1, 0, 0, 0, 0, 1, 0] := by decide
/-- … after that hit's `pool.add`: ONE record buffered, nothing in flight; the read stands before the load of `get(2)` -/
example : recRun (putRun ++ call 1 (.mget [1, 2, 1] false) 4 ++ [(.client 1, { pool := [0] })]) =
    some [1, 0, 1, 0, 0, 0, 0] := by decide
/-- … a `get` of client 0 interleaved between the keys (its hit in flight), then key 2 (load, a miss) and the load and
    the lookup of the third key (a hit again): two reads in flight at once, one of them a multi-key read -/
example : recRun (putRun ++ call 1 (.mget [1, 2, 1] false) 4 ++ [(.client 1, { pool := [0] })] ++
    lookupRun 0 (.get 1) ++ [(.client 1, noO), (.client 1, noO), (.client 1, noO), (.client 1, noO)]) =
    some [3, 1, 1, 0, 0, 2, 0] := by decide
/-- … the whole interleaving to its end: three hits, three records (one buffered, one delivered, one dropped with the
    channel full), one miss; every hit exactly one record -/
example : recRun (putRun ++ call 1 (.mget [1, 2, 1] false) 4 ++ [(.client 1, { pool := [0] })] ++
    lookupRun 0 (.get 1) ++ [(.client 1, noO), (.client 1, noO), (.client 1, noO), (.client 1, noO),
      (.client 0, { pool := [0] }), (.client 1, { pool := [0] })]) = some [3, 1, 1, 1, 1, 0, 1] := by decide
/-- … and a `get` of the read that finds the shutdown flag set (client 0's `shutdown()` up to its compare-and-swap, after
    key 1 is done): `[Some(100), None, None]` — no further lookup, no miss, no record: the numbers stay as they were -/
example : recRun (putRun ++ call 1 (.mget [1, 2, 1] false) 4 ++ [(.client 1, { pool := [0] })] ++ call 0 .shutdown 2 ++
    [(.client 1, noO), (.client 1, noO)]) = some [1, 0, 1, 0, 0, 0, 0] := by decide

/-- hypotheses of `C15_layerB_mget_hit_step` / `C15_layerB_mget_record_step` / `C15_layerB_mget_saturated_drops`
    (reachable, running): client 1 stands at the lookup of key 1 of a multi-key read, then at its `pool.add` with the
    chosen buffer full and the channel full; the action is enabled and the read goes on to key 2 (the iterator stands
    before the load of its next `next()`) -/
example :
    (match runB initRec (putRun ++ readRun 1 (.get 1) ++ readRun 0 (.getRef 1) ++ call 1 (.mget [1, 2] true) 3) with
     | .ok b =>
       (match b.cl[1]? with
        | some (CPc.mgetStore k ks acc iter) => decide (k = 1 ∧ ks = [2] ∧ acc = [] ∧ iter = true)
        | _ => false) &&
       (match stepB b (.client 1) noO with
        | .ok (b1, _) =>
          (match b1.cl[1]? with
           | some (CPc.mgetPool k v ks acc iter) => decide (k = 1 ∧ v = 100 ∧ ks = [2] ∧ acc = [] ∧ iter = true)
           | _ => false) &&
          decide (b1.g.stats.hits = b.g.stats.hits + 1 ∧ inFlightReads b1 = inFlightReads b + 1 ∧
                  b1.g.pool[0]? = some [1] ∧ ([1] : List Nat).length ≥ b1.g.cfg.bufSize ∧
                  b1.g.bufq.length ≥ b1.g.cfg.bufChanCap ∧ b1.g.shutting = false) &&
          (match stepB b1 (.client 1) { pool := [0] } with
           | .ok (b2, _) =>
             (match b2.cl[1]? with
              | some (CPc.mgetFlag outer ks acc iter) => decide (outer = true ∧ ks = [2] ∧ acc = [some 100] ∧ iter = true)
              | _ => false) &&
             decide (b2.g.stats.accessDropped = b1.g.stats.accessDropped + 1 ∧ b2.g.pool[0]? = some [1] ∧
                     inFlightReads b2 + 1 = inFlightReads b1)
           | _ => false) &&
          (match stepB b1 (.client 1) noO with | .error _ => true | _ => false)
        | _ => false)
     | _ => false) = true := by decide

/-- **At action granularity the Layer A identity is FALSE**: a reachable, running state with one read in flight at
    which `hits ≠ buffered + accessAdded + accessDropped` — while `RecInv` holds there (`C15_layerB_conservation`
    applies), the term `inFlightReads = 1` making up the difference. -/
theorem recB_layerA_identity_fails :
    ∃ b, Reach cfgRec 0 [1, 2, 3, 4] 2 b ∧ b.g.shutting = false ∧ inFlightReads b = 1 ∧
      b.cl[1]? = some (.getPool 1 100) ∧
      b.g.stats.hits ≠ buffered b.g + b.g.stats.accessAdded + b.g.stats.accessDropped ∧
      b.g.stats.hits = buffered b.g + b.g.stats.accessAdded + b.g.stats.accessDropped + inFlightReads b ∧
      RecInv b := by
  have hrun : ∃ b, runB initRec (putRun ++ lookupRun 1 (.get 1)) = .ok b ∧ b.g.shutting = false ∧
      inFlightReads b = 1 ∧ b.cl[1]? = some (.getPool 1 100) ∧
      b.g.stats.hits ≠ buffered b.g + b.g.stats.accessAdded + b.g.stats.accessDropped := by
    refine ⟨_, rfl, ?_⟩
    exact ⟨by decide, by decide, rfl, by decide⟩
  obtain ⟨b, hr, h1, h2, h3, h4⟩ := hrun
  have hreach : Reach cfgRec 0 [1, 2, 3, 4] 2 b := reach_runB _ (.init []) hr
  have hI := C15_layerB_conservation hreach h1
  exact ⟨b, hreach, h1, h2, h3, h4, hI.conserve, hI⟩

/-- the state before the lookup (hypotheses of `C15_layerB_hit_step`, first part of `C15_layerB_read_enabled`),
    hit and miss, `get` and `get_ref` -/
example :
    (match runB initRec (putRun ++ call 1 (.get 1) 1 ++ call 0 (.getRef 2) 1) with
     | .ok b =>
       decide (clTag b 1 = some (1, 1, 0) ∧ clTag b 0 = some (2, 2, 0)) &&
       (match stepB b (.client 1) noO with
        | .ok (b1, _) => decide (clTag b1 1 = some (3, 1, 100) ∧ b1.g.stats.hits = b.g.stats.hits + 1)
        | _ => false) &&
       (match stepB b (.client 0) noO with
        | .ok (b1, _) => decide (clTag b1 0 = some (0, 0, 0) ∧ b1.g.stats.misses = b.g.stats.misses + 1)
        | _ => false)
     | _ => false) = true := by decide

/-- hypotheses of `C15_layerB_saturated_drops` (a running, reachable state): client 1 stands at `pool.add`, the
    buffer the oracle picks is full, the channel is full and the consumer alive; the action is enabled, drops the
    buffer (`[1]`, length 1) and returns the value -/
example :
    (match runB initRec (putRun ++ readRun 1 (.get 1) ++ readRun 0 (.getRef 1) ++ lookupRun 1 (.get 1)) with
     | .ok b =>
       decide (clTag b 1 = some (3, 1, 100) ∧ b.g.pool[0]? = some [1] ∧
               ([1] : List Nat).length ≥ b.g.cfg.bufSize ∧ b.g.bufq.length ≥ b.g.cfg.bufChanCap ∧
               b.g.consumerAlive = true ∧ b.g.shutting = false) &&
       (match stepB b (.client 1) { pool := [0] } with
        | .ok (b1, _) =>
          decide (b1.g.stats.accessDropped = b.g.stats.accessDropped + 1 ∧ b1.g.pool[0]? = some [1] ∧
                  b1.g.bufq = b.g.bufq ∧ clTag b1 1 = some (0, 0, 0)) &&
          (match b1.res[1]? with
           | some (Out.value (some v) :: _) => decide (v = 100)
           | _ => false)
        | _ => false) &&
       -- an oracle whose index is out of range, or an empty one: not enabled (`C15_layerB_record_enabled_iff`)
       (match stepB b (.client 1) { pool := [1] } with | .error _ => true | _ => false) &&
       (match stepB b (.client 1) noO with | .error _ => true | _ => false)
     | _ => false) = true := by decide

/-- hypotheses of `C15_layerB_room_delivers`: the buffer full, the channel empty -/
example :
    (match runB initRec (putRun ++ readRun 1 (.get 1) ++ lookupRun 0 (.getRef 1)) with
     | .ok b =>
       decide (clTag b 0 = some (4, 1, 100) ∧ b.g.pool[0]? = some [1] ∧
               b.g.bufq.length < b.g.cfg.bufChanCap ∧ b.g.consumerAlive = true)
     | _ => false) = true := by decide

/-- the SECOND disjunct of the saturation hypothesis, a dead consumer: a `get_ref` is between lookup and `pool.add`
    when a `shutdown()` of the other client makes the consumer exit; the read still returns, the full buffer is
    dropped and counted -/
example :
    (match runB initRec (putRun ++ readRun 1 (.get 1) ++ lookupRun 1 (.getRef 1) ++ call 0 .shutdown 5 ++
        [(.consumer, noO)]) with
     | .ok b =>
       decide (clTag b 1 = some (4, 1, 100) ∧ b.g.pool[0]? = some [1] ∧ b.g.consumerAlive = false ∧
               b.g.bufq.length < b.g.cfg.bufChanCap ∧ b.g.shutting = true) &&
       (match stepB b (.client 1) { pool := [0] } with
        | .ok (b1, _) =>
          decide (b1.g.stats.accessDropped = b.g.stats.accessDropped + 1 ∧ b1.g.stats.accessAdded = b.g.stats.accessAdded ∧
                  b1.g.pool[0]? = some [1] ∧ clTag b1 1 = some (0, 0, 0))
        | _ => false)
     | _ => false) = true := by decide

/-- hypotheses of `C15_layerB_others_frame`: a worker action, a sweeper action, a consumer action, an issue and a
    non-read client action, all enabled at running states -/
example :
    (match runB initRec (putRun ++ readRun 1 (.get 1) ++ readRun 0 (.getRef 1) ++ call 0 (.delete 1) 3 ++ call 0 .weight 1) with
     | .ok b =>
       decide (b.g.shutting = false) &&
       (match stepB b .worker noO with | .ok _ => true | _ => false) &&
       (match stepB b (.sweeper none) noO with | .ok _ => true | _ => false) &&
       (match stepB b .consumer { dkAdd := [true] } with | .ok _ => true | _ => false) &&
       (match stepB b (.issue 1 (.putW 2 200 3 none)) noO with | .ok _ => true | _ => false) &&
       (match stepB b (.client 0) noO with | .ok _ => true | _ => false)
     | _ => false) = true := by decide

/-- the action is `shutdown.stats_clear`, as a Boolean -/
def isStatsClearB (b : BState) (a : Act) : Bool :=
  match a with
  | .client i => clTag b i == some (5, 0, 0)
  | _ => false

theorem recB_isStatsClearB {b : BState} {a : Act} (h : isStatsClearB b a = false) : ¬ IsStatsClear b a := by
  rintro ⟨i, rfl, hpc⟩
  simp [isStatsClearB, clTag, hpc, CPc.tag] at h

/-- runs a list of actions none of which is `shutdown.stats_clear` -/
def runUncleared : BState → List (Act × Oracle) → Option BState
  | b, [] => some b
  | b, (a, o) :: rest =>
    if isStatsClearB b a then none
    else match stepB b a o with
      | .ok (b', _) => runUncleared b' rest
      | .error _ => none

theorem reachUncleared_run {cfg : Cfg} {now : Nat} {seeds : List Nat} {clients : Nat} :
    ∀ (l : List (Act × Oracle)) {b b' : BState}, ReachUncleared cfg now seeds clients b → runUncleared b l = some b' →
      ReachUncleared cfg now seeds clients b' := by
  intro l
  induction l with
  | nil => intro b b' hr h; simp only [runUncleared, Option.some.injEq] at h; subst h; exact hr
  | cons x l ih =>
    intro b b' hr h
    obtain ⟨a, o⟩ := x
    simp only [runUncleared] at h
    split at h
    · cases h
    · rename_i hc
      split at h
      · rename_i b1 o1 hs
        exact ih (.step hr hs (recB_isStatsClearB (by simpa using hc))) h
      · cases h

/-- **Why the identity is claimed up to `shutdown.stats_clear` only**: one record is buffered, then `shutdown()` runs;
    before its `stats_clear` action (flag already set, consumer and sweeper told to stop, store cleared) the identity
    still holds; the action zeroes `hits` and leaves the record in its buffer. -/
theorem recB_void_after_stats_clear :
    ∃ b b', ReachUncleared cfgRec 0 [1, 2, 3, 4] 2 b ∧ b.g.shutting = true ∧ b.cl[0]? = some .shutStatsClear ∧
      RecInv b ∧ b.g.stats.hits = 1 ∧ buffered b.g = 1 ∧
      stepB b (.client 0) noO = .ok (b', noO) ∧ Reach cfgRec 0 [1, 2, 3, 4] 2 b' ∧
      b'.g.stats.hits = 0 ∧ buffered b'.g = 1 ∧
      b'.g.stats.hits ≠ buffered b'.g + b'.g.stats.accessAdded + b'.g.stats.accessDropped + inFlightReads b' := by
  have hrun : ∃ b b', runUncleared initRec (putRun ++ readRun 1 (.get 1) ++ call 0 .shutdown 10) = some b ∧
      stepB b (.client 0) noO = .ok (b', noO) ∧ b.cl[0]? = some .shutStatsClear ∧
      b.g.shutting = true ∧ b.g.stats.hits = 1 ∧ buffered b.g = 1 ∧ b'.g.stats.hits = 0 ∧ buffered b'.g = 1 ∧
      b'.g.stats.hits ≠ buffered b'.g + b'.g.stats.accessAdded + b'.g.stats.accessDropped + inFlightReads b' := by
    refine ⟨_, _, rfl, rfl, rfl, ?_⟩
    decide
  obtain ⟨b, b', hr, hs, hpc, h1, h2, h3, h4, h5, h6⟩ := hrun
  have hreach : ReachUncleared cfgRec 0 [1, 2, 3, 4] 2 b := reachUncleared_run _ (.init []) hr
  exact ⟨b, b', hreach, h1, hpc, C15_layerB_conservation_until_clear hreach, h2, h3, hs, .step hreach.reach hs,
    h4, h5, h6⟩

/-- runs a list of actions and carries the ghost of `ReachA` along -/
def runA : BState → Nat → List (Act × Oracle) → Option (BState × Nat)
  | b, n, [] => some (b, n)
  | b, n, (a, o) :: rest =>
    match stepB b a o with
    | .ok (b', _) => runA b' (n + appliedDelta a b.g b'.g) rest
    | .error _ => none

theorem reachA_run {cfg : Cfg} {now : Nat} {seeds : List Nat} {clients : Nat} :
    ∀ (l : List (Act × Oracle)) {b b' : BState} {n n' : Nat}, ReachA cfg now seeds clients b n →
      runA b n l = some (b', n') → ReachA cfg now seeds clients b' n' := by
  intro l
  induction l with
  | nil =>
    intro b b' n n' hr h
    simp only [runA, Option.some.injEq, Prod.mk.injEq] at h
    obtain ⟨rfl, rfl⟩ := h
    exact hr
  | cons x l ih =>
    intro b b' n n' hr h
    obtain ⟨a, o⟩ := x
    simp only [runA] at h
    split at h
    · rename_i b1 o1 hs
      exact ih (.step hr hs) h
    · cases h

/-- Non-vacuity of `C15_layerB_delivered`: a reachable running state with ghost 1 — two buffers were delivered,
    one is still queued, one was taken by the consumer. -/
theorem recB_delivered_example :
    ∃ b n, ReachA cfgRec 0 [1, 2, 3, 4] 2 b n ∧ b.g.shutting = false ∧ n = 1 ∧ queuedRecords b.g = 1 ∧
      b.g.stats.accessAdded = 2 ∧ b.g.stats.accessDropped = 1 := by
  have hrun : ∃ b n, runA initRec 0 (putRun ++ readRun 1 (.get 1) ++ readRun 0 (.getRef 1) ++ readRun 1 (.get 1) ++
      [(.consumer, { dkAdd := [true] })] ++ readRun 0 (.get 1)) = some (b, n) ∧ b.g.shutting = false ∧ n = 1 ∧
      queuedRecords b.g = 1 ∧ b.g.stats.accessAdded = 2 ∧ b.g.stats.accessDropped = 1 := by
    refine ⟨_, _, rfl, ?_⟩
    decide
  obtain ⟨b, n, hr, hrest⟩ := hrun
  exact ⟨b, n, reachA_run _ (.init []) hr, hrest⟩

end B
end Cached
