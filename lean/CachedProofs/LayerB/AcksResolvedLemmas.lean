/-
  Lemmas for `AcksResolved.lean`: what one client action does to the acknowledgement cells, WITH the status of a cell
  created on the spot (`CStep.spot` of Order.lean forgets it), and the invariant `ar_PInv`
  "a pending cell is the cell of a queued command or of the command the worker has in hand — while the worker lives".
-/
import CachedProofs.LayerB.Order
import CachedProofs.LayerB.Terminates
import CachedProofs.LayerB.Closed

namespace Cached
namespace B

/-! ## 1  one client action and the acknowledgement cells -/

/-- What one action of a client does to the cells: nothing; or ONE new cell that is resolved from the start (the
    on-the-spot answers `Rejected(KeyAlreadyExists)` of a put and `Accepted` of a `put_or_update` that owes no weight),
    the queue untouched; or ONE new PENDING cell together with the command that carries its handle, appended at the
    tail of the queue of a worker whose receiver is alive. -/
def ar_CA (b b' : BState) : Prop :=
  (b'.g.acks = b.g.acks ∧ qHandles b'.g.queue = qHandles b.g.queue) ∨
  (∃ st, st ≠ .pending ∧ b'.g.acks = b.g.acks ++ [st] ∧ b'.g.queue = b.g.queue) ∨
  (b.g.worker ≠ .dead ∧ b'.g.acks = b.g.acks ++ [.pending] ∧
    ∃ cmd, b'.g.queue = b.g.queue ++ [(cmd, some b.g.acks.length)])

theorem ar_ca_same {b b' : BState} (ha : b'.g.acks = b.g.acks) (hq : b'.g.queue = b.g.queue) : ar_CA b b' :=
  Or.inl ⟨ha, by rw [hq]⟩

theorem ar_ca_up {b : BState} (b0 : BState) (i id : Nat) (uw : Option Int) (ha : b0.g.acks = b.g.acks)
    (hq : b0.g.queue = b.g.queue) : ar_CA b (upAfterIndex b0 i id uw) := by
  rcases upAfterIndex_spec b0 i id uw with ⟨_, e⟩ | ⟨_, _, e⟩ | e <;> rw [e]
  · exact ar_ca_same ha hq
  · exact ar_ca_same ha hq
  · refine Or.inr (Or.inl ⟨.accepted, by simp, ?_, hq⟩)
    show b0.g.acks ++ [Status.accepted] = _
    rw [ha]

set_option hygiene false in
macro "ar_leaf" : tactic => `(tactic| first
  | (simp only [Except.ok.injEq, Prod.mk.injEq] at h; obtain ⟨rfl, -⟩ := h; first
      | exact ar_ca_same rfl rfl
      | exact ar_ca_same (by simp) (by simp)
      | exact ar_ca_up _ _ _ _ rfl rfl)
  | cases h)

/-- **One action of a client, seen from the cells** (`ar_CA`). -/
theorem ar_client {b b' : BState} {i : Nat} {o o' : Oracle} (h : clientAct b i o = .ok (b', o')) : ar_CA b b' := by
  unfold clientAct at h
  simp only [] at h
  split at h
  · cases h
  · rename_i pc hpc
    cases pc with
    | idle => cases h
    | start r =>
      cases r <;> simp only [] at h <;> split at h <;> (try split at h) <;> ar_leaf
    | putPresent k v w ttl =>
      simp only [] at h
      split at h
      · simp only [Except.ok.injEq, Prod.mk.injEq] at h; obtain ⟨rfl, -⟩ := h
        exact Or.inr (Or.inl ⟨_, by simp, rfl, rfl⟩)
      · ar_leaf
    | idNext k v w ttl => simp only [] at h; ar_leaf
    | send cmd =>
      simp only [] at h
      split at h
      · rename_i b1 hs
        simp only [Except.ok.injEq, Prod.mk.injEq] at h
        obtain ⟨rfl, -⟩ := h
        unfold sendAct at hs
        simp only [] at hs
        split at hs
        · simp only [Except.ok.injEq] at hs; subst hs
          exact ar_ca_same rfl rfl
        · rename_i hd
          split at hs
          · cases hs
          · simp only [Except.ok.injEq] at hs; subst hs
            exact Or.inr (Or.inr ⟨hd, rfl, cmd, rfl⟩)
      · cases h
    | delMark k => simp only [] at h; split at h <;> ar_leaf
    | getStore k =>
      simp only [] at h
      split at h
      · split at h <;> ar_leaf
      · ar_leaf
    | getPool k v =>
      simp only [] at h
      split at h
      · rename_i g1 o1 hp
        simp only [Except.ok.injEq, Prod.mk.injEq] at h; obtain ⟨rfl, -⟩ := h
        have hf := poolAdd_frame hp
        exact ar_ca_same (by show g1.acks = _; rw [hf]) (by show g1.queue = _; rw [hf])
      · cases h
    | weightRead => simp only [] at h; split at h <;> ar_leaf
    | upUpdate k v w ttl rm =>
      simp only [] at h
      split at h
      · cases h
      · split at h
        · split at h
          · split at h <;> ar_leaf
          · ar_leaf
        · split at h <;> ar_leaf
    | upWeightOf id uw old new =>
      simp only [] at h
      split at h <;> ar_leaf
    | upTtlPut id e uw => simp only [] at h; split at h <;> ar_leaf
    | upTtlDelete id e uw => simp only [] at h; split at h <;> ar_leaf
    | upTtlRemove id old new uw => simp only [] at h; split at h <;> ar_leaf
    | upTtlInsert id new uw => simp only [] at h; split at h <;> ar_leaf
    | refStore k =>
      simp only [] at h
      split at h
      · split at h <;> ar_leaf
      · ar_leaf
    | refPool k v =>
      simp only [] at h
      split at h
      · rename_i g1 o1 hp
        simp only [Except.ok.injEq, Prod.mk.injEq] at h; obtain ⟨rfl, -⟩ := h
        have hf := poolAdd_frame hp
        exact ar_ca_same (by show g1.acks = _; rw [hf]) (by show g1.queue = _; rw [hf])
      · cases h
    | shutCas => simp only [] at h; split at h <;> ar_leaf
    | shutSendCmd =>
      simp only [] at h
      split at h
      · ar_leaf
      · split at h
        · cases h
        · simp only [Except.ok.injEq, Prod.mk.injEq] at h; obtain ⟨rfl, -⟩ := h
          refine Or.inl ⟨rfl, ?_⟩
          show qHandles (b.g.queue ++ [(Cmd.shutdown, none)]) = _
          rw [qHandles_append_one]; simp
    | shutSendBuf =>
      simp only [] at h
      split at h
      · ar_leaf
      · split at h <;> ar_leaf
    | shutConsumerFlag => simp only [] at h; ar_leaf
    | shutTickerFlag => simp only [] at h; ar_leaf
    | shutStoreClear => simp only [] at h; split at h <;> ar_leaf
    | shutKwClear => simp only [] at h; ar_leaf
    | shutWuZero => simp only [] at h; split at h <;> ar_leaf
    | shutAfClear => simp only [] at h; ar_leaf
    | shutStatsClear => simp only [] at h; ar_leaf
    | shutTtlClear => simp only [] at h; split at h <;> ar_leaf
    | mgetStore k ks acc iter =>
      simp only [] at h
      split at h
      · split at h <;> ar_leaf
      · ar_leaf
    | mgetPool k v ks acc iter =>
      simp only [] at h
      split at h
      · rename_i g1 o1 hp
        simp only [Except.ok.injEq, Prod.mk.injEq] at h; obtain ⟨rfl, -⟩ := h
        have hf := poolAdd_frame hp
        exact ar_ca_same (by simp only [mgetNext_g]; show g1.acks = _; rw [hf])
          (by simp only [mgetNext_g]; show g1.queue = _; rw [hf])
      · cases h
    | mgetFlag outer ks acc iter => simp only [] at h; ar_leaf

/-! ## 2  the invariant: while the worker lives, a pending cell belongs to a queued command or to the one in hand -/

/-- **`ar_PInv`** (the converse of `HInv.queued` / `HInv.held`): while the worker's thread is alive, every cell that is
    still pending is named by the handle of a command waiting in the queue, or by the handle of the command the worker
    has in hand (a position between `recv` and the `finishCmd` of that command). -/
def ar_PInv (b : BState) : Prop :=
  b.w ≠ .dead → ∀ h, b.g.acks[h]? = some .pending → h ∈ qHandles b.g.queue ∨ b.w.held = some h

theorem ar_pinv_init (cfg : Cfg) (now : Nat) (seeds : List Nat) (clients : Nat) (sm : List (Nat × Nat)) :
    ar_PInv { BState.init cfg now seeds clients with storeShard := sm } := by
  intro _ h hp
  simp [BState.init, State.init] at hp

/-- a cell just written with a resolved status is not pending -/
theorem ar_setAck_not_pending {acks : List Status} {hh : Option Nat} {st : Status} {h : Nat} (hst : st ≠ .pending)
    (hp : (setAck acks hh st)[h]? = some .pending) : hh ≠ some h ∧ acks[h]? = some .pending := by
  have hne : hh ≠ some h := by
    intro e
    subst e
    have hlt : h < acks.length := by
      have := lt_of_getElem?_some hp
      rwa [setAck_length] at this
    rw [setAck_get_self _ _ hlt] at hp
    simp only [Option.some.injEq] at hp
    exact hst hp
  exact ⟨hne, by rw [← setAck_get_ne acks st hne]; exact hp⟩

theorem ar_pinv_wstep {b b' : BState} (hp : ar_PInv b) (h : WStep b b') : ar_PInv b' := by
  intro hd' x hx
  cases h with
  | take cmd hh q hq hq' hw hb hheld ha hns =>
    rw [ha] at hx
    rcases hp (by rw [hw]; simp) x hx with hm | hm
    · rw [hq, qHandles_cons] at hm
      simp only [List.mem_append] at hm
      rcases hm with hm | hm
      · right
        rw [hheld]
        cases hh with
        | none => simp at hm
        | some y => simp at hm; rw [hm]
      · left; rw [hq']; exact hm
    · rw [hw] at hm; cases hm
  | takeShutdown hh q hq hq' hw hw' ha =>
    rw [ha] at hx
    obtain ⟨hne, hx0⟩ := ar_setAck_not_pending (by simp) hx
    rcases hp (by rw [hw]; simp) x hx0 with hm | hm
    · rw [hq, qHandles_cons] at hm
      simp only [List.mem_append] at hm
      rcases hm with hm | hm
      · exfalso
        cases hh with
        | none => simp at hm
        | some y => simp at hm; exact hne (by rw [hm])
      · left; rw [hq']; exact hm
    · rw [hw] at hm; cases hm
  | takeDrain cmd hh q hq hq' hw hw' ha =>
    rw [ha] at hx
    obtain ⟨hne, hx0⟩ := ar_setAck_not_pending (by simp) hx
    rcases hp (by rw [hw]; simp) x hx0 with hm | hm
    · rw [hq, qHandles_cons] at hm
      simp only [List.mem_append] at hm
      rcases hm with hm | hm
      · exfalso
        cases hh with
        | none => simp at hm
        | some y => simp at hm; exact hne (by rw [hm])
      · left; rw [hq']; exact hm
    · rw [hw] at hm; cases hm
  | cont hb hb' hheld hq ha =>
    rw [ha] at hx
    rw [hq, hheld]
    exact hp (by intro e; rw [e] at hb; cases hb) x hx
  | complete st hb hw' hq hst ha =>
    rw [ha] at hx
    obtain ⟨hne, hx0⟩ := ar_setAck_not_pending hst hx
    rcases hp (by intro e; rw [e] at hb; cases hb) x hx0 with hm | hm
    · left; rw [hq]; exact hm
    · exact absurd hm hne
  | die hb hw' hq ha => exact absurd hw' hd'

theorem ar_pinv_ca {b b' : BState} (hp : ar_PInv b) (hw : b'.w = b.w) (h : ar_CA b b') : ar_PInv b' := by
  intro hd' x hx
  rw [hw] at hd' ⊢
  rcases h with ⟨ha, hq⟩ | ⟨st, hst, ha, hq⟩ | ⟨_, ha, cmd, hq⟩
  · rw [ha] at hx; rw [hq]; exact hp hd' x hx
  · rw [ha] at hx
    rw [hq]
    rcases Nat.lt_or_ge x b.g.acks.length with hlt | hge
    · rw [List.getElem?_append_left hlt] at hx
      exact hp hd' x hx
    · exfalso
      rw [List.getElem?_append_right hge] at hx
      rcases Nat.eq_zero_or_pos (x - b.g.acks.length) with h0 | h0
      · rw [h0] at hx; simp at hx; exact hst hx
      · rw [List.getElem?_eq_none (by simp; omega)] at hx; cases hx
  · rw [ha] at hx
    rw [hq, qHandles_append_one]
    rcases Nat.lt_or_ge x b.g.acks.length with hlt | hge
    · rw [List.getElem?_append_left hlt] at hx
      rcases hp hd' x hx with hm | hm
      · left; simp [hm]
      · right; exact hm
    · left
      have : x < (b.g.acks ++ [Status.pending]).length := lt_of_getElem?_some hx
      simp at this
      have : x = b.g.acks.length := by omega
      simp [this]

theorem ar_pinv_step {b b' : BState} {a : Act} {o o' : Oracle} (hp : ar_PInv b)
    (h : stepB b a o = .ok (b', o')) : ar_PInv b' := by
  cases stepB_bstep h with
  | worker _ hw => exact ar_pinv_wstep hp hw
  | client i ha hw _ _ =>
    subst ha
    exact ar_pinv_ca hp hw (ar_client h)
  | other _ hw hq ha => exact ar_pinv_ca hp hw (ar_ca_same ha hq)

theorem ar_pinv_reach {cfg : Cfg} {now : Nat} {seeds : List Nat} {clients : Nat} {b : BState}
    (h : Reach cfg now seeds clients b) : ar_PInv b := by
  induction h with
  | init sm => exact ar_pinv_init cfg now seeds clients sm
  | step _ hs ih => exact ar_pinv_step ih hs

/-! ## 3  the dead worker: the pending cells are frozen -/

/-- once the worker is dead, no cell becomes pending and no pending cell is ever answered -/
theorem ar_dead_frozen {b b' : BState} {a : Act} {o o' : Oracle} (hdw : DeadW b) (hd : b.w = .dead)
    (h : stepB b a o = .ok (b', o')) (x : Nat) :
    b'.g.acks[x]? = some .pending ↔ b.g.acks[x]? = some .pending := by
  cases stepB_bstep h with
  | worker ha _ =>
    subst ha
    simp [stepB, workerAct, hd] at h
  | client i ha hw _ _ =>
    subst ha
    rcases ar_client h with ⟨ha, _⟩ | ⟨st, hst, ha, _⟩ | ⟨hnd, _⟩
    · rw [ha]
    · rw [ha]
      rcases Nat.lt_or_ge x b.g.acks.length with hlt | hge
      · rw [List.getElem?_append_left hlt]
      · rw [List.getElem?_append_right hge, List.getElem?_eq_none hge]
        constructor
        · intro hx
          exfalso
          rcases Nat.eq_zero_or_pos (x - b.g.acks.length) with h0 | h0
          · rw [h0] at hx; simp at hx; exact hst hx
          · rw [List.getElem?_eq_none (by simp; omega)] at hx; cases hx
        · intro hx; cases hx
    · exact absurd (hdw.mpr hd) hnd
  | other _ _ _ ha => rw [ha]

/-- the action in which the worker dies: it answers nothing, and what is pending afterwards is exactly what was queued
    or in hand -/
theorem ar_death {b b' : BState} {a : Act} {o o' : Oracle} (hi : HInv b) (hp : ar_PInv b) (hd : b.w ≠ .dead)
    (hd' : b'.w = .dead) (h : stepB b a o = .ok (b', o')) :
    a = .worker ∧ b.w.busy = true ∧ b'.g.queue = [] ∧ b'.g.acks = b.g.acks ∧
    ∀ x, b'.g.acks[x]? = some .pending ↔ (x ∈ qHandles b.g.queue ∨ b.w.held = some x) := by
  cases stepB_bstep h with
  | worker ha hw =>
    cases hw with
    | take _ _ _ _ _ _ hb => rw [hd'] at hb; cases hb
    | takeShutdown _ _ _ _ _ hw' => rw [hd'] at hw'; cases hw'
    | takeDrain _ _ _ _ _ _ hw' => rw [hd'] at hw'; cases hw'
    | cont _ hb => rw [hd'] at hb; cases hb
    | complete _ _ hw' => rw [hd'] at hw'; cases hw'
    | die hb _ hq' hacks =>
      refine ⟨ha, hb, hq', hacks, fun x => ?_⟩
      rw [hacks]
      constructor
      · exact hp hd x
      · rintro (hm | hm)
        · exact hi.queued x hm
        · exact (hi.held x hm).1
  | client i _ hw _ _ => exact absurd (by rw [← hw]; exact hd') hd
  | other _ hw _ _ => exact absurd (by rw [← hw]; exact hd') hd

/-- the worker never leaves `worker.drain` (and cannot die there) -/
theorem ar_drain_step {b b' : BState} {a : Act} {o o' : Oracle} (hw : b.w = .drain)
    (h : stepB b a o = .ok (b', o')) : b'.w = .drain := by
  cases stepB_bstep h with
  | worker _ hs =>
    cases hs with
    | take _ _ _ _ _ hw0 => rw [hw] at hw0; cases hw0
    | takeShutdown _ _ _ _ hw0 => rw [hw] at hw0; cases hw0
    | takeDrain _ _ _ _ _ _ hw' => exact hw'
    | cont hb => rw [hw] at hb; cases hb
    | complete _ hb => rw [hw] at hb; cases hb
    | die hb => rw [hw] at hb; cases hb
  | client i _ hw' _ _ => rw [hw', hw]
  | other _ hw' _ _ => rw [hw', hw]

/-- what a cell can hold after an action taken while the worker drains: what it held (resolved), `ShuttingDown`, or
    the cell is new / still pending -/
def ar_DrainCell (b b' : BState) : Prop :=
  ∀ x st, b'.g.acks[x]? = some st → st ≠ .pending →
    b.g.acks[x]? = some st ∨ (b.g.acks[x]? = some .pending ∧ st = .shuttingDown) ∨ b.g.acks.length ≤ x

theorem ar_drain_cell {b b' : BState} {a : Act} {o o' : Oracle} (hi : HInv b) (hw : b.w = .drain)
    (h : stepB b a o = .ok (b', o')) : ar_DrainCell b b' := by
  intro x st hx hne
  have hsame : ∀ acks', acks' = b.g.acks → acks'[x]? = some st → b.g.acks[x]? = some st := by
    intro acks' e hx'; rw [← e]; exact hx'
  cases stepB_bstep h with
  | worker _ hs =>
    cases hs with
    | take _ _ _ _ _ hw0 => rw [hw] at hw0; cases hw0
    | takeShutdown _ _ _ _ hw0 => rw [hw] at hw0; cases hw0
    | takeDrain cmd hh q hq _ _ _ ha =>
      rw [ha] at hx
      by_cases e : hh = some x
      · subst e
        have hlt : x < b.g.acks.length := by
          have := lt_of_getElem?_some hx
          rwa [setAck_length] at this
        rw [setAck_get_self _ _ hlt] at hx
        simp only [Option.some.injEq] at hx
        subst hx
        exact Or.inr (Or.inl ⟨hi.queued x (by rw [hq, qHandles_cons]; simp), rfl⟩)
      · rw [setAck_get_ne _ _ e] at hx
        exact Or.inl hx
    | cont hb => rw [hw] at hb; cases hb
    | complete _ hb => rw [hw] at hb; cases hb
    | die hb => rw [hw] at hb; cases hb
  | client i ha _ _ _ =>
    subst ha
    rcases ar_client h with ⟨ha, _⟩ | ⟨st', _, ha, _⟩ | ⟨_, ha, _⟩
    · exact Or.inl (hsame _ ha hx)
    · rw [ha] at hx
      rcases Nat.lt_or_ge x b.g.acks.length with hlt | hge
      · rw [List.getElem?_append_left hlt] at hx; exact Or.inl hx
      · exact Or.inr (Or.inr hge)
    · rw [ha] at hx
      rcases Nat.lt_or_ge x b.g.acks.length with hlt | hge
      · rw [List.getElem?_append_left hlt] at hx; exact Or.inl hx
      · exact Or.inr (Or.inr hge)
  | other _ _ _ ha => exact Or.inl (hsame _ ha hx)

/-! ## 4  after the shutdown flag is set: the `Shutdown` command is on its way, queued, or taken -/

/-- **`ar_ShutInv`**: once the shutdown flag is set, the one caller that won the `compare_exchange` still stands
    before its `cmd.send` of `Shutdown`, or the `Shutdown` command waits in the queue, or the worker has taken it
    (`worker.drain`), or the worker is dead. -/
def ar_ShutInv (b : BState) : Prop :=
  b.g.shutting = true →
    (∃ i : Nat, b.cl[i]? = some CPc.shutSendCmd) ∨ (∃ hh, (Cmd.shutdown, hh) ∈ b.g.queue) ∨ b.w = .drain ∨ b.w = .dead

/-- a client action leaves the flag alone, or is the winning `shutdown.cas` -/
theorem ar_ctrans_shut {b b' : BState} {i : Nat} (h : CTrans b i b') :
    b'.g.shutting = b.g.shutting ∨ (b.cl[i]? = some .shutCas ∧ b'.cl = b.cl.set i .shutSendCmd) := by
  cases h
  case shutCas hpc _ => exact Or.inr ⟨hpc, rfl⟩
  case getPool hp => left; rw [poolAdd_frame hp]; rfl
  case refPool hp => left; rw [poolAdd_frame hp]; rfl
  case shutLocal hg => left; rw [hg]; rfl
  case mgetStep hg => left; rw [hg]; rfl
  case mgetFin hg => left; rw [hg]; rfl
  case upAfterSame => left; rcases upAfterIndex_spec b i _ _ with ⟨_, h⟩ | ⟨_, _, h⟩ | h <;> rw [h] <;> rfl
  case upAfterPut id e uw _ _ _ =>
    left
    rcases upAfterIndex_spec { b with g := ttlPut b.g id e } i id uw with ⟨_, h⟩ | ⟨_, _, h⟩ | h <;> rw [h] <;> rfl
  case upAfterDelete id e uw _ _ =>
    left
    rcases upAfterIndex_spec { b with g := ttlDelete b.g id e } i id uw with ⟨_, h⟩ | ⟨_, _, h⟩ | h <;> rw [h] <;> rfl
  all_goals exact Or.inl rfl

/-- the `cmd.send` of `Shutdown`: the worker is dead, or the command is appended -/
theorem ar_shutSendCmd_step {b b' : BState} {i : Nat} {o o' : Oracle} (hpc : b.cl[i]? = some .shutSendCmd)
    (h : clientAct b i o = .ok (b', o')) :
    b.g.worker = .dead ∨ b'.g.queue = b.g.queue ++ [(.shutdown, none)] := by
  simp only [clientAct, hpc] at h
  split at h
  · rename_i hd; exact Or.inl hd
  · split at h
    · cases h
    · simp only [Except.ok.injEq, Prod.mk.injEq] at h; obtain ⟨rfl, -⟩ := h
      exact Or.inr rfl

/-- only a client (at `shutdown.cas`) sets the flag -/
theorem ar_shutting_same {b b' : BState} {a : Act} {o o' : Oracle} (h : stepB b a o = .ok (b', o'))
    (ha : ∀ i, a ≠ .client i) : b'.g.shutting = b.g.shutting := by
  cases a with
  | issue i r =>
    simp only [stepB] at h
    split at h
    · rename_i b1 hi
      simp only [Except.ok.injEq, Prod.mk.injEq] at h; obtain ⟨rfl, rfl⟩ := h
      rw [(issue_spec hi).2]; rfl
    · cases h
  | client i => exact absurd rfl (ha i)
  | worker => exact wtrans_shutting (workerAct_trans h)
  | sweeper v =>
    simp only [stepB] at h
    split at h
    · rename_i b1 hs'
      simp only [Except.ok.injEq, Prod.mk.injEq] at h; obtain ⟨rfl, rfl⟩ := h
      exact (strans_frame2 (sweeperAct_trans hs')).1
    · cases h
  | consumer =>
    simp only [stepB] at h
    split at h
    · rename_i g' out o1 hc
      simp only [Except.ok.injEq, Prod.mk.injEq] at h; obtain ⟨rfl, rfl⟩ := h
      show g'.shutting = b.g.shutting
      rw [consumerStep_frame hc]
    · cases h
  | advance d =>
    simp only [stepB, Except.ok.injEq, Prod.mk.injEq] at h; obtain ⟨rfl, rfl⟩ := h
    rfl

theorem ar_shutinv_step {b b' : BState} {a : Act} {o o' : Oracle} (hdw : DeadW b) (hp : ar_ShutInv b)
    (h : stepB b a o = .ok (b', o')) : ar_ShutInv b' := by
  intro hs'
  by_cases hcl : ∃ i, a = .client i
  · obtain ⟨i, rfl⟩ := hcl
    have ht := clientAct_trans h
    have hw := (ctrans_frame ht).1
    have hkeep : ∀ j, j ≠ i → b'.cl[j]? = b.cl[j]? := fun j hj =>
      other_threads_keep_pc h (by intro e; cases e; exact hj rfl) (fun r e => by cases e)
    have hmem : ∀ hh, (Cmd.shutdown, hh) ∈ b.g.queue → (Cmd.shutdown, hh) ∈ b'.g.queue := by
      intro hh hm
      cases C11_layerB_queue_step h with
      | same hq => rw [hq]; exact hm
      | send c _ hq _ _ => rw [hq]; exact List.mem_append_left _ hm
      | take _ _ ha' => cases ha'
      | drop _ ha' => cases ha'
    rcases ar_ctrans_shut ht with hsame | ⟨hpc, hset⟩
    · rw [hsame] at hs'
      rcases hp hs' with ⟨j, hj⟩ | ⟨hh, hm⟩ | hd | hd
      · by_cases e : j = i
        · subst e
          rcases ar_shutSendCmd_step hj h with hdead | hq
          · right; right; right; rw [hw]; exact hdw.mp hdead
          · right; left; exact ⟨none, by rw [hq]; simp⟩
        · left; exact ⟨j, by rw [hkeep j e]; exact hj⟩
      · right; left; exact ⟨hh, hmem hh hm⟩
      · right; right; left; rw [hw]; exact hd
      · right; right; right; rw [hw]; exact hd
    · left
      refine ⟨i, ?_⟩
      rw [hset]
      exact List.getElem?_set_self (lt_of_getElem? hpc)
  · have hne : ∀ i, a ≠ .client i := fun i e => hcl ⟨i, e⟩
    rw [ar_shutting_same h hne] at hs'
    have hkeep : ∀ (j : Nat) (pc : CPc), pc ≠ .idle → b.cl[j]? = some pc → b'.cl[j]? = some pc := by
      intro j pc hpc hj
      by_cases hiss : ∃ r, a = .issue j r
      · obtain ⟨r, rfl⟩ := hiss
        exfalso
        simp only [stepB] at h
        split at h
        · rename_i b1 hi
          rw [(issue_spec hi).1] at hj
          simp only [Option.some.injEq] at hj
          exact hpc hj.symm
        · cases h
      · rw [other_threads_keep_pc h (hne j) (fun r e => hiss ⟨r, e⟩)]; exact hj
    cases stepB_bstep h with
    | worker _ hws =>
      cases hws with
      | take cmd hh q hq hq' hw hb hheld ha hns =>
        rcases hp hs' with ⟨j, hj⟩ | ⟨x, hm⟩ | hd | hd
        · exact Or.inl ⟨j, hkeep j _ (by simp) hj⟩
        · right; left
          rw [hq] at hm
          simp only [List.mem_cons, Prod.mk.injEq] at hm
          rcases hm with ⟨e, _⟩ | hm
          · exact absurd e.symm hns
          · exact ⟨x, by rw [hq']; exact hm⟩
        · rw [hw] at hd; cases hd
        · rw [hw] at hd; cases hd
      | takeShutdown _ _ _ _ _ hw' _ => exact Or.inr (Or.inr (Or.inl hw'))
      | takeDrain _ _ _ _ _ _ hw' _ => exact Or.inr (Or.inr (Or.inl hw'))
      | cont hb _ _ hq _ =>
        rcases hp hs' with ⟨j, hj⟩ | ⟨x, hm⟩ | hd | hd
        · exact Or.inl ⟨j, hkeep j _ (by simp) hj⟩
        · exact Or.inr (Or.inl ⟨x, by rw [hq]; exact hm⟩)
        · rw [hd] at hb; cases hb
        · rw [hd] at hb; cases hb
      | complete _ hb _ hq _ _ =>
        rcases hp hs' with ⟨j, hj⟩ | ⟨x, hm⟩ | hd | hd
        · exact Or.inl ⟨j, hkeep j _ (by simp) hj⟩
        · exact Or.inr (Or.inl ⟨x, by rw [hq]; exact hm⟩)
        · rw [hd] at hb; cases hb
        · rw [hd] at hb; cases hb
      | die _ hw' _ _ => exact Or.inr (Or.inr (Or.inr hw'))
    | client i ha => exact absurd ha (hne i)
    | other _ hw hq _ =>
      rcases hp hs' with ⟨j, hj⟩ | ⟨x, hm⟩ | hd | hd
      · exact Or.inl ⟨j, hkeep j _ (by simp) hj⟩
      · exact Or.inr (Or.inl ⟨x, by rw [hq]; exact hm⟩)
      · exact Or.inr (Or.inr (Or.inl (by rw [hw]; exact hd)))
      · exact Or.inr (Or.inr (Or.inr (by rw [hw]; exact hd)))

theorem ar_shutinv_reach {cfg : Cfg} {now : Nat} {seeds : List Nat} {clients : Nat} {b : BState}
    (h : Reach cfg now seeds clients b) : ar_ShutInv b := by
  induction h with
  | init sm => intro hs; simp [BState.init, State.init] at hs
  | step hr hs ih => exact ar_shutinv_step (deadW_reach hr) ih hs

/-! ## 5  a client action never shortens the hand-over queue; every own action lowers `tm_own` -/

theorem ar_poolAdd_bufq {g g1 : State} {h : Nat} {o o' : Oracle} (hp : poolAdd g h o = .ok (g1, o')) :
    g.bufq.length ≤ g1.bufq.length := by
  unfold poolAdd at hp
  split at hp
  · cases hp
  · split at hp
    · cases hp
    · simp only [] at hp
      split at hp
      · simp only [Except.ok.injEq, Prod.mk.injEq] at hp
        obtain ⟨rfl, _⟩ := hp
        unfold acceptBuffer
        split <;> simp
      · simp only [Except.ok.injEq, Prod.mk.injEq] at hp
        obtain ⟨rfl, _⟩ := hp
        exact Nat.le_refl _

theorem ar_up_bufq (b0 : BState) (i id : Nat) (uw : Option Int) : (upAfterIndex b0 i id uw).g.bufq = b0.g.bufq := by
  rcases upAfterIndex_spec b0 i id uw with ⟨_, e⟩ | ⟨_, _, e⟩ | e <;> rw [e] <;> rfl

set_option hygiene false in
macro "ar_bleaf" : tactic => `(tactic| first
  | (simp only [Except.ok.injEq, Prod.mk.injEq] at h; obtain ⟨rfl, -⟩ := h; first
      | exact Nat.le_refl _
      | (simp only [mgetNext_g, mgetStart_g, mgetFlagAct_g, ar_up_bufq]; first | exact Nat.le_refl _ | simp))
  | cases h)

/-- no action of a client takes an event out of the hand-over queue -/
theorem ar_client_bufq {b b' : BState} {i : Nat} {o o' : Oracle} (h : clientAct b i o = .ok (b', o')) :
    b.g.bufq.length ≤ b'.g.bufq.length := by
  unfold clientAct at h
  simp only [] at h
  split at h
  · cases h
  · rename_i pc hpc
    cases pc with
    | idle => cases h
    | start r =>
      cases r <;> simp only [] at h <;> split at h <;> (try split at h) <;> ar_bleaf
    | putPresent k v w ttl => simp only [] at h; split at h <;> ar_bleaf
    | idNext k v w ttl => simp only [] at h; ar_bleaf
    | send cmd =>
      simp only [] at h
      split at h
      · rename_i b1 hs
        simp only [Except.ok.injEq, Prod.mk.injEq] at h
        obtain ⟨rfl, -⟩ := h
        unfold sendAct at hs
        simp only [] at hs
        split at hs
        · simp only [Except.ok.injEq] at hs; subst hs
          exact Nat.le_refl _
        · split at hs
          · cases hs
          · simp only [Except.ok.injEq] at hs; subst hs
            exact Nat.le_refl _
      · cases h
    | delMark k => simp only [] at h; split at h <;> ar_bleaf
    | getStore k =>
      simp only [] at h
      split at h
      · split at h <;> ar_bleaf
      · ar_bleaf
    | getPool k v =>
      simp only [] at h
      split at h
      · rename_i g1 o1 hp
        simp only [Except.ok.injEq, Prod.mk.injEq] at h; obtain ⟨rfl, -⟩ := h
        exact ar_poolAdd_bufq hp
      · cases h
    | weightRead => simp only [] at h; split at h <;> ar_bleaf
    | upUpdate k v w ttl rm =>
      simp only [] at h
      split at h
      · cases h
      · split at h
        · split at h
          · split at h <;> ar_bleaf
          · ar_bleaf
        · split at h <;> ar_bleaf
    | upWeightOf id uw old new =>
      simp only [] at h
      split at h <;> ar_bleaf
    | upTtlPut id e uw => simp only [] at h; split at h <;> ar_bleaf
    | upTtlDelete id e uw => simp only [] at h; split at h <;> ar_bleaf
    | upTtlRemove id old new uw => simp only [] at h; split at h <;> ar_bleaf
    | upTtlInsert id new uw => simp only [] at h; split at h <;> ar_bleaf
    | refStore k =>
      simp only [] at h
      split at h
      · split at h <;> ar_bleaf
      · ar_bleaf
    | refPool k v =>
      simp only [] at h
      split at h
      · rename_i g1 o1 hp
        simp only [Except.ok.injEq, Prod.mk.injEq] at h; obtain ⟨rfl, -⟩ := h
        exact ar_poolAdd_bufq hp
      · cases h
    | shutCas => simp only [] at h; split at h <;> ar_bleaf
    | shutSendCmd =>
      simp only [] at h
      split at h
      · ar_bleaf
      · split at h <;> ar_bleaf
    | shutSendBuf =>
      simp only [] at h
      split at h
      · ar_bleaf
      · split at h
        · cases h
        · simp only [Except.ok.injEq, Prod.mk.injEq] at h; obtain ⟨rfl, -⟩ := h
          show b.g.bufq.length ≤ (b.g.bufq ++ [BufEvent.shutdown]).length
          simp
    | shutConsumerFlag => simp only [] at h; ar_bleaf
    | shutTickerFlag => simp only [] at h; ar_bleaf
    | shutStoreClear => simp only [] at h; split at h <;> ar_bleaf
    | shutKwClear => simp only [] at h; ar_bleaf
    | shutWuZero => simp only [] at h; split at h <;> ar_bleaf
    | shutAfClear => simp only [] at h; ar_bleaf
    | shutStatsClear => simp only [] at h; ar_bleaf
    | shutTtlClear => simp only [] at h; split at h <;> ar_bleaf
    | mgetStore k ks acc iter =>
      simp only [] at h
      split at h
      · split at h <;> ar_bleaf
      · ar_bleaf
    | mgetPool k v ks acc iter =>
      simp only [] at h
      split at h
      · rename_i g1 o1 hp
        simp only [Except.ok.injEq, Prod.mk.injEq] at h; obtain ⟨rfl, -⟩ := h
        simp only [mgetNext_g]
        exact ar_poolAdd_bufq hp
      · cases h
    | mgetFlag outer ks acc iter => simp only [] at h; ar_bleaf

theorem ar_own_zero {pc : CPc} (h : tm_own pc = 0) : pc = .idle := by
  cases pc with
  | idle => rfl
  | start r => cases r <;> simp [tm_own] at h
  | mgetFlag outer ks acc iter => cases outer <;> simp [tm_own] at h
  | _ => simp [tm_own] at h

/-- **every own action of a client lowers `tm_own` strictly** (whatever request it is executing) -/
theorem ar_own_step {b b' : BState} {i : Nat} {pc : CPc} {o o' : Oracle} (hpc : b.cl[i]? = some pc)
    (_hm : tm_own pc ≠ 0) (h : clientAct b i o = .ok (b', o')) :
    ∃ pc', b'.cl[i]? = some pc' ∧ tm_own pc' < tm_own pc ∧ (tm_own pc' = 0 → pc' = .idle) := by
  obtain ⟨pc0, hpc0, pc', hcl, _, _, _, _, hb⟩ := tm_client_step h
  rw [hpc] at hpc0
  simp only [Option.some.injEq] at hpc0
  subst hpc0
  have hmono := ar_client_bufq h
  refine ⟨pc', ?_, by omega, ar_own_zero⟩
  rw [hcl]
  exact List.getElem?_set_self (lt_of_getElem? hpc)

/-! ## 6  sums over `List.set` -/

theorem ar_sum_set (f : CPc → Nat) : ∀ (l : List CPc) (i : Nat) (x : CPc) (hi : i < l.length),
    ((l.set i x).map f).sum + f l[i] = (l.map f).sum + f x := by
  intro l
  induction l with
  | nil => intro i x hi; simp at hi
  | cons y l ih =>
    intro i x hi
    cases i with
    | zero => simp; omega
    | succ j =>
      have := ih j x (by simpa using hi)
      simp only [List.set_cons_succ, List.map_cons, List.sum_cons, List.getElem_cons_succ]
      omega

theorem ar_sum_cmds_le : ∀ (l : List CPc), (l.map tm_cmds).sum ≤ l.length := by
  intro l
  induction l with
  | nil => simp
  | cons y l ih =>
    have : tm_cmds y ≤ 1 := by cases y <;> simp [tm_cmds]
    simp only [List.map_cons, List.sum_cons, List.length_cons]
    omega

end B
end Cached
