/-
  Helper definitions and run invariants for `CachedProofs/LayerB/Retained.lean` (C03 at ACTION granularity, from the
  ENGLISH premises: "the demand fits", "operations on the key one after another", "the time-to-live has not elapsed").

    1  `CAct`: one action of a client, as a relation that keeps the WEIGHTS, the RESULT of the call and the exact
       successor position (`CTrans` of Inv.lean forgets them)
    2  sums (`lsum`, `sumTo`)
    3  `NoShut`: no `shutdown()` was ever requested
    4  `Bud`: the budget invariant behind `C03_layerB_no_eviction_when_demand_fits`
    5  `Hd`: acknowledgement handles in flight are distinct;  `SoftInv`: a deletion mark has its `Delete` under way
    6  `EvInv` along a run on which the entry of the key never stood expired
    7  `Danger` / `Safe`: puts, value-carrying upserts and deletes of the key under way;  persistence of a stored value
    8  `WInv`: from the issue of a write to its acknowledgement
-/
import CachedProofs.LayerB.History
import CachedProofs.LayerB.IndexStep
import CachedProofs.LayerB.Closed

namespace Cached
namespace B
open Hist

/-! ## 1  one client action, in full -/

/-- positions of `shutdown()` (its `start` included) -/
def CPc.shutPos : CPc → Bool
  | .start .shutdown | .shutCas | .send .shutdown => true
  | pc => pc.afterCas

/-- the ways the tail of `put_or_update` ends, with the weight it sends -/
theorem upAfterIndex_cases (b : BState) (i id : Nat) (uw : Option Int) :
    (∃ p w, uw = some w ∧ upAfterIndex b i id uw = finishCall b i (.panic p)) ∨
    (∃ w, uw = some w ∧ 0 < w ∧ upAfterIndex b i id uw = setClient b i (.send (.updateWeight id w))) ∨
    (uw = none ∧ upAfterIndex b i id uw = spotFinish b i .accepted) := by
  unfold upAfterIndex
  split
  · split
    · exact Or.inl ⟨_, _, rfl, rfl⟩
    · split
      · exact Or.inl ⟨_, _, rfl, rfl⟩
      · rename_i w _ hw
        exact Or.inr (Or.inl ⟨w, rfl, by omega, rfl⟩)
  · exact Or.inr (Or.inr ⟨rfl, rfl⟩)

/-- the weight `upsert.weight_of` hands on when the call ADDS a time-to-live -/
def deriveAdd (b : BState) (id : Nat) (uw : Option Int) : Option Int :=
  match uw with
  | some x => some x
  | none => ((b.g.adm.kw.get? id).map (·.weight)).map (· + b.g.cfg.ttlEntry)

/-- … when the call REMOVES the time-to-live -/
def deriveDel (b : BState) (id : Nat) (uw : Option Int) : Option Int :=
  match uw with
  | some x => some x
  | none => ((b.g.adm.kw.get? id).map (·.weight)).map (· - b.g.cfg.ttlEntry)

/-- One action of client `i`, as a relation: one constructor per branch of `clientAct` outside `shutdown()`.
    (`shutting`, `shut`: the branches taken only once a `shutdown()` has been requested; nothing is said about them.) -/
inductive CAct (b : BState) (i : Nat) : BState → Prop where
  | shutting (r : Req) (b' : BState) : b.cl[i]? = some (.start r) → b.g.shutting = true → CAct b i b'
  | shut (pc : CPc) (b' : BState) : b.cl[i]? = some pc → pc.shutPos = true → CAct b i b'
  | startPutBad (k v w ttl) : b.cl[i]? = some (.start (.putW k v w ttl)) → b.g.shutting = false → w ≤ 0 →
      CAct b i (finishCall b i (.panic .weightNotPositive))
  | startPut (k v w ttl) : b.cl[i]? = some (.start (.putW k v w ttl)) → b.g.shutting = false → 0 < w →
      CAct b i (setClient b i (.putPresent k v w ttl))
  | startDelete (k) : b.cl[i]? = some (.start (.delete k)) → b.g.shutting = false → CAct b i (setClient b i (.delMark k))
  | startGet (k) : b.cl[i]? = some (.start (.get k)) → b.g.shutting = false → CAct b i (setClient b i (.getStore k))
  | startWeight : b.cl[i]? = some (.start .weight) → b.g.shutting = false → CAct b i (setClient b i .weightRead)
  | startUpsert (k v w ttl rm) : b.cl[i]? = some (.start (.upsert k v w ttl rm)) → b.g.shutting = false →
      CAct b i (setClient b i (.upUpdate k v w ttl rm))
  | startGetRef (k) : b.cl[i]? = some (.start (.getRef k)) → b.g.shutting = false → CAct b i (setClient b i (.refStore k))
  | startMget (ks iter) : b.cl[i]? = some (.start (.mget ks iter)) → b.g.shutting = false →
      CAct b i (mgetNext b i ks [] iter)
  | putPresentHit (k v w ttl) : b.cl[i]? = some (.putPresent k v w ttl) → b.g.store.contains k = true →
      CAct b i (spotFinish b i (.rejected .keyAlreadyExists))
  | putPresentOk (k v w ttl) : b.cl[i]? = some (.putPresent k v w ttl) → b.g.store.contains k = false →
      CAct b i (setClient b i (.idNext k v w ttl))
  | idNext (k v w ttl) : b.cl[i]? = some (.idNext k v w ttl) →
      CAct b i (setClient { b with g := { b.g with nextId := b.g.nextId + 1 } } i
        (.send (match ttl with
          | some t => Cmd.putTtl b.g.nextId (b.g.cfg.hashOf k) w k v t
          | none => Cmd.put b.g.nextId (b.g.cfg.hashOf k) w k v)))
  | sendDead (cmd) : b.cl[i]? = some (.send cmd) → b.g.worker = .dead → CAct b i (finishCall b i .err)
  | sendOk (cmd) : b.cl[i]? = some (.send cmd) → b.g.worker ≠ .dead →
      CAct b i (finishCall { b with g := { b.g with queue := b.g.queue ++ [(cmd, some b.g.acks.length)],
                                                      acks := b.g.acks ++ [.pending] } } i (.ack b.g.acks.length .pending))
  | delMark (k) : b.cl[i]? = some (.delMark k) →
      CAct b i (setClient { b with g := { b.g with store := match b.g.store.get? k with
        | some e => b.g.store.set k { e with soft := true }
        | none => b.g.store } } i (.send (.delete k)))
  | getMiss (k st) : b.cl[i]? = some (.getStore k) → (∀ e, b.g.store.get? k = some e → e.alive b.g.now = false) →
      CAct b i (finishCall { b with g := { b.g with stats := st } } i (.value none))
  | getHit (k e) : b.cl[i]? = some (.getStore k) → b.g.store.get? k = some e → e.alive b.g.now = true →
      CAct b i (setClient { b with g := { b.g with stats := { b.g.stats with hits := b.g.stats.hits + 1 } } } i (.getPool k e.value))
  | getPool (k v g1) : b.cl[i]? = some (.getPool k v) →
      g1 = { b.g with pool := g1.pool, bufq := g1.bufq, stats := g1.stats } →
      CAct b i (finishCall { b with g := g1 } i (.value (some v)))
  | mgetMiss (k ks acc iter st) : b.cl[i]? = some (.mgetStore k ks acc iter) →
      (∀ e, b.g.store.get? k = some e → e.alive b.g.now = false) →
      CAct b i (mgetNext { b with g := { b.g with stats := st } } i ks (acc ++ [none]) iter)
  | mgetHit (k ks acc iter e) : b.cl[i]? = some (.mgetStore k ks acc iter) → b.g.store.get? k = some e →
      e.alive b.g.now = true →
      CAct b i (setClient { b with g := { b.g with stats := { b.g.stats with hits := b.g.stats.hits + 1 } } } i
        (.mgetPool k e.value ks acc iter))
  | mgetPool (k v ks acc iter g1) : b.cl[i]? = some (.mgetPool k v ks acc iter) →
      g1 = { b.g with pool := g1.pool, bufq := g1.bufq, stats := g1.stats } →
      CAct b i (mgetNext { b with g := g1 } i ks (acc ++ [some v]) iter)
  | weightRead : b.cl[i]? = some .weightRead → CAct b i (finishCall b i (.weight b.g.adm.used))
  | upAbsentPut (k v w ttl rm val weight) : b.cl[i]? = some (.upUpdate k v w ttl rm) → b.g.store.get? k = none →
      v = some val → upsertW b.g.cfg v w ttl = some weight → 0 < weight →
      CAct b i (setClient b i (.idNext k val weight ttl))
  | upAbsentPanic (k v w ttl rm p) : b.cl[i]? = some (.upUpdate k v w ttl rm) → b.g.store.get? k = none →
      CAct b i (finishCall b i (.panic p))
  | upOverflow (k v w ttl rm e) : b.cl[i]? = some (.upUpdate k v w ttl rm) → b.g.store.get? k = some e →
      upExpiry b.g.now ttl rm e.expiry = none → CAct b i (finishCall b i (.panic .timeOverflow))
  | upFound (k v w ttl rm e exp) : b.cl[i]? = some (.upUpdate k v w ttl rm) → b.g.store.get? k = some e →
      upExpiry b.g.now ttl rm e.expiry = some exp →
      CAct b i (setClient { b with g := { b.g with store := b.g.store.set k { e with expiry := exp, value := v.getD e.value } } } i
        (.upWeightOf e.id (upsertW b.g.cfg v w ttl) e.expiry exp))
  | upWAdded (id uw n) : b.cl[i]? = some (.upWeightOf id uw none (some n)) →
      CAct b i (setClient b i (.upTtlPut id n (deriveAdd b id uw)))
  | upWDeleted (id uw e) : b.cl[i]? = some (.upWeightOf id uw (some e) none) →
      CAct b i (setClient b i (.upTtlDelete id e (deriveDel b id uw)))
  | upWUpdated (id uw e n) : b.cl[i]? = some (.upWeightOf id uw (some e) (some n)) → e ≠ n →
      CAct b i (setClient b i (.upTtlRemove id e n uw))
  | upWNothing (id uw old new) : b.cl[i]? = some (.upWeightOf id uw old new) →
      typeOfExpiryUpdate old new = .nothing → CAct b i (upAfterIndex b i id uw)
  | upTtlPut (id e uw) : b.cl[i]? = some (.upTtlPut id e uw) → CAct b i (upAfterIndex { b with g := ttlPut b.g id e } i id uw)
  | upTtlDelete (id e uw) : b.cl[i]? = some (.upTtlDelete id e uw) →
      CAct b i (upAfterIndex { b with g := ttlDelete b.g id e } i id uw)
  | upTtlRemove (id old new uw) : b.cl[i]? = some (.upTtlRemove id old new uw) →
      CAct b i (setClient { b with g := ttlDelete b.g id old } i (.upTtlInsert id new uw))
  | upTtlInsert (id new uw) : b.cl[i]? = some (.upTtlInsert id new uw) →
      CAct b i (upAfterIndex { b with g := ttlPut b.g id new } i id uw)
  | refMiss (k st) : b.cl[i]? = some (.refStore k) → (∀ e, b.g.store.get? k = some e → e.alive b.g.now = false) →
      CAct b i (finishCall { b with g := { b.g with stats := st } } i (.value none))
  | refHit (k e) : b.cl[i]? = some (.refStore k) → b.g.store.get? k = some e → e.alive b.g.now = true →
      CAct b i (setClient { b with g := { b.g with stats := { b.g.stats with hits := b.g.stats.hits + 1 } },
                                    storeReaders := (i, storeShardOf b k) :: b.storeReaders } i (.refPool k e.value))
  | refPool (k v g1) : b.cl[i]? = some (.refPool k v) →
      g1 = { b.g with pool := g1.pool, bufq := g1.bufq, stats := g1.stats } →
      CAct b i (finishCall { b with g := g1, storeReaders := b.storeReaders.filter (fun p => p.1 != i) } i (.value (some v)))

theorem clientAct_cact {b b' : BState} {i : Nat} {o o' : Oracle} (h : clientAct b i o = .ok (b', o')) :
    CAct b i b' := by
  unfold clientAct at h
  simp only [] at h
  split at h
  · cases h
  · rename_i pc hpc
    cases pc with
    | idle => cases h
    | start r =>
      simp only [] at h
      split at h
      · rename_i hsh
        exact .shutting r _ hpc hsh
      · rename_i hsh
        have hsh : b.g.shutting = false := by simpa using hsh
        cases r <;> simp only [] at h
        case putW k v w ttl =>
          split at h
          all_goals simp only [Except.ok.injEq, Prod.mk.injEq] at h; obtain ⟨rfl, rfl⟩ := h
          · exact .startPutBad _ _ _ _ hpc hsh (by assumption)
          · exact .startPut _ _ _ _ hpc hsh (by omega)
        case shutdown => exact .shut _ _ hpc rfl
        all_goals simp only [Except.ok.injEq, Prod.mk.injEq] at h; obtain ⟨rfl, rfl⟩ := h
        · exact .startDelete _ hpc hsh
        · exact .startGet _ hpc hsh
        · exact .startWeight hpc hsh
        · exact .startUpsert _ _ _ _ _ hpc hsh
        · exact .startGetRef _ hpc hsh
        · exact .startMget _ _ hpc hsh
    | putPresent k v w ttl =>
      simp only [] at h
      split at h
      all_goals simp only [Except.ok.injEq, Prod.mk.injEq] at h; obtain ⟨rfl, rfl⟩ := h
      · exact .putPresentHit _ _ _ _ hpc (by assumption)
      · exact .putPresentOk _ _ _ _ hpc (Bool.eq_false_iff.mpr ‹¬ _›)
    | idNext k v w ttl =>
      simp only [Except.ok.injEq, Prod.mk.injEq] at h; obtain ⟨rfl, rfl⟩ := h
      exact .idNext _ _ _ _ hpc
    | send cmd =>
      simp only [] at h
      split at h
      · rename_i b1 hs
        simp only [Except.ok.injEq, Prod.mk.injEq] at h; obtain ⟨rfl, rfl⟩ := h
        unfold sendAct at hs
        simp only [] at hs
        split at hs
        · simp only [Except.ok.injEq] at hs; subst hs
          exact .sendDead _ hpc (by assumption)
        · split at hs
          · cases hs
          · simp only [Except.ok.injEq] at hs; subst hs
            exact .sendOk _ hpc (by assumption)
      · cases h
    | delMark k =>
      simp only [] at h
      split at h
      · cases h
      · simp only [Except.ok.injEq, Prod.mk.injEq] at h; obtain ⟨rfl, rfl⟩ := h
        exact .delMark _ hpc
    | getStore k =>
      simp only [] at h
      split at h
      · rename_i e he
        split at h
        all_goals simp only [Except.ok.injEq, Prod.mk.injEq] at h; obtain ⟨rfl, rfl⟩ := h
        · exact .getHit _ _ hpc he (by assumption)
        · refine .getMiss _ _ hpc ?_
          intro e' he'
          rw [he] at he'; cases he'
          exact Bool.eq_false_iff.mpr ‹¬ _›
      · rename_i he
        simp only [Except.ok.injEq, Prod.mk.injEq] at h; obtain ⟨rfl, rfl⟩ := h
        refine .getMiss _ _ hpc ?_
        intro e' he'
        rw [he] at he'; cases he'
    | getPool k v =>
      simp only [] at h
      split at h
      · rename_i g1 o1 hp
        simp only [Except.ok.injEq, Prod.mk.injEq] at h; obtain ⟨rfl, rfl⟩ := h
        exact .getPool _ _ _ hpc (poolAdd_frame hp)
      · cases h
    | weightRead =>
      simp only [] at h
      split at h
      · cases h
      · simp only [Except.ok.injEq, Prod.mk.injEq] at h; obtain ⟨rfl, rfl⟩ := h
        exact .weightRead hpc
    | upUpdate k v w ttl rm =>
      simp only [] at h
      split at h
      · cases h
      · split at h
        · rename_i hnone
          split at h
          · rename_i val weight hw
            split at h
            all_goals simp only [Except.ok.injEq, Prod.mk.injEq] at h; obtain ⟨rfl, rfl⟩ := h
            · exact .upAbsentPanic _ _ _ _ _ _ hpc hnone
            · exact .upAbsentPut _ _ _ _ _ val weight hpc hnone rfl (by unfold upsertW; exact hw) (by omega)
          · simp only [Except.ok.injEq, Prod.mk.injEq] at h; obtain ⟨rfl, rfl⟩ := h
            exact .upAbsentPanic _ _ _ _ _ _ hpc hnone
        · rename_i e he
          split at h
          all_goals simp only [Except.ok.injEq, Prod.mk.injEq] at h; obtain ⟨rfl, rfl⟩ := h
          · rename_i hx
            exact .upOverflow _ _ _ _ _ e hpc he (by unfold upExpiry; exact hx)
          · rename_i exp hx
            exact .upFound _ _ _ _ _ e exp hpc he (by unfold upExpiry; exact hx)
    | upWeightOf id uw old new =>
      simp only [] at h
      split at h
      all_goals simp only [Except.ok.injEq, Prod.mk.injEq] at h; obtain ⟨rfl, rfl⟩ := h
      · rename_i n hty
        cases old <;> cases new <;> simp [typeOfExpiryUpdate] at hty
        · subst hty; exact .upWAdded _ _ _ hpc
        · split at hty <;> cases hty
      · rename_i e hty
        cases old <;> cases new <;> simp [typeOfExpiryUpdate] at hty
        · subst hty; exact .upWDeleted _ _ _ hpc
        · split at hty <;> cases hty
      · rename_i e n hty
        cases old with
        | none => cases new <;> simp [typeOfExpiryUpdate] at hty
        | some a =>
          cases new with
          | none => simp [typeOfExpiryUpdate] at hty
          | some c =>
            simp only [typeOfExpiryUpdate] at hty
            split at hty
            · rename_i hne
              injection hty with h1 h2
              subst h1 h2
              exact .upWUpdated _ _ _ _ hpc hne
            · cases hty
      · rename_i hty
        exact .upWNothing _ _ _ _ hpc hty
    | upTtlPut id e uw =>
      simp only [] at h
      split at h
      · cases h
      · simp only [Except.ok.injEq, Prod.mk.injEq] at h; obtain ⟨rfl, rfl⟩ := h
        exact .upTtlPut _ _ _ hpc
    | upTtlDelete id e uw =>
      simp only [] at h
      split at h
      · cases h
      · simp only [Except.ok.injEq, Prod.mk.injEq] at h; obtain ⟨rfl, rfl⟩ := h
        exact .upTtlDelete _ _ _ hpc
    | upTtlRemove id old new uw =>
      simp only [] at h
      split at h
      · cases h
      · simp only [Except.ok.injEq, Prod.mk.injEq] at h; obtain ⟨rfl, rfl⟩ := h
        exact .upTtlRemove _ _ _ _ hpc
    | upTtlInsert id new uw =>
      simp only [] at h
      split at h
      · cases h
      · simp only [Except.ok.injEq, Prod.mk.injEq] at h; obtain ⟨rfl, rfl⟩ := h
        exact .upTtlInsert _ _ _ hpc
    | refStore k =>
      simp only [] at h
      split at h
      · rename_i e he
        split at h
        all_goals simp only [Except.ok.injEq, Prod.mk.injEq] at h; obtain ⟨rfl, rfl⟩ := h
        · exact .refHit _ _ hpc he (by assumption)
        · refine .refMiss _ _ hpc ?_
          intro e' he'
          rw [he] at he'; cases he'
          exact Bool.eq_false_iff.mpr ‹¬ _›
      · rename_i he
        simp only [Except.ok.injEq, Prod.mk.injEq] at h; obtain ⟨rfl, rfl⟩ := h
        refine .refMiss _ _ hpc ?_
        intro e' he'
        rw [he] at he'; cases he'
    | refPool k v =>
      simp only [] at h
      split at h
      · rename_i g1 o1 hp
        simp only [Except.ok.injEq, Prod.mk.injEq] at h; obtain ⟨rfl, rfl⟩ := h
        exact .refPool _ _ _ hpc (poolAdd_frame hp)
      · cases h
    | mgetStore k ks acc iter =>
      simp only [] at h
      split at h
      · rename_i e he
        split at h
        all_goals simp only [Except.ok.injEq, Prod.mk.injEq] at h; obtain ⟨rfl, rfl⟩ := h
        · exact .mgetHit _ _ _ _ _ hpc he (by assumption)
        · refine .mgetMiss _ _ _ _ _ hpc ?_
          intro e' he'
          rw [he] at he'; cases he'
          exact Bool.eq_false_iff.mpr ‹¬ _›
      · rename_i he
        simp only [Except.ok.injEq, Prod.mk.injEq] at h; obtain ⟨rfl, rfl⟩ := h
        refine .mgetMiss _ _ _ _ _ hpc ?_
        intro e' he'
        rw [he] at he'; cases he'
    | mgetPool k v ks acc iter =>
      simp only [] at h
      split at h
      · rename_i g1 o1 hp
        simp only [Except.ok.injEq, Prod.mk.injEq] at h; obtain ⟨rfl, rfl⟩ := h
        exact .mgetPool _ _ _ _ _ _ hpc (poolAdd_frame hp)
      · cases h
    | shutCas => exact .shut _ _ hpc rfl
    | shutSendCmd => exact .shut _ _ hpc rfl
    | shutSendBuf => exact .shut _ _ hpc rfl
    | shutConsumerFlag => exact .shut _ _ hpc rfl
    | shutTickerFlag => exact .shut _ _ hpc rfl
    | shutStoreClear => exact .shut _ _ hpc rfl
    | shutKwClear => exact .shut _ _ hpc rfl
    | shutWuZero => exact .shut _ _ hpc rfl
    | shutAfClear => exact .shut _ _ hpc rfl
    | shutStatsClear => exact .shut _ _ hpc rfl
    | shutTtlClear => exact .shut _ _ hpc rfl


/-! ## 2  sums -/

/-- the sum of `f` over the client positions -/
def lsum (f : CPc → Int) : List CPc → Int
  | [] => 0
  | pc :: l => f pc + lsum f l

theorem lsum_set (f : CPc → Int) : ∀ (l : List CPc) (i : Nat) (pc pc' : CPc), l[i]? = some pc →
    lsum f (l.set i pc') = lsum f l - f pc + f pc'
  | [], i, pc, pc', h => by simp at h
  | x :: l, 0, pc, pc', h => by
    simp only [List.getElem?_cons_zero, Option.some.injEq] at h
    subst h
    simp only [List.set_cons_zero, lsum]
    omega
  | x :: l, i + 1, pc, pc', h => by
    simp only [List.getElem?_cons_succ] at h
    simp only [List.set_cons_succ, lsum, lsum_set f l i pc pc' h]
    omega

theorem lsum_replicate (f : CPc → Int) (pc : CPc) (hf : f pc = 0) : ∀ n, lsum f (List.replicate n pc) = 0
  | 0 => rfl
  | n + 1 => by simp [List.replicate_succ, lsum, hf, lsum_replicate f pc hf n]

/-- `β 0 + … + β (n - 1)` -/
def sumTo (β : Nat → Int) : Nat → Int
  | 0 => 0
  | n + 1 => sumTo β n + β n

/-- `β` with `d` added at `a` -/
def bump (β : Nat → Int) (a : Nat) (d : Int) : Nat → Int := fun x => if x = a then β x + d else β x

theorem sumTo_bump_ge (β : Nat → Int) (a : Nat) (d : Int) : ∀ n, n ≤ a → sumTo (bump β a d) n = sumTo β n
  | 0, _ => rfl
  | n + 1, h => by
    have hne : n ≠ a := by omega
    simp only [sumTo, sumTo_bump_ge β a d n (by omega), bump, hne, if_false]

theorem sumTo_bump_lt (β : Nat → Int) (a : Nat) (d : Int) : ∀ n, a < n → sumTo (bump β a d) n = sumTo β n + d
  | 0, h => by omega
  | n + 1, h => by
    by_cases hn : n = a
    · subst hn
      simp only [sumTo, sumTo_bump_ge β n d n (Nat.le_refl _), bump, if_true]
      omega
    · simp only [sumTo, sumTo_bump_lt β a d n (by omega), bump, hn, if_false]
      omega

theorem bump_ge {β : Nat → Int} {a : Nat} {d : Int} (hd : 0 ≤ d) (x : Nat) : β x ≤ bump β a d x := by
  unfold bump; split <;> omega

theorem bump_self (β : Nat → Int) (a : Nat) (d : Int) : bump β a d a = β a + d := by simp [bump]

theorem sumTo_nonneg {β : Nat → Int} (hβ : ∀ x, 0 ≤ β x) : ∀ n, 0 ≤ sumTo β n
  | 0 => Int.le_refl _
  | n + 1 => by have := sumTo_nonneg hβ n; have := hβ n; simp only [sumTo]; omega

/-- the budgets of pairwise distinct ids below `n` sum to at most `sumTo β n` -/
theorem sum_map_le_sumTo : ∀ (l : List Nat) (β : Nat → Int) (n : Nat), (∀ x, 0 ≤ β x) → l.Nodup → (∀ x ∈ l, x < n) →
    (l.map β).sum ≤ sumTo β n
  | [], β, n, hβ, _, _ => by simpa using sumTo_nonneg hβ n
  | a :: l, β, n, hβ, hnd, hlt => by
    have ha : a < n := hlt a List.mem_cons_self
    obtain ⟨hal, hnd'⟩ := List.nodup_cons.mp hnd
    have hβ' : ∀ x, 0 ≤ bump β a (- β a) x := by
      intro x; unfold bump; split
      · rename_i hx; subst hx; omega
      · exact hβ x
    have ih := sum_map_le_sumTo l (bump β a (- β a)) n hβ' hnd' (fun x hx => hlt x (List.mem_cons_of_mem _ hx))
    have hmap : l.map (bump β a (- β a)) = l.map β := by
      apply List.map_congr_left
      intro x hx
      have : x ≠ a := fun e => hal (e ▸ hx)
      simp [bump, this]
    rw [hmap, sumTo_bump_lt β a _ n ha] at ih
    simp only [List.map_cons, List.sum_cons]
    omega

/-! ## 3  no `shutdown()` was ever requested -/

/-- nobody stands inside `shutdown()`, no `Shutdown` command waits, the worker is not draining, the flag is not set -/
structure NoShut (b : BState) : Prop where
  flag : b.g.shutting = false
  cl : ∀ (i : Nat) (pc : CPc), b.cl[i]? = some pc → pc.shutPos = false
  queue : ∀ p ∈ b.g.queue, p.1 ≠ .shutdown
  w : b.w ≠ .drain


/-- every action of Layer B, thread by thread -/
inductive BAct (b : BState) : Act → BState → Prop where
  | issue (i : Nat) (r : Req) : b.cl[i]? = some .idle → BAct b (.issue i r) (setClient b i (.start r))
  | client (i : Nat) (b' : BState) : CAct b i b' → BAct b (.client i) b'
  | worker (b' : BState) : WTrans b b' → BAct b .worker b'
  | sweeper (v : Option Nat) (b' : BState) : STrans b b' → BAct b (.sweeper v) b'
  | consumer (g' : State) : g' = { b.g with bufq := g'.bufq, lfu := g'.lfu, consumerAlive := g'.consumerAlive } →
      BAct b .consumer { b with g := g' }
  | advance (d : Nat) : BAct b (.advance d) { b with g := { b.g with now := b.g.now + d } }

theorem stepB_bact {b b' : BState} {a : Act} {o o' : Oracle} (h : stepB b a o = .ok (b', o')) : BAct b a b' := by
  cases a with
  | issue i r =>
    simp only [stepB] at h
    split at h
    · rename_i b1 hi
      simp only [Except.ok.injEq, Prod.mk.injEq] at h; obtain ⟨rfl, rfl⟩ := h
      unfold issue at hi
      split at hi
      · rename_i hidle
        simp only [Except.ok.injEq] at hi; subst hi
        exact .issue i r hidle
      · cases hi
    · cases h
  | client i => exact .client i _ (clientAct_cact h)
  | worker => exact .worker _ (workerAct_trans h)
  | sweeper v =>
    simp only [stepB] at h
    split at h
    · rename_i b1 hs
      simp only [Except.ok.injEq, Prod.mk.injEq] at h; obtain ⟨rfl, rfl⟩ := h
      exact .sweeper v _ (sweeperAct_trans hs)
    · cases h
  | consumer =>
    simp only [stepB] at h
    split at h
    · rename_i g' out o1 hc
      simp only [Except.ok.injEq, Prod.mk.injEq] at h; obtain ⟨rfl, rfl⟩ := h
      exact .consumer g' (consumerStep_frame hc)
    · cases h
  | advance d =>
    simp only [stepB, Except.ok.injEq, Prod.mk.injEq] at h; obtain ⟨rfl, rfl⟩ := h
    exact .advance d

theorem getElem?_set_cases {cl : List CPc} {i j : Nat} {x pc : CPc} (h : (cl.set i x)[j]? = some pc) :
    (j = i ∧ pc = x) ∨ (j ≠ i ∧ cl[j]? = some pc) := by
  by_cases hj : j = i
  · subst hj; exact Or.inl ⟨rfl, pc_of_set h⟩
  · rw [List.getElem?_set_ne (Ne.symm hj)] at h; exact Or.inr ⟨hj, h⟩

/-- the shape of the state after a client action: the client's new position, everything a client action never touches -/
structure CFrame (b b' : BState) (i : Nat) (pc' : CPc) : Prop where
  cl : b'.cl = b.cl.set i pc'
  w : b'.w = b.w
  sw : b'.sw = b.sw
  cfg : b'.g.cfg = b.g.cfg
  now : b'.g.now = b.g.now
  adm : b'.g.adm = b.g.adm
  shutting : b'.g.shutting = b.g.shutting
  worker : b'.g.worker = b.g.worker

theorem cframe_upAfterIndex {b b0 : BState} {i id : Nat} {uw : Option Int} (hcl : b0.cl = b.cl) (hw : b0.w = b.w)
    (hsw : b0.sw = b.sw) (hcfg : b0.g.cfg = b.g.cfg) (hnow : b0.g.now = b.g.now) (hadm : b0.g.adm = b.g.adm)
    (hsh : b0.g.shutting = b.g.shutting) (hwk : b0.g.worker = b.g.worker) :
    ∃ pc', CFrame b (upAfterIndex b0 i id uw) i pc' ∧
      (pc' = .idle ∨ ∃ w, uw = some w ∧ 0 < w ∧ pc' = .send (.updateWeight id w)) := by
  rcases upAfterIndex_cases b0 i id uw with ⟨p, w, _, e⟩ | ⟨w, hu, hpos, e⟩ | ⟨_, e⟩ <;> rw [e]
  · exact ⟨.idle, ⟨by simp [finishCall, hcl], hw, hsw, hcfg, hnow, hadm, hsh, hwk⟩, Or.inl rfl⟩
  · exact ⟨_, ⟨by simp [setClient, hcl], hw, hsw, hcfg, hnow, hadm, hsh, hwk⟩, Or.inr ⟨w, hu, hpos, rfl⟩⟩
  · exact ⟨.idle, ⟨by simp [spotFinish, finishCall, hcl], hw, hsw, hcfg, hnow, hadm, hsh, hwk⟩, Or.inl rfl⟩

theorem cframe_mgetNext {b b0 : BState} {i : Nat} {ks : List Nat} {acc : List (Option Nat)} {iter : Bool}
    (hcl : b0.cl = b.cl) (hw : b0.w = b.w)
    (hsw : b0.sw = b.sw) (hcfg : b0.g.cfg = b.g.cfg) (hnow : b0.g.now = b.g.now) (hadm : b0.g.adm = b.g.adm)
    (hsh : b0.g.shutting = b.g.shutting) (hwk : b0.g.worker = b.g.worker) :
    ∃ pc', CFrame b (mgetNext b0 i ks acc iter) i pc' ∧
      (pc' = .idle ∨ ∃ k rest, pc' = .mgetStore k rest acc iter) := by
  rcases mgetNext_spec b0 i ks acc iter with ⟨out, e⟩ | ⟨k, rest, _, _, e⟩ <;> rw [e]
  · exact ⟨.idle, ⟨by simp [finishCall, hcl], hw, hsw, hcfg, hnow, hadm, hsh, hwk⟩, Or.inl rfl⟩
  · exact ⟨_, ⟨by simp [setClient, hcl], hw, hsw, hcfg, hnow, hadm, hsh, hwk⟩, Or.inr ⟨k, rest, rfl⟩⟩


/-- what a client action does to the command queue, the acknowledgement cells and the key-id counter -/
inductive QEff (b b' : BState) (pc : CPc) : Prop where
  | none : b'.g.queue = b.g.queue → b'.g.acks = b.g.acks → b'.g.nextId = b.g.nextId → QEff b b' pc
  | spot (st : Status) : b'.g.queue = b.g.queue → b'.g.acks = b.g.acks ++ [st] → b'.g.nextId = b.g.nextId → QEff b b' pc
  | send (cmd : Cmd) : pc = .send cmd → b.g.worker ≠ .dead → b'.g.queue = b.g.queue ++ [(cmd, some b.g.acks.length)] →
      b'.g.acks = b.g.acks ++ [.pending] → b'.g.nextId = b.g.nextId → QEff b b' pc
  | idNext (k v : Nat) (w : Int) (ttl : Option Nat) : pc = .idNext k v w ttl → b'.g.queue = b.g.queue →
      b'.g.acks = b.g.acks → b'.g.nextId = b.g.nextId + 1 → QEff b b' pc

theorem qeff_upAfterIndex {b b0 : BState} {i id : Nat} {uw : Option Int} {pc : CPc} (hq : b0.g.queue = b.g.queue)
    (ha : b0.g.acks = b.g.acks) (hn : b0.g.nextId = b.g.nextId) : QEff b (upAfterIndex b0 i id uw) pc := by
  rcases upAfterIndex_cases b0 i id uw with ⟨p, w, _, e⟩ | ⟨w, hu, hpos, e⟩ | ⟨_, e⟩ <;> rw [e]
  · exact .none hq ha hn
  · exact .none hq ha hn
  · exact .spot .accepted hq (by simp [spotFinish, finishCall, ha]) hn

theorem qeff_mgetNext {b b0 : BState} {i : Nat} {ks : List Nat} {acc : List (Option Nat)} {iter : Bool} {pc : CPc}
    (hq : b0.g.queue = b.g.queue) (ha : b0.g.acks = b.g.acks) (hn : b0.g.nextId = b.g.nextId) :
    QEff b (mgetNext b0 i ks acc iter) pc := by
  rcases mgetNext_spec b0 i ks acc iter with ⟨out, e⟩ | ⟨k, rest, _, _, e⟩ <;> rw [e]
  · exact .none hq ha hn
  · exact .none hq ha hn

theorem pool_fields {g g1 : State} (hg : g1 = { g with pool := g1.pool, bufq := g1.bufq, stats := g1.stats }) :
    g1.cfg = g.cfg ∧ g1.now = g.now ∧ g1.adm = g.adm ∧ g1.shutting = g.shutting ∧ g1.worker = g.worker ∧
    g1.queue = g.queue ∧ g1.acks = g.acks ∧ g1.nextId = g.nextId ∧ g1.store = g.store ∧ g1.ttl = g.ttl := by
  refine ⟨?_, ?_, ?_, ?_, ?_, ?_, ?_, ?_, ?_, ?_⟩ <;> rw [hg]

/-- **one client action outside `shutdown()`**: the client's old and new position, the frame, the queue effect -/
theorem cact_frame {b b' : BState} {i : Nat} (h : CAct b i b') (hsh : b.g.shutting = false)
    (hns : ∀ pc, b.cl[i]? = some pc → pc.shutPos = false) :
    ∃ pc pc', b.cl[i]? = some pc ∧ CFrame b b' i pc' ∧ QEff b b' pc := by
  cases h
  case shutting r hpc hs => rw [hsh] at hs; cases hs
  case shut pc hpc hs => rw [hns pc hpc] at hs; cases hs
  case startMget ks iter hpc _ =>
    obtain ⟨pc', hf, _⟩ := cframe_mgetNext (b := b) (b0 := b) (i := i) (ks := ks) (acc := []) (iter := iter)
      rfl rfl rfl rfl rfl rfl rfl rfl
    exact ⟨_, pc', hpc, hf, qeff_mgetNext rfl rfl rfl⟩
  case mgetMiss k ks acc iter st hpc _ =>
    obtain ⟨pc', hf, _⟩ := cframe_mgetNext (b := b) (b0 := { b with g := { b.g with stats := st } }) (i := i) (ks := ks)
      (acc := acc ++ [none]) (iter := iter) rfl rfl rfl rfl rfl rfl rfl rfl
    exact ⟨_, pc', hpc, hf, qeff_mgetNext rfl rfl rfl⟩
  case mgetPool k v ks acc iter g1 hpc hg =>
    obtain ⟨pc', hf, _⟩ := cframe_mgetNext (b := b) (b0 := { b with g := g1 }) (i := i) (ks := ks)
      (acc := acc ++ [some v]) (iter := iter) rfl rfl rfl (pool_fields hg).1 (pool_fields hg).2.1 (pool_fields hg).2.2.1
      (pool_fields hg).2.2.2.1 (pool_fields hg).2.2.2.2.1
    exact ⟨_, pc', hpc, hf, qeff_mgetNext (pool_fields hg).2.2.2.2.2.1 (pool_fields hg).2.2.2.2.2.2.1
      (pool_fields hg).2.2.2.2.2.2.2.1⟩
  case upWNothing id uw old new hpc _ =>
    obtain ⟨pc', hf, _⟩ := cframe_upAfterIndex (b := b) (b0 := b) (i := i) (id := id) (uw := uw)
      rfl rfl rfl rfl rfl rfl rfl rfl
    exact ⟨_, pc', hpc, hf, qeff_upAfterIndex rfl rfl rfl⟩
  case upTtlPut id e uw hpc =>
    obtain ⟨pc', hf, _⟩ := cframe_upAfterIndex (b := b) (b0 := { b with g := ttlPut b.g id e }) (i := i) (id := id) (uw := uw)
      rfl rfl rfl rfl rfl rfl rfl rfl
    exact ⟨_, pc', hpc, hf, qeff_upAfterIndex rfl rfl rfl⟩
  case upTtlDelete id e uw hpc =>
    obtain ⟨pc', hf, _⟩ := cframe_upAfterIndex (b := b) (b0 := { b with g := ttlDelete b.g id e }) (i := i) (id := id) (uw := uw)
      rfl rfl rfl rfl rfl rfl rfl rfl
    exact ⟨_, pc', hpc, hf, qeff_upAfterIndex rfl rfl rfl⟩
  case upTtlInsert id new uw hpc =>
    obtain ⟨pc', hf, _⟩ := cframe_upAfterIndex (b := b) (b0 := { b with g := ttlPut b.g id new }) (i := i) (id := id) (uw := uw)
      rfl rfl rfl rfl rfl rfl rfl rfl
    exact ⟨_, pc', hpc, hf, qeff_upAfterIndex rfl rfl rfl⟩
  case getPool k v g1 hpc hg =>
    obtain ⟨h1, h2, h3, h4, h5, h6, h7, h8, _, _⟩ := pool_fields hg
    exact ⟨_, .idle, hpc, ⟨rfl, rfl, rfl, h1, h2, h3, h4, h5⟩, .none h6 h7 h8⟩
  case refPool k v g1 hpc hg =>
    obtain ⟨h1, h2, h3, h4, h5, h6, h7, h8, _, _⟩ := pool_fields hg
    exact ⟨_, .idle, hpc, ⟨rfl, rfl, rfl, h1, h2, h3, h4, h5⟩, .none h6 h7 h8⟩
  case putPresentHit k v w ttl hpc _ =>
    exact ⟨_, .idle, hpc, ⟨rfl, rfl, rfl, rfl, rfl, rfl, rfl, rfl⟩, .spot _ rfl rfl rfl⟩
  case idNext k v w ttl hpc =>
    exact ⟨_, _, hpc, ⟨rfl, rfl, rfl, rfl, rfl, rfl, rfl, rfl⟩, .idNext k v w ttl rfl rfl rfl rfl⟩
  case sendOk cmd hpc hw =>
    exact ⟨_, .idle, hpc, ⟨rfl, rfl, rfl, rfl, rfl, rfl, rfl, rfl⟩, .send cmd rfl hw rfl rfl rfl⟩
  all_goals exact ⟨_, _, ‹b.cl[i]? = some _›, ⟨rfl, rfl, rfl, rfl, rfl, rfl, rfl, rfl⟩, .none rfl rfl rfl⟩

end B
end Cached
